#!/bin/bash
# usage: ./seed_sweep.sh "<seeds>" [checks...]   quick tier of every check at several VERIF_SEED values; one line per run
cd "$(dirname "$0")"
seeds=${1:-"1 2 3 4"}; shift
for id in ${@:-C01 C02 C03 C04 C05 C06 C07 C08 C09 C10 C11 C12 C13 C14 C15 C16 C17 C18 C19 C20}; do
  for s in $seeds; do
    t0=$(date +%s); out=$(VERIF_SEED=$s VERIF_OUT=${SWEEP_OUT:-/var/tmp/sweep-out} ./check $id quick 2>&1); rc=$?; t1=$(date +%s)
    echo "SWEEP $id seed=$s rc=$rc t=$((t1-t0))s viol=$(echo "$out" | grep -c '^VIOLATION') known=$(echo "$out" | grep -c '^KNOWN-FINDING') $(echo "$out" | grep -i '^INCONCLUSIVE' | head -1 | cut -c1-160)"
    [ $rc -ne 0 ] && echo "$out" | grep -A3 "sub=" | head -8
  done
done

#!/bin/bash
# usage: ./seeded_eval.sh <seeded-dir> [check ids...]     (default check = "property" of meta.json)
#   env: CONFIRM=1  also confirm the seeded change itself (builds, repo suite passes, demo fails with / passes without)
#        TIER=quick|thorough|both (default both: thorough only if quick misses)
# Evaluates one seeded change (seeded/<id>/{patch.diff,demo_test.go,meta.json}) on a scratch
# worktree of /repo (never on /repo itself, so that concurrently running checks are not disturbed):
# prints one line per check:  SEEDED <id> check=<Cxx> tier=<t> caught=<yes|no> violations=<n> subs=<...>
. /verif/env.sh
dir=$(realpath "$1"); shift
id=$(basename "$dir")
prop=$(python3 -c "import json,sys; print(json.load(open('$dir/meta.json'))['property'])")
pkgdir=$(python3 -c "import json,sys; print(json.load(open('$dir/meta.json')).get('demo_pkg_dir','.'))")
checks=("$@"); [ ${#checks[@]} -eq 0 ] && checks=("$prop")
wt=/var/tmp/sw/$id
rm -rf "$wt"; mkdir -p /var/tmp/sw
git -C /repo worktree add -q --detach "$wt" HEAD || exit 2
cleanup() { git -C /repo worktree remove --force "$wt" 2>/dev/null; rm -rf "$wt" /var/tmp/sw/$id.out /var/tmp/sw/$id.work /var/tmp/sw/$id.demo; }
trap cleanup EXIT
tests=$(grep -oE '^func (Test[A-Za-z0-9_]*)' "$dir/demo_test.go" | awk '{print $2}' | paste -sd'|')
racef=""; head -5 "$dir/demo_test.go" | grep -q -- '-race' && racef="-race"
rundemo() { (cd "$wt/$pkgdir" && go test $racef -count=1 -run "^($tests)\$" . >/var/tmp/sw/$id.demo 2>&1 && echo pass || echo FAIL); }
if [ "${CONFIRM:-0}" = 1 ]; then
  # demo passes on the unchanged tree
  cp "$dir/demo_test.go" "$wt/$pkgdir/zz_seeded_demo_test.go"
  clean_ok=$(rundemo)
  rm -f "$wt/$pkgdir/zz_seeded_demo_test.go"
fi
(cd "$wt" && git apply "$dir/patch.diff") || { echo "SEEDED $id: PATCH DOES NOT APPLY"; exit 2; }
(cd "$wt" && go build ./...) || { echo "SEEDED $id: BUILD FAILED"; exit 2; }
if [ "${CONFIRM:-0}" = 1 ]; then
  suite=$(cd "$wt" && go test -count=1 ./... 2>&1 | grep -c "^FAIL\|^--- FAIL")
  cp "$dir/demo_test.go" "$wt/$pkgdir/zz_seeded_demo_test.go"
  demo=$(rundemo)
  rm -f "$wt/$pkgdir/zz_seeded_demo_test.go"
  echo "SEEDED $id confirm: suite_failures_with_change=$suite demo_without_change=$clean_ok demo_with_change=$demo"
fi
for c in "${checks[@]}"; do
  for tier in quick thorough; do
    case "${TIER:-both}" in quick) [ $tier = thorough ] && continue;; thorough) [ $tier = quick ] && continue;; esac
    out=$(VERIF_REPO="$wt" VERIF_OUT=/var/tmp/sw/$id.out VERIF_WORK=/var/tmp/sw/$id.work /verif/check "$c" $tier 2>&1); rc=$?
    nv=$(echo "$out" | grep -c "^VIOLATION")
    subs=$(echo "$out" | grep -o "sub=[a-z0-9-]*" | sort | uniq -c | sort -rn | head -6 | awk '{printf "%s(%s) ", $2, $1}')
    caught=no; [ $nv -gt 0 ] && caught=yes
    echo "SEEDED $id check=$c tier=$tier caught=$caught rc=$rc violations=$nv $subs"
    [ $caught = yes ] && break
  done
done

#!/usr/bin/env python3
"""usage: seeded_import.py Cxx  — copies /tmp/mw/Cxx/seeded/k/ to /verif/seeded/Cxx-k/ and writes meta.json
(property, demo package directory, what it needs to manifest — from the sub-agent's meta.txt)."""
import sys, os, re, json, shutil
pid = sys.argv[1]
wave = sys.argv[2] if len(sys.argv) > 2 else 'C'   # worktree prefix: C = first wave, D = second wave (ids continue at 4)
off = {'C': 0, 'D': 3, 'E': 6, 'G': 6, 'H': 9, 'J': 12}[wave]
src = f'/tmp/mw/{wave}{pid[1:]}/seeded'
for k in sorted(os.listdir(src)):
    d = os.path.join(src, k)
    if not (os.path.isdir(d) and os.path.exists(os.path.join(d, 'patch.diff')) and os.path.exists(os.path.join(d, 'demo_test.go'))):
        continue
    if not k.isdigit():
        continue
    dst = f'/verif/seeded/{pid}-{int(k)+off}'
    os.makedirs(dst, exist_ok=True)
    shutil.copy(os.path.join(d, 'patch.diff'), dst)
    demo = open(os.path.join(d, 'demo_test.go')).read()
    open(os.path.join(dst, 'demo_test.go'), 'w').write(demo)
    pkg = re.search(r'^package (\w+)', demo, re.M).group(1)
    first = demo.split('\n', 3)[:3]
    head = ' '.join(first)
    if pkg.startswith('jsontext'):
        pkgdir = 'jsontext'
    elif re.search(r'\bv1/?\b', head) and 'v1' in head.split('package')[0]:
        pkgdir = 'v1'
    else:
        pkgdir = '.'
    if 'json-experiment/json/v1"' in demo and pkgdir == '.' and re.search(r'cop(y|ied) (it )?(in)?to .{0,40}v1', head):
        pkgdir = 'v1'
    meta_txt = open(os.path.join(d, 'meta.txt')).read() if os.path.exists(os.path.join(d, 'meta.txt')) else ''
    files = sorted(set(re.findall(r'^\+\+\+ b/(\S+)', open(os.path.join(d, 'patch.diff')).read(), re.M)))
    meta = {
        "id": f"{pid}-{int(k)+off}", "wave": {'C': 1, 'D': 2, 'E': 3, 'G': 3, 'H': 4, 'J': 5}[wave], "property": pid, "demo_pkg_dir": pkgdir, "files_changed": files,
        "origin": "independent sub-agent given only the property text and a scratch worktree of /repo",
        "agent_notes": meta_txt[:6000],
    }
    json.dump(meta, open(os.path.join(dst, 'meta.json'), 'w'), indent=1, ensure_ascii=False)
    print(dst, pkgdir, files)

#!/bin/bash
# runs every check's thorough tier once (sequentially) and prints one line per check
cd "$(dirname "$0")"
for id in ${@:-C01 C02 C03 C04 C05 C06 C07 C08 C09 C10 C11 C12 C13 C14 C15 C16 C17 C19 C20 C18}; do
  s=$(date +%s); out=$(VERIF_OUT=${VERIF_OUT:-$PWD/work/thorough-out} ./check $id thorough 2>&1); rc=$?; e=$(date +%s)
  echo "THOROUGH $id rc=$rc t=$((e-s))s viol=$(echo "$out" | grep -c '^VIOLATION') known=$(echo "$out" | grep -c '^KNOWN-FINDING') $(echo "$out" | grep -o 'evaluations=[0-9]*' | head -1) $(echo "$out" | grep -i 'inconclusive' | head -1 | cut -c1-200)"
  echo "$out" | grep -A3 "sub=" | head -12
done

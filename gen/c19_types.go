package gen

// Random Go types (reflect-built) and boundary-dense values for them; used by C19
// (behavioural clauses: equivalent spellings, irrelevance) and by the C20 hostile sweep.
// Every identifier in this file carries the c19/C19 prefix so that it cannot collide
// with the generator files of other monitors in this package.

import (
	"fmt"
	"math"
	"math/rand/v2"
	"reflect"
	"time"
)

// C19TypeCfg steers C19Type.
type C19TypeCfg struct {
	MaxDepth   int  // nesting of composite types (default 4)
	FloatKeys  bool // allow map[float64]/map[bool] keys (Marshal reports errors for some)
	BigStructs bool // occasionally generate structs with 60-140 fields
	Tags       bool // generate `json:"..."` tags (names, omitempty, string, omitzero, case:ignore)
}

var c19Leaf = []reflect.Type{
	reflect.TypeFor[bool](), reflect.TypeFor[int](), reflect.TypeFor[int8](), reflect.TypeFor[int16](), reflect.TypeFor[int32](), reflect.TypeFor[int64](),
	reflect.TypeFor[uint](), reflect.TypeFor[uint8](), reflect.TypeFor[uint16](), reflect.TypeFor[uint32](), reflect.TypeFor[uint64](), reflect.TypeFor[uintptr](),
	reflect.TypeFor[float32](), reflect.TypeFor[float64](), reflect.TypeFor[string](), reflect.TypeFor[[]byte](), reflect.TypeFor[[4]byte](),
	reflect.TypeFor[time.Time](), reflect.TypeFor[time.Duration](), reflect.TypeFor[any](),
	// named kinds: several v1 options (byte slices/arrays of a named byte type, named strings as map keys, …) only show on these
	reflect.TypeFor[[]C19Byte](), reflect.TypeFor[[3]C19Byte](), reflect.TypeFor[C19Bytes](), reflect.TypeFor[C19Str](), reflect.TypeFor[C19Int](), reflect.TypeFor[C19Float](),
}

type (
	C19Byte  byte
	C19Bytes []byte
	C19Str   string
	C19Int   int32
	C19Float float64
)

var c19KeyTypes = []reflect.Type{reflect.TypeFor[string](), reflect.TypeFor[int](), reflect.TypeFor[int8](), reflect.TypeFor[uint64]()}
var c19OddKeyTypes = []reflect.Type{reflect.TypeFor[float64](), reflect.TypeFor[float32](), reflect.TypeFor[bool]()}

var c19TagNames = []string{"", "", "a", "b", "x y", "é", "a-b", "'a,b'", "'\\\"q'", "<&>", " "}
var c19TagOpts = []string{"", "", ",omitempty", ",string", ",omitzero", ",omitempty,string", ",case:ignore"}

// C19Type returns a random type.
func C19Type(r *rand.Rand, c *C19TypeCfg) reflect.Type { return c19Type(r, c, 0) }

func c19Type(r *rand.Rand, c *C19TypeCfg, depth int) reflect.Type {
	maxd := c.MaxDepth
	if maxd == 0 {
		maxd = 4
	}
	k := r.IntN(12)
	if depth >= maxd {
		k = r.IntN(6)
	}
	switch {
	case k < 6:
		return c19Leaf[r.IntN(len(c19Leaf))]
	case k == 6:
		return reflect.SliceOf(c19Type(r, c, depth+1))
	case k == 7:
		return reflect.PointerTo(c19Type(r, c, depth+1))
	case k == 8:
		kt := c19KeyTypes[r.IntN(len(c19KeyTypes))]
		if c.FloatKeys && r.IntN(6) == 0 {
			kt = c19OddKeyTypes[r.IntN(len(c19OddKeyTypes))]
		}
		return reflect.MapOf(kt, c19Type(r, c, depth+1))
	case k == 9:
		return reflect.ArrayOf(r.IntN(3), c19Type(r, c, depth+1))
	default:
		return c19Struct(r, c, depth+1)
	}
}

func c19Struct(r *rand.Rand, c *C19TypeCfg, depth int) reflect.Type {
	n := 1 + r.IntN(6)
	if c.BigStructs && r.IntN(50) == 0 {
		n = 60 + r.IntN(80)
	}
	var fs []reflect.StructField
	usedTag := map[string]bool{}
	for i := 0; i < n; i++ {
		f := reflect.StructField{Name: fmt.Sprintf("F%d", i), Type: c19Type(r, c, depth)}
		if c.Tags {
			tn := c19TagNames[r.IntN(len(c19TagNames))]
			if usedTag[tn] {
				tn = ""
			}
			if tn != "" {
				usedTag[tn] = true
			}
			opt := c19TagOpts[r.IntN(len(c19TagOpts))]
			if tn+opt != "" {
				f.Tag = reflect.StructTag(fmt.Sprintf(`json:%q`, tn+opt))
			}
		}
		fs = append(fs, f)
	}
	return reflect.StructOf(fs)
}

// C19Strs, C19Ints, C19Floats are the leaf value pools.
var C19Strs = []string{"", "a", "hello", "é😀", "<>&", " ", "\"\\/", "\x00\x1f", "null", "true", "1", "  ", "a/b~c", "\xff\xfe", string(make([]byte, 300))}
var C19Ints = []int64{0, 1, -1, math.MaxInt64, math.MinInt64, 1 << 53, 1<<53 + 1, -(1 << 53) - 1, 127, -128, 255, 65535, 1 << 31, -(1 << 31)}
var C19Floats = []float64{0, math.Copysign(0, -1), 1, -1, 1.5, 1e21, 1e-7, 1e-6, 1e20, math.MaxFloat64, math.SmallestNonzeroFloat64, math.MaxFloat32, 0.1, 1 << 53, 123456789.123456789}

// C19ValueCfg steers C19Value.
type C19ValueCfg struct {
	NaN       bool // allow NaN/Inf floats (Marshal must report an error, never panic)
	MaxMapLen int  // maximal number of map entries (0 = 3); 1 makes output independent of map order
}

// C19Value returns a random value of type t.
func C19Value(r *rand.Rand, t reflect.Type, c *C19ValueCfg) reflect.Value { return c19Value(r, t, c, 0) }

func c19Value(r *rand.Rand, t reflect.Type, c *C19ValueCfg, depth int) reflect.Value {
	v := reflect.New(t).Elem()
	switch t.Kind() {
	case reflect.Bool:
		v.SetBool(r.IntN(2) == 0)
	case reflect.Int, reflect.Int8, reflect.Int16, reflect.Int32, reflect.Int64:
		x := C19Ints[r.IntN(len(C19Ints))]
		if r.IntN(2) == 0 {
			x = int64(r.Uint64())
		}
		v.SetInt(reflect.ValueOf(x).Convert(t).Int())
	case reflect.Uint, reflect.Uint8, reflect.Uint16, reflect.Uint32, reflect.Uint64, reflect.Uintptr:
		x := uint64(C19Ints[r.IntN(len(C19Ints))])
		if r.IntN(2) == 0 {
			x = r.Uint64()
		}
		v.SetUint(reflect.ValueOf(x).Convert(t).Uint())
	case reflect.Float32:
		f := float32(C19Floats[r.IntN(len(C19Floats))])
		if r.IntN(2) == 0 {
			f = math.Float32frombits(r.Uint32())
		}
		if !c.NaN && (math.IsNaN(float64(f)) || math.IsInf(float64(f), 0)) {
			f = 1
		}
		v.SetFloat(float64(f))
	case reflect.Float64:
		f := C19Floats[r.IntN(len(C19Floats))]
		if r.IntN(2) == 0 {
			f = math.Float64frombits(r.Uint64())
		}
		if !c.NaN && (math.IsNaN(f) || math.IsInf(f, 0)) {
			f = 1
		}
		v.SetFloat(f)
	case reflect.String:
		v.SetString(C19Strs[r.IntN(len(C19Strs))])
	case reflect.Slice:
		if r.IntN(5) == 0 {
			return v // nil
		}
		n := r.IntN(4)
		s := reflect.MakeSlice(t, n, n)
		for i := 0; i < n; i++ {
			s.Index(i).Set(c19Value(r, t.Elem(), c, depth+1))
		}
		v.Set(s)
	case reflect.Array:
		for i := 0; i < t.Len(); i++ {
			v.Index(i).Set(c19Value(r, t.Elem(), c, depth+1))
		}
	case reflect.Map:
		if r.IntN(5) == 0 {
			return v
		}
		m := reflect.MakeMap(t)
		maxLen := 3
		if c.MaxMapLen > 0 {
			maxLen = c.MaxMapLen
		}
		for i := r.IntN(maxLen + 1); i > 0; i-- {
			m.SetMapIndex(c19Value(r, t.Key(), c, depth+1), c19Value(r, t.Elem(), c, depth+1))
		}
		v.Set(m)
	case reflect.Pointer:
		if r.IntN(4) == 0 {
			return v
		}
		p := reflect.New(t.Elem())
		p.Elem().Set(c19Value(r, t.Elem(), c, depth+1))
		v.Set(p)
	case reflect.Interface:
		switch r.IntN(6) {
		case 0:
		case 1:
			v.Set(reflect.ValueOf(r.IntN(2) == 0))
		case 2:
			v.Set(reflect.ValueOf(C19Strs[r.IntN(len(C19Strs))]))
		case 3:
			v.Set(reflect.ValueOf(C19Floats[r.IntN(len(C19Floats))]))
		case 4:
			if depth < 5 {
				a := make([]any, r.IntN(3))
				for i := range a {
					a[i] = c19Value(r, t, c, depth+1).Interface()
				}
				v.Set(reflect.ValueOf(a))
			}
		case 5:
			if depth < 5 {
				m := map[string]any{}
				maxLen := 2
				if c.MaxMapLen > 0 {
					maxLen = min(maxLen, c.MaxMapLen)
				}
				for i := r.IntN(maxLen + 1); i > 0; i-- {
					m[C19Strs[r.IntN(len(C19Strs))]] = c19Value(r, t, c, depth+1).Interface()
				}
				v.Set(reflect.ValueOf(m))
			}
		}
	case reflect.Struct:
		if t == reflect.TypeFor[time.Time]() {
			secs := []int64{0, 1, -1, 1e9, -1e9, 253402300799, -62135596800, 1700000000}[r.IntN(8)]
			nsec := []int64{0, 1, 999999999, 500000000, 123456789, 1000}[r.IntN(6)]
			tt := time.Unix(secs, nsec).UTC()
			if r.IntN(3) == 0 {
				tt = tt.In(time.FixedZone("", (r.IntN(47)-23)*1800))
			}
			if y := tt.Year(); y < 0 || y > 9999 {
				tt = time.Unix(0, 0).UTC()
			}
			v.Set(reflect.ValueOf(tt))
			return v
		}
		for i := 0; i < t.NumField(); i++ {
			v.Field(i).Set(c19Value(r, t.Field(i).Type, c, depth+1))
		}
	}
	return v
}

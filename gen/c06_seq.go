package gen

// Seeded generators of Encoder call sequences (WriteToken/WriteValue) and of encoder
// option sets, shared by the C06 and C07 monitors.  Sequences are steered by the
// reference model so that most calls are plausible in their context.

import (
	"math"
	"math/rand/v2"
	"strings"

	"verif/ref"
)

func sp(s string) *string { return &s }

var namePool = []string{"a", "b", "", "k", "a\xff", "a�", "é", "<", " ", "~/", "0", "1", "NaN"}

var rawStringPool = func() [][]byte {
	var out [][]byte
	// Escaped spellings are assembled from pieces: a tool that rewrites backslash-u
	// sequences in source text must not be able to turn them into the raw characters.
	const bs = "\\"
	esc := func(hex ...string) string {
		s := `"`
		for _, h := range hex {
			s += bs + "u" + h
		}
		return s + `"`
	}
	spellings := []string{
		esc("0061"), esc("0062"), `"k"`, `"a` + bs + `ufffd"`, esc("003c"), esc("003C"), esc("2028"), esc("00e9"), esc("d83d", "de00"),
		esc("D83D", "DE00"), esc("d800"), `"` + bs + `/"`, `"a"`, `"b"`, "\"\u2029<\"", `"` + bs + `u0061` + bs + `u0062"`, `"ab"`,
	}
	for _, s := range append(spellings, Strings...) {
		if _, ok := ref.Unquote([]byte(s), true); ok {
			out = append(out, []byte(s))
		}
	}
	return out
}()

var rawNumberPool = func() [][]byte {
	var out [][]byte
	for _, s := range Numbers {
		if n := ref.Parse([]byte(s), ref.Opts{}); n != nil && n.Kind == ref.Number {
			out = append(out, []byte(s))
		}
	}
	return out
}()

var floatPool = []float64{0, math.Copysign(0, -1), 1, -1.5, 1e21, 1e20, 1e-6, 1e-7, 5e-324, math.MaxFloat64, math.NaN(), math.Inf(1), math.Inf(-1), 0.1, 3.4028235e38, 16777217}

// RandEncOpts draws an option set.
func RandEncOpts(r *rand.Rand) ref.EncOpts {
	var o ref.EncOpts
	o.AllowDup = r.IntN(4) == 0
	o.AllowInvUTF = r.IntN(3) == 0
	indents := []string{"", " ", "\t", "  ", "\t ", "    "}
	switch r.IntN(6) {
	case 2:
		o.Multiline = true
	case 3:
		o.Indent = sp(indents[r.IntN(len(indents))])
	case 4:
		o.Indent = sp(indents[r.IntN(len(indents))])
		o.Prefix = sp(indents[r.IntN(len(indents))])
	case 5:
		o.Prefix = sp(indents[r.IntN(len(indents))])
		o.Multiline = r.IntN(2) == 0
	}
	o.Colon = []int{0, 0, 1, -1}[r.IntN(4)]
	o.Comma = []int{0, 0, 1, -1}[r.IntN(4)]
	o.HTML = r.IntN(4) == 0
	o.JS = r.IntN(4) == 0
	o.Preserve = r.IntN(4) == 0
	o.CanonInts = r.IntN(4) == 0
	o.CanonFloats = r.IntN(4) == 0
	if r.IntN(4) == 0 {
		o.Reorder = true
		o.AllowDup = false // the order of equal names after reordering is unspecified
	}
	return o
}

func pickB(r *rand.Rand, p [][]byte) []byte { return p[r.IntN(len(p))] }

func randString(r *rand.Rand, big bool) []byte {
	if big && r.IntN(3) == 0 {
		ls := []int{30, 47, 48, 49, 63, 64, 95, 96, 97, 190, 200, 383, 384, 385, 700, 768, 1535, 1536, 3071, 3072, 3073, 5000}
		l := ls[r.IntN(len(ls))] + r.IntN(3) - 1
		return append([]byte(strings.Repeat("x", l)), byte('a'+r.IntN(26)))
	}
	return []byte(namePool[r.IntN(len(namePool))])
}

func randScalar(r *rand.Rand, big bool) ref.EncCall {
	switch r.IntN(10) {
	case 0:
		return ref.EncCall{K: "n"}
	case 1:
		return ref.EncCall{K: "t"}
	case 2:
		return ref.EncCall{K: "f"}
	case 3:
		return ref.EncCall{K: "i", N: uint64([]int64{0, 1, -1, math.MaxInt64, math.MinInt64, 1 << 53, 42}[r.IntN(7)])}
	case 4:
		return ref.EncCall{K: "u", N: []uint64{0, 1, math.MaxUint64, 1 << 63}[r.IntN(4)]}
	case 5:
		return ref.EncCall{K: "d", N: math.Float64bits(floatPool[r.IntN(len(floatPool))])}
	case 6:
		return ref.EncCall{K: "e", N: uint64(math.Float32bits(float32(floatPool[r.IntN(len(floatPool))])))}
	case 7:
		return ref.EncCall{K: "rn", S: pickB(r, rawNumberPool)}
	case 8:
		return ref.EncCall{K: "rs", S: pickB(r, rawStringPool)}
	}
	return ref.EncCall{K: "s", S: randString(r, big)}
}

func randValue(r *rand.Rand, o ref.EncOpts) ref.EncCall {
	cfg := &TextCfg{MaxDepth: 1 + r.IntN(4), MaxWidth: 1 + r.IntN(5), Invalid: r.IntN(4) == 0, WS: r.IntN(2) == 0, DupPercent: r.IntN(25)}
	b := Value(r, cfg)
	if r.IntN(4) == 0 {
		b = Mutate(r, b)
	}
	if r.IntN(5) == 0 {
		b = append([]byte(" \n"), append(b, ' ')...)
	}
	return ref.EncCall{K: "v", S: b}
}

func randName(r *rand.Rand, big bool) ref.EncCall {
	switch r.IntN(10) {
	case 0, 1:
		return ref.EncCall{K: "rs", S: pickB(r, rawStringPool)}
	case 2, 3:
		return ref.EncCall{K: "v", S: append([]byte(" "), pickB(r, rawStringPool)...)}
	}
	return ref.EncCall{K: "s", S: randString(r, big)}
}

// EncSeq draws a sequence of n calls; big adds strings around the flush thresholds.
func EncSeq(r *rand.Rand, o ref.EncOpts, n int, big bool) []ref.EncCall {
	m := ref.NewEncModel(o)
	var calls []ref.EncCall
	for len(calls) < n {
		var c ref.EncCall
		if r.IntN(4) != 0 {
			// plausible in context
			switch pos := m.Position(); {
			case pos == "object-name":
				if r.IntN(5) == 0 {
					c = ref.EncCall{K: "}"}
				} else {
					c = randName(r, big)
				}
			default:
				switch k := r.IntN(20); {
				case k < 7:
					c = randScalar(r, big)
				case k < 9:
					c = ref.EncCall{K: "{"}
				case k < 11:
					c = ref.EncCall{K: "["}
				case k < 15 && pos == "array":
					c = ref.EncCall{K: "]"}
				case k < 15:
					c = randScalar(r, big)
				default:
					c = randValue(r, o)
				}
			}
		} else {
			switch k := r.IntN(12); {
			case k < 4:
				c = ref.EncCall{K: []string{"{", "}", "[", "]"}[k]}
			case k < 6:
				c = randScalar(r, big)
			case k < 8:
				c = randValue(r, o)
			case k == 8:
				c = ref.EncCall{K: "z"}
			case k == 9:
				c = ref.EncCall{K: "s", S: []byte{'a', 0xff, 0xc3}}
			default:
				c = randName(r, big)
			}
		}
		m.Apply(c)
		calls = append(calls, c)
	}
	return calls
}

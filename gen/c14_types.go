package gen

// Type expressions: a tiny Go-like language that makes reflect-built types replayable
// from a string (used by C14, C08, C15).
//
//	type   = ident | "[]" type | "[" int "]" type | "*" type | "map[" type "]" type | "struct{" [field {";" field}] "}"
//	field  = ["^"] Name " " type [" " goquoted-tag]        ^ marks an embedded (Anonymous) field
//	ident  = bool int int8 … uint64 float32 float64 string any | a name of the caller's TypeEnv
//
// Struct types are built with reflect.StructOf, the rest with SliceOf/ArrayOf/PointerTo/MapOf.

import (
	"encoding/base64"
	"fmt"
	"math/rand/v2"
	"reflect"
	"strconv"
	"strings"
)

// TypeEnv maps names usable in type expressions to declared Go types.
type TypeEnv map[string]reflect.Type

var builtinTypes = map[string]reflect.Type{
	"bool": reflect.TypeFor[bool](), "string": reflect.TypeFor[string](), "any": reflect.TypeFor[any](),
	"int": reflect.TypeFor[int](), "int8": reflect.TypeFor[int8](), "int16": reflect.TypeFor[int16](),
	"int32": reflect.TypeFor[int32](), "int64": reflect.TypeFor[int64](),
	"uint": reflect.TypeFor[uint](), "uint8": reflect.TypeFor[uint8](), "uint16": reflect.TypeFor[uint16](),
	"uint32": reflect.TypeFor[uint32](), "uint64": reflect.TypeFor[uint64](),
	"float32": reflect.TypeFor[float32](), "float64": reflect.TypeFor[float64](),
}

var byteType = reflect.TypeFor[byte]()

type typeParser struct {
	s   string
	i   int
	env TypeEnv
}

// ParseType builds the reflect.Type denoted by a type expression.
func ParseType(s string, env TypeEnv) (t reflect.Type, err error) {
	p := &typeParser{s: s, env: env}
	defer func() {
		if r := recover(); r != nil {
			t, err = nil, fmt.Errorf("type expression %q at %d: %v", s, p.i, r)
		}
	}()
	t = p.typ()
	if p.i != len(s) {
		panic("trailing text")
	}
	return t, nil
}

// MustParseType is ParseType for expressions produced by the generators.
func MustParseType(s string, env TypeEnv) reflect.Type {
	t, err := ParseType(s, env)
	if err != nil {
		panic(err)
	}
	return t
}

func (p *typeParser) has(prefix string) bool {
	if strings.HasPrefix(p.s[p.i:], prefix) {
		p.i += len(prefix)
		return true
	}
	return false
}

func (p *typeParser) ident() string {
	st := p.i
	for p.i < len(p.s) {
		c := p.s[p.i]
		if c == '_' || c >= 0x80 || ('0' <= c && c <= '9') || ('a' <= c && c <= 'z') || ('A' <= c && c <= 'Z') {
			p.i++
			continue
		}
		break
	}
	if st == p.i {
		panic("identifier expected")
	}
	return p.s[st:p.i]
}

func (p *typeParser) typ() reflect.Type {
	switch {
	case p.has("[]"):
		return reflect.SliceOf(p.typ())
	case p.has("*"):
		return reflect.PointerTo(p.typ())
	case p.has("map["):
		k := p.typ()
		if !p.has("]") {
			panic("] expected")
		}
		return reflect.MapOf(k, p.typ())
	case p.has("["):
		st := p.i
		for p.i < len(p.s) && p.s[p.i] != ']' {
			p.i++
		}
		n, err := strconv.Atoi(p.s[st:p.i])
		if err != nil || !p.has("]") {
			panic("array length expected")
		}
		return reflect.ArrayOf(n, p.typ())
	case p.has("struct{"):
		var fs []reflect.StructField
		for !p.has("}") {
			if len(fs) > 0 && !p.has(";") {
				panic("; expected")
			}
			var f reflect.StructField
			f.Anonymous = p.has("^")
			f.Name = p.ident()
			if !p.has(" ") {
				panic("space expected after field name")
			}
			f.Type = p.typ()
			if p.has(" ") {
				q, err := strconv.QuotedPrefix(p.s[p.i:])
				if err != nil {
					panic("quoted tag expected")
				}
				p.i += len(q)
				tag, _ := strconv.Unquote(q)
				f.Tag = reflect.StructTag(tag)
			}
			fs = append(fs, f)
		}
		return reflect.StructOf(fs)
	}
	id := p.ident()
	if t, ok := builtinTypes[id]; ok {
		return t
	}
	if t, ok := p.env[id]; ok {
		return t
	}
	panic("unknown type name " + id)
}

// Field renders one struct field of a type expression.
func Field(embedded bool, name, typ, tag string) string {
	s := name + " " + typ
	if embedded {
		s = "^" + s
	}
	if tag != "" {
		s += " " + strconv.Quote(tag)
	}
	return s
}

// Struct renders a struct type expression.
func Struct(fields ...string) string { return "struct{" + strings.Join(fields, ";") + "}" }

// ---------------------------------------------------------------------------------
// Member view of simple struct types (no name collisions, which the generators of
// C14/C08 guarantee by construction; C15 has its own full model).

// MemberInfo describes one JSON member a simple struct type accepts.
type MemberInfo struct {
	Name       string
	Type       reflect.Type
	Index      []int
	CaseIgnore bool
	CaseStrict bool
}

// TagName splits a `json` tag into its name part and the option list (unparsed words).
func TagName(tag reflect.StructTag) (name string, opts []string, ignored bool) {
	s, ok := tag.Lookup("json")
	if !ok {
		return "", nil, false
	}
	if s == "-" {
		return "", nil, true
	}
	parts := strings.Split(s, ",")
	return parts[0], parts[1:], false
}

func hasOpt(opts []string, o string) bool {
	for _, x := range opts {
		if x == o {
			return true
		}
	}
	return false
}

func indirectStruct(t reflect.Type) (reflect.Type, bool) {
	if t.Kind() == reflect.Pointer && t.Name() == "" {
		t = t.Elem()
	}
	return t, t.Kind() == reflect.Struct
}

// Members lists the JSON members of a simple struct type in depth-first order and its
// embedded fallback (a map[~string]T or raw-value field carrying `embed`), if any.
// rawValue is the reflect.Type of jsontext.Value (nil if the caller has none).
func Members(t reflect.Type, rawValue reflect.Type) (ms []MemberInfo, fallback *MemberInfo) {
	var walk func(t reflect.Type, index []int)
	walk = func(t reflect.Type, index []int) {
		for i := 0; i < t.NumField(); i++ {
			sf := t.Field(i)
			name, opts, ignored := TagName(sf.Tag)
			if ignored || (!sf.IsExported() && !sf.Anonymous) {
				continue
			}
			idx := append(append([]int(nil), index...), i)
			embed := hasOpt(opts, "embed") || (sf.Anonymous && name == "")
			if embed {
				if st, ok := indirectStruct(sf.Type); ok && st != rawValue {
					walk(st, idx)
					continue
				}
				ft := sf.Type
				if ft.Kind() == reflect.Pointer && ft.Name() == "" {
					ft = ft.Elem()
				}
				if fallback == nil {
					fallback = &MemberInfo{Type: ft, Index: idx}
				}
				continue
			}
			if !sf.IsExported() {
				continue
			}
			if name == "" {
				name = sf.Name
			}
			ms = append(ms, MemberInfo{Name: name, Type: sf.Type, Index: idx, CaseIgnore: hasOpt(opts, "case:ignore"), CaseStrict: hasOpt(opts, "case:strict")})
		}
	}
	walk(t, nil)
	return ms, fallback
}

// ---------------------------------------------------------------------------------
// JSON texts fitted to a type.

// FitCfg steers Fit.
type FitCfg struct {
	NullPct    int  // chance of null at any position
	MissingPct int  // chance of leaving out a struct member
	UnknownPct int  // chance of adding an unknown member to a struct
	EscapePct  int  // chance of spelling a name with a \u escape (same meaning)
	MaxAny     int  // depth budget below an `any` position
	MaxDepth   int  // container nesting at which everything becomes null (recursive declared types); 0 = 7
	MaxElems   int  // slice/map width
	ShortArray bool // arrays may be given fewer elements than their length
	Env        TypeEnv
	RawValue   reflect.Type // jsontext.Value, fitted with arbitrary JSON
	// Custom lets the caller fit declared types with methods (returns "", false to decline).
	Custom func(r *rand.Rand, t reflect.Type) (string, bool)
	// MapKeys overrides the key pool for string-keyed maps.
	MapKeys []string
}

var defaultMapKeys = []string{"k1", "k2", "k3", "k4", "", "K1", "é", "a/b~c"}

// Name spells a member name as a JSON string literal; with probability pct one character is \u-escaped.
func Name(r *rand.Rand, name string, pct int) string {
	q := strconv.Quote(name) // names in the pools need no Go-only escapes
	if pct > 0 && r.IntN(100) < pct && len(name) > 0 && name[0] < 0x80 && name[0] != '"' && name[0] != '\\' {
		return fmt.Sprintf(`"\u%04x%s`, name[0], q[2:])
	}
	return q
}

// MapKeyNames returns canonical JSON names (one spelling per Go key) for a map key type.
func MapKeyNames(kt reflect.Type, c *FitCfg) []string {
	switch kt.Kind() {
	case reflect.String:
		if c != nil && c.MapKeys != nil {
			return c.MapKeys
		}
		return defaultMapKeys
	case reflect.Int, reflect.Int8, reflect.Int16, reflect.Int32, reflect.Int64:
		return []string{"0", "1", "-1", "7", "100"}
	case reflect.Uint, reflect.Uint8, reflect.Uint16, reflect.Uint32, reflect.Uint64:
		return []string{"0", "1", "7", "100", "255"}
	case reflect.Float32, reflect.Float64:
		return []string{"0", "1", "-1.5", "100", "0.25"}
	case reflect.Bool:
		return []string{"true", "false"}
	}
	return []string{"k1", "k2"}
}

// Fit generates a JSON text that fits type t.
func Fit(r *rand.Rand, t reflect.Type, c *FitCfg) string {
	var sb strings.Builder
	fit(r, t, c, &sb, 0)
	return sb.String()
}

func fit(r *rand.Rand, t reflect.Type, c *FitCfg, sb *strings.Builder, depth int) {
	maxDepth := c.MaxDepth
	if maxDepth == 0 {
		maxDepth = 7
	}
	if depth >= maxDepth || (c.NullPct > 0 && r.IntN(100) < c.NullPct) {
		sb.WriteString("null")
		return
	}
	if c.Custom != nil {
		if s, ok := c.Custom(r, t); ok {
			sb.WriteString(s)
			return
		}
	}
	if c.RawValue != nil && t == c.RawValue {
		FitAny(r, c, sb, c.MaxAny-2, -1)
		return
	}
	switch t.Kind() {
	case reflect.Bool:
		sb.WriteString([...]string{"true", "false"}[r.IntN(2)])
	case reflect.Int, reflect.Int8, reflect.Int16, reflect.Int32, reflect.Int64:
		sb.WriteString([...]string{"0", "1", "2", "-3", "42", "127", "-0"}[r.IntN(7)])
	case reflect.Uint, reflect.Uint8, reflect.Uint16, reflect.Uint32, reflect.Uint64:
		sb.WriteString([...]string{"0", "1", "2", "42", "255"}[r.IntN(5)])
	case reflect.Float32, reflect.Float64:
		sb.WriteString([...]string{"0", "1.5", "-2", "1e2", "0.25", "-0.0"}[r.IntN(6)])
	case reflect.String:
		sb.WriteString([...]string{`""`, `"x"`, `"y"`, `"é"`, `"a\"b"`, `"null"`}[r.IntN(6)])
	case reflect.Interface:
		FitAny(r, c, sb, c.MaxAny, -1)
	case reflect.Pointer:
		fit(r, t.Elem(), c, sb, depth)
	case reflect.Slice:
		if t.Elem() == byteType { // []byte: a Base64 string
			b := make([]byte, r.IntN(c.MaxElems+3))
			for i := range b {
				b[i] = byte(r.IntN(256))
			}
			sb.WriteString(strconv.Quote(base64.StdEncoding.EncodeToString(b)))
			return
		}
		n := r.IntN(c.MaxElems + 1)
		sb.WriteByte('[')
		for i := 0; i < n; i++ {
			if i > 0 {
				sb.WriteByte(',')
			}
			fit(r, t.Elem(), c, sb, depth+1)
		}
		sb.WriteByte(']')
	case reflect.Array:
		if t.Elem() == byteType { // [N]byte: a Base64 string of exactly N bytes
			n := t.Len()
			if c.ShortArray && r.IntN(3) == 0 {
				n = r.IntN(n + 1) // fewer bytes than the array holds (accepted under UnmarshalArrayFromAnyLength)
			}
			b := make([]byte, n)
			for i := range b {
				b[i] = byte(1 + r.IntN(255))
			}
			sb.WriteString(strconv.Quote(base64.StdEncoding.EncodeToString(b)))
			return
		}
		n := t.Len()
		if c.ShortArray && r.IntN(3) == 0 {
			n = r.IntN(n + 1)
		}
		sb.WriteByte('[')
		for i := 0; i < n; i++ {
			if i > 0 {
				sb.WriteByte(',')
			}
			fit(r, t.Elem(), c, sb, depth+1)
		}
		sb.WriteByte(']')
	case reflect.Map:
		keys := append([]string(nil), MapKeyNames(t.Key(), c)...)
		r.Shuffle(len(keys), func(i, j int) { keys[i], keys[j] = keys[j], keys[i] })
		n := r.IntN(min(c.MaxElems, len(keys)) + 1)
		sb.WriteByte('{')
		for i := 0; i < n; i++ {
			if i > 0 {
				sb.WriteByte(',')
			}
			sb.WriteString(Name(r, keys[i], c.EscapePct))
			sb.WriteByte(':')
			fit(r, t.Elem(), c, sb, depth+1)
		}
		sb.WriteByte('}')
	case reflect.Struct:
		ms, fb := Members(t, c.RawValue)
		type ent struct {
			name string
			t    reflect.Type
			any  bool
		}
		var es []ent
		for _, m := range ms {
			if c.MissingPct > 0 && r.IntN(100) < c.MissingPct {
				continue
			}
			es = append(es, ent{m.Name, m.Type, false})
		}
		for _, u := range []string{"Unknown", "unk2"} {
			if c.UnknownPct > 0 && r.IntN(100) < c.UnknownPct {
				if fb != nil && fb.Type.Kind() == reflect.Map {
					es = append(es, ent{u, fb.Type.Elem(), false})
				} else {
					es = append(es, ent{u, nil, true})
				}
			}
		}
		r.Shuffle(len(es), func(i, j int) { es[i], es[j] = es[j], es[i] })
		sb.WriteByte('{')
		for i, e := range es {
			if i > 0 {
				sb.WriteByte(',')
			}
			sb.WriteString(Name(r, e.name, c.EscapePct))
			sb.WriteByte(':')
			if e.any {
				FitAny(r, c, sb, c.MaxAny-1, -1)
			} else {
				fit(r, e.t, c, sb, depth+1)
			}
		}
		sb.WriteByte('}')
	default:
		panic("gen.Fit: unsupported kind " + t.String())
	}
}

// FitAny writes an arbitrary JSON value of bounded depth.  kind selects the JSON kind
// (0 null, 1 number, 2 string, 3 bool, 4 array, 5 object; -1 random).
func FitAny(r *rand.Rand, c *FitCfg, sb *strings.Builder, budget int, kind int) {
	if kind < 0 {
		k := r.IntN(9)
		if budget <= 0 {
			k = r.IntN(4)
		}
		kind = [...]int{0, 1, 2, 3, 4, 4, 5, 5, 5}[k]
	}
	switch kind {
	case 0:
		sb.WriteString("null")
	case 1:
		sb.WriteString([...]string{"1", "0", "-2.5", "1e3"}[r.IntN(4)])
	case 2:
		sb.WriteString([...]string{`"s"`, `""`, `"t\n"`}[r.IntN(3)])
	case 3:
		sb.WriteString([...]string{"true", "false"}[r.IntN(2)])
	case 4:
		n := r.IntN(c.MaxElems + 1)
		sb.WriteByte('[')
		for i := 0; i < n; i++ {
			if i > 0 {
				sb.WriteByte(',')
			}
			FitAny(r, c, sb, budget-1, -1)
		}
		sb.WriteByte(']')
	default:
		keys := append([]string(nil), MapKeyNames(reflect.TypeFor[string](), c)...)
		r.Shuffle(len(keys), func(i, j int) { keys[i], keys[j] = keys[j], keys[i] })
		n := r.IntN(min(c.MaxElems, len(keys)) + 1)
		sb.WriteByte('{')
		for i := 0; i < n; i++ {
			if i > 0 {
				sb.WriteByte(',')
			}
			sb.WriteString(Name(r, keys[i], c.EscapePct))
			sb.WriteByte(':')
			FitAny(r, c, sb, budget-1, -1)
		}
		sb.WriteByte('}')
	}
}

// ---------------------------------------------------------------------------------
// Random type expressions for the merge/duplicate monitors.

// TypeCfg steers RandType.
type TypeCfg struct {
	MaxDepth int
	Named    []string // names (from the TypeEnv) that may appear as leaves
	NamedPct int
	Leaves   []string // scalar leaves (default: int string bool any float64)
	MapKeys  []string // key types for maps (default: string)
	Fallback bool     // structs may get an embedded map fallback
	CaseTags bool     // fields may carry case:ignore / case:strict
	// FallbackTypes overrides the type of the embedded fallback field (default: map[string]<random>).
	FallbackTypes []string
}

var fieldNames = []string{"A", "B", "C", "D", "E"}

// RandType returns a random type expression.
func RandType(r *rand.Rand, c *TypeCfg, depth int) string {
	leaves := c.Leaves
	if leaves == nil {
		leaves = []string{"int", "string", "bool", "any", "float64", "any"}
	}
	if len(c.Named) > 0 && r.IntN(100) < c.NamedPct {
		return c.Named[r.IntN(len(c.Named))]
	}
	k := r.IntN(13)
	if depth >= c.MaxDepth {
		k = 0
	}
	switch k {
	case 0, 1, 2, 3:
		return leaves[r.IntN(len(leaves))]
	case 4, 5:
		return "[]" + RandType(r, c, depth+1)
	case 6:
		return "*" + RandType(r, c, depth+1)
	case 7, 8:
		kt := "string"
		if len(c.MapKeys) > 0 {
			kt = c.MapKeys[r.IntN(len(c.MapKeys))]
		}
		return "map[" + kt + "]" + RandType(r, c, depth+1)
	case 9:
		return fmt.Sprintf("[%d]%s", 1+r.IntN(3), RandType(r, c, depth+1))
	default:
		return RandStruct(r, c, depth+1)
	}
}

// RandStruct returns a random struct type expression with fields A..E.
func RandStruct(r *rand.Rand, c *TypeCfg, depth int) string {
	n := 1 + r.IntN(4)
	var fs []string
	for i := 0; i < n; i++ {
		tag := ""
		if r.IntN(6) == 0 {
			tag = `json:"` + strings.ToLower(fieldNames[i]) + `x"`
		}
		if c.CaseTags && r.IntN(4) == 0 {
			if tag == "" {
				tag = `json:"` + fieldNames[i] + `"`
			}
			tag = tag[:len(tag)-1] + [...]string{",case:ignore", ",case:ignore", ",case:strict"}[r.IntN(3)] + `"`
		}
		fs = append(fs, Field(false, fieldNames[i], RandType(r, c, depth), tag))
	}
	if c.Fallback && r.IntN(5) == 0 {
		ft := "map[string]" + RandType(r, c, depth+1)
		if len(c.FallbackTypes) > 0 {
			ft = c.FallbackTypes[r.IntN(len(c.FallbackTypes))]
		}
		fs = append(fs, Field(false, "Rest", ft, `json:",embed"`))
	}
	return Struct(fs...)
}

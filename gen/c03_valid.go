package gen

// Generators of JSON texts that are valid by construction under the default (strict)
// options: well-formed UTF-8, paired surrogate escapes only, names unique per object by
// their unescaped meaning.  Used by C03 (and usable wherever "every valid text" is the domain).

import (
	"fmt"
	"math/rand/v2"
	"strconv"
	"strings"

	"verif/ref"
)

// ValidCfg steers ValidValue.
type ValidCfg struct {
	MaxDepth int
	MaxWidth int
	WS       bool
	// Extra holds additional string *contents* (already escaped as needed, without quotes)
	// that the generator mixes in, e.g. an interning-collision family.
	Extra []string
}

// validStrings is the strict-valid part of Strings.
var validStrings = func() []string {
	var out []string
	for _, s := range Strings {
		if _, ok := ref.Unquote([]byte(s), false); ok {
			out = append(out, s)
		}
	}
	return out
}()

// ValidNumbers is the grammar-valid prefix of Numbers.
func ValidNumbers() []string { return Numbers[:validNumbers] }

var strFrags = []string{
	"a", "b", "Z", "0", " ", "\u00e9", "\u00df", "\u20ac", "\u4e2d", "\U0001F600", "\U0001D11E", // raw characters (Go escapes)
	`\n`, `\t`, `\"`, `\\`, `\/`, `/`, `\b`, `\f`, `\r`, // JSON two-character escapes
	`\u0000`, `\u001f`, `\u001F`, `\u0041`, `\u00e9`, `\u00E9`, `\u20ac`, `\u2028`, `\u2029`, // JSON \u escapes
	`\ud83d\ude00`, `\uD83D\uDE00`, `\ud83D\uDe00`, `\ud834\udd1e`, `\ud800\udc00`, `\udbff\udfff`,
	`\ufffd`, `\uffff`, `\ud7ff`, `\ue000`, `\u007f`, `\u0080`,
	"\ufffd", "\uffff", "\ud7ff", "\ue000", "<", ">", "&", "'", "\u007f", "\u0080", "\u07ff", "\u0800", "\U00010000", "\U0010ffff", "\u2028",
	"~", "{", "}", "[", "]", ":", ",", "null", "1e5",
}

// ValidString returns a valid string literal (with quotes).
func ValidString(r *rand.Rand, c *ValidCfg) string {
	switch k := r.IntN(10); {
	case k < 3:
		return validStrings[r.IntN(len(validStrings))]
	case k < 5 && len(c.Extra) > 0:
		return `"` + c.Extra[r.IntN(len(c.Extra))] + `"`
	case k < 6:
		if r.IntN(8) == 0 {
			// long escape-free literal (decoded without an intermediate copy)
			b := make([]byte, 257+r.IntN([...]int{10, 100, 1000, 5000}[r.IntN(4)]))
			for i := range b {
				b[i] = "abcdefghijklmnopqrstuvwxyz 0123456789_-/:.,"[r.IntN(43)]
			}
			return `"` + string(b) + `"`
		}
		// short identifier-like
		return `"` + fmt.Sprintf("%c%c%d", 'a'+r.IntN(26), 'a'+r.IntN(26), r.IntN(50)) + `"`
	}
	var sb strings.Builder
	sb.WriteByte('"')
	n := r.IntN(7)
	if r.IntN(12) == 0 {
		n = 20 + r.IntN(300)
	}
	for i := 0; i < n; i++ {
		sb.WriteString(strFrags[r.IntN(len(strFrags))])
	}
	sb.WriteByte('"')
	return sb.String()
}

// ValidNumber returns a grammar-valid number literal (it may overflow float64).
func ValidNumber(r *rand.Rand) string {
	switch k := r.IntN(10); {
	case k < 5:
		return Numbers[r.IntN(validNumbers)]
	case k < 7:
		return strconv.FormatInt(r.Int64N(2000)-1000, 10)
	case k == 7:
		// 16 or 17 significant digits that read as an integer above 2^53 (9007…–9999…), the point anywhere:
		// exact only if the whole digit string is converted at once, not as float64(digits)/10^k
		var sb strings.Builder
		if r.IntN(4) == 0 {
			sb.WriteByte('-')
		}
		digits := strconv.Itoa(9007 + r.IntN(993))
		for n := 12 + r.IntN(2); n > 0; n-- {
			digits += string(byte('0' + r.IntN(10)))
		}
		p := 1 + r.IntN(len(digits)-1)
		sb.WriteString(digits[:p] + "." + digits[p:])
		return sb.String()
	}
	var sb strings.Builder
	if r.IntN(3) == 0 {
		sb.WriteByte('-')
	}
	if r.IntN(4) == 0 {
		sb.WriteByte('0')
	} else {
		sb.WriteByte(byte('1' + r.IntN(9)))
		for i := r.IntN([...]int{1, 3, 16, 18, 25}[r.IntN(5)]); i > 0; i-- {
			sb.WriteByte(byte('0' + r.IntN(10)))
		}
	}
	if r.IntN(2) == 0 {
		sb.WriteByte('.')
		for i := 1 + r.IntN([...]int{1, 3, 17, 30}[r.IntN(4)]); i > 0; i-- {
			sb.WriteByte(byte('0' + r.IntN(10)))
		}
	}
	if r.IntN(3) == 0 {
		sb.WriteString([...]string{"e", "E", "e+", "e-", "E-", "E+"}[r.IntN(6)])
		sb.WriteString([...]string{"", "", "", "0", "00", "000"}[r.IntN(6)]) // leading zeros are part of the grammar: e05, E+007
		sb.WriteString(strconv.Itoa([...]int{0, 1, 5, 22, 23, 300, 308, 309, 323, 324, 400}[r.IntN(11)] + r.IntN(3)))
	}
	return sb.String()
}

func vws(r *rand.Rand, c *ValidCfg) string {
	if !c.WS {
		return ""
	}
	return [...]string{"", "", "", " ", "\n", "\t ", "\r\n", "  "}[r.IntN(8)]
}

// ValidValue generates one valid JSON text.
func ValidValue(r *rand.Rand, c *ValidCfg) []byte {
	var sb strings.Builder
	sb.WriteString(vws(r, c))
	validValue(r, c, &sb, 0)
	sb.WriteString(vws(r, c))
	return []byte(sb.String())
}

func validValue(r *rand.Rand, c *ValidCfg, sb *strings.Builder, depth int) {
	k := r.IntN(10)
	if depth >= c.MaxDepth && k >= 6 {
		k = r.IntN(6)
	}
	switch {
	case k < 1:
		sb.WriteString([...]string{"null", "true", "false"}[r.IntN(3)])
	case k < 4:
		sb.WriteString(ValidString(r, c))
	case k < 6:
		sb.WriteString(ValidNumber(r))
	case k < 8:
		n := r.IntN(c.MaxWidth + 1)
		sb.WriteString("[" + vws(r, c))
		for i := 0; i < n; i++ {
			if i > 0 {
				sb.WriteString(vws(r, c) + "," + vws(r, c))
			}
			validValue(r, c, sb, depth+1)
		}
		sb.WriteString(vws(r, c) + "]")
	default:
		n := r.IntN(c.MaxWidth + 1)
		sb.WriteString("{" + vws(r, c))
		seen := map[string]bool{}
		first := true
		for i := 0; i < n; i++ {
			name := ValidString(r, c)
			meaning, ok := ref.Unquote([]byte(name), false)
			if !ok || seen[meaning] {
				continue
			}
			seen[meaning] = true
			if !first {
				sb.WriteString(vws(r, c) + "," + vws(r, c))
			}
			first = false
			sb.WriteString(name + vws(r, c) + ":" + vws(r, c))
			validValue(r, c, sb, depth+1)
		}
		sb.WriteString(vws(r, c) + "}")
	}
}

// CollisionFamily returns n distinct string contents (no quotes, no escapes needed) of the
// given total length ≥ 19 that all share their first 8 and last 8 bytes — the only inputs of
// the library's interning hash — and differ only in the middle.
func CollisionFamily(r *rand.Rand, n, length int, tag string) []string {
	const alpha = "abcdefghijklmnopqrstuvwxyzABCDEFGHIJKLMNOPQRSTUVWXYZ0123456789-_"
	if length < 19 {
		panic("gen: CollisionFamily needs length >= 19")
	}
	out := make([]string, 0, n)
	seen := map[string]bool{}
	pre := (tag + "________")[:8]
	suf := "________" + tag
	suf = suf[len(suf)-8:]
	for len(out) < n {
		mid := make([]byte, length-16)
		for i := range mid {
			mid[i] = alpha[r.IntN(len(alpha))]
		}
		s := pre + string(mid) + suf
		if !seen[s] {
			seen[s] = true
			out = append(out, s)
		}
	}
	return out
}

// DistinctStrings returns n distinct escape-free string contents with lengths in [lo, hi].
func DistinctStrings(r *rand.Rand, n, lo, hi int) []string {
	const alpha = "abcdefghijklmnopqrstuvwxyz0123456789"
	out := make([]string, 0, n)
	seen := map[string]bool{}
	for len(out) < n {
		b := make([]byte, lo+r.IntN(hi-lo+1))
		for i := range b {
			b[i] = alpha[r.IntN(len(alpha))]
		}
		if s := string(b); !seen[s] {
			seen[s] = true
			out = append(out, s)
		}
	}
	return out
}

// Package gen holds seeded generators shared by the monitors.
package gen

import (
	"fmt"
	"math/rand/v2"
	"strings"
)

// Strings is a pool of adversarial JSON string literals (valid and invalid).
var Strings = []string{
	`""`, `"a"`, `"b"`, `"ab"`, `"A"`, `"a"`, `"A"`, `"<&>"`, `" "`, `"\/"`, `"/"`, `"~0~1"`,
	`"😀"`, `"\ud83d\ude00"`, `"\uD83D\uDE00"`, `"\ud83D\uDe00"`, `"\uD83d\udE00"`, `"\ud800"`, `"\udc00"`, `"\ud800\ud800"`, `"\ud800x"`,
	"\"\xff\"", "\"\xc3\"", "\"\xe2\x80\"", "\"\xed\xa0\x80\"", "\"\xf4\x90\x80\x80\"", "\"\xc0\x80\"",
	`"\n"`, `"\u000a"`, `"\u001F"`, `"\u001f"`, `"é"`, `"\u00e9"`, `"\u00E9"`, "\" \"", `"\u2028"`, `"\u2029"`, "\" \"",
	`"\""`, `"\\"`, `"\b\f\n\r\t"`, `"\x"`, `"\u12"`, `"\u12G4"`, "\"\x00\"", "\"\x1f\"", "\"\t\"", `"abc`, `"\`, `"\u`,
	"\"￿\"", "\"\U0010ffff\"", "\"퟿\"", "\"\"", `"key"`, `"Key"`, `"k_e-y"`,
}

// Numbers is a pool of adversarial JSON number literals (valid and invalid).
var Numbers = []string{
	`0`, `-0`, `1`, `-1`, `9`, `10`, `1.0`, `1e0`, `1E+2`, `1e-2`, `0.000001`, `1e-7`, `123456789012345678`, `12345678901234567`,
	`1234567890123456`, `9007199254740993`, `9223372036854775807`, `9223372036854775808`, `-9223372036854775808`, `-9223372036854775809`,
	`18446744073709551615`, `18446744073709551616`, `1e400`, `-1e400`, `1e308`, `1.7976931348623157e308`, `1.7976931348623159e308`,
	`1e21`, `1e20`, `100000000000000000000`, `0.1e1`, `-0.0`, `-0e5`, `5e-324`, `2.5e-324`, `2.4e-324`, `4.9e-324`, `3.4028235e38`, `3.4028236e38`,
	`01`, `-`, `-a`, `1.`, `.5`, `1e`, `1e+`, `+1`, `0x1`, `1.e5`, `00`, `-01`, `1E5`, `0.5`, `255`, `256`, `-128`, `-129`, `65535`, `65536`, `4294967296`, `2147483648`,
}

// validNumbers is the length of the valid prefix of Numbers.
var validNumbers = func() int {
	for i, s := range Numbers {
		if s == "01" {
			return i
		}
	}
	panic("gen: Numbers pool lost its marker")
}()

// TextCfg steers Value.
type TextCfg struct {
	MaxDepth   int
	MaxWidth   int
	Invalid    bool // include invalid string/number literals from the pools
	WS         bool // random insignificant whitespace
	DupPercent int  // chance (0-100) per object to repeat one of its names
}

func ws(r *rand.Rand, c *TextCfg) string {
	if !c.WS {
		return ""
	}
	return [...]string{"", "", "", " ", "\n", "\t ", "\r\n", "  "}[r.IntN(8)]
}

func validLit(s string) bool {
	// cheap filter used only to steer generation; the oracle decides validity
	return !(strings.HasPrefix(s, `"\x`) || strings.HasPrefix(s, `"\u12`) || s == `"abc` || s == `"\` || s == `"\u`)
}

// String picks a string literal.
func String(r *rand.Rand, c *TextCfg) string {
	for {
		s := Strings[r.IntN(len(Strings))]
		if c.Invalid || r.IntN(4) > 0 {
			return s
		}
		if validLit(s) {
			return s
		}
	}
}

// Number picks a number literal.
func Number(r *rand.Rand, c *TextCfg) string {
	if r.IntN(5) == 0 {
		// random structured number
		s := ""
		if r.IntN(3) == 0 {
			s = "-"
		}
		s += fmt.Sprint(r.IntN(1000))
		if r.IntN(2) == 0 {
			s += "." + fmt.Sprint(r.IntN(100000))
		}
		if r.IntN(3) == 0 {
			s += [...]string{"e", "E", "e+", "e-", "E-"}[r.IntN(5)] + fmt.Sprint(r.IntN(330))
		}
		return s
	}
	n := len(Numbers)
	if !c.Invalid {
		n = validNumbers
	}
	return Numbers[r.IntN(n)]
}

// Value generates one JSON text (valid unless c.Invalid picks a bad literal).
func Value(r *rand.Rand, c *TextCfg) []byte {
	var sb strings.Builder
	sb.WriteString(ws(r, c))
	value(r, c, &sb, 0)
	sb.WriteString(ws(r, c))
	return []byte(sb.String())
}

func value(r *rand.Rand, c *TextCfg, sb *strings.Builder, depth int) {
	k := r.IntN(10)
	if depth >= c.MaxDepth && k >= 6 {
		k = r.IntN(6)
	}
	switch {
	case k < 2:
		sb.WriteString([...]string{"null", "true", "false"}[r.IntN(3)])
	case k < 4:
		sb.WriteString(String(r, c))
	case k < 6:
		sb.WriteString(Number(r, c))
	case k < 8:
		n := r.IntN(c.MaxWidth + 1)
		sb.WriteString("[" + ws(r, c))
		for i := 0; i < n; i++ {
			if i > 0 {
				sb.WriteString(ws(r, c) + "," + ws(r, c))
			}
			value(r, c, sb, depth+1)
		}
		sb.WriteString(ws(r, c) + "]")
	default:
		n := r.IntN(c.MaxWidth + 1)
		sb.WriteString("{" + ws(r, c))
		var names []string
		for i := 0; i < n; i++ {
			if i > 0 {
				sb.WriteString(ws(r, c) + "," + ws(r, c))
			}
			var name string
			if len(names) > 0 && r.IntN(100) < c.DupPercent {
				name = names[r.IntN(len(names))]
			} else {
				name = String(r, c)
			}
			names = append(names, name)
			sb.WriteString(name + ws(r, c) + ":" + ws(r, c))
			value(r, c, sb, depth+1)
		}
		sb.WriteString(ws(r, c) + "}")
	}
}

var mutBytes = []byte(`{}[]:,"\ eE+-.0159ntfu` + "\n\x00\xff\xc3\xa9\xed")

// Mutate applies one random byte-level mutation.
func Mutate(r *rand.Rand, b []byte) []byte {
	out := append([]byte(nil), b...)
	if len(out) == 0 {
		return append(out, mutBytes[r.IntN(len(mutBytes))])
	}
	i := r.IntN(len(out))
	switch r.IntN(7) {
	case 0: // delete
		out = append(out[:i], out[i+1:]...)
	case 1: // insert
		out = append(out[:i], append([]byte{mutBytes[r.IntN(len(mutBytes))]}, out[i:]...)...)
	case 2: // replace
		out[i] = mutBytes[r.IntN(len(mutBytes))]
	case 3: // swap
		j := r.IntN(len(out))
		out[i], out[j] = out[j], out[i]
	case 4: // truncate
		out = out[:i]
	case 5: // duplicate a span
		j := i + r.IntN(len(out)-i+1)
		out = append(out[:j], append(append([]byte(nil), out[i:j]...), out[j:]...)...)
	case 6: // append junk / second value
		out = append(out, [...]string{" ", "1", ",", "}", "]", "\"x\"", "null", "{}", "\n"}[r.IntN(9)]...)
	}
	return out
}

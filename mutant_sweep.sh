#!/bin/bash
# usage: ./mutant_sweep.sh [pattern]    runs every hand mutant of mutants/MAP.txt (or those matching pattern)
# against the checks listed for it (quick tier; TIER=thorough to override) and appends to mutants/RESULTS.txt
cd "$(dirname "$0")"
pat="${1:-.}"
grep -v '^#' mutants/MAP.txt | grep -E "$pat" | while read -r m checks; do
  f=mutants/$m.py; [ -f "$f" ] || f=mutants/$m.diff
  SUITE=${SUITE:-0} ./mutant_run.sh "$f" $checks
done | tee -a mutants/RESULTS.txt

package main

import (
	"bytes"
	"crypto/sha256"
	"errors"
	"fmt"
	"io"
	"math"
	"reflect"
	"sort"
	"strings"
	"sync"
	"sync/atomic"

	json "github.com/go-json-experiment/json"
	"github.com/go-json-experiment/json/jsontext"
	jsonv1 "github.com/go-json-experiment/json/v1"

	"verif/run"
)

// ---- user types with scripted behaviour

type P struct{ N int }

func (p P) MarshalJSONTo(e *jsontext.Encoder) error {
	if p.N == 1 {
		panic(run.UserPanic{Tag: "marshal"})
	}
	e.WriteToken(jsontext.BeginObject)
	e.WriteToken(jsontext.String("half"))
	if p.N == 2 {
		return errors.New("user error mid-object")
	}
	e.WriteToken(jsontext.Int(int64(p.N)))
	return e.WriteToken(jsontext.EndObject)
}

// PW wraps P below a pointer to a pointer; the shared values keep their addresses for the life of the process.
type PW struct {
	A int
	X P
}
type SK string

var (
	sharedPW         = &PW{A: 1, X: P{N: 5}}
	sharedPtrPtr     = &sharedPW
	sharedAny    any = P{N: 6}
)

// sharedFormatted returns a Value whose backing array is shared by every caller: the compact form of in
// (the input itself when it is invalid), computed once.
var sharedFormattedMap sync.Map

func sharedFormatted(name, in string) jsontext.Value {
	if v, ok := sharedFormattedMap.Load(name); ok {
		b := v.([]byte)
		return jsontext.Value(b[:len(b):len(b)])
	}
	v := jsontext.Value(in)
	if err := v.Compact(); err != nil {
		v = jsontext.Value(in)
	}
	b := []byte(v)
	act, _ := sharedFormattedMap.LoadOrStore(name, b)
	b = act.([]byte)
	return jsontext.Value(b[:len(b):len(b)])
}

type U struct{ N int }

func (u *U) UnmarshalJSONFrom(d *jsontext.Decoder) error {
	tok, err := d.ReadToken()
	if err != nil {
		return err
	}
	if tok.Kind() == '{' {
		d.ReadToken()
		if u.N == 1 {
			panic(run.UserPanic{Tag: "unmarshal"})
		}
		return errors.New("user error mid-object")
	}
	u.N = 7
	return nil
}

type TX string

func (t TX) MarshalText() ([]byte, error) {
	if t == "panic" {
		panic(run.UserPanic{Tag: "text"})
	}
	if t == "err" {
		return nil, errors.New("text error")
	}
	return []byte("tx:" + string(t)), nil
}
func (t *TX) UnmarshalText(b []byte) error { *t = TX(strings.TrimPrefix(string(b), "tx:")); return nil }

type T struct {
	A int            `json:"a"`
	S string         `json:"s,omitempty"`
	M map[string]any `json:"m"`
	L []T            `json:"l,omitempty"`
	R jsontext.Value `json:"r,omitzero"`
	B []byte         `json:"b,omitempty"`
	X TX             `json:"x,omitempty"`
	K map[TX]int     `json:"k,omitempty"`
	F float64        `json:"f,omitempty,string"`
}

// FB keeps unknown members in a fallback map (state that is tempting to cache per type).
type FB struct {
	A    int            `json:"a"`
	Rest map[string]int `json:",embed"`
}

type W1 struct {
	Name string `json:"name"`
	Int  int    `json:",string"`
	Any  any
	Emb
	Ptr *W1 `json:",omitempty"`
}
type Emb struct{ E1, E2 int }

// freshType returns a struct type unique to (n): used for first-use races on the arshaler cache.
func freshType(n int) reflect.Type {
	return reflect.StructOf([]reflect.StructField{
		{Name: "A", Type: reflect.TypeFor[int](), Tag: reflect.StructTag(fmt.Sprintf(`json:"a%d"`, n))},
		{Name: "B", Type: reflect.TypeFor[[]string](), Tag: `json:"b,omitempty"`},
		{Name: "C", Type: reflect.TypeFor[map[string]*int]()},
	})
}

type opaqueWriter struct{ b bytes.Buffer }

func (o *opaqueWriter) Write(p []byte) (int, error) { return o.b.Write(p) }

type failWriter struct {
	n   int
	got bytes.Buffer
}

func (f *failWriter) Write(p []byte) (int, error) {
	if f.got.Len()+len(p) > f.n {
		k := max(0, f.n-f.got.Len())
		f.got.Write(p[:k])
		return k, errors.New("writer full")
	}
	return f.got.Write(p)
}

type opaqueReader struct{ r io.Reader }

func (o opaqueReader) Read(p []byte) (int, error) { return o.r.Read(p) }

func errClass(err error) string {
	if err == nil {
		return ""
	}
	var se *json.SemanticError
	var sy *jsontext.SyntacticError
	switch {
	case errors.As(err, &sy):
		return fmt.Sprintf("syntactic %d %q", sy.ByteOffset, sy.JSONPointer)
	case errors.As(err, &se):
		return fmt.Sprintf("semantic %d %q %v", se.ByteOffset, se.JSONPointer, se.GoType)
	case err == io.EOF:
		return "EOF"
	case errors.Is(err, io.ErrUnexpectedEOF):
		return "unexpected-eof"
	}
	return fmt.Sprintf("%T", err)
}

func protect(f func() result) (r result) {
	defer func() {
		if p := recover(); p != nil {
			if u, ok := p.(run.UserPanic); ok {
				r = result{Err: "user-panic:" + u.Tag}
				return
			}
			panic(p)
		}
	}()
	return f()
}

// dump renders a decoded value independently of the library under test and of addresses:
// pointers and interfaces are followed, map keys sorted, floats printed by bits when not finite.
func dump(v any) string {
	var sb strings.Builder
	dumpValue(&sb, reflect.ValueOf(v), 0)
	return sb.String()
}

func dumpValue(sb *strings.Builder, v reflect.Value, depth int) {
	if depth > 12000 {
		sb.WriteString("<too deep>")
		return
	}
	if !v.IsValid() {
		sb.WriteString("nil")
		return
	}
	switch v.Kind() {
	case reflect.Pointer, reflect.Interface:
		if v.IsNil() {
			sb.WriteString("nil")
			return
		}
		if v.Kind() == reflect.Pointer {
			sb.WriteByte('&')
		}
		dumpValue(sb, v.Elem(), depth+1)
	case reflect.Struct:
		sb.WriteString(v.Type().Name() + "{")
		for i := 0; i < v.NumField(); i++ {
			if i > 0 {
				sb.WriteByte(',')
			}
			sb.WriteString(v.Type().Field(i).Name + ":")
			dumpValue(sb, v.Field(i), depth+1)
		}
		sb.WriteByte('}')
	case reflect.Map:
		if v.IsNil() {
			sb.WriteString("nilmap")
			return
		}
		keys := make([]string, 0, v.Len())
		vals := map[string]reflect.Value{}
		for it := v.MapRange(); it.Next(); {
			var kb strings.Builder
			dumpValue(&kb, it.Key(), depth+1)
			keys = append(keys, kb.String())
			vals[kb.String()] = it.Value()
		}
		sort.Strings(keys)
		sb.WriteString("map[")
		for i, k := range keys {
			if i > 0 {
				sb.WriteByte(',')
			}
			sb.WriteString(k + ":")
			dumpValue(sb, vals[k], depth+1)
		}
		sb.WriteByte(']')
	case reflect.Slice:
		if v.IsNil() {
			sb.WriteString("nilslice")
			return
		}
		if v.Type().Elem().Kind() == reflect.Uint8 {
			fmt.Fprintf(sb, "bytes%q", v.Bytes())
			return
		}
		fallthrough
	case reflect.Array:
		sb.WriteByte('[')
		for i := 0; i < v.Len(); i++ {
			if i > 0 {
				sb.WriteByte(',')
			}
			dumpValue(sb, v.Index(i), depth+1)
		}
		sb.WriteByte(']')
	case reflect.String:
		fmt.Fprintf(sb, "%q", v.String())
	case reflect.Float32, reflect.Float64:
		f := v.Float()
		if math.IsNaN(f) || math.IsInf(f, 0) || (f == 0 && math.Signbit(f)) {
			fmt.Fprintf(sb, "f#%016x", math.Float64bits(f))
		} else {
			fmt.Fprintf(sb, "%v", f)
		}
	case reflect.Bool:
		fmt.Fprintf(sb, "%v", v.Bool())
	case reflect.Int, reflect.Int8, reflect.Int16, reflect.Int32, reflect.Int64:
		fmt.Fprintf(sb, "%d", v.Int())
	case reflect.Uint, reflect.Uint8, reflect.Uint16, reflect.Uint32, reflect.Uint64, reflect.Uintptr:
		fmt.Fprintf(sb, "%d", v.Uint())
	default:
		fmt.Fprintf(sb, "<%s>", v.Kind())
	}
}

func scribble(b []byte) {
	for i := range b {
		b[i] = '#'
	}
}

func deep(n int) string { return strings.Repeat("[", n) + strings.Repeat("]", n) }

var insertionOrder atomic.Int64

var (
	catOnce sync.Once
	cat     []call
)

func catalogue() []call {
	catOnce.Do(buildCatalogue)
	return cat
}

func buildCatalogue() {
	add := func(name, kind string, unordered, heavy bool, fn func(keep func(string, func() []byte)) result) {
		cat = append(cat, call{name: name, kind: kind, unordered: unordered, heavy: heavy,
			fn: func(keep func(string, func() []byte)) result {
				r := protect(func() result { return fn(keep) })
				if unordered && r.Err == "" {
					r.Out = sortMembers(r.Out) // member order of maps is unspecified without Deterministic
				}
				if len(r.Out) > 2048 {
					// long results are compared by digest (they travel from the golden processes as JSON)
					sum := sha256.Sum256([]byte(r.Out))
					r.Out = fmt.Sprintf("%s…#%d:%x", r.Out[:64], len(r.Out), sum[:12])
				}
				return r
			}})
	}
	det := json.Deterministic(true)
	type optset struct {
		name string
		o    []json.Options
		det  bool
	}
	mopts := []optset{
		{"det", []json.Options{det}, true},
		{"plain", nil, false},
		{"det+multiline", []json.Options{det, jsontext.Multiline(true)}, true},
		{"det+v1", []json.Options{jsonv1.DefaultOptionsV1(), det}, true},
		{"det+invalidutf8+dup", []json.Options{det, jsontext.AllowInvalidUTF8(true), jsontext.AllowDuplicateNames(true)}, true},
		{"det+stringify+html", []json.Options{det, json.StringifyNumbers(true), jsontext.EscapeForHTML(true)}, true},
		{"det+spaces", []json.Options{det, jsontext.SpaceAfterColon(true), jsontext.SpaceAfterComma(true)}, true},
	}
	one := 1
	type mval struct {
		name  string
		v     func() any
		heavy bool
	}
	big := func(n int) map[string]any {
		xs := make([]any, n)
		for i := range xs {
			xs[i] = strings.Repeat("x", 30) + fmt.Sprint(i)
		}
		return map[string]any{"k": xs, "a": 1.5, "z": map[string]any{"q": nil}}
	}
	deepVal := func(n int) any {
		var v any = "leaf"
		for i := 0; i < n; i++ {
			if i%2 == 0 {
				v = []any{v}
			} else {
				v = map[string]any{"d": v}
			}
		}
		return v
	}
	mvals := []mval{
		{"T-basic", func() any {
			return T{A: 1, M: map[string]any{"z": 1.5, "a": []any{nil, "x"}, "m": map[string]any{"b": 1.0, "a": true}}, B: []byte("hello"), K: map[TX]int{"b": 2, "a": 1}, F: 2.5}
		}, false},
		{"T-invalid-utf8", func() any { return T{A: 2, S: "\xff<>&"} }, false},
		{"T-raw-dup", func() any { return T{R: jsontext.Value(`{"a":1,"a":2}`)} }, false},
		{"T-raw-ok", func() any { return T{R: jsontext.Value(` { "b" : [ 1 , 2 ] } `)} }, false},
		{"P-ok", func() any { return []P{{0}, {5}} }, false},
		{"P-panic", func() any { return []P{{0}, {1}} }, false},
		{"P-error-mid-object", func() any { return []P{{0}, {2}, {0}} }, false},
		{"chan-unsupported", func() any { return map[string]any{"k": make(chan int)} }, false},
		{"nested-T", func() any { return T{L: []T{{A: 1}, {A: 2, L: []T{{S: "deep"}}}}} }, false},
		{"map-P", func() any { return map[string]P{"a": {0}, "b": {2}} }, false},
		{"text-panic", func() any { return T{X: "panic"} }, false},
		{"text-error", func() any { return []TX{"a", "err"} }, false},
		{"text-keys", func() any { return map[TX]int{"z": 1, "y": 2, "x": 3} }, false},
		{"W1", func() any {
			return W1{Name: "n", Int: 42, Any: map[string]any{"k": []any{1.0, "s"}}, Emb: Emb{1, 2}, Ptr: &W1{Name: "inner"}}
		}, false},
		{"ptr-nil", func() any { return struct{ P *int }{nil} }, false},
		{"ptr-set", func() any { return struct{ P *int }{&one} }, false},
		{"big-64k", func() any { return big(1500) }, false},
		{"big-1m", func() any { return big(28000) }, true},
		{"deep-1500", func() any { return deepVal(1500) }, true},
		{"empty-containers", func() any {
			return map[string]any{"a": []any{}, "b": map[string]any{}, "c": []int(nil), "d": map[string]int(nil)}
		}, false},
		{"map-insertion-orders", func() any {
			// same contents, inserted in an order that differs from invocation to invocation, with deletions in between
			k := int(insertionOrder.Add(1))
			m := map[string]any{}
			inner := map[int]string{}
			for i := 0; i < 40; i++ {
				j := (i*7 + k) % 40
				m[fmt.Sprintf("extra%d", j)] = j
				m[fmt.Sprintf("key%02d", j)] = float64(j)
				inner[j-20] = fmt.Sprint(j)
			}
			for i := 0; i < 40; i++ {
				delete(m, fmt.Sprintf("extra%d", (i+k)%40))
			}
			m["inner"] = inner
			return m
		}, false},
		{"floats", func() any { return []float64{0, -0.0, 1e21, 1e-7, 123456789.125, 5e-324} }, false},
		// scratch name lists of the Deterministic paths: a fallback map with several entries, then nested maps
		{"fallback-map-3", func() any {
			return []FB{{A: 1, Rest: map[string]int{"zz": 1, "yy": 2, "xx": 3}}, {A: 2, Rest: map[string]int{"q": 1, "p": 2}}}
		}, false},
		{"nested-maps", func() any {
			return map[string]map[string]int{"b": {"r": 3, "s": 4, "q": 0}, "a": {"p": 1, "q": 2}, "c": {"z": 9, "y": 8}}
		}, false},
	}
	for mi, mv := range mvals {
		for oi, os := range mopts {
			if oi != 0 && (oi+mi)%3 != 0 {
				continue // every value meets "det" and a rotating third of the other option sets
			}
			mv, os := mv, os
			name := "marshal/" + mv.name + "/" + os.name
			unordered := !os.det
			add(name+"/Marshal", "Marshal", unordered, mv.heavy, func(keep func(string, func() []byte)) result {
				b, err := json.Marshal(mv.v(), os.o...)
				if err == nil {
					keep("Marshal", func() []byte { return b })
				}
				return result{string(b), errClass(err)}
			})
			add(name+"/MarshalWrite-bytes.Buffer", "MarshalWrite-bb", unordered, mv.heavy, func(keep func(string, func() []byte)) result {
				var bb bytes.Buffer
				err := json.MarshalWrite(&bb, mv.v(), os.o...)
				if err != nil {
					return result{"", errClass(err)} // delivered prefix is not part of the result
				}
				return result{bb.String(), ""}
			})
			add(name+"/MarshalWrite-opaque", "MarshalWrite-op", unordered, mv.heavy, func(keep func(string, func() []byte)) result {
				var ow opaqueWriter
				err := json.MarshalWrite(&ow, mv.v(), os.o...)
				if err != nil {
					return result{"", errClass(err)}
				}
				return result{ow.b.String(), ""}
			})
		}
		mv := mv
		add("marshal/"+mv.name+"/MarshalEncode-in-array", "MarshalEncode", false, mv.heavy, func(keep func(string, func() []byte)) result {
			var bb bytes.Buffer
			e := jsontext.NewEncoder(&bb, jsontext.SpaceAfterComma(true))
			e.WriteToken(jsontext.BeginArray)
			e.WriteToken(jsontext.Null)
			err := json.MarshalEncode(e, mv.v(), det)
			if err != nil {
				return result{"", errClass(err)}
			}
			e.WriteToken(jsontext.EndArray)
			return result{bb.String(), ""}
		})
		add("marshal/"+mv.name+"/v1.Marshal", "v1.Marshal", false, mv.heavy, func(keep func(string, func() []byte)) result {
			b, err := jsonv1.Marshal(mv.v())
			if err == nil {
				keep("v1.Marshal", func() []byte { return b })
			}
			return result{string(b), errClass(err)}
		})
		add("marshal/"+mv.name+"/MarshalWrite-failing-writer", "MarshalWrite-fail", false, mv.heavy, func(keep func(string, func() []byte)) result {
			fw := &failWriter{n: 20}
			err := json.MarshalWrite(fw, mv.v(), det)
			return result{"", errClass(err)}
		})
	}

	// ---- shared pointers: the encoder's cycle bookkeeping is keyed by (type, address), so only a
	// value whose pointers keep their address from call to call can meet an entry that an earlier
	// call left behind.  The values are package-level and read-only; whether user code panics or
	// fails below the pointer is decided by the OPTIONS of the call (a marshal function for P).
	panicky := json.WithMarshalers(json.MarshalToFunc(func(e *jsontext.Encoder, p P) error { panic(run.UserPanic{Tag: "marshal-func"}) }))
	failing := json.WithMarshalers(json.MarshalToFunc(func(e *jsontext.Encoder, p P) error { return errors.New("user func error") }))
	type sopt struct {
		name string
		o    []json.Options
	}
	for _, sv := range []struct {
		name string
		v    any
	}{
		{"ptrptr", struct{ F **PW }{sharedPtrPtr}},
		{"ptrany", struct{ F *any }{&sharedAny}},
		{"ptrptr-in-slice", []**PW{sharedPtrPtr, sharedPtrPtr}},
		{"ptr-to-iface-in-map", map[string]*any{"k": &sharedAny}},
	} {
		for _, so := range []sopt{{"det", []json.Options{det}}, {"panicking-func", []json.Options{det, panicky}}, {"failing-func", []json.Options{det, failing}}} {
			sv, so := sv, so
			add("marshal/shared-"+sv.name+"/"+so.name+"/Marshal", "Marshal", false, false, func(keep func(string, func() []byte)) result {
				b, err := json.Marshal(sv.v, so.o...)
				return result{string(b), errClass(err)}
			})
			add("marshal/shared-"+sv.name+"/"+so.name+"/MarshalWrite", "MarshalWrite-bb", false, false, func(keep func(string, func() []byte)) result {
				var bb bytes.Buffer
				if err := json.MarshalWrite(&bb, sv.v, so.o...); err != nil {
					return result{"", errClass(err)}
				}
				return result{bb.String(), ""}
			})
		}
	}
	// ---- Deterministic over keys whose emitted names tie: different Go keys that read as the same text once
	// each ill-formed byte is U+FFFD; the order of the VALUES must still not depend on the iteration order
	tieOpts := []json.Options{det, jsontext.AllowInvalidUTF8(true), jsontext.AllowDuplicateNames(true)}
	for _, tv := range []struct {
		name string
		v    func() any
	}{
		{"string-keys", func() any {
			m := map[string]int{}
			for i := 0; i < 6; i++ {
				m[fmt.Sprintf("id%d\xff", i)], m[fmt.Sprintf("id%d\xfe", i)], m[fmt.Sprintf("id%d\xc3", i)] = 3*i, 3*i+1, 3*i+2
			}
			return m
		}},
		{"named-string-keys", func() any {
			m := map[SK]int{}
			for i := 0; i < 6; i++ {
				m[SK(fmt.Sprintf("id%d\xff", i))], m[SK(fmt.Sprintf("id%d\xfe", i))], m[SK(fmt.Sprintf("id%d\xc3", i))] = 3*i, 3*i+1, 3*i+2
			}
			return m
		}},
		{"named-string-keys-in-any", func() any {
			m := map[SK]string{}
			for i := 0; i < 6; i++ {
				m[SK(fmt.Sprintf("\xff%d", i))], m[SK(fmt.Sprintf("\xfe%d", i))] = "a", "b"
			}
			return []any{m, map[string]any{"k": m}}
		}},
		{"text-keys", func() any {
			m := map[TX]int{}
			for i := 0; i < 6; i++ {
				m[TX(fmt.Sprintf("t%d\xff", i))], m[TX(fmt.Sprintf("t%d\xfe", i))] = 2*i, 2*i+1
			}
			return m
		}},
	} {
		tv := tv
		add("marshal/tied-"+tv.name+"/det+invalidutf8+dup/Marshal", "Marshal", false, false, func(keep func(string, func() []byte)) result {
			b, err := json.Marshal(tv.v(), tieOpts...)
			return result{string(b), errClass(err)}
		})
	}

	// ---- unmarshal family
	type uin struct {
		name  string
		in    string
		heavy bool
	}
	bigDoc := func(n int) string {
		return `{"a":1,"m":{"k":[` + strings.Repeat(`"xxxxxxxxxxxxxxxxxxxxxxxxxxxxxx",`, n) + `1]},"s":"tail"}`
	}
	uins := []uin{
		{"ok", `{"a":1,"s":"x","m":{"k":[1,2,{"q":null}]},"l":[{"a":2}],"b":"aGVsbG8=","x":"tx:v","k":{"tx:a":1},"f":"2.5","r":{"raw":[1, 2]}}`, false},
		{"dup", `{"a":1,"a":2}`, false},
		{"wrong-kind", `{"a":"bad","s":5}`, false},
		{"syntax-deep", `{"a":1,"m":{"x":tru}}`, false},
		{"truncated", `{"a":1`, false},
		{"array", `[{},{"x":1},3]`, false},
		{"strings", `["a","é","😀","😀","` + strings.Repeat("long", 50) + `","a","a"]`, false},
		{"invalid-utf8", "{\"s\":\"\xff\"}", false},
		{"numbers", `[0,-0,1e400,1.5,123456789012345678901234567890,1e-400]`, false},
		{"range-error", `{"a":300000000000000000000,"s":"x"}`, false},
		{"fraction-into-int", `{"l":[{"a":1},{"a":17.25}],"f":"2.5"}`, false},
		{"big-64k", bigDoc(1800), false},
		{"big-1m", bigDoc(30000), true},
		{"deep-1500", deep(1500), true},
		{"deep-10001", deep(10001), true},
		{"stream", `{"a":1} {"a":2} [3]`, false},
		{"empty", ``, false},
		{"unknown", `{"zzz":{"deep":[1,2,3]},"a":5}`, false},
	}
	type utarget struct {
		name string
		mk   func() any
	}
	utargets := []utarget{
		{"T", func() any { return new(T) }},
		{"any", func() any { return new(any) }},
		{"map", func() any { return new(map[string]any) }},
		{"[]U", func() any { return new([]U) }},
		{"[]U-panic", func() any { return &[]U{{1}, {1}, {1}} }},
		{"W1", func() any { return new(W1) }},
		{"prepopulated-T", func() any { return &T{A: 9, M: map[string]any{"old": true}, L: []T{{A: 1}, {A: 2}}} }},
	}
	uopts := []optset{
		{"default", nil, true},
		{"dup+invalid", []json.Options{jsontext.AllowDuplicateNames(true), jsontext.AllowInvalidUTF8(true)}, true},
		{"v1", []json.Options{jsonv1.DefaultOptionsV1()}, true},
		{"reject-unknown+caseless", []json.Options{json.RejectUnknownMembers(true), json.MatchCaseInsensitiveNames(true)}, true},
	}
	for ii, ui := range uins {
		for ti, ut := range utargets {
			for oi, uo := range uopts {
				ui, ut, uo := ui, ut, uo
				if uo.name != "default" && (ut.name == "[]U" || ut.name == "[]U-panic" || ut.name == "W1") {
					continue
				}
				if oi != 0 && (oi+ii+ti)%3 != 0 {
					continue
				}
				name := "unmarshal/" + ui.name + "/" + ut.name + "/" + uo.name
				add(name+"/Unmarshal", "Unmarshal", false, ui.heavy, func(keep func(string, func() []byte)) result {
					in := []byte(ui.in)
					v := ut.mk()
					err := json.Unmarshal(in, v, uo.o...)
					d := dump(v)
					keepDecoded(keep, v)
					keepError(keep, err)
					scribble(in) // the caller may reuse its input buffer
					return result{d, errClass(err)}
				})
				if uo.name != "default" && uo.name != "v1" {
					continue
				}
				add(name+"/UnmarshalRead-opaque", "UnmarshalRead-op", false, ui.heavy, func(keep func(string, func() []byte)) result {
					v := ut.mk()
					err := json.UnmarshalRead(opaqueReader{strings.NewReader(ui.in)}, v, uo.o...)
					keepError(keep, err)
					return result{dump(v), errClass(err)}
				})
				add(name+"/UnmarshalRead-bytes.Buffer", "UnmarshalRead-bb", false, ui.heavy, func(keep func(string, func() []byte)) result {
					v := ut.mk()
					err := json.UnmarshalRead(bytes.NewBufferString(ui.in), v, uo.o...)
					keepError(keep, err)
					return result{dump(v), errClass(err)}
				})
			}
		}
		ui := ui
		add("unmarshal/"+ui.name+"/UnmarshalDecode-stream", "UnmarshalDecode", false, ui.heavy, func(keep func(string, func() []byte)) result {
			d := jsontext.NewDecoder(opaqueReader{strings.NewReader(ui.in)})
			var outs []string
			var err error
			for i := 0; i < 4; i++ {
				var v any
				if err = json.UnmarshalDecode(d, &v); err != nil {
					break
				}
				outs = append(outs, dump(v))
			}
			return result{strings.Join(outs, "|"), errClass(err)}
		})
		add("unmarshal/"+ui.name+"/v1.Unmarshal-any", "v1.Unmarshal", false, ui.heavy, func(keep func(string, func() []byte)) result {
			var v any
			err := jsonv1.Unmarshal([]byte(ui.in), &v)
			if err != nil {
				return result{"", fmt.Sprintf("%T", err)}
			}
			return result{dump(v), ""}
		})
	}

	// ---- format family
	fins := []uin{
		{"spaced", ` { "b" : [ 1 , 2.0 , 1e2 ] , "a" : "é" , "c" : { } } `, false},
		{"invalid", `{"b":[1,2],"a":tru}`, false},
		{"dup", `{"a":1,"a":2}`, false},
		{"compact", `{"a":[1,2,{"b":null}],"c":"x"}`, false},
		{"big-64k", bigDoc(1800), false},
		{"big-1m", bigDoc(30000), true},
		{"deep-1500", deep(1500), true},
	}
	fopts := []optset{
		{"default", nil, true},
		{"multiline", []json.Options{jsontext.Multiline(true), jsontext.WithIndent("  ")}, true},
		{"canon", []json.Options{jsontext.CanonicalizeRawInts(true), jsontext.CanonicalizeRawFloats(true), jsontext.ReorderRawObjects(true)}, true},
		{"escape", []json.Options{jsontext.EscapeForHTML(true), jsontext.EscapeForJS(true), jsontext.AllowDuplicateNames(true)}, true},
	}
	for _, fi := range fins {
		for _, fo := range fopts {
			fi, fo := fi, fo
			name := "format/" + fi.name + "/" + fo.name
			add(name+"/Value.Format", "Format", false, fi.heavy, func(keep func(string, func() []byte)) result {
				v := jsontext.Value(fi.in)
				err := v.Format(fo.o...)
				keep("Format", func() []byte { return v })
				return result{string(v), errClass(err)}
			})
			add(name+"/AppendFormat", "AppendFormat", false, fi.heavy, func(keep func(string, func() []byte)) result {
				src := []byte(fi.in)
				out, err := jsontext.AppendFormat([]byte("pre:"), src, fo.o...)
				keep("AppendFormat", func() []byte { return out })
				scribble(src)
				return result{string(out), errClass(err)}
			})
		}
		fi := fi
		// nil destination (nothing to append to) and a destination without spare capacity: what comes back must be the
		// caller's own memory even when the text needed no change
		for di, dst := range [][]byte{nil, make([]byte, 0), []byte("x")[:1:1]} {
			di, dst := di, dst
			add(fmt.Sprintf("format/%s/AppendFormat-tight-dst-%d", fi.name, di), "AppendFormat", false, fi.heavy, func(keep func(string, func() []byte)) result {
				src := []byte(fi.in)
				out, err := jsontext.AppendFormat(dst, src)
				res := string(out)
				keep("AppendFormat", func() []byte { return out })
				scribble(src)
				return result{res, errClass(err)}
			})
		}
		// an already formatted text shared by all goroutines: formatting it again must not write to it
		add("format/"+fi.name+"/Value.Compact-shared-formatted", "Format", false, fi.heavy, func(keep func(string, func() []byte)) result {
			v := sharedFormatted(fi.name, fi.in)
			err := v.Compact()
			return result{string(v), errClass(err)}
		})
		add("format/"+fi.name+"/Canonicalize", "Canonicalize", false, fi.heavy, func(keep func(string, func() []byte)) result {
			v := jsontext.Value(fi.in)
			err := v.Canonicalize()
			keep("Canonicalize", func() []byte { return v })
			return result{string(v), errClass(err)}
		})
		add("format/"+fi.name+"/Compact+Indent", "Compact", false, fi.heavy, func(keep func(string, func() []byte)) result {
			v := jsontext.Value(fi.in)
			err := v.Compact()
			if err == nil {
				err = v.Indent()
			}
			return result{string(v), errClass(err)}
		})
		add("format/"+fi.name+"/IsValid", "IsValid", false, fi.heavy, func(keep func(string, func() []byte)) result {
			return result{fmt.Sprint(jsontext.Value(fi.in).IsValid(), jsontext.Value(fi.in).IsValid(jsontext.AllowDuplicateNames(true))), ""}
		})
		add("format/"+fi.name+"/v1.Indent", "v1.Indent", false, fi.heavy, func(keep func(string, func() []byte)) result {
			var bb bytes.Buffer
			err := jsonv1.Indent(&bb, []byte(fi.in), ">", "\t")
			if err != nil {
				return result{"", fmt.Sprintf("%T", err)}
			}
			return result{bb.String(), ""}
		})
	}

	// ---- token-level coders
	add("coder/encoder-reject-then-continue", "Encoder", false, false, func(keep func(string, func() []byte)) result {
		var out bytes.Buffer
		e := jsontext.NewEncoder(&out, jsontext.SpaceAfterComma(true))
		e.WriteToken(jsontext.BeginArray)
		e.WriteToken(jsontext.String("a"))
		err := e.WriteToken(jsontext.EndObject)
		e.WriteToken(jsontext.BeginObject)
		e.WriteToken(jsontext.String("k"))
		e.WriteValue(jsontext.Value(` [ 1 , 2 ] `))
		err2 := e.WriteToken(jsontext.String("k"))
		e.WriteToken(jsontext.EndObject)
		e.WriteToken(jsontext.EndArray)
		return result{out.String() + "|" + string(e.StackPointer()), errClass(err) + "|" + errClass(err2)}
	})
	add("coder/decoder-tokens-values", "Decoder", false, false, func(keep func(string, func() []byte)) result {
		d := jsontext.NewDecoder(opaqueReader{strings.NewReader(`{"name":"value","arr":[null,false,true,3.14159],"obj":{"k":"v"},"name":1}`)})
		var sb strings.Builder
		var err error
		var strs []string
		for i := 0; ; i++ {
			if i%3 == 2 {
				var v jsontext.Value
				v, err = d.ReadValue()
				sb.WriteString(string(v) + ";")
			} else {
				var t jsontext.Token
				t, err = d.ReadToken()
				if err == nil && t.Kind() == '"' {
					s := t.String()
					strs = append(strs, s)
				}
				sb.WriteString(t.Kind().String() + ";")
			}
			if err != nil {
				break
			}
		}
		j := strings.Join(strs, ",")
		keep("Token.String", func() []byte { return []byte(j) })
		return result{sb.String() + string(d.StackPointer()), errClass(err)}
	})
	add("coder/decoder-reuse-reset", "Decoder", false, false, func(keep func(string, func() []byte)) result {
		d := jsontext.NewDecoder(strings.NewReader(`[1,{"a":`), jsontext.AllowDuplicateNames(true))
		for {
			if _, err := d.ReadToken(); err != nil {
				break
			}
		}
		d.Reset(bytes.NewBufferString(`{"a":1,"a":2}`))
		var err error
		for err == nil {
			_, err = d.ReadToken()
		}
		return result{string(d.StackPointer()), errClass(err)}
	})
	add("coder/encoder-reuse-reset", "Encoder", false, false, func(keep func(string, func() []byte)) result {
		var b1, b2 bytes.Buffer
		e := jsontext.NewEncoder(&b1, jsontext.Multiline(true))
		e.WriteToken(jsontext.BeginObject)
		e.WriteToken(jsontext.String("x"))
		e.Reset(&b2)
		err := e.WriteValue(jsontext.Value(`{"a":[1,2]}`))
		return result{b1.String() + "|" + b2.String(), errClass(err)}
	})
	// first use of fresh types (arshaler cache misses) — the same types in every process
	for i := 0; i < 24; i++ {
		i := i
		add(fmt.Sprintf("firstuse/type-%d", i), "first-use", false, false, func(keep func(string, func() []byte)) result {
			t := freshType(i)
			v := reflect.New(t)
			err := json.Unmarshal([]byte(fmt.Sprintf(`{"a%d":%d,"b":["x","y"],"C":{"k":7,"n":null}}`, i, i)), v.Interface())
			if err != nil {
				return result{"", errClass(err)}
			}
			b, err := json.Marshal(v.Interface(), det)
			return result{string(b), errClass(err)}
		})
	}
	// one options array shared by several calls that pass different prefixes of it (variadic arguments alias it)
	sharedOpts := []json.Options{det, jsontext.Multiline(true), jsontext.WithIndent(" "), json.FormatNilSliceAsNull(true), nil, nil}[:4]
	for k := 0; k <= 4; k++ {
		k := k
		add(fmt.Sprintf("sharedopts/marshal-prefix-%d", k), "Marshal-sharedopts", k == 0 /* no Deterministic yet */, false, func(keep func(string, func() []byte)) result {
			b, err := json.Marshal(struct {
				A []int
				M map[string]any
			}{nil, map[string]any{"b": 1.0, "a": []any{}}}, sharedOpts[:k]...)
			return result{string(b), errClass(err)}
		})
	}
	sharedUOpts := []json.Options{json.RejectUnknownMembers(true), json.MatchCaseInsensitiveNames(true), jsontext.AllowDuplicateNames(true), nil, nil}[:3]
	for k := 0; k <= 3; k++ {
		k := k
		add(fmt.Sprintf("sharedopts/unmarshal-prefix-%d", k), "Unmarshal-sharedopts", false, false, func(keep func(string, func() []byte)) result {
			var v struct{ Name int }
			err := json.Unmarshal([]byte(`{"name":1,"NAME":2,"other":3}`), &v, sharedUOpts[:k]...)
			return result{dump(v), errClass(err)}
		})
	}
	// the same struct type with a fallback map decoded from different inputs (concurrently in the concurrent histories)
	for i := 0; i < 12; i++ {
		i := i
		add(fmt.Sprintf("fallback/unknown-members-%d", i), "Unmarshal-fallback", false, false, func(keep func(string, func() []byte)) result {
			var sb strings.Builder
			fmt.Fprintf(&sb, `{"a":%d`, i)
			for k := 0; k < 30; k++ {
				fmt.Fprintf(&sb, `,"k%02d":%d`, k, i*100+k)
			}
			sb.WriteString("}")
			var v FB
			var err error
			if i%2 == 0 {
				err = json.Unmarshal([]byte(sb.String()), &v)
			} else {
				err = json.UnmarshalRead(opaqueReader{strings.NewReader(sb.String())}, &v)
			}
			return result{dump(v), errClass(err)}
		})
	}
	// Marshalers/Unmarshalers option values shared between calls (per-Marshalers cache)
	sharedM := json.JoinMarshalers(
		json.MarshalFunc(func(v int) ([]byte, error) { return []byte(fmt.Sprintf(`"i%d"`, v)), nil }),
		json.MarshalToFunc(func(e *jsontext.Encoder, v string) error {
			if v == "skip" {
				return errors.ErrUnsupported
			}
			return e.WriteToken(jsontext.String("s:" + v))
		}),
	)
	for i, v := range []any{[]int{1, 2}, map[string]any{"k": 3, "s": "skip"}, T{A: 4, S: "q"}, struct{ X, Y any }{1, "z"}} {
		v := v
		add(fmt.Sprintf("funcs/shared-marshalers-%d", i), "Marshal-funcs", false, false, func(keep func(string, func() []byte)) result {
			b, err := json.Marshal(v, det, json.WithMarshalers(sharedM))
			return result{string(b), errClass(err)}
		})
	}
}

// keepError registers what an error value hands back (the offending JSON value and the message)
// for the stability check: an error is part of what a call returns.
func keepError(keep func(string, func() []byte), err error) {
	var se *json.SemanticError
	if errors.As(err, &se) && len(se.JSONValue) > 0 {
		keep("SemanticError.JSONValue", func() []byte { return se.JSONValue })
	}
	var sy *jsontext.SyntacticError
	if errors.As(err, &sy) || se != nil {
		keep("error-text", func() []byte { return []byte(err.Error()) })
	}
}

// keepDecoded registers the strings and byte slices of a decoded value for the stability check.
func keepDecoded(keep func(string, func() []byte), v any) {
	switch x := v.(type) {
	case *T:
		s, b, r := x.S, x.B, x.R
		keep("T.S", func() []byte { return []byte(s) })
		keep("T.B", func() []byte { return b })
		keep("T.R", func() []byte { return r })
	case *any:
		if arr, ok := (*x).([]any); ok {
			for i, e := range arr {
				if s, ok := e.(string); ok && i < 8 {
					keep("any.string", func() []byte { return []byte(s) })
				}
			}
		}
	}
}

// C18 — calls are isolated from one another: no history or concurrency dependence, no data
// races, returned slices are never altered later, Deterministic output is reproducible.
//
// The binary is built with -race (see RACE). Golden results are computed once per call in a
// fresh process that runs only that call; histories (sequential, concurrent) then compare every
// call with its golden result. Race reports are collected from the race detector's log files.
package main

import (
	"bytes"
	stdjson "encoding/json"
	"fmt"
	"hash/fnv"
	"math/rand/v2"
	"os"
	"os/exec"
	"path/filepath"
	"regexp"
	"sort"
	"strings"
	"sync"
	"sync/atomic"
	"time"

	json "github.com/go-json-experiment/json"

	"verif/hooks"
	"verif/run"
)

type result struct {
	Out string `json:"out"` // bytes produced / canonical dump of the decoded value
	Err string `json:"err"` // error class (never text)
}

// retained is a slice handed back by the library (or a string), hashed at return time.
type retained struct {
	what string
	get  func() []byte
	sum  uint64
}

func sum(b []byte) uint64 {
	h := fnv.New64a()
	h.Write(b)
	return h.Sum64()
}

type call struct {
	name      string
	kind      string // coarse call kind, for (previous kind -> next kind) evidence
	unordered bool   // map-typed output without Deterministic: compare modulo member order
	heavy     bool   // large document / deep nesting: only in sequential histories
	fn        func(keep func(what string, get func() []byte)) result
}

var goldenMu sync.Mutex
var golden map[string]result

func goldenPath(dir string) string { return filepath.Join(dir, "golden.json") }

// prepare computes the golden result of every call in a fresh process each.
func prepare(dir, tier string, seed int64) error {
	self, _ := os.Executable()
	// is the race detector really watching?  A child deliberately races on a harness variable;
	// a report must appear in its log.
	st := exec.Command(self, "-raceselftest")
	st.Env = append(os.Environ(), "GORACE=halt_on_error=0 log_path="+filepath.Join(dir, "selftest-race"))
	st.Run()
	active := "0"
	if logs, _ := filepath.Glob(filepath.Join(dir, "selftest-race*")); len(logs) > 0 {
		if b, _ := os.ReadFile(logs[0]); raceHeader.Match(b) {
			active = "1"
		}
		for _, l := range logs {
			os.Remove(l)
		}
	}
	os.WriteFile(filepath.Join(dir, "detector_active"), []byte(active), 0o644)
	if nb := noRaceBin(); nb != "" {
		self = nb // golden results do not need the detector; a -race process costs ~20x more to start here
	}
	cs := catalogue()
	if tier != "thorough" {
		return prepareBatched(dir, self, cs)
	}
	out := make(map[string]result, len(cs))
	var mu sync.Mutex
	var firstErr atomic.Value
	sem := make(chan struct{}, 16)
	var wg sync.WaitGroup
	for i := range cs {
		wg.Add(1)
		sem <- struct{}{}
		go func(i int) {
			defer wg.Done()
			defer func() { <-sem }()
			cmd := exec.Command(self, "-golden", fmt.Sprint(i))
			cmd.Env = append(os.Environ(), "GORACE=halt_on_error=0 log_path="+filepath.Join(dir, "race-golden"))
			b, err := cmd.Output()
			if err != nil {
				firstErr.CompareAndSwap(nil, fmt.Errorf("golden process for call %q: %v", cs[i].name, err))
				return
			}
			var r result
			if err := stdjson.Unmarshal(b, &r); err != nil {
				firstErr.CompareAndSwap(nil, fmt.Errorf("golden output of %q: %v (%q)", cs[i].name, err, b))
				return
			}
			mu.Lock()
			out[cs[i].name] = r
			mu.Unlock()
		}(i)
	}
	wg.Wait()
	if e := firstErr.Load(); e != nil {
		return e.(error)
	}
	if len(out) != len(cs) {
		return fmt.Errorf("duplicate call names in the catalogue: %d names for %d calls", len(out), len(cs))
	}
	b, _ := stdjson.Marshal(out)
	return os.WriteFile(goldenPath(dir), b, 0o644)
}

// noRaceBin is the second build of this program without the race detector (built by ./check
// when cmd/c18/NORACE_TOO exists), or "".
func noRaceBin() string {
	b := os.Getenv("VERIF_BIN_NORACE")
	if b == "" {
		return ""
	}
	if _, err := os.Stat(b); err != nil {
		return ""
	}
	return b
}

// raceShards is the number of worker shards that run under the race detector; the others run
// the same histories in the plain build (about 16x cheaper here), where they still compare
// every call with its golden result, keep the pool-poisoning hooks on and re-hash returned data.
const raceShards = 8

// prepareBatched (quick tier): starting ~900 processes costs more than everything else in this
// check (process start-up is dear here when 16 start at once), so the golden results come from
// 2 x 24 fresh processes: process (r, rev) runs the calls i with i %% 24 == r, once in ascending
// and once in descending order.  The two results of every call must agree - a call whose result
// depends on what ran before it in the same process shows up right here - and the agreed value
// is the golden one.  The thorough tier keeps one fresh process per call.
func prepareBatched(dir, self string, cs []call) error {
	const m = 24
	type res struct {
		r, rev int
		out    map[string]result
		err    error
	}
	ch := make(chan res, 2*m)
	sem := make(chan struct{}, 8)
	for r := 0; r < m; r++ {
		for rev := 0; rev < 2; rev++ {
			go func(r, rev int) {
				sem <- struct{}{}
				defer func() { <-sem }()
				cmd := exec.Command(self, "-golden-batch", fmt.Sprint(r), fmt.Sprint(m), fmt.Sprint(rev))
				cmd.Env = append(os.Environ(), "GORACE=halt_on_error=0 log_path="+filepath.Join(dir, "race-golden"))
				b, err := cmd.Output()
				o := map[string]result{}
				if err == nil {
					err = stdjson.Unmarshal(b, &o)
				}
				ch <- res{r, rev, o, err}
			}(r, rev)
		}
	}
	var outs [2]map[string]result
	outs[0], outs[1] = map[string]result{}, map[string]result{}
	for i := 0; i < 2*m; i++ {
		x := <-ch
		if x.err != nil {
			return fmt.Errorf("golden batch %d/%d: %v", x.r, x.rev, x.err)
		}
		for k, v := range x.out {
			outs[x.rev][k] = v
		}
	}
	if len(outs[0]) != len(cs) || len(outs[1]) != len(cs) {
		return fmt.Errorf("golden batches returned %d and %d results for %d calls", len(outs[0]), len(outs[1]), len(cs))
	}
	var mismatches []string
	for i := range cs {
		c := &cs[i]
		if !equalResult(c, outs[0][c.name], outs[1][c.name]) {
			mismatches = append(mismatches, fmt.Sprintf("%s: %q/%q in ascending order, %q/%q in descending order", c.name, run.Trunc(outs[0][c.name].Out, 200), outs[0][c.name].Err, run.Trunc(outs[1][c.name].Out, 200), outs[1][c.name].Err))
		}
	}
	mb, _ := stdjson.Marshal(mismatches)
	os.WriteFile(filepath.Join(dir, "golden_mismatches.json"), mb, 0o644)
	b, _ := stdjson.Marshal(outs[0])
	return os.WriteFile(goldenPath(dir), b, 0o644)
}

func loadGolden(w *run.W) map[string]result {
	goldenMu.Lock()
	defer goldenMu.Unlock()
	if golden != nil {
		return golden
	}
	dir := os.Getenv("C18_DIR")
	b, err := os.ReadFile(goldenPath(dir))
	if err != nil {
		// replay outside a full run: compute goldens here
		if err := prepare(os.TempDir(), w.Tier, w.Seed); err == nil {
			b, err = os.ReadFile(goldenPath(os.TempDir()))
		}
		if err != nil {
			w.Broken("cannot load golden results: %v", err)
			return nil
		}
	}
	golden = map[string]result{}
	if err := stdjson.Unmarshal(b, &golden); err != nil {
		w.Broken("golden results: %v", err)
		return nil
	}
	return golden
}

func equalResult(c *call, got, want result) bool {
	if got.Err != want.Err {
		return false
	}
	if got.Out == want.Out {
		return true
	}
	if c.unordered {
		return sortMembers(got.Out) == sortMembers(want.Out)
	}
	return false
}

type historyArgs struct {
	Mode       string `json:"mode"` // "seq" | "conc" | "heavy" (sequential, with the large/deep calls mixed in)
	Seed       uint64 `json:"seed"`
	Len        int    `json:"len"`
	Goroutines int    `json:"goroutines"`
	Yield      bool   `json:"yield"`
	Heavy      int    `json:"heavy,omitempty"`  // number of heavy calls mixed into a "heavy" history
	Subset     string `json:"subset,omitempty"` // restrict to calls whose name contains this
}

// medium calls work on ~64 KiB documents: an order of magnitude dearer than the rest under
// -race, so they are drawn ten times less often (sizes of workloads never decide anything).
func isMedium(c *call) bool { return strings.Contains(c.name, "big-64k") }

func pick(r *rand.Rand, light, medium []*call) *call {
	if len(medium) > 0 && (len(light) == 0 || r.IntN(12) == 0) {
		return medium[r.IntN(len(medium))]
	}
	return light[r.IntN(len(light))]
}

func runHistory(w *run.W, a *historyArgs) {
	g := loadGolden(w)
	if g == nil {
		return
	}
	cs := catalogue()
	var light, medium, heavy []*call
	for i := range cs {
		c := &cs[i]
		if a.Subset != "" && !strings.Contains(c.name, a.Subset) {
			continue
		}
		switch {
		case c.heavy:
			heavy = append(heavy, c)
		case isMedium(c):
			medium = append(medium, c)
		default:
			light = append(light, c)
		}
	}
	if len(light)+len(medium) == 0 {
		return
	}
	hooks.EnablePoison(true)
	hooks.EnableYield(a.Yield)
	defer hooks.EnableYield(false)

	var keptMu sync.Mutex
	var kept []retained
	var order []string // global completion order (interleaving fingerprint)
	var pairs = map[string]struct{}{}
	check := func(c *call, r *rand.Rand, prev *string) {
		var local []retained
		res := c.fn(func(what string, get func() []byte) {
			local = append(local, retained{what: c.name + ":" + what, get: get, sum: sum(get())})
		})
		w.Eval(1)
		want, ok := g[c.name]
		if !ok {
			w.Broken("no golden for %q", c.name)
			return
		}
		if !equalResult(c, res, want) {
			w.Violate("result-depends-on-history", map[string]string{"call_kind": c.kind, "mode": a.Mode},
				"call %q in a %s history (previous call %q): got out=%s err=%q; alone in a fresh process: out=%s err=%q",
				c.name, a.Mode, *prev, run.Trunc(fmt.Sprintf("%q", res.Out), 400), res.Err, run.Trunc(fmt.Sprintf("%q", want.Out), 400), want.Err)
		}
		keptMu.Lock()
		kept = append(kept, local...)
		order = append(order, c.name)
		pairs[*prev+">"+c.kind] = struct{}{}
		keptMu.Unlock()
		*prev = c.kind
	}

	switch a.Mode {
	case "seq":
		r := rand.New(rand.NewPCG(a.Seed, 18))
		prev := "-"
		for i := 0; i < a.Len; i++ {
			check(pick(r, light, medium), r, &prev)
		}
	case "heavy":
		// very large and very deep data between ordinary calls: what a big call leaves in the
		// pools and caches must not show in the calls that follow it
		r := rand.New(rand.NewPCG(a.Seed, 19))
		prev := "-"
		at := map[int]bool{}
		for len(at) < min(a.Heavy, a.Len) && len(heavy) > 0 {
			at[r.IntN(a.Len)] = true
		}
		for i := 0; i < a.Len; i++ {
			if at[i] {
				check(heavy[r.IntN(len(heavy))], r, &prev)
				w.Count("heavy_calls_in_histories", 1)
			}
			check(pick(r, light, medium), r, &prev)
		}
	default:
		var wg sync.WaitGroup
		for gi := 0; gi < a.Goroutines; gi++ {
			wg.Add(1)
			go func(gi int) {
				defer wg.Done()
				defer func() {
					if p := recover(); p != nil {
						_, lib, stack := run.PanicOrigin()
						if lib {
							w.Violate("library-panic", map[string]string{"mode": "conc"}, "library panicked in a concurrent history: %v\n%s", p, stack)
						} else {
							w.Broken("harness panic in concurrent history: %v\n%s", p, stack)
						}
					}
				}()
				r := rand.New(rand.NewPCG(a.Seed, uint64(gi)+100))
				prev := "-"
				for i := 0; i < a.Len; i++ {
					check(pick(r, light, medium), r, &prev)
				}
			}(gi)
		}
		wg.Wait()
	}

	// stability: everything handed back must still hash to what it did on return. The re-read
	// happens from this goroutine, so under -race a late library write is also a reported race.
	altered := 0
	for _, k := range kept {
		if sum(k.get()) != k.sum {
			altered++
			if altered <= 3 {
				w.Violate("returned-data-altered", map[string]string{"what": strings.SplitN(k.what, ":", 2)[1]},
					"%s: the bytes handed back by the library changed after later calls (now %q)", k.what, run.Trunc(string(k.get()), 200))
			}
		}
	}
	w.Count("retained_slices_rechecked", int64(len(kept)))
	mode := a.Mode
	if mode == "heavy" {
		mode = "seq"
	}
	w.Count("history_"+mode, 1)
	w.Count("ops_"+mode, int64(len(order)))
	if raceBuild {
		w.Count("ops_"+mode+"_under_race_detector", int64(len(order)))
	}
	for p := range pairs {
		w.Shape("pair|" + p)
	}
	h := fnv.New64a()
	for _, n := range order {
		h.Write([]byte(n))
		h.Write([]byte{0})
	}
	w.ShapeHash(h.Sum64())
	if w.WantSample() {
		n := min(len(order), 12)
		w.Sample(map[string]any{"exec": "history", "mode": a.Mode, "first_calls": order[:n], "ops": len(order), "distinct_kind_pairs": len(pairs)})
	}
}

// ---- race log scanning (parent)

var raceHeader = regexp.MustCompile(`(?m)^WARNING: DATA RACE`)

func post(p *run.Parent) {
	files, _ := filepath.Glob(filepath.Join(p.Dir, "race*"))
	total := 0
	seen := map[string]bool{}
	for _, f := range files {
		if strings.HasSuffix(f, ".json") {
			continue
		}
		b, err := os.ReadFile(f)
		if err != nil {
			continue
		}
		blocks := raceHeader.Split(string(b), -1)
		for _, blk := range blocks[1:] {
			total++
			key := raceKey(blk)
			if seen[key] {
				continue
			}
			seen[key] = true
			p.AddViolation("race-log", "data-race", map[string]string{"frames": key}, map[string]string{"log": f},
				"the race detector reported a data race (log %s):\nWARNING: DATA RACE%s", f, run.Trunc(blk, 3000))
		}
	}
	if b, err := os.ReadFile(filepath.Join(p.Dir, "golden_mismatches.json")); err == nil {
		var ms []string
		stdjson.Unmarshal(b, &ms)
		for i, m := range ms {
			if i < 5 {
				p.AddViolation("golden", "result-depends-on-history", map[string]string{"mode": "golden-batches"}, map[string]string{"call": strings.SplitN(m, ":", 2)[0]},
					"the same call gives different results in two fresh processes that ran the same calls in opposite orders: %s", m)
			}
		}
		p.Counters["golden_results_cross_checked"] = 1
	}
	if b, _ := os.ReadFile(filepath.Join(p.Dir, "detector_active")); string(b) == "1" {
		p.Counters["race_detector_selftest_reported"] = 1
	}
	p.Counters["race_reports"] = int64(total)
	p.Counters["race_logs_scanned"] = int64(len(files))
}

// raceKey deduplicates reports by the first library frame of each of the two accesses.
func raceKey(blk string) string {
	var frames []string
	for _, sec := range strings.Split(blk, "\n\n") {
		if !(strings.Contains(sec, "Write at") || strings.Contains(sec, "Read at") || strings.Contains(sec, "Previous")) {
			continue
		}
		for _, l := range strings.Split(sec, "\n") {
			l = strings.TrimSpace(l)
			if strings.HasPrefix(l, run.LibPrefix) {
				if i := strings.IndexByte(l, '('); i > 0 {
					l = l[:i]
				}
				frames = append(frames, l)
				break
			}
		}
	}
	sort.Strings(frames)
	return strings.Join(frames, " | ")
}

var M = &run.Monitor{
	ID:    "C18",
	Level: "exploration",
	Rule: "catalogue of deterministic call closures over every public entry point (Marshal/MarshalWrite/MarshalEncode, Unmarshal/UnmarshalRead/UnmarshalDecode, Format family, token-level coders, v1) x option sets x failing/panicking user code x large/deep data; " +
		"golden result of each call from a fresh process running only that call; cases are seeded sequential and 16-goroutine concurrent histories in a -race build with poison-on-put pool hooks; every op is compared with its golden (bytes/value dump/error class+offset+pointer), " +
		"every returned slice is re-hashed at the end of the history after inputs were scribbled over, race-detector logs are scanned. distinct = global completion order of a history, and (previous call kind -> next call kind) pairs observed",
	Assumptions: []string{
		"the Go race detector (go build -race) and its log files (GORACE=halt_on_error=0 log_path=...)",
		"golden results come from the same library build run in a fresh process per call; without Deterministic map-typed outputs are compared modulo member order",
		"on a failing writer the bytes already delivered are not part of the result (only the error is compared), see DESIGN C18",
	},
	Prepare: prepare,
	WorkerBin: func(self string, shard int) string {
		if shard >= raceShards {
			return noRaceBin()
		}
		return ""
	},
	WorkerEnv: func(dir string) []string {
		return []string{"GORACE=halt_on_error=0 log_path=" + filepath.Join(dir, "race"), "C18_DIR=" + dir}
	},
	Post: post,
	Floors: func(c map[string]int64, tier string) []string {
		var u []string
		need := func(k string, n int64) {
			if c[k] < n {
				u = append(u, fmt.Sprintf("%s=%d < %d", k, c[k], n))
			}
		}
		need("ops_seq", 5000)
		need("ops_conc", 5000)
		need("retained_slices_rechecked", 2000)
		need("heavy_calls_in_histories", 20)
		if os.Getenv("VERIF_NORACE") != "1" {
			need("workers_under_race_detector", 1)
			need("ops_conc_under_race_detector", 500)
		}
		if os.Getenv("VERIF_NORACE") != "1" {
			need("race_detector_selftest_reported", 1) // a planted race in a child process must be reported
		}
		if c["hooks_available"] > 0 {
			need("hook_pool_gets", 5000)
			need("hook_pool_poisoned_bytes", 100000)
			need("hook_point_lookup_arshaler_miss", 16)
		}
		return u
	},
	HangSeconds: 400,
}

func main() {
	if len(os.Args) == 3 && os.Args[1] == "-golden" {
		var i int
		fmt.Sscan(os.Args[2], &i)
		cs := catalogue()
		r := cs[i].fn(func(string, func() []byte) {})
		b, _ := stdjson.Marshal(r)
		os.Stdout.Write(b)
		return
	}
	if len(os.Args) == 5 && os.Args[1] == "-golden-batch" {
		// results of the calls i with i % m == r, run in ascending (rev=0) or descending (rev=1) order
		var r, m, rev int
		fmt.Sscan(os.Args[2], &r)
		fmt.Sscan(os.Args[3], &m)
		fmt.Sscan(os.Args[4], &rev)
		cs := catalogue()
		var idx []int
		for i := range cs {
			if i%m == r {
				idx = append(idx, i)
			}
		}
		if rev == 1 {
			for a, b := 0, len(idx)-1; a < b; a, b = a+1, b-1 {
				idx[a], idx[b] = idx[b], idx[a]
			}
		}
		out := map[string]result{}
		for _, i := range idx {
			func() {
				// a panic of the library in the middle of a batch must not take the other golden results with
				// it: it becomes that call's result (the opposite-order batch, where the call has another
				// history, then disagrees - or agrees, and every history is compared with it)
				defer func() {
					if p := recover(); p != nil {
						origin, _, _ := run.PanicOrigin()
						out[cs[i].name] = result{Err: "panic in " + origin}
					}
				}()
				out[cs[i].name] = cs[i].fn(func(string, func() []byte) {})
			}()
		}
		b, _ := stdjson.Marshal(out)
		os.Stdout.Write(b)
		return
	}
	if len(os.Args) == 2 && os.Args[1] == "-raceselftest" {
		x := 0
		done := make(chan bool)
		go func() { x++; done <- true }()
		x++
		<-done
		_ = x
		return
	}
	if len(os.Args) == 2 && os.Args[1] == "-times" {
		// developer aid: cost of each catalogue call in this build
		cs := catalogue()
		type ct struct {
			name string
			d    time.Duration
		}
		var ts []ct
		for i := range cs {
			t0 := time.Now()
			cs[i].fn(func(string, func() []byte) {})
			cs[i].fn(func(string, func() []byte) {})
			ts = append(ts, ct{cs[i].name, time.Since(t0) / 2})
		}
		sort.Slice(ts, func(i, j int) bool { return ts[i].d > ts[j].d })
		var tot time.Duration
		for _, t := range ts {
			tot += t.d
		}
		fmt.Println(len(ts), "calls, total", tot)
		for _, t := range ts[:min(40, len(ts))] {
			fmt.Println(t.d, t.name)
		}
		return
	}
	run.Def(M, "history", runHistory)
	M.Gen = func(w *run.W) {
		if w.Shard%2 == 1 {
			// the process-wide experimental switch must not change any result of the catalogue (no value in it
			// carries a format tag); it makes every call copy its option list, which is where aliasing can creep in
			json.ExperimentalGlobalSupportFormatTag(true)
			w.Count("workers_with_global_format_tag_switch", 1)
		}
		if raceBuild {
			w.Count("workers_under_race_detector", 1)
		} else {
			w.Count("workers_plain_build", 1)
		}
		nSeq, nConc, seqLen, concLen, heavyLen, heavyN := w.Pick(20, 150), w.Pick(20, 150), w.Pick(300, 500), w.Pick(40, 60), w.Pick(200, 400), w.Pick(40, 120)
		if raceBuild {
			// under the detector every operation costs an order of magnitude more: fewer, shorter histories,
			// weighted towards the concurrent ones (that is where it can see something the plain build cannot)
			nSeq, nConc, seqLen, concLen, heavyLen, heavyN = w.Pick(4, 30), w.Pick(8, 60), w.Pick(200, 300), w.Pick(30, 40), w.Pick(60, 200), w.Pick(4, 24)
		}
		for i := 0; i < max(nSeq, nConc); i++ {
			r := w.Rand("hist", w.Shard, i)
			if i < nSeq {
				w.Do("history", &historyArgs{Mode: "seq", Seed: r.Uint64(), Len: seqLen})
			}
			if i < nConc {
				w.Do("history", &historyArgs{Mode: "conc", Seed: r.Uint64(), Len: concLen, Goroutines: 16, Yield: i%2 == 0})
			}
		}
		// one sequential history per worker with the 1 MiB / depth > 1000 calls mixed in
		r := w.Rand("heavy", w.Shard)
		w.Do("history", &historyArgs{Mode: "heavy", Seed: r.Uint64(), Len: heavyLen, Heavy: heavyN})
	}
	run.Main(M)
}

// sortMembers re-serializes JSON with object members sorted (for unordered comparisons).
func sortMembers(s string) string {
	var v any
	d := stdjson.NewDecoder(bytes.NewReader([]byte(s)))
	d.UseNumber()
	if err := d.Decode(&v); err != nil {
		return s
	}
	b, err := stdjson.Marshal(v) // encoding/json sorts map keys
	if err != nil {
		return s
	}
	return string(b)
}

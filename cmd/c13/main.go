// C13 — Value.Canonicalize produces the RFC 8785 canonical form, and any two texts that
// differ only in whitespace, member order, escape spelling or number spelling
// canonicalize to identical bytes.
package main

import (
	"bytes"
	stdjson "encoding/json"
	"fmt"
	"math"
	"math/big"
	"math/rand/v2"
	"sort"
	"strconv"
	"strings"
	"unicode/utf16"
	"unicode/utf8"

	"github.com/go-json-experiment/json/jsontext"

	"verif/ref"
	"verif/run"
)

// ---------------------------------------------------------------------------------
// abstract values and their re-spellings (generator side)

type numBase struct {
	neg bool
	d   string // decimal digits, no leading zeros ("0" for zero)
	e   int    // value = d × 10^e
}

type aval struct {
	kind  byte // 'n' 't' 'f' '0' '"' '[' '{'
	num   numBase
	s     string
	elems []*aval
	names []string // for objects, parallel to elems, unique
}

var numPool = []numBase{
	{false, "0", 0}, {false, "1", 0}, {false, "1", 2}, {true, "25", -1}, {false, "1", 21}, {false, "1", -7}, {false, "1", -6},
	{false, "123456789012345678901", 0}, {false, "9007199254740993", 0}, {false, "9007199254740992", 0}, {true, "9007199254740991", 0},
	{false, "1", 400}, {true, "1", 400}, {false, "17976931348623157", 292}, {false, "17976931348623159", 292}, {true, "17976931348623158", 292},
	{false, "5", -324}, {false, "25", -325}, {false, "24", -325}, {true, "2470328229206232720882843964341106861825299013071623822127928412503377536351043", -402},
	{false, "999999999999999999999", 0}, {false, "1", 22}, {false, "123456789012345", 0}, {false, "1234567890123456", 0},
	{true, "12345678901234567", 0}, {false, "99999999999999999", 0}, {true, "999999999999999", 0}, {false, "9999999999999999", 0},
	{false, "435", -2}, {false, "33333333333333329", -8}, {false, "1", 30}, {false, "45", -1}, {false, "2", -3}, {false, "1", -27},
	{false, "1", 23}, {false, "9999999999999997", 7}, {false, "10000000000000001", 7}, {false, "9999999999999997", -22},
	{false, "14249539237812062", -1}, {true, "33333333333333333", -22}, {false, "295147905179352830000", 0}, {false, "18446744073709551616", 0},
	{false, "9223372036854775807", 0}, {true, "9223372036854775808", 0}, {false, "4", -1}, {false, "1", -1}, {false, "3", 0}, {false, "7", 1},
}

func genNum(r *rand.Rand) numBase {
	if r.IntN(3) > 0 {
		return numPool[r.IntN(len(numPool))]
	}
	n := 1 + r.IntN(22)
	if r.IntN(3) == 0 {
		n = 14 + r.IntN(6) // around the 16-digit integer shortcut
	}
	d := make([]byte, n)
	for i := range d {
		d[i] = byte('0' + r.IntN(10))
	}
	if d[0] == '0' {
		d[0] = '1' + byte(r.IntN(9))
	}
	e := 0
	switch r.IntN(4) {
	case 0:
		e = r.IntN(61) - 30
	case 1:
		e = r.IntN(660) - 345
	}
	return numBase{r.IntN(3) == 0, string(d), e}
}

func zeros(n int) string { return strings.Repeat("0", n) }

// spellNum writes one JSON literal whose exact rational value is nb.
func spellNum(r *rand.Rand, nb numBase) string {
	sign := ""
	if nb.neg {
		sign = "-"
	}
	if nb.d == "0" {
		if r.IntN(2) == 0 {
			sign = [...]string{"", "-"}[r.IntN(2)]
		}
		return sign + [...]string{"0", "0", "0.0", "0e5", "0.000E-3", "0E+400", "0e-0", "0.00e0"}[r.IntN(8)]
	}
	d, e := nb.d, nb.e
	if z := r.IntN(6) - 2; z > 0 {
		d += zeros(z)
		e -= z
	}
	// pick the printed exponent x; the mantissa is d × 10^(e-x)
	var x int
	noExp := false
	switch k := r.IntN(6); {
	case k < 2 && e <= 40 && e >= -40:
		x, noExp = 0, true
	case k < 4:
		x = e + r.IntN(7) - 3
	case k == 4:
		x = e + len(d) - 1 // scientific
	default:
		x = e + r.IntN(2*len(d)+8) - len(d) - 4
	}
	s := e - x
	var mant string
	switch {
	case s >= 0:
		mant = d + zeros(s)
		if r.IntN(4) == 0 {
			mant += "." + zeros(1+r.IntN(3))
		}
	case -s < len(d):
		mant = d[:len(d)+s] + "." + d[len(d)+s:]
	default:
		mant = "0." + zeros(-s-len(d)) + d
	}
	if noExp {
		if r.IntN(5) == 0 {
			return sign + mant + [...]string{"e0", "E+0", "e-0", "E00"}[r.IntN(4)]
		}
		return sign + mant
	}
	es := [...]string{"e", "E"}[r.IntN(2)]
	ax := x
	switch {
	case x < 0:
		es += "-"
		ax = -x
	case r.IntN(2) == 0:
		es += "+"
	}
	if r.IntN(8) == 0 {
		es += zeros(1 + r.IntN(2))
	}
	return sign + mant + es + strconv.Itoa(ax)
}

func hex4(r *rand.Rand, u uint16) string {
	const lo, up = "0123456789abcdef", "0123456789ABCDEF"
	b := []byte{'\\', 'u', 0, 0, 0, 0}
	for i := 0; i < 4; i++ {
		nib := (u >> (12 - 4*i)) & 15
		if r.IntN(2) == 0 {
			b[2+i] = lo[nib]
		} else {
			b[2+i] = up[nib]
		}
	}
	return string(b)
}

// spellString writes one JSON string literal whose meaning is s (valid UTF-8).
func spellString(r *rand.Rand, s string) string {
	out := []byte{'"'}
	mode := r.IntN(4) // 0: minimal-ish, 1-2: mixed, 3: everything escaped
	for _, c := range s {
		esc := mode == 3 || (mode != 0 && r.IntN(3) == 0)
		switch {
		case c >= 0x10000:
			if esc {
				r1, r2 := utf16.EncodeRune(c)
				out = append(out, hex4(r, uint16(r1))...)
				out = append(out, hex4(r, uint16(r2))...)
			} else {
				out = utf8.AppendRune(out, c)
			}
		case c == '"' || c == '\\':
			if esc && r.IntN(2) == 0 {
				out = append(out, hex4(r, uint16(c))...)
			} else {
				out = append(out, '\\', byte(c))
			}
		case c < 0x20:
			short := map[rune]string{'\b': `\b`, '\f': `\f`, '\n': `\n`, '\r': `\r`, '\t': `\t`}[c]
			if short != "" && r.IntN(2) == 0 {
				out = append(out, short...)
			} else {
				out = append(out, hex4(r, uint16(c))...)
			}
		case c == '/' && r.IntN(2) == 0:
			out = append(out, `\/`...)
		case esc:
			out = append(out, hex4(r, uint16(c))...)
		default:
			out = utf8.AppendRune(out, c)
		}
	}
	return string(append(out, '"'))
}

var (
	runesASCII = []rune{'a', 'b', 'c', 'A', 'Z', '0', '9', '_', '~', 0x7f, ' ', '<', '&'}
	runesEsc   = []rune{'"', '\\', '/', '\n', '\t', 0, 0x1f, '\b'}
	runesLow   = []rune{0x80, 0xe9, 0xf6, 0x7ff, 0x800, 0x20ac, 0x2028, 0x2029, 0xd7ff, 0x4e2d}
	runesHigh  = []rune{0xe000, 0xe001, 0xf900, 0xfb01, 0xfb33, 0xfffd, 0xfffe, 0xffff}
	runesSupp  = []rune{0x10000, 0x10001, 0x1d11e, 0x1f600, 0x1f601, 0xfffff, 0x100000, 0x10ffff}
)

func genRune(r *rand.Rand, astral int) rune {
	// astral: percentage of draws from the two classes whose UTF-8 and UTF-16 order differ
	if r.IntN(100) < astral {
		if r.IntN(2) == 0 {
			return runesHigh[r.IntN(len(runesHigh))]
		}
		return runesSupp[r.IntN(len(runesSupp))]
	}
	switch r.IntN(8) {
	case 0:
		return runesEsc[r.IntN(len(runesEsc))]
	case 1, 2:
		return runesLow[r.IntN(len(runesLow))]
	case 3:
		return rune(0xa0 + r.IntN(0xd7ff-0xa0))
	default:
		return runesASCII[r.IntN(len(runesASCII))]
	}
}

func genStr(r *rand.Rand, astral, maxLen int) string {
	var rs []rune
	for i := r.IntN(maxLen + 1); i > 0; i-- {
		rs = append(rs, genRune(r, astral))
	}
	return string(rs)
}

type genCfg struct {
	maxDepth, maxWidth int
	astral             int
	wide               int // if > 0: the top-level object gets this many members
}

func genVal(r *rand.Rand, c *genCfg, depth int) *aval {
	k := r.IntN(12)
	if depth == 0 && k < 6 && r.IntN(4) > 0 {
		k = 6 + r.IntN(6) // mostly containers at top level
	}
	if depth >= c.maxDepth && k >= 6 {
		k = r.IntN(6)
	}
	if depth == 0 && c.wide > 0 {
		k = 11
	}
	switch {
	case k == 0:
		return &aval{kind: [...]byte{'n', 't', 'f'}[r.IntN(3)]}
	case k < 4:
		return &aval{kind: '0', num: genNum(r)}
	case k < 6:
		return &aval{kind: '"', s: genStr(r, c.astral, 5)}
	case k < 8:
		v := &aval{kind: '['}
		for i := r.IntN(c.maxWidth + 1); i > 0; i-- {
			v.elems = append(v.elems, genVal(r, c, depth+1))
		}
		return v
	default:
		v := &aval{kind: '{'}
		n := r.IntN(c.maxWidth + 1)
		if depth == 0 && c.wide > 0 {
			n = c.wide
		}
		// names of one object share a prefix so that the comparison is decided late,
		// at a position where an ASCII / BMP / supplementary rune meets another class
		prefix := genStr(r, c.astral/2, 2)
		seen := map[string]bool{}
		for tries := 0; len(v.names) < n && tries < 8*n+8; tries++ {
			name := prefix + genStr(r, c.astral, 3)
			if r.IntN(6) == 0 {
				name = genStr(r, c.astral, 2)
			}
			if n > 30 {
				name += strconv.Itoa(r.IntN(n))
			}
			if seen[name] {
				continue
			}
			seen[name] = true
			v.names = append(v.names, name)
			child := depth + 1
			if n > 30 && r.IntN(8) > 0 {
				child = c.maxDepth // keep wide objects cheap: mostly scalars
			}
			v.elems = append(v.elems, genVal(r, c, child))
		}
		return v
	}
}

var wsPool = [...]string{"", "", "", " ", "\n", "\t", "\r\n ", "  "}

func spell(r *rand.Rand, v *aval, sb *strings.Builder, wsOn bool) {
	ws := func() {
		if wsOn {
			sb.WriteString(wsPool[r.IntN(len(wsPool))])
		}
	}
	switch v.kind {
	case 'n':
		sb.WriteString("null")
	case 't':
		sb.WriteString("true")
	case 'f':
		sb.WriteString("false")
	case '0':
		sb.WriteString(spellNum(r, v.num))
	case '"':
		sb.WriteString(spellString(r, v.s))
	case '[':
		sb.WriteByte('[')
		ws()
		for i, e := range v.elems {
			if i > 0 {
				ws()
				sb.WriteByte(',')
				ws()
			}
			spell(r, e, sb, wsOn)
		}
		ws()
		sb.WriteByte(']')
	case '{':
		idx := make([]int, len(v.names))
		for i := range idx {
			idx[i] = i
		}
		sort.SliceStable(idx, func(a, b int) bool { return ref.U16Less(v.names[idx[a]], v.names[idx[b]]) })
		switch m := r.IntN(8); {
		case m == 0: // already canonical order
		case m == 1 && len(idx) > 1: // only the smallest member displaced
			j := 1 + r.IntN(len(idx)-1)
			first := idx[0]
			copy(idx, idx[1:j+1])
			idx[j] = first
		case m == 2 && len(idx) > 2: // smallest stays first, the rest shuffled
			r.Shuffle(len(idx)-1, func(a, b int) { idx[a+1], idx[b+1] = idx[b+1], idx[a+1] })
		case m == 3: // reversed
			for a, b := 0, len(idx)-1; a < b; a, b = a+1, b-1 {
				idx[a], idx[b] = idx[b], idx[a]
			}
		default:
			r.Shuffle(len(idx), func(a, b int) { idx[a], idx[b] = idx[b], idx[a] })
		}
		sb.WriteByte('{')
		ws()
		for k, i := range idx {
			if k > 0 {
				ws()
				sb.WriteByte(',')
				ws()
			}
			sb.WriteString(spellString(r, v.names[i]))
			ws()
			sb.WriteByte(':')
			ws()
			spell(r, v.elems[i], sb, wsOn)
		}
		ws()
		sb.WriteByte('}')
	}
}

func spellText(r *rand.Rand, v *aval) []byte {
	var sb strings.Builder
	wsOn := r.IntN(4) > 0
	if wsOn {
		sb.WriteString(wsPool[r.IntN(len(wsPool))])
	}
	spell(r, v, &sb, wsOn)
	if wsOn {
		sb.WriteString(wsPool[r.IntN(len(wsPool))])
	}
	return []byte(sb.String())
}

// ---------------------------------------------------------------------------------
// oracle side

// equivalent decides, on reference trees only, whether two texts differ at most in
// whitespace, member order, escape spelling and number spelling (exact rational).
// It validates the generator: a non-equivalent pair is a harness bug, not a violation.
func equivalent(a, b *ref.Node) bool {
	if a.Kind != b.Kind {
		return false
	}
	switch a.Kind {
	case ref.Bool:
		return a.B == b.B
	case ref.Number:
		ra, rb := ref.Rat(a.Raw), ref.Rat(b.Raw)
		return ra != nil && rb != nil && ra.Cmp(rb) == 0
	case ref.String:
		return a.S == b.S
	case ref.Array:
		if len(a.Elems) != len(b.Elems) {
			return false
		}
		for i := range a.Elems {
			if !equivalent(a.Elems[i], b.Elems[i]) {
				return false
			}
		}
	case ref.Object:
		if len(a.Members) != len(b.Members) {
			return false
		}
		m := make(map[string]*ref.Node, len(a.Members))
		for _, x := range a.Members {
			m[x.Name] = x.Value
		}
		for _, y := range b.Members {
			x, ok := m[y.Name]
			if !ok || !equivalent(x, y.Value) {
				return false
			}
		}
	}
	return true
}

// diffClass names the first structural difference between the expected canonical text
// and the produced one (for the violation signature).
func diffClass(want, got []byte) string {
	gt := ref.Parse(got, ref.Opts{AllowInvalidUTF8: true, AllowDup: true})
	if gt == nil {
		return "output-not-json"
	}
	wt := ref.Parse(want, ref.Opts{})
	if wt == nil {
		return "oracle"
	}
	var walk func(w, g *ref.Node) string
	walk = func(w, g *ref.Node) string {
		if w.Kind != g.Kind {
			return "structure"
		}
		switch w.Kind {
		case ref.Bool:
			if w.B != g.B {
				return "literal"
			}
		case ref.Number:
			if w.Raw != g.Raw {
				if w.Raw == "0" && g.Raw == "-0" {
					return "negative-zero"
				}
				if !strings.ContainsAny(g.Raw, ".eE") {
					return "number-integer-spelling"
				}
				return "number-float-spelling"
			}
		case ref.String:
			if w.S != g.S {
				return "string-meaning"
			}
			if w.Raw != g.Raw {
				return "string-spelling"
			}
		case ref.Array:
			if len(w.Elems) != len(g.Elems) {
				return "structure"
			}
			for i := range w.Elems {
				if c := walk(w.Elems[i], g.Elems[i]); c != "" {
					return c
				}
			}
		case ref.Object:
			if len(w.Members) != len(g.Members) {
				return "members-lost-or-duplicated"
			}
			cnt := map[string]int{}
			for _, m := range w.Members {
				cnt[m.Name]++
			}
			for _, m := range g.Members {
				cnt[m.Name]--
			}
			for _, c := range cnt {
				if c != 0 {
					return "members-lost-or-duplicated"
				}
			}
			for i := range w.Members {
				if w.Members[i].Name != g.Members[i].Name {
					return "member-order"
				}
			}
			for i := range w.Members {
				if w.Members[i].RawName != g.Members[i].RawName {
					return "string-spelling"
				}
				if c := walk(w.Members[i].Value, g.Members[i].Value); c != "" {
					return c
				}
			}
		}
		return ""
	}
	if c := walk(wt, gt); c != "" {
		return c
	}
	return "whitespace-or-bytes"
}

type stats struct {
	objects, unsorted, firstMoved, firstKept, orderDiffers, wide int64
	numbers, numNonCanon, strNonCanon, strings, nestedInArr      int64
	maxMembers                                                   int
}

func runeClass(c rune) byte {
	switch {
	case c < 0x80:
		return 'a'
	case c < 0xd800:
		return 'l'
	case c < 0x10000:
		return 'h'
	}
	return 's'
}

// observe collects the evidence counters from the reference tree of one input text and
// feeds the structural skeleton into the shape hash.
func observe(n *ref.Node, st *stats, inArr bool, h *fnvw) {
	switch n.Kind {
	case ref.Number:
		st.numbers++
		h.b('0')
	case ref.String:
		st.strings++
		h.b('"')
	case ref.Array:
		h.b('[')
		for _, e := range n.Elems {
			observe(e, st, true, h)
		}
		h.b(']')
	case ref.Object:
		st.objects++
		if inArr {
			st.nestedInArr++
		}
		if len(n.Members) > st.maxMembers {
			st.maxMembers = len(n.Members)
		}
		if len(n.Members) >= 65 {
			st.wide++
		}
		if len(n.Members) >= 2 {
			names := make([]string, len(n.Members))
			minIdx, sorted := 0, true
			for i, m := range n.Members {
				names[i] = m.Name
				if ref.U16Less(m.Name, names[minIdx]) {
					minIdx = i
				}
				if i > 0 && ref.U16Less(m.Name, names[i-1]) {
					sorted = false
				}
			}
			if !sorted {
				st.unsorted++
				if minIdx != 0 {
					st.firstMoved++
				} else {
					st.firstKept++
				}
			}
			by8 := append([]string(nil), names...)
			sort.Strings(by8)
			by16 := append([]string(nil), names...)
			sort.SliceStable(by16, func(i, j int) bool { return ref.U16Less(by16[i], by16[j]) })
			for i := range by8 {
				if by8[i] != by16[i] {
					st.orderDiffers++
					break
				}
			}
		}
		h.b('{')
		// the shape is order-insensitive in the input: use canonical member order
		idx := make([]int, len(n.Members))
		for i := range idx {
			idx[i] = i
		}
		sort.SliceStable(idx, func(a, b int) bool { return ref.U16Less(n.Members[idx[a]].Name, n.Members[idx[b]].Name) })
		for _, i := range idx {
			for _, c := range n.Members[i].Name {
				h.b(runeClass(c))
			}
			h.b(':')
			observe(n.Members[i].Value, st, false, h)
		}
		h.b('}')
	default:
		h.b('n')
	}
}

type fnvw struct{ h uint64 }

func (f *fnvw) b(c byte) { f.h = (f.h ^ uint64(c)) * 1099511628211 }

type classArgs struct {
	Texts [][]byte `json:"texts"` // spellings of one value
	Note  string   `json:"note,omitempty"`
}

func canonOpts() []jsontext.Options {
	return []jsontext.Options{jsontext.CanonicalizeRawInts(true), jsontext.CanonicalizeRawFloats(true), jsontext.ReorderRawObjects(true)}
}

func checkClass(w *run.W, a *classArgs) {
	var trees []*ref.Node
	var outs [][]byte
	var st stats
	for ti, text := range a.Texts {
		tree := ref.Parse(text, ref.Opts{})
		if tree == nil {
			w.Broken("generator produced a text that is not valid I-JSON: %q", text)
			return
		}
		if ti > 0 && !equivalent(trees[0], tree) {
			w.Broken("generator produced non-equivalent spellings: %q vs %q", a.Texts[0], text)
			return
		}
		trees = append(trees, tree)
		want := ref.Canonicalize(tree)
		w.Eval(1)

		h := &fnvw{14695981039346656037}
		observe(tree, &st, false, h)
		if ti == 0 {
			w.ShapeHash(h.h)
		}

		in := jsontext.Value(bytes.Clone(text))
		err := in.Canonicalize()
		if err != nil {
			w.Violate("rejects-valid-ijson", map[string]string{"api": "Canonicalize"}, "Canonicalize(%q) = %v on a valid I-JSON text", text, err)
			continue
		}
		if !bytes.Equal(in, want) {
			w.Violate("rfc8785-bytes", map[string]string{"api": "Canonicalize", "diff": diffClass(want, in)},
				"Canonicalize(%q)\n got  %q\n want %q", text, []byte(in), want)
		}
		outs = append(outs, []byte(in))

		// the documented equivalent route: Format / AppendFormat with the three options
		if ti == 0 {
			v2 := jsontext.Value(bytes.Clone(text))
			if err := v2.Format(canonOpts()...); err != nil || !bytes.Equal(v2, want) {
				w.Violate("rfc8785-bytes", map[string]string{"api": "Format+3opts", "diff": diffClass(want, v2)},
					"Format(%q, CanonicalizeRawInts, CanonicalizeRawFloats, ReorderRawObjects) err=%v\n got  %q\n want %q", text, err, []byte(v2), want)
			}
			v3, err := jsontext.AppendFormat([]byte("x"), bytes.Clone(text), canonOpts()...)
			if err != nil || !bytes.Equal(v3[1:], want) || v3[0] != 'x' {
				w.Violate("rfc8785-bytes", map[string]string{"api": "AppendFormat+3opts", "diff": diffClass(want, v3[min(1, len(v3)):])},
					"AppendFormat(%q, 3 opts) err=%v\n got  %q\n want x+%q", text, err, v3, want)
			}
			w.Count("route_format3", 2)
		}

		// canonical output is itself a member of the class: it must be a fixed point
		if ti == 0 {
			again := jsontext.Value(bytes.Clone(in))
			if err := again.Canonicalize(); err != nil || !bytes.Equal(again, in) {
				w.Violate("class-invariance", map[string]string{"pair": "text-vs-own-canonical-form"},
					"Canonicalize is not idempotent: %q -> %q -> %q (err=%v)", text, []byte(in), []byte(again), err)
			}
			w.Count("pairs_checked", 1)
		}
	}
	for i := 1; i < len(outs); i++ {
		w.Count("pairs_checked", 1)
		if !bytes.Equal(outs[0], outs[i]) {
			w.Violate("class-invariance", map[string]string{"pair": "re-spellings", "diff": diffClass(outs[0], outs[i])},
				"equivalent texts canonicalize differently:\n %q -> %q\n %q -> %q", a.Texts[0], outs[0], a.Texts[i], outs[i])
		}
	}
	w.Count("objects", st.objects)
	w.Count("objects_unsorted_in_input", st.unsorted)
	w.Count("objects_first_member_moved", st.firstMoved)
	w.Count("objects_first_member_kept_rest_reordered", st.firstKept)
	w.Count("objects_utf8_order_differs_from_utf16_order", st.orderDiffers)
	w.Count("objects_ge65_members", st.wide)
	w.Count("objects_nested_in_arrays", st.nestedInArr)
	w.Count("numbers", st.numbers)
	w.Count("strings", st.strings)
	if st.orderDiffers > 0 {
		w.Count("texts_with_order_difference", 1)
	}
	// how many number/string literals were not already canonical in the input
	for ti, text := range a.Texts {
		if ti < len(outs) && !bytes.Equal(text, outs[ti]) {
			w.Count("texts_changed_by_canonicalize", 1)
		}
	}
	if w.WantSample() && st.orderDiffers > 0 && st.firstMoved > 0 && len(a.Texts[0]) < 300 {
		w.Sample(map[string]any{"exec": "class", "texts": strs(a.Texts), "canonical": string(outs[0])})
	}
}

func strs(bs [][]byte) []string {
	out := make([]string, len(bs))
	for i, b := range bs {
		out[i] = string(b)
	}
	return out
}

// ---------------------------------------------------------------------------------

var M = &run.Monitor{
	ID:    "C13",
	Level: "exploration",
	Rule: "abstract JSON values (depth <= 4, 0-200 members, names sharing prefixes and drawn from ASCII / U+0080-D7FF / U+E000-FFFF / supplementary planes, " +
		"numbers from a boundary pool and random digit strings x decimal exponents) are each written as 3-4 texts that differ only in whitespace, member order " +
		"(random / canonical / only-first-displaced / first-kept / reversed), \\uXXXX re-escaping (surrogate pairs, mixed hex case) and exact-rational number re-spelling; " +
		"every text is canonicalized by Value.Canonicalize (first text also by Format/AppendFormat with the three options) and compared byte-for-byte with the independent " +
		"RFC 8785 serializer of /verif/ref, then all outputs of a class are compared with each other and with the canonical form of the canonical form. " +
		"distinct = structural skeleton (kinds, canonical member order, per-name rune classes a/l/h/s) of the value",
	Assumptions: []string{
		"ref.Canonicalize (sort by utf16.Encode units, minimal quoting, big.Rat-rounded float64 laid out per ECMA-262 with strconv shortest digits) is RFC 8785; self-tested on the RFC's own examples (3.2.2, 3.2.3, Appendix B)",
		"equivalence of the generated spellings is re-established on reference trees (big.Rat equality of numbers) before any comparison",
	},
	Floors: func(c map[string]int64, tier string) []string {
		var u []string
		need := func(k string, n int64) {
			if c[k] < n {
				u = append(u, fmt.Sprintf("%s=%d < %d", k, c[k], n))
			}
		}
		need("pairs_checked", 20000)
		need("objects_utf8_order_differs_from_utf16_order", 1000)
		need("texts_with_order_difference", 1000)
		need("objects_first_member_moved", 5000)
		need("objects_first_member_kept_rest_reordered", 1000)
		need("objects_nested_in_arrays", 2000)
		need("objects_ge65_members", 20)
		need("numbers", 20000)
		need("texts_changed_by_canonicalize", 10000)
		return u
	},
	SelfTest: selfTest,
}

func selfTest() error {
	// RFC 8785 §3.2.3 (sorting) and §3.2.2/§3.2.4 (serialization) examples
	sortIn := `{
  "€": "Euro Sign",
  "\r": "Carriage Return",
  "דּ": "Hebrew Letter Dalet With Dagesh",
  "1": "One",
  "😀": "Emoji: Grinning Face",
  "\u0080": "Control",
  "ö": "Latin Small Letter O With Diaeresis"
}`
	wantOrder := []string{"Carriage Return", "One", "Control", "Latin Small Letter O With Diaeresis", "Euro Sign", "Emoji: Grinning Face", "Hebrew Letter Dalet With Dagesh"}
	t := ref.Parse([]byte(sortIn), ref.Opts{})
	if t == nil {
		return fmt.Errorf("reference rejects the RFC 8785 sorting example")
	}
	ct := ref.Parse(ref.Canonicalize(t), ref.Opts{})
	if ct == nil || len(ct.Members) != len(wantOrder) {
		return fmt.Errorf("reference canonical form of the RFC 8785 sorting example is broken")
	}
	for i, m := range ct.Members {
		if m.Value.S != wantOrder[i] {
			return fmt.Errorf("reference sorts RFC 8785 §3.2.3 example wrongly at %d: %q", i, m.Value.S)
		}
	}
	serIn := `{
  "numbers": [333333333.33333329, 1E30, 4.50, 2e-3, 0.000000000000000000000000001],
  "string": "\u20ac$\u000F\u000aA'\u0042\u0022\u005c\\\"\/",
  "literals": [null, true, false]
}`
	serWant := `{"literals":[null,true,false],"numbers":[333333333.3333333,1e+30,4.5,0.002,1e-27],"string":"€$\u000f\nA'B\"\\\\\"/"}`
	t = ref.Parse([]byte(serIn), ref.Opts{})
	if t == nil || string(ref.Canonicalize(t)) != serWant {
		return fmt.Errorf("reference canonical form of the RFC 8785 §3.2.2 example: %q", ref.Canonicalize(t))
	}
	// RFC 8785 Appendix B: IEEE-754 bit patterns and their ES6 serialization
	for _, c := range [][2]string{
		{"0000000000000000", "0"}, {"8000000000000000", "0"}, {"0000000000000001", "5e-324"}, {"8000000000000001", "-5e-324"},
		{"7fefffffffffffff", "1.7976931348623157e+308"}, {"ffefffffffffffff", "-1.7976931348623157e+308"},
		{"4340000000000000", "9007199254740992"}, {"c340000000000000", "-9007199254740992"}, {"4430000000000000", "295147905179352830000"},
		{"44b52d02c7e14af5", "9.999999999999997e+22"}, {"44b52d02c7e14af6", "1e+23"}, {"44b52d02c7e14af7", "1.0000000000000001e+23"},
		{"444b1ae4d6e2ef4e", "999999999999999700000"}, {"444b1ae4d6e2ef4f", "999999999999999900000"}, {"444b1ae4d6e2ef50", "1e+21"},
		{"3eb0c6f7a0b5ed8c", "9.999999999999997e-7"}, {"3eb0c6f7a0b5ed8d", "0.000001"},
		{"41b3de4355555553", "333333333.3333332"}, {"41b3de4355555554", "333333333.33333325"}, {"41b3de4355555555", "333333333.3333333"},
		{"41b3de4355555556", "333333333.3333334"}, {"41b3de4355555557", "333333333.33333343"},
		{"becbf647612f3696", "-0.0000033333333333333333"}, {"43143ff3c1cb0959", "1424953923781206.2"},
	} {
		bits, err := strconv.ParseUint(c[0], 16, 64)
		if err != nil {
			return err
		}
		if got := ref.ES6(math.Float64frombits(bits)); got != c[1] {
			return fmt.Errorf("ref.ES6(%s) = %s, RFC 8785 Appendix B says %s", c[0], got, c[1])
		}
	}
	// number rounding against strconv, the speller against big.Rat, string meaning against encoding/json
	r := run.SelfRand(13)
	for i := 0; i < 30000; i++ {
		nb := genNum(r)
		a, b := spellNum(r, nb), spellNum(r, nb)
		ra, rb := ref.Rat(a), ref.Rat(b)
		if ra == nil || rb == nil || ra.Cmp(rb) != 0 {
			return fmt.Errorf("number speller is not value preserving: %s vs %s", a, b)
		}
		exact := new(big.Rat)
		if _, ok := exact.SetString(nb.d + "e" + strconv.Itoa(nb.e)); !ok || exact.Cmp(new(big.Rat).Abs(ra)) != 0 {
			return fmt.Errorf("number speller: %s is not %se%d", a, nb.d, nb.e)
		}
		if !stdjson.Valid([]byte(a)) {
			return fmt.Errorf("number speller produced an invalid literal %s", a)
		}
		f, over := ref.Float(a, 64)
		sf, serr := strconv.ParseFloat(a, 64)
		if over != (serr != nil) || (!over && f != sf) {
			return fmt.Errorf("ref.Float(%s) = %v,%v; strconv says %v,%v", a, f, over, sf, serr)
		}
		s := genStr(r, 40, 6)
		lit := spellString(r, s)
		var back string
		if err := stdjson.Unmarshal([]byte(lit), &back); err != nil || back != s {
			return fmt.Errorf("string speller: %s does not mean %q per encoding/json (%q, %v)", lit, s, back, err)
		}
		if m, ok := ref.Unquote([]byte(lit), false); !ok || m != s {
			return fmt.Errorf("ref.Unquote(%s) = %q,%v want %q", lit, m, ok, s)
		}
		// UTF-16 order against the big-endian UTF-16 byte strings
		s2 := genStr(r, 60, 4)
		if ref.U16Less(s, s2) != (bytes.Compare(u16be(s), u16be(s2)) < 0) {
			return fmt.Errorf("ref.U16Less(%q,%q) disagrees with UTF-16BE byte order", s, s2)
		}
	}
	return nil
}

func u16be(s string) []byte {
	var out []byte
	for _, u := range utf16.Encode([]rune(s)) {
		out = append(out, byte(u>>8), byte(u))
	}
	return out
}

func main() {
	run.Def(M, "class", checkClass)
	M.Gen = generate
	run.Main(M)
}

func generate(w *run.W) {
	// (a) general classes
	nb := w.Pick(3000, 16000)
	for batch := 0; batch < nb; batch++ {
		if !w.Mine(batch) {
			continue
		}
		r := w.Rand("class", batch)
		for k := 0; k < 100; k++ {
			cfg := &genCfg{maxDepth: 1 + r.IntN(4), maxWidth: 1 + r.IntN(7), astral: [...]int{0, 15, 40, 70}[r.IntN(4)]}
			emit(w, r, cfg, "")
		}
	}
	// (b) wide objects: 9..200 members at top level (sort, scratch buffer, first-member fix-up at scale)
	nw := w.Pick(3000, 30000)
	for i := 0; i < nw; i++ {
		if !w.Mine(i) {
			continue
		}
		r := w.Rand("wide", i)
		wide := 9 + r.IntN(40)
		if i%4 == 0 {
			wide = 50 + r.IntN(151)
		}
		cfg := &genCfg{maxDepth: 2, maxWidth: 3, astral: [...]int{10, 40, 70}[r.IntN(3)], wide: wide}
		emit(w, r, cfg, "wide")
	}
	// (c) single numbers and two-member objects over the whole pool (dense coverage of the number rules)
	if w.Mine(3) {
		r := w.Rand("numpool")
		for _, nb := range numPool {
			for rep := 0; rep < 4; rep++ {
				v := &aval{kind: '[', elems: []*aval{{kind: '0', num: nb}, {kind: '{', names: []string{"\U00010000", ""}, elems: []*aval{{kind: '0', num: nb}, {kind: 'n'}}}}}
				texts := [][]byte{spellText(r, v), spellText(r, v), spellText(r, v)}
				w.Do("class", &classArgs{Texts: texts, Note: "numpool"})
			}
		}
	}
}

func emit(w *run.W, r *rand.Rand, cfg *genCfg, note string) {
	v := genVal(r, cfg, 0)
	n := 3
	if r.IntN(4) == 0 {
		n = 4
	}
	texts := make([][]byte, n)
	for i := range texts {
		texts[i] = spellText(r, v)
	}
	w.Do("class", &classArgs{Texts: texts, Note: note})
}

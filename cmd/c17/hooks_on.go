//go:build verif

package main

import (
	"runtime"

	json "github.com/go-json-experiment/json"

	"verif/run"
)

// installYield widens first-use races: the library yields the processor at cache misses
// and lazy initialisers (hook H5).
func installYield() {
	f := func(p int) { runtime.Gosched() }
	json.VerifYield.Store(&f)
}

func countHooks(w *run.W) {
	w.Count("hook_arshaler_cache_misses", json.VerifPointCount[json.VerifLookupArshalerMiss].Load())
	w.Count("hook_func_chain_builds", json.VerifPointCount[json.VerifFuncsLookupMiss].Load())
}

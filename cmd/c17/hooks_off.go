//go:build !verif

package main

import "verif/run"

func installYield() {}

func countHooks(w *run.W) {}

// "User code" of the C17 monitor: every method of the generated types and every caller-supplied
// function forwards to one of the interpreters below, which looks up the behaviour of the callee
// in the behaviour script of the case, records the call in the trace and then acts it out.
//
// Marshal side: the script is carried in the value itself ("To=unsup-before,JSON=err#tag").
// Unmarshal side: the value does not exist before the call, so the script is the per-case
// variable uScript (set by the executor from the case arguments before calling the library).
//
// All scripts are *strict* user code: the first error returned by the coder is returned to the
// library at once.  Hence "the user code performed anything but exactly one value" and "the user
// code returned an error" are the only two ways a script can end, and both must yield an error.
package main

import (
	"errors"
	"fmt"
	"io"
	"strings"
	"sync"

	json "github.com/go-json-experiment/json"
	"github.com/go-json-experiment/json/jsontext"

	"verif/run"
)

var errUser = errors.New("c17 user error")
var errAttack = errors.New("c17 pop-below script met an unexpected token")

// per-case recording (mutex: the first-use cases call from 16 goroutines)
var st struct {
	mu     sync.Mutex
	trace  []string // marshal: "callee#tag", unmarshal: "callee"
	recv   []string // unmarshal: "callee:<bytes or text received>"
	notes  []string // reset-panicked / reset-allowed / opts-mismatch / nil-receiver
	probes int64
}

var uScript string // unmarshal-side behaviour script of the running case

// options the caller passed, as seen by GetOption probes inside the call
var wantOpts map[string]any
var skipOpts map[string]bool

func resetRecording() {
	st.mu.Lock()
	st.trace, st.recv, st.notes, st.probes = nil, nil, nil, 0
	st.mu.Unlock()
}

func rec(s string) {
	st.mu.Lock()
	st.trace = append(st.trace, s)
	st.mu.Unlock()
}

func recRecv(s string) {
	st.mu.Lock()
	st.recv = append(st.recv, s)
	st.mu.Unlock()
}

func note(s string) {
	st.mu.Lock()
	st.notes = append(st.notes, s)
	st.mu.Unlock()
}

func nilRecv(callee string) error {
	note("nil-receiver:" + callee)
	rec("NILRECV-" + callee)
	return errors.New("c17: method called on nil receiver")
}

// splitVal splits a marshal-side value into script and tag.
func splitVal(val string) (script, tag string) {
	if i := strings.LastIndexByte(val, '#'); i >= 0 {
		return val[:i], val[i+1:]
	}
	return val, ""
}

// behaviourOf looks up callee in "a=x,b=y"; def if absent.
func behaviourOf(script, callee, def string) string {
	for script != "" {
		var kv string
		if i := strings.IndexByte(script, ','); i >= 0 {
			kv, script = script[:i], script[i+1:]
		} else {
			kv, script = script, ""
		}
		if len(kv) > len(callee) && kv[len(callee)] == '=' && kv[:len(callee)] == callee {
			return kv[len(callee)+1:]
		}
	}
	return def
}

func reprName(callee string) string {
	switch callee {
	case "To":
		return "to"
	case "JSON":
		return "js"
	case "Append":
		return "ap"
	case "Text":
		return "tx"
	}
	return callee // f0, f1, f2
}

// ---------------------------------------------------------------------------------
// option probes

type optProbe struct {
	Name string
	Get  func(o json.Options) (any, bool)
}

func boolProbe(name string, f func(bool) json.Options) optProbe {
	return optProbe{name, func(o json.Options) (any, bool) { v, ok := json.GetOption(o, f); return v, ok }}
}
func strProbe(name string, f func(string) json.Options) optProbe {
	return optProbe{name, func(o json.Options) (any, bool) { v, ok := json.GetOption(o, f); return v, ok }}
}

var optProbes = []optProbe{
	boolProbe("Deterministic", json.Deterministic),
	boolProbe("FormatNilSliceAsNull", json.FormatNilSliceAsNull),
	boolProbe("FormatNilMapAsNull", json.FormatNilMapAsNull),
	boolProbe("OmitZeroStructFields", json.OmitZeroStructFields),
	boolProbe("StringifyNumbers", json.StringifyNumbers),
	boolProbe("RejectUnknownMembers", json.RejectUnknownMembers),
	boolProbe("MatchCaseInsensitiveNames", json.MatchCaseInsensitiveNames),
	boolProbe("AllowDuplicateNames", jsontext.AllowDuplicateNames),
	boolProbe("AllowInvalidUTF8", jsontext.AllowInvalidUTF8),
	boolProbe("EscapeForHTML", jsontext.EscapeForHTML),
	boolProbe("EscapeForJS", jsontext.EscapeForJS),
	boolProbe("PreserveRawStrings", jsontext.PreserveRawStrings),
	boolProbe("SpaceAfterComma", jsontext.SpaceAfterComma),
	boolProbe("SpaceAfterColon", jsontext.SpaceAfterColon),
	boolProbe("Multiline", jsontext.Multiline),
	strProbe("WithIndent", jsontext.WithIndent),
	strProbe("WithIndentPrefix", jsontext.WithIndentPrefix),
}

// probeOptions compares what the coder's Options() reports inside the call with the caller's settings.
func probeOptions(callee string, o json.Options) {
	for _, p := range optProbes {
		if skipOpts[p.Name] {
			continue
		}
		got, ok := p.Get(o)
		want, set := wantOpts[p.Name]
		st.mu.Lock()
		st.probes++
		st.mu.Unlock()
		if set {
			if !ok || got != want {
				note(fmt.Sprintf("opts-mismatch:%s:%s: inside the call GetOption=(%v,%v), the caller passed %v", p.Name, callee, got, ok, want))
			}
			continue
		}
		// not set by the caller: the default (zero) value must be visible
		switch g := got.(type) {
		case bool:
			if g {
				note(fmt.Sprintf("opts-mismatch:%s:%s: inside the call GetOption=(true,%v), the caller left it at the default false", p.Name, callee, ok))
			}
		case string:
			if g != "" {
				note(fmt.Sprintf("opts-mismatch:%s:%s: inside the call GetOption=(%q,%v), the caller left it unset", p.Name, callee, g, ok))
			}
		}
	}
}

// tryReset calls fn (a Reset call) and reports whether it panicked with a reset-refusal.
func tryReset(callee string, fn func()) {
	defer func() {
		r := recover()
		if r == nil {
			note("reset-allowed:" + callee)
			return
		}
		// class of the documented message, not its text: it must talk about resetting
		if s := strings.ToLower(fmt.Sprint(r)); strings.Contains(s, "reset") {
			note("reset-panicked:" + callee)
		} else {
			note("reset-other-panic:" + callee + ":" + fmt.Sprint(r))
		}
	}()
	fn()
}

// ---------------------------------------------------------------------------------
// marshal side

// innerTo is marshaled by the nested-reset behaviour: a type with its own MarshalJSONTo.
type innerTo struct{}

func (innerTo) MarshalJSONTo(e *jsontext.Encoder) error {
	return e.WriteToken(jsontext.String("inner"))
}

type innerFrom struct{}

func (*innerFrom) UnmarshalJSONFrom(d *jsontext.Decoder) error { return d.SkipValue() }

func writeAll(e *jsontext.Encoder, toks ...jsontext.Token) error {
	for _, t := range toks {
		if err := e.WriteToken(t); err != nil {
			return err
		}
	}
	return nil
}

// mTo interprets a coder-form marshal callee (MarshalJSONTo method, MarshalToFunc function).
func mTo(e *jsontext.Encoder, callee, val string) error {
	script, tag := splitVal(val)
	beh := behaviourOf(script, callee, "one-str")
	rec(callee + "#" + tag)
	repr := reprName(callee) + "#" + tag
	str := jsontext.String(repr)
	switch beh {
	case "one-str":
		return e.WriteToken(str)
	case "one-obj":
		return writeAll(e, jsontext.BeginObject, jsontext.String("k"), str, jsontext.EndObject)
	case "one-val":
		return e.WriteValue(jsontext.Value(`["` + repr + `",1]`))
	case "zero":
		return nil
	case "two":
		return writeAll(e, str, str)
	case "partial":
		return writeAll(e, jsontext.BeginObject, jsontext.String("k"))
	case "partial-arr":
		return writeAll(e, jsontext.BeginArray, str)
	case "popbelow":
		return encPopBelow(e, tag, str)
	case "unsup-before":
		return errors.ErrUnsupported
	case "unsup-after":
		if err := e.WriteToken(str); err != nil {
			return err
		}
		return errors.ErrUnsupported
	case "unsup-open-arr":
		// declines after having begun a container: the coder was used although the container length is still 0
		if err := e.WriteToken(jsontext.BeginArray); err != nil {
			return err
		}
		return errors.ErrUnsupported
	case "unsup-open-obj":
		if err := e.WriteToken(jsontext.BeginObject); err != nil {
			return err
		}
		return errors.ErrUnsupported
	case "err-before":
		return errUser
	case "err-mid":
		if err := writeAll(e, jsontext.BeginObject, jsontext.String("k")); err != nil {
			return err
		}
		return errUser
	case "err-after":
		if err := e.WriteToken(str); err != nil {
			return err
		}
		return errUser
	case "panic-before":
		panic(run.UserPanic{Tag: callee})
	case "panic-mid":
		if err := e.WriteToken(jsontext.BeginArray); err != nil {
			return err
		}
		panic(run.UserPanic{Tag: callee})
	case "reset":
		tryReset(callee, func() { e.Reset(io.Discard) })
		return e.WriteToken(str)
	case "nested-reset":
		// a nested marshal call of a type that has its own MarshalJSONTo, then Reset:
		// we are still inside the outer user call
		if err := writeAll(e, jsontext.BeginArray); err != nil {
			return err
		}
		if err := json.MarshalEncode(e, innerTo{}); err != nil {
			return err
		}
		tryReset(callee, func() { e.Reset(io.Discard) })
		return writeAll(e, str, jsontext.EndArray)
	case "opts":
		probeOptions(callee, e.Options())
		return e.WriteToken(str)
	}
	panic("c17: unknown coder-form marshal behaviour " + beh)
}

// encPopBelow: write the own value, close the PARENT container, open a sibling of the same
// kind and fill it up to the same length: ends at the same (depth, length+1).
func encPopBelow(e *jsontext.Encoder, tag string, own jsontext.Token) error {
	d := e.StackDepth()
	if d == 0 {
		if err := e.WriteToken(own); err != nil {
			return err
		}
		return e.WriteToken(jsontext.EndArray) // nothing to pop: always refused
	}
	kind, n := e.StackIndex(d)
	fill := func(k int64) error {
		for j := int64(0); j < k; j++ {
			if err := e.WriteToken(jsontext.String(fmt.Sprintf("p%d#%s", j, tag))); err != nil {
				return err
			}
		}
		return nil
	}
	switch kind {
	case '[':
		if err := writeAll(e, own, jsontext.EndArray, jsontext.BeginArray); err != nil {
			return err
		}
		return fill(n + 1)
	case '{':
		if n%2 == 1 { // we are a member value
			if err := writeAll(e, own, jsontext.EndObject, jsontext.BeginObject); err != nil {
				return err
			}
			return fill(n + 1)
		}
		// we are a member name: complete the member first
		if err := writeAll(e, own, jsontext.Null, jsontext.EndObject, jsontext.BeginObject); err != nil {
			return err
		}
		return fill(n + 1)
	}
	return errAttack
}

// mBytes interprets MarshalJSON and MarshalFunc callees.
func mBytes(callee, val string) ([]byte, error) {
	script, tag := splitVal(val)
	beh := behaviourOf(script, callee, "ok")
	rec(callee + "#" + tag)
	good := []byte(`"` + reprName(callee) + "#" + tag + `"`)
	switch beh {
	case "ok":
		return good, nil
	case "ok-obj":
		return []byte(`{"k":` + string(good) + `}`), nil
	case "unsup":
		return good, errors.ErrUnsupported
	case "err":
		return good, errUser
	case "bad-syntax":
		return []byte(`{"k":`), nil
	case "two":
		return append(good, " 1"...), nil
	case "empty":
		return nil, nil
	case "panic":
		panic(run.UserPanic{Tag: callee})
	}
	panic("c17: unknown bytes-form marshal behaviour " + beh)
}

func mText(callee, val string) ([]byte, error) {
	script, tag := splitVal(val)
	beh := behaviourOf(script, callee, "ok")
	rec(callee + "#" + tag)
	good := []byte(reprName(callee) + "#" + tag)
	switch beh {
	case "ok":
		return good, nil
	case "unsup":
		return good, errors.ErrUnsupported
	case "err":
		return good, errUser
	case "panic":
		panic(run.UserPanic{Tag: callee})
	}
	panic("c17: unknown text-form marshal behaviour " + beh)
}

func mAppend(b []byte, callee, val string) ([]byte, error) {
	t, err := mText(callee, val)
	return append(b, t...), err
}

// ---------------------------------------------------------------------------------
// unmarshal side

func setTo(set *string, callee string) {
	if set != nil {
		*set = "set:" + callee
	}
}

// readOneTokenwise consumes exactly one value with ReadToken.
func readOneTokenwise(d *jsontext.Decoder) error {
	depth := 0
	for {
		t, err := d.ReadToken()
		if err != nil {
			return err
		}
		switch t.Kind() {
		case '{', '[':
			depth++
		case '}', ']':
			depth--
		}
		if depth == 0 {
			return nil
		}
	}
}

// uFrom interprets a coder-form unmarshal callee (UnmarshalJSONFrom, UnmarshalFromFunc).
func uFrom(d *jsontext.Decoder, callee string, set *string) error {
	beh := behaviourOf(uScript, callee, "one-val")
	rec(callee)
	readVal := func() error {
		v, err := d.ReadValue()
		if err != nil {
			return err
		}
		recRecv(callee + ":" + string(v))
		return nil
	}
	switch beh {
	case "one-val":
		if err := readVal(); err != nil {
			return err
		}
		setTo(set, callee)
		return nil
	case "one-skip":
		if err := d.SkipValue(); err != nil {
			return err
		}
		setTo(set, callee)
		return nil
	case "one-tok":
		if err := readOneTokenwise(d); err != nil {
			return err
		}
		setTo(set, callee)
		return nil
	case "peek-one":
		d.PeekKind()
		if err := readVal(); err != nil {
			return err
		}
		setTo(set, callee)
		return nil
	case "zero":
		setTo(set, callee)
		return nil
	case "two":
		if err := readVal(); err != nil {
			return err
		}
		if err := d.SkipValue(); err != nil {
			return err
		}
		setTo(set, callee)
		return nil
	case "partial":
		// consume only the opening token of a composite value (a scalar input makes this "one")
		if _, err := d.ReadToken(); err != nil {
			return err
		}
		setTo(set, callee)
		return nil
	case "popbelow":
		if err := decPopBelow(d); err != nil {
			return err
		}
		setTo(set, callee)
		return nil
	case "unsup-before":
		return errors.ErrUnsupported
	case "unsup-after":
		if err := readVal(); err != nil {
			return err
		}
		return errors.ErrUnsupported
	case "unsup-open":
		// declines after having read only the first token (the opening one of a composite value)
		if _, err := d.ReadToken(); err != nil {
			return err
		}
		return errors.ErrUnsupported
	case "err-before":
		return errUser
	case "err-after":
		if err := readVal(); err != nil {
			return err
		}
		return errUser
	case "panic-before":
		panic(run.UserPanic{Tag: callee})
	case "panic-mid":
		if _, err := d.ReadToken(); err != nil {
			return err
		}
		panic(run.UserPanic{Tag: callee})
	case "reset":
		tryReset(callee, func() { d.Reset(strings.NewReader(`"x"`)) })
		if err := readVal(); err != nil {
			return err
		}
		setTo(set, callee)
		return nil
	case "nested-reset":
		// a nested unmarshal call into a type with its own UnmarshalJSONFrom consumes the one
		// value; then Reset: we are still inside the outer user call
		var in innerFrom
		if err := json.UnmarshalDecode(d, &in); err != nil {
			return err
		}
		tryReset(callee, func() { d.Reset(strings.NewReader(`"x"`)) })
		setTo(set, callee)
		return nil
	case "opts":
		probeOptions(callee, d.Options())
		if err := readVal(); err != nil {
			return err
		}
		setTo(set, callee)
		return nil
	}
	panic("c17: unknown coder-form unmarshal behaviour " + beh)
}

// decPopBelow: read the own value, the end of the PARENT container, the begin of the following
// sibling and as many tokens of it as had been consumed of the parent: same (depth, length+1).
func decPopBelow(d *jsontext.Decoder) error {
	depth := d.StackDepth()
	if depth == 0 {
		if err := d.SkipValue(); err != nil {
			return err
		}
		if _, err := d.ReadToken(); err != nil {
			return err
		}
		return errAttack
	}
	kind, n := d.StackIndex(depth)
	expect := func(k jsontext.Kind) error {
		t, err := d.ReadToken()
		if err != nil {
			return err
		}
		if t.Kind() != k {
			return errAttack
		}
		return nil
	}
	fill := func(k int64) error {
		for j := int64(0); j < k; j++ {
			if err := d.SkipValue(); err != nil {
				return err
			}
		}
		return nil
	}
	switch kind {
	case '[':
		if err := d.SkipValue(); err != nil {
			return err
		}
		if err := expect(']'); err != nil {
			return err
		}
		if err := expect('['); err != nil {
			return err
		}
		return fill(n + 1)
	case '{':
		if err := d.SkipValue(); err != nil {
			return err
		}
		if n%2 == 0 { // we were a member name: consume the member value too
			if err := d.SkipValue(); err != nil {
				return err
			}
		}
		if err := expect('}'); err != nil {
			return err
		}
		if err := expect('{'); err != nil {
			return err
		}
		return fill(n + 1)
	}
	return errAttack
}

// uBytes interprets UnmarshalJSON and UnmarshalFunc callees.
func uBytes(b []byte, callee string, set *string) error {
	beh := behaviourOf(uScript, callee, "ok")
	rec(callee)
	recRecv(callee + ":" + string(b))
	switch beh {
	case "ok":
		setTo(set, callee)
		return nil
	case "unsup":
		return errors.ErrUnsupported
	case "err":
		return errUser
	case "panic":
		panic(run.UserPanic{Tag: callee})
	}
	panic("c17: unknown bytes-form unmarshal behaviour " + beh)
}

func uText(b []byte, callee string, set *string) error {
	return uBytes(b, callee, set)
}

package main

import (
	"reflect"
	"strings"
	"sync"

	json "github.com/go-json-experiment/json"
	"github.com/go-json-experiment/json/jsontext"
)

// mGetter is implemented (pointer receiver) by every generated marshal-side type;
// it is the interface that interface-typed caller functions are declared on.
type mGetter interface{ c17Get() (string, bool) }

// uSetter is the unmarshal-side analogue.
type uSetter interface{ c17Set(string) bool }

// decoyT is a type no case ever marshals: functions declared on it are never applicable.
type decoyT int

type mType struct {
	Name string
	Pres [4]int // To, JSON, Append, Text: 0 absent, 1 value receiver, 2 pointer receiver
	RT   reflect.Type
	// function constructors by target+form: "vb" "vt" (T), "pb" "pt" (*T), "ib" "it" (mGetter), "nb" (decoy)
	mk map[string]func(id string) *json.Marshalers

	mu    sync.Mutex
	cache map[string]*json.Marshalers // by list descriptor: one *Marshalers per process and list
}

func (t *mType) value(s string) reflect.Value {
	v := reflect.New(t.RT).Elem()
	v.SetString(s)
	return v
}

func newMType[T ~string, PT interface {
	*T
	mGetter
}](name string, pres [4]int) *mType {
	t := &mType{Name: name, Pres: pres, RT: reflect.TypeFor[T](), cache: map[string]*json.Marshalers{}}
	t.mk = map[string]func(id string) *json.Marshalers{
		"vb": func(id string) *json.Marshalers {
			return json.MarshalFunc(func(v T) ([]byte, error) { return mBytes(id, string(v)) })
		},
		"vt": func(id string) *json.Marshalers {
			return json.MarshalToFunc(func(e *jsontext.Encoder, v T) error { return mTo(e, id, string(v)) })
		},
		"pb": func(id string) *json.Marshalers {
			return json.MarshalFunc(func(v *T) ([]byte, error) {
				if v == nil {
					return nil, nilRecv(id)
				}
				return mBytes(id, string(*v))
			})
		},
		"pt": func(id string) *json.Marshalers {
			return json.MarshalToFunc(func(e *jsontext.Encoder, v *T) error {
				if v == nil {
					return nilRecv(id)
				}
				return mTo(e, id, string(*v))
			})
		},
		"ib": func(id string) *json.Marshalers {
			return json.MarshalFunc(func(v mGetter) ([]byte, error) {
				s, ok := getOf(v)
				if !ok {
					return nil, nilRecv(id)
				}
				return mBytes(id, s)
			})
		},
		"it": func(id string) *json.Marshalers {
			return json.MarshalToFunc(func(e *jsontext.Encoder, v mGetter) error {
				s, ok := getOf(v)
				if !ok {
					return nilRecv(id)
				}
				return mTo(e, id, s)
			})
		},
		"nb": func(id string) *json.Marshalers {
			return json.MarshalFunc(func(v decoyT) ([]byte, error) { rec("DECOY-" + id); return []byte("0"), nil })
		},
		"nt": func(id string) *json.Marshalers {
			return json.MarshalToFunc(func(e *jsontext.Encoder, v *decoyT) error { rec("DECOY-" + id); return e.WriteToken(jsontext.Null) })
		},
	}
	return t
}

func getOf(v mGetter) (string, bool) {
	if v == nil {
		return "", false
	}
	return v.c17Get()
}

// marshalers returns the process-wide *Marshalers of a list descriptor such as "vb,pt,it".
// The same object is reused by every case of the type (its fncCache is part of the state
// whose history independence is monitored); variant "n" builds it by nested joins.
func (t *mType) marshalers(desc string) *json.Marshalers {
	if desc == "" {
		return nil
	}
	t.mu.Lock()
	defer t.mu.Unlock()
	if m, ok := t.cache[desc]; ok {
		return m
	}
	nested := strings.HasSuffix(desc, "/n")
	var list []*json.Marshalers
	for i, d := range strings.Split(strings.TrimSuffix(desc, "/n"), ",") {
		list = append(list, t.mk[d]("f"+string(rune('0'+i))))
	}
	var m *json.Marshalers
	if nested && len(list) >= 2 {
		m = json.JoinMarshalers(list[0], json.JoinMarshalers(list[1:]...), nil)
	} else {
		m = json.JoinMarshalers(list...)
	}
	t.cache[desc] = m
	return m
}

type uType struct {
	Name string
	Pres [3]int // From, JSON, Text
	RT   reflect.Type
	mk   map[string]func(id string) *json.Unmarshalers

	mu    sync.Mutex
	cache map[string]*json.Unmarshalers
}

func newUType[T ~string, PT interface {
	*T
	uSetter
}](name string, pres [3]int) *uType {
	t := &uType{Name: name, Pres: pres, RT: reflect.TypeFor[T](), cache: map[string]*json.Unmarshalers{}}
	t.mk = map[string]func(id string) *json.Unmarshalers{
		"pb": func(id string) *json.Unmarshalers {
			return json.UnmarshalFunc(func(b []byte, v *T) error {
				if v == nil {
					return nilRecv(id)
				}
				var s string
				err := uBytes(b, id, &s)
				if s != "" {
					*v = T(s)
				}
				return err
			})
		},
		"pt": func(id string) *json.Unmarshalers {
			return json.UnmarshalFromFunc(func(d *jsontext.Decoder, v *T) error {
				if v == nil {
					return nilRecv(id)
				}
				var s string
				err := uFrom(d, id, &s)
				if s != "" {
					*v = T(s)
				}
				return err
			})
		},
		"ib": func(id string) *json.Unmarshalers {
			return json.UnmarshalFunc(func(b []byte, v uSetter) error {
				if v == nil {
					return nilRecv(id)
				}
				var s string
				err := uBytes(b, id, &s)
				if s != "" && !v.c17Set(s) {
					return nilRecv(id)
				}
				return err
			})
		},
		"it": func(id string) *json.Unmarshalers {
			return json.UnmarshalFromFunc(func(d *jsontext.Decoder, v uSetter) error {
				if v == nil {
					return nilRecv(id)
				}
				var s string
				err := uFrom(d, id, &s)
				if s != "" && !v.c17Set(s) {
					return nilRecv(id)
				}
				return err
			})
		},
		"nb": func(id string) *json.Unmarshalers {
			return json.UnmarshalFunc(func(b []byte, v *decoyT) error { rec("DECOY-" + id); return nil })
		},
		"nt": func(id string) *json.Unmarshalers {
			return json.UnmarshalFromFunc(func(d *jsontext.Decoder, v *decoyT) error { rec("DECOY-" + id); return d.SkipValue() })
		},
	}
	return t
}

func (t *uType) unmarshalers(desc string) *json.Unmarshalers {
	if desc == "" {
		return nil
	}
	t.mu.Lock()
	defer t.mu.Unlock()
	if m, ok := t.cache[desc]; ok {
		return m
	}
	nested := strings.HasSuffix(desc, "/n")
	var list []*json.Unmarshalers
	for i, d := range strings.Split(strings.TrimSuffix(desc, "/n"), ",") {
		list = append(list, t.mk[d]("f"+string(rune('0'+i))))
	}
	var m *json.Unmarshalers
	if nested && len(list) >= 2 {
		m = json.JoinUnmarshalers(list[0], nil, json.JoinUnmarshalers(list[1:]...))
	} else {
		m = json.JoinUnmarshalers(list...)
	}
	t.cache[desc] = m
	return m
}

func mTypeByName(n string) *mType {
	for _, t := range mTypes {
		if t.Name == n {
			return t
		}
	}
	return nil
}

func uTypeByName(n string) *uType {
	for _, t := range uTypes {
		if t.Name == n {
			return t
		}
	}
	return nil
}

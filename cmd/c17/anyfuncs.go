// Caller functions declared on the types that represent arbitrary JSON (string, float64, bool,
// []any, map[string]any): the library must then leave its specialised route for `any` and
// dispatch on the dynamic type of every value, map keys included.
package main

import (
	"errors"
	"fmt"
	"sort"
	"strconv"
	"strings"

	json "github.com/go-json-experiment/json"
	"github.com/go-json-experiment/json/jsontext"

	"verif/ref"
	"verif/run"
)

type anyCell struct {
	List  int    `json:"list"`
	Val   int    `json:"val"`
	API   string `json:"api"`
	Ord   int    `json:"ord"`
	Shard int    `json:"shard"`
}

type afn struct {
	id   string
	typ  string // dynamic type it is declared on ("*string": declared on the pointer)
	skip bool   // coder form that returns ErrUnsupported without touching the encoder
	out  func(v any) string
	mk   func(f *afn) *json.Marshalers
}

func bytesFn[T any](f *afn) *json.Marshalers {
	return json.MarshalFunc(func(v T) ([]byte, error) {
		rec(f.id)
		return []byte(f.out(v)), nil
	})
}

func coderFn[T any](f *afn) *json.Marshalers {
	return json.MarshalToFunc(func(e *jsontext.Encoder, v T) error {
		rec(f.id)
		if f.skip {
			return errors.ErrUnsupported
		}
		return e.WriteValue(jsontext.Value(f.out(v)))
	})
}

func qs(prefix string) func(v any) string {
	return func(v any) string {
		switch x := v.(type) {
		case string:
			return strconv.Quote(prefix + x)
		case *string:
			return strconv.Quote(prefix + *x)
		}
		return strconv.Quote(prefix)
	}
}

var anyLists = [][]*afn{
	{{id: "s", typ: "string", out: qs("S:"), mk: bytesFn[string]}},
	{{id: "n-skip", typ: "float64", skip: true, mk: coderFn[float64]}, {id: "s", typ: "string", out: qs("S:"), mk: bytesFn[string]}},
	{{id: "n", typ: "float64", out: qs("N"), mk: coderFn[float64]}, {id: "b", typ: "bool", out: qs("B"), mk: bytesFn[bool]}},
	{{id: "l", typ: "[]any", out: qs("L"), mk: bytesFn[[]any]}},
	{{id: "m-skip", typ: "map[string]any", skip: true, mk: coderFn[map[string]any]}, {id: "s", typ: "string", out: qs("S:"), mk: bytesFn[string]}},
	{{id: "ps", typ: "*string", out: qs("PS:"), mk: bytesFn[*string]}, {id: "s", typ: "string", out: qs("S:"), mk: bytesFn[string]}},
	{{id: "decoy", typ: "decoy", out: qs("D"), mk: bytesFn[decoyT]}},
	{{id: "s-skip", typ: "string", skip: true, mk: coderFn[string]}, {id: "l-skip", typ: "[]any", skip: true, mk: coderFn[*[]any]}, {id: "m", typ: "map[string]any", out: qs("M"), mk: coderFn[*map[string]any]}},
	// a function that cannot be skipped and is declared on an unrelated type stands first: the functions
	// behind it still apply to every value of their own type
	{{id: "decoy", typ: "decoy", out: qs("D"), mk: bytesFn[decoyT]}, {id: "s", typ: "string", out: qs("S:"), mk: bytesFn[string]}},
	{{id: "decoy", typ: "decoy", out: qs("D"), mk: bytesFn[decoyT]}, {id: "n", typ: "float64", out: qs("N"), mk: coderFn[float64]}, {id: "b", typ: "bool", out: qs("B"), mk: bytesFn[bool]}},
	{{id: "decoy-c", typ: "decoy", out: qs("D"), mk: coderFn[decoyT]}, {id: "l", typ: "[]any", out: qs("L"), mk: bytesFn[[]any]}, {id: "m", typ: "map[string]any", out: qs("M"), mk: coderFn[map[string]any]}},
	{{id: "decoy", typ: "decoy", out: qs("D"), mk: bytesFn[decoyT]}, {id: "decoy2", typ: "decoy", out: qs("D"), mk: bytesFn[*decoyT]}, {id: "s-skip", typ: "string", skip: true, mk: coderFn[string]}, {id: "s", typ: "string", out: qs("S:"), mk: bytesFn[string]}},
}

var anyMarshalers = func() []*json.Marshalers {
	out := make([]*json.Marshalers, len(anyLists))
	for i, l := range anyLists {
		var ms []*json.Marshalers
		for _, f := range l {
			ms = append(ms, f.mk(f))
		}
		if i%2 == 1 && len(ms) > 1 {
			out[i] = json.JoinMarshalers(ms[0], json.JoinMarshalers(ms[1:]...)) // the same list, nested
		} else {
			out[i] = json.JoinMarshalers(ms...)
		}
	}
	return out
}()

type wrapAny struct{ F any }

var anyValues = []any{
	"x",
	[]any{"y", 1.5, true, nil},
	map[string]any{"k": []any{"z", map[string]any{"q": 2.0}}},
	1.5,
	wrapAny{F: "w"},
	[]any{[]any{}, map[string]any{}, map[string]any{"a": "a"}},
	map[string]any{"only": nil},
	&wrapAny{F: []any{false}},
}

func dynName(v any) string {
	switch v.(type) {
	case string:
		return "string"
	case float64:
		return "float64"
	case bool:
		return "bool"
	case []any:
		return "[]any"
	case map[string]any:
		return "map[string]any"
	}
	return "other"
}

// anyModel: the first applicable function in list order answers; a skipping one passes on; then
// the default representation, whose parts are dispatched the same way.
func anyModel(v any, list []*afn, tr *[]string) string {
	if v == nil {
		return "null" // nil interface values are never passed to functions
	}
	dyn := dynName(v)
	for _, f := range list {
		if f.typ != dyn && f.typ != "*"+dyn {
			continue
		}
		*tr = append(*tr, f.id)
		if f.skip {
			continue
		}
		return f.out(v)
	}
	switch x := v.(type) {
	case string:
		return strconv.Quote(x)
	case float64:
		return strconv.FormatFloat(x, 'g', -1, 64)
	case bool:
		return strconv.FormatBool(x)
	case []any:
		parts := make([]string, len(x))
		for i, e := range x {
			parts[i] = anyModel(e, list, tr)
		}
		return "[" + strings.Join(parts, ",") + "]"
	case map[string]any:
		keys := make([]string, 0, len(x))
		for k := range x {
			keys = append(keys, k)
		}
		sort.Strings(keys) // at most one member in the value pool
		parts := make([]string, len(keys))
		for i, k := range keys {
			name := anyModel(k, list, tr) // a member name is a value of type string
			parts[i] = name + ":" + anyModel(x[k], list, tr)
		}
		return "{" + strings.Join(parts, ",") + "}"
	case wrapAny:
		return `{"F":` + anyModel(x.F, list, tr) + `}`
	case *wrapAny:
		return `{"F":` + anyModel(x.F, list, tr) + `}`
	}
	panic(fmt.Sprintf("anyModel: %T", v))
}

func runAny(w *run.W, c *anyCell) {
	if c.List >= len(anyLists) || c.Val >= len(anyValues) {
		w.Broken("bad any cell %+v", c)
		return
	}
	var wantTrace []string
	want := anyModel(anyValues[c.Val], anyLists[c.List], &wantTrace)
	resetRecording()
	wantOpts, skipOpts = nil, nil
	var out []byte
	var err error
	os := mOptSets[0]
	user, aborted := callUser(w, func() { out, err = callMarshal(c.API, anyValues[c.Val], os, anyMarshalers[c.List]) })
	w.Eval(1)
	if aborted || user {
		return
	}
	w.Count("any_cells", 1)
	w.Shape(fmt.Sprintf("any|%d|%d", c.List, c.Val))
	st.mu.Lock()
	got := append([]string{}, st.trace...)
	st.mu.Unlock()
	switch c.API {
	case "MarshalEncodeIn":
		want = `[null,` + want + `]`
	case "MarshalEncodeObj":
		want = `{"k":` + want + `,"z":0}`
	}
	where := fmt.Sprintf("case %+v value %#v (history: shard %d, ordinal %d)", *c, anyValues[c.Val], c.Shard, c.Ord)
	sig := map[string]string{"side": "marshal", "pos": "untyped-any", "list": fmt.Sprint(c.List)}
	if err != nil {
		w.Violate("dispatch-outcome", sig, "error %v, expected %s; %s", err, want, where)
		return
	}
	if !sameStrings(got, wantTrace) {
		w.Violate("dispatch-trace", sig, "functions called %v, the documented dispatch on dynamic types gives %v; out=%s; %s", got, wantTrace, out, where)
		return
	}
	node := ref.Parse(out, ref.Opts{})
	if node == nil || string(ref.Compact(node)) != want {
		w.Violate("dispatch-output", sig, "output %s, expected %s; %s", out, want, where)
		return
	}
	if len(wantTrace) > 0 {
		w.Count("any_cells_with_function_calls", 1)
	}
}

// C17 — user-defined (un)marshalers are dispatched and policed as documented.
//
// 3^4 marshal-side and 3^3 unmarshal-side declared types (types_gen.go) are placed at every
// position kind and driven by behaviour scripts; the recorded call trace, the outcome class
// and the produced text / destination value are compared with the documented dispatch model
// (model.go).  Every worker process runs the same matrix in its own shuffled order (the order is
// a function of seed and shard), so the process-wide arshaler cache and the per-Marshalers
// function caches are filled in 16 different histories; the model is order-independent.
package main

import (
	"bytes"
	"encoding"
	stdjson "encoding/json"
	"fmt"
	jsonv1 "github.com/go-json-experiment/json/v1"
	"io"
	"reflect"
	"sort"
	"strings"
	"sync"

	json "github.com/go-json-experiment/json"
	"github.com/go-json-experiment/json/jsontext"

	"verif/ref"
	"verif/run"
)

// ---------------------------------------------------------------------------------
// option sets

type optSet struct {
	Name string
	Enc  []json.Options // jsontext-level (given to NewEncoder/NewDecoder in the *Encode/*Decode routes)
	Arsh []json.Options // json-level
	Want map[string]any
	Skip []string
	Det  bool
}

func (o *optSet) all() []json.Options { return append(append([]json.Options{}, o.Enc...), o.Arsh...) }

func (o *optSet) skip() map[string]bool {
	m := map[string]bool{}
	for _, s := range o.Skip {
		m[s] = true
	}
	return m
}

var mOptSets = []*optSet{
	{Name: "default"},
	{Name: "deterministic", Arsh: []json.Options{json.Deterministic(true)}, Want: map[string]any{"Deterministic": true}, Det: true},
	{Name: "dup+html", Enc: []json.Options{jsontext.AllowDuplicateNames(true), jsontext.EscapeForHTML(true)},
		Want: map[string]any{"AllowDuplicateNames": true, "EscapeForHTML": true}},
	{Name: "indent", Enc: []json.Options{jsontext.WithIndent("  ")}, Want: map[string]any{"WithIndent": "  "},
		Skip: []string{"Multiline", "SpaceAfterColon", "SpaceAfterComma"}},
	{Name: "nilnull+utf8", Enc: []json.Options{jsontext.AllowInvalidUTF8(true)}, Arsh: []json.Options{json.FormatNilSliceAsNull(true), json.FormatNilMapAsNull(true)},
		Want: map[string]any{"AllowInvalidUTF8": true, "FormatNilSliceAsNull": true, "FormatNilMapAsNull": true}},
	{Name: "spaces", Enc: []json.Options{jsontext.SpaceAfterComma(true), jsontext.SpaceAfterColon(true)}, Arsh: []json.Options{json.Deterministic(false)},
		Want: map[string]any{"SpaceAfterComma": true, "SpaceAfterColon": true, "Deterministic": false}},
	// the v2 defaults spelled out: present-but-false legacy flags must behave like absent ones
	{Name: "explicit-v2", Arsh: []json.Options{json.DefaultOptionsV2()}},
	{Name: "legacy-calls-off", Arsh: []json.Options{jsonv1.CallMethodsWithLegacySemantics(false)}},
	{Name: "v1-then-v2", Arsh: []json.Options{json.JoinOptions(jsonv1.DefaultOptionsV1(), json.DefaultOptionsV2())}},
}

var uOptSets = []*optSet{
	{Name: "default"},
	{Name: "reject-unknown", Arsh: []json.Options{json.RejectUnknownMembers(true)}, Want: map[string]any{"RejectUnknownMembers": true}},
	{Name: "dup+nocase", Enc: []json.Options{jsontext.AllowDuplicateNames(true)}, Arsh: []json.Options{json.MatchCaseInsensitiveNames(true)},
		Want: map[string]any{"AllowDuplicateNames": true, "MatchCaseInsensitiveNames": true}},
	{Name: "utf8", Enc: []json.Options{jsontext.AllowInvalidUTF8(true)}, Arsh: []json.Options{json.RejectUnknownMembers(false)},
		Want: map[string]any{"AllowInvalidUTF8": true, "RejectUnknownMembers": false}},
	{Name: "explicit-v2", Arsh: []json.Options{json.DefaultOptionsV2()}},
	{Name: "legacy-calls-off", Arsh: []json.Options{jsonv1.CallMethodsWithLegacySemantics(false)}},
	{Name: "v1-then-v2", Arsh: []json.Options{jsonv1.DefaultOptionsV1(), json.DefaultOptionsV2()}},
}

var mAPIs = []string{"Marshal", "MarshalWrite", "MarshalWriteW", "MarshalEncode", "MarshalEncodeIn", "MarshalEncodeObj"}
var uAPIs = []string{"Unmarshal", "UnmarshalRead", "UnmarshalDecode", "UnmarshalDecodeIn", "UnmarshalDecodeObj"}

// The *Obj routes place the value as a member value of an object that the harness began on a
// coder that allows duplicate names, and switch AllowDuplicateNames off for the call only.
func withDupOff(want map[string]any) map[string]any {
	m := map[string]any{"AllowDuplicateNames": false}
	for k, v := range want {
		if k != "AllowDuplicateNames" {
			m[k] = v
		}
	}
	return m
}

// ---------------------------------------------------------------------------------
// positions

var anyType = reflect.TypeFor[any]()
var stringType = reflect.TypeFor[string]()
var intType = reflect.TypeFor[int]()

func ptrTo(v reflect.Value) reflect.Value {
	p := reflect.New(v.Type())
	p.Elem().Set(v)
	return p
}

func structOf(ft reflect.Type) reflect.Type {
	return reflect.StructOf([]reflect.StructField{{Name: "F", Type: ft}})
}

type mPos struct {
	Name      string
	N         int // number of values of the type under test
	Build     func(t reflect.Type, v []reflect.Value) any
	Doc       func(r []string) string
	Key       bool
	Unordered bool
}

var mPositions = []*mPos{
	{Name: "top-value", N: 1, Build: func(t reflect.Type, v []reflect.Value) any { return v[0].Interface() }, Doc: func(r []string) string { return r[0] }},
	{Name: "top-pointer", N: 1, Build: func(t reflect.Type, v []reflect.Value) any { return ptrTo(v[0]).Interface() }, Doc: func(r []string) string { return r[0] }},
	{Name: "ptr-ptr", N: 1, Build: func(t reflect.Type, v []reflect.Value) any { return ptrTo(ptrTo(v[0])).Interface() }, Doc: func(r []string) string { return r[0] }},
	{Name: "field-addr", N: 1, Build: func(t reflect.Type, v []reflect.Value) any {
		s := reflect.New(structOf(t))
		s.Elem().Field(0).Set(v[0])
		return s.Interface()
	}, Doc: func(r []string) string { return `{"F":` + r[0] + `}` }},
	{Name: "field-byval", N: 1, Build: func(t reflect.Type, v []reflect.Value) any {
		s := reflect.New(structOf(t))
		s.Elem().Field(0).Set(v[0])
		return s.Elem().Interface()
	}, Doc: func(r []string) string { return `{"F":` + r[0] + `}` }},
	{Name: "slice", N: 1, Build: func(t reflect.Type, v []reflect.Value) any {
		s := reflect.MakeSlice(reflect.SliceOf(t), 1, 1)
		s.Index(0).Set(v[0])
		return s.Interface()
	}, Doc: func(r []string) string { return `[` + r[0] + `]` }},
	{Name: "slice2", N: 2, Build: func(t reflect.Type, v []reflect.Value) any {
		s := reflect.MakeSlice(reflect.SliceOf(t), 2, 2)
		s.Index(0).Set(v[0])
		s.Index(1).Set(v[1])
		return s.Interface()
	}, Doc: func(r []string) string { return `[` + r[0] + `,` + r[1] + `]` }},
	{Name: "array-byval", N: 1, Build: func(t reflect.Type, v []reflect.Value) any {
		a := reflect.New(reflect.ArrayOf(1, t)).Elem()
		a.Index(0).Set(v[0])
		return a.Interface()
	}, Doc: func(r []string) string { return `[` + r[0] + `]` }},
	{Name: "array-addr", N: 1, Build: func(t reflect.Type, v []reflect.Value) any {
		a := reflect.New(reflect.ArrayOf(1, t))
		a.Elem().Index(0).Set(v[0])
		return a.Interface()
	}, Doc: func(r []string) string { return `[` + r[0] + `]` }},
	{Name: "map-value", N: 1, Build: func(t reflect.Type, v []reflect.Value) any {
		m := reflect.MakeMap(reflect.MapOf(stringType, t))
		m.SetMapIndex(reflect.ValueOf("k"), v[0])
		return m.Interface()
	}, Doc: func(r []string) string { return `{"k":` + r[0] + `}` }},
	{Name: "map-ptr-value", N: 1, Build: func(t reflect.Type, v []reflect.Value) any {
		m := reflect.MakeMap(reflect.MapOf(stringType, reflect.PointerTo(t)))
		m.SetMapIndex(reflect.ValueOf("k"), ptrTo(v[0]))
		return m.Interface()
	}, Doc: func(r []string) string { return `{"k":` + r[0] + `}` }},
	{Name: "map-key", N: 1, Key: true, Build: func(t reflect.Type, v []reflect.Value) any {
		m := reflect.MakeMap(reflect.MapOf(t, intType))
		m.SetMapIndex(v[0], reflect.ValueOf(1))
		return m.Interface()
	}, Doc: func(r []string) string { return `{` + r[0] + `:1}` }},
	{Name: "map-key2", N: 2, Key: true, Unordered: true, Build: func(t reflect.Type, v []reflect.Value) any {
		m := reflect.MakeMap(reflect.MapOf(t, intType))
		m.SetMapIndex(v[0], reflect.ValueOf(1))
		m.SetMapIndex(v[1], reflect.ValueOf(2))
		return m.Interface()
	}, Doc: func(r []string) string { return `{` + r[0] + `:1,` + r[1] + `:2}` }},
	{Name: "any", N: 1, Build: func(t reflect.Type, v []reflect.Value) any { return []any{v[0].Interface()} }, Doc: func(r []string) string { return `[` + r[0] + `]` }},
	{Name: "any-ptr", N: 1, Build: func(t reflect.Type, v []reflect.Value) any { return []any{ptrTo(v[0]).Interface()} }, Doc: func(r []string) string { return `[` + r[0] + `]` }},
	{Name: "any-field-byval", N: 1, Build: func(t reflect.Type, v []reflect.Value) any {
		s := reflect.New(structOf(anyType)).Elem()
		s.Field(0).Set(v[0])
		return s.Interface()
	}, Doc: func(r []string) string { return `{"F":` + r[0] + `}` }},
	{Name: "ptr-field", N: 1, Build: func(t reflect.Type, v []reflect.Value) any {
		s := reflect.New(structOf(reflect.PointerTo(t))).Elem()
		s.Field(0).Set(ptrTo(v[0]))
		return s.Interface()
	}, Doc: func(r []string) string { return `{"F":` + r[0] + `}` }},
	{Name: "nested-byval", N: 1, Build: func(t reflect.Type, v []reflect.Value) any {
		inner := structOf(reflect.ArrayOf(1, t))
		outer := reflect.New(reflect.StructOf([]reflect.StructField{{Name: "G", Type: inner}})).Elem()
		outer.Field(0).Field(0).Index(0).Set(v[0])
		return outer.Interface()
	}, Doc: func(r []string) string { return `{"G":{"F":[` + r[0] + `]}}` }},
	// nil pointers: never a call
	{Name: "nil-ptr-top", N: 0, Build: func(t reflect.Type, v []reflect.Value) any { return reflect.Zero(reflect.PointerTo(t)).Interface() }, Doc: func(r []string) string { return `null` }},
	{Name: "nil-ptr-field", N: 0, Build: func(t reflect.Type, v []reflect.Value) any {
		return reflect.New(structOf(reflect.PointerTo(t))).Elem().Interface()
	}, Doc: func(r []string) string { return `{"F":null}` }},
	{Name: "nil-ptr-any", N: 0, Build: func(t reflect.Type, v []reflect.Value) any {
		return []any{reflect.Zero(reflect.PointerTo(t)).Interface()}
	}, Doc: func(r []string) string { return `[null]` }},
	{Name: "nil-ptr-slice", N: 0, Build: func(t reflect.Type, v []reflect.Value) any {
		return reflect.MakeSlice(reflect.SliceOf(reflect.PointerTo(t)), 1, 1).Interface()
	}, Doc: func(r []string) string { return `[null]` }},
}

func mPosByName(n string) *mPos {
	for _, p := range mPositions {
		if p.Name == n {
			return p
		}
	}
	return nil
}

// uPos: New returns the pointer handed to Unmarshal and a getter for the values of the type
// under test afterwards (ok=false: the destination no longer holds them).
type uPos struct {
	Name  string
	N     int
	Fresh bool     // the container can be created from its zero value by the library (usable inside [D,D])
	Null  bool     // the JSON value is null: pointer must end up nil, no call
	Pre   bool     // the destination is pre-populated with "pre"
	PreOK []string // acceptable destination values when the winner cannot mutate it
	CT    func(t reflect.Type) reflect.Type
	Init  func(t reflect.Type, c reflect.Value, pre reflect.Value) // c: addressable container of type CT
	Get   func(c reflect.Value) ([]string, bool)
	Doc   func(v []string) string
	Key   bool
}

func derefString(v reflect.Value) (string, bool) {
	for v.Kind() == reflect.Pointer || v.Kind() == reflect.Interface {
		if v.IsNil() {
			return "", false
		}
		v = v.Elem()
	}
	if v.Kind() != reflect.String {
		return "", false
	}
	return v.String(), true
}

func get1(f func(c reflect.Value) reflect.Value) func(c reflect.Value) ([]string, bool) {
	return func(c reflect.Value) (out []string, ok bool) {
		defer func() {
			if recover() != nil {
				out, ok = nil, false
			}
		}()
		s, ok := derefString(f(c))
		return []string{s}, ok
	}
}

var uPositions = []*uPos{
	{Name: "top", N: 1, Fresh: true, Pre: true, CT: func(t reflect.Type) reflect.Type { return t },
		Init: func(t reflect.Type, c, pre reflect.Value) { c.Set(pre) },
		Get:  get1(func(c reflect.Value) reflect.Value { return c }), Doc: func(v []string) string { return v[0] }},
	{Name: "ptr-top-nil", N: 1, Fresh: true, CT: func(t reflect.Type) reflect.Type { return reflect.PointerTo(t) },
		Get: get1(func(c reflect.Value) reflect.Value { return c }), Doc: func(v []string) string { return v[0] }},
	{Name: "ptr-top-set", N: 1, Pre: true, CT: func(t reflect.Type) reflect.Type { return reflect.PointerTo(t) },
		Init: func(t reflect.Type, c, pre reflect.Value) { c.Set(ptrTo(pre)) },
		Get:  get1(func(c reflect.Value) reflect.Value { return c }), Doc: func(v []string) string { return v[0] }},
	{Name: "ptr-ptr", N: 1, Fresh: true, CT: func(t reflect.Type) reflect.Type { return reflect.PointerTo(reflect.PointerTo(t)) },
		Get: get1(func(c reflect.Value) reflect.Value { return c }), Doc: func(v []string) string { return v[0] }},
	{Name: "field", N: 1, Fresh: true, Pre: true, CT: structOf,
		Init: func(t reflect.Type, c, pre reflect.Value) { c.Field(0).Set(pre) },
		Get:  get1(func(c reflect.Value) reflect.Value { return c.Field(0) }), Doc: func(v []string) string { return `{"F":` + v[0] + `}` }},
	{Name: "slice", N: 1, Fresh: true, CT: reflect.SliceOf,
		Get: get1(func(c reflect.Value) reflect.Value { return c.Index(0) }), Doc: func(v []string) string { return `[` + v[0] + `]` }},
	{Name: "slice2", N: 2, CT: reflect.SliceOf,
		Get: func(c reflect.Value) ([]string, bool) {
			if c.Len() != 2 {
				return nil, false
			}
			return []string{c.Index(0).String(), c.Index(1).String()}, true
		}, Doc: func(v []string) string { return `[` + v[0] + `,` + v[1] + `]` }},
	{Name: "array", N: 1, Fresh: true, CT: func(t reflect.Type) reflect.Type { return reflect.ArrayOf(1, t) },
		Get: get1(func(c reflect.Value) reflect.Value { return c.Index(0) }), Doc: func(v []string) string { return `[` + v[0] + `]` }},
	{Name: "map-value-new", N: 1, Fresh: true, CT: func(t reflect.Type) reflect.Type { return reflect.MapOf(stringType, t) },
		Get: get1(func(c reflect.Value) reflect.Value { return c.MapIndex(reflect.ValueOf("k")) }), Doc: func(v []string) string { return `{"k":` + v[0] + `}` }},
	{Name: "map-value-old", N: 1, Pre: true, PreOK: []string{"pre", ""}, CT: func(t reflect.Type) reflect.Type { return reflect.MapOf(stringType, t) },
		Init: func(t reflect.Type, c, pre reflect.Value) {
			c.Set(reflect.MakeMap(c.Type()))
			c.SetMapIndex(reflect.ValueOf("k"), pre)
		},
		Get: get1(func(c reflect.Value) reflect.Value { return c.MapIndex(reflect.ValueOf("k")) }), Doc: func(v []string) string { return `{"k":` + v[0] + `}` }},
	{Name: "map-key", N: 1, Fresh: true, Key: true, CT: func(t reflect.Type) reflect.Type { return reflect.MapOf(t, intType) },
		Get: func(c reflect.Value) ([]string, bool) {
			if c.Len() != 1 {
				return nil, false
			}
			return []string{c.MapKeys()[0].String()}, true
		}, Doc: func(v []string) string { return `{` + v[0] + `:1}` }},
	{Name: "any-val", N: 1, Pre: true, CT: func(t reflect.Type) reflect.Type { return anyType },
		Init: func(t reflect.Type, c, pre reflect.Value) { c.Set(pre) },
		Get: func(c reflect.Value) ([]string, bool) {
			if c.IsNil() || c.Elem().Kind() != reflect.String || c.Elem().Type() == stringType {
				return nil, false
			}
			return []string{c.Elem().String()}, true
		}, Doc: func(v []string) string { return v[0] }},
	{Name: "any-ptr", N: 1, Pre: true, CT: func(t reflect.Type) reflect.Type { return anyType },
		Init: func(t reflect.Type, c, pre reflect.Value) { c.Set(ptrTo(pre)) },
		Get: func(c reflect.Value) ([]string, bool) {
			if c.IsNil() || c.Elem().Kind() != reflect.Pointer {
				return nil, false
			}
			s, ok := derefString(c)
			return []string{s}, ok
		}, Doc: func(v []string) string { return v[0] }},
	{Name: "ptr-field-nil", N: 1, Fresh: true, CT: func(t reflect.Type) reflect.Type { return structOf(reflect.PointerTo(t)) },
		Get: get1(func(c reflect.Value) reflect.Value { return c.Field(0) }), Doc: func(v []string) string { return `{"F":` + v[0] + `}` }},
	{Name: "ptr-field-set", N: 1, Pre: true, CT: func(t reflect.Type) reflect.Type { return structOf(reflect.PointerTo(t)) },
		Init: func(t reflect.Type, c, pre reflect.Value) { c.Field(0).Set(ptrTo(pre)) },
		Get:  get1(func(c reflect.Value) reflect.Value { return c.Field(0) }), Doc: func(v []string) string { return `{"F":` + v[0] + `}` }},
	{Name: "ptr-null", N: 0, Null: true, Pre: true, CT: func(t reflect.Type) reflect.Type { return structOf(reflect.PointerTo(t)) },
		Init: func(t reflect.Type, c, pre reflect.Value) { c.Field(0).Set(ptrTo(pre)) },
		Get:  func(c reflect.Value) ([]string, bool) { return nil, c.Field(0).IsNil() }, Doc: func(v []string) string { return `{"F":null}` }},
}

func uPosByName(n string) *uPos {
	for _, p := range uPositions {
		if p.Name == n {
			return p
		}
	}
	return nil
}

// ---------------------------------------------------------------------------------
// cases

type mCell struct {
	Type   string `json:"type"`
	Pos    string `json:"pos"`
	Script string `json:"script,omitempty"`
	Funcs  string `json:"funcs,omitempty"`
	Opts   int    `json:"opts"`
	API    string `json:"api"`
	Ord    int    `json:"ord"`   // position in this worker's shuffled order (history, informational)
	Shard  int    `json:"shard"` // informational
}

type uCell struct {
	Type   string `json:"type"`
	Pos    string `json:"pos"`
	Script string `json:"script,omitempty"`
	Funcs  string `json:"funcs,omitempty"`
	Opts   int    `json:"opts"`
	API    string `json:"api"`
	In     string `json:"in"` // "str" | "obj" | "num"
	Ord    int    `json:"ord"`
	Shard  int    `json:"shard"`
}

type firstArgs struct {
	Side string `json:"side"` // "m" | "u"
	Type string `json:"type"`
	G    int    `json:"g"`
}

type plainWriter struct{ b []byte }

func (p *plainWriter) Write(b []byte) (int, error) { p.b = append(p.b, b...); return len(b), nil }

// callUser runs fn and classifies panics: UserPanic is user behaviour; a nil-receiver call of a
// value method shows up as a runtime panic in the generated pointer wrapper.
func callUser(w *run.W, fn func()) (user, aborted bool) {
	defer func() {
		r := recover()
		if r == nil {
			return
		}
		aborted = true
		if _, ok := r.(run.UserPanic); ok {
			user = true
			return
		}
		origin, lib, stack := run.PanicOrigin()
		msg := fmt.Sprint(r)
		switch {
		case strings.Contains(msg, "called using nil"):
			w.Violate("nil-receiver-call", map[string]string{"how": "value-method-via-nil-pointer"}, "a value-receiver method was called through a nil pointer: %v\n%s", r, stack)
		case lib:
			w.Violate("library-panic", map[string]string{"func": origin, "panic": run.Trunc(msg, 120)}, "library panicked: %v\n%s", r, stack)
		default:
			w.Broken("harness panic (origin %s): %v\n%s", origin, msg, stack)
		}
	}()
	fn()
	return
}

// functions for the other direction (on a type no case uses), carried along in joined option sets
var (
	otherDirectionM = json.MarshalFunc(func(v complex64) ([]byte, error) { return []byte(`"c64"`), nil })
	otherDirectionU = json.UnmarshalFunc(func(b []byte, v *complex64) error { return nil })
)

func callMarshal(api string, in any, os *optSet, ms *json.Marshalers) (out []byte, err error) {
	extra := []json.Options{}
	if ms != nil {
		extra = append(extra, json.WithMarshalers(ms))
		if api == "MarshalWrite" || api == "MarshalEncodeIn" {
			// one joined set that carries functions for both directions (as a caller sharing one options value would pass)
			extra = []json.Options{json.JoinOptions(json.WithUnmarshalers(otherDirectionU), json.WithMarshalers(ms))}
		}
	}
	switch api {
	case "Marshal":
		return json.Marshal(in, append(os.all(), extra...)...)
	case "MarshalWrite":
		var bb bytes.Buffer
		err = json.MarshalWrite(&bb, in, append(os.all(), extra...)...)
		return bb.Bytes(), err
	case "MarshalWriteW":
		var pw plainWriter
		err = json.MarshalWrite(&pw, in, append(os.all(), extra...)...)
		return pw.b, err
	case "MarshalEncode":
		var bb bytes.Buffer
		enc := jsontext.NewEncoder(&bb, os.Enc...)
		err = json.MarshalEncode(enc, in, append(append([]json.Options{}, os.Arsh...), extra...)...)
		return bytes.TrimSuffix(bb.Bytes(), []byte("\n")), err
	case "MarshalEncodeIn":
		var bb bytes.Buffer
		enc := jsontext.NewEncoder(&bb, os.Enc...)
		if err := enc.WriteToken(jsontext.BeginArray); err != nil {
			return nil, fmt.Errorf("harness: %w", err)
		}
		if err := enc.WriteToken(jsontext.Null); err != nil {
			return nil, fmt.Errorf("harness: %w", err)
		}
		err = json.MarshalEncode(enc, in, append(append([]json.Options{}, os.Arsh...), extra...)...)
		if err != nil {
			return bb.Bytes(), err
		}
		if err := enc.WriteToken(jsontext.EndArray); err != nil {
			return bb.Bytes(), fmt.Errorf("closing token refused after MarshalEncode returned nil: %w", err)
		}
		return bytes.TrimSuffix(bb.Bytes(), []byte("\n")), nil
	case "MarshalEncodeObj":
		var bb bytes.Buffer
		enc := jsontext.NewEncoder(&bb, append(append([]json.Options{}, os.Enc...), jsontext.AllowDuplicateNames(true))...)
		if err := writeAll(enc, jsontext.BeginObject, jsontext.String("k")); err != nil {
			return nil, fmt.Errorf("harness: %w", err)
		}
		err = json.MarshalEncode(enc, in, append(append(append([]json.Options{}, os.Arsh...), extra...), jsontext.AllowDuplicateNames(false))...)
		if err != nil {
			return bb.Bytes(), err
		}
		if err := writeAll(enc, jsontext.String("z"), jsontext.Int(0), jsontext.EndObject); err != nil {
			return bb.Bytes(), fmt.Errorf("closing tokens refused after MarshalEncode returned nil: %w", err)
		}
		return bytes.TrimSuffix(bb.Bytes(), []byte("\n")), nil
	}
	panic("unknown api " + api)
}

func callUnmarshal(api string, doc string, target any, os *optSet, us *json.Unmarshalers) error {
	extra := []json.Options{}
	if us != nil {
		extra = append(extra, json.WithUnmarshalers(us))
		if api == "UnmarshalRead" || api == "UnmarshalDecodeIn" {
			extra = []json.Options{json.JoinOptions(json.WithMarshalers(otherDirectionM), json.WithUnmarshalers(us))}
		}
	}
	switch api {
	case "Unmarshal":
		return json.Unmarshal([]byte(doc), target, append(os.all(), extra...)...)
	case "UnmarshalRead":
		return json.UnmarshalRead(strings.NewReader(doc), target, append(os.all(), extra...)...)
	case "UnmarshalDecode":
		dec := jsontext.NewDecoder(strings.NewReader(doc), os.Enc...)
		if err := json.UnmarshalDecode(dec, target, append(append([]json.Options{}, os.Arsh...), extra...)...); err != nil {
			return err
		}
		if _, err := dec.ReadToken(); err != io.EOF {
			return fmt.Errorf("after UnmarshalDecode returned nil the decoder is not at the end of the input: %v", err)
		}
		return nil
	case "UnmarshalDecodeIn":
		dec := jsontext.NewDecoder(strings.NewReader(`[0,`+doc+`]`), os.Enc...)
		for i := 0; i < 2; i++ {
			if _, err := dec.ReadToken(); err != nil {
				return fmt.Errorf("harness: %w", err)
			}
		}
		if err := json.UnmarshalDecode(dec, target, append(append([]json.Options{}, os.Arsh...), extra...)...); err != nil {
			return err
		}
		if t, err := dec.ReadToken(); err != nil || t.Kind() != ']' {
			return fmt.Errorf("after UnmarshalDecode returned nil the decoder is not at the end of the enclosing array: %v %v", t, err)
		}
		return nil
	case "UnmarshalDecodeObj":
		dec := jsontext.NewDecoder(strings.NewReader(`{"k":`+doc+`,"z":0}`), append(append([]json.Options{}, os.Enc...), jsontext.AllowDuplicateNames(true))...)
		for i := 0; i < 2; i++ {
			if _, err := dec.ReadToken(); err != nil {
				return fmt.Errorf("harness: %w", err)
			}
		}
		if err := json.UnmarshalDecode(dec, target, append(append(append([]json.Options{}, os.Arsh...), extra...), jsontext.AllowDuplicateNames(false))...); err != nil {
			return err
		}
		for _, k := range []jsontext.Kind{'"', '0', '}'} {
			if t, err := dec.ReadToken(); err != nil || t.Kind() != k {
				return fmt.Errorf("after UnmarshalDecode returned nil the decoder is not right behind the member value: %v %v", t, err)
			}
		}
		return nil
	}
	panic("unknown api " + api)
}

func classOf(o outcome) string {
	switch o.Beh {
	case "zero", "two", "partial", "partial-arr", "unsup-after", "unsup-open-arr", "unsup-open-obj", "unsup-open":
		return "policing"
	case "popbelow":
		return "policing-pop-below-entry"
	}
	return "user-error-lost"
}

func formOf(callee string) string {
	if strings.HasPrefix(callee, "f") {
		return "func"
	}
	return "method"
}

func sameStrings(a, b []string) bool {
	if len(a) != len(b) {
		return false
	}
	for i := range a {
		if a[i] != b[i] {
			return false
		}
	}
	return true
}

func hasPrefix(a, prefix []string) bool {
	return len(a) >= len(prefix) && sameStrings(a[:len(prefix)], prefix)
}

func sortedCopy(a []string) []string {
	b := append([]string{}, a...)
	sort.Strings(b)
	return b
}

// checkNotes turns the notes of the user code into violations / counters.
func checkNotes(w *run.W, side string, c any) (resetAllowed bool) {
	st.mu.Lock()
	notes := append([]string{}, st.notes...)
	probes := st.probes
	st.mu.Unlock()
	w.Count("option_probes", probes)
	for _, n := range notes {
		switch {
		case strings.HasPrefix(n, "reset-panicked:"):
			w.Count("reset_refused", 1)
		case strings.HasPrefix(n, "reset-allowed:"):
			resetAllowed = true
			callee := strings.TrimPrefix(n, "reset-allowed:")
			beh := "reset"
			if sc, ok := c.(interface{ script() string }); ok {
				beh = behaviourOf(sc.script(), callee, "reset")
			}
			w.Violate("reset-allowed", map[string]string{"side": side, "form": formOf(callee), "behaviour": beh},
				"Reset of the coder succeeded inside a user %s call (%s); case %+v", side, callee, c)
		case strings.HasPrefix(n, "reset-other-panic:"):
			w.Count("reset_refused_other_message", 1)
		case strings.HasPrefix(n, "opts-mismatch:"):
			f := strings.SplitN(n, ":", 4)
			w.Violate("options-inside-call", map[string]string{"side": side, "option": f[1]}, "%s; case %+v", f[3], c)
		case strings.HasPrefix(n, "nil-receiver:"):
			w.Violate("nil-receiver-call", map[string]string{"side": side, "how": "pointer-method-or-func"}, "%s was called with a nil pointer; case %+v", strings.TrimPrefix(n, "nil-receiver:"), c)
		}
	}
	return resetAllowed
}

func (c *mCell) script() string { return c.Script }
func (c *uCell) script() string { return c.Script }

func runM(w *run.W, c *mCell) {
	t := mTypeByName(c.Type)
	pos := mPosByName(c.Pos)
	if t == nil || pos == nil || c.Opts >= len(mOptSets) {
		w.Broken("bad marshal cell %+v", c)
		return
	}
	os := mOptSets[c.Opts]
	funcs := splitFuncs(c.Funcs)
	tags := []string{"a", "b"}
	vals := make([]reflect.Value, pos.N)
	for i := range vals {
		vals[i] = t.value(c.Script + "#" + tags[i])
	}
	in := pos.Build(t.RT, vals)

	// model
	var wantTrace, reprs []string
	final := outcome{Kind: "ok"}
	for i := 0; i < pos.N; i++ {
		tr, o := mModel(t.Pres, funcs, c.Script, tags[i], pos.Key)
		wantTrace = append(wantTrace, tr...)
		final = o
		if o.Kind != "ok" {
			break
		}
		reprs = append(reprs, o.Repr)
	}

	resetRecording()
	wantOpts, skipOpts = os.Want, os.skip()
	if c.API == "MarshalEncodeObj" {
		wantOpts = withDupOff(os.Want)
	}
	var out []byte
	var err error
	ms := t.marshalers(c.Funcs)
	user, aborted := callUser(w, func() { out, err = callMarshal(c.API, in, os, ms) })
	w.Eval(1)
	if aborted && !user {
		return // library panic or nil-receiver call: reported by callUser
	}
	w.Count("m_cells", 1)
	w.Shape("m|" + c.Type + "|" + c.Pos + "|" + c.Script + "|" + c.Funcs)
	st.mu.Lock()
	gotTrace := append([]string{}, st.trace...)
	st.mu.Unlock()

	if checkNotes(w, "marshal", c) {
		return // the coder was reset under the library's feet: nothing else is meaningful
	}
	sig := func(extra ...string) map[string]string {
		m := map[string]string{"side": "marshal", "pos": c.Pos}
		for i := 0; i+1 < len(extra); i += 2 {
			m[extra[i]] = extra[i+1]
		}
		return m
	}
	where := fmt.Sprintf("case %+v (history: shard %d, ordinal %d)", *c, c.Shard, c.Ord)

	// trace
	traceOK := sameStrings(gotTrace, wantTrace)
	if !traceOK && pos.Unordered {
		if final.Kind == "ok" {
			traceOK = sameStrings(sortedCopy(gotTrace), sortedCopy(wantTrace))
			if traceOK { // per-tag order must still be the dispatch order
				for _, tg := range tags {
					var g, wnt []string
					for _, e := range gotTrace {
						if strings.HasSuffix(e, "#"+tg) {
							g = append(g, e)
						}
					}
					for _, e := range wantTrace {
						if strings.HasSuffix(e, "#"+tg) {
							wnt = append(wnt, e)
						}
					}
					traceOK = traceOK && sameStrings(g, wnt)
				}
			}
		} else {
			// the failing element is whichever the map iteration met first
			traceOK = sameStrings(stripTags(gotTrace), stripTags(wantTrace))
		}
	}
	if !traceOK && final.Kind == "error" && err == nil && !user &&
		(hasPrefix(gotTrace, wantTrace) || pos.Unordered && hasPrefix(stripTags(gotTrace), stripTags(wantTrace))) {
		// the offending callee ran as predicted and the library carried on with a nil error
		w.Violate(classOf(final), map[string]string{"side": "marshal", "form": formOf(final.Stop), "behaviour": final.Beh},
			"user code %s behaved as %q (not exactly one value / an error) but the call went on and returned a nil error; trace=%v out=%q; %s", final.Stop, final.Beh, gotTrace, out, where)
		return
	}
	if !traceOK {
		w.Violate("dispatch-trace", sig("api", c.API, "stop", final.Stop), "call trace %v, the documented dispatch order gives %v; out=%q err=%v; %s", gotTrace, wantTrace, out, err, where)
		return
	}
	if len(wantTrace) > pos.N {
		w.Count("fallthrough_chains", 1)
	}
	if pos.N == 0 {
		w.Count("nil_pointer_cells", 1)
	}

	switch final.Kind {
	case "panic":
		if user {
			w.Count("user_panics_propagated", 1)
		} else {
			w.Count("user_panics_not_propagated", 1)
		}
		return
	case "error":
		if user {
			w.Broken("unexpected user panic in %s", where)
			return
		}
		if err == nil {
			w.Violate(classOf(final), map[string]string{"side": "marshal", "form": formOf(final.Stop), "behaviour": final.Beh},
				"user code %s behaved as %q (not exactly one value / an error) but the call returned a nil error; out=%q; %s", final.Stop, final.Beh, out, where)
			return
		}
		w.Count("errors_as_expected", 1)
		w.Count("err_"+final.Beh, 1)
		return
	}
	if user {
		w.Broken("unexpected user panic in %s", where)
		return
	}
	if err != nil {
		w.Violate("dispatch-outcome", sig("what", "unexpected-error", "stop", final.Stop, "behaviour", final.Beh),
			"error %v, but the winning representation %s (%s) produces exactly one value; %s", err, final.Stop, final.Beh, where)
		return
	}
	// output: compare the meaning-preserving compact form with the expected document
	want := pos.Doc(reprs)
	alt := want
	if pos.Unordered && !os.Det {
		alt = `{` + reprs[1] + `:2,` + reprs[0] + `:1}` // map iteration order is free without Deterministic
	}
	switch c.API {
	case "MarshalEncodeIn":
		want, alt = `[null,`+want+`]`, `[null,`+alt+`]`
	case "MarshalEncodeObj":
		want, alt = `{"k":`+want+`,"z":0}`, `{"k":`+alt+`,"z":0}`
	}
	node := ref.Parse(out, ref.Opts{})
	if node == nil {
		w.Violate("dispatch-output", sig("what", "invalid-json"), "output %q is not valid JSON, expected %s; %s", out, want, where)
		return
	}
	got := string(ref.Compact(node))
	if got != want && got != alt {
		w.Violate("dispatch-output", sig("what", "wrong-representation", "stop", final.Stop), "output %q (compact %s), the documented dispatch gives %s; %s", out, got, want, where)
		return
	}
	w.Count("ok_as_expected", 1)
	if final.Stop != "" {
		w.Count("won_"+formOfStop(final.Stop), 1)
	}
	if w.WantSample() && len(wantTrace) > 1 {
		w.Sample(map[string]any{"exec": "m", "case": c, "trace": gotTrace, "out": string(out)})
	}
}

func formOfStop(stop string) string {
	if strings.HasPrefix(stop, "f") {
		return "func"
	}
	return stop
}

func stripTags(tr []string) []string {
	out := make([]string, len(tr))
	for i, e := range tr {
		if j := strings.LastIndexByte(e, '#'); j >= 0 {
			e = e[:j]
		}
		out[i] = e
	}
	return out
}

func inputOf(kind string) (text, content string) {
	switch kind {
	case "str":
		return `"in"`, "in"
	case "obj":
		return `{"k":["x",1]}`, ""
	case "num":
		return `12`, ""
	}
	panic("bad input kind " + kind)
}

func runU(w *run.W, c *uCell) {
	t := uTypeByName(c.Type)
	pos := uPosByName(c.Pos)
	if t == nil || pos == nil || c.Opts >= len(uOptSets) {
		w.Broken("bad unmarshal cell %+v", c)
		return
	}
	os := uOptSets[c.Opts]
	funcs := splitFuncs(c.Funcs)
	text, content := inputOf(c.In)

	// does the script contain the pop-below behaviour?  Then run inside [D,D].
	wrapped := strings.Contains(c.Script, "popbelow") && pos.Fresh

	ct := pos.CT(t.RT)
	var target reflect.Value // pointer handed to Unmarshal
	var cont reflect.Value
	prev := []string{""}
	if wrapped {
		target = reflect.New(reflect.SliceOf(ct))
	} else {
		target = reflect.New(ct)
		cont = target.Elem()
		if pos.Init != nil {
			pre := reflect.New(t.RT).Elem()
			pre.SetString("pre")
			pos.Init(t.RT, cont, pre)
			prev = []string{"pre"}
			if pos.PreOK != nil {
				prev = pos.PreOK
			}
		}
	}
	vals := make([]string, pos.N)
	for i := range vals {
		vals[i] = text
	}
	doc := pos.Doc(vals)
	if wrapped {
		doc = `[` + doc + `,` + doc + `]`
	}

	var wantTrace []string
	final := outcome{Kind: "ok"}
	var accepts [][]string
	for i := 0; i < pos.N; i++ {
		tr, o := uModel(t.Pres, funcs, c.Script, c.In, content, prev)
		wantTrace = append(wantTrace, tr...)
		final = o
		if o.Kind != "ok" {
			break
		}
		accepts = append(accepts, o.Accept)
	}

	resetRecording()
	uScript = c.Script
	wantOpts, skipOpts = os.Want, os.skip()
	if c.API == "UnmarshalDecodeObj" {
		wantOpts = withDupOff(os.Want)
	}
	var err error
	us := t.unmarshalers(c.Funcs)
	user, aborted := callUser(w, func() { err = callUnmarshal(c.API, doc, target.Interface(), os, us) })
	w.Eval(1)
	if aborted && !user {
		return
	}
	w.Count("u_cells", 1)
	w.Shape("u|" + c.Type + "|" + c.Pos + "|" + c.Script + "|" + c.Funcs + "|" + c.In)
	st.mu.Lock()
	gotTrace := append([]string{}, st.trace...)
	gotRecv := append([]string{}, st.recv...)
	st.mu.Unlock()

	if checkNotes(w, "unmarshal", c) {
		return
	}
	sig := func(extra ...string) map[string]string {
		m := map[string]string{"side": "unmarshal", "pos": c.Pos}
		for i := 0; i+1 < len(extra); i += 2 {
			m[extra[i]] = extra[i+1]
		}
		return m
	}
	where := fmt.Sprintf("case %+v doc=%s (history: shard %d, ordinal %d)", *c, doc, c.Shard, c.Ord)

	if wrapped {
		// only the policing clause is examined in the [D,D] arrangement
		if final.Kind == "error" && err == nil && !user {
			w.Violate(classOf(final), map[string]string{"side": "unmarshal", "form": formOf(final.Stop), "behaviour": final.Beh},
				"user code %s behaved as %q (consumed tokens of the parent and of a sibling) but the call returned a nil error; trace=%v; %s", final.Stop, final.Beh, gotTrace, where)
			return
		}
		if final.Kind == "error" {
			w.Count("errors_as_expected", 1)
			w.Count("err_"+final.Beh, 1)
		}
		return
	}

	if !sameStrings(gotTrace, wantTrace) && final.Kind == "error" && err == nil && !user && hasPrefix(gotTrace, wantTrace) {
		w.Violate(classOf(final), map[string]string{"side": "unmarshal", "form": formOf(final.Stop), "behaviour": final.Beh},
			"user code %s behaved as %q (not exactly one value / an error) but the call went on and returned a nil error; trace=%v; %s", final.Stop, final.Beh, gotTrace, where)
		return
	}
	if !sameStrings(gotTrace, wantTrace) {
		w.Violate("dispatch-trace", sig("api", c.API, "stop", final.Stop), "call trace %v, the documented dispatch order gives %v; err=%v; %s", gotTrace, wantTrace, err, where)
		return
	}
	if len(wantTrace) > pos.N {
		w.Count("fallthrough_chains", 1)
	}
	// what the callees received
	for _, r := range gotRecv {
		callee, got, _ := strings.Cut(r, ":")
		want := text
		if callee == "Text" {
			want = content
		}
		if got != want {
			w.Violate("dispatch-input", sig("callee", formOfStop(callee)), "%s received %q, the JSON value is %s; %s", callee, got, text, where)
			return
		}
	}
	switch final.Kind {
	case "panic":
		if user {
			w.Count("user_panics_propagated", 1)
		} else {
			w.Count("user_panics_not_propagated", 1)
		}
		return
	case "error":
		if user {
			w.Broken("unexpected user panic in %s", where)
			return
		}
		if err == nil {
			w.Violate(classOf(final), map[string]string{"side": "unmarshal", "form": formOf(final.Stop), "behaviour": final.Beh},
				"user code %s behaved as %q (not exactly one value / an error / non-string input) but the call returned a nil error; %s", final.Stop, final.Beh, where)
			return
		}
		w.Count("errors_as_expected", 1)
		w.Count("err_"+final.Beh, 1)
		return
	}
	if user {
		w.Broken("unexpected user panic in %s", where)
		return
	}
	if err != nil {
		w.Violate("dispatch-outcome", sig("what", "unexpected-error", "stop", final.Stop, "behaviour", final.Beh),
			"error %v, but the winning callee %s (%s) consumes exactly one value; %s", err, final.Stop, final.Beh, where)
		return
	}
	gotVals, ok := pos.Get(cont)
	if pos.Null {
		if !ok {
			w.Violate("dispatch-value", sig("what", "null-into-pointer"), "JSON null left the pointer non-nil; %s", where)
			return
		}
		w.Count("nil_pointer_cells", 1)
		w.Count("ok_as_expected", 1)
		return
	}
	if !ok || len(gotVals) != pos.N {
		w.Violate("dispatch-value", sig("what", "destination-shape"), "destination does not hold %d value(s) of the type afterwards: %#v; %s", pos.N, target.Elem().Interface(), where)
		return
	}
	for i, g := range gotVals {
		found := false
		for _, a := range accepts[i] {
			found = found || a == g
		}
		if !found {
			w.Violate("dispatch-value", sig("what", "wrong-value", "stop", final.Stop), "destination value %q, expected one of %q (winner %s, mutations of pointer receivers and functions must be visible); %s", g, accepts[i], final.Stop, where)
			return
		}
	}
	w.Count("ok_as_expected", 1)
	w.Count("won_"+formOfStop(final.Stop), 1)
	if w.WantSample() && len(wantTrace) > 1 {
		w.Sample(map[string]any{"exec": "u", "case": c, "trace": gotTrace, "values": gotVals})
	}
}

// runFirst: G goroutines use the type for the first time in this process simultaneously
// (the composed arshaler is built and cached concurrently); every goroutine's result must be
// the model's.
func runFirst(w *run.W, a *firstArgs) {
	resetRecording()
	uScript = ""
	wantOpts, skipOpts = nil, nil
	var wg sync.WaitGroup
	start := make(chan struct{})
	errs := make([]string, a.G)
	if a.Side == "m" {
		t := mTypeByName(a.Type)
		if t == nil {
			w.Broken("bad first args %+v", a)
			return
		}
		poss := []string{"top-value", "map-value", "any", "field-byval", "map-key", "ptr-field"}
		for g := 0; g < a.G; g++ {
			wg.Add(1)
			go func(g int) {
				defer wg.Done()
				tag := fmt.Sprintf("g%d", g)
				script := ""
				if g%2 == 1 && t.Pres[0] != 0 {
					script = "To=unsup-before"
				}
				pos := mPosByName(poss[g%len(poss)])
				_, o := mModel(t.Pres, nil, script, tag, pos.Key)
				in := pos.Build(t.RT, []reflect.Value{t.value(script + "#" + tag)})
				<-start
				out, err := json.Marshal(in)
				if err != nil || o.Kind != "ok" || string(out) != pos.Doc([]string{o.Repr}) {
					errs[g] = fmt.Sprintf("goroutine %d pos %s: out=%q err=%v, model %+v", g, pos.Name, out, err, o)
				}
			}(g)
		}
		close(start)
		wg.Wait()
		// per-tag traces
		st.mu.Lock()
		got := append([]string{}, st.trace...)
		st.mu.Unlock()
		for g := 0; g < a.G; g++ {
			tag := fmt.Sprintf("g%d", g)
			script := ""
			if g%2 == 1 && t.Pres[0] != 0 {
				script = "To=unsup-before"
			}
			want, _ := mModel(t.Pres, nil, script, tag, false)
			var mine []string
			for _, e := range got {
				if strings.HasSuffix(e, "#"+tag) {
					mine = append(mine, e)
				}
			}
			if !sameStrings(mine, want) && errs[g] == "" {
				errs[g] = fmt.Sprintf("goroutine %d: trace %v, model %v", g, mine, want)
			}
		}
	} else {
		t := uTypeByName(a.Type)
		if t == nil {
			w.Broken("bad first args %+v", a)
			return
		}
		poss := []string{"top", "map-value-new", "slice", "field", "map-key", "ptr-field-nil"}
		var wantAll []string
		for g := 0; g < a.G; g++ {
			pos := uPosByName(poss[g%len(poss)])
			tr, o := uModel(t.Pres, nil, "", "str", "in", []string{""})
			wantAll = append(wantAll, tr...)
			wg.Add(1)
			go func(g int, pos *uPos, o outcome) {
				defer wg.Done()
				target := reflect.New(pos.CT(t.RT))
				doc := pos.Doc([]string{`"in"`})
				<-start
				err := json.Unmarshal([]byte(doc), target.Interface())
				vals, ok := pos.Get(target.Elem())
				if err != nil || !ok || len(vals) != 1 || !contains(o.Accept, vals[0]) {
					errs[g] = fmt.Sprintf("goroutine %d pos %s: values=%q err=%v, model %+v", g, pos.Name, vals, err, o)
				}
			}(g, pos, o)
		}
		close(start)
		wg.Wait()
		st.mu.Lock()
		got := append([]string{}, st.trace...)
		st.mu.Unlock()
		if !sameStrings(sortedCopy(got), sortedCopy(wantAll)) {
			errs[0] += fmt.Sprintf(" all goroutines: trace multiset %v, model %v", sortedCopy(got), sortedCopy(wantAll))
		}
	}
	w.Eval(int64(a.G))
	w.Count("first_use_concurrent_calls", int64(a.G))
	for _, e := range errs {
		if e != "" {
			w.Violate("first-use-concurrent", map[string]string{"side": a.Side}, "type %s: %s", a.Type, e)
			return
		}
	}
}

func contains(a []string, s string) bool {
	for _, x := range a {
		if x == s {
			return true
		}
	}
	return false
}

// ---------------------------------------------------------------------------------
// the matrix

var coderBehM = []string{"one-obj", "one-val", "zero", "two", "partial", "partial-arr", "popbelow", "unsup-before", "unsup-after", "unsup-open-arr", "unsup-open-obj",
	"err-before", "err-mid", "err-after", "panic-before", "panic-mid", "reset", "nested-reset", "opts"}
var bytesBehM = []string{"ok-obj", "unsup", "err", "bad-syntax", "two", "empty", "panic"}
var textBehM = []string{"unsup", "err", "panic"}

var coderBehU = []string{"one-skip", "one-tok", "peek-one", "zero", "two", "partial", "popbelow", "unsup-before", "unsup-after", "unsup-open",
	"err-before", "err-after", "panic-before", "panic-mid", "reset", "nested-reset", "opts"}
var bytesBehU = []string{"unsup", "err", "panic"}

var mFuncKinds = []string{"vb", "vt", "pb", "pt", "ib", "it"}
var uFuncKinds = []string{"pb", "pt", "ib", "it"}

type cell struct {
	m  *mCell
	u  *uCell
	a  *anyCell
	ua *uAnyCell
}

// mScripts lists the method scripts of a marshal-side type: the base, every behaviour of the
// MarshalJSONTo method, and every behaviour of the next representation (reached directly or
// through the documented ErrUnsupported fall-through).
func mScripts(pres [4]int) []string {
	out := []string{""}
	prefix := ""
	if pres[0] != 0 {
		for _, b := range coderBehM {
			out = append(out, "To="+b)
		}
		prefix = "To=unsup-before,"
	}
	for i, name := range [3]string{"JSON", "Append", "Text"} {
		if pres[i+1] == 0 {
			continue
		}
		behs := textBehM
		if name == "JSON" {
			behs = bytesBehM
		}
		for _, b := range behs {
			out = append(out, prefix+name+"="+b)
		}
		break // later representations are never reached
	}
	return out
}

func uScripts(pres [3]int) []string {
	out := []string{""}
	prefix := ""
	if pres[0] != 0 {
		for _, b := range coderBehU {
			out = append(out, "From="+b)
		}
		prefix = "From=unsup-before,"
	}
	for i, name := range [2]string{"JSON", "Text"} {
		if pres[i+1] == 0 {
			continue
		}
		for _, b := range bytesBehU {
			out = append(out, prefix+name+"="+b)
		}
		break
	}
	return out
}

func pick[T any](r interface{ IntN(int) int }, a []T) T { return a[r.IntN(len(a))] }

// buildCells enumerates the matrix: a pure function of (tier, seed) — identical in every worker.
func buildCells(w *run.W) []cell {
	var cells []cell
	// (1) method matrix: every type x position x script; API and option set drawn per cell
	for _, t := range mTypes {
		for _, p := range mPositions {
			for _, s := range mScripts(t.Pres) {
				if p.N == 0 && s != "" && !strings.HasSuffix(s, "panic-before") && !strings.HasSuffix(s, "zero") {
					continue // nil pointers: no call whatever the script says; two scripts suffice
				}
				r := w.Rand("m", t.Name, p.Name, s)
				cells = append(cells, cell{m: &mCell{Type: t.Name, Pos: p.Name, Script: s, Opts: r.IntN(len(mOptSets)), API: pick(r, mAPIs)}})
			}
		}
	}
	for _, t := range uTypes {
		for _, p := range uPositions {
			for _, s := range uScripts(t.Pres) {
				if p.Null && s != "" && !strings.HasSuffix(s, "panic-before") && !strings.HasSuffix(s, "zero") {
					continue
				}
				ins := []string{"str"}
				if !p.Key && !p.Null {
					ins = []string{"str", "obj", "num"}
				}
				for _, in := range ins {
					if in == "num" && s != "" {
						continue
					}
					r := w.Rand("u", t.Name, p.Name, s, in)
					cells = append(cells, cell{u: &uCell{Type: t.Name, Pos: p.Name, Script: s, In: in, Opts: r.IntN(len(uOptSets)), API: pick(r, uAPIs)}})
				}
			}
		}
	}
	// (2) function lists: exhaustive lists of length <= 2 over the six applicable kinds, with the
	// coder-form entries either answering or falling through, for three representative types
	for _, tn := range []string{"M0000", "M2101", "M1212"} {
		t := mTypeByName(tn)
		var lists []string
		for _, a := range mFuncKinds {
			lists = append(lists, a)
			for _, b := range mFuncKinds {
				lists = append(lists, a+","+b)
			}
		}
		for li, l := range lists {
			for _, pn := range []string{"top-value", "top-pointer", "slice", "map-value", "map-key", "any", "any-ptr", "field-byval"} {
				fs := strings.Split(l, ",")
				var scripts []string
				scripts = append(scripts, "")
				if fs[0][1] == 't' {
					scripts = append(scripts, "f0=unsup-before")
					if len(fs) > 1 && fs[1][1] == 't' {
						scripts = append(scripts, "f0=unsup-before,f1=unsup-before", "f0=unsup-before,f1=unsup-before,To=unsup-before")
					}
				}
				for _, s := range scripts {
					r := w.Rand("mf2", tn, l, pn, s)
					desc := l
					if li%3 == 2 {
						desc += "/n"
					}
					cells = append(cells, cell{m: &mCell{Type: t.Name, Pos: pn, Script: s, Funcs: desc, Opts: r.IntN(len(mOptSets)), API: pick(r, mAPIs)}})
				}
			}
		}
	}
	for _, tn := range []string{"U000", "U210", "U122"} {
		t := uTypeByName(tn)
		var lists []string
		for _, a := range uFuncKinds {
			lists = append(lists, a)
			for _, b := range uFuncKinds {
				lists = append(lists, a+","+b)
			}
		}
		for li, l := range lists {
			for _, pn := range []string{"top", "ptr-top-nil", "slice", "map-value-new", "map-key", "any-val", "any-ptr", "field"} {
				fs := strings.Split(l, ",")
				scripts := []string{""}
				if fs[0][1] == 't' {
					scripts = append(scripts, "f0=unsup-before")
					if len(fs) > 1 && fs[1][1] == 't' {
						scripts = append(scripts, "f0=unsup-before,f1=unsup-before", "f0=unsup-before,f1=unsup-before,From=unsup-before")
					}
				}
				for _, s := range scripts {
					r := w.Rand("uf2", tn, l, pn, s)
					desc := l
					if li%3 == 2 {
						desc += "/n"
					}
					cells = append(cells, cell{u: &uCell{Type: t.Name, Pos: pn, Script: s, Funcs: desc, In: "str", Opts: r.IntN(len(uOptSets)), API: pick(r, uAPIs)}})
				}
			}
		}
	}
	// (2b) functions on the types of untyped JSON: every list x value, API drawn per cell
	for li := range anyLists {
		for vi := range anyValues {
			r := w.Rand("any", li, vi)
			cells = append(cells, cell{a: &anyCell{List: li, Val: vi, API: pick(r, mAPIs)}})
		}
	}
	for li := range uAnyLists {
		for ii := range uAnyInputs {
			for _, tgt := range []string{"any", "field", "slice"} {
				cells = append(cells, cell{ua: &uAnyCell{List: li, In: ii, Tgt: tgt}})
			}
		}
	}
	// (3) sampled function lists of 1-3 entries (decoys included) with random behaviours, all types x positions
	k := w.Pick(3, 40)
	for _, t := range mTypes {
		for _, p := range mPositions {
			for i := 0; i < k; i++ {
				r := w.Rand("mfr", t.Name, p.Name, i)
				n := 1 + r.IntN(3)
				var fs, sc []string
				for j := 0; j < n; j++ {
					kind := pick(r, []string{"vb", "vt", "vt", "pb", "pt", "pt", "ib", "it", "it", "nb", "nt"})
					fs = append(fs, kind)
					id := fmt.Sprintf("f%d", j)
					switch {
					case kind[0] == 'n':
					case kind[1] == 't':
						switch x := r.IntN(10); {
						case x < 5:
							sc = append(sc, id+"=unsup-before")
						case x < 8:
							sc = append(sc, id+"="+pick(r, coderBehM))
						}
					default:
						if r.IntN(4) == 0 {
							sc = append(sc, id+"="+pick(r, bytesBehM))
						}
					}
				}
				if t.Pres[0] != 0 && r.IntN(3) == 0 {
					sc = append(sc, "To="+pick(r, []string{"unsup-before", "unsup-before", "two", "zero", "popbelow", "one-obj"}))
				}
				desc := strings.Join(fs, ",")
				if r.IntN(4) == 0 {
					desc += "/n"
				}
				cells = append(cells, cell{m: &mCell{Type: t.Name, Pos: p.Name, Script: strings.Join(sc, ","), Funcs: desc, Opts: r.IntN(len(mOptSets)), API: pick(r, mAPIs)}})
			}
		}
	}
	for _, t := range uTypes {
		for _, p := range uPositions {
			for i := 0; i < k; i++ {
				r := w.Rand("ufr", t.Name, p.Name, i)
				n := 1 + r.IntN(3)
				var fs, sc []string
				for j := 0; j < n; j++ {
					kind := pick(r, []string{"pb", "pt", "pt", "ib", "it", "it", "nb", "nt"})
					fs = append(fs, kind)
					id := fmt.Sprintf("f%d", j)
					switch {
					case kind[0] == 'n':
					case kind[1] == 't':
						switch x := r.IntN(10); {
						case x < 5:
							sc = append(sc, id+"=unsup-before")
						case x < 8:
							sc = append(sc, id+"="+pick(r, coderBehU))
						}
					default:
						if r.IntN(4) == 0 {
							sc = append(sc, id+"="+pick(r, bytesBehU))
						}
					}
				}
				if t.Pres[0] != 0 && r.IntN(3) == 0 {
					sc = append(sc, "From="+pick(r, []string{"unsup-before", "unsup-before", "two", "zero", "popbelow", "one-tok"}))
				}
				desc := strings.Join(fs, ",")
				if r.IntN(4) == 0 {
					desc += "/n"
				}
				in := "str"
				if !p.Key && !p.Null && r.IntN(4) == 0 {
					in = "obj"
				}
				cells = append(cells, cell{u: &uCell{Type: t.Name, Pos: p.Name, Script: strings.Join(sc, ","), Funcs: desc, In: in, Opts: r.IntN(len(uOptSets)), API: pick(r, uAPIs)}})
			}
		}
	}
	return cells
}

func generate(w *run.W) {
	installYield()
	defer countHooks(w)
	cells := buildCells(w)
	passes := w.Pick(1, 2) // thorough: a second pass over warm caches in yet another order
	w.Count("matrix_cells_expected", int64(len(cells)*passes))

	first := func() {
		for _, t := range mTypes {
			w.Do("first", &firstArgs{Side: "m", Type: t.Name, G: 16})
		}
		for _, t := range uTypes {
			w.Do("first", &firstArgs{Side: "u", Type: t.Name, G: 16})
		}
	}
	// half of the workers meet every type for the first time concurrently, the others sequentially
	if w.Shard%2 == 0 {
		first()
	}
	for pass := 0; pass < passes; pass++ {
		// this worker's history: a permutation that depends on (seed, shard)
		r := w.Rand("order", w.Shard, pass)
		r.Shuffle(len(cells), func(i, j int) { cells[i], cells[j] = cells[j], cells[i] })
		for i, c := range cells {
			if c.ua != nil {
				c.ua.Ord, c.ua.Shard = pass*len(cells)+i, w.Shard
				w.Do("uany", c.ua)
			} else if c.a != nil {
				c.a.Ord, c.a.Shard = pass*len(cells)+i, w.Shard
				w.Do("any", c.a)
			} else if c.m != nil {
				c.m.Ord, c.m.Shard = pass*len(cells)+i, w.Shard
				w.Do("m", c.m)
			} else {
				c.u.Ord, c.u.Shard = pass*len(cells)+i, w.Shard
				w.Do("u", c.u)
			}
			w.Count("matrix_cells_run", 1)
		}
	}
	if w.Shard%2 == 1 {
		first()
	}
}

// ---------------------------------------------------------------------------------

var M = &run.Monitor{
	ID:    "C17",
	Level: "exploration",
	Rule: "matrix: 81 marshal-side declared types {absent,value,pointer receiver}^{MarshalerTo,Marshaler,TextAppender,TextMarshaler} x 22 positions " +
		"(top value/pointer, fields of addressable and by-value structs, slice/array elements, map keys/values, behind any, behind pointers, nil pointers) x every behaviour of the " +
		"first two applicable representations; 27 unmarshal-side types {absent,value,pointer}^{UnmarshalerFrom,Unmarshaler,TextUnmarshaler} x 16 positions x behaviours x input kinds; " +
		"functions on string/float64/bool/[]any/map[string]any applied to untyped values (8 lists x 8 values); caller function lists (on T, *T, interface; bytes and coder forms; decoys) exhaustive to length 2 for 3+3 types and sampled to length 3 for all; API route and option set drawn per cell. " +
		"Every worker runs the whole matrix in an order that depends on (seed, shard): 16 different cache histories. distinct = (type, position, script, function list[, input kind])",
	Assumptions: []string{
		"dispatch model transcribed from the Marshal/Unmarshal/MarshalerTo/UnmarshalerFrom/MarshalFunc/MarshalToFunc doc comments (cmd/c17/model.go)",
		"user scripts are strict: they return the first coder error; 'exactly one value' is decided by construction of the script, not by observing the library",
		"unset options read as their zero value through GetOption inside the call",
	},
	Floors: func(c map[string]int64, tier string) []string {
		var u []string
		need := func(k string, n int64) {
			if c[k] < n {
				u = append(u, fmt.Sprintf("%s=%d < %d", k, c[k], n))
			}
		}
		need("m_cells", 40000)
		need("u_cells", 15000)
		need("fallthrough_chains", 10000)
		need("errors_as_expected", 10000)
		need("ok_as_expected", 20000)
		need("nil_pointer_cells", 500)
		need("user_panics_propagated", 1000)
		need("reset_refused", 200)
		need("option_probes", 5000)
		need("first_use_concurrent_calls", 2000)
		need("err_popbelow", 300)
		need("any_cells_with_function_calls", 50)
		if c["matrix_cells_run"] != c["matrix_cells_expected"] {
			u = append(u, fmt.Sprintf("matrix_cells_run=%d != matrix_cells_expected=%d", c["matrix_cells_run"], c["matrix_cells_expected"]))
		}
		return u
	},
	SelfTest: selfTest,
}

// selfTest: the presence vectors the model works with must be what Go's method sets say
// (independent ground truth: reflect), and the position builders must produce the documents the
// model expects (ground truth: the toolchain's encoding/json on a method-free string type).
func selfTest() error {
	ifaces := []reflect.Type{reflect.TypeFor[json.MarshalerTo](), reflect.TypeFor[json.Marshaler](), reflect.TypeFor[encoding.TextAppender](), reflect.TypeFor[encoding.TextMarshaler]()}
	check := func(name string, rt reflect.Type, pres []int, ifs []reflect.Type) error {
		for i, it := range ifs {
			got := 0
			switch {
			case rt.Implements(it):
				got = 1
			case reflect.PointerTo(rt).Implements(it):
				got = 2
			}
			if got != pres[i] {
				return fmt.Errorf("type %s: interface %v: reflect says %d, generated table says %d", name, it, got, pres[i])
			}
		}
		return nil
	}
	if len(mTypes) != 81 || len(uTypes) != 27 {
		return fmt.Errorf("generated type tables have %d/%d entries", len(mTypes), len(uTypes))
	}
	for _, t := range mTypes {
		if err := check(t.Name, t.RT, t.Pres[:], ifaces); err != nil {
			return err
		}
	}
	uifaces := []reflect.Type{reflect.TypeFor[json.UnmarshalerFrom](), reflect.TypeFor[json.Unmarshaler](), reflect.TypeFor[encoding.TextUnmarshaler]()}
	for _, t := range uTypes {
		if err := check(t.Name, t.RT, t.Pres[:], uifaces); err != nil {
			return err
		}
	}
	type plain string
	pt := reflect.TypeFor[plain]()
	for _, p := range mPositions {
		vals := make([]reflect.Value, p.N)
		reprs := make([]string, p.N)
		for i := range vals {
			vals[i] = reflect.New(pt).Elem()
			vals[i].SetString(fmt.Sprintf("v%d", i))
			reprs[i] = fmt.Sprintf(`"v%d"`, i)
		}
		b, err := stdjson.Marshal(p.Build(pt, vals))
		if err != nil || string(b) != p.Doc(reprs) {
			return fmt.Errorf("marshal position %s: encoding/json gives %s (%v), the position's document is %s", p.Name, b, err, p.Doc(reprs))
		}
	}
	for _, p := range uPositions {
		if p.Name == "any-val" {
			continue // encoding/json replaces a non-pointer value held by an interface
		}
		vals := make([]string, p.N)
		for i := range vals {
			vals[i] = `"in"`
		}
		target := reflect.New(p.CT(pt))
		if p.Init != nil {
			pre := reflect.New(pt).Elem()
			pre.SetString("pre")
			p.Init(pt, target.Elem(), pre)
		}
		if err := stdjson.Unmarshal([]byte(p.Doc(vals)), target.Interface()); err != nil {
			return fmt.Errorf("unmarshal position %s: encoding/json: %v", p.Name, err)
		}
		got, ok := p.Get(target.Elem())
		if p.Null {
			if !ok {
				return fmt.Errorf("unmarshal position %s: pointer not nil after null", p.Name)
			}
			continue
		}
		if !ok || len(got) != p.N {
			return fmt.Errorf("unmarshal position %s: getter failed on %#v", p.Name, target.Elem().Interface())
		}
		for _, g := range got {
			if g != "in" {
				return fmt.Errorf("unmarshal position %s: getter returned %q", p.Name, g)
			}
		}
	}
	// spot checks of the model against the documentation's own examples of precedence
	if tr, o := mModel([4]int{2, 1, 0, 1}, []string{"vt", "nb", "pb"}, "f0=unsup-before,f2=unsup", "t", false); !sameStrings(tr, []string{"f0#t", "f2#t"}) || o.Kind != "error" {
		return fmt.Errorf("model self-check 1: %v %+v", tr, o)
	}
	if tr, o := mModel([4]int{2, 1, 0, 1}, nil, "To=unsup-before", "t", true); !sameStrings(tr, []string{"To#t", "JSON#t"}) || o.Repr != `"js#t"` {
		return fmt.Errorf("model self-check 2: %v %+v", tr, o)
	}
	if tr, o := uModel([3]int{0, 0, 2}, nil, "", "num", "", []string{""}); len(tr) != 0 || o.Kind != "error" {
		return fmt.Errorf("model self-check 3: %v %+v", tr, o)
	}
	return nil
}

func main() {
	run.Def(M, "m", runM)
	run.Def(M, "u", runU)
	run.Def(M, "first", runFirst)
	run.Def(M, "any", runAny)
	run.Def(M, "uany", runUAny)
	M.Gen = generate
	run.Main(M)
}

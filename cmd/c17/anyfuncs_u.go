// Unmarshal side of anyfuncs.go: caller functions declared on *string, *float64, *bool, *[]any,
// *map[string]any must be applied to the values the library creates for untyped (`any`)
// positions, whatever else stands in the list before them.
package main

import (
	"errors"
	"fmt"
	"reflect"
	"strings"

	json "github.com/go-json-experiment/json"
	"github.com/go-json-experiment/json/jsontext"

	"verif/ref"
	"verif/run"
)

type uAnyCell struct {
	List  int    `json:"list"`
	In    int    `json:"in"`
	Tgt   string `json:"tgt"` // any | field | slice
	Ord   int    `json:"ord"`
	Shard int    `json:"shard"`
}

type ufn struct {
	id   string
	typ  string // "string" | "float64" | "bool" | "decoy"
	skip bool
	mk   func(f *ufn) *json.Unmarshalers
}

func uStr(f *ufn) *json.Unmarshalers {
	return json.UnmarshalFunc(func(b []byte, v *string) error {
		rec(f.id)
		var s string
		if err := json.Unmarshal(b, &s); err != nil {
			return err
		}
		*v = "S:" + strings.ToUpper(s)
		return nil
	})
}

func uStrFromSkip(f *ufn) *json.Unmarshalers {
	return json.UnmarshalFromFunc(func(d *jsontext.Decoder, v *string) error { rec(f.id); return errors.ErrUnsupported })
}

func uNum(f *ufn) *json.Unmarshalers {
	return json.UnmarshalFromFunc(func(d *jsontext.Decoder, v *float64) error {
		rec(f.id)
		tok, err := d.ReadToken()
		if err != nil {
			return err
		}
		f, err := tok.Float()
		*v = f + 1000
		return err
	})
}

func uBool(f *ufn) *json.Unmarshalers {
	return json.UnmarshalFunc(func(b []byte, v *bool) error { rec(f.id); *v = string(b) != "true"; return nil })
}

func uDecoy(f *ufn) *json.Unmarshalers {
	return json.UnmarshalFunc(func(b []byte, v *decoyT) error { rec(f.id); return nil })
}

func uDecoyFrom(f *ufn) *json.Unmarshalers {
	return json.UnmarshalFromFunc(func(d *jsontext.Decoder, v *decoyT) error { rec(f.id); return d.SkipValue() })
}

var uAnyLists = [][]*ufn{
	{{id: "s", typ: "string", mk: uStr}},
	{{id: "n", typ: "float64", mk: uNum}, {id: "b", typ: "bool", mk: uBool}},
	{{id: "s-skip", typ: "string", skip: true, mk: uStrFromSkip}, {id: "s", typ: "string", mk: uStr}},
	{{id: "decoy", typ: "decoy", mk: uDecoy}, {id: "s", typ: "string", mk: uStr}},
	{{id: "decoy", typ: "decoy", mk: uDecoy}, {id: "n", typ: "float64", mk: uNum}, {id: "b", typ: "bool", mk: uBool}},
	{{id: "decoy-f", typ: "decoy", mk: uDecoyFrom}, {id: "s-skip", typ: "string", skip: true, mk: uStrFromSkip}, {id: "s", typ: "string", mk: uStr}, {id: "n", typ: "float64", mk: uNum}},
	{{id: "decoy", typ: "decoy", mk: uDecoy}},
}

var uAnyUnmarshalers = func() []*json.Unmarshalers {
	out := make([]*json.Unmarshalers, len(uAnyLists))
	for i, l := range uAnyLists {
		var us []*json.Unmarshalers
		for _, f := range l {
			us = append(us, f.mk(f))
		}
		if i%2 == 1 && len(us) > 1 {
			out[i] = json.JoinUnmarshalers(us[0], json.JoinUnmarshalers(us[1:]...))
		} else {
			out[i] = json.JoinUnmarshalers(us...)
		}
	}
	return out
}()

// inputs without objects (member names are strings too; kept out of this matrix)
var uAnyInputs = []string{`"x"`, `1.5`, `true`, `["y",2,false,null]`, `[["z"],[3.25,"w"]]`, `[]`, `null`}

// uAnyModel computes the value an untyped position must hold and the functions called, in document order.
func uAnyModel(n *ref.Node, list []*ufn, tr *[]string) any {
	apply := func(typ string) bool {
		for _, f := range list {
			if f.typ != typ {
				continue
			}
			*tr = append(*tr, f.id)
			if !f.skip {
				return true
			}
		}
		return false
	}
	switch n.Kind {
	case ref.Null:
		return nil
	case ref.String:
		if apply("string") {
			return "S:" + strings.ToUpper(n.S)
		}
		return n.S
	case ref.Number:
		f, _ := ref.Float(n.Raw, 64)
		if apply("float64") {
			return f + 1000
		}
		return f
	case ref.Bool:
		b := n.B
		if apply("bool") {
			return !b
		}
		return b
	case ref.Array:
		out := make([]any, 0, len(n.Elems))
		for _, e := range n.Elems {
			out = append(out, uAnyModel(e, list, tr))
		}
		return out
	}
	panic("uAnyModel: objects are not part of this matrix")
}

func runUAny(w *run.W, c *uAnyCell) {
	if c.List >= len(uAnyLists) || c.In >= len(uAnyInputs) {
		w.Broken("bad unmarshal-any cell %+v", c)
		return
	}
	in := uAnyInputs[c.In]
	node := ref.Parse([]byte(in), ref.Opts{})
	var wantTrace []string
	want := uAnyModel(node, uAnyLists[c.List], &wantTrace)
	resetRecording()
	wantOpts, skipOpts = nil, nil
	var got any
	var err error
	opt := json.WithUnmarshalers(uAnyUnmarshalers[c.List])
	user, aborted := callUser(w, func() {
		switch c.Tgt {
		case "field":
			var s struct{ F any }
			err = json.Unmarshal([]byte(`{"F":`+in+`}`), &s, opt)
			got = s.F
		case "slice":
			var s []any
			err = json.Unmarshal([]byte(`[`+in+`]`), &s, opt)
			if len(s) == 1 {
				got = s[0]
			} else {
				got = fmt.Sprintf("<%d elements>", len(s))
			}
		default:
			err = json.Unmarshal([]byte(in), &got, opt)
		}
	})
	w.Eval(1)
	if aborted || user {
		return
	}
	w.Count("unmarshal_any_cells", 1)
	w.Shape(fmt.Sprintf("uany|%d|%d|%s", c.List, c.In, c.Tgt))
	st.mu.Lock()
	trace := append([]string{}, st.trace...)
	st.mu.Unlock()
	where := fmt.Sprintf("case %+v input %s (history: shard %d, ordinal %d)", *c, in, c.Shard, c.Ord)
	sig := map[string]string{"side": "unmarshal", "pos": "untyped-any", "list": fmt.Sprint(c.List)}
	if err != nil {
		w.Violate("dispatch-outcome", sig, "error %v, expected %#v; %s", err, want, where)
		return
	}
	if !sameStrings(trace, wantTrace) {
		w.Violate("dispatch-trace", sig, "functions called %v, the documented dispatch on the types of untyped values gives %v; got %#v; %s", trace, wantTrace, got, where)
		return
	}
	if !reflect.DeepEqual(got, want) {
		w.Violate("dispatch-value", sig, "decoded %#v, expected %#v; %s", got, want, where)
		return
	}
	if len(wantTrace) > 0 {
		w.Count("unmarshal_any_cells_with_function_calls", 1)
	}
}

var _ = run.Trunc

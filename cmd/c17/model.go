// The dispatch model: a direct transcription of the rules in the Marshal/Unmarshal doc comments.
// It never looks at the library; it is order-independent by construction (a pure function of the
// case), which is what makes the shuffled-order runs a history-independence check.
package main

import "strings"

type outcome struct {
	Kind string // "ok" | "error" | "panic"
	Repr string // marshal, ok: the JSON text that represents the value
	// unmarshal, ok: acceptable final values of the destination
	Accept []string
	Stop   string // callee whose behaviour ended the chain ("default" for the default representation)
	Beh    string // its behaviour
	Form   string // "coder" | "bytes" | "text" | "default"
}

type candidate struct {
	Callee string
	Form   string // coder | bytes | text
	Ptr    bool   // can mutate the destination (unmarshal side)
}

// funcCandidates lists the applicable caller functions of a list descriptor in list order.
// Functions on T, on *T and on an interface implemented by *T all apply to a value of type T;
// functions on unrelated types ("n?") never do.
func funcCandidates(funcs []string) (cs []candidate) {
	for i, d := range funcs {
		if d[0] == 'n' {
			continue
		}
		form := "bytes"
		if d[1] == 't' {
			form = "coder"
		}
		cs = append(cs, candidate{Callee: "f" + string(rune('0'+i)), Form: form, Ptr: true})
	}
	return cs
}

func splitFuncs(desc string) []string {
	desc = strings.TrimSuffix(desc, "/n")
	if desc == "" {
		return nil
	}
	return strings.Split(desc, ",")
}

// mModel predicts the call trace and the outcome of marshaling ONE value of the type.
// key: the value is in member-name position (its representation must be a JSON string).
func mModel(pres [4]int, funcs []string, script, tag string, key bool) (trace []string, o outcome) {
	cs := funcCandidates(funcs)
	for i, name := range [4]string{"To", "JSON", "Append", "Text"} {
		if pres[i] != 0 {
			form := [4]string{"coder", "bytes", "text", "text"}[i]
			cs = append(cs, candidate{Callee: name, Form: form})
		}
	}
	for _, c := range cs {
		trace = append(trace, c.Callee+"#"+tag)
		str := `"` + reprName(c.Callee) + "#" + tag + `"`
		o = outcome{Stop: c.Callee, Form: c.Form}
		switch c.Form {
		case "coder":
			o.Beh = behaviourOf(script, c.Callee, "one-str")
			switch o.Beh {
			case "unsup-before":
				continue // the only documented fall-through
			case "one-str", "reset", "opts":
				o.Kind, o.Repr = "ok", str
			case "one-obj":
				o.Kind, o.Repr = "ok", `{"k":`+str+`}`
			case "one-val":
				o.Kind, o.Repr = "ok", `[`+str+`,1]`
			case "nested-reset":
				o.Kind, o.Repr = "ok", `["inner",`+str+`]`
			case "panic-before":
				o.Kind = "panic"
			case "panic-mid":
				o.Kind = "panic"
				if key {
					o.Kind = "error" // the script's BeginArray is refused in name position and it returns that error
				}
			default: // zero two partial partial-arr popbelow unsup-after err-before err-mid err-after
				o.Kind = "error"
			}
		case "bytes":
			o.Beh = behaviourOf(script, c.Callee, "ok")
			switch o.Beh {
			case "ok":
				o.Kind, o.Repr = "ok", str
			case "ok-obj":
				o.Kind, o.Repr = "ok", `{"k":`+str+`}`
			case "panic":
				o.Kind = "panic"
			default: // unsup err bad-syntax two empty
				o.Kind = "error"
			}
		case "text":
			o.Beh = behaviourOf(script, c.Callee, "ok")
			switch o.Beh {
			case "ok":
				o.Kind, o.Repr = "ok", str
			case "panic":
				o.Kind = "panic"
			default:
				o.Kind = "error"
			}
		}
		if o.Kind == "ok" && key && !strings.HasPrefix(o.Repr, `"`) {
			o.Kind = "error" // a member name must be a JSON string
		}
		return trace, o
	}
	// default representation of a string kind: the JSON string of the value
	return trace, outcome{Kind: "ok", Repr: `"` + script + "#" + tag + `"`, Stop: "default", Form: "default", Beh: "default"}
}

// uModel predicts trace and outcome of unmarshaling ONE JSON value into the type.
// inKind: "str" (content inStr), "obj", "num".  prev: acceptable values of the destination if
// the winning callee cannot mutate it (value receiver).
func uModel(pres [3]int, funcs []string, script, inKind, inStr string, prev []string) (trace []string, o outcome) {
	cs := funcCandidates(funcs)
	for i, name := range [3]string{"From", "JSON", "Text"} {
		if pres[i] != 0 {
			form := [3]string{"coder", "bytes", "text"}[i]
			cs = append(cs, candidate{Callee: name, Form: form, Ptr: pres[i] == 2})
		}
	}
	for _, c := range cs {
		if c.Form == "text" && inKind != "str" {
			// "This fails with a SemanticError if the input is not a JSON string": no call
			return trace, outcome{Kind: "error", Stop: c.Callee, Form: "text", Beh: "non-string-input"}
		}
		trace = append(trace, c.Callee)
		o = outcome{Stop: c.Callee, Form: c.Form}
		accept := prev
		if c.Ptr {
			accept = []string{"set:" + c.Callee}
		}
		switch c.Form {
		case "coder":
			o.Beh = behaviourOf(script, c.Callee, "one-val")
			switch o.Beh {
			case "unsup-before":
				continue
			case "one-val", "one-skip", "one-tok", "peek-one", "reset", "nested-reset", "opts":
				o.Kind, o.Accept = "ok", accept
			case "partial":
				if inKind == "obj" {
					o.Kind = "error"
				} else {
					o.Kind, o.Accept = "ok", accept // one token of a scalar is the whole value
				}
			case "panic-before", "panic-mid":
				o.Kind = "panic"
			default: // zero two popbelow unsup-after err-before err-after
				o.Kind = "error"
			}
		default: // bytes, text
			o.Beh = behaviourOf(script, c.Callee, "ok")
			switch o.Beh {
			case "ok":
				o.Kind, o.Accept = "ok", accept
			case "panic":
				o.Kind = "panic"
			default:
				o.Kind = "error"
			}
		}
		return trace, o
	}
	if inKind != "str" {
		return trace, outcome{Kind: "error", Stop: "default", Form: "default", Beh: "non-string-input"}
	}
	return trace, outcome{Kind: "ok", Accept: []string{inStr}, Stop: "default", Form: "default", Beh: "default"}
}

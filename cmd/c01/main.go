// C01 — jsontext accepts exactly the JSON grammar (RFC 8259 / RFC 7493) on every entry
// point and under every combination of AllowInvalidUTF8 / AllowDuplicateNames.
package main

import (
	"bytes"
	stdjson "encoding/json"
	"errors"
	"fmt"
	"hash/fnv"
	"io"
	"strings"

	json "github.com/go-json-experiment/json"
	"github.com/go-json-experiment/json/jsontext"

	"verif/gen"
	"verif/ref"
	"verif/run"
)

var byteAlphabet = []byte(`{}[]:,"\u0Ce-+. 19` + "\n\x00\xff\xc3\xa9" + `ntrflsadD8`)

var fragAlphabet = []string{
	"{", "}", "[", "]", ":", ",", `"a"`, `"a"`, `"b"`, "1", "-", "0", ".5", "e1", "null", "tru", "true", " ", "\n",
	`"\ud800"`, `"\ud83d\uDE00"`, `"😀"`, "\"\xff\"", `"\uD83D`, `\uDE00"`, `"`, `\`, "false", "9", "E+", `""`,
}

type cfgT struct{ inv, dup bool }

var cfgs = [4]cfgT{{false, false}, {true, false}, {false, true}, {true, true}}

func (c cfgT) opts() []jsontext.Options {
	return []jsontext.Options{jsontext.AllowInvalidUTF8(c.inv), jsontext.AllowDuplicateNames(c.dup)}
}
func (c cfgT) ref() ref.Opts { return ref.Opts{AllowInvalidUTF8: c.inv, AllowDup: c.dup} }
func (c cfgT) String() string {
	return fmt.Sprintf("inv=%v,dup=%v", c.inv, c.dup)
}

type textArgs struct {
	Text []byte `json:"text"`
	Note string `json:"note,omitempty"`
}

type blockArgs struct {
	Alphabet string `json:"alphabet"` // "bytes" | "frags"
	Prefix   []int  `json:"prefix"`   // symbol indexes
	MaxLen   int    `json:"max_len"`  // in symbols
}

type towerArgs struct {
	Depth int    `json:"depth"`
	Mix   string `json:"mix"` // "arr" | "obj" | "alt" | "alt2"
	Close bool   `json:"close"`
	Inner string `json:"inner,omitempty"` // innermost: "" = null scalar | "eobj" {} | "earr" [] | "eobj-ws" { } | "earr-ws" [ \n] | "str": the innermost container counts towards Depth
}

type nsArgs struct {
	Members int    `json:"members"`
	NameLen int    `json:"name_len"`
	DupAt   int    `json:"dup_at"`   // index of the member that is duplicated
	InsAt   int    `json:"ins_at"`   // position where the duplicate is inserted
	Spell   string `json:"spell"`    // "same" | "escaped" | "invalid"
	Nested  bool   `json:"nested"`
}

// checkText runs one text through every configuration and entry point.
// It returns whether the text was valid under the strict config and whether the four
// configurations disagreed (for evidence).
func checkText(w *run.W, b []byte, shape bool) {
	var verdicts [4]bool
	var toks0 []ref.Tok
	for ci, c := range cfgs {
		ro := c.ref()
		opts := c.opts()
		node := ref.Parse(b, ro)
		want := node != nil
		verdicts[ci] = want
		w.Eval(1)

		// (1) Value.IsValid
		if got := jsontext.Value(b).IsValid(opts...); got != want {
			w.Violate("isvalid-iff", map[string]string{"cfg": c.String(), "want": fmt.Sprint(want)},
				"Value(%q).IsValid(%s) = %v, reference says %v", b, c, got, want)
		}

		// stream oracle
		toks, errOff, complete := ref.Tokenize(b, ro)
		if ci == 0 {
			toks0 = toks
		}
		streamOK := errOff < 0 && complete
		nvals := 0
		for _, t := range toks {
			if t.Depth == 0 && t.ValueStart >= 0 {
				nvals++
			}
		}
		// cross-check of the two reference components (oracle self-consistency)
		if want != (streamOK && nvals == 1) {
			w.Broken("reference parser and tokenizer disagree on %q cfg=%s: parse=%v stream=%v n=%d", b, c, want, streamOK, nvals)
		}

		// (2) Decoder by values and (3) by tokens: once with the whole text available at once and
		// once through a reader that cuts it (accept/reject must not depend on how the bytes arrive:
		// the resumable scanners only run when a token straddles the end of the buffered data)
		cut := 1 // one byte per Read
		if len(b) > 48 {
			cut = 1 + int(fnvSum(b)%uint64(len(b)-1)) // two chunks, cut position from the text itself
		}
		for ri, mk := range []func() io.Reader{
			func() io.Reader { return bytes.NewReader(b) },
			func() io.Reader { return &cutReader{b: b, first: cut, rest: cut} },
		} {
			if ri == 1 && len(b) < 2 {
				break
			}
			rname := [2]string{"whole", "cut"}[ri]
			d := jsontext.NewDecoder(mk(), opts...)
			n := 0
			var err error
			for {
				var v jsontext.Value
				v, err = d.ReadValue()
				if err != nil {
					break
				}
				_ = v
				n++
				if n > len(b)+1 {
					w.Violate("readvalue-no-progress", map[string]string{"cfg": c.String()}, "ReadValue returned more values than bytes on %q", b)
					break
				}
			}
			if (err == io.EOF) != streamOK || n != nvals {
				w.Violate("readvalue-stream", map[string]string{"cfg": c.String(), "reader": rname, "want_eof": fmt.Sprint(streamOK), "got_eof": fmt.Sprint(err == io.EOF)},
					"ReadValue loop on %q (%s, reader %s cut %d): %d values then %v; reference: %d values, stream valid=%v", b, c, rname, cut, n, err, nvals, streamOK)
			}

			d = jsontext.NewDecoder(mk(), opts...)
			nt := 0
			kindsOK := true
			for {
				var t jsontext.Token
				t, err = d.ReadToken()
				if err != nil {
					break
				}
				if nt < len(toks) && !kindMatches(t.Kind(), toks[nt].Kind) {
					kindsOK = false
				}
				nt++
				if nt > len(b)+1 {
					w.Violate("readtoken-no-progress", map[string]string{"cfg": c.String()}, "ReadToken returned more tokens than bytes on %q", b)
					break
				}
			}
			if (err == io.EOF) != streamOK || nt != len(toks) || !kindsOK {
				w.Violate("readtoken-stream", map[string]string{"cfg": c.String(), "reader": rname, "want_eof": fmt.Sprint(streamOK), "got_eof": fmt.Sprint(err == io.EOF)},
					"ReadToken loop on %q (%s, reader %s cut %d): %d tokens then %v (depth %d); reference: %d tokens, stream valid=%v", b, c, rname, cut, nt, err, d.StackDepth(), len(toks), streamOK)
			}
			w.Count("decoder_passes_"+rname, 2)

			// (3b) mixed: at every position where a value may start, the text itself decides (hash bit) whether
			// it is read as a whole (ReadValue / SkipValue) or entered by tokens: verdict must be the reference's
			for pat := 0; ri == 0 && len(b) >= 4 && pat < 3; pat++ {
				d = jsontext.NewDecoder(mk(), opts...)
				h := [3]uint64{fnvSum(b), ^fnvSum(b), 0x5555555555555555}[pat] // (the third: every container by ReadValue)
				steps := 0
				for err = nil; err == nil && steps <= 2*len(b)+2; steps++ {
					k := d.PeekKind()
					bit := (h >> (uint(steps) % 61)) & 3
					switch {
					case (k == '{' || k == '[') && bit == 1:
						_, err = d.ReadValue()
					case (k == '{' || k == '[') && bit == 2:
						err = d.SkipValue()
					default:
						_, err = d.ReadToken()
					}
				}
				if (err == io.EOF) != streamOK {
					w.Violate("mixed-read-stream", map[string]string{"cfg": c.String(), "want_eof": fmt.Sprint(streamOK), "got_eof": fmt.Sprint(err == io.EOF)},
						"reading %q (%s) with ReadToken/ReadValue/SkipValue mixed (pattern %#x) ended with %v after %d calls (depth %d); reference: stream valid=%v", b, c, h, err, steps, d.StackDepth(), streamOK)
				}
				w.Count("decoder_passes_mixed", 1)
			}
		}

		// (4) Unmarshal into any: a syntactic error iff the grammar rejects the text.
		// A grammar-valid text may still fail semantically in exactly two documented ways:
		// a number outside float64, or (only with AllowDuplicateNames) a duplicate member
		// that is merged into an existing value of another kind.
		var v any
		uerr := json.Unmarshal(b, &v, opts[0], opts[1])
		var synErr *jsontext.SyntacticError
		isSyn := errors.As(uerr, &synErr)
		switch {
		case !want:
			if uerr == nil {
				w.Violate("unmarshal-iff", map[string]string{"cfg": c.String(), "want": "false"},
					"Unmarshal(%q, &any, %s) succeeded, reference says the text is invalid", b, c)
			}
		case uerr == nil:
		case isSyn:
			w.Violate("unmarshal-iff", map[string]string{"cfg": c.String(), "want": "true"},
				"Unmarshal(%q, &any, %s) reports a syntactic error %v on a grammar-valid text", b, c, uerr)
		default:
			_, over := ref.ToAny(node)
			if !over && !(c.dup && ref.HasDuplicate(node)) {
				w.Violate("unmarshal-iff", map[string]string{"cfg": c.String(), "want": "true"},
					"Unmarshal(%q, &any, %s) err=%v on a valid text without float64 overflow or merged duplicates", b, c, uerr)
			}
		}
		if want {
			w.Count("accept", 1)
		} else {
			w.Count("reject", 1)
		}
	}
	if verdicts[0] != verdicts[1] || verdicts[0] != verdicts[2] || verdicts[0] != verdicts[3] {
		w.Count("config_sensitive_texts", 1)
	}
	if shape {
		h := fnv.New64a()
		for _, t := range toks0 {
			h.Write([]byte{t.Kind})
		}
		for _, v := range verdicts {
			if v {
				h.Write([]byte{1})
			} else {
				h.Write([]byte{0})
			}
		}
		w.ShapeHash(h.Sum64())
	}
}

// cutReader hands out b in a first chunk of `first` bytes and then chunks of `rest` bytes.
type cutReader struct {
	b           []byte
	first, rest int
	started     bool
}

func (r *cutReader) Read(p []byte) (int, error) {
	if len(r.b) == 0 {
		return 0, io.EOF
	}
	n := r.rest
	if !r.started {
		n, r.started = r.first, true
	}
	n = min(n, len(p), len(r.b))
	copy(p, r.b[:n])
	r.b = r.b[n:]
	return n, nil
}

func fnvSum(b []byte) uint64 {
	h := fnv.New64a()
	h.Write(b)
	return h.Sum64()
}

func kindMatches(k jsontext.Kind, r byte) bool {
	return byte(k) == r
}

func tower(a *towerArgs) []byte {
	var open, cl []byte
	for i := 0; i < a.Depth; i++ {
		obj := false
		switch a.Mix {
		case "obj":
			obj = true
		case "alt":
			obj = i%2 == 0
		case "alt2":
			obj = i%3 == 1
		}
		if obj {
			open = append(open, `{"a":`...)
			cl = append(cl, '}')
		} else {
			open = append(open, '[')
			cl = append(cl, ']')
		}
	}
	// innermost value: a scalar, or an empty container that is itself the Depth-th level
	inner := "null"
	if a.Inner != "" && a.Inner != "str" && len(open) > 0 {
		// drop the last generated level; the empty container takes its place
		last := cl[len(cl)-1]
		cl = cl[:len(cl)-1]
		if last == '}' {
			open = open[:len(open)-len(`{"a":`)]
		} else {
			open = open[:len(open)-1]
		}
		inner = map[string]string{"eobj": "{}", "earr": "[]", "eobj-ws": "{ }", "earr-ws": "[ \n]"}[a.Inner]
	}
	if a.Inner == "str" {
		inner = `"s"`
	}
	out := append(open, inner...)
	if a.Close {
		for i := len(cl) - 1; i >= 0; i-- {
			out = append(out, cl[i])
		}
	}
	return out
}

// sibArgs: an object whose names total more than the namespace's linear-search limits, followed by
// sibling objects at the same depth that use some of the same names again (valid) or twice (invalid).
type sibArgs struct {
	Members int    `json:"members"`
	NameLen int    `json:"name_len"`
	Reuse   int    `json:"reuse"`
	Layout  string `json:"layout"` // "array" | "stream" | "members" | "nested"
	Dup     bool   `json:"dup"`    // the later sibling carries the reused name twice
}

func sibText(a *sibArgs) []byte {
	var big strings.Builder
	big.WriteByte('{')
	names := make([]string, a.Members)
	for i := range names {
		names[i] = strings.Repeat("n", max(0, a.NameLen-5)) + fmt.Sprintf("%05d", i)
		if i > 0 {
			big.WriteByte(',')
		}
		fmt.Fprintf(&big, "%q:%d", names[i], i)
	}
	big.WriteByte('}')
	re := names[a.Reuse%len(names)]
	small := fmt.Sprintf("{%q:1,\"other\":2}", re)
	if a.Dup {
		small = fmt.Sprintf("{%q:1,\"other\":2,%q:3}", re, re)
	}
	b := big.String()
	switch a.Layout {
	case "stream":
		return []byte(b + " " + small + "\n" + small + b)
	case "members":
		return []byte(`{"x":` + b + `,"y":` + small + `,"z":` + small + `,"w":` + b + `}`)
	case "nested":
		return []byte(`[[` + b + `],[` + small + `],{"k":[` + small + `]}]`)
	}
	return []byte("[" + b + "," + small + "," + small + "," + b + "]")
}

func nsText(a *nsArgs) []byte {
	names := make([]string, a.Members)
	for i := range names {
		pad := strings.Repeat("n", max(0, a.NameLen-4))
		names[i] = fmt.Sprintf("%s%04d", pad, i)
	}
	dup := names[a.DupAt%len(names)]
	var dupLit string
	switch a.Spell {
	case "same":
		dupLit = `"` + dup + `"`
	case "escaped":
		// re-escape the first character
		dupLit = fmt.Sprintf(`"\u%04x%s"`, dup[0], dup[1:])
	case "invalid":
		// only a duplicate under AllowInvalidUTF8: \xff and \xfe both become U+FFFD
		names[a.DupAt%len(names)] = "\xff" + dup
		dupLit = "\"\xfe" + dup + `"`
	}
	var sb strings.Builder
	sb.WriteString("{")
	first := true
	for i := 0; i <= len(names); i++ {
		if i == a.InsAt {
			if !first {
				sb.WriteString(",")
			}
			first = false
			sb.WriteString(dupLit + ":0")
		}
		if i < len(names) {
			if !first {
				sb.WriteString(",")
			}
			first = false
			sb.WriteString(`"` + names[i] + `":` + fmt.Sprint(i))
		}
	}
	sb.WriteString("}")
	if a.Nested {
		return []byte(`[{"x":` + sb.String() + `}]`)
	}
	return []byte(sb.String())
}

func enumerate(w *run.W, a *blockArgs) {
	var syms [][]byte
	if a.Alphabet == "bytes" {
		for _, c := range byteAlphabet {
			syms = append(syms, []byte{c})
		}
	} else {
		for _, f := range fragAlphabet {
			syms = append(syms, []byte(f))
		}
	}
	var buf []byte
	for _, p := range a.Prefix {
		buf = append(buf, syms[p]...)
	}
	n := int64(0)
	var rec func(buf []byte, depth int)
	rec = func(buf []byte, depth int) {
		checkText(w, buf, true)
		n++
		if n%50000 == 0 {
			w.Beat()
		}
		if depth == a.MaxLen {
			return
		}
		l := len(buf)
		for _, s := range syms {
			rec(append(buf[:l:l], s...), depth+1)
		}
	}
	rec(buf, len(a.Prefix))
	w.Count("exhaustive_strings_"+a.Alphabet, n)
}

var M = &run.Monitor{
	ID:    "C01",
	Level: "exploration",
	Rule: "texts: (a) every string over a 33-byte JSON-critical alphabet and over a 30-fragment lexical alphabet up to a length bound (exhaustive), " +
		"(b) grammar-generated texts with 0-3 byte mutations, (c) targeted families: duplicate names around the 64-name/1KiB namespace switch, depth towers 9998-10002, " +
		"number strings, UTF-8 boundary sequences, \\u escape pair classes, value concatenations; each text is decided under all 4 option configurations by 4 entry points. " +
		"distinct = token-kind skeleton of the text x the 4 reference verdicts",
	Assumptions: []string{
		"the reference recognizer/tokenizer in /verif/ref (written from RFC 8259/7493, self-tested against the toolchain's encoding/json on the RFC 8259 fragment)",
		"depth limit 10000 and 'Unmarshal into any additionally fails on float64 overflow' are taken from the property text and package docs",
	},
	Floors: func(c map[string]int64, tier string) []string {
		var u []string
		need := func(k string, n int64) {
			if c[k] < n {
				u = append(u, fmt.Sprintf("%s=%d < %d", k, c[k], n))
			}
		}
		need("accept", 10000)
		need("reject", 10000)
		need("config_sensitive_texts", 1000)
		need("towers", 8)
		need("namespace_family", 100)
		return u
	},
	SelfTest: selfTest,
}

func selfTest() error {
	// the reference must agree with the toolchain's classic encoding/json on the RFC 8259
	// fragment (no duplicate/UTF-8 strictness: classic accepts both, so compare the permissive config)
	r := run.SelfRand(1)
	cfg := &gen.TextCfg{MaxDepth: 4, MaxWidth: 4, Invalid: true, WS: true, DupPercent: 10}
	for i := 0; i < 20000; i++ {
		b := gen.Value(r, cfg)
		for k := r.IntN(3); k > 0; k-- {
			b = gen.Mutate(r, b)
		}
		want := stdjson.Valid(b)
		got := ref.Parse(b, ref.Opts{AllowInvalidUTF8: true, AllowDup: true}) != nil
		if want != got {
			// classic accepts invalid UTF-8 but rejects nothing the RFC grammar allows;
			// the one known difference: classic limits depth too (10000), same bound.
			return fmt.Errorf("reference disagrees with encoding/json.Valid on %q: ref=%v classic=%v", b, got, want)
		}
	}
	return nil
}

func main() {
	run.Def(M, "text", func(w *run.W, a *textArgs) { checkText(w, a.Text, true) })
	run.Def(M, "block", enumerate)
	run.Def(M, "siblings", func(w *run.W, a *sibArgs) {
		checkText(w, sibText(a), true)
		w.Count("sibling_texts", 1)
	})
	run.Def(M, "tower", func(w *run.W, a *towerArgs) {
		checkText(w, tower(a), true)
		w.Count("towers", 1)
	})
	run.Def(M, "namespace", func(w *run.W, a *nsArgs) {
		checkText(w, nsText(a), true)
		w.Count("namespace_family", 1)
	})
	M.Gen = generate
	run.Main(M)
}

func generate(w *run.W) {
	// (a) exhaustive blocks, partitioned by 2-symbol prefixes
	bi := 0
	for _, alpha := range []struct {
		name string
		n    int
		max  int
	}{{"bytes", len(byteAlphabet), w.Pick(4, 5)}, {"frags", len(fragAlphabet), w.Pick(4, 5)}} {
		// short strings (length 0 and 1) once
		if w.Shard == 0 {
			w.Do("block", &blockArgs{Alphabet: alpha.name, Prefix: nil, MaxLen: 1})
		}
		for i := 0; i < alpha.n; i++ {
			for j := 0; j < alpha.n; j++ {
				bi++
				if w.Mine(bi) {
					w.Do("block", &blockArgs{Alphabet: alpha.name, Prefix: []int{i, j}, MaxLen: alpha.max})
				}
			}
		}
	}

	// (b) generated + mutated texts
	nb := w.Pick(400, 4000)
	for batch := 0; batch < nb; batch++ {
		if !w.Mine(batch) {
			continue
		}
		r := w.Rand("gen", batch)
		cfg := &gen.TextCfg{MaxDepth: 1 + r.IntN(5), MaxWidth: 1 + r.IntN(6), Invalid: r.IntN(3) == 0, WS: r.IntN(2) == 0, DupPercent: r.IntN(30)}
		for k := 0; k < 100; k++ {
			b := gen.Value(r, cfg)
			for m := r.IntN(4); m > 0; m-- {
				b = gen.Mutate(r, b)
			}
			if r.IntN(6) == 0 {
				// stream of several values
				b = append(b, [...]string{"", " ", "\n"}[r.IntN(3)]...)
				b = append(b, gen.Value(r, cfg)...)
			}
			w.Do("text", &textArgs{Text: b})
			if w.WantSample() {
				w.Sample(map[string]any{"exec": "text", "text": string(b)})
			}
		}
	}

	// (c) targeted families
	ci := 0
	mine := func() bool { ci++; return w.Mine(ci) }
	for _, mix := range []string{"arr", "obj", "alt", "alt2"} {
		for _, d := range []int{9998, 9999, 10000, 10001, 10002} {
			for _, cl := range []bool{true, false} {
				if mine() {
					w.Do("tower", &towerArgs{Depth: d, Mix: mix, Close: cl})
				}
			}
			// the innermost level is an EMPTY container (the value paths have early returns for those)
			for _, inner := range []string{"eobj", "earr", "eobj-ws", "earr-ws", "str"} {
				if mine() {
					w.Do("tower", &towerArgs{Depth: d, Mix: mix, Close: true, Inner: inner})
				}
			}
		}
	}
	for _, sh := range [][2]int{{3, 600}, {5, 250}, {10, 120}, {40, 30}, {64, 17}, {65, 8}, {70, 5}, {130, 5}, {2, 5}} {
		for _, reuse := range []int{0, sh[0] / 2, sh[0] - 1} {
			for _, layout := range []string{"array", "stream", "members", "nested"} {
				for _, dup := range []bool{false, true} {
					if mine() {
						w.Do("siblings", &sibArgs{Members: sh[0], NameLen: sh[1], Reuse: reuse, Layout: layout, Dup: dup})
					}
				}
			}
		}
	}
	for _, members := range []int{2, 8, 16, 31, 32, 33, 55, 60, 63, 64, 65, 66, 70, 75, 100, 130} {
		for _, nameLen := range []int{4, 16, 40} {
			for _, spell := range []string{"same", "escaped", "invalid"} {
				step := 1
				if !w.Thorough() && members > 16 {
					step = 7
				}
				for dupAt := 0; dupAt < members; dupAt++ {
					// quick: every 7th member, plus the members around the two points where the name set of an
					// object changes its representation (more than 64 names, more than 1 KiB of names)
					kib := 1024 / nameLen
					critical := (dupAt >= 62 && dupAt <= 68) || (dupAt >= kib-2 && dupAt <= kib+2)
					if dupAt%step != 0 && !critical {
						continue
					}
					for _, insAt := range []int{0, dupAt, dupAt + 1, members / 2, members - 1, members} {
						if mine() {
							w.Do("namespace", &nsArgs{Members: members, NameLen: nameLen, DupAt: dupAt, InsAt: insAt, Spell: spell, Nested: (dupAt+insAt)%2 == 1})
						}
					}
				}
			}
		}
	}
	// number strings over a small alphabet, exhaustive to length 5 (6 thorough)
	{
		numAlpha := "-019.eE+"
		maxd := w.Pick(5, 6)
		var rec func(s string, d int)
		rec = func(s string, d int) {
			w.Do("text", &textArgs{Text: []byte(s), Note: "number"})
			w.Do("text", &textArgs{Text: []byte("[" + s + ",0]"), Note: "number"})
			if d == maxd {
				return
			}
			for _, c := range numAlpha {
				rec(s+string(c), d+1)
			}
		}
		for _, c := range numAlpha {
			for _, c2 := range numAlpha {
				if mine() {
					rec(string(c)+string(c2), 2)
				}
			}
		}
	}
	// all 2-byte sequences and boundary 3/4-byte families inside a string
	if mine() {
		for a := 0x80; a < 0x100; a++ {
			for b := 0x70; b < 0x100; b += 1 {
				if b > 0x80 && b < 0xbf && b%8 != 0 {
					continue
				}
				w.Do("text", &textArgs{Text: []byte{'"', byte(a), byte(b), '"'}, Note: "utf8-2"})
			}
		}
	}
	if mine() {
		for _, a := range []byte{0xe0, 0xe1, 0xec, 0xed, 0xee, 0xef, 0xf0, 0xf1, 0xf3, 0xf4, 0xf5} {
			for _, b := range []byte{0x7f, 0x80, 0x8f, 0x90, 0x9f, 0xa0, 0xbf, 0xc0} {
				for _, c := range []byte{0x7f, 0x80, 0xbf, 0xc0} {
					w.Do("text", &textArgs{Text: []byte{'"', a, b, c, '"'}, Note: "utf8-3"})
					for _, d := range []byte{0x7f, 0x80, 0xbf, 0xc0} {
						w.Do("text", &textArgs{Text: []byte{'"', a, b, c, d, '"'}, Note: "utf8-4"})
						w.Do("text", &textArgs{Text: []byte{'{', '"', a, b, c, d, '"', ':', '"', a, b, '"', '}'}, Note: "utf8-4"})
					}
				}
			}
		}
	}
	// \u escapes: every byte value at every digit position (hex digits in both cases are the only 22 admissible bytes;
	// bytes that fold onto a digit or letter when a case bit is set or cleared are the classic slip)
	for pos := 0; pos < 4; pos++ {
		if !mine() {
			continue
		}
		for b := 0; b < 256; b++ {
			for _, base := range []string{"0041", "d83d", "DBFF"} {
				d := []byte(base)
				d[pos] = byte(b)
				w.Do("text", &textArgs{Text: []byte(`"\u` + string(d) + `"`), Note: "escape-digit"})
				if base != "0041" {
					// first half of a pair / second half of a pair
					w.Do("text", &textArgs{Text: []byte(`["\u` + string(d) + `\udc00"]`), Note: "escape-digit"})
					lo := []byte("dE00")
					lo[pos] = byte(b)
					w.Do("text", &textArgs{Text: []byte(`{"\u` + base + `\u` + string(lo) + `":0}`), Note: "escape-digit"})
				}
			}
		}
	}
	// \u escape pair classes
	if mine() {
		units := []string{"0041", "d7ff", "D800", "d83d", "DBFF", "dbff", "DC00", "dc00", "de00", "DFFF", "dfff", "e000", "E000", "ffff", "00e9", "12G4", "12"}
		for _, a := range units {
			for _, b := range units {
				for _, tail := range []string{`"`, `x"`, ``, `\`, `\u`} {
					w.Do("text", &textArgs{Text: []byte(`"\u` + a + `\u` + b + tail), Note: "surrogates"})
					w.Do("text", &textArgs{Text: []byte(`{"\u` + a + `\u` + b + tail + `:1}`), Note: "surrogates"})
				}
			}
		}
	}
}

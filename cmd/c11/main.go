// C11 — string escaping is lossless, minimal, and honours the escape options on every
// path by which a string reaches the output.
package main

import (
	"bytes"
	stdjson "encoding/json"
	"fmt"
	"io"
	"math/rand/v2"
	"reflect"
	"strconv"
	"strings"
	"testing/iotest"
	"time"
	"unicode/utf16"
	"unicode/utf8"

	json "github.com/go-json-experiment/json"
	"github.com/go-json-experiment/json/jsontext"
	v1 "github.com/go-json-experiment/json/v1"

	"verif/ref"
	"verif/run"
)

// ---------------------------------------------------------------------------------
// independent UTF-8 well-formedness (Unicode 15, Table 3-7)

// wf returns the length of the well-formed sequence at the start of b, or 0.
func wf(b []byte) int {
	if len(b) == 0 {
		return 0
	}
	c := b[0]
	in := func(i int, lo, hi byte) bool { return i < len(b) && b[i] >= lo && b[i] <= hi }
	switch {
	case c < 0x80:
		return 1
	case c >= 0xC2 && c <= 0xDF:
		if in(1, 0x80, 0xBF) {
			return 2
		}
	case c == 0xE0:
		if in(1, 0xA0, 0xBF) && in(2, 0x80, 0xBF) {
			return 3
		}
	case (c >= 0xE1 && c <= 0xEC) || c == 0xEE || c == 0xEF:
		if in(1, 0x80, 0xBF) && in(2, 0x80, 0xBF) {
			return 3
		}
	case c == 0xED:
		if in(1, 0x80, 0x9F) && in(2, 0x80, 0xBF) {
			return 3
		}
	case c == 0xF0:
		if in(1, 0x90, 0xBF) && in(2, 0x80, 0xBF) && in(3, 0x80, 0xBF) {
			return 4
		}
	case c >= 0xF1 && c <= 0xF3:
		if in(1, 0x80, 0xBF) && in(2, 0x80, 0xBF) && in(3, 0x80, 0xBF) {
			return 4
		}
	case c == 0xF4:
		if in(1, 0x80, 0x8F) && in(2, 0x80, 0xBF) && in(3, 0x80, 0xBF) {
			return 4
		}
	}
	return 0
}

// sanitize replaces every ill-formed byte by one U+FFFD.
func sanitize(s []byte) (out []byte, invalid bool) {
	out = make([]byte, 0, len(s))
	for len(s) > 0 {
		n := wf(s)
		if n == 0 {
			out = append(out, "\xef\xbf\xbd"...)
			s = s[1:]
			invalid = true
		} else {
			out = append(out, s[:n]...)
			s = s[n:]
		}
	}
	return
}

func hasHTML(b []byte) bool { return bytes.ContainsAny(b, "<>&") }
func hasJS(b []byte) bool {
	return bytes.Contains(b, []byte("\u2028")) || bytes.Contains(b, []byte("\u2029"))
}

// ---------------------------------------------------------------------------------
// part 1: quoting and unquoting as functions

func checkQuote(w *run.W, s []byte) {
	clean, inv := sanitize(s)
	want := ref.Quote(string(clean), ref.QuoteOpts{})
	w.Eval(1)
	if inv {
		w.Count("quote_illformed_inputs", 1)
	}

	q, err := jsontext.AppendQuote(nil, s)
	if string(q) != want || (err != nil) != inv {
		w.Violate("quote-minimal", map[string]string{"api": "AppendQuote", "class": strClass(s)},
			"AppendQuote(%q) = %q, err=%v; minimal form is %q, ill-formed=%v", s, q, err, want, inv)
		return
	}
	q2, err := jsontext.AppendQuote([]byte("x"), string(s))
	if string(q2) != "x"+want || (err != nil) != inv {
		w.Violate("quote-minimal", map[string]string{"api": "AppendQuote[string]", "class": strClass(s)},
			"AppendQuote(\"x\", string %q) = %q, err=%v; want x+%q", s, q2, err, want)
	}
	u, err := jsontext.AppendUnquote(nil, q)
	if err != nil || !bytes.Equal(u, clean) {
		w.Violate("quote-roundtrip", map[string]string{"class": strClass(s)}, "AppendUnquote(AppendQuote(%q) = %q) = %q, err=%v; want %q", s, q, u, err, clean)
	}
	// the verbatim literal (possible when nothing in s must be escaped)
	if !bytes.ContainsAny(s, "\"\\") && bytes.IndexFunc(s, func(r rune) bool { return r < 0x20 }) < 0 {
		lit := append(append([]byte{'"'}, s...), '"')
		checkUnquote(w, lit, string(clean), inv)
	}
}

// checkUnquote: a literal with known meaning is decoded by every decoding entry point;
// ill-formed bytes become one U+FFFD each, with an error unless invalid UTF-8 is allowed.
func checkUnquote(w *run.W, lit []byte, meaning string, illFormed bool) {
	w.Count("unquote_literals", 1)
	u, err := jsontext.AppendUnquote(nil, lit)
	if string(u) != meaning || (err != nil) != illFormed {
		w.Violate("unquote-meaning", map[string]string{"api": "AppendUnquote", "illformed": fmt.Sprint(illFormed)},
			"AppendUnquote(%q) = %q, err=%v; meaning is %q, ill-formed=%v", lit, u, err, meaning, illFormed)
	}
	// decoder token
	d := jsontext.NewDecoder(bytes.NewReader(lit), jsontext.AllowInvalidUTF8(true))
	tok, err := d.ReadToken()
	if err != nil || tok.Kind() != '"' || tok.String() != meaning {
		w.Violate("unquote-meaning", map[string]string{"api": "Decoder.ReadToken+AllowInvalidUTF8", "illformed": fmt.Sprint(illFormed)},
			"ReadToken(%q).String() = %q, err=%v; meaning is %q", lit, tok.String(), err, meaning)
	}
	d = jsontext.NewDecoder(bytes.NewReader(lit))
	tok, err = d.ReadToken()
	if (err != nil) != illFormed || (err == nil && tok.String() != meaning) {
		w.Violate("unquote-meaning", map[string]string{"api": "Decoder.ReadToken", "illformed": fmt.Sprint(illFormed)},
			"ReadToken(%q) = %v, err=%v; meaning is %q, ill-formed=%v", lit, tok, err, meaning, illFormed)
	}
	var got string
	err = json.Unmarshal(lit, &got, jsontext.AllowInvalidUTF8(true))
	if err != nil || got != meaning {
		w.Violate("unquote-meaning", map[string]string{"api": "Unmarshal+AllowInvalidUTF8", "illformed": fmt.Sprint(illFormed)},
			"Unmarshal(%q, *string) = %q, err=%v; meaning is %q", lit, got, err, meaning)
	}
	var gotAny any
	err = json.Unmarshal(lit, &gotAny)
	if (err != nil) != illFormed || (err == nil && gotAny != any(meaning)) {
		w.Violate("unquote-meaning", map[string]string{"api": "Unmarshal-any", "illformed": fmt.Sprint(illFormed)},
			"Unmarshal(%q, *any) = %q, err=%v; meaning is %q, ill-formed=%v", lit, gotAny, err, meaning, illFormed)
	}
	// the same literal arriving piecemeal: the string scanner is then resumed in the middle of the literal
	// and what it learnt about the part already scanned (escapes seen, ill-formed bytes seen) must survive
	h := litHash(lit)
	if len(lit) < 3 || (h%4 != 0 && !(bytes.IndexByte(lit, '\\') >= 0 && h%2 == 0)) {
		return
	}
	w.Count("unquote_literals_streamed", 1)
	cut := 1 + int(h>>8)%(len(lit)-1)
	for ri, mk := range []func() io.Reader{
		func() io.Reader { return iotest.OneByteReader(bytes.NewReader(lit)) },
		func() io.Reader { return io.MultiReader(bytes.NewReader(lit[:cut]), bytes.NewReader(lit[cut:])) },
	} {
		reader := [2]string{"one-byte", "two-chunks"}[ri]
		got = ""
		err = json.UnmarshalRead(mk(), &got, jsontext.AllowInvalidUTF8(true))
		if err != nil || got != meaning {
			w.Violate("unquote-meaning", map[string]string{"api": "UnmarshalRead+AllowInvalidUTF8", "reader": reader, "illformed": fmt.Sprint(illFormed)},
				"UnmarshalRead(%q via %s reader, cut %d, *string) = %q, err=%v; meaning is %q", lit, reader, cut, got, err, meaning)
		}
		gotAny = nil
		err = json.UnmarshalRead(mk(), &gotAny)
		if (err != nil) != illFormed || (err == nil && gotAny != any(meaning)) {
			w.Violate("unquote-meaning", map[string]string{"api": "UnmarshalRead-any", "reader": reader, "illformed": fmt.Sprint(illFormed)},
				"UnmarshalRead(%q via %s reader, cut %d, *any) = %q, err=%v; meaning is %q, ill-formed=%v", lit, reader, cut, gotAny, err, meaning, illFormed)
		}
		d := jsontext.NewDecoder(mk(), jsontext.AllowInvalidUTF8(true))
		val, err := d.ReadValue()
		if err != nil || !bytes.Equal(val, lit) {
			w.Violate("unquote-meaning", map[string]string{"api": "Decoder.ReadValue+AllowInvalidUTF8", "reader": reader, "illformed": fmt.Sprint(illFormed)},
				"ReadValue(%q via %s reader, cut %d) = %q, err=%v", lit, reader, cut, val, err)
		}
	}
}

func litHash(b []byte) uint64 {
	var h uint64 = 1469598103934665603
	for _, c := range b {
		h = (h ^ uint64(c)) * 1099511628211
	}
	return h
}

func strClass(s []byte) string {
	var c []string
	if _, inv := sanitize(s); inv {
		c = append(c, "illformed")
	}
	if hasHTML(s) {
		c = append(c, "html")
	}
	if hasJS(s) {
		c = append(c, "js")
	}
	if bytes.ContainsAny(s, "\"\\") {
		c = append(c, "quote-backslash")
	}
	if bytes.IndexFunc(s, func(r rune) bool { return r < 0x20 }) >= 0 {
		c = append(c, "control")
	}
	if len(c) == 0 {
		return "plain"
	}
	return strings.Join(c, "+")
}

// ---------------------------------------------------------------------------------
// part 2: the path sweep

type cfg struct{ html, js, inv, preserve bool }

func (c cfg) String() string {
	return fmt.Sprintf("html=%v,js=%v,inv=%v,preserve=%v", c.html, c.js, c.inv, c.preserve)
}

func (c cfg) opts(extra ...json.Options) []json.Options {
	o := []json.Options{jsontext.EscapeForHTML(c.html), jsontext.EscapeForJS(c.js)}
	if c.inv {
		o = append(o, jsontext.AllowInvalidUTF8(true))
	}
	if c.preserve {
		o = append(o, jsontext.PreserveRawStrings(true))
	}
	return append(o, extra...)
}

// user types whose methods deliver the string / the literal under test

type textT struct{ S string }

func (t textT) MarshalText() ([]byte, error) { return []byte(t.S), nil }

type appendT struct{ S string }

func (t appendT) AppendText(b []byte) ([]byte, error) { return append(b, t.S...), nil }

type jsonT struct{ Lit string }

func (t jsonT) MarshalJSON() ([]byte, error) { return []byte(t.Lit), nil }

type toTokenT struct{ S string }

func (t toTokenT) MarshalJSONTo(e *jsontext.Encoder) error {
	return e.WriteToken(jsontext.String(t.S))
}

type toValueT struct{ Lit string }

func (t toValueT) MarshalJSONTo(e *jsontext.Encoder) error {
	return e.WriteValue(jsontext.Value(t.Lit))
}

type funcT struct{ Lit string }
type funcToT struct{ S string }

var userFuncs = json.WithMarshalers(json.JoinMarshalers(
	json.MarshalFunc(func(v funcT) ([]byte, error) { return []byte(v.Lit), nil }),
	json.MarshalToFunc(func(e *jsontext.Encoder, v funcToT) error { return e.WriteToken(jsontext.String(v.S)) }),
))

type valueFieldT struct {
	V jsontext.Value `json:"v"`
}
type fallbackMapT struct {
	M map[string]string `json:",embed"`
}
type fallbackValueT struct {
	V jsontext.Value `json:",embed"`
}
type stringTagT struct {
	F string `json:"f,string"`
}
type declaredNamesT struct {
	A int `json:"a<b"`
	B int `json:"c>d"`
	C int `json:"e&f"`
	D int `json:"g\u2028h"`
	E int `json:"i\u2029j"`
	F int `json:"<>&\u2028\u2029"`
}

// pathDef describes one way a string can reach the output.
//
//	kind 'g': the library quotes the Go string s itself
//	kind 'r': a raw literal (spelling lit, meaning s) is passed through; honours preserve
//	kind 'v': v1 entry point with fixed escaping (always HTML+JS, ill-formed allowed)
type pathDef struct {
	name string
	kind byte
	run  func(s string, lit string, c cfg) ([]byte, error)
}

// wrapOf: paths whose output string is not the string under test itself but a longer text it is part of
var wrapOf = map[string]func(clean string) string{
	"marshal-time-zone-name": func(clean string) string { return "Sat, 03 Feb 2001 04:05:06 " + clean },
}

// scaffold: paths whose first output string is a fixed member name, not the string under test
var scaffold = map[string]bool{"marshal-func-output": true, "marshal-value-field": true, "v1-string-tag": true, "marshal-time-zone-name": true}

func encodeWith(c cfg, fn func(e *jsontext.Encoder) error, extra ...json.Options) ([]byte, error) {
	var buf bytes.Buffer
	e := jsontext.NewEncoder(&buf, c.opts(extra...)...)
	if err := fn(e); err != nil {
		return nil, err
	}
	return bytes.TrimSuffix(buf.Bytes(), []byte("\n")), nil
}

func obj(lit string) string { return "{" + lit + ":" + lit + "}" }

var paths = []pathDef{
	{"token-string", 'g', func(s, _ string, c cfg) ([]byte, error) {
		return encodeWith(c, func(e *jsontext.Encoder) error {
			if err := e.WriteToken(jsontext.BeginObject); err != nil {
				return err
			}
			if err := e.WriteToken(jsontext.String(s)); err != nil {
				return err
			}
			if err := e.WriteToken(jsontext.String(s)); err != nil {
				return err
			}
			return e.WriteToken(jsontext.EndObject)
		})
	}},
	{"token-raw-from-decoder", 'r', func(_, lit string, c cfg) ([]byte, error) {
		return encodeWith(c, func(e *jsontext.Encoder) error {
			d := jsontext.NewDecoder(strings.NewReader(obj(lit)), jsontext.AllowInvalidUTF8(true))
			for {
				tok, err := d.ReadToken()
				if err != nil {
					return nil // io.EOF
				}
				if err := e.WriteToken(tok); err != nil {
					return err
				}
			}
		})
	}},
	{"writevalue-string", 'r', func(_, lit string, c cfg) ([]byte, error) {
		return encodeWith(c, func(e *jsontext.Encoder) error {
			if err := e.WriteToken(jsontext.BeginObject); err != nil {
				return err
			}
			if err := e.WriteValue(jsontext.Value(lit)); err != nil {
				return err
			}
			if err := e.WriteValue(jsontext.Value(" " + lit + " ")); err != nil {
				return err
			}
			return e.WriteToken(jsontext.EndObject)
		})
	}},
	{"writevalue-object", 'r', func(_, lit string, c cfg) ([]byte, error) {
		return encodeWith(c, func(e *jsontext.Encoder) error { return e.WriteValue(jsontext.Value(obj(lit))) })
	}},
	{"marshal-string", 'g', func(s, _ string, c cfg) ([]byte, error) { return json.Marshal(s, c.opts()...) }},
	{"marshal-string-multiline", 'g', func(s, _ string, c cfg) ([]byte, error) {
		return json.Marshal([]string{s}, c.opts(jsontext.Multiline(true))...)
	}},
	{"marshal-map-key", 'g', func(s, _ string, c cfg) ([]byte, error) {
		return json.Marshal(map[string]string{s: s}, c.opts(json.Deterministic(c.html != c.js))...)
	}},
	{"marshal-any", 'g', func(s, _ string, c cfg) ([]byte, error) {
		return json.Marshal(map[string]any{s: []any{s}}, c.opts(json.Deterministic(c.html == c.js))...)
	}},
	{"marshal-text-method", 'g', func(s, _ string, c cfg) ([]byte, error) {
		return json.Marshal(map[textT]textT{{s}: {s}}, c.opts()...)
	}},
	{"marshal-appendtext-method", 'g', func(s, _ string, c cfg) ([]byte, error) {
		return json.Marshal(map[appendT]*appendT{{s}: {s}}, c.opts()...)
	}},
	{"marshal-jsonto-token", 'g', func(s, _ string, c cfg) ([]byte, error) { return json.Marshal([]toTokenT{{s}}, c.opts()...) }},
	{"marshal-tofunc-token", 'g', func(s, _ string, c cfg) ([]byte, error) {
		return json.Marshal([]funcToT{{s}}, c.opts(userFuncs)...)
	}},
	{"marshal-fallback-map-name", 'g', func(s, _ string, c cfg) ([]byte, error) {
		return json.Marshal(fallbackMapT{M: map[string]string{s: s}}, c.opts()...)
	}},
	{"marshal-json-method", 'r', func(_, lit string, c cfg) ([]byte, error) { return json.Marshal(jsonT{obj(lit)}, c.opts()...) }},
	{"marshal-jsonto-value", 'r', func(_, lit string, c cfg) ([]byte, error) {
		return json.Marshal([]toValueT{{obj(lit)}}, c.opts()...)
	}},
	{"marshal-func-output", 'r', func(_, lit string, c cfg) ([]byte, error) {
		return json.Marshal(map[string]funcT{"k": {lit}}, c.opts(userFuncs)...)
	}},
	{"marshal-value-field", 'r', func(_, lit string, c cfg) ([]byte, error) {
		return json.Marshal(valueFieldT{V: jsontext.Value(obj(lit))}, c.opts()...)
	}},
	{"marshal-value-toplevel", 'r', func(_, lit string, c cfg) ([]byte, error) {
		return json.Marshal(jsontext.Value(lit), c.opts()...)
	}},
	{"marshal-fallback-value-name", 'r', func(_, lit string, c cfg) ([]byte, error) {
		return json.Marshal(fallbackValueT{V: jsontext.Value(obj(lit))}, c.opts()...)
	}},
	{"value-format", 'r', func(_, lit string, c cfg) ([]byte, error) {
		v := jsontext.Value(obj(lit))
		err := v.Format(c.opts()...)
		return v, err
	}},
	{"value-compact-indent", 'r', func(_, lit string, c cfg) ([]byte, error) {
		// Compact and Indent preset PreserveRawStrings and AllowInvalidUTF8
		v := jsontext.Value(obj(lit))
		var err error
		if c.html {
			err = v.Compact(jsontext.EscapeForHTML(c.html), jsontext.EscapeForJS(c.js), jsontext.PreserveRawStrings(c.preserve), jsontext.AllowInvalidUTF8(c.inv))
		} else {
			err = v.Indent(jsontext.EscapeForHTML(c.html), jsontext.EscapeForJS(c.js), jsontext.PreserveRawStrings(c.preserve), jsontext.AllowInvalidUTF8(c.inv))
		}
		return v, err
	}},
	{"append-format", 'r', func(_, lit string, c cfg) ([]byte, error) {
		return jsontext.AppendFormat(nil, obj(lit), c.opts()...)
	}},
	{"append-format-in-place", 'r', func(_, lit string, c cfg) ([]byte, error) {
		// documented: dst and src may overlap - the source sits in the spare capacity of dst
		src := obj(lit)
		buf := make([]byte, len(src), 6*len(src)+64)
		copy(buf, src)
		return jsontext.AppendFormat(buf[:0], buf, c.opts()...)
	}},
	{"append-format-overlap-tail", 'r', func(_, lit string, c cfg) ([]byte, error) {
		src := obj(lit)
		buf := make([]byte, 3+len(src), 6*len(src)+64)
		copy(buf, "[1,")
		copy(buf[3:], src)
		out, err := jsontext.AppendFormat(buf[:3], buf[3:], c.opts()...)
		if err != nil {
			return nil, err
		}
		return append(out, ']'), nil
	}},
	{"marshal-time-zone-name", 'g', func(s, _ string, c cfg) ([]byte, error) {
		// a zone abbreviation is an arbitrary Go string that named layouts copy into the output
		if s == "" {
			return json.Marshal(struct{ T string }{"Sat, 03 Feb 2001 04:05:06 "}, c.opts()...) // (an empty name prints as an offset instead)
		}
		return json.Marshal(struct {
			T time.Time `json:",format:RFC1123"`
		}{time.Date(2001, 2, 3, 4, 5, 6, 0, time.FixedZone(s, 3600))}, c.opts(json.ExperimentalSupportFormatTag(true))...)
	}},
	{"v1-htmlescape", 'v', func(_, lit string, c cfg) ([]byte, error) {
		var buf bytes.Buffer
		v1.HTMLEscape(&buf, []byte(obj(lit)))
		return buf.Bytes(), nil
	}},
	{"v1-marshal", 'v', func(s, _ string, c cfg) ([]byte, error) { return v1.Marshal(map[string]string{s: s}) }},
}

// unescapeRequested undoes exactly the escapes an option asks for (either hex case), so
// that the rest of a literal can be compared with the minimal form.
func unescapeRequested(lit string, html, js bool) string {
	if !html && !js {
		return lit
	}
	var sb strings.Builder
	for i := 0; i < len(lit); {
		if lit[i] != '\\' || i+1 >= len(lit) {
			sb.WriteByte(lit[i])
			i++
			continue
		}
		if lit[i+1] == 'u' && i+6 <= len(lit) {
			if v, err := strconv.ParseUint(lit[i+2:i+6], 16, 32); err == nil {
				if html && (v == '<' || v == '>' || v == '&') || js && (v == 0x2028 || v == 0x2029) {
					sb.WriteRune(rune(v))
					i += 6
					continue
				}
			}
			sb.WriteString(lit[i : i+6])
			i += 6
			continue
		}
		sb.WriteString(lit[i : i+2])
		i += 2
	}
	return sb.String()
}

type sweepStats struct{ runs int64 }

// collectStrings returns every string literal (names and values) of a tree.
func collectStrings(n *ref.Node, out *[][2]string) {
	switch n.Kind {
	case ref.String:
		*out = append(*out, [2]string{n.Raw, n.S})
	case ref.Array:
		for _, e := range n.Elems {
			collectStrings(e, out)
		}
	case ref.Object:
		for _, m := range n.Members {
			*out = append(*out, [2]string{m.RawName, m.Name})
			collectStrings(m.Value, out)
		}
	}
}

// judge checks one output of one path.
func judge(w *run.W, p *pathDef, s []byte, clean string, illFormed bool, lit string, c cfg, out []byte, err error) {
	sig := func(what string) map[string]string {
		return map[string]string{"path": p.name, "what": what, "cfg": c.String(), "class": strClass(s)}
	}
	w.Count("path_"+p.name, 1)
	mustFail := illFormed && !c.inv && p.kind != 'v'
	if mustFail {
		w.Count("illformed_without_allow", 1)
		if err == nil {
			w.Violate("illformed-accepted", sig("no-error"), "path %s, %s: ill-formed %q (literal %q) was encoded as %q without an error although AllowInvalidUTF8 is off", p.name, c, s, lit, out)
		}
		return
	}
	if err != nil {
		w.Violate("unexpected-error", sig("error"), "path %s, %s: string %q (literal %q): %v", p.name, c, s, lit, err)
		return
	}
	html, js := c.html || p.kind == 'v', c.js || p.kind == 'v'
	// (a) every output byte
	if html && hasHTML(out) {
		w.Violate("raw-html-char", sig("raw <>&"), "path %s, %s: string %q (literal %q) -> %q contains a raw '<', '>' or '&'", p.name, c, s, lit, out)
	}
	if js && hasJS(out) {
		w.Violate("raw-js-char", sig("raw U+2028/9"), "path %s, %s: string %q (literal %q) -> %q contains a raw U+2028/U+2029", p.name, c, s, lit, out)
	}
	keepsBytes := (p.kind == 'r' && c.preserve) || p.name == "v1-htmlescape"
	if !keepsBytes && !utf8.Valid(out) {
		w.Violate("illformed-output", sig("ill-formed byte in output"), "path %s, %s: string %q (literal %q) -> %q is not well-formed UTF-8", p.name, c, s, lit, out)
	}
	// (b) meaning
	tree := ref.Parse(out, ref.Opts{AllowInvalidUTF8: true, AllowDup: true})
	if tree == nil {
		w.Violate("output-not-json", sig("invalid JSON"), "path %s, %s: string %q (literal %q) -> %q is not JSON", p.name, c, s, lit, out)
		return
	}
	var lits [][2]string
	collectStrings(tree, &lits)
	if scaffold[p.name] && len(lits) > 0 {
		lits = lits[1:]
	}
	if wrap := wrapOf[p.name]; wrap != nil {
		clean = wrap(clean)
	}
	seen := 0
	for _, l := range lits {
		seen++
		meaning := l[1]
		if p.name == "v1-string-tag" {
			inner, ok := ref.Unquote([]byte(meaning), true)
			if !ok {
				w.Violate("meaning-changed", sig("inner literal invalid"), "path %s, %s: string %q -> %q: inner text %q is not a JSON string", p.name, c, s, out, meaning)
				continue
			}
			meaning = inner
		}
		if meaning != clean {
			w.Violate("meaning-changed", sig("meaning"), "path %s, %s: string %q (literal %q) -> %q decodes to %q, want %q", p.name, c, s, lit, out, meaning, clean)
			continue
		}
		// (c) spelling
		switch {
		case p.name == "v1-string-tag" || p.kind == 'v':
		case keepsBytes && !c.html && !c.js:
			if l[0] != lit {
				w.Violate("raw-not-preserved", sig("spelling"), "path %s, %s: literal %q came out as %q although PreserveRawStrings is set and no escape option applies", p.name, c, lit, l[0])
			}
		case keepsBytes:
			// pre-escaped sequences may stay: only (a) and (b) are demanded
		default:
			if got, want := unescapeRequested(l[0], c.html, c.js), ref.Quote(clean, ref.QuoteOpts{}); got != want {
				w.Violate("not-minimal", sig("spelling"), "path %s, %s: string %q (literal %q) -> %q; apart from the requested escapes the minimal form is %q", p.name, c, s, lit, l[0], want)
			}
		}
	}
	if seen == 0 {
		w.Broken("path %s produced no string to check: %q", p.name, out)
	}
}

// rawLiteral spells s as a JSON string literal: mode 0 escapes only what must be escaped
// (ill-formed bytes, '<', U+2028 … stay raw), mode 1 additionally pre-escapes a
// deterministic selection of characters with \uXXXX in mixed hex case and '/' as "\/".
func rawLiteral(s []byte, mode int) string {
	const lo, up = "0123456789abcdef", "0123456789ABCDEF"
	u4 := func(out []byte, v uint16, k int) []byte {
		out = append(out, '\\', 'u')
		for i := 0; i < 4; i++ {
			nib := (v >> (12 - 4*i)) & 15
			if (k+i)%3 == 0 {
				out = append(out, up[nib])
			} else {
				out = append(out, lo[nib])
			}
		}
		return out
	}
	out := []byte{'"'}
	for i := 0; i < len(s); {
		n := wf(s[i:])
		if n == 0 {
			out = append(out, s[i])
			i++
			continue
		}
		r, _ := utf8.DecodeRune(s[i : i+n])
		switch {
		case r == '"' || r == '\\':
			out = append(out, '\\', byte(r))
		case r < 0x20:
			short := map[rune]string{'\b': `\b`, '\f': `\f`, '\n': `\n`, '\r': `\r`, '\t': `\t`}[r]
			if short != "" && (mode == 0 || i%2 == 0) {
				out = append(out, short...)
			} else {
				out = u4(out, uint16(r), i)
			}
		case mode == 1 && r == '/':
			out = append(out, '\\', '/')
		case mode == 1 && (r == '<' || r == '>' || r == '&' || r == 0x2028 || r == 0x2029 || (i+int(r))%3 == 0):
			if r >= 0x10000 {
				r1, r2 := utf16.EncodeRune(r)
				out = u4(out, uint16(r1), i)
				out = u4(out, uint16(r2), i+1)
			} else {
				out = u4(out, uint16(r), i)
			}
		default:
			out = append(out, s[i:i+n]...)
		}
		i += n
	}
	return string(append(out, '"'))
}

var fieldTypes = map[string]reflect.Type{}

// fieldNameOK: JSON names that a `json` struct tag can express in this version of the
// library: anything without comma, backslash, quotes and backtick (no quoted-name syntax).
func fieldNameOK(s []byte) bool {
	return len(s) > 0 && utf8.Valid(s) && !bytes.ContainsAny(s, ",\\'\"`") && string(s) != "-"
}

// sweep sends s through every path under the given escape configurations.
func sweep(w *run.W, s []byte, cfgs []cfg, withFieldName bool) {
	clean, illFormed := sanitize(s)
	lit0 := rawLiteral(s, 0)
	lit1 := rawLiteral(s, 1)
	for _, l := range []string{lit0, lit1} {
		if m, ok := ref.Unquote([]byte(l), true); !ok || m != string(clean) {
			w.Broken("literal speller: %q does not mean %q (string %q)", l, clean, s)
			return
		}
	}
	w.Count("sweep_strings", 1)
	if w.WantSample() && hasHTML(s) && hasJS(s) && illFormed && len(cfgs) >= 4 {
		c := cfg{html: true, js: true, inv: true}
		o1, _ := paths[0].run(string(s), "", c)
		c.preserve = true
		o2, _ := json.Marshal(jsonT{obj(lit1)}, c.opts()...)
		w.Sample(map[string]any{"string": fmt.Sprintf("%q", s), "literal_minimal": lit0, "literal_preescaped": lit1,
			"token-string html+js": string(o1), "marshal-json-method html+js+preserve (pre-escaped literal)": string(o2)})
	}
	if illFormed {
		w.Count("sweep_strings_illformed", 1)
	}
	if hasHTML(s) {
		w.Count("sweep_strings_with_html_chars", 1)
	}
	if hasJS(s) {
		w.Count("sweep_strings_with_u2028_9", 1)
	}
	for ci, c := range cfgs {
		for pi := range paths {
			p := &paths[pi]
			switch p.kind {
			case 'g':
				out, err := p.run(string(s), "", c)
				judge(w, p, s, string(clean), illFormed, "", c, out, err)
			case 'r':
				for li, lit := range []string{lit0, lit1} {
					if li == 1 && lit1 == lit0 {
						continue
					}
					for _, pres := range []bool{false, true} {
						cc := c
						cc.preserve = pres
						out, err := p.run("", lit, cc)
						judge(w, p, s, string(clean), illFormed, lit, cc, out, err)
					}
				}
			case 'v':
				if ci == 0 {
					out, err := p.run(string(s), lit0, c)
					judge(w, p, s, string(clean), illFormed, lit0, c, out, err)
					if lit1 != lit0 && p.name == "v1-htmlescape" {
						out, err := p.run(string(s), lit1, c)
						judge(w, p, s, string(clean), illFormed, lit1, c, out, err)
					}
				}
			}
		}
		// `,string` on a Go string under the v1 semantics: the literal is quoted twice
		{
			p := &pathDef{name: "v1-string-tag", kind: 'g'}
			out, err := json.Marshal(stringTagT{F: string(s)}, c.opts(v1.StringifyWithLegacySemantics(true))...)
			judge(w, p, s, string(clean), illFormed, "", c, out, err)
		}
		if withFieldName && fieldNameOK(s) {
			t := fieldTypes[string(s)]
			if t == nil {
				tag := reflect.StructTag(`json:` + strconv.Quote(string(s)))
				if got, ok := tag.Lookup("json"); !ok || got != string(s) {
					w.Broken("struct tag %q does not carry the name %q", tag, s)
					return
				}
				t = reflect.StructOf([]reflect.StructField{{Name: "F", Type: reflect.TypeFor[string](), Tag: tag}})
				fieldTypes[string(s)] = t
			}
			v := reflect.New(t).Elem()
			v.Field(0).SetString(string(s))
			p := &pathDef{name: "marshal-field-name", kind: 'g'}
			out, err := json.Marshal(v.Interface(), c.opts()...)
			judge(w, p, s, string(clean), illFormed, "", c, out, err)
			p2 := &pathDef{name: "marshal-field-name-multiline", kind: 'g'}
			out, err = json.Marshal(v.Addr().Interface(), c.opts(jsontext.Multiline(true))...)
			judge(w, p2, s, string(clean), illFormed, "", c, out, err)
		}
	}
}

var allEsc = []cfg{{false, false, true, false}, {true, false, true, false}, {false, true, true, false}, {true, true, true, false}}

// cfgsFor: strings with characters an option cares about run under all four escape
// configurations, the others under one (chosen by content); ill-formed strings run once
// more without AllowInvalidUTF8 (an error is required then).
func cfgsFor(s []byte) []cfg {
	_, ill := sanitize(s)
	var out []cfg
	if hasHTML(s) || hasJS(s) {
		out = append(out, allEsc...)
	} else {
		h := 0
		for _, b := range s {
			h = h*31 + int(b)
		}
		out = append(out, allEsc[h&3])
	}
	if ill {
		out = append(out, cfg{html: len(s)%2 == 0, js: len(s)%3 == 0, inv: false})
	} else {
		// well-formed strings: AllowInvalidUTF8 must make no difference; alternate
		for i := range out {
			out[i].inv = (len(s)+i)%2 == 0
		}
	}
	return out
}

func checkDeclared(w *run.W) {
	want := []string{"a<b", "c>d", "e&f", "g\u2028h", "i\u2029j", "<>&\u2028\u2029"}
	for _, c := range allEsc {
		for _, multi := range []bool{false, true} {
			out, err := json.Marshal(declaredNamesT{}, c.opts(jsontext.Multiline(multi))...)
			w.Count("path_marshal-field-name-declared", 1)
			if err != nil {
				w.Violate("unexpected-error", map[string]string{"path": "marshal-field-name-declared"}, "Marshal(declaredNamesT, %s): %v", c, err)
				continue
			}
			if c.html && hasHTML(out) || c.js && hasJS(out) {
				w.Violate("raw-html-char", map[string]string{"path": "marshal-field-name-declared", "cfg": c.String()}, "Marshal(declaredNamesT, %s) = %q contains a raw character the options forbid", c, out)
			}
			tree := ref.Parse(out, ref.Opts{})
			if tree == nil || len(tree.Members) != len(want) {
				w.Violate("output-not-json", map[string]string{"path": "marshal-field-name-declared"}, "Marshal(declaredNamesT, %s) = %q", c, out)
				continue
			}
			for i, m := range tree.Members {
				if m.Name != want[i] {
					w.Violate("meaning-changed", map[string]string{"path": "marshal-field-name-declared", "cfg": c.String()}, "Marshal(declaredNamesT, %s) = %q: name %d decodes to %q, want %q", c, out, i, m.Name, want[i])
				}
				if got, min := unescapeRequested(m.RawName, c.html, c.js), ref.Quote(want[i], ref.QuoteOpts{}); got != min {
					w.Violate("not-minimal", map[string]string{"path": "marshal-field-name-declared", "cfg": c.String()}, "Marshal(declaredNamesT, %s): name %q, minimal form %q", c, m.RawName, min)
				}
			}
		}
	}
}

// ---------------------------------------------------------------------------------
// cases

var critAlphabet = []byte{0, 0x1f, '"', '\\', '/', '<', '>', '&', 0x7f, 0x80, 0xbf, 0xc0, 0xc2, 0xe0, 0xe2, 0xa8, 0xa9, 0xed, 0xa0, 0xef, 0xbd, 0xf0, 0x90, 0xf4, 0x8f, 0xf5, 0xff, 'a'}

type bytes2Args struct {
	First int `json:"first"` // -1: the empty string
}

type alphaArgs struct {
	P0    int `json:"p0"`
	P1    int `json:"p1"`
	Every int `json:"every"` // sweep every n-th string of the block (1 = all)
}

type runeArgs struct {
	Lo int `json:"lo"` // code points [Lo, Hi) incl. surrogates (encoded as ill-formed 3-byte sequences)
	Hi int `json:"hi"`
}

type strsArgs struct {
	Strs      [][]byte `json:"strs"`
	FieldName bool     `json:"field_name,omitempty"`
	Family    string   `json:"family,omitempty"`
}

func encodeCP(cp int) []byte {
	if cp >= 0xd800 && cp < 0xe000 {
		return []byte{0xed, byte(0x80 | (cp>>6)&0x3f), byte(0x80 | cp&0x3f)} // generalized UTF-8 of a surrogate: ill-formed
	}
	return utf8.AppendRune(nil, rune(cp))
}

func critCP(cp int) bool {
	return cp < 0x80 || (cp >= 0x2020 && cp < 0x2030) || (cp >= 0xd7f0 && cp < 0xe010) || cp >= 0xfff0 || cp%97 == 0
}

var M = &run.Monitor{
	ID:    "C11",
	Level: "exploration",
	Rule: "strings: every 0-, 1- and 2-byte string, every 3- and 4-byte string over a 28-byte critical alphabet (controls, quote, backslash, '/', '<', '>', '&', the bytes of U+2028/9, " +
		"UTF-8 lead/continuation boundary bytes), every BMP code point incl. surrogates (ill-formed) as 1-rune string and around each a 2-rune context, sampled planes 1-16, random mixes of " +
		"bytes/runes/critical runes, field-name candidates. Part 1 (all strings): AppendQuote == minimal RFC 8785 form and error iff ill-formed, unquote round trip, the verbatim literal " +
		"decoded by AppendUnquote/ReadToken/Unmarshal. Part 2 (sweep; all of them in the exhaustive <=2-byte space, a slice of the alphabet space in quick): the string is sent through " +
		"every listed path x {no escape, HTML, JS, both} x {PreserveRawStrings} x {minimal / pre-escaped literal}; every output byte is scanned, the output is parsed by the reference, every " +
		"string in it must decode to sanitize(s), and its spelling must be minimal apart from the requested escapes (byte-identical to the input literal under PreserveRawStrings without escape option). " +
		"distinct = strings swept (shape = string class x length class)",
	Assumptions: []string{
		"UTF-8 well-formedness per Unicode Table 3-7 (own table, self-tested against unicode/utf8); minimal quoting per RFC 8785 3.2.2.2 (ref.Quote, self-tested against the toolchain's encoding/json)",
		"under an escape option only '<','>','&' resp. U+2028/9 may additionally be escaped (as \\uXXXX, either hex case); with PreserveRawStrings plus an escape option only safety and meaning are demanded",
		"lone surrogate escapes are outside this property's string domain (covered by C01/C03/C05)",
	},
	Floors: func(c map[string]int64, tier string) []string {
		var u []string
		need := func(k string, n int64) {
			if c[k] < n {
				u = append(u, fmt.Sprintf("%s=%d < %d", k, c[k], n))
			}
		}
		for _, p := range paths {
			need("path_"+p.name, 10000)
		}
		need("path_v1-string-tag", 10000)
		need("path_marshal-field-name", 1300)
		need("path_marshal-field-name-multiline", 1300)
		need("path_marshal-field-name-declared", 8)
		need("exhaustive_strings_le2", 65793)
		need("exhaustive_strings_alphabet34", 636608)
		need("sweep_strings", 13000)
		need("sweep_strings_illformed", 10000)
		need("sweep_strings_with_html_chars", 2400)
		need("sweep_strings_with_u2028_9", 300)
		need("illformed_without_allow", 10000)
		need("unquote_literals", 48000)
		need("code_points", 0x10000)
		return u
	},
	SelfTest: selfTest,
}

func selfTest() error {
	// well-formedness table against unicode/utf8 on all 1-3 byte strings of a dense alphabet
	dense := []byte{0, 'a', 0x7f, 0x80, 0x8f, 0x90, 0x9f, 0xa0, 0xbf, 0xc0, 0xc1, 0xc2, 0xdf, 0xe0, 0xe1, 0xec, 0xed, 0xee, 0xef, 0xf0, 0xf1, 0xf3, 0xf4, 0xf5, 0xff}
	var rec func(b []byte, d int) error
	rec = func(b []byte, d int) error {
		clean, inv := sanitize(b)
		if inv == utf8.Valid(b) || string(clean) != ref.Sanitize(string(b)) {
			return fmt.Errorf("well-formedness table disagrees with unicode/utf8 on %q", b)
		}
		if d == 4 {
			return nil
		}
		for _, c := range dense {
			if err := rec(append(b[:len(b):len(b)], c), d+1); err != nil {
				return err
			}
		}
		return nil
	}
	if err := rec(nil, 0); err != nil {
		return err
	}
	// ref.Quote against the toolchain's encoding/json (which always escapes U+2028/9)
	r := run.SelfRand(11)
	for i := 0; i < 40000; i++ {
		s := randomString(r)
		clean, _ := sanitize(s)
		for _, h := range []bool{false, true} {
			var buf bytes.Buffer
			enc := stdjson.NewEncoder(&buf)
			enc.SetEscapeHTML(h)
			if err := enc.Encode(string(clean)); err != nil {
				return err
			}
			want := strings.TrimSuffix(buf.String(), "\n")
			if got := ref.Quote(string(clean), ref.QuoteOpts{HTML: h, JS: true}); got != want {
				return fmt.Errorf("ref.Quote(%q, html=%v, js) = %s, encoding/json writes %s", clean, h, got, want)
			}
		}
		for mode := 0; mode < 2; mode++ {
			lit := rawLiteral(clean, mode)
			var back string
			if err := stdjson.Unmarshal([]byte(lit), &back); err != nil || back != string(clean) {
				return fmt.Errorf("literal speller: %s does not mean %q per encoding/json (%q, %v)", lit, clean, back, err)
			}
			if un := unescapeRequested(ref.Quote(string(clean), ref.QuoteOpts{HTML: true, JS: true}), true, true); un != ref.Quote(string(clean), ref.QuoteOpts{}) {
				return fmt.Errorf("unescapeRequested is not the inverse of the requested escapes on %q", clean)
			}
		}
	}
	return nil
}

func randomString(r *rand.Rand) []byte {
	var s []byte
	for j := r.IntN(10); j > 0; j-- {
		switch r.IntN(5) {
		case 0:
			s = append(s, byte(r.IntN(256)))
		case 1:
			s = utf8.AppendRune(s, rune(r.IntN(0x110000)))
		case 2:
			s = utf8.AppendRune(s, []rune{0x2028, 0x2029, 0xD7FF, 0xE000, 0xFFFD, 0xFFFF, 0x10000, 0x10FFFF, '<', '>', '&', '"', '\\', '\'', ',', '`'}[r.IntN(16)])
		case 3:
			s = append(s, critAlphabet[r.IntN(len(critAlphabet))])
		default:
			s = append(s, byte('a'+r.IntN(26)))
		}
	}
	return s
}

func shape(w *run.W, s []byte) {
	w.Shape(strClass(s) + "|" + strconv.Itoa(min(len(s), 12)) + "|" + strconv.Itoa(int(crc(s)%4096)))
}

func crc(s []byte) uint32 {
	h := uint32(2166136261)
	for _, b := range s {
		h = (h ^ uint32(b)) * 16777619
	}
	return h
}

func main() {
	run.Def(M, "bytes2", func(w *run.W, a *bytes2Args) {
		if a.First < 0 {
			checkQuote(w, nil)
			sweep(w, nil, allEsc, true)
			checkDeclared(w)
			w.Count("exhaustive_strings_le2", 1)
			return
		}
		one := []byte{byte(a.First)}
		checkQuote(w, one)
		sweep(w, one, cfgsFor(one), true)
		shape(w, one)
		for b := 0; b < 256; b++ {
			s := []byte{byte(a.First), byte(b)}
			checkQuote(w, s)
			sweep(w, s, cfgsFor(s), false)
			shape(w, s)
		}
		w.Count("exhaustive_strings_le2", 257)
	})
	run.Def(M, "alpha", func(w *run.W, a *alphaArgs) {
		k := 0
		visit := func(s []byte) {
			checkQuote(w, s)
			k++
			if k%a.Every == 0 {
				sweep(w, s, cfgsFor(s), false)
				shape(w, s)
			}
		}
		p0, p1 := critAlphabet[a.P0], critAlphabet[a.P1]
		for _, c2 := range critAlphabet {
			visit([]byte{p0, p1, c2})
			for _, c3 := range critAlphabet {
				visit([]byte{p0, p1, c2, c3})
			}
		}
		w.Count("exhaustive_strings_alphabet34", int64(len(critAlphabet)*(1+len(critAlphabet))))
		w.Beat()
	})
	run.Def(M, "runes", func(w *run.W, a *runeArgs) {
		for cp := a.Lo; cp < a.Hi; cp++ {
			s := encodeCP(cp)
			checkQuote(w, s)
			w.Count("code_points", 1)
			if critCP(cp) {
				sweep(w, s, cfgsFor(s), cp < 0x3000 && cp%3 == 0)
				shape(w, s)
				// in context: between an ASCII letter and a critical rune
				ctx := append(append([]byte("a"), s...), "<\u2028"...)
				checkQuote(w, ctx)
				sweep(w, ctx, cfgsFor(ctx), false)
			}
		}
	})
	run.Def(M, "strs", func(w *run.W, a *strsArgs) {
		for _, s := range a.Strs {
			checkQuote(w, s)
			sweep(w, s, cfgsFor(s), a.FieldName)
			shape(w, s)
		}
	})
	M.Gen = generate
	run.Main(M)
}

func generate(w *run.W) {
	bi := 0
	mine := func() bool { bi++; return w.Mine(bi) }
	// (a) exhaustive: all strings of length <= 2
	if mine() {
		w.Do("bytes2", &bytes2Args{First: -1})
	}
	for a := 0; a < 256; a++ {
		if mine() {
			w.Do("bytes2", &bytes2Args{First: a})
		}
	}
	// (b) exhaustive over the critical alphabet, lengths 3 and 4
	for p0 := range critAlphabet {
		for p1 := range critAlphabet {
			if mine() {
				w.Do("alpha", &alphaArgs{P0: p0, P1: p1, Every: w.Pick(16, 1)})
			}
		}
	}
	// (c) every BMP code point (surrogates as ill-formed sequences)
	for lo := 0; lo < 0x10000; lo += 0x400 {
		if mine() {
			w.Do("runes", &runeArgs{Lo: lo, Hi: lo + 0x400})
		}
	}
	// (d) planes 1-16 sampled, plane boundaries
	for plane := 1; plane <= 16; plane++ {
		if !mine() {
			continue
		}
		r := w.Rand("plane", plane)
		var strs [][]byte
		base := plane << 16
		for _, cp := range []int{base, base + 1, base + 0xfffe, base + 0xffff} {
			strs = append(strs, utf8.AppendRune(nil, rune(cp)))
		}
		for i := 0; i < w.Pick(150, 1500); i++ {
			s := utf8.AppendRune(nil, rune(base+r.IntN(0x10000)))
			if r.IntN(2) == 0 {
				s = utf8.AppendRune(s, rune(base+r.IntN(0x10000)))
			}
			if r.IntN(3) == 0 {
				s = append(s, "<\u2029"...)
			}
			strs = append(strs, s)
		}
		w.Do("strs", &strsArgs{Strs: strs, Family: "planes"})
	}
	// (e) random mixes
	nb := w.Pick(400, 4000)
	for b := 0; b < nb; b++ {
		if !mine() {
			continue
		}
		r := w.Rand("random", b)
		strs := make([][]byte, 50)
		for i := range strs {
			strs[i] = randomString(r)
		}
		w.Do("strs", &strsArgs{Strs: strs, Family: "random"})
	}
	// (f) field-name candidates: pairs and triples of name-critical runes, and random well-formed names
	nameRunes := []rune{'<', '>', '&', 0x2028, 0x2029, 'a', '/', '-', '.', ';', ' ', 0xe000, 0x1f600, '~', 0x7f, 0, '\n', ':', 0xfffd, 'Z'}
	var cands [][]byte
	for _, a := range nameRunes {
		for _, b := range nameRunes {
			cands = append(cands, []byte(string([]rune{a, b})))
			cands = append(cands, []byte(string([]rune{'k', a, b, a})))
		}
	}
	for i := 0; i < len(cands); i += 40 {
		if mine() {
			w.Do("strs", &strsArgs{Strs: cands[i:min(i+40, len(cands))], FieldName: true, Family: "field-names"})
		}
	}
	for b := 0; b < w.Pick(240, 800); b++ {
		if !mine() {
			continue
		}
		r := w.Rand("names", b)
		var strs [][]byte
		for len(strs) < 25 {
			if s := randomString(r); fieldNameOK(s) {
				strs = append(strs, s)
			}
		}
		w.Do("strs", &strsArgs{Strs: strs, FieldName: true, Family: "field-names"})
	}
}

// Adversarial "user code" of the C02 monitor.  Every type executes a behaviour script that is
// carried in the value itself, so several adversarial values with different behaviours can sit
// anywhere inside one generated Go value.  Executed behaviour classes are recorded per case.
package main

import (
	"errors"
	"fmt"
	"io"
	"math"
	"strings"
	"sync"

	json "github.com/go-json-experiment/json"
	"github.com/go-json-experiment/json/jsontext"

	"verif/run"
)

var errUser = errors.New("c02 user error")

var rec struct {
	mu      sync.Mutex
	classes map[string]int
	calls   int
	// swallowed: user code ignored the error of a nested MarshalEncode and continued
	swallowed bool
}

func resetRec() {
	rec.mu.Lock()
	rec.classes = map[string]int{}
	rec.calls = 0
	rec.swallowed = false
	rec.mu.Unlock()
}

// swallowedNestedError reports whether user code of this case ignored the error of a nested
// MarshalEncode call and went on writing.
func swallowedNestedError() bool {
	rec.mu.Lock()
	defer rec.mu.Unlock()
	return rec.swallowed
}

func saw(class string) {
	rec.mu.Lock()
	rec.classes[class]++
	rec.calls++
	rec.mu.Unlock()
}

// ---------------------------------------------------------------------------------
// coder-form scripts: "class|mode|op\x1fop..." ; mode 's' strict (return the first coder error)
// or 'l' sloppy (ignore coder errors, as careless user code does)

const opSep = "\x1f"

func mkScript(class string, strict bool, ops ...string) string {
	m := "l"
	if strict {
		m = "s"
	}
	return class + "|" + m + "|" + strings.Join(ops, opSep)
}

var nestedPool = map[string]any{
	"m": map[string]int{"a": 1, "b": 2},
	"l": []any{1.5, "x", nil},
	"d": AJSON{Out: `{"a":1,"a":2}`, Cls: "json-dup"},
	"t": ATo{S: "to-one|s|Sinner"},
	"p": &APTo{S: "to-two|l|Sx" + opSep + "Sy"},
	// values whose marshaling fails after part of them was written
	"f": struct{ List []any }{[]any{1, make(chan int)}},
	"g": map[string]any{"k": []any{map[string]any{"z": make(chan int)}}},
	"h": struct {
		A int
		M map[string]any
	}{1, map[string]any{"x": func() {}}},
}

func runScript(e *jsontext.Encoder, s string) error {
	class, rest, _ := strings.Cut(s, "|")
	mode, body, _ := strings.Cut(rest, "|")
	saw(class)
	strict := mode == "s"
	if body == "" {
		return nil
	}
	// tw writes a token; a closing token that succeeds although the encoder is not deeper than
	// it was when this call began ended a container that this call did not begin
	d0 := e.StackDepth()
	tw := func(t jsontext.Token) error {
		before := e.StackDepth()
		err := e.WriteToken(t)
		if k := t.Kind(); err == nil && (k == '}' || k == ']') && before <= d0 {
			saw("popped-below-entry")
		}
		return err
	}
	for _, op := range strings.Split(body, opSep) {
		if op == "" {
			continue
		}
		var err error
		arg := op[1:]
		switch op[0] {
		case '{':
			err = tw(jsontext.BeginObject)
		case '}':
			err = tw(jsontext.EndObject)
		case '[':
			err = tw(jsontext.BeginArray)
		case ']':
			err = tw(jsontext.EndArray)
		case 'n':
			err = e.WriteToken(jsontext.Null)
		case 't':
			err = e.WriteToken(jsontext.True)
		case 'S':
			err = e.WriteToken(jsontext.String(arg))
		case 'I':
			err = e.WriteToken(jsontext.Int(int64(len(arg))))
		case 'F':
			err = e.WriteToken(jsontext.Float(math.NaN()))
		case 'V':
			err = e.WriteValue(jsontext.Value(arg))
		case 'U':
			return errors.ErrUnsupported
		case 'E':
			return errUser
		case 'P':
			panic(run.UserPanic{Tag: class})
		case 'R':
			func() {
				defer func() { recover() }()
				e.Reset(io.Discard)
			}()
		case 'A':
			err = popBelow(e, strict, tw)
		case 'N':
			err = json.MarshalEncode(e, nestedPool[arg])
			if err != nil && !strict {
				rec.mu.Lock()
				rec.swallowed = true
				rec.mu.Unlock()
			}
		default:
			panic("c02: bad op " + op)
		}
		if err != nil && strict {
			return err
		}
	}
	return nil
}

// popBelow: write a value, close the PARENT container, open a sibling and refill it to the same
// length, so that (depth, length) ends where "exactly one value" would end.
func popBelow(e *jsontext.Encoder, strict bool, tw func(jsontext.Token) error) (first error) {
	wr := func(t jsontext.Token) bool {
		if err := tw(t); err != nil {
			if first == nil {
				first = err
			}
			return !strict
		}
		return true
	}
	d := e.StackDepth()
	if d == 0 {
		if wr(jsontext.String("own")) {
			wr(jsontext.EndArray)
		}
		return first
	}
	kind, n := e.StackIndex(d)
	fill := func(k int64) {
		for j := int64(0); j < k; j++ {
			if !wr(jsontext.String(fmt.Sprintf("p%d", j))) {
				return
			}
		}
	}
	switch kind {
	case '[':
		if wr(jsontext.String("own")) && wr(jsontext.EndArray) && wr(jsontext.BeginArray) {
			fill(n + 1)
		}
	case '{':
		if n%2 == 1 {
			if wr(jsontext.String("own")) && wr(jsontext.EndObject) && wr(jsontext.BeginObject) {
				fill(n + 1)
			}
		} else if wr(jsontext.String("own")) && wr(jsontext.Null) && wr(jsontext.EndObject) && wr(jsontext.BeginObject) {
			fill(n + 1)
		}
	}
	return first
}

// ATo: MarshalJSONTo on the value receiver.
type ATo struct{ S string }

func (a ATo) MarshalJSONTo(e *jsontext.Encoder) error { return runScript(e, a.S) }

// APTo: MarshalJSONTo on the pointer receiver (nil-safe: legacy semantics may call it on nil).
type APTo struct{ S string }

func (a *APTo) MarshalJSONTo(e *jsontext.Encoder) error {
	if a == nil {
		saw("to-nil-receiver")
		return e.WriteToken(jsontext.Null)
	}
	return runScript(e, a.S)
}

// FT has no methods: it is handled by a MarshalToFunc when the case installs one.
type FT struct{ S string }

// ---------------------------------------------------------------------------------
// bytes-form

type AJSON struct {
	Out string
	Err bool
	Cls string
}

func bytesBehaviour(out string, fail bool, cls string) ([]byte, error) {
	saw(cls)
	if cls == "json-panic" {
		panic(run.UserPanic{Tag: cls})
	}
	if cls == "json-unsup" {
		return []byte(out), errors.ErrUnsupported
	}
	if fail {
		return []byte(out), errUser
	}
	return []byte(out), nil
}

func (a AJSON) MarshalJSON() ([]byte, error) { return bytesBehaviour(a.Out, a.Err, a.Cls) }

type APJSON struct {
	Out string
	Err bool
	Cls string
}

func (a *APJSON) MarshalJSON() ([]byte, error) {
	if a == nil {
		saw("json-nil-receiver")
		return []byte("null"), nil
	}
	return bytesBehaviour(a.Out, a.Err, a.Cls)
}

// FB has no methods: handled by a MarshalFunc when installed.
type FB struct {
	Out string
	Err bool
	Cls string
}

// ---------------------------------------------------------------------------------
// text-form

type AText struct {
	Out string
	Err bool
	Cls string
	ID  int // distinguishes map keys that marshal to the same text
}

func (a AText) MarshalText() ([]byte, error) {
	saw(a.Cls)
	if a.Cls == "text-panic" {
		panic(run.UserPanic{Tag: a.Cls})
	}
	if a.Err {
		return []byte(a.Out), errUser
	}
	return []byte(a.Out), nil
}

type AAppend struct {
	Out  string
	Mode string // "" conforming | "drop" (returns a slice that does not extend its argument) | "trunc" (cuts into its argument) | "scribble" (overwrites its argument)
	Err  bool
	Cls  string
	ID   int
}

func (a AAppend) AppendText(b []byte) ([]byte, error) {
	saw(a.Cls)
	var err error
	if a.Err {
		err = errUser
	}
	switch a.Mode {
	case "drop":
		return []byte(a.Out), err
	case "trunc":
		k := min(len(b), 1+a.ID%4)
		return append(b[:len(b)-k], a.Out...), err
	case "scribble":
		for i := range b {
			b[i] = 'X' // overwrite whatever the library handed us before appending
		}
	}
	return append(b, a.Out...), err
}

// ---------------------------------------------------------------------------------
// caller-supplied functions

func fragFor(s string) (string, string) {
	h := 0
	for i := 0; i < len(s); i++ {
		h = h*31 + int(s[i])
	}
	if h < 0 {
		h = -h
	}
	switch h % 7 {
	case 0:
		return `{"a":1,"a":2}`, "func-string-dup"
	case 1:
		return `"x" 1`, "func-string-two"
	case 2:
		return "\"\xff\"", "func-string-invalid-utf8"
	case 3:
		return `17`, "func-string-nonstring"
	}
	return `"fs"`, "func-string-ok"
}

var marshalerSets = map[string]*json.Marshalers{
	"ftfb": json.JoinMarshalers(
		json.MarshalToFunc(func(e *jsontext.Encoder, v FT) error { return runScript(e, v.S) }),
		json.MarshalFunc(func(v *FB) ([]byte, error) { return bytesBehaviour(v.Out, v.Err, v.Cls) }),
	),
	"skipany": json.JoinMarshalers(
		json.MarshalToFunc(func(e *jsontext.Encoder, v any) error { saw("func-any-skip"); return errors.ErrUnsupported }),
		json.MarshalToFunc(func(e *jsontext.Encoder, v *FT) error { return runScript(e, v.S) }),
		json.MarshalFunc(func(v FB) ([]byte, error) { return bytesBehaviour(v.Out, v.Err, v.Cls) }),
	),
	"string": json.JoinMarshalers(
		json.MarshalFunc(func(s string) ([]byte, error) {
			out, cls := fragFor(s)
			saw(cls)
			return []byte(out), nil
		}),
		json.MarshalToFunc(func(e *jsontext.Encoder, v FT) error { return runScript(e, v.S) }),
	),
}

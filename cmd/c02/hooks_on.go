//go:build verif

package main

import (
	json "github.com/go-json-experiment/json"

	"verif/run"
)

var lastAny int64

// countHooks attributes cases to the specialised marshaler for any (path counter H6).
func countHooks(w *run.W) {
	n := json.VerifPointCount[json.VerifMarshalValueAny].Load()
	if n != lastAny {
		w.Count("hook_cases_through_marshalValueAny", 1)
		lastAny = n
	}
}

// C02 — Marshal never emits malformed JSON, whatever the value or user code does.
//
// Generated Go values over a reflect-built type universe with adversarial user types at random
// positions (behaviour scripts carried in the values) are marshaled under random option sets
// through every entry point; whenever the call returns a nil error the produced bytes must be
// exactly one JSON value that the independent reference parser accepts under the effective
// AllowInvalidUTF8 / AllowDuplicateNames settings.  Library panics are caught by the harness.
package main

import (
	"bytes"
	"fmt"
	"math/rand/v2"
	"reflect"
	"sort"
	"strings"

	json "github.com/go-json-experiment/json"
	"github.com/go-json-experiment/json/jsontext"
	v1 "github.com/go-json-experiment/json/v1"

	"verif/ref"
	"verif/run"
)

type optEntry struct {
	name     string
	o        json.Options
	inv, dup int  // 0 no effect, +1 sets true, -1 sets false
	ws       bool // whitespace option: switches the no-whitespace fast paths off
	enc      bool // jsontext-level (goes to NewEncoder on the MarshalEncode routes)
}

var optPool = []optEntry{
	{name: "AllowInvalidUTF8", o: jsontext.AllowInvalidUTF8(true), inv: +1, enc: true},
	{name: "AllowInvalidUTF8=0", o: jsontext.AllowInvalidUTF8(false), inv: -1, enc: true},
	{name: "AllowDuplicateNames", o: jsontext.AllowDuplicateNames(true), dup: +1, enc: true},
	{name: "AllowDuplicateNames=0", o: jsontext.AllowDuplicateNames(false), dup: -1, enc: true},
	{name: "AllowInvalidUTF8", o: jsontext.AllowInvalidUTF8(true), inv: +1, enc: true},
	{name: "AllowDuplicateNames", o: jsontext.AllowDuplicateNames(true), dup: +1, enc: true},
	{name: "Deterministic", o: json.Deterministic(true)},
	{name: "Deterministic", o: json.Deterministic(true)},
	{name: "Multiline", o: jsontext.Multiline(true), ws: true, enc: true},
	{name: "SpaceAfterComma", o: jsontext.SpaceAfterComma(true), ws: true, enc: true},
	{name: "SpaceAfterColon", o: jsontext.SpaceAfterColon(true), ws: true, enc: true},
	{name: "WithIndent", o: jsontext.WithIndent("\t"), ws: true, enc: true},
	{name: "DefaultOptionsV1", o: v1.DefaultOptionsV1(), inv: +1, dup: +1},
	{name: "DefaultOptionsV1", o: v1.DefaultOptionsV1(), inv: +1, dup: +1},
	{name: "DefaultOptionsV2", o: json.DefaultOptionsV2(), inv: -1, dup: -1},
	{name: "CallMethodsWithLegacySemantics", o: v1.CallMethodsWithLegacySemantics(true)},
	{name: "FormatByteArrayAsArray", o: v1.FormatByteArrayAsArray(true)},
	{name: "FormatBytesWithLegacySemantics", o: v1.FormatBytesWithLegacySemantics(true)},
	{name: "FormatDurationAsNano", o: v1.FormatDurationAsNano(true)},
	{name: "MatchCaseSensitiveDelimiter", o: v1.MatchCaseSensitiveDelimiter(true)},
	{name: "MergeWithLegacySemantics", o: v1.MergeWithLegacySemantics(true)},
	{name: "OmitEmptyWithLegacySemantics", o: v1.OmitEmptyWithLegacySemantics(true)},
	{name: "ReportErrorsWithLegacySemantics", o: v1.ReportErrorsWithLegacySemantics(true)},
	{name: "StringifyWithLegacySemantics", o: v1.StringifyWithLegacySemantics(true)},
	{name: "StringifyNumbers", o: json.StringifyNumbers(true)},
	{name: "EscapeForHTML", o: jsontext.EscapeForHTML(true), enc: true},
	{name: "EscapeForJS", o: jsontext.EscapeForJS(true), enc: true},
	{name: "PreserveRawStrings", o: jsontext.PreserveRawStrings(true), enc: true},
	{name: "CanonicalizeRawInts", o: jsontext.CanonicalizeRawInts(true), enc: true},
	{name: "CanonicalizeRawFloats", o: jsontext.CanonicalizeRawFloats(true), enc: true},
	{name: "ReorderRawObjects", o: jsontext.ReorderRawObjects(true), enc: true},
	{name: "FormatNilSliceAsNull", o: json.FormatNilSliceAsNull(true)},
	{name: "FormatNilMapAsNull", o: json.FormatNilMapAsNull(true)},
	{name: "OmitZeroStructFields", o: json.OmitZeroStructFields(true)},
	{name: "ExperimentalSupportFormatTag", o: json.ExperimentalSupportFormatTag(true)},
}

var apis = []string{"Marshal", "Marshal", "MarshalWrite", "MarshalWriteW", "MarshalEncode", "MarshalEncodeArr", "MarshalEncodeObjVal", "MarshalEncodeObjName"}

var focusClasses = func() []string {
	out := append([]string{}, toClasses...)
	out = append(out, "to-popbelow", "to-popbelow", "to-unsup-after", "to-close-extra")
	out = append(out, jsonClasses...)
	out = append(out, textClasses...)
	out = append(out, "key-nan", "key-collide", "key-nonstring", "key-invalid-utf8")
	return out
}()

type blockArgs struct {
	From int `json:"from"`
	N    int `json:"n"`
}

type oneArgs struct {
	I int `json:"i"`
}

type plainWriter struct{ b []byte }

func (p *plainWriter) Write(b []byte) (int, error) { p.b = append(p.b, b...); return len(b), nil }

func callUser(w *run.W, behaviours func() string, fn func()) (user, aborted bool) {
	defer func() {
		r := recover()
		if r == nil {
			return
		}
		aborted = true
		if _, ok := r.(run.UserPanic); ok {
			user = true
			return
		}
		origin, lib, stack := run.PanicOrigin()
		msg := fmt.Sprint(r)
		if lib {
			w.Violate("library-panic", map[string]string{"func": origin, "panic": classifyPanic(msg), "behaviour": behaviours()},
				"library panicked: %v\n%s", r, stack)
			return
		}
		w.Broken("harness panic (origin %s): %v\n%s", origin, msg, stack)
	}()
	fn()
	return
}

// classifyPanic drops the numbers of a runtime error text.
func classifyPanic(msg string) string {
	var sb strings.Builder
	for _, c := range msg {
		if c >= '0' && c <= '9' {
			if s := sb.String(); !strings.HasSuffix(s, "N") {
				sb.WriteByte('N')
			}
			continue
		}
		sb.WriteRune(c)
	}
	return run.Trunc(sb.String(), 100)
}

type caseDesc struct {
	Type    string   `json:"type"`
	Focus   string   `json:"focus"`
	Opts    []string `json:"opts"`
	API     string   `json:"api"`
	Funcs   string   `json:"funcs"`
	Value   string   `json:"value"`
	Out     string   `json:"out"`
	Err     string   `json:"err"`
	Classes []string `json:"classes"`
}

// adversarialClasses returns the executed non-benign behaviour classes, sorted.
func adversarialClasses() []string {
	rec.mu.Lock()
	defer rec.mu.Unlock()
	var out []string
	for c := range rec.classes {
		switch c {
		case "to-one", "json-valid", "text-plain", "raw-valid", "func-any-skip", "func-string-ok":
			continue
		}
		out = append(out, c)
	}
	sort.Strings(out)
	return out
}

func allClasses() []string {
	rec.mu.Lock()
	defer rec.mu.Unlock()
	var out []string
	for c := range rec.classes {
		out = append(out, c)
	}
	sort.Strings(out)
	return out
}

// behaviourSig is the normalized behaviour attribute of a violation signature.
func behaviourSig() string {
	cls := adversarialClasses()
	for _, c := range cls {
		if c == "to-popbelow" || c == "popped-below-entry" {
			return "pop-below-entry-depth"
		}
	}
	for _, c := range cls {
		if c == "append-drop-prefix" || c == "append-truncate" || c == "append-scribble" {
			return c
		}
	}
	if len(cls) == 0 {
		return "none"
	}
	if len(cls) > 3 {
		cls = append(cls[:3:3], "…")
	}
	return strings.Join(cls, "+")
}

func runOne(w *run.W, i int) {
	r := w.Rand("case", i)
	g := &gctx{r: r}
	if r.IntN(4) > 0 {
		g.focus = focusClasses[r.IntN(len(focusClasses))]
		g.family = familyOf(g.focus)
	}
	resetRec()
	t := g.genType(0)
	if r.IntN(3) == 0 { // make sure adversarial code is at a nested position reasonably often
		t = []reflect.Type{reflect.SliceOf(t), reflect.MapOf(tString, t), reflect.StructOf([]reflect.StructField{{Name: "A", Type: t, Tag: `json:"a"`}, {Name: "B", Type: reflect.TypeFor[int](), Tag: `json:"b"`}})}[r.IntN(3)]
	}
	v := g.genValue(t, 0)
	var in any
	if r.IntN(2) == 0 {
		p := reflect.New(t)
		p.Elem().Set(v)
		in = p.Interface()
	} else {
		in = v.Interface()
	}

	// options
	var names []string
	var encOpts, callOpts, all []json.Options
	inv, dup, ws := false, false, false
	apply := func(e optEntry) {
		switch e.inv {
		case +1:
			inv = true
		case -1:
			inv = false
		}
		switch e.dup {
		case +1:
			dup = true
		case -1:
			dup = false
		}
	}
	var chosen []optEntry
	if strings.HasSuffix(g.focus, "invalid-utf8") && r.IntN(2) == 0 {
		chosen = append(chosen, optPool[0]) // otherwise these cases nearly always end in the UTF-8 error
	}
	if (strings.HasSuffix(g.focus, "dup") || strings.HasSuffix(g.focus, "dup-names") || g.focus == "key-collide") && r.IntN(3) == 0 {
		chosen = append(chosen, optPool[2])
	}
	if strings.Contains(t.String(), "format:") && r.IntN(4) > 0 {
		chosen = append(chosen, optPool[len(optPool)-1]) // the `format` tag is refused without it
	}
	for k := []int{0, 0, 1, 1, 2, 3, 4}[r.IntN(7)]; k > 0; k-- {
		chosen = append(chosen, optPool[r.IntN(len(optPool))])
	}
	api := apis[r.IntN(len(apis))]
	encodeRoute := strings.HasPrefix(api, "MarshalEncode")
	splitEnc := encodeRoute && r.IntN(2) == 0
	// effective settings: last one wins; on the split route the call options come after the encoder's
	if splitEnc {
		sort.SliceStable(chosen, func(a, b int) bool { return chosen[a].enc && !chosen[b].enc })
	}
	for _, e := range chosen {
		names = append(names, e.name)
		all = append(all, e.o)
		ws = ws || e.ws
		apply(e)
		if splitEnc && e.enc {
			encOpts = append(encOpts, e.o)
		} else {
			callOpts = append(callOpts, e.o)
		}
	}
	funcs := []string{"", "", "", "ftfb", "ftfb", "skipany", "string"}[r.IntN(7)]
	if funcs != "" {
		callOpts = append(callOpts, json.WithMarshalers(marshalerSets[funcs]))
		all = append(all, json.WithMarshalers(marshalerSets[funcs]))
	}
	if !encodeRoute {
		encOpts, callOpts = nil, all
	} else if !splitEnc {
		encOpts, callOpts = all, nil
		if funcs != "" { // marshalers are a json-level option
			encOpts, callOpts = all[:len(all)-1], all[len(all)-1:]
		}
	}

	var out []byte
	var err error
	var closeErr error
	prefixElems := 0
	user, aborted := callUser(w, behaviourSig, func() {
		switch api {
		case "Marshal":
			out, err = json.Marshal(in, callOpts...)
		case "MarshalWrite":
			var bb bytes.Buffer
			err = json.MarshalWrite(&bb, in, callOpts...)
			out = bb.Bytes()
		case "MarshalWriteW":
			var pw plainWriter
			err = json.MarshalWrite(&pw, in, callOpts...)
			out = pw.b
		default:
			var bb bytes.Buffer
			enc := jsontext.NewEncoder(&bb, encOpts...)
			var pre, post []jsontext.Token
			switch api {
			case "MarshalEncodeArr":
				pre = []jsontext.Token{jsontext.BeginArray}
				for prefixElems = r.IntN(3); len(pre) <= prefixElems; {
					pre = append(pre, jsontext.Int(int64(len(pre))))
				}
				post = []jsontext.Token{jsontext.EndArray}
			case "MarshalEncodeObjVal":
				pre = []jsontext.Token{jsontext.BeginObject, jsontext.String("k")}
				post = []jsontext.Token{jsontext.EndObject}
			case "MarshalEncodeObjName":
				pre = []jsontext.Token{jsontext.BeginObject}
				post = []jsontext.Token{jsontext.Int(1), jsontext.EndObject}
			}
			for _, tk := range pre {
				if e := enc.WriteToken(tk); e != nil {
					w.Broken("harness prefix token refused: %v", e)
					return
				}
			}
			err = json.MarshalEncode(enc, in, callOpts...)
			if err == nil {
				for _, tk := range post {
					if e := enc.WriteToken(tk); e != nil {
						closeErr = e
						break
					}
				}
			}
			out = bb.Bytes()
		}
	})
	w.Eval(1)
	if aborted && !user {
		return // library panic (reported) or harness malfunction
	}
	cls := allClasses()
	adv := adversarialClasses()
	outcome := "err"
	switch {
	case user:
		outcome = "panic"
	case err == nil:
		outcome = "nil"
	}
	for _, c := range cls {
		w.Count("cls_"+c+"_"+outcome, 1)
	}
	w.Count("api_"+api+"_"+outcome, 1)
	countHooks(w)
	if ws {
		w.Count("route_whitespace_"+outcome, 1)
	} else {
		w.Count("route_fastpath_eligible_"+outcome, 1)
	}
	if user {
		w.Count("user_panics", 1)
		return
	}
	if err != nil {
		w.Count("errors", 1)
		return
	}
	w.Count("nil_error_outputs_validated", 1)
	if ts := t.String(); strings.Contains(ts, "time.") {
		w.Count("nil_error_outputs_with_time_types", 1)
	}
	if len(adv) > 0 {
		w.Count("nil_error_outputs_with_adversarial_code", 1)
	}
	w.Shape(skeleton(t, 0) + "|" + strings.Join(adv, "+") + "|" + fmt.Sprint(inv, dup, ws) + "|" + api)

	desc := func() string {
		d := caseDesc{Type: run.Trunc(t.String(), 600), Focus: g.focus, Opts: names, API: api, Funcs: funcs,
			Value: run.Trunc(fmt.Sprintf("%+v", v.Interface()), 800), Out: run.Trunc(string(out), 800), Err: fmt.Sprint(err), Classes: cls}
		return fmt.Sprintf("case i=%d %+v", i, d)
	}
	apiClass := map[string]string{"Marshal": "marshal", "MarshalWrite": "write", "MarshalWriteW": "write", "MarshalEncode": "encode-top"}[api]
	if apiClass == "" {
		apiClass = "encode-nested"
	}
	violate := func(reason string, format string, a ...any) {
		w.Violate("invalid-output", map[string]string{"behaviour": behaviourSig(), "api": apiClass, "reason": reason}, format+"; "+desc(), a...)
	}
	if closeErr != nil {
		if swallowedNestedError() {
			// User code ignored the error of a nested MarshalEncode.  The library then marks the namespaces it had
			// disabled as invalid "so that future method calls on Encoder will return an error" (state.go,
			// InvalidateDisabledNamespaces) - the caller-held encoder refuses to go on although the outer call,
			// which wrote exactly one value, returned nil.  The property speaks about the bytes of a nil-error
			// call, not about the encoder afterwards: observed, not demanded (the bytes cannot be completed and
			// therefore cannot be judged here; the same scripts are judged on the other routes).
			w.Count("observed_encoder_refuses_after_swallowed_nested_error", 1)
			return
		}
		violate("encoder-state", "MarshalEncode returned nil but the harness's closing token was refused: %v", closeErr)
		return
	}
	node := ref.Parse(out, ref.Opts{AllowInvalidUTF8: inv, AllowDup: dup})
	if node == nil {
		reason := "syntax-or-not-one-value"
		if ref.Parse(out, ref.Opts{AllowInvalidUTF8: true, AllowDup: true}) != nil {
			if ref.Parse(out, ref.Opts{AllowInvalidUTF8: true, AllowDup: dup}) == nil {
				reason = "duplicate-name"
			} else {
				reason = "invalid-utf8"
			}
		}
		violate(reason, "nil error but the output is not exactly one JSON value valid under AllowInvalidUTF8=%v AllowDuplicateNames=%v", inv, dup)
		return
	}
	// exactly one value was added at the entry depth
	switch api {
	case "MarshalEncodeArr":
		if node.Kind != ref.Array || len(node.Elems) != prefixElems+1 {
			violate("not-one-value-at-entry-depth", "the enclosing array has %d elements, the harness wrote %d before the call", len(node.Elems), prefixElems)
		}
	case "MarshalEncodeObjVal", "MarshalEncodeObjName":
		if node.Kind != ref.Object || len(node.Members) != 1 || (api == "MarshalEncodeObjVal" && node.Members[0].Name != "k") ||
			(api == "MarshalEncodeObjName" && node.Members[0].Value.Raw != "1") {
			violate("not-one-value-at-entry-depth", "the enclosing object does not consist of exactly the harness's member plus one value")
		}
	}
	if w.WantSample() && len(adv) > 0 {
		w.Sample(map[string]any{"i": i, "type": run.Trunc(t.String(), 200), "classes": cls, "opts": names, "api": api, "out": run.Trunc(string(out), 200)})
	}
}

var M = &run.Monitor{
	ID:    "C02",
	Level: "exploration",
	Rule: "cases: reflect-built types (scalars, strings with ill-formed UTF-8, bytes, slices, arrays, maps over 15 key types incl. NaN floats / text-marshaler keys / colliding keys, pointers, interfaces, " +
		"structs with random tags, embedded structs, both fallback kinds, 63-140 fields, jsontext.Value fields) with adversarial user types (MarshalJSONTo value/pointer receiver, MarshalJSON, MarshalText, AppendText, " +
		"MarshalToFunc/MarshalFunc incl. functions on string and on any) whose behaviour script is carried in the value (16 coder-form, 9 bytes-form, 9 text-form classes, strict and sloppy), " +
		"0-4 random options out of 35 (all v1 flags, whitespace options, UTF-8/duplicate switches), 8 entry routes (Marshal, MarshalWrite to bytes.Buffer and plain writer, MarshalEncode at top level / inside array / as member value / as member name). " +
		"distinct = type skeleton x executed adversarial classes x (invalidUTF8, duplicates, whitespace) x route",
	Assumptions: []string{
		"reference parser /verif/ref (RFC 8259 + RFC 7493 strictness switches)",
		"effective AllowInvalidUTF8/AllowDuplicateNames computed by the harness as last-one-wins over the options it passed (DefaultOptionsV1 sets both, DefaultOptionsV2 clears both)",
		"panics carrying run.UserPanic are user behaviour",
	},
	Floors: func(c map[string]int64, tier string) []string {
		var u []string
		need := func(k string, n int64) {
			if c[k] < n {
				u = append(u, fmt.Sprintf("%s=%d < %d", k, c[k], n))
			}
		}
		need("nil_error_outputs_validated", 5000)
		need("nil_error_outputs_with_adversarial_code", 2000)
		need("errors", 5000)
		need("user_panics", 100)
		need("route_whitespace_nil", 500)
		need("route_fastpath_eligible_nil", 2000)
		classes := append(append(append([]string{}, toClasses...), jsonClasses...), textClasses...)
		classes = append(classes, "fallback-names-field", "key-nan", "key-collide", "key-nonstring", "key-invalid-utf8", "raw-dup", "raw-invalid", "raw-invalid-utf8", "func-string-dup", "func-any-skip")
		for _, cl := range classes {
			if n := c["cls_"+cl+"_nil"] + c["cls_"+cl+"_err"] + c["cls_"+cl+"_panic"]; n < 50 {
				u = append(u, fmt.Sprintf("behaviour class %s observed %d < 50 times", cl, n))
			}
		}
		for _, a := range apis {
			need("api_"+a+"_nil", 300)
		}
		return u
	},
	SelfTest: selfTest,
}

// selfTest: the harness's effective-option table against explicit expectations, and the
// reference parser's two strictness switches on the fragments of the adversarial pool
// (ground truth by construction of the pool: its class labels).
func selfTest() error {
	for _, f := range frags {
		strict := ref.Parse([]byte(f.s), ref.Opts{}) != nil
		loose := ref.Parse([]byte(f.s), ref.Opts{AllowInvalidUTF8: true, AllowDup: true}) != nil
		var wantStrict, wantLoose bool
		switch f.cls {
		case "json-valid", "json-ws":
			wantStrict, wantLoose = true, true
		case "json-dup", "json-invalid-utf8":
			wantStrict, wantLoose = false, true
		}
		if strict != wantStrict || loose != wantLoose {
			return fmt.Errorf("fragment %q labelled %s: reference strict=%v permissive=%v", f.s, f.cls, strict, loose)
		}
	}
	r := rand.New(rand.NewPCG(1, 2))
	for _, cl := range toClasses {
		for k := 0; k < 20; k++ {
			s := genToScript(r, cl)
			if !strings.HasPrefix(s, cl+"|") {
				return fmt.Errorf("script of class %s does not carry its label: %q", cl, s)
			}
		}
	}
	return nil
}

func main() {
	run.Def(M, "block", func(w *run.W, a *blockArgs) {
		for i := a.From; i < a.From+a.N; i++ {
			runOne(w, i)
		}
	})
	run.Def(M, "one", func(w *run.W, a *oneArgs) { runOne(w, a.I) })
	M.Gen = func(w *run.W) {
		total := w.Pick(600000, 6000000)
		const blk = 250
		for b := 0; b*blk < total; b++ {
			if w.Mine(b) {
				w.Do("block", &blockArgs{From: b * blk, N: blk})
			}
		}
	}
	run.Main(M)
}

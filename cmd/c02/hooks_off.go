//go:build !verif

package main

import "verif/run"

func countHooks(w *run.W) {}

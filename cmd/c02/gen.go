package main

import (
	"fmt"
	"math"
	"math/rand/v2"
	"reflect"
	"strconv"
	"strings"
	"time"
	"unicode/utf8"

	"github.com/go-json-experiment/json/jsontext"
)

// pools

var frags = []struct{ s, cls string }{
	{`null`, "json-valid"}, {`1`, "json-valid"}, {`"a"`, "json-valid"}, {`"b"`, "json-valid"}, {`{}`, "json-valid"}, {`[]`, "json-valid"},
	{`{"a":1}`, "json-valid"}, {`{"b":{"c":[1,{"d":"\u0000"}]}}`, "json-valid"}, {`-0.0e+5`, "json-valid"}, {`"é😀"`, "json-valid"},
	{` "a" `, "json-ws"}, {"\n[ 1 , 2 ]\t", "json-ws"}, {"{ \"a\" : 1 }", "json-ws"},
	{`{"a":1,"a":2}`, "json-dup"}, {`{"a":1,"a":2}`, "json-dup"}, {`[{"x":{"k":1,"k":1}}]`, "json-dup"},
	{"\"\xff\"", "json-invalid-utf8"}, {`"\ud800"`, "json-invalid-utf8"}, {"{\"\xc0\x80\":1}", "json-invalid-utf8"}, {"{\"\xff\":1,\"\xfe\":2}", "json-invalid-utf8"},
	{`[1,2`, "json-invalid"}, {`{"a"`, "json-invalid"}, {``, "json-invalid"}, {` `, "json-invalid"}, {`1 2`, "json-invalid"}, {`tru`, "json-invalid"},
	{`01`, "json-invalid"}, {`"x"y`, "json-invalid"}, {`[1,]`, "json-invalid"}, {"\"\n\"", "json-invalid"}, {`-`, "json-invalid"}, {`{"a":1}}`, "json-invalid"},
	{`]`, "json-invalid"}, {`"a":1`, "json-invalid"}, {`1e999`, "json-valid"}, {`nul`, "json-invalid"}, {`{1:2}`, "json-invalid"}, {`"\x"`, "json-invalid"},
}

var texts = []struct{ s, cls string }{
	{``, "text-plain"}, {`a`, "text-plain"}, {`b`, "text-plain"}, {strings.Repeat("k", 100), "text-plain"}, {"héllo", "text-plain"},
	{`a"b`, "text-escape"}, {`\`, "text-escape"}, {"\x00", "text-escape"}, {"<>&", "text-escape"}, {"  ", "text-escape"}, {"a\nb", "text-escape"}, {`","x":"`, "text-escape"},
	{"\xff", "text-invalid-utf8"}, {"\xed\xa0\x80", "text-invalid-utf8"}, {"a\xc0", "text-invalid-utf8"}, {"\xfe", "text-invalid-utf8"},
}

// coder-form script generators by class
var toClasses = []string{"to-one", "to-zero", "to-two", "to-open", "to-close-extra", "to-popbelow", "to-unsup-before", "to-unsup-after",
	"to-err-mid", "to-panic", "to-reset", "to-invalid-utf8", "to-dup-names", "to-bad-value", "to-nested", "to-nested-fail", "to-random"}

func genToScript(r *rand.Rand, class string) string {
	strict := r.IntN(2) == 0
	pick := func(a ...[]string) []string { return a[r.IntN(len(a))] }
	var ops []string
	switch class {
	case "to-one":
		ops = pick([]string{"Sa"}, []string{"{", "Sa", "Ixx", "}"}, []string{"V[1,2]"}, []string{"[", "]"}, []string{"n"}, []string{"{", "}"}, []string{`V{"k":"v"}`})
	case "to-zero":
	case "to-two":
		ops = pick([]string{"Sa", "Sb"}, []string{"Ix", "n"}, []string{"V1", "V2"}, []string{"[", "]", "{", "}"}, []string{"Sa", "Sa", "Sa"})
	case "to-open":
		ops = pick([]string{"{"}, []string{"["}, []string{"[", "Sa"}, []string{"{", "Sk"}, []string{"{", "Sk", "Ix"}, []string{"[", "["}, []string{"Sa", "["})
	case "to-close-extra":
		ops = pick([]string{"Sa", "]"}, []string{"Sa", "}"}, []string{"]"}, []string{"}"}, []string{"Sa", "n", "}"}, []string{"Sa", "]", "]"})
	case "to-popbelow":
		ops = pick([]string{"A"}, []string{"Sa", "]", "[", "Sa"}, []string{"Sa", "}", "{", "Sb", "Sc"}, []string{"Sa", "n", "}", "{", "Sb"}, []string{"Sa", "]", "[", "Sa", "Sb"})
	case "to-unsup-before":
		ops = []string{"U"}
	case "to-unsup-after":
		ops = pick([]string{"Sa", "U"}, []string{"[", "U"}, []string{"[", "]", "U"}, []string{"Sa", "]", "[", "U"}, []string{"{", "Sa", "U"})
	case "to-err-mid":
		ops = pick([]string{"{", "Sk", "E"}, []string{"E"}, []string{"Sa", "E"}, []string{"[", "E"})
	case "to-panic":
		ops = pick([]string{"P"}, []string{"{", "Sk", "P"}, []string{"Sa", "P"}, []string{"[", "[", "P"})
	case "to-reset":
		ops = pick([]string{"R", "Sa"}, []string{"[", "R", "]"}, []string{"Sa", "R"})
	case "to-invalid-utf8":
		ops = pick([]string{"S\xff"}, []string{"V\"\xff\""}, []string{"{", "S\xff", "Ix", "}"}, []string{"{", "S\xff", "Ix", "S\xfe", "Ix", "}"}, []string{"S\xed\xa0\x80"})
	case "to-dup-names":
		ops = pick([]string{"{", "Sa", "Ix", "Sa", "Ixx", "}"}, []string{`V{"a":1,"a":2}`}, []string{"{", "Sa", `V{"b":1,"b":2}`, "}"}, []string{"{", "Sa", "n", "Sb", "n", "Sa", "n", "}"})
	case "to-bad-value":
		f := frags[r.IntN(len(frags))]
		ops = []string{"V" + f.s}
		if r.IntN(3) == 0 {
			ops = append(ops, "Sa")
		}
	case "to-nested":
		ops = pick([]string{"Nm"}, []string{"Nl"}, []string{"Nd"}, []string{"Nt"}, []string{"Np"}, []string{"[", "Nm", "Nt", "]"}, []string{"{", "Sk", "Nd", "}"}, []string{"Nt", "Nt"})
	case "to-nested-fail":
		// a nested MarshalEncode that fails part-way (inside an array or object it opened), its error ignored,
		// and the rest completed by hand - with names the failed call had already written
		strict = false
		ops = pick([]string{"Nf", "]", "SList", "Ix", "}"}, []string{"Nf", "Sx", "]", "SList", "n", "}"},
			[]string{"Ng", "n", "Sz", "n", "}", "]", "Sk", "n", "}"}, []string{"Ng", "n", "}", "]", "Sk", "n", "}"},
			[]string{"Nh", "n", "Sx", "n", "}", "SA", "Ix", "}"}, []string{"Nh", "n", "}", "SM", "n", "}"},
			[]string{"[", "Nf", "]", "SList", "Ix", "}", "]"}, []string{"{", "Sq", "Nh", "n", "}", "SA", "n", "}", "Sq", "n", "}"})
	case "to-random":
		toks := []string{"{", "}", "[", "]", "n", "t", "Sa", "Sb", "Sa", "Ix", "S\xff", "S", "F", "A", "R", "Nm"}
		for i, n := 0, r.IntN(8); i < n; i++ {
			switch r.IntN(10) {
			case 0:
				ops = append(ops, "V"+frags[r.IntN(len(frags))].s)
			default:
				ops = append(ops, toks[r.IntN(len(toks))])
			}
		}
		switch r.IntN(10) {
		case 0:
			ops = append(ops, "U")
		case 1:
			ops = append(ops, "E")
		}
	default:
		panic("bad class " + class)
	}
	return mkScript(class, strict, ops...)
}

var (
	tATo     = reflect.TypeFor[ATo]()
	tAPTo    = reflect.TypeFor[APTo]()
	tFT      = reflect.TypeFor[FT]()
	tAJSON   = reflect.TypeFor[AJSON]()
	tAPJSON  = reflect.TypeFor[APJSON]()
	tFB      = reflect.TypeFor[FB]()
	tAText   = reflect.TypeFor[AText]()
	tAAppend = reflect.TypeFor[AAppend]()
	tRaw     = reflect.TypeFor[jsontext.Value]()
	tString  = reflect.TypeFor[string]()
	tAny     = reflect.TypeFor[any]()
)

var (
	tTime     = reflect.TypeFor[time.Time]()
	tDuration = reflect.TypeFor[time.Duration]()
)

var leafTypes = []reflect.Type{reflect.TypeFor[int](), tString, reflect.TypeFor[float64](), reflect.TypeFor[bool](), reflect.TypeFor[[]byte](), tAny,
	reflect.TypeFor[uint8](), reflect.TypeFor[float32](), reflect.TypeFor[int64](), reflect.TypeFor[[3]byte](), reflect.TypeFor[uint64](), tTime, tDuration}

const bsl = "\\" // one backslash

var timeFormats = []string{"RFC3339", "RFC3339Nano", "unix", "unixnano", "RFC1123", "Kitchen", "DateOnly", "UnixDate", "RFC822", "RFC850", "Mon MST 2006", "MST", "2006-01-02T15\"04", "Jan _2 " + bsl + " <&> 15h", "2006\t01", "2006 \u2028 01", "bogus"}
var durFormats = []string{"units", "sec", "milli", "nano", "iso8601", "bogus"}

// quoteTagOption renders s as a single-quoted struct tag option (backslash escapes).
func quoteTagOption(s string) string {
	return "'" + strings.NewReplacer(bsl, bsl+bsl, "'", bsl+"'").Replace(s) + "'"
}

func formatTag(layout string) reflect.StructTag {
	opt := layout
	for _, c := range layout {
		if !(c >= 'a' && c <= 'z' || c >= 'A' && c <= 'Z' || c >= '0' && c <= '9') {
			opt = quoteTagOption(layout)
			break
		}
	}
	return reflect.StructTag("json:" + strconv.Quote(",format:"+opt))
}

var families = map[string][]reflect.Type{
	"to":   {tATo, tAPTo, tFT, tATo, reflect.PointerTo(tAPTo)},
	"json": {tAJSON, tAPJSON, tFB, tRaw, tRaw},
	"text": {tAText, tAAppend},
}

type gctx struct {
	r       *rand.Rand
	focus   string // behaviour class most adversarial values of this case use ("" = mixed)
	family  string
	bigDone bool
	benign  bool
}

func familyOf(class string) string {
	switch {
	case strings.HasPrefix(class, "to-"):
		return "to"
	case strings.HasPrefix(class, "json-"), strings.HasPrefix(class, "raw-"):
		return "json"
	case strings.HasPrefix(class, "text-"), strings.HasPrefix(class, "append-"):
		return "text"
	case strings.HasPrefix(class, "key-"):
		return "key"
	}
	return ""
}

func (g *gctx) advType() reflect.Type {
	fam := g.family
	if fam == "" || fam == "key" || g.r.IntN(4) == 0 {
		fam = []string{"to", "json", "text"}[g.r.IntN(3)]
	}
	f := families[fam]
	return f[g.r.IntN(len(f))]
}

func (g *gctx) keyType() reflect.Type {
	keys := []reflect.Type{tString, tString, reflect.TypeFor[int](), reflect.TypeFor[float64](), tAText, tAText, tAAppend, tAJSON, tATo, reflect.TypeFor[bool](),
		tAny, reflect.TypeFor[uint16](), reflect.TypeFor[[2]int](), reflect.TypeFor[float32](), reflect.PointerTo(tAText)}
	if g.family == "key" && g.r.IntN(3) > 0 {
		keys = []reflect.Type{tString, reflect.TypeFor[float64](), tAText, tAAppend, tAJSON, tATo, reflect.TypeFor[float32]()}
	}
	return keys[g.r.IntN(len(keys))]
}

func (g *gctx) genType(depth int) reflect.Type {
	r := g.r
	k := r.IntN(16)
	if depth >= 3 {
		k = r.IntN(8)
	}
	switch {
	case k < 3:
		return leafTypes[r.IntN(len(leafTypes))]
	case k < 8:
		return g.advType()
	case k == 8:
		return reflect.SliceOf(g.genType(depth + 1))
	case k == 9:
		return reflect.PointerTo(g.genType(depth + 1))
	case k == 10 || k == 11:
		return reflect.MapOf(g.keyType(), g.genType(depth+1))
	case k == 12:
		return reflect.ArrayOf(r.IntN(3), g.genType(depth+1))
	default:
		return g.genStruct(depth)
	}
}

func (g *gctx) genStruct(depth int) reflect.Type {
	r := g.r
	n := 1 + r.IntN(5)
	big := false
	if !g.bigDone && depth <= 1 && r.IntN(25) == 0 {
		// straddle the 64 / 128 field boundaries of the struct-local duplicate set
		n = []int{63, 64, 65, 66, 127, 128, 129, 140}[r.IntN(8)]
		big, g.bigDone = true, true
	}
	var fs []reflect.StructField
	hasFallback := false
	for i := 0; i < n; i++ {
		f := reflect.StructField{Name: fmt.Sprintf("F%d", i)}
		if big && i < n-3 {
			f.Type = leafTypes[r.IntN(3)]
			if r.IntN(10) == 0 {
				f.Tag = `json:",omitempty"`
			}
			fs = append(fs, f)
			continue
		}
		f.Type = g.genType(depth + 1)
		if big && i == n-1 && !hasFallback {
			// a fallback behind 63..140 ordinary fields: its member names are checked against
			// the struct-local set of field indexes
			f.Type = []reflect.Type{tRaw, reflect.MapOf(tString, reflect.TypeFor[int]())}[r.IntN(2)]
			f.Tag = `json:",embed"`
			hasFallback = true
			fs = append(fs, f)
			continue
		}
		switch r.IntN(12) {
		case 0:
			f.Tag = `json:",omitempty"`
		case 1:
			f.Tag = reflect.StructTag(fmt.Sprintf(`json:"%s"`, []string{"a", "b", "F0", "k", "p0", "own"}[r.IntN(6)]))
			for _, h := range fs {
				if h.Tag == f.Tag {
					f.Tag = ""
				}
			}
		case 2:
			f.Tag = `json:",omitzero"`
		case 3, 4:
			if !hasFallback {
				if r.IntN(2) == 0 {
					f.Type = tRaw
				} else {
					f.Type = reflect.MapOf(tString, g.genType(depth+1))
				}
				f.Tag = `json:",embed"`
				hasFallback = true
			}
		case 5:
			// embedded (inlined) struct: only method-free struct types may be embedded
			if st := g.genStruct(depth + 1); st.Kind() == reflect.Struct {
				f.Type = st
				if r.IntN(2) == 0 {
					f.Type = reflect.PointerTo(st)
				}
				f.Tag = `json:",embed"`
			}
		case 6:
			f.Tag = `json:",string"`
		case 7:
			f.Tag = `json:",omitempty,omitzero"`
		case 8:
			// (the last four spell ill-formed UTF-8 in pairs that become equal once each bad byte is U+FFFD)
			name := []string{"q\"uote", "sp ace", "\u2028", "<&>", "\u00e9", "a" + bsl + "b", " ", "id\xff", "id\xfe", "\xc3", "\xff"}[r.IntN(11)]
			f.Tag = reflect.StructTag("json:" + strconv.Quote(quoteTagOption(name)))
			if !utf8.ValidString(name) {
				// (a single-quoted name is sanitized by the tag parser's unquoting; only a bare name keeps its bytes)
				f.Tag = reflect.StructTag("json:" + strconv.Quote(name))
			}
			if partner, ok := map[string]string{"id\xff": "id\xfe", "id\xfe": "id\xff", "\xc3": "\xff", "\xff": "\xc3"}[name]; ok && r.IntN(2) == 0 {
				// a sibling whose different bytes read as the same text
				fs = append(fs, reflect.StructField{Name: fmt.Sprintf("G%d", i), Type: g.genType(depth + 1),
					Tag: reflect.StructTag("json:" + strconv.Quote(partner))})
			}
		}
		if f.Tag == "" && r.IntN(4) > 0 {
			switch f.Type {
			case tTime:
				f.Tag = formatTag(timeFormats[r.IntN(len(timeFormats))])
			case tDuration:
				f.Tag = formatTag(durFormats[r.IntN(len(durFormats))])
			}
		}
		fs = append(fs, f)
	}
	return reflect.StructOf(fs)
}

func (g *gctx) classFor(fam string, def []string) string {
	if g.focus != "" && familyOf(g.focus) == fam && g.r.IntN(5) > 0 {
		return g.focus
	}
	return def[g.r.IntN(len(def))]
}

var jsonClasses = []string{"json-valid", "json-valid", "json-ws", "json-dup", "json-invalid-utf8", "json-invalid", "json-err", "json-unsup", "json-panic"}
var textClasses = []string{"text-plain", "text-plain", "text-escape", "text-invalid-utf8", "text-err", "text-panic", "append-drop-prefix", "append-truncate", "append-scribble"}

func pickFrag(r *rand.Rand, cls string) string {
	for tries := 0; tries < 200; tries++ {
		f := frags[r.IntN(len(frags))]
		if f.cls == cls {
			return f.s
		}
	}
	return `null`
}

func pickText(r *rand.Rand, cls string) string {
	for tries := 0; tries < 200; tries++ {
		f := texts[r.IntN(len(texts))]
		if f.cls == cls {
			return f.s
		}
	}
	return "a"
}

func (g *gctx) bytesVal() (out string, fail bool, cls string) {
	cls = g.classFor("json", jsonClasses)
	switch cls {
	case "json-err":
		return frags[g.r.IntN(len(frags))].s, true, cls
	case "json-unsup", "json-panic":
		return `"a"`, false, cls
	}
	return pickFrag(g.r, cls), false, cls
}

func (g *gctx) genValue(t reflect.Type, depth int) reflect.Value {
	r := g.r
	v := reflect.New(t).Elem()
	switch t {
	case tATo, tAPTo, tFT:
		v.Field(0).SetString(genToScript(r, g.classFor("to", toClasses)))
		return v
	case tAJSON, tAPJSON, tFB:
		out, fail, cls := g.bytesVal()
		v.Field(0).SetString(out)
		v.Field(1).SetBool(fail)
		v.Field(2).SetString(cls)
		return v
	case tAText:
		cls := g.classFor("text", textClasses[:6])
		if strings.HasPrefix(cls, "append-") {
			cls = "text-plain"
		}
		base := cls
		if cls == "text-err" || cls == "text-panic" {
			base = "text-plain"
		}
		v.Field(0).SetString(pickText(r, base))
		v.Field(1).SetBool(cls == "text-err")
		v.Field(2).SetString(cls)
		v.Field(3).SetInt(int64(r.IntN(3)))
		return v
	case tAAppend:
		cls := g.classFor("text", textClasses)
		if cls == "text-panic" {
			cls = "text-plain"
		}
		base := cls
		mode := ""
		switch cls {
		case "text-err":
			base = "text-plain"
		case "append-drop-prefix":
			base, mode = []string{"text-plain", "text-escape"}[r.IntN(2)], "drop"
		case "append-truncate":
			base, mode = "text-plain", "trunc"
		case "append-scribble":
			base, mode = []string{"text-plain", "text-escape"}[r.IntN(2)], "scribble"
		}
		v.Field(0).SetString(pickText(r, base))
		v.Field(1).SetString(mode)
		v.Field(2).SetBool(cls == "text-err")
		v.Field(3).SetString(cls)
		v.Field(4).SetInt(int64(r.IntN(8)))
		return v
	case tRaw:
		if r.IntN(5) > 0 {
			cls := g.classFor("json", jsonClasses[:6])
			if !strings.HasPrefix(cls, "json-") || cls == "json-err" || cls == "json-unsup" || cls == "json-panic" {
				cls = "json-valid"
			}
			v.SetBytes([]byte(pickFrag(r, cls)))
			saw("raw-" + strings.TrimPrefix(cls, "json-"))
		}
		return v
	}
	switch t {
	case tTime:
		ts := []time.Time{{}, time.Date(2000, 1, 2, 3, 4, 5, 678000000, time.UTC), time.Date(12345, 1, 1, 0, 0, 0, 0, time.UTC),
			time.Date(1969, 12, 31, 23, 59, 59, 999999999, time.FixedZone("", -3600*7-60*30))}
		// zone names are user data that layouts with MST copy into the output
		for _, zn := range []string{`A"B`, "A" + bsl, "A\x01B", "A\xffB", "<&>", "Z\u2028", `","x":"`, "\xed\xa0\x80"} {
			ts = append(ts, time.Date(2024, 5, 6, 7, 8, 9, 0, time.FixedZone(zn, 3600)))
		}
		v.Set(reflect.ValueOf(ts[r.IntN(len(ts))]))
		return v
	case tDuration:
		v.SetInt([]int64{0, 1, -1, 1500000000, 3723000000000, math.MinInt64}[r.IntN(6)])
		return v
	}
	switch t.Kind() {
	case reflect.Int, reflect.Int64:
		v.SetInt([]int64{0, 1, -1, 5, math.MaxInt64, math.MinInt64}[r.IntN(6)])
	case reflect.Uint8, reflect.Uint16, reflect.Uint64:
		v.SetUint(uint64(r.IntN(5)))
	case reflect.String:
		if g.benign {
			v.SetString([]string{"", "a", "b<c"}[r.IntN(3)])
			break
		}
		v.SetString(texts[r.IntN(len(texts))].s)
	case reflect.Float64, reflect.Float32:
		if g.benign {
			v.SetFloat([]float64{0, 1.5, -2}[r.IntN(3)])
			break
		}
		v.SetFloat([]float64{0, 1.5, math.NaN(), math.Inf(1), math.Copysign(0, -1), 1e300, 1e-7, 123456789}[r.IntN(8)])
	case reflect.Bool:
		v.SetBool(r.IntN(2) == 0)
	case reflect.Slice:
		if r.IntN(4) == 0 {
			return v
		}
		n := r.IntN(4)
		s := reflect.MakeSlice(t, n, n)
		for i := 0; i < n; i++ {
			s.Index(i).Set(g.genValue(t.Elem(), depth+1))
		}
		v.Set(s)
	case reflect.Array:
		for i := 0; i < t.Len(); i++ {
			v.Index(i).Set(g.genValue(t.Elem(), depth+1))
		}
	case reflect.Map:
		if r.IntN(5) == 0 {
			return v
		}
		m := reflect.MakeMap(t)
		keyFocus := g.family == "key"
		seenText := map[string]bool{}
		for i := r.IntN(4) + btoi(keyFocus); i > 0; i-- {
			k := g.genValue(t.Key(), depth+1)
			switch kt := t.Key(); {
			case kt.Kind() == reflect.Interface:
				if k.IsNil() || !k.Elem().Type().Comparable() || hasUnhashable(k.Elem()) {
					continue
				}
			case kt == tAText || kt == tAAppend:
				if keyFocus && r.IntN(2) == 0 {
					k.Field(0).SetString("a") // distinct keys (ID differs) with the same text
				}
				if seenText[k.Field(0).String()] && !m.MapIndex(k).IsValid() {
					saw("key-collide")
				}
				seenText[k.Field(0).String()] = true
			case kt == tAJSON || kt == tATo || kt.Kind() == reflect.Array:
				saw("key-nonstring")
			case kt.Kind() == reflect.Float64 || kt.Kind() == reflect.Float32:
				if keyFocus && r.IntN(2) == 0 {
					k.SetFloat(math.NaN())
				}
				if k.Float() != k.Float() {
					saw("key-nan")
				}
			case kt.Kind() == reflect.String:
				if keyFocus && r.IntN(2) == 0 {
					k.SetString([]string{"\xff", "\xfe", "a\xc0", "a\xc1"}[r.IntN(4)])
				}
				if !utf8.ValidString(k.String()) {
					saw("key-invalid-utf8")
				}
			}
			m.SetMapIndex(k, g.genValue(t.Elem(), depth+1))
		}
		v.Set(m)
	case reflect.Pointer:
		if r.IntN(5) == 0 {
			return v
		}
		p := reflect.New(t.Elem())
		p.Elem().Set(g.genValue(t.Elem(), depth+1))
		v.Set(p)
	case reflect.Interface:
		if g.family == "key" && r.IntN(3) == 0 {
			// untyped map behind any: the specialised marshaler for any, names that differ as Go
			// strings but not after ill-formed UTF-8 is replaced
			m := map[string]any{}
			for _, k := range [][]string{{"\xff", "\xfe"}, {"a\xc0", "a\xc1"}, {"\xff", "a"}, {"\xed\xa0\x80", "\xfe\xfe\xfe"}}[r.IntN(4)] {
				m[k] = []any{1.5, nil, "x"}[r.IntN(3)]
				if !utf8.ValidString(k) {
					saw("key-invalid-utf8")
				}
			}
			v.Set(reflect.ValueOf(m))
			return v
		}
		if r.IntN(4) > 0 {
			var it reflect.Type
			if r.IntN(2) == 0 {
				it = g.advType()
			} else {
				it = []reflect.Type{tString, reflect.TypeFor[float64](), reflect.TypeFor[bool](), reflect.TypeFor[map[string]any](), reflect.TypeFor[[]any](), reflect.TypeFor[int]()}[r.IntN(6)]
			}
			if depth > 5 {
				it = tString
			}
			v.Set(g.genValue(it, depth+1))
		}
	case reflect.Struct:
		n := t.NumField()
		for i := 0; i < n; i++ {
			f := t.Field(i)
			if n > 60 && i == n-1 && f.Tag == `json:",embed"` && r.IntN(4) > 0 &&
				(f.Type == tRaw || f.Type.Kind() == reflect.Map && f.Type.Key() == tString && f.Type.Elem().Kind() == reflect.Int) {
				// member names that collide with (or just miss) declared fields of high index
				name := fmt.Sprintf("F%d", r.IntN(n+2))
				if f.Type == tRaw {
					v.Field(i).SetBytes([]byte(`{"zz":0,"` + name + `":1}`))
				} else {
					m := reflect.MakeMap(f.Type)
					m.SetMapIndex(reflect.ValueOf(name), reflect.ValueOf(1))
					v.Field(i).Set(m)
				}
				saw("fallback-names-field")
				continue
			}
			g.benign = n > 60 && i < n-3 // the bulk of a wide struct must not fail for unrelated reasons
			v.Field(i).Set(g.genValue(f.Type, depth+1))
			g.benign = false
		}
	}
	return v
}

func btoi(b bool) int {
	if b {
		return 1
	}
	return 0
}

func hasUnhashable(v reflect.Value) bool {
	switch v.Kind() {
	case reflect.Slice, reflect.Map, reflect.Func:
		return true
	case reflect.Interface:
		return !v.IsNil() && hasUnhashable(v.Elem())
	case reflect.Struct:
		for i := 0; i < v.NumField(); i++ {
			if hasUnhashable(v.Field(i)) {
				return true
			}
		}
	case reflect.Array:
		for i := 0; i < v.Len(); i++ {
			if hasUnhashable(v.Index(i)) {
				return true
			}
		}
	}
	return false
}

// skeleton is the shape key of a type: kinds and adversarial type names, bounded depth.
func skeleton(t reflect.Type, depth int) string {
	switch t {
	case tATo, tAPTo, tFT, tAJSON, tAPJSON, tFB, tAText, tAAppend:
		return t.Name()
	case tRaw:
		return "Raw"
	}
	if depth > 3 {
		return "…"
	}
	switch t.Kind() {
	case reflect.Slice:
		return "[]" + skeleton(t.Elem(), depth+1)
	case reflect.Array:
		return fmt.Sprintf("[%d]%s", t.Len(), skeleton(t.Elem(), depth+1))
	case reflect.Pointer:
		return "*" + skeleton(t.Elem(), depth+1)
	case reflect.Map:
		return "map[" + skeleton(t.Key(), depth+1) + "]" + skeleton(t.Elem(), depth+1)
	case reflect.Struct:
		var sb strings.Builder
		sb.WriteString("{")
		n := t.NumField()
		for i := 0; i < n && i < 8; i++ {
			f := t.Field(i)
			sb.WriteString(skeleton(f.Type, depth+1))
			if tag := f.Tag.Get("json"); tag != "" {
				sb.WriteString("`" + tag + "`")
			}
			sb.WriteString(";")
		}
		if n > 8 {
			fmt.Fprintf(&sb, "+%d", n-8)
		}
		sb.WriteString("}")
		return sb.String()
	}
	return t.Kind().String()
}

package main

// Scoping: options passed to MarshalEncode / UnmarshalDecode take precedence for that call
// only; the coder's own options are intact afterwards — on success, on error, and (when
// per-call options were passed) after a user panic.

import (
	"bytes"
	"errors"
	"fmt"
	"math/rand/v2"
	"strings"

	json "github.com/go-json-experiment/json"
	"github.com/go-json-experiment/json/jsontext"

	"verif/run"
)

type scopeArgs struct {
	Side    string `json:"side"`    // encoder | decoder
	Base    []int  `json:"base"`    // atoms the coder is constructed with
	Call    []int  `json:"call"`    // atoms passed to the call
	Outcome string `json:"outcome"` // ok | error | panic | unsupported
	Shape   string `json:"shape"`   // top | string-field | map-value | slice-elem
	Pos     string `json:"pos"`     // top | in-array | in-object  (where the coder stands when the call is made)
	Joined  bool   `json:"joined"`  // per-call options passed as one JoinOptions value
}

var formatTagAtom = func() int {
	for i, a := range atoms {
		if a.name == "ExperimentalSupportFormatTag(true)" {
			return i
		}
	}
	panic("c19: no ExperimentalSupportFormatTag atom")
}()

var scopeOutcomes = []string{"ok", "ok", "error", "panic", "unsupported"}
var scopeShapes = []string{"top", "string-field", "map-value", "slice-elem", "format-field"}
var scopePositions = []string{"top", "top", "in-array", "in-object"}

func genScope(r *rand.Rand, b int) *scopeArgs {
	a := &scopeArgs{Side: [...]string{"encoder", "decoder"}[b%2]}
	a.Base = randSeq(r, nil, 0, 3)
	a.Call = randSeq(r, nil, 0, 3)
	if r.IntN(4) == 0 {
		a.Call = nil
	}
	a.Outcome = scopeOutcomes[r.IntN(len(scopeOutcomes))]
	a.Shape = scopeShapes[r.IntN(len(scopeShapes))]
	a.Pos = scopePositions[r.IntN(len(scopePositions))]
	a.Joined = r.IntN(3) == 0
	if a.Shape == "format-field" {
		// the `format` tag needs the experimental switch, from the coder or from the call
		if r.IntN(2) == 0 {
			a.Base = append(a.Base, formatTagAtom)
		} else {
			a.Call = append(a.Call, formatTagAtom)
		}
	}
	return a
}

// probe is the user type whose methods look at the options in force inside the call.
// What it does is steered through package variables (a worker runs one case at a time),
// so that zero values created by the library behave like the planted one.
type probe struct{ X int }

var (
	probeOutcome string
	probeInside  *vector
	probeCalls   int
)

var errProbe = errors.New("probe: user error")

func (p probe) MarshalJSONTo(e *jsontext.Encoder) error {
	probeCalls++
	if probeCalls > 1 {
		return e.WriteToken(jsontext.String("<probe again>"))
	}
	probeInside = observe(e.Options())
	switch probeOutcome {
	case "error":
		return errProbe
	case "panic":
		panic(run.UserPanic{Tag: "probe"})
	}
	return e.WriteToken(jsontext.String("<probe>"))
}

func (p *probe) UnmarshalJSONFrom(d *jsontext.Decoder) error {
	probeCalls++
	if probeCalls > 1 {
		return d.SkipValue()
	}
	probeInside = observe(d.Options())
	switch probeOutcome {
	case "error":
		return errProbe
	case "panic":
		panic(run.UserPanic{Tag: "probe"})
	}
	return d.SkipValue()
}

// guard runs fn: a harness UserPanic is reported as user=true, a panic raised inside the
// library is recorded as a violation and reported as lib=true, anything else propagates.
func guard(w *run.W, fn func()) (user, lib bool) {
	defer func() {
		if r := recover(); r != nil {
			if _, ok := r.(run.UserPanic); ok {
				user = true
				return
			}
			origin, isLib, stack := run.PanicOrigin()
			if !isLib {
				panic(r)
			}
			lib = true
			msg := fmt.Sprint(r)
			if i := strings.IndexAny(msg, "0123456789["); i > 0 && strings.HasPrefix(msg, "runtime error: ") {
				msg = msg[:i] + "…"
			}
			w.Violate("library-panic", map[string]string{"func": origin, "panic": msg}, "library panicked: %v\n%s", r, run.Trunc(stack, 2500))
		}
	}()
	fn()
	return
}

type withStringField struct {
	A int   `json:",string"`
	P probe `json:",string"`
	B int
}
type withFormatField struct {
	A []byte `json:",format:base32"`
	P probe  `json:",format:xyz"`
	B int
}

func scopeValue(shape string, p probe, unsupported bool) any {
	var bad any = 1.5
	if unsupported {
		bad = make(chan int)
	}
	switch shape {
	case "string-field":
		return struct {
			S withStringField
			U any
		}{withStringField{A: 1, P: p, B: 2}, bad}
	case "format-field":
		return struct {
			S withFormatField
			U any
		}{withFormatField{A: []byte("x"), P: p, B: 2}, bad}
	case "map-value":
		return map[string]any{"k": p, "l": bad}
	case "slice-elem":
		return []any{1.0, p, bad}
	}
	if unsupported {
		return []any{p, bad}
	}
	return p
}

type decTarget interface{ setProbe(p probe) }

type decTop struct{ P probe }
type decString struct {
	A int   `json:",string"`
	P probe `json:",string"`
	U chan int
}
type decFormat struct {
	A []byte `json:",format:base32"`
	P probe  `json:",format:xyz"`
	U chan int
}
type decMap map[string]*probe
type decSlice []probe

func scopeTarget(shape string, p probe) (target any, input string) {
	switch shape {
	case "string-field":
		return &decString{P: p}, `{"A":"1","P":"<in>","U":%s}`
	case "format-field":
		return &decFormat{P: p}, `{"A":"PA======","P":"<in>","U":%s}`
	case "map-value":
		q := p
		return &decMap{"k": &q}, `{"k":"<in>","l":%s}`
	case "slice-elem":
		return &decSlice{p, p}, `["<in>",%s]`
	}
	q := p
	return &q, `"<in>"`
}

// sampleValue/sampleText: the "next call" whose result must equal the golden of a fresh coder.
// (the int16 members are what the caller functions of the option pool act on: functions left behind by an earlier call show here)
var sampleValue = map[string]any{"a": []any{1.0, "<x> ", nil}, "b": map[string]any{}, "n": int16(7)}

const sampleText = ` {"a":[1,"<x>",null],"b":{"c":"\u00e9"},"n":5} `

type sampleTarget struct {
	A []any          `json:"a"`
	B map[string]any `json:"b"`
	N int16          `json:"n"`
}

func insideWant(base, call *model) *model {
	m := *base
	for k := 0; k < nBool; k++ {
		if call.has[k] {
			m.has[k], m.val[k] = true, call.val[k]
		}
	}
	if call.indent != nil {
		m.indent = call.indent
	}
	if call.prefix != nil {
		m.prefix = call.prefix
	}
	if call.marsh != nil {
		m.marsh = call.marsh
	}
	if call.unmarsh != nil {
		m.unmarsh = call.unmarsh
	}
	return &m
}

// materializeMultiline fills in what an effective Multiline(true) implies for the options left
// unset (documented on jsontext.Multiline): SpaceAfterColon true, SpaceAfterComma false, indent "\t".
func materializeMultiline(m *model) *model {
	mm := *m
	if mm.has[kMultiline] && mm.val[kMultiline] {
		if !mm.has[kSpaceAfterColon] {
			mm.setBool(kSpaceAfterColon, true)
		}
		if !mm.has[kSpaceAfterComma] {
			mm.setBool(kSpaceAfterComma, false)
		}
		if mm.indent == nil {
			tab := "\t"
			mm.indent = &tab
		}
	}
	return &mm
}

// whitespaceOf is the whitespace layout a model produces (indent and prefix only matter when multiline).
func whitespaceOf(m *model) string {
	b := func(k int) bool { return m.has[k] && m.val[k] }
	s := fmt.Sprintf("ml=%v colon=%v comma=%v", b(kMultiline), b(kSpaceAfterColon), b(kSpaceAfterComma))
	if b(kMultiline) {
		s += fmt.Sprintf(" indent=%q prefix=%q", strp(m.indent), strp(m.prefix))
	}
	return s
}

func runScope(w *run.W, a *scopeArgs) {
	for _, i := range append(append([]int{}, a.Base...), a.Call...) {
		if i < 0 || i >= len(atoms) {
			w.Broken("scope: atom index %d out of range", i)
			return
		}
	}
	w.Eval(1)
	w.Count("scope_cases", 1)
	baseM, callM := modelOf(a.Base), modelOf(a.Call)
	w.Shape(fmt.Sprintf("scope|%s|%s|%s|%s|%v|%s|%s", a.Side, a.Outcome, a.Shape, a.Pos, len(a.Call) > 0, baseM.key(), callM.key()))
	callOpts := buildOpts(a.Call)
	if a.Joined && len(callOpts) > 0 {
		callOpts = []json.Options{json.JoinOptions(callOpts...)}
	}
	sig := func(extra map[string]string) map[string]string {
		m := map[string]string{"side": a.Side, "outcome": a.Outcome, "shape": a.Shape, "call_options": fmt.Sprint(len(a.Call) > 0)}
		for k, v := range extra {
			m[k] = v
		}
		return m
	}
	p := probe{X: 1}
	probeOutcome, probeInside, probeCalls = a.Outcome, nil, 0
	if a.Outcome == "unsupported" {
		probeOutcome = "ok"
	}
	var before, after *vector
	var callErr error
	var userPanic, libPanic bool
	var nextGot, nextWant, encodedFirst []byte
	nextChecked := false

	switch a.Side {
	case "encoder":
		var buf bytes.Buffer
		e := jsontext.NewEncoder(&buf, buildOpts(a.Base)...)
		switch a.Pos {
		case "in-array":
			e.WriteToken(jsontext.BeginArray)
			e.WriteToken(jsontext.Null)
		case "in-object":
			e.WriteToken(jsontext.BeginObject)
			e.WriteToken(jsontext.String("first"))
			e.WriteToken(jsontext.Null)
			e.WriteToken(jsontext.String("second"))
		}
		before = observe(e.Options())
		userPanic, libPanic = guard(w, func() {
			callErr = json.MarshalEncode(e, scopeValue(a.Shape, p, a.Outcome == "unsupported"), callOpts...)
		})
		after = observe(e.Options())
		if callErr == nil && !userPanic && !libPanic && a.Pos == "top" {
			encodedFirst = bytes.Clone(buf.Bytes())
		}
		if callErr == nil && !userPanic && !libPanic && a.Pos == "top" {
			// next call on the same encoder vs a fresh encoder with the same construction options
			n0 := buf.Len()
			e1 := json.MarshalEncode(e, sampleValue, json.Deterministic(true))
			var fresh bytes.Buffer
			e2 := json.MarshalEncode(jsontext.NewEncoder(&fresh, buildOpts(a.Base)...), sampleValue, json.Deterministic(true))
			nextGot, nextWant = bytes.Clone(buf.Bytes()[n0:]), fresh.Bytes()
			if (e1 == nil) != (e2 == nil) {
				nextGot = append(nextGot, fmt.Sprint(" err=", e1)...)
				nextWant = append(nextWant, fmt.Sprint(" err=", e2)...)
			}
			nextChecked = true
			if g := observe(e.Options()).equal(before); g != "" {
				w.Violate("options-not-restored", sig(map[string]string{"getter": g, "when": "after-next-call"}), "encoder options changed after a second MarshalEncode (getter %s)", g)
			}
		}
	case "decoder":
		target, format := scopeTarget(a.Shape, p)
		bad := `null`
		if a.Outcome == "unsupported" {
			bad = `[1]` // into a chan int field: an error after the probe ran (other shapes just succeed)
		}
		in := format
		if strings.Contains(format, "%s") {
			in = fmt.Sprintf(format, bad)
		}
		full := in + " " + sampleText
		switch a.Pos {
		case "in-array":
			full = `[null,` + in + `,` + sampleText + `]`
		case "in-object":
			full = `{"first":null,"second":` + in + `,"third":` + sampleText + `}`
		}
		d := jsontext.NewDecoder(strings.NewReader(full), buildOpts(a.Base)...)
		switch a.Pos {
		case "in-array":
			d.ReadToken()
			d.ReadToken()
		case "in-object":
			d.ReadToken()
			d.ReadToken()
			d.ReadToken()
			d.ReadToken()
		}
		before = observe(d.Options())
		userPanic, libPanic = guard(w, func() {
			callErr = json.UnmarshalDecode(d, target, callOpts...)
		})
		after = observe(d.Options())
		if callErr == nil && !userPanic && !libPanic && a.Pos == "top" {
			var x1, x2 sampleTarget
			e1 := json.UnmarshalDecode(d, &x1)
			e2 := json.UnmarshalDecode(jsontext.NewDecoder(strings.NewReader(sampleText), buildOpts(a.Base)...), &x2)
			nextGot, nextWant = []byte(fmt.Sprint(x1, e1 == nil)), []byte(fmt.Sprint(x2, e2 == nil))
			nextChecked = true
			if g := observe(d.Options()).equal(before); g != "" {
				w.Violate("options-not-restored", sig(map[string]string{"getter": g, "when": "after-next-call"}), "decoder options changed after a second UnmarshalDecode (getter %s)", g)
			}
		}
	default:
		w.Broken("scope: unknown side %q", a.Side)
		return
	}

	inside := probeInside
	switch {
	case libPanic:
		w.Count("scope_outcome_library_panic", 1)
		return // already reported; the coder was abandoned mid-call by the library itself
	case userPanic:
		if len(a.Call) > 0 {
			w.Count("scope_outcome_panic_with_call_options", 1)
		} else {
			w.Count("scope_outcome_panic_without_call_options", 1)
		}
	case callErr != nil:
		w.Count("scope_outcome_error", 1)
	default:
		w.Count("scope_outcome_ok", 1)
	}

	// (1) the coder's own options are intact afterwards
	if g := after.equal(before); g != "" {
		if userPanic && len(a.Call) == 0 {
			// deliberately not demanded (DESIGN C19): tag flags of a `string`/`format` field
			// stay on a caller-held coder when user code panics and no per-call options were given
			w.Count("observed_not_demanded_options_changed_after_panic_without_call_options", 1)
		} else {
			w.Violate("options-not-restored", sig(map[string]string{"getter": g, "when": "after-call"}),
				"%s constructed with %s; call with %s (%s, %s, %s) ended err=%v panic=%v; GetOption(%s) before vs after differs:\n before %v\n after  %v",
				a.Side, seqName(a.Base), seqName(a.Call), a.Outcome, a.Shape, a.Pos, callErr, userPanic, g, before, after)
		}
	}
	// (2) construction options are what the coder reports (tolerating the Multiline defaults)
	if g, got, want := diffCoder(before, baseM); g != "" {
		violateVector(w, "coder-options-model", "new "+a.Side, a.Base, g, got, want)
	}
	// (3) inside the call: call options override coder options
	if inside != nil {
		w.Count("scope_inside_vectors", 1)
		want := insideWant(baseM, callM)
		iv := *inside
		// `string` on the enclosing field is reported through StringifyNumbers (documented in GetOption)
		if a.Shape == "string-field" && !want.has[boolIndex["StringifyNumbers"]] && iv.has[boolIndex["StringifyNumbers"]] && iv.val[boolIndex["StringifyNumbers"]] {
			want.setBool(boolIndex["StringifyNumbers"], true)
		}
		if g, got, wantS := diffCoder(&iv, want); g != "" {
			w.Violate("call-options-precedence", sig(map[string]string{"getter": g}),
				"%s constructed with %s, call options %s: inside the call GetOption(%s) = %s, want %s (call options override coder options)",
				a.Side, seqName(a.Base), seqName(a.Call), g, got, wantS)
		}
	}
	// (5) coder options + call options == the same options passed to Marshal in one list: MarshalEncode refuses
	// call options only when they change the whitespace layout of the Encoder (it cannot re-indent what is already
	// written); when the layout stays the same and user code behaves, it must succeed and deliver Marshal's bytes
	if a.Side == "encoder" && a.Outcome == "ok" && !userPanic {
		eff := materializeMultiline(baseM)
		joined := materializeMultiline(insideWant(eff, callM))
		if whitespaceOf(eff) == whitespaceOf(joined) {
			w.Count("scope_same_layout_calls", 1)
			all := append(buildOpts(a.Base), callOpts...)
			savedInside, savedCalls := probeInside, probeCalls
			probeCalls = 0 // (the probe writes a different string from its second invocation on)
			ref, refErr := json.Marshal(scopeValue(a.Shape, probe{X: 1}, false), all...)
			probeInside, probeCalls = savedInside, savedCalls
			switch {
			case callErr != nil && refErr == nil:
				w.Violate("call-options-rejected", sig(map[string]string{"pos": a.Pos}),
					"encoder constructed with %s, MarshalEncode with %s (same whitespace layout %s): error %v, while Marshal with the same options in one list succeeds: %s",
					seqName(a.Base), seqName(a.Call), whitespaceOf(joined), callErr, ref)
			case callErr == nil && refErr == nil && a.Pos == "top" && encodedFirst != nil && a.Shape != "map-value": // (member order of the two-member map is unspecified)
				w.Count("scope_bytes_vs_marshal", 1)
				if !bytes.Equal(bytes.TrimSuffix(encodedFirst, []byte("\n")), ref) {
					w.Violate("call-options-bytes", sig(nil), "encoder constructed with %s, MarshalEncode with %s wrote %q; Marshal with the same options in one list gives %q",
						seqName(a.Base), seqName(a.Call), encodedFirst, ref)
				}
			}
		}
	}
	// (4) the next call behaves as before
	if nextChecked {
		w.Count("scope_next_call_golden", 1)
		if !bytes.Equal(nextGot, nextWant) {
			w.Violate("next-call-differs", sig(nil), "%s constructed with %s after a call with %s: next call gives %q, a fresh coder gives %q", a.Side, seqName(a.Base), seqName(a.Call), nextGot, nextWant)
		}
	}
}

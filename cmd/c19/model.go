package main

// The reference model of options: a map from option key to the value supplied by the last
// setter.  Everything here is written from the package documentation (options.go,
// jsontext/options.go, v1/options.go); no library code computes expectations.

import (
	"fmt"

	json "github.com/go-json-experiment/json"
	"github.com/go-json-experiment/json/jsontext"
	v1 "github.com/go-json-experiment/json/v1"
)

type boolOpt struct {
	name string
	ctor func(bool) json.Options
	inV1 bool // member of the documented DefaultOptionsV1 list
	// documented scope
	marshal, unmarshal bool // affects Marshal / Unmarshal
	encode, decode     bool // affects Encoder / Decoder (jsontext level)
}

// boolOpts lists every public boolean constructor of json, jsontext and v1.
var boolOpts = []boolOpt{
	{"AllowDuplicateNames", jsontext.AllowDuplicateNames, true, true, true, true, true},
	{"AllowInvalidUTF8", jsontext.AllowInvalidUTF8, true, true, true, true, true},
	{"EscapeForHTML", jsontext.EscapeForHTML, true, true, false, true, false},
	{"EscapeForJS", jsontext.EscapeForJS, true, true, false, true, false},
	{"PreserveRawStrings", jsontext.PreserveRawStrings, true, true, false, true, false},
	{"CanonicalizeRawInts", jsontext.CanonicalizeRawInts, false, true, false, true, false},
	{"CanonicalizeRawFloats", jsontext.CanonicalizeRawFloats, false, true, false, true, false},
	{"ReorderRawObjects", jsontext.ReorderRawObjects, false, true, false, true, false},
	{"SpaceAfterColon", jsontext.SpaceAfterColon, false, true, false, true, false},
	{"SpaceAfterComma", jsontext.SpaceAfterComma, false, true, false, true, false},
	{"Multiline", jsontext.Multiline, false, true, false, true, false},
	{"StringifyNumbers", json.StringifyNumbers, false, true, true, false, false},
	{"Deterministic", json.Deterministic, true, true, false, false, false},
	{"FormatNilMapAsNull", json.FormatNilMapAsNull, true, true, false, false, false},
	{"FormatNilSliceAsNull", json.FormatNilSliceAsNull, true, true, false, false, false},
	{"OmitZeroStructFields", json.OmitZeroStructFields, false, true, false, false, false},
	{"MatchCaseInsensitiveNames", json.MatchCaseInsensitiveNames, true, true, true, false, false},
	{"RejectUnknownMembers", json.RejectUnknownMembers, false, false, true, false, false},
	{"ExperimentalSupportFormatTag", json.ExperimentalSupportFormatTag, false, true, true, false, false},
	{"CallMethodsWithLegacySemantics", v1.CallMethodsWithLegacySemantics, true, true, true, false, false},
	{"FormatByteArrayAsArray", v1.FormatByteArrayAsArray, true, true, true, false, false},
	{"FormatBytesWithLegacySemantics", v1.FormatBytesWithLegacySemantics, true, true, true, false, false},
	{"FormatDurationAsNano", v1.FormatDurationAsNano, true, true, true, false, false},
	{"MatchCaseSensitiveDelimiter", v1.MatchCaseSensitiveDelimiter, true, true, true, false, false},
	{"MergeWithLegacySemantics", v1.MergeWithLegacySemantics, true, false, true, false, false},
	{"OmitEmptyWithLegacySemantics", v1.OmitEmptyWithLegacySemantics, true, true, false, false, false},
	{"ParseBytesWithLooseRFC4648", v1.ParseBytesWithLooseRFC4648, true, false, true, false, false},
	{"ParseTimeWithLooseRFC3339", v1.ParseTimeWithLooseRFC3339, true, false, true, false, false},
	{"ReportErrorsWithLegacySemantics", v1.ReportErrorsWithLegacySemantics, true, true, true, false, false},
	{"StringifyWithLegacySemantics", v1.StringifyWithLegacySemantics, true, true, true, false, false},
	{"UnmarshalArrayFromAnyLength", v1.UnmarshalArrayFromAnyLength, true, false, true, false, false},
}

const nBool = 31

var boolIndex = func() map[string]int {
	m := map[string]int{}
	for i, b := range boolOpts {
		m[b.name] = i
	}
	if len(boolOpts) != nBool {
		panic("c19: nBool out of date")
	}
	return m
}()

var (
	kMultiline       = boolIndex["Multiline"]
	kSpaceAfterColon = boolIndex["SpaceAfterColon"]
	kSpaceAfterComma = boolIndex["SpaceAfterComma"]
	kDeterministic   = boolIndex["Deterministic"]
)

// model is the last-wins map.
type model struct {
	has, val [nBool]bool
	indent   *string
	prefix   *string
	marsh    **json.Marshalers
	unmarsh  **json.Unmarshalers
}

func (m *model) setBool(k int, v bool) { m.has[k], m.val[k] = true, v }

func (m *model) key() string {
	var b []byte
	for k := 0; k < nBool; k++ {
		switch {
		case !m.has[k]:
			b = append(b, '-')
		case m.val[k]:
			b = append(b, '1')
		default:
			b = append(b, '0')
		}
	}
	s := string(b)
	if m.indent != nil {
		s += fmt.Sprintf("|i%q", *m.indent)
	}
	if m.prefix != nil {
		s += fmt.Sprintf("|p%q", *m.prefix)
	}
	if m.marsh != nil {
		s += fmt.Sprintf("|m%d", marshalersID(*m.marsh))
	}
	if m.unmarsh != nil {
		s += fmt.Sprintf("|u%d", unmarshalersID(*m.unmarsh))
	}
	return s
}

var (
	ms1 = json.MarshalFunc(func(v int16) ([]byte, error) { return []byte(`"m1"`), nil })
	ms2 = json.MarshalToFunc(func(e *jsontext.Encoder, v int16) error { return e.WriteToken(jsontext.String("m2")) })
	us1 = json.UnmarshalFunc(func(b []byte, v *int16) error { *v = 1; return nil })
	us2 = json.UnmarshalFromFunc(func(d *jsontext.Decoder, v *int16) error { *v = 2; return d.SkipValue() })
)

var marshalersPool = []*json.Marshalers{nil, ms1, ms2}
var unmarshalersPool = []*json.Unmarshalers{nil, us1, us2}

func marshalersID(p *json.Marshalers) int {
	for i, q := range marshalersPool {
		if p == q {
			return i
		}
	}
	return -1
}
func unmarshalersID(p *json.Unmarshalers) int {
	for i, q := range unmarshalersPool {
		if p == q {
			return i
		}
	}
	return -1
}

var indentPool = []string{"", " ", "\t\t"}
var prefixPool = []string{"", "\t", "  "}

// atom is one argument in an options list: a constructor applied to an argument class, or
// a pre-joined set.  opt() builds a fresh library value, apply() updates the model.
type atom struct {
	name  string
	opt   func() json.Options
	apply func(m *model)
	parts []int // for composite atoms: indexes of the atoms joined (documentation only)
	// classification for the behavioural clauses
	isBool bool
	key    int
}

var atoms = buildAtoms()

func buildAtoms() []atom {
	var as []atom
	for k, bo := range boolOpts {
		for _, v := range []bool{true, false} {
			as = append(as, atom{name: fmt.Sprintf("%s(%v)", bo.name, v), opt: func() json.Options { return bo.ctor(v) },
				apply: func(m *model) { m.setBool(k, v) }, isBool: true, key: k})
		}
	}
	for _, s := range indentPool {
		as = append(as, atom{name: fmt.Sprintf("WithIndent(%q)", s), opt: func() json.Options { return jsontext.WithIndent(s) },
			apply: func(m *model) { m.indent = &s; m.setBool(kMultiline, true) }})
	}
	for _, s := range prefixPool {
		as = append(as, atom{name: fmt.Sprintf("WithIndentPrefix(%q)", s), opt: func() json.Options { return jsontext.WithIndentPrefix(s) },
			apply: func(m *model) { m.prefix = &s; m.setBool(kMultiline, true) }})
	}
	for i, p := range marshalersPool {
		as = append(as, atom{name: fmt.Sprintf("WithMarshalers(#%d)", i), opt: func() json.Options { return json.WithMarshalers(p) },
			apply: func(m *model) { q := p; m.marsh = &q }})
	}
	for i, p := range unmarshalersPool {
		as = append(as, atom{name: fmt.Sprintf("WithUnmarshalers(#%d)", i), opt: func() json.Options { return json.WithUnmarshalers(p) },
			apply: func(m *model) { q := p; m.unmarsh = &q }})
	}
	as = append(as, atom{name: "nil", opt: func() json.Options { return nil }, apply: func(m *model) {}})
	as = append(as, atom{name: "JoinOptions()", opt: func() json.Options { return json.JoinOptions() }, apply: func(m *model) {}})
	as = append(as, atom{name: "DefaultOptionsV1()", opt: v1.DefaultOptionsV1, apply: func(m *model) {
		for k, bo := range boolOpts {
			if bo.inV1 {
				m.setBool(k, true)
			}
		}
	}})
	as = append(as, atom{name: "DefaultOptionsV2()", opt: json.DefaultOptionsV2, apply: func(m *model) {
		for k, bo := range boolOpts {
			if bo.inV1 {
				m.setBool(k, false)
			}
		}
	}})
	// composite atoms: pre-joined sets (exercise the set-into-set join with non-boolean slots)
	byName := func(n string) int {
		for i, a := range as {
			if a.name == n {
				return i
			}
		}
		panic("c19: no atom " + n)
	}
	for _, names := range [][]string{
		{`WithIndent(" ")`, `SpaceAfterComma(true)`},
		{`WithMarshalers(#1)`, `Deterministic(false)`, `WithIndentPrefix("\t")`},
		{`DefaultOptionsV1()`, `EscapeForHTML(false)`, `WithUnmarshalers(#1)`},
		{`Multiline(false)`, `WithIndent("\t\t")`},
		{`WithIndent("\t\t")`, `Multiline(false)`},
		{`ExperimentalSupportFormatTag(true)`, `StringifyNumbers(true)`, `WithMarshalers(#0)`},
	} {
		var idx []int
		label := "JoinOptions("
		for i, n := range names {
			idx = append(idx, byName(n))
			if i > 0 {
				label += ", "
			}
			label += n
		}
		label += ")"
		base := as // atoms defined so far (composites refer only to simple atoms)
		as = append(as, atom{name: label, parts: idx,
			opt: func() json.Options {
				var os []json.Options
				for _, i := range idx {
					os = append(os, base[i].opt())
				}
				return json.JoinOptions(os...)
			},
			apply: func(m *model) {
				for _, i := range idx {
					base[i].apply(m)
				}
			}})
	}
	return as
}

// ---------------------------------------------------------------------------------
// observation: the full GetOption vector through every public getter

type vector struct {
	has, val    [nBool]bool
	indent      string
	hasIndent   bool
	prefix      string
	hasPrefix   bool
	marsh       *json.Marshalers
	hasMarsh    bool
	unmarsh     *json.Unmarshalers
	hasUnmarsh  bool
	nonZeroMiss string // name of a getter that returned a non-zero value with ok=false
}

var boolGetters = func() []func(json.Options) (bool, bool) {
	gs := make([]func(json.Options) (bool, bool), nBool)
	for k, bo := range boolOpts {
		gs[k] = func(o json.Options) (bool, bool) { return json.GetOption(o, bo.ctor) }
	}
	return gs
}()

func observe(o json.Options) *vector {
	var v vector
	for k, g := range boolGetters {
		v.val[k], v.has[k] = g(o)
		if v.val[k] && !v.has[k] {
			v.nonZeroMiss = boolOpts[k].name
		}
	}
	v.indent, v.hasIndent = json.GetOption(o, jsontext.WithIndent)
	v.prefix, v.hasPrefix = json.GetOption(o, jsontext.WithIndentPrefix)
	v.marsh, v.hasMarsh = json.GetOption(o, json.WithMarshalers)
	v.unmarsh, v.hasUnmarsh = json.GetOption(o, json.WithUnmarshalers)
	if !v.hasIndent && v.indent != "" {
		v.nonZeroMiss = "WithIndent"
	}
	if !v.hasPrefix && v.prefix != "" {
		v.nonZeroMiss = "WithIndentPrefix"
	}
	if !v.hasMarsh && v.marsh != nil {
		v.nonZeroMiss = "WithMarshalers"
	}
	if !v.hasUnmarsh && v.unmarsh != nil {
		v.nonZeroMiss = "WithUnmarshalers"
	}
	return &v
}

// diff returns the first getter on which the observation differs from the model ("" if none).
func (v *vector) diff(m *model) (getter, got, want string) {
	for k := 0; k < nBool; k++ {
		if v.has[k] != m.has[k] || (m.has[k] && v.val[k] != m.val[k]) || (!m.has[k] && v.val[k]) {
			return boolOpts[k].name, fmt.Sprintf("(%v,%v)", v.val[k], v.has[k]), fmt.Sprintf("(%v,%v)", m.val[k] && m.has[k], m.has[k])
		}
	}
	if v.hasIndent != (m.indent != nil) || (m.indent != nil && v.indent != *m.indent) || (m.indent == nil && v.indent != "") {
		return "WithIndent", fmt.Sprintf("(%q,%v)", v.indent, v.hasIndent), fmt.Sprintf("(%v,%v)", strp(m.indent), m.indent != nil)
	}
	if v.hasPrefix != (m.prefix != nil) || (m.prefix != nil && v.prefix != *m.prefix) || (m.prefix == nil && v.prefix != "") {
		return "WithIndentPrefix", fmt.Sprintf("(%q,%v)", v.prefix, v.hasPrefix), fmt.Sprintf("(%v,%v)", strp(m.prefix), m.prefix != nil)
	}
	if v.hasMarsh != (m.marsh != nil) || (m.marsh != nil && v.marsh != *m.marsh) || (m.marsh == nil && v.marsh != nil) {
		return "WithMarshalers", fmt.Sprintf("(#%d,%v)", marshalersID(v.marsh), v.hasMarsh), fmt.Sprintf("(%v)", m.marsh != nil)
	}
	if v.hasUnmarsh != (m.unmarsh != nil) || (m.unmarsh != nil && v.unmarsh != *m.unmarsh) || (m.unmarsh == nil && v.unmarsh != nil) {
		return "WithUnmarshalers", fmt.Sprintf("(#%d,%v)", unmarshalersID(v.unmarsh), v.hasUnmarsh), fmt.Sprintf("(%v)", m.unmarsh != nil)
	}
	return "", "", ""
}

// equal compares two observations getter by getter.
func (v *vector) equal(u *vector) (getter string) {
	for k := 0; k < nBool; k++ {
		if v.has[k] != u.has[k] || v.val[k] != u.val[k] {
			return boolOpts[k].name
		}
	}
	switch {
	case v.hasIndent != u.hasIndent || v.indent != u.indent:
		return "WithIndent"
	case v.hasPrefix != u.hasPrefix || v.prefix != u.prefix:
		return "WithIndentPrefix"
	case v.hasMarsh != u.hasMarsh || v.marsh != u.marsh:
		return "WithMarshalers"
	case v.hasUnmarsh != u.hasUnmarsh || v.unmarsh != u.unmarsh:
		return "WithUnmarshalers"
	}
	return ""
}

func (v *vector) String() string {
	var b []byte
	for k := 0; k < nBool; k++ {
		switch {
		case !v.has[k]:
			b = append(b, '-')
		case v.val[k]:
			b = append(b, '1')
		default:
			b = append(b, '0')
		}
	}
	return fmt.Sprintf("%s indent=(%q,%v) prefix=(%q,%v) marshalers=(#%d,%v) unmarshalers=(#%d,%v)", b, v.indent, v.hasIndent, v.prefix, v.hasPrefix,
		marshalersID(v.marsh), v.hasMarsh, unmarshalersID(v.unmarsh), v.hasUnmarsh)
}

func strp(p *string) string {
	if p == nil {
		return `""`
	}
	return fmt.Sprintf("%q", *p)
}

func seqName(seq []int) string {
	s := ""
	for i, a := range seq {
		if i > 0 {
			s += ", "
		}
		s += atoms[a].name
	}
	return "[" + s + "]"
}

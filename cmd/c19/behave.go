package main

// Behavioural clauses: equivalent spellings, irrelevance, v1 = v2 + DefaultOptionsV1,
// DefaultOptionsV2 cancels v1 options.

import (
	"bytes"
	"errors"
	"fmt"
	"math"
	"math/rand/v2"
	"reflect"
	"regexp"
	"strings"

	json "github.com/go-json-experiment/json"
	"github.com/go-json-experiment/json/jsontext"
	v1 "github.com/go-json-experiment/json/v1"

	"verif/gen"
	"verif/ref"
	"verif/run"
)

type behaveArgs struct {
	Kind  string `json:"kind"`
	Batch int    `json:"batch"`
	N     int    `json:"n"`
}

type behaveKind struct {
	name            string
	quick, thorough int // batches
	n               int // cases per batch
}

var behaveKinds = []behaveKind{
	{"spell-marshal", 48, 480, 60},
	{"spell-unmarshal", 48, 480, 60},
	{"spell-text", 48, 480, 60},
	{"layout-model", 16, 160, 60},
	{"irrelevant-marshal", 48, 480, 60},
	{"irrelevant-unmarshal", 48, 480, 60},
	{"irrelevant-text", 48, 480, 60},
	{"v1-equal", 32, 320, 60},
	{"v2-cancel", 32, 320, 60},
}

// result is the observable outcome of one operation.
type result struct {
	out  []byte
	val  any // decoded Go value (pointer)
	err  error
	flag bool
}

func errClass(err error) string {
	if err == nil {
		return "nil"
	}
	var sem *json.SemanticError
	if errors.As(err, &sem) {
		t := ""
		if sem.GoType != nil {
			t = sem.GoType.String()
		}
		return fmt.Sprintf("semantic@%d%s:%s:%c", sem.ByteOffset, sem.JSONPointer, t, sem.JSONKind)
	}
	var syn *jsontext.SyntacticError
	if errors.As(err, &syn) {
		return fmt.Sprintf("syntactic@%d%s", syn.ByteOffset, syn.JSONPointer)
	}
	return fmt.Sprintf("other:%T", err)
}

// deepEq is reflect.DeepEqual except that NaN equals NaN.
func deepEq(a, b reflect.Value) bool {
	if a.IsValid() != b.IsValid() {
		return false
	}
	if !a.IsValid() {
		return true
	}
	if a.Type() != b.Type() {
		return false
	}
	switch a.Kind() {
	case reflect.Float32, reflect.Float64:
		x, y := a.Float(), b.Float()
		return x == y && math.Signbit(x) == math.Signbit(y) || (math.IsNaN(x) && math.IsNaN(y))
	case reflect.Pointer, reflect.Interface:
		if a.IsNil() || b.IsNil() {
			return a.IsNil() == b.IsNil()
		}
		return deepEq(a.Elem(), b.Elem())
	case reflect.Slice:
		if a.IsNil() != b.IsNil() || a.Len() != b.Len() {
			return false
		}
		for i := 0; i < a.Len(); i++ {
			if !deepEq(a.Index(i), b.Index(i)) {
				return false
			}
		}
		return true
	case reflect.Array:
		for i := 0; i < a.Len(); i++ {
			if !deepEq(a.Index(i), b.Index(i)) {
				return false
			}
		}
		return true
	case reflect.Map:
		if a.IsNil() != b.IsNil() || a.Len() != b.Len() {
			return false
		}
		for _, k := range a.MapKeys() {
			bv := b.MapIndex(k)
			if !bv.IsValid() || !deepEq(a.MapIndex(k), bv) {
				return false
			}
		}
		return true
	case reflect.Struct:
		if a.CanInterface() && b.CanInterface() {
			if _, ok := a.Interface().(interface{ Equal(any) bool }); ok {
				return reflect.DeepEqual(a.Interface(), b.Interface())
			}
		}
		if !a.CanInterface() || a.NumField() == 0 || a.Type().PkgPath() == "time" {
			return reflect.DeepEqual(ifaceOf(a), ifaceOf(b))
		}
		for i := 0; i < a.NumField(); i++ {
			if !deepEq(a.Field(i), b.Field(i)) {
				return false
			}
		}
		return true
	}
	return reflect.DeepEqual(ifaceOf(a), ifaceOf(b))
}

func ifaceOf(v reflect.Value) any {
	if v.CanInterface() {
		return v.Interface()
	}
	return fmt.Sprint(v)
}

func errKind(err error) string {
	c := errClass(err)
	if i := strings.IndexAny(c, "@:"); i >= 0 {
		return c[:i]
	}
	return c
}

// sameOutcome is sameResult at the granularity the irrelevance clause is demanded at:
// outputs, decoded values, verdicts and the kind of error (nil / syntactic / semantic / other),
// not the position details carried by an error.
func sameOutcome(a, b *result) (string, bool) {
	if ka, kb := errKind(a.err), errKind(b.err); ka != kb {
		return fmt.Sprintf("error kind %s vs %s (%v | %v)", ka, kb, a.err, b.err), false
	}
	a2, b2 := *a, *b
	a2.err, b2.err = nil, nil
	return sameResult(&a2, &b2)
}

func sameResult(a, b *result) (string, bool) {
	if ca, cb := errClass(a.err), errClass(b.err); ca != cb {
		return fmt.Sprintf("error %s vs %s (%v | %v)", ca, cb, a.err, b.err), false
	}
	if !bytes.Equal(a.out, b.out) {
		return fmt.Sprintf("output %q vs %q", run.Trunc(string(a.out), 300), run.Trunc(string(b.out), 300)), false
	}
	if a.flag != b.flag {
		return fmt.Sprintf("verdict %v vs %v", a.flag, b.flag), false
	}
	if (a.val == nil) != (b.val == nil) {
		return "decoded value present vs absent", false
	}
	if a.val != nil && !deepEq(reflect.ValueOf(a.val), reflect.ValueOf(b.val)) {
		return fmt.Sprintf("decoded value %+v vs %+v", reflect.ValueOf(a.val).Elem(), reflect.ValueOf(b.val).Elem()), false
	}
	return "", true
}

// spellings returns equivalent argument lists for the same option sequence.
func spellings(r *rand.Rand, seq []int) (names []string, lists [][]json.Options) {
	names = []string{"separate", "joined", "nested", "mixed"}
	lists = append(lists, buildOpts(seq))
	lists = append(lists, []json.Options{json.JoinOptions(buildOpts(seq)...)})
	{
		os := buildOpts(seq)
		var acc json.Options
		for i := len(os) - 1; i >= 0; i-- {
			acc = json.JoinOptions(os[i], acc)
		}
		lists = append(lists, []json.Options{acc})
	}
	{
		os := buildOpts(seq)
		var l []json.Options
		for i := 0; i < len(os); {
			k := 1 + r.IntN(3)
			j := min(len(os), i+k)
			if r.IntN(2) == 0 {
				l = append(l, randomTree(r, os[i:j]))
			} else {
				l = append(l, os[i:j]...)
			}
			if r.IntN(5) == 0 {
				l = append(l, nil)
			}
			i = j
		}
		lists = append(lists, l)
	}
	return
}

func randSeq(r *rand.Rand, pool []int, lo, hi int) []int {
	n := lo + r.IntN(hi-lo+1)
	seq := make([]int, n)
	for i := range seq {
		if pool == nil {
			seq[i] = r.IntN(len(atoms))
		} else {
			seq[i] = pool[r.IntN(len(pool))]
		}
	}
	return seq
}

// touched returns the set of model keys an atom writes.
type touchSet struct {
	bools                            [nBool]bool
	indent, prefix, marsh, unmarshal bool
}

var atomTouch = func() []touchSet {
	ts := make([]touchSet, len(atoms))
	for i, a := range atoms {
		var m model
		a.apply(&m)
		ts[i] = touchSet{bools: m.has, indent: m.indent != nil, prefix: m.prefix != nil, marsh: m.marsh != nil, unmarshal: m.unmarsh != nil}
	}
	return ts
}()

// irrelevantAtoms lists the atoms all of whose keys are documented as ignored by op.
func irrelevantAtoms(op string) []int {
	relevant := func(k int) bool {
		b := boolOpts[k]
		switch op {
		case "marshal":
			return b.marshal
		case "unmarshal":
			return b.unmarshal
		case "encode", "format":
			return b.encode
		case "decode":
			return b.decode
		case "isvalid":
			return b.name == "AllowDuplicateNames" || b.name == "AllowInvalidUTF8"
		}
		panic("c19: unknown op " + op)
	}
	var out []int
	for i, t := range atomTouch {
		ok := true
		any := false
		for k := 0; k < nBool; k++ {
			if t.bools[k] {
				any = true
				if relevant(k) {
					ok = false
				}
			}
		}
		if t.indent || t.prefix { // encode-only (and they imply Multiline, encode-only as well)
			any = true
			if op == "marshal" || op == "encode" || op == "format" {
				ok = false
			}
		}
		if t.marsh {
			any = true
			if op == "marshal" {
				ok = false
			}
		}
		if t.unmarshal {
			any = true
			if op == "unmarshal" {
				ok = false
			}
		}
		if ok && any {
			out = append(out, i)
		}
	}
	return out
}

var irrelevantPool = map[string][]int{}

func init() {
	for _, op := range []string{"marshal", "unmarshal", "encode", "format", "decode", "isvalid"} {
		irrelevantPool[op] = irrelevantAtoms(op)
	}
}

// insertIrrelevant returns seq with 1-3 atoms of pool inserted at random positions.
func insertIrrelevant(r *rand.Rand, seq []int, pool []int) []int {
	out := append([]int(nil), seq...)
	for k := 1 + r.IntN(3); k > 0; k-- {
		p := r.IntN(len(out) + 1)
		out = append(out[:p], append([]int{pool[r.IntN(len(pool))]}, out[p:]...)...)
	}
	return out
}

var typeCfg = &gen.C19TypeCfg{MaxDepth: 3, Tags: true}

func randTyped(r *rand.Rand) (reflect.Type, reflect.Value) {
	t := gen.C19Type(r, typeCfg)
	v := gen.C19Value(r, t, &gen.C19ValueCfg{MaxMapLen: 1})
	return t, v
}

func ptrTo(t reflect.Type, v reflect.Value) any {
	p := reflect.New(t)
	p.Elem().Set(v)
	return p.Interface()
}

func randText(r *rand.Rand) []byte {
	cfg := &gen.TextCfg{MaxDepth: 1 + r.IntN(3), MaxWidth: 1 + r.IntN(4), Invalid: r.IntN(4) == 0, WS: r.IntN(2) == 0, DupPercent: r.IntN(20)}
	b := gen.Value(r, cfg)
	if r.IntN(8) == 0 {
		b = gen.Mutate(r, b)
	}
	return b
}

func opMarshal(in any, opts []json.Options) *result {
	b, err := json.Marshal(in, opts...)
	return &result{out: b, err: err}
}

func opUnmarshal(t reflect.Type, text []byte, opts []json.Options) *result {
	p := reflect.New(t).Interface()
	err := json.Unmarshal(text, p, opts...)
	return &result{val: p, err: err}
}

// text-level operations
var textOps = []struct {
	name  string
	scope string // which irrelevance pool applies
	fn    func(text []byte, opts []json.Options) *result
}{
	{"Value.Format", "format", func(t []byte, o []json.Options) *result {
		v := jsontext.Value(bytes.Clone(t))
		err := v.Format(o...)
		return &result{out: v, err: err}
	}},
	{"Value.Compact", "format", func(t []byte, o []json.Options) *result {
		v := jsontext.Value(bytes.Clone(t))
		err := v.Compact(o...)
		return &result{out: v, err: err}
	}},
	{"Value.Indent", "format", func(t []byte, o []json.Options) *result {
		v := jsontext.Value(bytes.Clone(t))
		err := v.Indent(o...)
		return &result{out: v, err: err}
	}},
	{"Value.Canonicalize", "format", func(t []byte, o []json.Options) *result {
		v := jsontext.Value(bytes.Clone(t))
		err := v.Canonicalize(o...)
		return &result{out: v, err: err}
	}},
	{"AppendFormat", "format", func(t []byte, o []json.Options) *result {
		b, err := jsontext.AppendFormat([]byte("^"), t, o...)
		return &result{out: b, err: err}
	}},
	{"Value.IsValid", "isvalid", func(t []byte, o []json.Options) *result {
		return &result{flag: jsontext.Value(t).IsValid(o...)}
	}},
	{"Encoder.WriteValue", "encode", func(t []byte, o []json.Options) *result {
		var buf bytes.Buffer
		e := jsontext.NewEncoder(&buf, o...)
		err := e.WriteValue(t)
		return &result{out: buf.Bytes(), err: err}
	}},
	{"Encoder.WriteToken", "encode", func(t []byte, o []json.Options) *result {
		var buf bytes.Buffer
		e := jsontext.NewEncoder(&buf, o...)
		d := jsontext.NewDecoder(bytes.NewReader(t), jsontext.AllowDuplicateNames(true), jsontext.AllowInvalidUTF8(true))
		var err error
		for i := 0; i < len(t)+2; i++ {
			tok, rerr := d.ReadToken()
			if rerr != nil {
				break
			}
			if err = e.WriteToken(tok); err != nil {
				break
			}
		}
		return &result{out: buf.Bytes(), err: err}
	}},
	{"Decoder.ReadValue", "decode", func(t []byte, o []json.Options) *result {
		d := jsontext.NewDecoder(bytes.NewReader(t), o...)
		var out []byte
		var err error
		for i := 0; i < len(t)+2; i++ {
			var v jsontext.Value
			if v, err = d.ReadValue(); err != nil {
				break
			}
			out = append(append(out, v...), 0)
		}
		return &result{out: out, err: err}
	}},
	{"Decoder.ReadToken", "decode", func(t []byte, o []json.Options) *result {
		d := jsontext.NewDecoder(bytes.NewReader(t), o...)
		var out []byte
		var err error
		for i := 0; i < len(t)+2; i++ {
			var tok jsontext.Token
			if tok, err = d.ReadToken(); err != nil {
				break
			}
			out = append(append(append(out, byte(tok.Kind())), tok.String()...), 0)
		}
		return &result{out: out, err: err}
	}},
}

func countResult(w *run.W, res *result) {
	if res.err == nil {
		w.Count("spelling_results_nil_error", 1)
	} else {
		w.Count("spelling_results_error", 1)
	}
}

func runBehave(w *run.W, a *behaveArgs) {
	r := w.Rand("behave", a.Kind, a.Batch)
	for i := 0; i < a.N; i++ {
		w.Eval(1)
		guard(w, func() { behaveOne(w, a, r) })
	}
}

func behaveOne(w *run.W, a *behaveArgs, r *rand.Rand) {
	{
		switch a.Kind {
		case "spell-marshal":
			t, v := randTyped(r)
			seq := randSeq(r, nil, 1, 6)
			names, lists := spellings(r, seq)
			in := ptrTo(t, v)
			base := opMarshal(in, lists[0])
			countResult(w, base)
			for k := 1; k < len(lists); k++ {
				if d, ok := sameResult(base, opMarshal(in, lists[k])); !ok {
					w.Violate("spelling-differs", map[string]string{"op": "Marshal", "spelling": names[k]}, "Marshal(%v of type %v) with options %s: separate vs %s: %s", v, t, seqName(seq), names[k], d)
				}
			}
			w.Count("spelling_groups", 1)
			w.Shape("spell-marshal|" + t.String())
		case "spell-unmarshal":
			t, v := randTyped(r)
			text, err := json.Marshal(ptrTo(t, v), json.Deterministic(true))
			if err != nil || r.IntN(5) == 0 {
				text = randText(r)
			} else if r.IntN(5) == 0 {
				text = gen.Mutate(r, text)
			}
			seq := randSeq(r, nil, 1, 6)
			names, lists := spellings(r, seq)
			base := opUnmarshal(t, text, lists[0])
			countResult(w, base)
			for k := 1; k < len(lists); k++ {
				if d, ok := sameResult(base, opUnmarshal(t, text, lists[k])); !ok {
					w.Violate("spelling-differs", map[string]string{"op": "Unmarshal", "spelling": names[k]}, "Unmarshal(%q into %v) with options %s: separate vs %s: %s", text, t, seqName(seq), names[k], d)
				}
			}
			w.Count("spelling_groups", 1)
			w.Shape("spell-unmarshal|" + t.String())
		case "spell-text":
			text := randText(r)
			seq := randSeq(r, nil, 1, 6)
			names, lists := spellings(r, seq)
			for _, op := range textOps {
				base := op.fn(text, lists[0])
				countResult(w, base)
				for k := 1; k < len(lists); k++ {
					if d, ok := sameResult(base, op.fn(text, lists[k])); !ok {
						w.Violate("spelling-differs", map[string]string{"op": op.name, "spelling": names[k]}, "%s(%q) with options %s: separate vs %s: %s", op.name, text, seqName(seq), names[k], d)
					}
				}
				w.Count("spelling_groups", 1)
			}
			w.Shape(fmt.Sprintf("spell-text|%s|%d", modelOf(seq).key(), len(text)%7))
		case "layout-model":
			layoutModel(w, r)
		case "irrelevant-marshal":
			t, v := randTyped(r)
			in := ptrTo(t, v)
			base := randSeq(r, nil, 0, 4)
			with := insertIrrelevant(r, base, irrelevantPool["marshal"])
			ra, rb := opMarshal(in, buildOpts(base)), opMarshal(in, buildOpts(with))
			if d, ok := sameOutcome(ra, rb); !ok {
				w.Violate("irrelevant-option-matters", map[string]string{"op": "Marshal"}, "Marshal(%v of type %v): options %s vs %s (only unmarshal-side options added): %s", v, t, seqName(base), seqName(with), d)
			}
			w.Count("irrelevance_checks", 1)
			if errClass(ra.err) != errClass(rb.err) {
				w.Count("observed_irrelevant_option_changes_error_position", 1)
			}
			if base0 := opMarshal(in, nil); len(base) > 0 && !bytes.Equal(base0.out, ra.out) {
				w.Count("irrelevance_option_sensitive_bases", 1) // the base options do matter for this value
			}
			w.Shape("irrelevant-marshal|" + t.String())
		case "irrelevant-unmarshal":
			t, v := randTyped(r)
			text, err := json.Marshal(ptrTo(t, v), json.Deterministic(true))
			if err != nil || r.IntN(5) == 0 {
				text = randText(r)
			}
			base := randSeq(r, nil, 0, 4)
			with := insertIrrelevant(r, base, irrelevantPool["unmarshal"])
			ra, rb := opUnmarshal(t, text, buildOpts(base)), opUnmarshal(t, text, buildOpts(with))
			if d, ok := sameOutcome(ra, rb); !ok {
				w.Violate("irrelevant-option-matters", map[string]string{"op": "Unmarshal"}, "Unmarshal(%q into %v): options %s vs %s (only marshal/encode-side options added): %s", text, t, seqName(base), seqName(with), d)
			}
			w.Count("irrelevance_checks", 1)
			if errClass(ra.err) != errClass(rb.err) {
				w.Count("observed_irrelevant_option_changes_error_position", 1)
			}
			if r0 := opUnmarshal(t, text, nil); len(base) > 0 {
				if _, same := sameResult(r0, ra); !same {
					w.Count("irrelevance_option_sensitive_bases", 1)
				}
			}
			w.Shape("irrelevant-unmarshal|" + t.String())
		case "irrelevant-text":
			text := randText(r)
			base := randSeq(r, nil, 0, 4)
			for _, op := range textOps {
				with := insertIrrelevant(r, base, irrelevantPool[op.scope])
				ra, rb := op.fn(text, buildOpts(base)), op.fn(text, buildOpts(with))
				if d, ok := sameOutcome(ra, rb); !ok {
					w.Violate("irrelevant-option-matters", map[string]string{"op": op.name}, "%s(%q): options %s vs %s (only options documented as ignored added): %s", op.name, text, seqName(base), seqName(with), d)
				}
				w.Count("irrelevance_checks", 1)
				if errClass(ra.err) != errClass(rb.err) {
					w.Count("observed_irrelevant_option_changes_error_position", 1)
				}
				if errClass(ra.err) != errClass(rb.err) {
					w.Count("observed_irrelevant_option_changes_error_position", 1)
				}
				if len(base) > 0 {
					if _, same := sameResult(op.fn(text, nil), ra); !same {
						w.Count("irrelevance_option_sensitive_bases", 1)
					}
				}
			}
			w.Shape(fmt.Sprintf("irrelevant-text|%s", modelOf(base).key()))
		case "v1-equal":
			t, v := randTyped(r)
			in := ptrTo(t, v)
			b1, e1 := v1.Marshal(in)
			b2, e2 := json.Marshal(in, v1.DefaultOptionsV1())
			if (e1 == nil) != (e2 == nil) || !bytes.Equal(b1, b2) {
				w.Violate("v1-differs-from-v2-with-defaultv1", map[string]string{"op": "Marshal"}, "v1.Marshal(%v of %v) = %q, %v; json.Marshal(..., DefaultOptionsV1()) = %q, %v", v, t, b1, e1, b2, e2)
			}
			var buf bytes.Buffer
			e3 := v1.NewEncoder(&buf).Encode(in)
			if (e3 == nil) != (e2 == nil) || (e2 == nil && !bytes.Equal(buf.Bytes(), append(bytes.Clone(b2), '\n'))) {
				w.Violate("v1-differs-from-v2-with-defaultv1", map[string]string{"op": "Encoder.Encode"}, "v1.Encoder.Encode(%v of %v) = %q, %v; json.Marshal(..., DefaultOptionsV1()) = %q, %v", v, t, buf.Bytes(), e3, b2, e2)
			}
			text := b2
			if e2 != nil || r.IntN(4) == 0 {
				text = randText(r)
			} else if r.IntN(4) == 0 {
				text = gen.Mutate(r, text)
			}
			p1, p2, p3 := reflect.New(t).Interface(), reflect.New(t).Interface(), reflect.New(t).Interface()
			u1, u2 := v1.Unmarshal(text, p1), json.Unmarshal(text, p2, v1.DefaultOptionsV1())
			if (u1 == nil) != (u2 == nil) || !deepEq(reflect.ValueOf(p1), reflect.ValueOf(p2)) {
				w.Violate("v1-differs-from-v2-with-defaultv1", map[string]string{"op": "Unmarshal"}, "v1.Unmarshal(%q into %v) = %+v, %v; json.Unmarshal(..., DefaultOptionsV1()) = %+v, %v", text, t,
					reflect.ValueOf(p1).Elem(), u1, reflect.ValueOf(p2).Elem(), u2)
			}
			// Decoder.Decode of the first value of a stream = UnmarshalDecode with DefaultOptionsV1
			u3 := v1.NewDecoder(bytes.NewReader(text)).Decode(p3)
			p4 := reflect.New(t).Interface()
			u4 := json.UnmarshalDecode(jsontext.NewDecoder(bytes.NewReader(text), v1.DefaultOptionsV1()), p4, v1.DefaultOptionsV1())
			if (u3 == nil) != (u4 == nil) || !deepEq(reflect.ValueOf(p3), reflect.ValueOf(p4)) {
				w.Violate("v1-differs-from-v2-with-defaultv1", map[string]string{"op": "Decoder.Decode"}, "v1.Decoder.Decode(%q into %v) = %+v, %v; json.UnmarshalDecode(..., DefaultOptionsV1()) = %+v, %v", text, t,
					reflect.ValueOf(p3).Elem(), u3, reflect.ValueOf(p4).Elem(), u4)
			}
			w.Count("v1_equivalences", 4)
			w.Shape("v1-equal|" + t.String())
		case "v2-cancel":
			t, v := randTyped(r)
			in := ptrTo(t, v)
			seq := randSeq(r, v1Atoms, 1, 6)
			opts := append(buildOpts(seq), json.DefaultOptionsV2())
			if r.IntN(2) == 0 {
				opts = []json.Options{json.JoinOptions(opts...)}
			}
			ra, rb := opMarshal(in, nil), opMarshal(in, opts)
			if d, ok := sameResult(ra, rb); !ok {
				w.Violate("defaultv2-does-not-cancel", map[string]string{"op": "Marshal"}, "Marshal(%v of %v): no options vs %s + DefaultOptionsV2(): %s", v, t, seqName(seq), d)
			}
			text := ra.out
			if ra.err != nil || r.IntN(4) == 0 {
				text = randText(r)
			}
			ua, ub := opUnmarshal(t, text, nil), opUnmarshal(t, text, opts)
			if d, ok := sameResult(ua, ub); !ok {
				w.Violate("defaultv2-does-not-cancel", map[string]string{"op": "Unmarshal"}, "Unmarshal(%q into %v): no options vs %s + DefaultOptionsV2(): %s", text, t, seqName(seq), d)
			}
			// the same on a text that only the loose v1 parsing rules accept (times, Base64, array lengths, name case)
			if loose := loosen(r, text); !bytes.Equal(loose, text) {
				la, lb := opUnmarshal(t, loose, nil), opUnmarshal(t, loose, opts)
				if d, ok := sameResult(la, lb); !ok {
					w.Violate("defaultv2-does-not-cancel", map[string]string{"op": "Unmarshal", "text": "loosened"}, "Unmarshal(%q into %v): no options vs %s + DefaultOptionsV2(): %s", loose, t, seqName(seq), d)
				}
				w.Count("v2_cancellations_on_loosened_text", 1)
				if lc := opUnmarshal(t, loose, buildOpts(seq)); (lc.err == nil) != (la.err == nil) {
					w.Count("v2_cancellations_of_effective_unmarshal_options", 1)
				}
			}
			// the v1 options did matter before being cancelled (non-vacuity)
			if rc := opMarshal(in, buildOpts(seq)); !bytes.Equal(rc.out, ra.out) || (rc.err == nil) != (ra.err == nil) {
				w.Count("v2_cancellations_of_effective_options", 1)
			}
			w.Count("v2_cancellations", 2)
			w.Shape("v2-cancel|" + t.String())
		default:
			w.Broken("behave: unknown kind %q", a.Kind)
			return
		}
	}
}

// v1Atoms are the atoms that touch only options of the documented DefaultOptionsV1 list.
var v1Atoms = func() []int {
	var out []int
	for i, t := range atomTouch {
		ok, any := true, false
		for k := 0; k < nBool; k++ {
			if t.bools[k] {
				any = true
				if !boolOpts[k].inV1 {
					ok = false
				}
			}
		}
		if ok && any && !t.indent && !t.prefix && !t.marsh && !t.unmarshal {
			out = append(out, i)
		}
	}
	return out
}()

var layoutDocs = []string{
	`{"a":[1,2,{"b":null}],"c":"x","d":{},"e":[]}`,
	`[]`, `{}`, `[{}]`, `[[1,[2]],{"k":{"j":true}}]`, ` { "a" : 1 , "b" : [ ] } `, `"s"`, `[1, 2,3 ]`,
}

// layoutModel: the whitespace produced under an option sequence equals the reference
// formatter configured from the last-wins model plus the documented Multiline defaults.
func layoutModel(w *run.W, r *rand.Rand) {
	seq := randSeq(r, layoutAtoms, 0, 6)
	m := modelOf(seq)
	l := ref.Layout{Multiline: m.has[kMultiline] && m.val[kMultiline]}
	l.SpaceAfterColon = l.Multiline
	if m.has[kSpaceAfterColon] {
		l.SpaceAfterColon = m.val[kSpaceAfterColon]
	}
	if m.has[kSpaceAfterComma] {
		l.SpaceAfterComma = m.val[kSpaceAfterComma]
	}
	l.Indent = "\t"
	if m.indent != nil {
		l.Indent = *m.indent
	}
	if m.prefix != nil {
		l.Prefix = *m.prefix
	}
	doc := layoutDocs[r.IntN(len(layoutDocs))]
	node := ref.Parse([]byte(doc), ref.Opts{})
	if node == nil {
		w.Broken("layout doc %q does not parse", doc)
		return
	}
	want := ref.Format(node, l)
	for _, route := range []string{"Value.Format", "AppendFormat", "Encoder.WriteValue", "Marshal(Value)"} {
		var got []byte
		var err error
		switch route {
		case "Value.Format":
			v := jsontext.Value(doc)
			err = v.Format(buildOpts(seq)...)
			got = v
		case "AppendFormat":
			got, err = jsontext.AppendFormat(nil, doc, json.JoinOptions(buildOpts(seq)...))
		case "Encoder.WriteValue":
			var buf bytes.Buffer
			err = jsontext.NewEncoder(&buf, buildOpts(seq)...).WriteValue(jsontext.Value(doc))
			got = bytes.TrimSuffix(buf.Bytes(), []byte("\n"))
		case "Marshal(Value)":
			got, err = json.Marshal(jsontext.Value(doc), buildOpts(seq)...)
		}
		w.Count("layout_model_checks", 1)
		if err != nil || !bytes.Equal(got, want) {
			w.Violate("layout-differs-from-model", map[string]string{"route": route}, "%s of %s under %s = %q, %v; the model (%+v) gives %q", route, doc, seqName(seq), got, err, l, want)
		}
	}
	w.Shape("layout|" + m.key() + "|" + doc)
}

// layoutAtoms: whitespace atoms plus a few unrelated ones (irrelevant to layout).
var layoutAtoms = func() []int {
	var out []int
	for i, a := range atoms {
		n := a.name
		if strings.HasPrefix(n, "SpaceAfter") || strings.HasPrefix(n, "Multiline") || strings.HasPrefix(n, "WithIndent") ||
			strings.HasPrefix(n, "JoinOptions(WithIndent") || strings.HasPrefix(n, "JoinOptions(Multiline") || n == "nil" || n == "Deterministic(true)" || n == "EscapeForHTML(true)" {
			out = append(out, i)
		}
	}
	return out
}()

var (
	reHour    = regexp.MustCompile(`"(\d{4}-\d\d-\d\dT)0(\d:\d\d:\d\d)`)
	reFrac    = regexp.MustCompile(`(T\d\d:\d\d:\d\d)\.(\d+)`)
	reB64     = regexp.MustCompile(`"([A-Za-z0-9+/]{4})([A-Za-z0-9+/=]{4,})"`)
	reLastEl  = regexp.MustCompile(`,(\d+|"[^"\\]*"|true|false|null)\]`)
	reNameLow = regexp.MustCompile(`"([A-Z])([A-Za-z0-9]*)":`)
)

// loosen rewrites a text into one that strict v2 parsing refuses (or reads differently) but the loose
// v1 rules accept: hour without leading zero, ',' before fractional seconds, a line break inside Base64,
// a JSON array one element short, a member name in another case.
func loosen(r *rand.Rand, text []byte) []byte {
	out := text
	// the first transform that applies, starting from a random one
	for n, k := 0, r.IntN(5); n < 5 && bytes.Equal(out, text); n, k = n+1, (k+1)%5 {
		switch k {
		case 0:
			out = reHour.ReplaceAll(out, []byte(`"${1}${2}`))
		case 1:
			out = reFrac.ReplaceAll(out, []byte(`${1},${2}`))
		case 2:
			out = reB64.ReplaceAll(out, []byte(`"${1}\n${2}"`))
		case 3:
			out = reLastEl.ReplaceAll(out, []byte(`]`))
		case 4:
			out = reNameLow.ReplaceAllFunc(out, func(m []byte) []byte { return bytes.ToLower(m) })
		}
	}
	return out
}

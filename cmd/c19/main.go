// C19 — options compose as last-wins maps and apply only where scoped.
package main

import (
	"fmt"
	"io"
	"math/rand/v2"
	"strings"

	json "github.com/go-json-experiment/json"
	"github.com/go-json-experiment/json/jsontext"

	"verif/run"
)

var M = &run.Monitor{
	ID:    "C19",
	Level: "exploration",
	Rule: "atoms = every public option constructor of json, jsontext and v1 applied to each argument class (31 booleans x {true,false}, 3 indents, 3 prefixes, " +
		"3 marshaler sets incl. nil, 3 unmarshaler sets incl. nil, nil, JoinOptions(), DefaultOptionsV1/V2, 6 pre-joined sets). " +
		"(a) algebra: ALL sequences of <= 3 atoms (exhaustive) and random sequences of 4-8, each spelled flat / left-nested / right-nested / randomly bracketed / as NewEncoder, " +
		"NewDecoder and Reset arguments; the full GetOption vector (35 getters) must equal a last-wins map model written from the documentation. " +
		"(b) equivalent spellings give identical Marshal / Unmarshal / Format / IsValid / Encoder / Decoder results on random reflect-built values and generated texts; " +
		"whitespace layout equals the reference formatter driven by the model. (c) irrelevance: options documented as ignored by an operation are inserted at random positions. " +
		"(d) scoping: MarshalEncode/UnmarshalDecode with per-call options on a long-lived coder: vector inside the call = coder options overridden by call options, vector " +
		"after = vector before on success, error and user panic, next call = golden. (e) v1.Marshal/Unmarshal/Encoder/Decoder = v2 + DefaultOptionsV1; any v1 options + DefaultOptionsV2 = no options. " +
		"distinct = final model state of the sequence (algebra) / (clause, operation, Go type or text skeleton) otherwise",
	Assumptions: []string{
		"the option model (last setter wins; WithIndent/WithIndentPrefix imply Multiline(true); DefaultOptionsV1/V2 set the 21 documented options true/false; nil ignored; nested JoinOptions flatten) is written from the package documentation",
		"an Encoder's Options() may additionally report the three documented Multiline defaults (SpaceAfterColon=true, SpaceAfterComma=false, indent TAB) when Multiline is on and they were not given",
		"the documented scope of each option (marshal/unmarshal/encode/decode) is taken from the constructor's doc comment",
		"not demanded (DESIGN C19): options intact after a user PANIC when no per-call options were passed",
	},
	Floors: func(c map[string]int64, tier string) []string {
		var u []string
		need := func(k string, n int64) {
			if c[k] < n {
				u = append(u, fmt.Sprintf("%s=%d < %d", k, c[k], n))
			}
		}
		need("algebra_sequences_exhaustive", 50000)
		need("algebra_sequences_sampled", 1000)
		need("algebra_vectors_compared", 200000)
		need("coder_vectors_compared", 1000)
		need("snapshots_compared", 5000)
		need("scope_same_layout_calls", 1000)
		need("scope_bytes_vs_marshal", 300)
		need("spelling_groups", 1000)
		need("spelling_results_nil_error", 300)
		need("spelling_results_error", 30)
		need("layout_model_checks", 100)
		need("irrelevance_checks", 1000)
		need("irrelevance_option_sensitive_bases", 50)
		need("scope_cases", 500)
		need("scope_outcome_ok", 50)
		need("scope_outcome_error", 50)
		need("scope_outcome_panic_with_call_options", 20)
		need("scope_inside_vectors", 100)
		need("scope_next_call_golden", 50)
		need("v1_equivalences", 300)
		need("v2_cancellations", 300)
		return u
	},
	SelfTest: selfTest,
}

func selfTest() error {
	// the model against hand-computed expectations (independent of the library)
	byName := map[string]int{}
	for i, a := range atoms {
		if _, dup := byName[a.name]; dup {
			return fmt.Errorf("duplicate atom name %s", a.name)
		}
		byName[a.name] = i
	}
	nV1 := 0
	for _, b := range boolOpts {
		if b.inV1 {
			nV1++
		}
	}
	if nV1 != 21 {
		return fmt.Errorf("DefaultOptionsV1 documents 21 options, the table has %d", nV1)
	}
	check := func(names []string, want string) error {
		var m model
		for _, n := range names {
			i, ok := byName[n]
			if !ok {
				return fmt.Errorf("no atom %q", n)
			}
			atoms[i].apply(&m)
		}
		if got := m.key(); got != want {
			return fmt.Errorf("model%v = %s, want %s", names, got, want)
		}
		return nil
	}
	dash := strings.Repeat("-", nBool)
	set := func(s string, name string, c byte) string {
		b := []byte(s)
		b[boolIndex[name]] = c
		return string(b)
	}
	v1all := dash
	for _, b := range boolOpts {
		if b.inV1 {
			v1all = set(v1all, b.name, '1')
		}
	}
	for _, c := range []struct {
		names []string
		want  string
	}{
		{nil, dash},
		{[]string{"nil", "JoinOptions()"}, dash},
		{[]string{"Multiline(true)", "Multiline(false)"}, set(dash, "Multiline", '0')},
		{[]string{"Multiline(false)", `WithIndent(" ")`}, set(dash, "Multiline", '1') + `|i" "`},
		{[]string{`WithIndent(" ")`, "Multiline(false)", `WithIndentPrefix("\t")`, `WithIndent("")`}, set(dash, "Multiline", '1') + `|i""|p"\t"`},
		{[]string{"DefaultOptionsV1()"}, v1all},
		{[]string{"DefaultOptionsV1()", "Deterministic(false)"}, set(v1all, "Deterministic", '0')},
		{[]string{"StringifyNumbers(true)", "DefaultOptionsV1()", "DefaultOptionsV2()"}, set(strings.ReplaceAll(v1all, "1", "0"), "StringifyNumbers", '1')},
		{[]string{"WithMarshalers(#1)", "WithMarshalers(#0)", "WithUnmarshalers(#2)"}, dash + "|m0|u2"},
		{[]string{`JoinOptions(WithIndent("\t\t"), Multiline(false))`}, set(dash, "Multiline", '0') + `|i"\t\t"`},
	} {
		if err := check(c.names, c.want); err != nil {
			return err
		}
	}
	return nil
}

// ---------------------------------------------------------------------------------
// (a) algebra

type blockArgs struct {
	I int `json:"i"` // first atom
	J int `json:"j"` // second atom (-1: only the sequences [] and [i])
}

type seqArgs struct {
	Seq  []int  `json:"seq"`
	Seed uint64 `json:"seed"` // bracketing choices
}

func buildOpts(seq []int) []json.Options {
	os := make([]json.Options, len(seq))
	for i, a := range seq {
		os[i] = atoms[a].opt()
	}
	return os
}

func modelOf(seq []int) *model {
	var m model
	for _, a := range seq {
		atoms[a].apply(&m)
	}
	return &m
}

func violateVector(w *run.W, sub, spelling string, seq []int, getter, got, want string) {
	w.Violate(sub, map[string]string{"getter": getter, "spelling": spelling},
		"options %s spelled %s: GetOption(%s) = %s, the last-wins model says %s", seqName(seq), spelling, getter, got, want)
}

func checkVector(w *run.W, spelling string, seq []int, o json.Options, m *model) {
	v := observe(o)
	w.Count("algebra_vectors_compared", 1)
	if g, got, want := v.diff(m); g != "" {
		violateVector(w, "getoption-model", spelling, seq, g, got, want)
	}
}

// randomTree joins os with a random bracketing.
func randomTree(r *rand.Rand, os []json.Options) json.Options {
	if len(os) == 1 && r.IntN(2) == 0 {
		return os[0]
	}
	if len(os) <= 1 || r.IntN(4) == 0 {
		return json.JoinOptions(os...)
	}
	k := 1 + r.IntN(len(os)-1)
	parts := []json.Options{randomTree(r, os[:k]), randomTree(r, os[k:])}
	if r.IntN(3) == 0 {
		parts = append(parts, nil)
	}
	return json.JoinOptions(parts...)
}

var (
	sharedEnc = jsontext.NewEncoder(io.Discard)
	sharedDec = jsontext.NewDecoder(strings.NewReader(""))
)

// diffCoder compares the options reported by a coder with the model of its construction
// options: explicitly given options exactly; not-given options must be absent, except for
// the three documented Multiline defaults.
func diffCoder(v *vector, m *model) (getter, got, want string) {
	mm := *m
	if m.has[kMultiline] && m.val[kMultiline] {
		if !m.has[kSpaceAfterColon] && v.has[kSpaceAfterColon] {
			mm.setBool(kSpaceAfterColon, true)
		}
		if !m.has[kSpaceAfterComma] && v.has[kSpaceAfterComma] {
			mm.setBool(kSpaceAfterComma, false)
		}
		if m.indent == nil && v.hasIndent {
			tab := "\t"
			mm.indent = &tab
		}
	}
	return v.diff(&mm)
}

func checkSeq(w *run.W, seq []int, r *rand.Rand, exhaustive bool) {
	m := modelOf(seq)
	w.Eval(1)
	w.Shape("algebra|" + m.key())
	// flat
	checkVector(w, "flat", seq, json.JoinOptions(buildOpts(seq)...), m)
	// left-nested, with an immutability check of the intermediate results
	{
		os := buildOpts(seq)
		var acc json.Options = json.JoinOptions()
		var accs []json.Options
		for _, o := range os {
			accs = append(accs, acc)
			acc = json.JoinOptions(acc, o)
		}
		checkVector(w, "left-nested", seq, acc, m)
		for i, a := range accs {
			if i == 0 || (exhaustive && i != len(accs)-1) {
				continue
			}
			v := observe(a)
			if g, got, want := v.diff(modelOf(seq[:i])); g != "" {
				w.Violate("join-mutates-argument", map[string]string{"getter": g}, "after joining %s onto JoinOptions%s the earlier result changed: GetOption(%s) = %s, want %s",
					atoms[seq[i]].name, seqName(seq[:i]), g, got, want)
			}
		}
	}
	// right-nested
	if len(seq) >= 2 {
		os := buildOpts(seq)
		var acc json.Options = json.JoinOptions(nil, os[len(os)-1])
		for i := len(os) - 2; i >= 0; i-- {
			acc = json.JoinOptions(os[i], acc)
		}
		checkVector(w, "right-nested", seq, acc, m)
	}
	// a single option queried directly
	if len(seq) == 1 {
		checkVector(w, "bare", seq, buildOpts(seq)[0], m)
	}
	if r != nil {
		checkVector(w, "random-tree", seq, randomTree(r, buildOpts(seq)), m)
	}
	// as construction / Reset arguments of coders
	if !exhaustive || len(seq) <= 2 {
		sharedEnc.Reset(io.Discard, buildOpts(seq)...)
		ve := observe(sharedEnc.Options())
		w.Count("coder_vectors_compared", 1)
		if g, got, want := diffCoder(ve, m); g != "" {
			violateVector(w, "coder-options-model", "Encoder.Reset", seq, g, got, want)
		}
		sharedDec.Reset(strings.NewReader(""), buildOpts(seq)...)
		vd := observe(sharedDec.Options())
		w.Count("coder_vectors_compared", 1)
		if g, got, want := vd.diff(m); g != "" {
			violateVector(w, "coder-options-model", "Decoder.Reset", seq, g, got, want)
		}
		if r != nil {
			e := jsontext.NewEncoder(io.Discard, randomTree(r, buildOpts(seq)))
			if g, got, want := diffCoder(observe(e.Options()), m); g != "" {
				violateVector(w, "coder-options-model", "NewEncoder", seq, g, got, want)
			}
			// Reset with the coder's own options as one of the arguments (aliasing); an encoder
			// whose prefix turned Multiline on may report the documented defaults as its own
			// options, which then legitimately count as given - not modelled, skipped
			k := r.IntN(len(seq) + 1)
			if mp := modelOf(seq[:k]); !(mp.has[kMultiline] && mp.val[kMultiline]) {
				e = jsontext.NewEncoder(io.Discard, buildOpts(seq[:k])...)
				e.Reset(io.Discard, append([]json.Options{e.Options()}, buildOpts(seq[k:])...)...)
				if g, got, want := diffCoder(observe(e.Options()), m); g != "" {
					violateVector(w, "coder-options-model", "Encoder.Reset(own options, ...)", seq, g, got, want)
				}
			}
			d := jsontext.NewDecoder(strings.NewReader(""), buildOpts(seq[:k])...)
			d.Reset(strings.NewReader(""), append([]json.Options{d.Options()}, buildOpts(seq[k:])...)...)
			if g, got, want := observe(d.Options()).diff(m); g != "" {
				violateVector(w, "coder-options-model", "Decoder.Reset(own options, ...)", seq, g, got, want)
			}
			w.Count("coder_vectors_compared", 3)
			// a join is a new map: what was joined from a coder's options - alone or with further
			// arguments - keeps its values when the coder's options change afterwards (Reset with
			// other options, a MarshalEncode / UnmarshalDecode call with call options)
			other := buildOpts([]int{r.IntN(len(atoms)), r.IntN(len(atoms)), r.IntN(len(atoms))})
			e = jsontext.NewEncoder(io.Discard, buildOpts(seq)...)
			d = jsontext.NewDecoder(strings.NewReader("0 1"), buildOpts(seq)...)
			snaps := []json.Options{json.JoinOptions(e.Options()), json.JoinOptions(e.Options(), json.JoinOptions()), json.JoinOptions(nil, e.Options()),
				json.JoinOptions(d.Options()), json.JoinOptions(json.JoinOptions(d.Options()))}
			var before []*vector
			for _, sn := range snaps {
				before = append(before, observe(sn))
			}
			var sink int
			json.MarshalEncode(e, 1, other...)
			json.UnmarshalDecode(d, &sink, other...)
			e.Reset(io.Discard, other...)
			d.Reset(strings.NewReader(""), other...)
			for i, sn := range snaps {
				w.Count("snapshots_compared", 1)
				if g := before[i].equal(observe(sn)); g != "" {
					w.Violate("join-aliases-argument", map[string]string{"getter": g, "snapshot": fmt.Sprint(i)},
						"JoinOptions of a coder's Options() (spelling %d) changed when the coder was used/Reset with other options afterwards: GetOption(%s) differs; joined from %s", i, g, seqName(seq))
				}
			}
		}
	}
}

func runBlock(w *run.W, a *blockArgs) {
	n := int64(0)
	if a.J < 0 {
		if a.I == 0 {
			checkSeq(w, nil, nil, true)
			n++
		}
		checkSeq(w, []int{a.I}, nil, true)
		n++
	} else {
		checkSeq(w, []int{a.I, a.J}, nil, true)
		n++
		for k := range atoms {
			checkSeq(w, []int{a.I, a.J, k}, nil, true)
			n++
		}
	}
	w.Count("algebra_sequences_exhaustive", n)
}

func runSeq(w *run.W, a *seqArgs) {
	for _, i := range a.Seq {
		if i < 0 || i >= len(atoms) {
			w.Broken("seq: atom index %d out of range", i)
			return
		}
	}
	r := rand.New(rand.NewPCG(a.Seed, 19))
	checkSeq(w, a.Seq, r, false)
	w.Count("algebra_sequences_sampled", 1)
}

func main() {
	run.Def(M, "block", runBlock)
	run.Def(M, "seq", runSeq)
	run.Def(M, "behave", runBehave)
	run.Def(M, "scope", runScope)
	run.Def(M, "error-kind", runErrKind)
	M.Gen = generate
	run.Main(M)
}

func generate(w *run.W) {
	ci := 0
	mine := func() bool { ci++; return w.Mine(ci) }

	// (a) exhaustive: all sequences of length <= 3 (quick: every third (i,j) block, offset by the seed, plus all of length <= 2)
	stride := 1
	off := int(w.Seed % int64(stride))
	for i := range atoms {
		if mine() {
			w.Do("block", &blockArgs{I: i, J: -1})
		}
		for j := range atoms {
			if (i*len(atoms)+j)%stride != off {
				// still cover the pair itself
				if mine() {
					w.Do("seq", &seqArgs{Seq: []int{i, j}, Seed: uint64(i*1000 + j)})
				}
				continue
			}
			if mine() {
				w.Do("block", &blockArgs{I: i, J: j})
			}
		}
	}
	// sampled: length 4-8
	ns := w.Pick(80000, 400000)
	for b := 0; b < ns; b++ {
		if !mine() {
			continue
		}
		r := w.Rand("seq", b)
		seq := make([]int, 4+r.IntN(5))
		for i := range seq {
			seq[i] = r.IntN(len(atoms))
		}
		a := &seqArgs{Seq: seq, Seed: r.Uint64()}
		w.Do("seq", a)
		if w.WantSample() && b%1000 == 7 {
			w.Sample(map[string]any{"exec": "seq", "options": seqName(seq), "model": modelOf(seq).key()})
		}
	}

	// (b), (c), (e) behavioural clauses
	for _, k := range behaveKinds {
		nb := w.Pick(k.quick, k.thorough)
		for b := 0; b < nb; b++ {
			if mine() {
				w.Do("behave", &behaveArgs{Kind: k.name, Batch: b, N: k.n})
			}
		}
	}

	genErrKind(w, mine)

	// (d) scoping
	nsc := w.Pick(24000, 120000)
	for b := 0; b < nsc; b++ {
		if !mine() {
			continue
		}
		r := w.Rand("scope", b)
		w.Do("scope", genScope(r, b))
	}
}

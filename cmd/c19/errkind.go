package main

// The one option whose effect is the KIND of the returned error: ReportErrorsWithLegacySemantics
// (part of DefaultOptionsV1, cancelled by DefaultOptionsV2).  Coder options and call options are
// combined last-wins; the error of a failing MarshalEncode/UnmarshalDecode/Marshal/Unmarshal must
// have the kind the effective value prescribes.

import (
	"bytes"
	"errors"
	"fmt"
	"strings"

	json "github.com/go-json-experiment/json"
	"github.com/go-json-experiment/json/jsontext"
	jsonv1 "github.com/go-json-experiment/json/v1"

	"verif/run"
)

type ekArgs struct {
	Base []string `json:"base"` // coder construction options
	Call []string `json:"call"` // call options
	Nest bool     `json:"nest"` // call options passed as one JoinOptions value
	Side string   `json:"side"` // unmarshal-decode | marshal-encode | unmarshal | marshal
}

var ekAtoms = map[string]struct {
	o      json.Options
	legacy int // +1 sets true, -1 sets false, 0 leaves it
}{
	"v1":           {jsonv1.DefaultOptionsV1(), +1},
	"v2":           {json.DefaultOptionsV2(), -1},
	"legacy":       {jsonv1.ReportErrorsWithLegacySemantics(true), +1},
	"nolegacy":     {jsonv1.ReportErrorsWithLegacySemantics(false), -1},
	"other":        {json.Deterministic(true), 0},
	"dup":          {jsontext.AllowDuplicateNames(true), 0},
	"joined-v1-v2": {json.JoinOptions(jsonv1.DefaultOptionsV1(), json.DefaultOptionsV2()), -1},
}

func ekBuild(names []string) (opts []json.Options, legacy int) {
	for _, n := range names {
		a := ekAtoms[n]
		opts = append(opts, a.o)
		if a.legacy != 0 {
			legacy = a.legacy
		}
	}
	return
}

func runErrKind(w *run.W, a *ekArgs) {
	w.Eval(1)
	base, lb := ekBuild(a.Base)
	call, lc := ekBuild(a.Call)
	legacy := lb > 0
	if lc != 0 {
		legacy = lc > 0
	}
	if a.Nest && len(call) > 0 {
		call = []json.Options{json.JoinOptions(call...)}
	}
	var err error
	switch a.Side {
	case "unmarshal-decode":
		d := jsontext.NewDecoder(strings.NewReader(`{"A":"x"} `), base...)
		var v struct{ A int }
		err = json.UnmarshalDecode(d, &v, call...)
	case "unmarshal":
		var v struct{ A int }
		err = json.Unmarshal([]byte(`{"A":"x"}`), &v, append(append([]json.Options{}, base...), call...)...)
	case "marshal-encode":
		var bb bytes.Buffer
		e := jsontext.NewEncoder(&bb, base...)
		err = json.MarshalEncode(e, struct{ C chan int }{}, call...)
	case "marshal":
		_, err = json.Marshal(struct{ C chan int }{}, append(append([]json.Options{}, base...), call...)...)
	}
	sig := map[string]string{"side": a.Side, "want_legacy": fmt.Sprint(legacy)}
	if err == nil {
		w.Violate("error-kind", sig, "%s with coder options %v and call options %v returned no error", a.Side, a.Base, a.Call)
		return
	}
	var sem *json.SemanticError
	isSem := errors.As(err, &sem)
	var ute *jsonv1.UnmarshalTypeError
	var uste *jsonv1.UnsupportedTypeError
	isLegacyKind := errors.As(err, &ute) || errors.As(err, &uste)
	if isSem == legacy || isLegacyKind != legacy {
		w.Violate("error-kind", sig, "%s with coder options %v and call options %v (nested=%v): the effective ReportErrorsWithLegacySemantics is %v but the error is %T (%v)", a.Side, a.Base, a.Call, a.Nest, legacy, err, err)
	}
	w.Count("error_kind_cases", 1)
	w.Shape(fmt.Sprintf("ek|%s|%v|%v|%v", a.Side, a.Base, a.Call, a.Nest))
}

func genErrKind(w *run.W, mine func() bool) {
	sets := [][]string{{}, {"v1"}, {"v2"}, {"legacy"}, {"nolegacy"}, {"other"}, {"v1", "v2"}, {"v2", "v1"}, {"v1", "nolegacy"}, {"legacy", "v2"}, {"joined-v1-v2"}, {"dup", "v1", "other"}, {"v2", "legacy", "dup"}}
	for _, side := range []string{"unmarshal-decode", "marshal-encode", "unmarshal", "marshal"} {
		for _, b := range sets {
			for _, c := range sets {
				for _, nest := range []bool{false, true} {
					if mine() {
						w.Do("error-kind", &ekArgs{Base: b, Call: c, Nest: nest, Side: side})
					}
				}
			}
		}
	}
}

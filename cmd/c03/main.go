// C03 — unmarshaling into untyped targets yields the exact meaning of the text, by every route.
//
// Expected tree: the independent reference parser (strings = RFC 8259 unescaping, numbers =
// nearest-even float64 of the exact rational via math/big, error iff overflow).  Every route
// (Unmarshal, UnmarshalRead under four reader schedules, UnmarshalDecode inside a stream,
// typed map/slice/leaf targets, a named empty interface, options that disable the specialised
// decoder) must return exactly that tree.
package main

import (
	"bytes"
	stdjson "encoding/json"
	"errors"
	"fmt"
	"hash/fnv"
	"io"
	"math"
	"math/rand/v2"
	"reflect"
	"runtime"
	"runtime/debug"
	"strings"

	json "github.com/go-json-experiment/json"
	"github.com/go-json-experiment/json/jsontext"

	"verif/gen"
	"verif/ref"
	"verif/run"
)

// I is a named empty interface.
type I interface{}

// ---------------------------------------------------------------------------------
// comparison

// diff returns "" if got is exactly want (same dynamic types, float bits, non-nil empty
// containers), else a description of the first difference.
func diff(want, got any, path string) string {
	switch x := want.(type) {
	case nil:
		if got != nil {
			return fmt.Sprintf("%s: want nil, got %T(%v)", path, got, trunc(got))
		}
	case bool:
		if y, ok := got.(bool); !ok || x != y {
			return fmt.Sprintf("%s: want %v, got %T(%v)", path, x, got, trunc(got))
		}
	case string:
		if y, ok := got.(string); !ok || x != y {
			return fmt.Sprintf("%s: want string %q, got %T(%q)", path, run.Trunc(x, 300), got, trunc(got))
		}
	case float64:
		if y, ok := got.(float64); !ok || math.Float64bits(x) != math.Float64bits(y) {
			return fmt.Sprintf("%s: want float64 %v (%#x), got %T(%v)", path, x, math.Float64bits(x), got, trunc(got))
		}
	case []any:
		y, ok := got.([]any)
		if !ok {
			return fmt.Sprintf("%s: want []any, got %T", path, got)
		}
		if y == nil {
			return fmt.Sprintf("%s: want non-nil []any of length %d, got nil slice", path, len(x))
		}
		if len(x) != len(y) {
			return fmt.Sprintf("%s: want %d elements, got %d", path, len(x), len(y))
		}
		for i := range x {
			if d := diff(x[i], y[i], fmt.Sprintf("%s/%d", path, i)); d != "" {
				return d
			}
		}
	case map[string]any:
		y, ok := got.(map[string]any)
		if !ok {
			return fmt.Sprintf("%s: want map[string]any, got %T", path, got)
		}
		if y == nil {
			return fmt.Sprintf("%s: want non-nil map of %d members, got nil map", path, len(x))
		}
		if len(x) != len(y) {
			return fmt.Sprintf("%s: want %d members, got %d", path, len(x), len(y))
		}
		for k, v := range x {
			w, ok := y[k]
			if !ok {
				return fmt.Sprintf("%s: member %q missing", path, run.Trunc(k, 200))
			}
			if d := diff(v, w, path+"/"+run.Trunc(k, 40)); d != "" {
				return d
			}
		}
	default:
		return fmt.Sprintf("%s: oracle produced %T", path, want)
	}
	return ""
}

func trunc(v any) string { return run.Trunc(fmt.Sprint(v), 300) }

// widen converts typed containers (map[string]string, []float64, …) to the untyped tree.
func widen(v any) any {
	switch x := v.(type) {
	case []string:
		if x == nil {
			return []any(nil)
		}
		out := make([]any, len(x))
		for i, s := range x {
			out[i] = s
		}
		return out
	case []float64:
		if x == nil {
			return []any(nil)
		}
		out := make([]any, len(x))
		for i, s := range x {
			out[i] = s
		}
		return out
	case []bool:
		if x == nil {
			return []any(nil)
		}
		out := make([]any, len(x))
		for i, s := range x {
			out[i] = s
		}
		return out
	case map[string]string:
		if x == nil {
			return map[string]any(nil)
		}
		out := make(map[string]any, len(x))
		for k, s := range x {
			out[k] = s
		}
		return out
	case map[string]float64:
		if x == nil {
			return map[string]any(nil)
		}
		out := make(map[string]any, len(x))
		for k, s := range x {
			out[k] = s
		}
		return out
	}
	return v
}

// ---------------------------------------------------------------------------------
// reader schedules

type oneByte struct{ r io.Reader }

func (o oneByte) Read(p []byte) (int, error) {
	if len(p) == 0 {
		return 0, nil
	}
	return o.r.Read(p[:1])
}

// chunky delivers random chunk sizes (deterministic in the text) and now and then (0, nil).
type chunky struct {
	b []byte
	r *rand.Rand
}

func (c *chunky) Read(p []byte) (int, error) {
	if len(c.b) == 0 {
		return 0, io.EOF
	}
	if c.r.IntN(8) == 0 {
		return 0, nil
	}
	n := 1 + c.r.IntN(17)
	if c.r.IntN(4) == 0 {
		n = 1 + c.r.IntN(200)
	}
	n = min(n, len(p), len(c.b))
	copy(p, c.b[:n])
	c.b = c.b[n:]
	if len(c.b) == 0 && c.r.IntN(2) == 0 {
		return n, io.EOF // data together with EOF
	}
	return n, nil
}

func textRand(b []byte) *rand.Rand {
	h := fnv.New64a()
	h.Write(b)
	s := h.Sum64()
	return rand.New(rand.NewPCG(s, 0xc03))
}

// ---------------------------------------------------------------------------------
// routes

var noopAny = json.WithUnmarshalers(json.UnmarshalFromFunc(func(d *jsontext.Decoder, p *any) error { return errors.ErrUnsupported }))

type route struct {
	name string
	f    func(text []byte) (any, error)
}

func intoAny(opts ...json.Options) func([]byte) (any, error) {
	return func(text []byte) (any, error) {
		var v any
		err := json.Unmarshal(text, &v, opts...)
		return v, err
	}
}

func streamRoute(mk func(b []byte) io.Reader, opts ...json.Options) func([]byte) (any, error) {
	return func(text []byte) (any, error) {
		in := append(append([]byte(`"pre" `), text...), " [1]"...)
		d := jsontext.NewDecoder(mk(in))
		var a, v, c any
		if err := json.UnmarshalDecode(d, &a, opts...); err != nil {
			return nil, fmt.Errorf("first stream value: %w", err)
		}
		if a != "pre" {
			return nil, fmt.Errorf("first stream value decoded as %v", a)
		}
		err := json.UnmarshalDecode(d, &v, opts...)
		if err != nil {
			return v, err
		}
		if err2 := json.UnmarshalDecode(d, &c, opts...); err2 != nil {
			return v, streamBroken{fmt.Errorf("value after the text: %w", err2)}
		}
		if dd := diff([]any{1.0}, c, "post"); dd != "" {
			return v, streamBroken{fmt.Errorf("value after the text: %s", dd)}
		}
		if err3 := json.UnmarshalDecode(d, &c, opts...); err3 != io.EOF {
			return v, streamBroken{fmt.Errorf("end of stream: %v", err3)}
		}
		return v, nil
	}
}

// streamBroken marks a failure of the surrounding stream (always a violation).
type streamBroken struct{ error }

var baseRoutes = []route{
	{"Unmarshal", intoAny()},
	{"UnmarshalRead/bytes.Reader", func(text []byte) (any, error) {
		var v any
		err := json.UnmarshalRead(bytes.NewReader(text), &v)
		return v, err
	}},
	{"UnmarshalRead/one-byte", func(text []byte) (any, error) {
		var v any
		err := json.UnmarshalRead(oneByte{bytes.NewReader(text)}, &v)
		return v, err
	}},
	{"UnmarshalRead/bytes.Buffer", func(text []byte) (any, error) {
		var v any
		err := json.UnmarshalRead(bytes.NewBuffer(bytes.Clone(text)), &v)
		return v, err
	}},
	{"UnmarshalRead/chunks", func(text []byte) (any, error) {
		var v any
		err := json.UnmarshalRead(&chunky{b: text, r: textRand(text)}, &v)
		return v, err
	}},
	{"UnmarshalDecode/stream", streamRoute(func(b []byte) io.Reader { return bytes.NewReader(b) })},
	{"UnmarshalDecode/stream-chunks", streamRoute(func(b []byte) io.Reader { return &chunky{b: b, r: textRand(b)} })},
	{"UnmarshalDecode/stream-buffer", streamRoute(func(b []byte) io.Reader { return bytes.NewBuffer(b) })},
	{"AllowDuplicateNames", intoAny(jsontext.AllowDuplicateNames(true))},
	{"AllowInvalidUTF8", intoAny(jsontext.AllowInvalidUTF8(true))},
	{"noop-unmarshaler", intoAny(noopAny)},
	{"noop-unmarshaler/stream", streamRoute(func(b []byte) io.Reader { return bytes.NewReader(b) }, noopAny)},
	{"named-interface", func(text []byte) (any, error) {
		var v I
		err := json.Unmarshal(text, &v)
		return v, err
	}},
	{"pointer-to-any-field", func(text []byte) (any, error) {
		var v struct{ A any }
		err := json.Unmarshal(append(append([]byte(`{"A":`), text...), '}'), &v)
		return v.A, err
	}},
}

func typed[T any](name string) route {
	return route{name, func(text []byte) (any, error) {
		var v T
		err := json.Unmarshal(text, &v)
		return widen(any(v)), err
	}}
}

func typedOpt[T any](name string, o json.Options) route {
	return route{name, func(text []byte) (any, error) {
		var v T
		err := json.Unmarshal(text, &v, o)
		return widen(any(v)), err
	}}
}

func uniform(ns []*ref.Node, k ref.Kind) bool {
	for _, n := range ns {
		if n.Kind != k {
			return false
		}
	}
	return true
}

func kindRoutes(tree *ref.Node) []route {
	switch tree.Kind {
	case ref.String:
		return []route{typed[string]("typed/string")}
	case ref.Number:
		return []route{typed[float64]("typed/float64")}
	case ref.Bool:
		return []route{typed[bool]("typed/bool")}
	case ref.Array:
		rs := []route{typed[[]any]("typed/[]any"), typed[[]I]("typed/[]I"), typedOpt[[]any]("typed/[]any+noop-unmarshaler", noopAny)}
		if len(tree.Elems) > 0 {
			switch {
			case uniform(tree.Elems, ref.String):
				rs = append(rs, typed[[]string]("typed/[]string"))
			case uniform(tree.Elems, ref.Number):
				rs = append(rs, typed[[]float64]("typed/[]float64"))
			case uniform(tree.Elems, ref.Bool):
				rs = append(rs, typed[[]bool]("typed/[]bool"))
			}
		}
		return rs
	case ref.Object:
		rs := []route{typed[map[string]any]("typed/map[string]any"), typed[map[string]I]("typed/map[string]I"), typedOpt[map[string]any]("typed/map[string]any+AllowDuplicateNames", jsontext.AllowDuplicateNames(true))}
		if len(tree.Members) > 0 {
			vs := make([]*ref.Node, len(tree.Members))
			for i, m := range tree.Members {
				vs[i] = m.Value
			}
			switch {
			case uniform(vs, ref.String):
				rs = append(rs, typed[map[string]string]("typed/map[string]string"))
			case uniform(vs, ref.Number):
				rs = append(rs, typed[map[string]float64]("typed/map[string]float64"))
			}
		}
		return rs
	}
	return nil
}

// normalizeI turns []I / map[string]I (identical underlying representation of the elements)
// into the untyped tree types.
func normalizeI(v any) any {
	switch x := v.(type) {
	case []I:
		if x == nil {
			return []any(nil)
		}
		out := make([]any, len(x))
		for i, e := range x {
			out[i] = e
		}
		return out
	case map[string]I:
		if x == nil {
			return map[string]any(nil)
		}
		out := make(map[string]any, len(x))
		for k, e := range x {
			out[k] = e
		}
		return out
	}
	return v
}

func skeleton(n *ref.Node, h io.Writer, budget *int) {
	if *budget <= 0 {
		return
	}
	*budget--
	switch n.Kind {
	case ref.Null:
		h.Write([]byte{'n'})
	case ref.Bool:
		h.Write([]byte{'b'})
	case ref.Number:
		h.Write([]byte{'0'})
	case ref.String:
		c := byte('"')
		if strings.Contains(n.Raw, `\`) {
			c = 'e'
		}
		h.Write([]byte{c})
	case ref.Array:
		h.Write([]byte{'['})
		for _, e := range n.Elems {
			skeleton(e, h, budget)
		}
		h.Write([]byte{']'})
	case ref.Object:
		h.Write([]byte{'{'})
		for _, m := range n.Members {
			skeleton(m.Value, h, budget)
		}
		h.Write([]byte{'}'})
	}
}

// checkText runs one valid text through every route.
func checkText(w *run.W, text []byte, class string) {
	tree := ref.Parse(text, ref.Opts{})
	if tree == nil {
		w.Broken("generator produced a text the reference rejects (class %s): %q", class, run.Trunc(string(text), 300))
		return
	}
	want, overflow := ref.ToAny(tree)
	hs := fnv.New64a()
	budget := 400
	skeleton(tree, hs, &budget)
	skel := hs.Sum64()
	if overflow {
		w.Count("texts_with_float64_overflow", 1)
	} else {
		w.Count("texts_decoded", 1)
	}
	routes := append(append([]route(nil), baseRoutes...), kindRoutes(tree)...)
	for ri, r := range routes {
		w.Eval(1)
		in := bytes.Clone(text)
		got, err := r.f(in)
		// the result must not alias the caller's buffer: scribble over it before comparing
		for i := range in {
			in[i] = '#'
		}
		got = normalizeI(got)
		sig := map[string]string{"route": r.name}
		var sb streamBroken
		switch {
		case errors.As(err, &sb):
			w.Violate("stream-neighbours", sig, "route %s on %q: %v", r.name, run.Trunc(string(text), 300), err)
		case overflow:
			var se *json.SemanticError
			if err == nil {
				sig["want"] = "overflow-error"
				w.Violate("overflow-accepted", sig, "route %s accepted %q although a number literal overflows float64; got %v", r.name, run.Trunc(string(text), 300), trunc(got))
			} else if !errors.As(err, &se) {
				sig["want"] = "semantic-error"
				w.Violate("error-class", sig, "route %s on valid text %q: error %T (%v) is not a *SemanticError", r.name, run.Trunc(string(text), 300), err, err)
			}
		case err != nil:
			sig["want"] = "accept"
			w.Violate("valid-text-refused", sig, "route %s refuses valid text %q: %v", r.name, run.Trunc(string(text), 300), err)
		default:
			if d := diff(want, got, ""); d != "" {
				w.Violate("tree-mismatch", sig, "route %s on %q: %s", r.name, run.Trunc(string(text), 300), d)
			}
		}
		w.ShapeHash(skel*31 + uint64(ri))
	}
	w.Count("routes_run", int64(len(routes)))
}

// ---------------------------------------------------------------------------------
// interning stress

type internArgs struct {
	Seed    uint64 `json:"seed"`
	N       int    `json:"n"`       // distinct strings
	Len     int    `json:"len"`     // 0 = mixed lengths 2..256, else one collision family of this length (>=19)
	Docs    int    `json:"docs"`    // documents decoded with one Decoder
	PerDoc  int    `json:"per_doc"` // string occurrences per document
	Escapes bool   `json:"escapes"` // spell some occurrences with escapes
}

func internStrings(r *rand.Rand, a *internArgs) []string {
	if a.Len >= 19 {
		return gen.CollisionFamily(r, a.N, a.Len, "k")
	}
	var out []string
	per := max(a.N/8, 1)
	for _, l := range []int{19, 24, 33, 64, 255, 256} {
		out = append(out, gen.CollisionFamily(r, per, l, fmt.Sprintf("L%d", l))...)
	}
	out = append(out, gen.DistinctStrings(r, per, 2, 7)...)
	out = append(out, gen.DistinctStrings(r, per, 8, 18)...)
	// just beyond the cached length, and non-ASCII
	out = append(out, gen.CollisionFamily(r, 8, 257, "X")...)
	out = append(out, gen.CollisionFamily(r, 4, 300, "Y")...)
	out = append(out, gen.CollisionFamily(r, 4, 1000, "Z")...)
	out = append(out, gen.CollisionFamily(r, 2, 5000, "W")...)
	for i := 0; i < per/2; i++ {
		out = append(out, fmt.Sprintf("é%dü%d€", i, i*7))
	}
	return out
}

func spell(r *rand.Rand, s string, escapes bool) string {
	if !escapes || r.IntN(3) != 0 || len(s) == 0 {
		return `"` + s + `"`
	}
	// re-spell one ASCII byte as \u00XX (same meaning, non-verbatim literal)
	i := r.IntN(len(s))
	if s[i] >= 0x80 {
		return `"` + s + `"`
	}
	return `"` + s[:i] + fmt.Sprintf(`\u%04x`, s[i]) + s[i+1:] + `"`
}

func checkIntern(w *run.W, a *internArgs) {
	r := rand.New(rand.NewPCG(a.Seed, 0x1e7e))
	pool := internStrings(r, a)
	var docs [][]byte
	var recent []string
	occurrences := int64(0)
	// model of "same hash inputs, different string was looked up in between": count switches
	lastOfFamily := map[string]string{}
	collisions := int64(0)
	famKey := func(s string) string {
		if len(s) >= 16 {
			return fmt.Sprint(len(s) >= 8, s[:8], s[len(s)-8:])
		}
		return s
	}
	for d := 0; d < a.Docs; d++ {
		var sb strings.Builder
		sb.WriteByte('[')
		for i := 0; i < a.PerDoc; i++ {
			var s string
			if len(recent) > 0 && r.IntN(2) == 0 {
				s = recent[r.IntN(len(recent))]
			} else {
				s = pool[r.IntN(len(pool))]
				recent = append(recent, s)
				if len(recent) > 24 {
					recent = recent[1:]
				}
			}
			if i > 0 {
				sb.WriteByte(',')
			}
			occurrences++
			if k := famKey(s); lastOfFamily[k] != "" && lastOfFamily[k] != s {
				collisions++
			}
			lastOfFamily[famKey(s)] = s
			switch r.IntN(4) {
			case 0:
				sb.WriteString(`{"k":` + spell(r, s, a.Escapes) + `}`)
			case 1:
				sb.WriteString(`[` + spell(r, s, a.Escapes) + `]`)
			default:
				sb.WriteString(spell(r, s, a.Escapes))
			}
		}
		sb.WriteByte(']')
		docs = append(docs, []byte(sb.String()))
	}
	wants := make([]any, len(docs))
	for i, d := range docs {
		tree := ref.Parse(d, ref.Opts{})
		if tree == nil {
			w.Broken("intern generator produced an invalid document: %q", run.Trunc(string(d), 200))
			return
		}
		wants[i], _ = ref.ToAny(tree)
	}
	stream := bytes.Join(docs, []byte("\n"))
	type mode struct {
		name string
		run  func() ([]any, error)
	}
	decodeAll := func(mk func() *jsontext.Decoder, into func(d *jsontext.Decoder) (any, error)) ([]any, error) {
		d := mk()
		out := make([]any, 0, len(docs))
		for range docs {
			v, err := into(d)
			if err != nil {
				return out, err
			}
			out = append(out, v)
		}
		return out, nil
	}
	anyInto := func(opts ...json.Options) func(d *jsontext.Decoder) (any, error) {
		return func(d *jsontext.Decoder) (any, error) {
			var v any
			err := json.UnmarshalDecode(d, &v, opts...)
			return v, err
		}
	}
	modes := []mode{
		{"one-decoder/any", func() ([]any, error) {
			return decodeAll(func() *jsontext.Decoder { return jsontext.NewDecoder(bytes.NewReader(stream)) }, anyInto())
		}},
		{"one-decoder/chunks/any", func() ([]any, error) {
			return decodeAll(func() *jsontext.Decoder {
				return jsontext.NewDecoder(&chunky{b: stream, r: textRand(stream[:min(len(stream), 64)])})
			}, anyInto())
		}},
		{"one-decoder/[]any", func() ([]any, error) {
			return decodeAll(func() *jsontext.Decoder { return jsontext.NewDecoder(bytes.NewReader(stream)) }, func(d *jsontext.Decoder) (any, error) {
				var v []any
				err := json.UnmarshalDecode(d, &v)
				return v, err
			})
		}},
		{"one-decoder/reflection-route", func() ([]any, error) {
			return decodeAll(func() *jsontext.Decoder { return jsontext.NewDecoder(bytes.NewReader(stream)) }, anyInto(noopAny))
		}},
		{"one-decoder/AllowDuplicateNames", func() ([]any, error) {
			return decodeAll(func() *jsontext.Decoder { return jsontext.NewDecoder(bytes.NewReader(stream)) }, anyInto(jsontext.AllowDuplicateNames(true)))
		}},
		{"reset-decoder/any", func() ([]any, error) {
			d := jsontext.NewDecoder(bytes.NewReader(nil))
			out := make([]any, 0, len(docs))
			for _, doc := range docs {
				d.Reset(bytes.NewReader(doc))
				var v any
				if err := json.UnmarshalDecode(d, &v); err != nil {
					return out, err
				}
				out = append(out, v)
			}
			return out, nil
		}},
		{"Unmarshal-per-doc", func() ([]any, error) {
			out := make([]any, 0, len(docs))
			for _, doc := range docs {
				buf := bytes.Clone(doc)
				var v any
				if err := json.Unmarshal(buf, &v); err != nil {
					return out, err
				}
				for i := range buf {
					buf[i] = '#'
				}
				out = append(out, v)
			}
			return out, nil
		}},
	}
	for _, m := range modes {
		w.Eval(1)
		got, err := m.run()
		sig := map[string]string{"route": "intern/" + m.name}
		if err != nil {
			w.Violate("valid-text-refused", sig, "interning stress %s (n=%d len=%d): document %d refused: %v", m.name, a.N, a.Len, len(got), err)
			continue
		}
		// compare only after everything was decoded: earlier results must have survived
		for i := range docs {
			if d := diff(wants[i], got[i], fmt.Sprintf("doc%d", i)); d != "" {
				w.Violate("tree-mismatch", sig, "interning stress %s (n=%d len=%d docs=%d): %s", m.name, a.N, a.Len, a.Docs, d)
				break
			}
		}
		w.Shape(fmt.Sprintf("intern|%s|%d|%d|%v", m.name, a.Len, a.N, a.Escapes))
	}
	w.Count("intern_string_occurrences", occurrences*int64(len(modes)))
	w.Count("intern_same_hash_input_switches", collisions*int64(len(modes)))
	w.Count("intern_cases", 1)
}

// ---------------------------------------------------------------------------------
// structure extremes

type shapeArgs struct {
	Kind  string `json:"kind"` // "tower-arr" | "tower-obj" | "tower-alt" | "wide-obj" | "wide-arr" | "wide-nested"
	Size  int    `json:"size"`
	Inner string `json:"inner"`
}

func buildShape(a *shapeArgs) []byte {
	var sb strings.Builder
	switch a.Kind {
	case "tower-arr", "tower-obj", "tower-alt":
		var cl []byte
		for i := 0; i < a.Size; i++ {
			obj := a.Kind == "tower-obj" || (a.Kind == "tower-alt" && i%2 == 1)
			if obj {
				sb.WriteString(`{"a":`)
				cl = append(cl, '}')
			} else {
				sb.WriteByte('[')
				cl = append(cl, ']')
			}
		}
		sb.WriteString(a.Inner)
		for i := len(cl) - 1; i >= 0; i-- {
			sb.WriteByte(cl[i])
		}
	case "wide-obj":
		sb.WriteByte('{')
		for i := 0; i < a.Size; i++ {
			if i > 0 {
				sb.WriteByte(',')
			}
			fmt.Fprintf(&sb, `"name%dé":%s`, i, a.Inner)
		}
		sb.WriteByte('}')
	case "wide-arr":
		sb.WriteByte('[')
		for i := 0; i < a.Size; i++ {
			if i > 0 {
				sb.WriteByte(',')
			}
			sb.WriteString(a.Inner)
		}
		sb.WriteByte(']')
	case "wide-nested":
		sb.WriteByte('[')
		for i := 0; i < a.Size; i++ {
			if i > 0 {
				sb.WriteByte(',')
			}
			fmt.Fprintf(&sb, `{"i":%d,"v":[%s,{}],"e":[]}`, i, a.Inner)
		}
		sb.WriteByte(']')
	}
	return []byte(sb.String())
}

// ---------------------------------------------------------------------------------

type textArgs struct {
	Text  []byte `json:"text"`
	Class string `json:"class,omitempty"`
}

var M = &run.Monitor{
	ID:    "C03",
	Level: "exploration",
	Rule: "valid-by-construction JSON texts (grammar-directed: adversarial escape spellings, surrogate pairs in all hex cases, C10 number pool incl. float64 overflow/subnormals/-0, nesting <= 6, width <= 8, whitespace), " +
		"structure extremes (towers to depth 9999, 5000-member objects), and interning stress documents (300-5000 distinct strings of length 2-257 sharing the first and last 8 bytes, repeated and interleaved, several documents per Decoder) " +
		"are decoded through 14 untyped routes plus the typed routes that fit the text's kind; every result is compared bit-exactly with the reference tree after the input buffer was overwritten. " +
		"distinct = value-kind skeleton of the text x route",
	Assumptions: []string{
		"reference parser /verif/ref (self-tested against the toolchain's encoding/json on overflow-free texts) and math/big rounding",
		"a text whose number overflows float64 must be refused by every route with a *SemanticError (property: 'an error if it overflows'); the partially filled target is not inspected",
	},
	Floors: func(c map[string]int64, tier string) []string {
		var u []string
		need := func(k string, n int64) {
			if c[k] < n {
				u = append(u, fmt.Sprintf("%s=%d < %d", k, c[k], n))
			}
		}
		need("texts_decoded", 10000)
		need("texts_with_float64_overflow", 300)
		need("routes_run", 150000)
		need("intern_same_hash_input_switches", 20000)
		need("intern_string_occurrences", 100000)
		need("shape_cases", 20)
		if c["hooks_available"] > 0 {
			need("hook_unmarshal_value_any", 1000)
			need("hook_interface_reflection_route", 1000)
		}
		return u
	},
	SelfTest: selfTest,
}

func selfTest() error {
	// the expected-tree oracle against the toolchain's classic encoding/json (strconv rounding,
	// its own unescaping) on overflow-free strict-valid texts
	r := run.SelfRand(3)
	cfg := &gen.ValidCfg{MaxDepth: 4, MaxWidth: 5, WS: true}
	n := 0
	for i := 0; i < 20000; i++ {
		b := gen.ValidValue(r, cfg)
		tree := ref.Parse(b, ref.Opts{})
		if tree == nil {
			return fmt.Errorf("valid-text generator produced %q, rejected by the reference", b)
		}
		want, over := ref.ToAny(tree)
		var got any
		err := stdjson.Unmarshal(b, &got)
		if over {
			if err == nil {
				return fmt.Errorf("reference reports float64 overflow in %q, encoding/json accepts", b)
			}
			continue
		}
		if err != nil {
			return fmt.Errorf("encoding/json refuses %q: %v", b, err)
		}
		n++
		if d := diff(want, got, ""); d != "" {
			// classic encoding/json returns []interface{}{} / map for empty containers as well; any difference is an oracle bug
			return fmt.Errorf("reference tree differs from encoding/json on %q: %s", b, d)
		}
	}
	if n < 10000 {
		return fmt.Errorf("self-test compared only %d texts", n)
	}
	if !reflect.DeepEqual(normalizeI([]I{1.0}), []any{1.0}) {
		return errors.New("normalizeI broken")
	}
	return nil
}

func main() {
	run.Def(M, "text", func(w *run.W, a *textArgs) { checkText(w, a.Text, a.Class) })
	run.Def(M, "intern", checkIntern)
	run.Def(M, "shape", func(w *run.W, a *shapeArgs) {
		checkText(w, buildShape(a), a.Kind)
		w.Count("shape_cases", 1)
	})
	M.Gen = generate
	debug.SetGCPercent(400)
	runtime.GOMAXPROCS(2)
	run.Main(M)
}

func generate(w *run.W) {
	// (a) grammar-directed valid texts
	nb := w.Pick(320, 12000)
	for batch := 0; batch < nb; batch++ {
		if !w.Mine(batch) {
			continue
		}
		r := w.Rand("valid", batch)
		cfg := &gen.ValidCfg{MaxDepth: 1 + r.IntN(6), MaxWidth: 1 + r.IntN(8), WS: r.IntN(2) == 0}
		if r.IntN(3) == 0 {
			cfg.Extra = gen.CollisionFamily(r, 40, 19+r.IntN(40), "g")
		}
		for k := 0; k < 100; k++ {
			b := gen.ValidValue(r, cfg)
			w.Do("text", &textArgs{Text: b})
			if w.WantSample() && len(b) > 20 && len(b) < 200 {
				w.Sample(map[string]any{"exec": "text", "text": string(b)})
			}
		}
	}
	ci := 0
	mine := func() bool { ci++; return w.Mine(ci) }
	// (b) number literals and string literals alone and in small containers
	{
		var lits []string
		lits = append(lits, gen.ValidNumbers()...)
		lits = append(lits, "1e308", "1e309", "-1e309", "1.7976931348623157e308", "1.7976931348623158e308", "1.797693134862315807e308", "1.797693134862315808e308",
			"4.9e-324", "2.4703282292062327e-324", "2.4703282292062328e-324", "1e-400", "-1e-400", "0.1", "0.30000000000000004", "9007199254740993", "9007199254740992.5",
			"123456789012345678901234567890", "1e23", "8.41e21", "2.2250738585072011e-308", "2.2250738585072014e-308", "-0", "-0.0", "-0e10", "0e-5", "1E400", "1e+400",
			"100000000000000000000000000000000000000000000000000000000000000000000000000000000000000000000000000000000000000000000000000000000000000000000000000000000000000000000000000000000000000000000000000000000000000000000000000000000000000000000000000000000000000000000000000000000000000000000000000000000000000000000000000")
		r := w.Rand("numbers")
		for i := 0; i < w.Pick(3000, 100000); i++ {
			lits = append(lits, gen.ValidNumber(r))
		}
		for i, l := range lits {
			if !mine() {
				continue
			}
			w.Do("text", &textArgs{Text: []byte(l), Class: "number"})
			switch i % 3 {
			case 0:
				w.Do("text", &textArgs{Text: []byte("[" + l + ", 1]"), Class: "number"})
			case 1:
				w.Do("text", &textArgs{Text: []byte(`{"a":` + l + `,"b":[` + l + `]}`), Class: "number"})
			}
		}
		cfg := &gen.ValidCfg{}
		for i := 0; i < w.Pick(3000, 100000); i++ {
			s := gen.ValidString(r, cfg)
			if !mine() {
				continue
			}
			w.Do("text", &textArgs{Text: []byte(s), Class: "string"})
			if i%2 == 0 {
				w.Do("text", &textArgs{Text: []byte("{" + s + ":" + s + "}"), Class: "string"})
			} else {
				w.Do("text", &textArgs{Text: []byte("[" + s + "," + s + "]"), Class: "string"})
			}
		}
	}
	// (c) structure extremes
	for _, kind := range []string{"tower-arr", "tower-obj", "tower-alt"} {
		for _, size := range []int{1, 2, 64, 1000, 5000, 9998} {
			for _, inner := range []string{"[]", "{}", `"x"`, "1e400", "null"} {
				if mine() {
					w.Do("shape", &shapeArgs{Kind: kind, Size: size, Inner: inner})
				}
			}
		}
	}
	for _, kind := range []string{"wide-obj", "wide-arr", "wide-nested"} {
		for _, size := range []int{0, 1, 31, 32, 33, 63, 64, 65, 70, 1000, 5000} {
			for _, inner := range []string{"[]", "{}", `"x\n"`, "-0", "null", "true"} {
				if mine() {
					w.Do("shape", &shapeArgs{Kind: kind, Size: size, Inner: inner})
				}
			}
		}
	}
	// (d) interning stress
	{
		r := w.Rand("intern")
		type ic struct{ n, l int }
		cases := []ic{{300, 0}, {1000, 0}, {5000, 0}, {300, 19}, {300, 24}, {1000, 32}, {2000, 64}, {300, 200}, {5000, 256}, {300, 256}, {64, 257}, {600, 20}}
		reps := w.Pick(2, 40)
		for rep := 0; rep < reps; rep++ {
			for _, c := range cases {
				seed := r.Uint64()
				if mine() {
					w.Do("intern", &internArgs{Seed: seed, N: c.n, Len: c.l, Docs: 4 + rep%3, PerDoc: 600, Escapes: rep%2 == 1})
				}
			}
		}
	}
	if fast, refl, ok := hookCounts(); ok {
		w.Count("hook_unmarshal_value_any", fast)
		w.Count("hook_interface_reflection_route", refl)
		w.Count("hooks_available", 1)
	}
}

//go:build !verif

package main

func hookCounts() (fastAny, reflectRoute int64, ok bool) { return 0, 0, false }

//go:build verif

package main

import json "github.com/go-json-experiment/json"

// hookCounts reads the library's instrumentation counters (build tag verif).
func hookCounts() (fastAny, reflectRoute int64, ok bool) {
	return json.VerifPointCount[json.VerifUnmarshalValueAny].Load(), json.VerifPointCount[json.VerifInterfaceReflect].Load(), true
}

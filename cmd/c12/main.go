// C12 — reformatting a value never changes what it means: Value.Format, Compact, Indent,
// Canonicalize and AppendFormat succeed iff the input is valid under the options; the
// result is valid, equal to the input under the permitted-difference relation, a fixed
// point of the same operation; errors leave the value untouched; an already formatted
// value is not written to.
package main

import (
	"bytes"
	stdjson "encoding/json"
	"fmt"
	"math"
	"math/rand/v2"
	"os"
	"runtime"
	"runtime/debug"
	"sort"
	"strconv"
	"strings"
	"syscall"
	"unicode/utf8"

	"github.com/go-json-experiment/json/jsontext"

	"verif/gen"
	"verif/ref"
	"verif/run"
)

// ---------------------------------------------------------------------------------
// options model (last one wins; WithIndent/WithIndentPrefix imply Multiline(true);
// Multiline defaults SpaceAfterColon to true and the indent to "\t" when unspecified)

var boolNames = [11]string{"dup", "inv", "html", "js", "preserve", "cint", "cfloat", "reorder", "colon", "comma", "multi"}

type optSpec struct {
	K string `json:"k"` // one of boolNames, "indent", "prefix"
	B bool   `json:"b,omitempty"`
	S string `json:"s,omitempty"`
}

func (o optSpec) option() jsontext.Options {
	switch o.K {
	case "dup":
		return jsontext.AllowDuplicateNames(o.B)
	case "inv":
		return jsontext.AllowInvalidUTF8(o.B)
	case "html":
		return jsontext.EscapeForHTML(o.B)
	case "js":
		return jsontext.EscapeForJS(o.B)
	case "preserve":
		return jsontext.PreserveRawStrings(o.B)
	case "cint":
		return jsontext.CanonicalizeRawInts(o.B)
	case "cfloat":
		return jsontext.CanonicalizeRawFloats(o.B)
	case "reorder":
		return jsontext.ReorderRawObjects(o.B)
	case "colon":
		return jsontext.SpaceAfterColon(o.B)
	case "comma":
		return jsontext.SpaceAfterComma(o.B)
	case "multi":
		return jsontext.Multiline(o.B)
	case "indent":
		return jsontext.WithIndent(o.S)
	case "prefix":
		return jsontext.WithIndentPrefix(o.S)
	}
	panic("c12: unknown option " + o.K)
}

type eff struct {
	b                 [11]bool
	set               [11]bool
	indent, prefix    string
	indentSet         bool
	callerWhitespace  bool // the caller passed any whitespace option
	layoutUnambiguous bool
}

const (
	oDup = iota
	oInv
	oHTML
	oJS
	oPreserve
	oCint
	oCfloat
	oReorder
	oColon
	oComma
	oMulti
)

func boolIndex(k string) int {
	for i, n := range boolNames {
		if n == k {
			return i
		}
	}
	return -1
}

// effective computes the configuration the documentation promises for a route and an
// option list.
func effective(route string, opts []optSpec) eff {
	var e eff
	preset := func(i int) { e.b[i], e.set[i] = true, true }
	switch route {
	case "compact":
		preset(oDup)
		preset(oInv)
		preset(oPreserve)
	case "indent":
		preset(oDup)
		preset(oInv)
		preset(oPreserve)
		preset(oMulti)
	case "canonicalize":
		preset(oCint)
		preset(oCfloat)
		preset(oReorder)
	}
	for _, o := range opts {
		switch o.K {
		case "indent":
			e.indent, e.indentSet = o.S, true
			e.b[oMulti], e.set[oMulti] = true, true
			e.callerWhitespace = true
		case "prefix":
			e.prefix = o.S
			e.b[oMulti], e.set[oMulti] = true, true
			e.callerWhitespace = true
		default:
			i := boolIndex(o.K)
			e.b[i], e.set[i] = o.B, true
			if i >= oColon {
				e.callerWhitespace = true
			}
		}
	}
	if e.b[oMulti] {
		if !e.set[oColon] {
			e.b[oColon] = true
		}
		if !e.indentSet {
			e.indent = "\t"
		}
	}
	// For the preset routes the documentation ("equivalent to calling Format with …, caller
	// options applied after") and the implementation (defaults implied by Multiline are
	// resolved before the caller's options are joined) give different *whitespace* when the
	// caller adds whitespace options.  Whitespace is free under C12, so the exact layout is
	// demanded only where the documentation is unambiguous.
	e.layoutUnambiguous = route == "format" || strings.HasPrefix(route, "append") || !e.callerWhitespace
	return e
}

func (e *eff) mask() int {
	m := 0
	for i, b := range e.b {
		if b {
			m |= 1 << i
		}
	}
	return m
}

// ---------------------------------------------------------------------------------
// the permitted-difference relation, on reference trees

func isFloatLit(s string) bool { return strings.ContainsAny(s, ".eE") }

func canonNumber(lit string) string {
	f, over := ref.Float(lit, 64)
	if over {
		f = math.Copysign(math.MaxFloat64, f)
	}
	return ref.ES6(f)
}

func wantNumber(e *eff, lit string) string {
	switch {
	case lit == "-0" && (e.b[oCint] || e.b[oCfloat]):
		return "0"
	case isFloatLit(lit) && e.b[oCfloat], !isFloatLit(lit) && e.b[oCint]:
		return canonNumber(lit)
	}
	return lit
}

type relStats struct {
	numbers, numbersRespelled, strings, stringsRespelled, rawPinned int64
	objects, reordered, dupObjects, dupReordered, unsortedSkipped   int64
	wide8, wide65                                                   int64
}

// normTree renders what must be preserved of a tree: for the input side (expect=true)
// the expected literal of every number, for the output side the literal found; strings by
// meaning (plus raw spelling where it is pinned).  Members of an object are listed in
// order, or — under ReorderRawObjects — as a multiset sorted by (name, member text).
func normTree(n *ref.Node, e *eff, expect bool, st *relStats) string {
	var sb strings.Builder
	normNode(n, e, expect, &sb, st)
	return sb.String()
}

func normNode(n *ref.Node, e *eff, expect bool, sb *strings.Builder, st *relStats) {
	rawPinned := e.b[oPreserve] && !e.b[oHTML] && !e.b[oJS]
	str := func(sb *strings.Builder, meaning, raw string) {
		sb.WriteString(ref.Quote(meaning, ref.QuoteOpts{}))
		if rawPinned {
			sb.WriteString("|raw=")
			sb.WriteString(raw)
		}
	}
	switch n.Kind {
	case ref.Null:
		sb.WriteString("null")
	case ref.Bool:
		sb.WriteString(strconv.FormatBool(n.B))
	case ref.Number:
		if expect {
			w := wantNumber(e, n.Raw)
			if st != nil {
				st.numbers++
				if w != n.Raw {
					st.numbersRespelled++
				}
			}
			sb.WriteString(w)
		} else {
			sb.WriteString(n.Raw)
		}
	case ref.String:
		if st != nil && expect {
			st.strings++
			if rawPinned {
				st.rawPinned++
			}
		}
		str(sb, n.S, n.Raw)
	case ref.Array:
		sb.WriteByte('[')
		for i, el := range n.Elems {
			if i > 0 {
				sb.WriteByte(',')
			}
			normNode(el, e, expect, sb, st)
		}
		sb.WriteByte(']')
	case ref.Object:
		type part struct{ name, text string }
		parts := make([]part, len(n.Members))
		hasDup := false
		seen := make(map[string]bool, len(n.Members))
		for i, m := range n.Members {
			var ms strings.Builder
			str(&ms, m.Name, m.RawName)
			ms.WriteByte(':')
			normNode(m.Value, e, expect, &ms, st)
			parts[i] = part{m.Name, ms.String()}
			if seen[m.Name] {
				hasDup = true
			}
			seen[m.Name] = true
		}
		if st != nil && expect {
			st.objects++
			if len(n.Members) >= 8 {
				st.wide8++
			}
			if len(n.Members) >= 65 {
				st.wide65++
			}
			if hasDup {
				st.dupObjects++
			}
		}
		if e.b[oReorder] {
			moved := false
			for i := 1; i < len(parts); i++ {
				if ref.U16Less(parts[i].name, parts[i-1].name) {
					moved = true
				}
			}
			if st != nil && expect && moved {
				st.reordered++
				if hasDup {
					st.dupReordered++
				}
			}
			sort.SliceStable(parts, func(i, j int) bool {
				if parts[i].name != parts[j].name {
					return ref.U16Less(parts[i].name, parts[j].name)
				}
				return parts[i].text < parts[j].text
			})
		}
		sb.WriteByte('{')
		for i, p := range parts {
			if i > 0 {
				sb.WriteByte(',')
			}
			sb.WriteString(p.text)
		}
		sb.WriteByte('}')
	}
}

// sortedByName checks, for every object of an output tree whose names are all well-formed
// UTF-8, that the names are in non-decreasing UTF-16 order (RFC 8785 §3.2.3).  Objects with
// ill-formed names are outside the RFC's order and are skipped.
func sortedByName(n *ref.Node, st *relStats) (bad string) {
	switch n.Kind {
	case ref.Array:
		for _, el := range n.Elems {
			if b := sortedByName(el, st); b != "" {
				return b
			}
		}
	case ref.Object:
		wf := true
		for _, m := range n.Members {
			if !utf8.ValidString(m.RawName) {
				wf = false
			}
		}
		if !wf {
			st.unsortedSkipped++
		}
		for i, m := range n.Members {
			if wf && i > 0 && ref.U16Less(m.Name, n.Members[i-1].Name) {
				return fmt.Sprintf("%q after %q", m.Name, n.Members[i-1].Name)
			}
			if b := sortedByName(m.Value, st); b != "" {
				return b
			}
		}
	}
	return ""
}

// layout writes the tree with raw spellings under the documented whitespace options.
func layout(n *ref.Node, e *eff, sb *strings.Builder, depth int) {
	nl := func(d int) {
		sb.WriteByte('\n')
		sb.WriteString(e.prefix)
		for i := 0; i < d; i++ {
			sb.WriteString(e.indent)
		}
	}
	sep := func(i int) {
		if i > 0 {
			sb.WriteByte(',')
			if e.b[oComma] {
				sb.WriteByte(' ')
			}
		}
		if e.b[oMulti] {
			nl(depth + 1)
		}
	}
	switch n.Kind {
	case ref.Null:
		sb.WriteString("null")
	case ref.Bool:
		sb.WriteString(strconv.FormatBool(n.B))
	case ref.Number, ref.String:
		sb.WriteString(n.Raw)
	case ref.Array:
		sb.WriteByte('[')
		for i, el := range n.Elems {
			sep(i)
			layout(el, e, sb, depth+1)
		}
		if e.b[oMulti] && len(n.Elems) > 0 {
			nl(depth)
		}
		sb.WriteByte(']')
	case ref.Object:
		sb.WriteByte('{')
		for i, m := range n.Members {
			sep(i)
			sb.WriteString(m.RawName)
			sb.WriteByte(':')
			if e.b[oColon] {
				sb.WriteByte(' ')
			}
			layout(m.Value, e, sb, depth+1)
		}
		if e.b[oMulti] && len(n.Members) > 0 {
			nl(depth)
		}
		sb.WriteByte('}')
	}
}

// ---------------------------------------------------------------------------------
// read-only memory: a store into it faults, which the runtime turns into a panic

// The same pages are mapped twice (MAP_SHARED on an unlinked temporary file): the harness
// fills them through the writable view and hands the library the read-only view, so no
// system call is needed per case.
var roView, rwView []byte

func roInit(size int) bool {
	if roView != nil {
		syscall.Munmap(roView)
		syscall.Munmap(rwView)
		roView, rwView = nil, nil
	}
	dir := "/dev/shm"
	if st, err := os.Stat(dir); err != nil || !st.IsDir() {
		dir = ""
	}
	f, err := os.CreateTemp(dir, "verif-c12-*")
	if err != nil {
		return false
	}
	defer f.Close()
	os.Remove(f.Name())
	if err := f.Truncate(int64(size)); err != nil {
		return false
	}
	rw, err := syscall.Mmap(int(f.Fd()), 0, size, syscall.PROT_READ|syscall.PROT_WRITE, syscall.MAP_SHARED)
	if err != nil {
		return false
	}
	ro, err := syscall.Mmap(int(f.Fd()), 0, size, syscall.PROT_READ, syscall.MAP_SHARED)
	if err != nil {
		syscall.Munmap(rw)
		return false
	}
	roView, rwView = ro, rw
	return true
}

func roCopy(b []byte) []byte {
	if len(roView) < len(b)+1 {
		if !roInit((len(b) + 1<<16) &^ 4095) {
			return nil
		}
	}
	// place the value at the end of the mapping so that a write past its length faults too
	off := len(rwView) - len(b)
	copy(rwView[off:], b)
	return roView[off:len(roView):len(roView)]
}

// guardedFault runs fn; a memory fault inside it is returned as faulted=true, every other
// panic propagates (so that library panics are still attributed by the framework).
func guardedFault(fn func()) (faulted bool, where string) {
	old := debug.SetPanicOnFault(true)
	defer debug.SetPanicOnFault(old)
	defer func() {
		if r := recover(); r != nil {
			if re, ok := r.(runtime.Error); ok {
				if _, isFault := r.(interface{ Addr() uintptr }); isFault {
					fn, _, _ := run.PanicOrigin()
					faulted, where = true, fn+": "+re.Error()
					return
				}
			}
			panic(r)
		}
	}()
	fn()
	return
}

// ---------------------------------------------------------------------------------
// one case

type fmtArgs struct {
	Text  []byte    `json:"text"`
	Route string    `json:"route"` // format | compact | indent | canonicalize | append | append-string | append-overlap
	Opts  []optSpec `json:"opts"`
	// append-overlap only: how dst and src share one buffer
	Pre    int    `json:"pre,omitempty"`   // bytes in front of src
	Overl  int    `json:"overl,omitempty"` // 0: dst is the bytes right before src; 1: empty dst at the start of src; 2: dst ends inside src; 3: dst covers src
	Cut    int    `json:"cut,omitempty"`   // for Overl==2
	Spare  int    `json:"spare,omitempty"` // spare capacity behind src
	Family string `json:"family,omitempty"`
}

func apiOptions(opts []optSpec) []jsontext.Options {
	out := make([]jsontext.Options, len(opts))
	for i, o := range opts {
		out[i] = o.option()
	}
	return out
}

// apply runs the route on a private copy of text and returns the resulting bytes.
// For the Value methods ptrSame reports whether the value still starts at the same address.
func apply(route string, text []byte, opts []jsontext.Options) (out []byte, err error) {
	switch route {
	case "format":
		v := jsontext.Value(bytes.Clone(text))
		err = v.Format(opts...)
		return v, err
	case "compact":
		v := jsontext.Value(bytes.Clone(text))
		err = v.Compact(opts...)
		return v, err
	case "indent":
		v := jsontext.Value(bytes.Clone(text))
		err = v.Indent(opts...)
		return v, err
	case "canonicalize":
		v := jsontext.Value(bytes.Clone(text))
		err = v.Canonicalize(opts...)
		return v, err
	case "append", "append-overlap":
		return jsontext.AppendFormat(nil, bytes.Clone(text), opts...)
	case "append-string":
		return jsontext.AppendFormat(nil, string(text), opts...)
	}
	panic("c12: unknown route " + route)
}

func applyInPlace(route string, v *jsontext.Value, opts []jsontext.Options) error {
	switch route {
	case "compact":
		return v.Compact(opts...)
	case "indent":
		return v.Indent(opts...)
	case "canonicalize":
		return v.Canonicalize(opts...)
	}
	return v.Format(opts...)
}

var (
	masksSeen    [2048]bool
	masksSuccess [2048]bool
)

func sig(route string, extra ...string) map[string]string {
	m := map[string]string{"api": route}
	for i := 0; i+1 < len(extra); i += 2 {
		m[extra[i]] = extra[i+1]
	}
	return m
}

func optString(e *eff) string {
	var on []string
	for i, b := range e.b {
		if b {
			on = append(on, boolNames[i])
		}
	}
	return strings.Join(on, "+")
}

func checkFormat(w *run.W, a *fmtArgs) {
	e := effective(a.Route, a.Opts)
	opts := apiOptions(a.Opts)
	ro := ref.Opts{AllowInvalidUTF8: e.b[oInv], AllowDup: e.b[oDup]}
	tin := ref.Parse(a.Text, ro)
	valid := tin != nil
	mask := e.mask()
	masksSeen[mask] = true
	w.Eval(1)
	w.Count("route_"+a.Route, 1)

	out, err := apply(a.Route, a.Text, opts)

	skel := "invalid"
	if valid {
		skel = skeleton(tin)
	}
	w.Shape(skel + "|" + strconv.Itoa(mask) + "|" + a.Route)

	for i, b := range e.b {
		if b {
			if err == nil {
				w.Count("ok_with_"+boolNames[i], 1)
			} else {
				w.Count("err_with_"+boolNames[i], 1)
			}
		}
	}

	// (1) success iff valid under the two validity switches
	if (err == nil) != valid {
		w.Violate("success-iff-valid", sig(a.Route, "ref_valid", fmt.Sprint(valid), "inv", fmt.Sprint(e.b[oInv]), "dup", fmt.Sprint(e.b[oDup])),
			"%s(%q, %s) err=%v but the reference says valid=%v", a.Route, a.Text, optString(&e), err, valid)
		return
	}
	// (2) on error the value is untouched / src is appended unmodified
	if err != nil {
		w.Count("inputs_invalid", 1)
		if !bytes.Equal(out, a.Text) {
			w.Violate("modified-on-error", sig(a.Route), "%s(%q, %s) failed with %v but left %q", a.Route, a.Text, optString(&e), err, out)
		}
		if a.Route == "append-overlap" {
			checkOverlap(w, a, opts, a.Text, false)
		}
		return
	}
	w.Count("inputs_valid", 1)
	masksSuccess[mask] = true

	// (3) output valid under the same options
	tout := ref.Parse(out, ro)
	if tout == nil {
		w.Violate("output-invalid", sig(a.Route, "opts", optString(&e)), "%s(%q, %s) = %q which is not valid under the same options", a.Route, a.Text, optString(&e), out)
		return
	}
	// (4) permitted-difference relation
	var st relStats
	want := normTree(tin, &e, true, &st)
	got := normTree(tout, &e, false, nil)
	if want != got {
		w.Violate("meaning-changed", sig(a.Route, "diff", relDiff(tin, tout, &e), "opts", relevantOpts(&e, relDiff(tin, tout, &e))),
			"%s(%q, %s) = %q\n expected (normal form) %s\n found    (normal form) %s", a.Route, a.Text, optString(&e), out, run.Trunc(want, 600), run.Trunc(got, 600))
	}
	if e.b[oReorder] {
		if bad := sortedByName(tout, &st); bad != "" {
			w.Violate("not-sorted", sig(a.Route), "%s(%q, %s) = %q: member %s in UTF-16 order", a.Route, a.Text, optString(&e), out, bad)
		}
	}
	w.Count("numbers", st.numbers)
	w.Count("numbers_respelled_expected", st.numbersRespelled)
	w.Count("strings", st.strings)
	w.Count("strings_raw_spelling_pinned", st.rawPinned)
	w.Count("objects", st.objects)
	w.Count("objects_reordered", st.reordered)
	w.Count("objects_ge8_members", st.wide8)
	w.Count("objects_ge65_members", st.wide65)
	w.Count("objects_with_duplicate_names", st.dupObjects)
	w.Count("objects_with_duplicate_names_reordered", st.dupReordered)
	w.Count("objects_illformed_names_order_not_demanded", st.unsortedSkipped)

	// (5) whitespace layout, where the documentation pins it
	if e.layoutUnambiguous {
		var sb strings.Builder
		layout(tout, &e, &sb, 0)
		w.Count("layout_checked", 1)
		if sb.String() != string(out) {
			w.Violate("layout", sig(a.Route, "multi", fmt.Sprint(e.b[oMulti]), "colon", fmt.Sprint(e.b[oColon]), "comma", fmt.Sprint(e.b[oComma])),
				"%s(%q, %s indent=%q prefix=%q) = %q\n documented layout of the same tokens: %q", a.Route, a.Text, optString(&e), e.indent, e.prefix, out, sb.String())
		}
	}

	// (6) fixed point, and "already formatted ⇒ not rewritten": the second application
	// runs on read-only memory
	if bytes.Equal(out, a.Text) {
		w.Count("inputs_already_formatted", 1)
	}
	if strings.HasPrefix(a.Route, "append") {
		again, err2 := apply(a.Route, out, opts)
		if err2 != nil || !bytes.Equal(again, out) {
			w.Violate("fixed-point", sig(a.Route, "opts", optString(&e)), "%s(%q) = %q, applied again = %q (err=%v)", a.Route, a.Text, out, again, err2)
		}
	} else {
		mem := roCopy(out)
		if mem == nil {
			w.Count("readonly_memory_unavailable", 1)
			again, err2 := apply(a.Route, out, opts)
			if err2 != nil || !bytes.Equal(again, out) {
				w.Violate("fixed-point", sig(a.Route, "opts", optString(&e)), "%s(%q) = %q, applied again = %q (err=%v)", a.Route, a.Text, out, again, err2)
			}
		} else {
			v := jsontext.Value(mem)
			var err2 error
			faulted, where := guardedFault(func() { err2 = applyInPlace(a.Route, &v, opts) })
			w.Count("readonly_second_application", 1)
			switch {
			case faulted:
				// decide which law broke: would the second application have changed the bytes?
				again, _ := apply(a.Route, out, opts)
				if bytes.Equal(again, out) {
					w.Violate("already-formatted-rewritten", sig(a.Route), "%s on the already formatted value %q stored into its buffer (%s)", a.Route, out, where)
				} else {
					w.Violate("fixed-point", sig(a.Route, "opts", optString(&e)), "%s(%q) = %q, applied again = %q", a.Route, a.Text, out, again)
				}
			case err2 != nil || !bytes.Equal(v, out):
				w.Violate("fixed-point", sig(a.Route, "opts", optString(&e)), "%s(%q) = %q, applied again = %q (err=%v)", a.Route, a.Text, out, []byte(v), err2)
			case len(v) > 0 && &v[0] != &mem[0]:
				w.Violate("already-formatted-rewritten", sig(a.Route), "%s on the already formatted value %q moved it to another buffer", a.Route, out)
			}
		}
	}

	if a.Route == "append-overlap" {
		checkOverlap(w, a, opts, out, true)
	}
	if w.WantSample() && len(a.Text) < 200 && st.reordered > 0 && st.numbersRespelled > 0 {
		w.Sample(map[string]any{"exec": "format", "route": a.Route, "opts": a.Opts, "text": string(a.Text), "out": string(out)})
	}
}

// checkOverlap: AppendFormat with dst and src sharing one array must return dst ++ (what
// the non-overlapping call returned, already judged above), resp. dst ++ src on error.
func checkOverlap(w *run.W, a *fmtArgs, opts []jsontext.Options, base []byte, ok bool) {
	buf := make([]byte, a.Pre+len(a.Text), a.Pre+len(a.Text)+a.Spare)
	for j := 0; j < a.Pre; j++ {
		buf[j] = byte('A' + j%26)
	}
	copy(buf[a.Pre:], a.Text)
	var dst, src []byte
	src = buf[a.Pre:]
	switch a.Overl {
	case 0:
		dst = buf[:a.Pre]
	case 1:
		dst = buf[a.Pre:a.Pre]
	case 2:
		dst = buf[:a.Pre+min(a.Cut, len(a.Text))]
	default:
		dst = buf[:a.Pre+len(a.Text)]
	}
	dstCopy := bytes.Clone(dst)
	got, err := jsontext.AppendFormat(dst, src, opts...)
	want := append(dstCopy, base...)
	w.Count("overlap_checked", 1)
	if (err == nil) != ok || !bytes.Equal(got, want) {
		w.Violate("append-overlap", sig("append-overlap", "overl", strconv.Itoa(a.Overl), "ok", fmt.Sprint(ok)),
			"AppendFormat(dst=%q, src=%q) with shared array (layout %d) = %q err=%v, want %q", dstCopy[:len(dstCopy):len(dstCopy)], a.Text, a.Overl, got, err, want)
	}
}

// relDiff names the first kind of difference between input and output (for signatures).
func relDiff(in, out *ref.Node, e *eff) string {
	if in.Kind != out.Kind {
		return "structure"
	}
	switch in.Kind {
	case ref.Bool:
		if in.B != out.B {
			return "literal"
		}
	case ref.Number:
		if wantNumber(e, in.Raw) != out.Raw {
			if isFloatLit(in.Raw) {
				return "number-float"
			}
			return "number-int"
		}
	case ref.String:
		if in.S != out.S {
			return "string-meaning"
		}
		if e.b[oPreserve] && !e.b[oHTML] && !e.b[oJS] && in.Raw != out.Raw {
			return "raw-string-not-preserved"
		}
	case ref.Array:
		if len(in.Elems) != len(out.Elems) {
			return "structure"
		}
		for i := range in.Elems {
			if d := relDiff(in.Elems[i], out.Elems[i], e); d != "" {
				return d
			}
		}
	case ref.Object:
		if len(in.Members) != len(out.Members) {
			return "members"
		}
		if e.b[oReorder] {
			byName := map[string]*ref.Node{}
			for _, m := range out.Members {
				if _, dup := byName[m.Name]; dup {
					return "members-multiset"
				}
				byName[m.Name] = m.Value
			}
			for _, m := range in.Members {
				o, ok := byName[m.Name]
				if !ok {
					return "members-multiset"
				}
				delete(byName, m.Name)
				if d := relDiff(m.Value, o, e); d != "" {
					return d
				}
			}
			return ""
		}
		for i := range in.Members {
			if in.Members[i].Name != out.Members[i].Name {
				return "member-name-or-order"
			}
			if e.b[oPreserve] && !e.b[oHTML] && !e.b[oJS] && in.Members[i].RawName != out.Members[i].RawName {
				return "raw-string-not-preserved"
			}
			if d := relDiff(in.Members[i].Value, out.Members[i].Value, e); d != "" {
				return d
			}
		}
	}
	return ""
}

func relevantOpts(e *eff, diff string) string {
	var on []string
	add := func(is ...int) {
		for _, i := range is {
			if e.b[i] {
				on = append(on, boolNames[i])
			}
		}
	}
	switch {
	case strings.HasPrefix(diff, "number"):
		add(oCint, oCfloat)
	case strings.Contains(diff, "string"):
		add(oInv, oHTML, oJS, oPreserve)
	default:
		add(oDup, oReorder)
	}
	return strings.Join(on, "+")
}

func skeleton(n *ref.Node) string {
	var sb strings.Builder
	var rec func(n *ref.Node)
	rec = func(n *ref.Node) {
		switch n.Kind {
		case ref.Null, ref.Bool:
			sb.WriteByte('l')
		case ref.Number:
			if isFloatLit(n.Raw) {
				sb.WriteByte('f')
			} else if len(n.Raw) >= 16 {
				sb.WriteByte('I')
			} else {
				sb.WriteByte('i')
			}
		case ref.String:
			sb.WriteByte('s')
		case ref.Array:
			sb.WriteByte('[')
			for _, e := range n.Elems {
				rec(e)
			}
			sb.WriteByte(']')
		case ref.Object:
			sb.WriteByte('{')
			for _, m := range n.Members {
				rec(m.Value)
			}
			sb.WriteByte('}')
		}
	}
	rec(n)
	return sb.String()
}

// ---------------------------------------------------------------------------------
// workload

var extraStrings = []string{
	`"<"`, `">"`, `"&"`, `"a<b>&c"`, "\"\u2028\"", "\"\u2029\"", "\"x\u2028y\u2029\"", `"\u2028"`, `"\u2029"`, `"\u003c"`, `"\u003C\u0026"`,
	`"\u0041"`, `"\uD83D\uDE00"`, `"\ud83d\ude00"`, `"\uD83d\uDe00"`, `"\udbff\udfff"`, "\"\U00010000\"", "\"\uE000\"", "\"\uFFFF\"", "\"\uFFFD\"",
	"\"\xff<\"", "\"\xe2\x80\"", "\"a\xc3\"", "\"\xed\xa0\x80\"", `"\ud800"`, `"\udc00\ud800"`, `"\t"`, `"\u0009"`, `"\u007f"`, "\"\x7f\"",
	`"z"`, `"y"`, `"x"`, `"aa"`, `"aaa"`, `"b"`, `"B"`, `"1"`, `"10"`, `"2"`, `""`,
}

var extraNumbers = []string{
	`-0`, `-0.0`, `-0e0`, `0.0`, `0e0`, `1234567890123456`, `9007199254740992`, `9007199254740993`, `9007199254740991`, `-9007199254740993`,
	`999999999999999`, `-999999999999999`, `9999999999999999`, `-9999999999999999`, `99999999999999999`, `12345678901234567`, `123456789012345678`,
	`100000000000000000000`, `1000000000000000000000`, `999999999999999999999`, `123456789012345678901234567890`, `1.0`, `1.50`, `1e2`, `1E2`, `1e+2`, `100e-2`,
	`0.1e1`, `1e21`, `1e-6`, `1e-7`, `0.000001`, `0.0000001`, `1e400`, `-1e400`, `1.7976931348623157e308`, `1.7976931348623159e308`, `5e-324`, `2.4e-324`, `2.5e-324`,
	`4.35`, `0.1`, `3.14159`, `1e23`, `9.999999999999997e22`, `333333333.33333329`, `1E30`, `4.50`, `2e-3`, `0.000000000000000000000000001`,
}

func genString(r *rand.Rand, invalidOK bool) string {
	for {
		var s string
		if r.IntN(2) == 0 {
			s = extraStrings[r.IntN(len(extraStrings))]
		} else {
			s = gen.Strings[r.IntN(len(gen.Strings))]
		}
		if invalidOK || ref.Parse([]byte(s), ref.Opts{AllowInvalidUTF8: true, AllowDup: true}) != nil {
			return s
		}
	}
}

func genNumber(r *rand.Rand, invalidOK bool) string {
	switch r.IntN(6) {
	case 0:
		// integers of 14..18 characters (the verbatim shortcut is decided on the length)
		n := 14 + r.IntN(5)
		b := make([]byte, n)
		for i := range b {
			b[i] = byte('0' + r.IntN(10))
		}
		b[0] = byte('1' + r.IntN(9))
		if r.IntN(3) == 0 {
			b[0] = '-'
			b[1] = byte('1' + r.IntN(9))
		}
		return string(b)
	case 1, 2:
		return extraNumbers[r.IntN(len(extraNumbers))]
	}
	return gen.Number(r, &gen.TextCfg{Invalid: invalidOK})
}

type tcfg struct {
	depth, width int
	invalid      bool
	ws           bool
	dup          int
}

func wsp(r *rand.Rand, c *tcfg) string {
	if !c.ws {
		return ""
	}
	return [...]string{"", "", "", " ", "\n", "\t ", "\r\n", "  ", "\n\t\t"}[r.IntN(9)]
}

func genValue(r *rand.Rand, c *tcfg, sb *strings.Builder, depth int) {
	k := r.IntN(10)
	if depth == 0 && r.IntN(3) > 0 {
		k = 6 + r.IntN(4)
	}
	if depth >= c.depth && k >= 6 {
		k = r.IntN(6)
	}
	switch {
	case k < 1:
		sb.WriteString([...]string{"null", "true", "false"}[r.IntN(3)])
	case k < 3:
		sb.WriteString(genString(r, c.invalid && r.IntN(8) == 0))
	case k < 6:
		sb.WriteString(genNumber(r, c.invalid && r.IntN(8) == 0))
	case k < 8:
		n := r.IntN(c.width + 1)
		sb.WriteString("[" + wsp(r, c))
		for i := 0; i < n; i++ {
			if i > 0 {
				sb.WriteString(wsp(r, c) + "," + wsp(r, c))
			}
			genValue(r, c, sb, depth+1)
		}
		sb.WriteString(wsp(r, c) + "]")
	case depth <= 1 && r.IntN(12) == 0:
		genWideObject(r, c, sb, depth)
	default:
		n := r.IntN(c.width + 1)
		sb.WriteString("{" + wsp(r, c))
		var names []string
		for i := 0; i < n; i++ {
			if i > 0 {
				sb.WriteString(wsp(r, c) + "," + wsp(r, c))
			}
			var name string
			if len(names) > 0 && r.IntN(100) < c.dup {
				name = names[r.IntN(len(names))]
			} else {
				name = genString(r, c.invalid && r.IntN(8) == 0)
			}
			names = append(names, name)
			sb.WriteString(name + wsp(r, c) + ":" + wsp(r, c))
			genValue(r, c, sb, depth+1)
		}
		sb.WriteString(wsp(r, c) + "}")
	}
}

// genWideObject writes an object with 7..80 distinct names (crossing the 64-name namespace
// switch) that share prefixes from every UTF-16 class; the order is sorted, sorted with an
// unsorted tail, or random.
func genWideObject(r *rand.Rand, c *tcfg, sb *strings.Builder, depth int) {
	n := 7 + r.IntN(10)
	if r.IntN(4) == 0 {
		n = 50 + r.IntN(31)
	}
	prefixes := []string{"a", `\u0061`, "é", "\ue000", "\U0001F600", `\ud83d\ude00`, "", "k_", "\uffff"}
	type mem struct{ lit, meaning string }
	ms := make([]mem, n)
	for i := range ms {
		lit := `"` + prefixes[r.IntN(len(prefixes))] + strconv.Itoa(i) + `"`
		m, _ := ref.Unquote([]byte(lit), true)
		ms[i] = mem{lit, m}
	}
	if c.invalid && c.dup > 0 && r.IntN(3) == 0 {
		// names that differ only in ill-formed bytes versus a literal U+FFFD: equal or nearly equal under every
		// reading, repeated many times with different values - whatever order a sort leaves them in must be stable
		tied := []string{"\xff", "\xfe", "\ufffd", "\xc3", "a\xff", "a\xfe", "a\ufffd", "a\xffb", "a\ufffdb"}
		for i := range ms {
			lit := `"` + tied[r.IntN(len(tied))] + `"`
			m, _ := ref.Unquote([]byte(lit), true)
			ms[i] = mem{lit, m}
		}
	}
	sort.SliceStable(ms, func(i, j int) bool { return ref.U16Less(ms[i].meaning, ms[j].meaning) })
	switch r.IntN(4) {
	case 0: // sorted
	case 1: // sorted head, unsorted tail
		k := 1 + r.IntN(n-1)
		r.Shuffle(n-k, func(a, b int) { ms[k+a], ms[k+b] = ms[k+b], ms[k+a] })
	default:
		r.Shuffle(n, func(a, b int) { ms[a], ms[b] = ms[b], ms[a] })
	}
	if c.dup > 0 && r.IntN(3) == 0 {
		ms = append(ms, ms[r.IntN(len(ms))])
	}
	sb.WriteString("{" + wsp(r, c))
	for i, m := range ms {
		if i > 0 {
			sb.WriteString(wsp(r, c) + "," + wsp(r, c))
		}
		sb.WriteString(m.lit + wsp(r, c) + ":" + wsp(r, c))
		genValue(r, c, sb, c.depth) // scalars only
	}
	sb.WriteString(wsp(r, c) + "}")
}

func genText(r *rand.Rand) []byte {
	c := &tcfg{depth: 1 + r.IntN(4), width: 1 + r.IntN(6), invalid: r.IntN(4) == 0, ws: r.IntN(3) > 0, dup: [...]int{0, 0, 15, 40}[r.IntN(4)]}
	var sb strings.Builder
	sb.WriteString(wsp(r, c))
	genValue(r, c, &sb, 0)
	sb.WriteString(wsp(r, c))
	b := []byte(sb.String())
	if r.IntN(5) == 0 {
		for m := 1 + r.IntN(2); m > 0; m-- {
			b = gen.Mutate(r, b)
		}
	}
	return b
}

var indents = []string{"", " ", "  ", "\t", "    ", " \t", "\t\t ", "   "}

// genOpts builds an option list whose set of options that end up *true* is mask (bit i =
// boolNames[i]): options that are to be false are absent or explicitly false (explicit when
// the route presets them), the order is random, some options occur twice with the first
// occurrence overridden, indentation strings are added.  The exec recomputes the effective
// configuration from the list itself, so this only steers coverage.
func genOpts(r *rand.Rand, route string, mask int) []optSpec {
	type entry struct {
		o   optSpec
		key float64
	}
	var es []entry
	presetTrue := map[string][]int{"compact": {oDup, oInv, oPreserve}, "indent": {oDup, oInv, oPreserve, oMulti}, "canonicalize": {oCint, oCfloat, oReorder}}[route]
	isPreset := func(i int) bool {
		for _, p := range presetTrue {
			if p == i {
				return true
			}
		}
		return false
	}
	multiKey := -1.0
	for i := 0; i < 11; i++ {
		want := mask&(1<<i) != 0
		explicit := want != isPreset(i) || r.IntN(3) == 0
		if i == oColon && !want && mask&(1<<oMulti) != 0 {
			explicit = true // Multiline would default it to true
		}
		overridden := r.IntN(16) == 0
		k1, k2 := r.Float64(), r.Float64()
		if k1 > k2 {
			k1, k2 = k2, k1
		}
		if overridden {
			es = append(es, entry{optSpec{K: boolNames[i], B: !want}, k1})
			explicit = true
		}
		if explicit {
			es = append(es, entry{optSpec{K: boolNames[i], B: want}, k2})
			if i == oMulti {
				multiKey = k2
			}
		}
	}
	if mask&(1<<oMulti) != 0 {
		if r.IntN(2) == 0 {
			es = append(es, entry{optSpec{K: "indent", S: indents[r.IntN(len(indents))]}, r.Float64()})
		}
		if r.IntN(3) == 0 {
			es = append(es, entry{optSpec{K: "prefix", S: indents[r.IntN(len(indents))]}, r.Float64()})
		}
	} else if multiKey >= 0 && r.IntN(4) == 0 {
		// an indent that a later explicit Multiline(false) switches off again
		es = append(es, entry{optSpec{K: "indent", S: indents[r.IntN(len(indents))]}, multiKey * r.Float64()})
	}
	sort.SliceStable(es, func(a, b int) bool { return es[a].key < es[b].key })
	opts := make([]optSpec, len(es))
	for i, e := range es {
		opts[i] = e.o
	}
	return opts
}

var routes = []string{"format", "format", "format", "compact", "indent", "canonicalize", "append", "append-string", "append-overlap"}

var M = &run.Monitor{
	ID:    "C12",
	Level: "exploration",
	Rule: "texts: grammar-generated JSON (depth <= 4, duplicate names, ill-formed UTF-8, every escape spelling, boundary numbers incl. 14-18 digit integers, -0 forms, " +
		"overflow) with 0-2 byte mutations in 1/5 of the cases, plus depth towers 9999-10001; each text is reformatted through one of Format / Compact / Indent / Canonicalize / " +
		"AppendFormat([]byte, string, dst overlapping src in 4 layouts) under an option list (random order, absent/explicit false, overridden repeats, indent/prefix strings) " +
		"whose set of true options walks through all 2^11 subsets in every worker; the outcome is judged against the reference parser (validity, permitted-difference " +
		"relation incl. multiset comparison under ReorderRawObjects, documented whitespace layout, fixed point) and the second application runs on read-only memory. " +
		"distinct = (kind skeleton of the input, effective option bits, route)",
	Assumptions: []string{
		"reference parser/number semantics of /verif/ref; ES6 layout per ECMA-262 with strconv shortest digits",
		"whitespace layout is demanded only for Format/AppendFormat and for the preset methods without caller whitespace options (elsewhere documentation and implementation legitimately differ in whitespace only)",
		"under ReorderRawObjects members with equal names may come in any order; UTF-16 name order is demanded only for objects whose names are well-formed UTF-8",
		"a store into an already formatted value is detected as a memory fault on a read-only mapping (runtime/debug.SetPanicOnFault)",
	},
	Floors: func(c map[string]int64, tier string) []string {
		var u []string
		need := func(k string, n int64) {
			if c[k] < n {
				u = append(u, fmt.Sprintf("%s=%d < %d", k, c[k], n))
			}
		}
		need("option_subsets_seen_by_shard0", 2048)
		need("option_subsets_with_success_by_shard0", 2048)
		need("inputs_valid", 20000)
		need("inputs_invalid", 5000)
		need("numbers_respelled_expected", 2000)
		need("objects_reordered", 2000)
		need("objects_ge8_members", 2000)
		need("objects_ge65_members", 100)
		need("objects_with_duplicate_names_reordered", 200)
		need("strings_raw_spelling_pinned", 2000)
		need("layout_checked", 20000)
		need("readonly_second_application", 10000)
		need("inputs_already_formatted", 500)
		need("overlap_checked", 2000)
		need("towers", 6)
		for _, n := range boolNames {
			need("ok_with_"+n, 3000)
			need("err_with_"+n, 500)
		}
		return u
	},
	SelfTest: selfTest,
}

func selfTest() error {
	// the layout writer against the toolchain's encoding/json Indent/Compact, the number
	// oracle against strconv
	r := run.SelfRand(12)
	for i := 0; i < 20000; i++ {
		c := &tcfg{depth: 1 + r.IntN(4), width: 1 + r.IntN(5), ws: true, dup: 10}
		var sb strings.Builder
		genValue(r, c, &sb, 0)
		text := []byte(sb.String())
		t := ref.Parse(text, ref.Opts{AllowInvalidUTF8: true, AllowDup: true})
		if t == nil {
			return fmt.Errorf("generator (invalid=false) produced invalid text %q", text)
		}
		prefix, indent := indents[r.IntN(len(indents))], indents[r.IntN(len(indents))]
		var want bytes.Buffer
		if err := stdjson.Indent(&want, text, prefix, indent); err != nil {
			return fmt.Errorf("encoding/json.Indent(%q): %v", text, err)
		}
		e := eff{indent: indent, prefix: prefix}
		e.b[oMulti], e.b[oColon] = true, true
		var got strings.Builder
		layout(t, &e, &got, 0)
		if got.String() != want.String() {
			return fmt.Errorf("layout writer disagrees with encoding/json.Indent on %q:\n %q\n %q", text, got.String(), want.String())
		}
		want.Reset()
		stdjson.Compact(&want, text)
		got.Reset()
		layout(t, &eff{}, &got, 0)
		if got.String() != want.String() {
			return fmt.Errorf("layout writer disagrees with encoding/json.Compact on %q", text)
		}
		lit := genNumber(r, false)
		f, over := ref.Float(lit, 64)
		sf, serr := strconv.ParseFloat(lit, 64)
		if over != (serr != nil) || (!over && f != sf) {
			return fmt.Errorf("ref.Float(%s) = %v,%v; strconv: %v,%v", lit, f, over, sf, serr)
		}
		if !over && f != 0 {
			back, _ := strconv.ParseFloat(canonNumber(lit), 64)
			if back != f {
				return fmt.Errorf("canonNumber(%s) = %s does not round-trip", lit, canonNumber(lit))
			}
		}
	}
	for lit, want := range map[string]string{"1e21": "1e+21", "100000000000000000000": "100000000000000000000", "1e-7": "1e-7", "0.000001": "0.000001",
		"1e400": "1.7976931348623157e+308", "-1e400": "-1.7976931348623157e+308", "-0.0": "0", "9007199254740993": "9007199254740992", "123456789012345678": "123456789012345680",
		"4.50": "4.5", "1E30": "1e+30", "333333333.33333329": "333333333.3333333"} {
		if got := canonNumber(lit); got != want {
			return fmt.Errorf("canonNumber(%s) = %s, want %s", lit, got, want)
		}
	}
	// effective(): Multiline defaults
	e := effective("format", []optSpec{{K: "multi", B: true}})
	if !e.b[oColon] || e.b[oComma] || e.indent != "\t" {
		return fmt.Errorf("options model: Multiline defaults wrong: %+v", e)
	}
	return nil
}

type towerArgs struct {
	Depth int    `json:"depth"`
	Obj   bool   `json:"obj"`
	Route string `json:"route"`
}

func main() {
	run.Def(M, "format", checkFormat)
	run.Def(M, "tower", func(w *run.W, a *towerArgs) {
		var sb strings.Builder
		for i := 0; i < a.Depth; i++ {
			if a.Obj && i%2 == 1 {
				sb.WriteString(`{"a":`)
			} else {
				sb.WriteByte('[')
			}
		}
		sb.WriteString("0")
		for i := a.Depth - 1; i >= 0; i-- {
			if a.Obj && i%2 == 1 {
				sb.WriteByte('}')
			} else {
				sb.WriteByte(']')
			}
		}
		w.Count("towers", 1)
		checkFormat(w, &fmtArgs{Text: []byte(sb.String()), Route: a.Route, Opts: []optSpec{{K: "reorder", B: true}, {K: "cint", B: true}}, Family: "tower"})
	})
	M.Gen = generate
	run.Main(M)
}

func generate(w *run.W) {
	per := w.Pick(14, 110) // rounds over all 2048 subsets per worker
	r := w.Rand("c12", w.Shard)
	j := 0
	for round := 0; round < per; round++ {
		for k := 0; k < 2048; k++ {
			j++
			mask := (k*1237 + round*389 + w.Shard*131) & 2047
			route := routes[r.IntN(len(routes))]
			opts := genOpts(r, route, mask)
			e := effective(route, opts)
			if e.mask() != mask {
				w.Broken("option generator: wanted subset %011b, the list %+v yields %011b", mask, opts, e.mask())
			}
			var text []byte
			for try := 0; ; try++ {
				text = genText(r)
				// the first rounds guarantee a success for every subset
				if round >= 2 || try > 40 {
					break
				}
				if ref.Parse(text, ref.Opts{AllowInvalidUTF8: e.b[oInv], AllowDup: e.b[oDup]}) != nil {
					break
				}
			}
			if e.b[oReorder] && e.b[oDup] && e.b[oInv] && k%3 == 0 {
				// member order under ReorderRawObjects with names that tie: a top-level wide object from the tied pool
				c := &tcfg{depth: 1, width: 1, invalid: true, ws: r.IntN(2) == 0, dup: 40}
				var sb strings.Builder
				for tries := 0; tries < 8 && !strings.Contains(sb.String(), "\xff"); tries++ {
					sb.Reset()
					genWideObject(r, c, &sb, 0)
				}
				text = []byte(sb.String())
				w.Count("tied_wide_objects_under_reorder", 1)
			}
			a := &fmtArgs{Text: text, Route: route, Opts: opts}
			if route == "append-overlap" {
				a.Pre, a.Overl, a.Cut, a.Spare = r.IntN(8), r.IntN(4), r.IntN(len(text)+1), r.IntN(64)
			}
			w.Do("format", a)
		}
	}
	// depth towers
	ti := 0
	for _, d := range []int{9999, 10000, 10001} {
		for _, obj := range []bool{false, true} {
			for _, route := range []string{"format", "canonicalize", "append"} {
				ti++
				if w.Mine(ti) {
					w.Do("tower", &towerArgs{Depth: d, Obj: obj, Route: route})
				}
			}
		}
	}
	if w.Shard == 0 {
		seen, succ := 0, 0
		for i := range masksSeen {
			if masksSeen[i] {
				seen++
			}
			if masksSuccess[i] {
				succ++
			}
		}
		w.Count("option_subsets_seen_by_shard0", int64(seen))
		w.Count("option_subsets_with_success_by_shard0", int64(succ))
	}
}

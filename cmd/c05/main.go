// C05 — decoding is independent of how the input arrives (reader chunking, empty reads,
// data+EOF, bytes.Buffer), of how ReadToken/ReadValue/SkipValue/PeekKind are interleaved,
// and of transient read errors; conservation of input bytes.
package main

import (
	"bytes"
	"errors"
	"fmt"
	jsonv1 "github.com/go-json-experiment/json/v1"
	"io"
	"math/rand/v2"
	"reflect"
	"strings"

	json "github.com/go-json-experiment/json"
	"github.com/go-json-experiment/json/jsontext"

	"verif/gen"
	"verif/hooks"
	"verif/ref"
	"verif/run"
)

var errTransient = errors.New("verif: transient read fault")

// sched is a reader with a fully explicit, replayable schedule.
type sched struct {
	data   []byte
	pos    int
	cuts   []int // ascending absolute positions at which a Read call stops
	rng    *rand.Rand
	maxN   int          // random chunking when cuts == nil: 1..maxN bytes per read
	zeroP  int          // percent of (0, nil) reads
	eofTog bool         // deliver the last bytes together with io.EOF
	faultP int          // percent of transient faults (random mode)
	faults map[int]bool // explicit: the k-th Read call fails transiently
	calls  int
	handed int
	nfault int
}

func (r *sched) Read(p []byte) (int, error) {
	k := r.calls
	r.calls++
	if r.faults[k] || (r.rng != nil && r.faultP > 0 && r.rng.IntN(100) < r.faultP && r.nfault < 200) {
		r.nfault++
		return 0, errTransient
	}
	if r.pos >= len(r.data) {
		return 0, io.EOF
	}
	if r.rng != nil && r.zeroP > 0 && r.rng.IntN(100) < r.zeroP {
		return 0, nil
	}
	n := len(r.data) - r.pos
	if r.cuts != nil {
		for _, c := range r.cuts {
			if c > r.pos {
				n = min(n, c-r.pos)
				break
			}
		}
	} else if r.rng != nil && r.maxN > 0 {
		n = min(n, 1+r.rng.IntN(r.maxN))
	}
	n = min(n, len(p))
	copy(p, r.data[r.pos:r.pos+n])
	r.pos += n
	r.handed += n
	if r.pos >= len(r.data) && r.eofTog {
		return n, io.EOF
	}
	return n, nil
}

type ev struct {
	Op    byte
	Kind  string
	S     string
	Off   int64
	Depth int
	Ptr   string
	Idx   string
	Err   string
}

func (e ev) String() string {
	return fmt.Sprintf("{%c %s %q off=%d d=%d ptr=%q idx=%s err=%s}", e.Op, e.Kind, run.Trunc(e.S, 40), e.Off, e.Depth, e.Ptr, e.Idx, e.Err)
}

// errClass reduces an error to what the property lets us compare: class, offset, pointer.
func errClass(err error) string {
	if err == nil {
		return ""
	}
	if err == io.EOF {
		return "EOF"
	}
	var se *jsontext.SyntacticError
	if errors.As(err, &se) {
		cls := "syntactic"
		if errors.Is(err, io.ErrUnexpectedEOF) {
			cls = "syntactic-unexpected-eof"
		} else if errors.Is(err, jsontext.ErrDuplicateName) {
			cls = "syntactic-duplicate-name"
		} else if errors.Is(err, jsontext.ErrNonStringName) {
			cls = "syntactic-non-string-name"
		}
		return fmt.Sprintf("%s@%d%q", cls, se.ByteOffset, se.JSONPointer)
	}
	var sem *json.SemanticError
	if errors.As(err, &sem) {
		// "the same final error": a conversion error carries the position of the value it is about
		return fmt.Sprintf("semantic@%d%q:%v", sem.ByteOffset, sem.JSONPointer, sem.GoType)
	}
	if errors.Is(err, errTransient) {
		return "transient"
	}
	if errors.Is(err, io.ErrUnexpectedEOF) {
		return "unexpected-eof"
	}
	return "other:" + fmt.Sprintf("%T", err)
}

type state struct {
	off   int64
	depth int
	ptr   string
	idx   string
}

// snap observes the decoder. StackPointer is not a pure observer inside the library (it copies
// pending member names out of the buffer), so calling it after every call can mask a missing
// copy elsewhere: scripts run both with dense and with sparse pointer observation.
func snap(d *jsontext.Decoder) state { return snapPtr(d, true) }

func snapPtr(d *jsontext.Decoder, withPtr bool) state {
	s := state{off: d.InputOffset(), depth: d.StackDepth()}
	if withPtr {
		s.ptr = string(d.StackPointer())
	} else {
		s.ptr = "-"
	}
	var sb strings.Builder
	for i := 0; i <= s.depth; i++ {
		k, n := d.StackIndex(i)
		fmt.Fprintf(&sb, "%c%d,", max(byte(k), '.'), n)
	}
	s.idx = sb.String()
	return s
}

type runResult struct {
	evs  []ev
	bad  string // harness-detected violation inside the run (conservation, span, state change)
	sub  string
	retr int
}

// drive executes the call script against a decoder; fr is nil for the reference run.
func drive(data []byte, d *jsontext.Decoder, fr *sched, script string, limit int, ptrEvery int) (res runResult) {
	dense := ptrEvery <= 0
	snapL := func() state { return snapPtr(d, dense) }
	fail := func(sub, f string, a ...any) runResult {
		res.sub, res.bad = sub, fmt.Sprintf(f, a...)
		return res
	}
	conserve := func() string {
		if fr == nil {
			return ""
		}
		off := d.InputOffset()
		if off < 0 || off > int64(len(data)) {
			return fmt.Sprintf("InputOffset %d outside input of %d bytes", off, len(data))
		}
		got := string(data[:off]) + string(d.UnreadBuffer())
		if got != string(data[:fr.handed]) {
			return fmt.Sprintf("input[:InputOffset=%d] ++ UnreadBuffer = %q but the reader handed out %q", off, run.Trunc(got, 200), run.Trunc(string(data[:fr.handed]), 200))
		}
		return ""
	}
	const maxRetry = 500
	for step := 0; step < limit; step++ {
		op := script[step%len(script)]
		e := ev{Op: op}
		var err error
		switch op {
		case 'T', 'V':
			for try := 0; ; try++ {
				before := snapL()
				var t jsontext.Token
				var v jsontext.Value
				if op == 'T' {
					t, err = d.ReadToken()
				} else {
					v, err = d.ReadValue()
				}
				if err != nil && errors.Is(err, errTransient) {
					res.retr++
					if after := snapL(); after != before {
						return fail("state-changed-on-transient", "%c: state %+v -> %+v after a transient read error", op, before, after)
					}
					if s := conserve(); s != "" {
						return fail("conservation", "after transient fault: %s", s)
					}
					if try > maxRetry {
						return fail("retry-does-not-progress", "%c still fails after %d retries although the reader stopped failing", op, try)
					}
					continue
				}
				if err == nil {
					if op == 'T' {
						e.Kind = t.Kind().String()
						switch t.Kind() {
						case '"':
							e.S = t.String()
						case '0':
							e.S = t.String()
						}
					} else {
						e.Kind = v.Kind().String()
						e.S = string(v)
						off := d.InputOffset()
						if off < int64(len(v)) || off > int64(len(data)) || string(data[off-int64(len(v)):off]) != string(v) {
							return fail("value-span", "ReadValue returned %q which is not the input span ending at InputOffset %d", run.Trunc(string(v), 200), off)
						}
					}
				}
				break
			}
		case 'S':
			start := d.StackDepth()
			for try := 0; ; try++ {
				err = d.SkipValue()
				if err != nil && errors.Is(err, errTransient) {
					res.retr++
					if try > maxRetry {
						return fail("retry-does-not-progress", "SkipValue still fails after %d retries", try)
					}
					// SkipValue is not promised to be retry-atomic: complete an interrupted
					// skip with ReadToken retries back to the entry depth
					if d.StackDepth() > start {
						for d.StackDepth() > start {
							_, err = d.ReadToken()
							if err != nil && errors.Is(err, errTransient) {
								res.retr++
								if res.retr > 100*maxRetry {
									return fail("retry-does-not-progress", "completing an interrupted skip does not progress")
								}
								continue
							}
							if err != nil {
								break
							}
						}
						break
					}
					continue
				}
				break
			}
			e.Kind = "skip"
		case 'P', 'Q', 'R':
			// P: PeekKind only.  Q: PeekKind then ReadToken.  R: PeekKind then ReadValue.
		peekLoop:
			for try := 0; ; try++ {
				if try > maxRetry {
					return fail("retry-does-not-progress", "PeekKind still fails after %d retries", try)
				}
				before := snapL()
				k := d.PeekKind()
				e.Kind = k.String()
				if after := snapL(); after != before {
					return fail("peek-changed-state", "PeekKind changed state %+v -> %+v", before, after)
				}
				err = nil
				if k != 0 && op == 'P' {
					break
				}
				// k == 0: the pending error is observed through the next read call.
				for try2 := 0; ; try2++ {
					b2 := snapL()
					var rk jsontext.Kind
					if op == 'R' {
						var v jsontext.Value
						v, err = d.ReadValue()
						if err == nil {
							rk = v.Kind()
							e.S = string(v)
						}
					} else {
						var t jsontext.Token
						t, err = d.ReadToken()
						if err == nil {
							rk = t.Kind()
							e.S = "tok"
						}
					}
					if err != nil && errors.Is(err, errTransient) {
						res.retr++
						if after := snapL(); after != b2 {
							return fail("state-changed-on-transient", "read after PeekKind: state %+v -> %+v", b2, after)
						}
						if s := conserve(); s != "" {
							return fail("conservation", "after transient fault: %s", s)
						}
						if k == 0 && op == 'P' {
							continue peekLoop // the fault was reported for the peek: retry the peek
						}
						if try2 > maxRetry {
							return fail("retry-does-not-progress", "the read call after PeekKind still fails after %d retries although the reader stopped failing", try2)
						}
						continue // retry the identical read call
					}
					if err == nil {
						if op == 'P' {
							return fail("read-ok-after-failed-peek", "PeekKind returned 0 but the following ReadToken succeeded with %v", rk)
						}
						if k != 0 && rk != k {
							return fail("peek-disagrees-with-read", "PeekKind said %v but the read call returned %v", k, rk)
						}
						e.Kind = rk.String() // what a fault-free peek announces
					} else if op != 'P' {
						// the read failed for good: whether the preceding peek could still announce a
						// kind depends on whether a transient fault hit the peek; compare the error only
						e.Kind = ""
					}
					break
				}
				break
			}
		}
		st := snapPtr(d, dense || step%ptrEvery == ptrEvery-1)
		e.Off, e.Depth, e.Ptr, e.Idx = st.off, st.depth, st.ptr, st.idx
		if s := conserve(); s != "" {
			return fail("conservation", "after %c: %s", op, s)
		}
		if err != nil {
			e.Err = errClass(err)
			res.evs = append(res.evs, e)
			return res
		}
		res.evs = append(res.evs, e)
	}
	return res
}

type scriptArgs struct {
	Input    []byte `json:"input"`
	Inv      bool   `json:"inv"`
	Dup      bool   `json:"dup"`
	Script   string `json:"script"`
	Reader   string `json:"reader"` // "cuts" | "random" | "buffer"
	Cuts     []int  `json:"cuts,omitempty"`
	Faults   []int  `json:"faults,omitempty"` // indexes of Read calls that fail transiently
	Seed     uint64 `json:"seed,omitempty"`
	MaxN     int    `json:"max_n,omitempty"`
	ZeroP    int    `json:"zero_p,omitempty"`
	FaultP   int    `json:"fault_p,omitempty"`
	EOFTog   bool   `json:"eof_together,omitempty"`
	PtrEvery int    `json:"ptr_every,omitempty"` // 0: StackPointer after every call; n: only after every n-th call
}

func (a *scriptArgs) opts() []jsontext.Options {
	return []jsontext.Options{jsontext.AllowInvalidUTF8(a.Inv), jsontext.AllowDuplicateNames(a.Dup)}
}

func (a *scriptArgs) reader() *sched {
	s := &sched{data: a.Input, cuts: a.Cuts, maxN: a.MaxN, zeroP: a.ZeroP, faultP: a.FaultP, eofTog: a.EOFTog}
	if a.Reader == "cuts" && s.cuts == nil {
		s.cuts = []int{}
	}
	if a.Reader == "random" {
		s.rng = rand.New(rand.NewPCG(a.Seed, 77))
	}
	if len(a.Faults) > 0 {
		s.faults = map[int]bool{}
		for _, f := range a.Faults {
			s.faults[f] = true
		}
	}
	return s
}

func runScript(w *run.W, a *scriptArgs) {
	w.Eval(1)
	limit := 4*len(a.Input) + 16
	// reference: the whole input available at once (bytes.Buffer is parsed in place)
	refD := jsontext.NewDecoder(bytes.NewBuffer(append([]byte(nil), a.Input...)), a.opts()...)
	want := drive(a.Input, refD, nil, a.Script, limit, a.PtrEvery)
	if want.bad != "" {
		w.Violate(want.sub, map[string]string{"run": "reference", "reader": "bytes.Buffer"}, "reference run over bytes.Buffer: %s\ninput=%q script=%s", want.bad, a.Input, a.Script)
		return
	}
	var d *jsontext.Decoder
	var fr *sched
	if a.Reader == "buffer" {
		// a second bytes.Buffer run must be identical too (pool/alias path)
		d = jsontext.NewDecoder(bytes.NewBuffer(append([]byte(nil), a.Input...)), a.opts()...)
	} else {
		fr = a.reader()
		d = jsontext.NewDecoder(fr, a.opts()...)
	}
	if hooks.Available && fr != nil {
		hooks.SetOnFetch(func(rd io.Reader, base int64, buf []byte, ps, pe int) {
			if rd != io.Reader(fr) {
				return
			}
			w.Count("shadow_checks", 1)
			if base < 0 || base+int64(len(buf)) > int64(len(fr.data)) {
				w.Violate("hook-shadow-range", nil, "decoder buffer claims stream range [%d,%d) beyond %d bytes handed out", base, base+int64(len(buf)), fr.handed)
				return
			}
			g := fr.data[base : base+int64(len(buf))]
			for i := range buf {
				if buf[i] != g[i] && !(i < pe && buf[i] == '#') {
					w.Violate("hook-shadow-content", nil, "decoder buffer differs from the stream at absolute offset %d (buffer %q, stream %q) input=%q", base+int64(i), run.Trunc(string(buf), 100), run.Trunc(string(g), 100), a.Input)
					return
				}
			}
		})
		defer hooks.SetOnFetch(nil)
	}
	got := drive(a.Input, d, fr, a.Script, limit, a.PtrEvery)
	if got.bad != "" {
		w.Violate(got.sub, map[string]string{"reader": a.Reader}, "%s\ninput=%q script=%s args=%+v", got.bad, a.Input, a.Script, *a)
		return
	}
	if fr != nil {
		w.Count("reads", int64(fr.calls))
		w.Count("transient_faults_injected", int64(fr.nfault))
		w.Count("retries", int64(got.retr))
	}
	if !reflect.DeepEqual(want.evs, got.evs) {
		i := 0
		for i < len(want.evs) && i < len(got.evs) && want.evs[i] == got.evs[i] {
			i++
		}
		var we, ge string
		if i < len(want.evs) {
			we = want.evs[i].String()
		}
		if i < len(got.evs) {
			ge = got.evs[i].String()
		}
		w.Violate("event-sequence-differs", map[string]string{"reader": a.Reader, "faults": fmt.Sprint(fr != nil && fr.nfault > 0)},
			"event %d differs: whole-input run %s, %s reader run %s\ninput=%q script=%s cuts=%v faults=%v", i, we, a.Reader, ge, a.Input, a.Script, a.Cuts, a.Faults)
		return
	}
	w.Count("events_compared", int64(len(got.evs)))
	if len(got.evs) > 0 && got.evs[len(got.evs)-1].Err != "" && got.evs[len(got.evs)-1].Err != "EOF" {
		w.Count("runs_ending_in_error", 1)
	} else {
		w.Count("runs_ending_clean", 1)
	}
	w.Shape(fmt.Sprintf("%x|%s|%s|%d|%d", hashBytes(a.Input), a.Script, a.Reader, len(a.Cuts), len(a.Faults)))
}

func hashBytes(b []byte) uint64 {
	var h uint64 = 1469598103934665603
	for _, c := range b {
		h = (h ^ uint64(c)) * 1099511628211
	}
	return h
}

// ---- UnmarshalRead == Unmarshal; UnmarshalDecode over a stream == Unmarshal of each value

type umArgs struct {
	Input  []byte `json:"input"`
	Target string `json:"target"` // "any" | "map" | "struct" | "slice"
	Seed   uint64 `json:"seed"`
	MaxN   int    `json:"max_n"`
	ZeroP  int    `json:"zero_p"`
	EOFTog bool   `json:"eof_together"`
	Buffer bool   `json:"buffer"`
	// Opts: "" | "legacy-errors" (ReportErrorsWithLegacySemantics: the value is validated as a whole before
	// anything is stored) | "v1" (DefaultOptionsV1) - the same options go to every route
	Opts string `json:"opts,omitempty"`
}

func (a *umArgs) opts() []json.Options {
	switch a.Opts {
	case "legacy-errors":
		return []json.Options{jsonv1.ReportErrorsWithLegacySemantics(true)}
	case "v1":
		return []json.Options{jsonv1.DefaultOptionsV1()}
	}
	return nil
}

type tStruct struct {
	A int            `json:"a"`
	B string         `json:"b"`
	C []any          `json:"c"`
	D map[string]any `json:"d"`
	E *tStruct       `json:"e"`
	X jsontext.Value `json:",embed"`
}

// tStruct2 keeps unknown members in a map fallback (tStruct keeps them as raw text).
type tStruct2 struct {
	A    int            `json:"a"`
	Name string         `json:"name"`
	Rest map[string]any `json:",embed"`
}

// tStruct3 has fields that are refused before their value is read (unsupported kinds) and fields whose
// values are refused after reading (kind mismatches): the position in the error must not depend on chunking.
type tStruct3 struct {
	A    chan int       `json:"a"`
	Name func()         `json:"name"`
	B    int            `json:"b"`
	C    []bool         `json:"c"`
	D    map[string]int `json:"d"`
	Rest map[string]int `json:",embed"`
}

func newTarget(kind string) any {
	switch kind {
	case "struct3":
		return new(tStruct3)
	case "ints":
		return new([]int8)
	case "struct2":
		return new(tStruct2)
	case "structs":
		return new([]tStruct)
	case "map":
		return new(map[string]any)
	case "struct":
		return new(tStruct)
	case "slice":
		return new([]any)
	}
	return new(any)
}

func runUnmarshal(w *run.W, a *umArgs) {
	w.Eval(1)
	// (1) UnmarshalRead(r) == Unmarshal(all)
	want := newTarget(a.Target)
	werr := json.Unmarshal(a.Input, want, a.opts()...)
	got := newTarget(a.Target)
	var rd io.Reader
	if a.Buffer {
		rd = bytes.NewBuffer(append([]byte(nil), a.Input...))
	} else {
		rd = &sched{data: a.Input, rng: rand.New(rand.NewPCG(a.Seed, 5)), maxN: a.MaxN, zeroP: a.ZeroP, eofTog: a.EOFTog}
	}
	gerr := json.UnmarshalRead(rd, got, a.opts()...)
	if errClass(werr) != errClass(gerr) || !reflect.DeepEqual(want, got) {
		w.Violate("unmarshalread-differs", map[string]string{"target": a.Target, "buffer": fmt.Sprint(a.Buffer)},
			"Unmarshal: %v %s / UnmarshalRead: %v %s\ninput=%q", dump(want), errClass(werr), dump(got), errClass(gerr), a.Input)
		return
	}
	w.Count("unmarshalread_compared", 1)

	// (2) UnmarshalDecode over the stream == Unmarshal of each value in turn
	toks, errOff, _ := ref.Tokenize(a.Input, ref.Opts{})
	_ = errOff
	var spans [][2]int
	for _, t := range toks {
		if t.Depth == 0 && t.ValueStart >= 0 {
			spans = append(spans, [2]int{t.ValueStart, t.End})
		}
	}
	if a.Buffer {
		rd = bytes.NewBuffer(append([]byte(nil), a.Input...))
	} else {
		rd = &sched{data: a.Input, rng: rand.New(rand.NewPCG(a.Seed, 6)), maxN: a.MaxN, zeroP: a.ZeroP, eofTog: a.EOFTog}
	}
	dec := jsontext.NewDecoder(rd)
	for i, sp := range spans {
		want := newTarget(a.Target)
		werr := json.Unmarshal(a.Input[sp[0]:sp[1]], want, a.opts()...)
		got := newTarget(a.Target)
		gerr := json.UnmarshalDecode(dec, got, a.opts()...)
		// offsets in errors are relative to the value for Unmarshal and to the stream for
		// UnmarshalDecode: compare error classes without positions here (C16 checks positions)
		if (werr == nil) != (gerr == nil) || (werr == nil && !reflect.DeepEqual(want, got)) {
			w.Violate("unmarshaldecode-differs", map[string]string{"target": a.Target},
				"value %d %q: Unmarshal: %v %v / UnmarshalDecode: %v %v\ninput=%q", i, a.Input[sp[0]:sp[1]], dump(want), werr, dump(got), gerr, a.Input)
			return
		}
		w.Count("unmarshaldecode_compared", 1)
		if a.Opts != "" {
			w.Count("unmarshaldecode_compared_legacy_options", 1)
		}
		if gerr != nil {
			// after a failed UnmarshalDecode the decoder may be left inside the value
			// (nothing promises otherwise): the script ends at the first error
			break
		}
	}
}

func dump(v any) string {
	return run.Trunc(fmt.Sprintf("%#v", reflect.ValueOf(v).Elem().Interface()), 300)
}

// ---- workload

var docs = []string{
	`{"name":"value","array":[null,false,true,3.14159],"object":{"k":"v"}}`,
	`[1,2,3] {"a":"\ud83d\ude00"} "x" 12e5 null`,
	`{"a":{"b":{"c":[1,{"d":"eeeeeeeeeeeeeeeeeeeeeeeeeeeeeeeeeeeeeeeeeeeeeeeeeeeeeeeeeeeeeeeeeeeeeeeee"}]}},"z":-0.5e-10}`,
	`["\ud83d\uDE00","\uD83D\ude00x","\uD83D\uDe00","\ud83D\udE00","\uD83D\uDE0"]`, `"\uD83D\uD83D"`, `"\ud83dA"`, `["😀",1,"\uDBFF\uDFFF\ud800\udc00"]`,
	`{"a":1,"a":2}`, `[1,2,,]`, `{"a":tru}`, `"\ud800"`, `[1e]`, `{"a":[1,2}`, "  \n", `123`, `-`, "{\"é\":\"é\xff\"}", `{"a":1}{"b":2}`,
	`[0.1e+10,-0,1E5,12345678901234567890]`, `{"~/":{"":[[],{}]}}`, `[true,false,null,"",0]`, `{"k":"\"\\\/\b\f\n\r\t"}`, "[\"\xe2\x82\xac\",\"\xf0\x9f\x98\x80\"]",
	`{"a":[{"b":[{"c":[{"d":[1]}]}]}]}`, `[[[[[[[[[[1]]]]]]]]]]`, `{"x":nul`, `[1, 2 ,3 ] `, `{"a" : 1 , "b" : [ ] }`, `"abc`, `{"a":"b"`, `tru`, `[01]`, `{"a":1,}`,
}

func bigDocs() []string {
	var out []string
	for k := 0; k < 6; k++ {
		var sb strings.Builder
		for d := 0; d < 5; d++ {
			sb.WriteString(`{"` + strings.Repeat(string(rune('a'+d)), 30*(k+1)+d) + `é":[` + strings.Repeat(`"v`+strings.Repeat("x", 17*k)+`",`, 3+k) + `{"n":`)
		}
		sb.WriteString(`1e-` + strings.Repeat("1", 3))
		for d := 0; d < 5; d++ {
			sb.WriteString(`}],"tail` + strings.Repeat("t", 50*k) + `":null}`)
		}
		out = append(out, sb.String())
	}
	// tokens straddling 64·2^k boundaries: long strings, long numbers, long names
	for _, n := range []int{60, 63, 64, 65, 127, 128, 129, 255, 256, 257, 1000, 4090, 4096, 4100, 8190, 8200} {
		out = append(out, `["`+strings.Repeat("s", n)+`",{"`+strings.Repeat("k", n)+`":`+strings.Repeat("9", n%300+1)+`}]`)
		out = append(out, strings.Repeat(" ", n)+`{"a":"`+strings.Repeat(`é`, n/6+1)+`"}`)
	}
	out = append(out, `[`+strings.Repeat(`"abcdefghijklmnop\n",`, 200)+`1]`)
	return out
}

var scripts = []string{"T", "V", "S", "TV", "TTV", "TS", "PT", "PV", "TPS", "Q", "QV", "TTTS", "TVS", "PTQ", "SV", "TTTTTV", "PPT", "TQS", "R", "TR", "QR", "TTRS"}

func allScripts(n int) []string {
	var out []string
	var rec func(s string)
	rec = func(s string) {
		if len(s) == n {
			out = append(out, s)
			return
		}
		for _, c := range "TVSPQR" {
			rec(s + string(c))
		}
	}
	rec("")
	return out
}

// cutClass classifies a cut position by the token it falls into (evidence only).
func cutClass(input []byte, toks []ref.Tok, p int) string {
	for _, t := range toks {
		if t.Start < p && p < t.End {
			switch t.Kind {
			case '"':
				for i := t.Start + 1; i < t.End-1; {
					if input[i] != '\\' {
						i++
						continue
					}
					n := 2
					if i+1 < t.End && input[i+1] == 'u' {
						n = 6
					}
					if i < p && p < i+n {
						return "in-escape"
					}
					if p == i+n && n == 6 && i+3 < t.End && (input[i+2] == 'd' || input[i+2] == 'D') && strings.ContainsRune("89abAB", rune(input[i+3])) {
						return "between-surrogates"
					}
					i += n
				}
				if p < len(input) && input[p]&0xC0 == 0x80 {
					return "in-multibyte-rune"
				}
				if t.IsName {
					return "in-name"
				}
				return "in-string"
			case '0':
				switch input[p-1] {
				case 'e', 'E', '-', '+', '.':
					return "in-number-after-marker"
				}
				return "in-number"
			default:
				return "in-literal"
			}
		}
		if t.End == p && t.IsName {
			return "between-name-and-colon"
		}
	}
	return "between-tokens"
}

var M = &run.Monitor{
	ID:    "C05",
	Level: "fault_enumeration",
	Rule: "case = (input, options, call script over ReadToken/ReadValue/SkipValue/PeekKind, reader schedule): explicit cut positions (every single cut and every pair of cuts of short inputs), " +
		"random chunkings with empty reads and data+EOF, bytes.Buffer, transient faults at every Read-call index of short inputs and at random rates otherwise; each case is run against the same script over the whole input " +
		"and the two event sequences (kind, text, InputOffset, StackDepth, StackIndex, StackPointer, error class+offset+pointer) must be equal; distinct = (input, script, reader kind, #cuts, #faults)",
	Assumptions: []string{
		"reference run = the same Decoder API over a bytes.Buffer holding the whole input; its events are independently checked against /verif/ref in C16",
		"SkipValue is not in the property's retry list: an interrupted skip is completed by ReadToken retries and only the final state is compared",
	},
	Floors: func(c map[string]int64, tier string) []string {
		var u []string
		need := func(k string, n int64) {
			if c[k] < n {
				u = append(u, fmt.Sprintf("%s=%d < %d", k, c[k], n))
			}
		}
		need("events_compared", 100000)
		need("transient_faults_injected", 5000)
		need("retries", 2000)
		need("runs_ending_in_error", 500)
		need("runs_ending_clean", 500)
		need("unmarshalread_compared", 1000)
		need("unmarshaldecode_compared", 1000)
		for _, cl := range []string{"in-escape", "in-number-after-marker", "in-literal", "between-name-and-colon", "in-multibyte-rune", "in-string", "in-name"} {
			need("cut_"+cl, 100)
		}
		if c["hooks_available"] > 0 {
			need("hook_fetches", 1000)
			need("hook_fetch_grows", 10)
			need("hook_fetch_compactions", 100)
			need("shadow_checks", 1000)
		}
		return u
	},
}

func main() {
	run.Def(M, "script", runScript)
	run.Def(M, "unmarshal", runUnmarshal)
	M.Gen = generate
	run.Main(M)
}

func generate(w *run.W) {
	ci := 0
	mine := func() bool { ci++; return w.Mine(ci) }
	short := docs
	big := bigDocs()
	scr4 := allScripts(w.Pick(3, 4))

	// (a) short inputs: every single cut x scripts; every fault position; pairs of cuts
	for di, doc := range short {
		in := []byte(doc)
		toks, _, _ := ref.Tokenize(in, ref.Opts{AllowInvalidUTF8: true, AllowDup: true})
		for _, cfg := range [][2]bool{{false, false}, {true, true}} {
			for si, sc := range scripts {
				if !mine() {
					continue
				}
				for p := 1; p < len(in); p++ {
					w.Count("cut_"+cutClass(in, toks, p), 1)
					w.Do("script", &scriptArgs{Input: in, Inv: cfg[0], Dup: cfg[1], Script: sc, Reader: "cuts", Cuts: []int{p}, EOFTog: (p+si)%2 == 0, PtrEvery: []int{0, 5, 1000}[(p+si)%3]})
				}
				// 1-byte reads, with every single transient fault position
				cuts := make([]int, len(in))
				for i := range cuts {
					cuts[i] = i + 1
				}
				nreads := len(in) + 2
				for f := 0; f < nreads; f++ {
					w.Do("script", &scriptArgs{Input: in, Inv: cfg[0], Dup: cfg[1], Script: sc, Reader: "cuts", Cuts: cuts, Faults: []int{f, f + 1 + (f+di)%3}, PtrEvery: []int{0, 7, 1000}[(f+si)%3]})
				}
				w.Do("script", &scriptArgs{Input: in, Inv: cfg[0], Dup: cfg[1], Script: sc, Reader: "buffer"})
			}
		}
		// exhaustive scripts of length 3 (4 thorough) with two random cuts and faults
		if mine() {
			r := w.Rand("exh", di)
			for _, sc := range scr4 {
				p1 := 1 + r.IntN(max(1, len(in)-1))
				p2 := p1 + 1 + r.IntN(max(1, len(in)-p1))
				w.Do("script", &scriptArgs{Input: in, Script: sc, Reader: "cuts", Cuts: []int{p1, p2}, Faults: []int{r.IntN(4), 2 + r.IntN(6)}})
			}
		}
		// every pair of cuts for the token-only and value-only scripts
		if mine() && len(in) <= 40 {
			for p1 := 1; p1 < len(in); p1++ {
				for p2 := p1 + 1; p2 < len(in); p2++ {
					w.Do("script", &scriptArgs{Input: in, Script: scripts[(p1+p2)%len(scripts)], Reader: "cuts", Cuts: []int{p1, p2}})
				}
			}
		}
	}

	// (b) big documents and generated texts: random schedules with fault rates 0-40 %
	nb := w.Pick(6000, 18000)
	for b := 0; b < nb; b++ {
		if !w.Mine(b) {
			continue
		}
		r := w.Rand("rnd", b)
		var in []byte
		switch r.IntN(4) {
		case 0:
			in = []byte(big[r.IntN(len(big))])
		case 1:
			in = []byte(short[r.IntN(len(short))])
		default:
			cfg := &gen.TextCfg{MaxDepth: 1 + r.IntN(5), MaxWidth: 1 + r.IntN(6), Invalid: r.IntN(4) == 0, WS: r.IntN(2) == 0, DupPercent: r.IntN(20)}
			in = gen.Value(r, cfg)
			for k := r.IntN(3); k > 0; k-- {
				in = append(append(in, ' '), gen.Value(r, cfg)...)
			}
			if r.IntN(4) == 0 {
				in = gen.Mutate(r, in)
			}
		}
		for k := 0; k < 12; k++ {
			a := &scriptArgs{Input: in, Inv: r.IntN(3) == 0, Dup: r.IntN(3) == 0, Script: scripts[r.IntN(len(scripts))], Reader: "random",
				Seed: r.Uint64(), MaxN: 1 + r.IntN(1+[]int{1, 3, 9, 64, 700, 5000}[r.IntN(6)]), ZeroP: r.IntN(15), FaultP: []int{0, 0, 5, 20, 40}[r.IntN(5)], EOFTog: r.IntN(2) == 0, PtrEvery: []int{0, 0, 3, 11, 1000}[r.IntN(5)]}
			if r.IntN(8) == 0 {
				a.Script = scr4[r.IntN(len(scr4))]
			}
			w.Do("script", a)
			if w.WantSample() {
				w.Sample(map[string]any{"exec": "script", "input": run.Trunc(string(in), 120), "script": a.Script, "max_read": a.MaxN, "fault_percent": a.FaultP})
			}
		}
		for k := 0; k < 6; k++ {
			w.Do("unmarshal", &umArgs{Input: in, Target: []string{"any", "map", "struct", "slice", "struct", "struct2", "structs", "struct3", "struct3", "ints"}[r.IntN(10)], Seed: r.Uint64(), MaxN: 1 + r.IntN(40), ZeroP: r.IntN(10), EOFTog: r.IntN(2) == 0, Buffer: r.IntN(5) == 0,
				Opts: []string{"", "", "", "legacy-errors", "v1"}[r.IntN(5)]})
		}
	}
}

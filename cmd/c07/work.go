package main

import (
	"bytes"
	"fmt"

	json "github.com/go-json-experiment/json"

	"verif/run"
)

var M = &run.Monitor{
	ID:    "C07",
	Level: "fault_enumeration",
	Rule: "values: (a) documents with padding strings of length L swept in steps of 1-2 over 0..1.2x every buffer size (pre-warmed Encoder buffers of 20..6000 bytes, bytes.Buffer capacities 0..4096, pooled buffers) " +
		"with omitempty members that take the write-then-retract path (jsontext.Value, MarshalJSON/MarshalJSONTo/MarshalText types, struct-typed, non-nil pointer/interface to empty values; empty spellings null \"\" {} [] and non-empty look-alikes) before, between, after the padding and last, nested documents, maps with non-string keys; " +
		"(b) arrays/maps of 0..2000 small scalars and empty containers (fast paths that end in a flush test); each value through MarshalWrite(*bytes.Buffer), MarshalWrite(opaque), MarshalEncode(fresh/pre-warmed, opaque/*bytes.Buffer), token replay, WriteValue, compared with Marshal; " +
		"(c) write faults: MarshalWrite with the writer failing from its 1st/2nd/3rd call on after accepting n bytes; token scripts (C06 generator) under EVERY single-fault schedule (call k, accepted n) for outputs <= 300 bytes, bursts of 3 failing calls, and random schedules on long scripts, each compared call by call with the fault-free run. " +
		"distinct = (route or schedule, size class of the encoding, buffer size class, option set, retraction pattern)",
	Assumptions: []string{
		"relational oracle: json.Marshal of the same value and options is the golden encoding; the fault-free run of the same call script is the golden stream",
		"faults are (n <= len(p), err != nil) results of io.Writer.Write; writers that return n < len(p) with a nil error violate io.Writer and are not modelled",
		"without Deterministic, maps are limited to one entry (member order of larger maps is unspecified)",
		"the deciding oracles use only the public API; when the library is built with its instrumentation points the H2/H3 counters (flushes by fill level, retractions, retractions after a partial flush of the same object, partial writes) are reported and have floors",
	},
	Floors: func(c map[string]int64, tier string) []string {
		var u []string
		need := func(k string, n int64) {
			if c[k] < n {
				u = append(u, fmt.Sprintf("%s=%d < %d", k, c[k], n))
			}
		}
		need("docs", 100000)
		need("arrays", 1000)
		need("slowpath_members_to_retract", 100000)
		need("slowpath_lookalikes_to_keep", 50000)
		need("cases_with_several_flushes", 20000)
		need("retractions_in_values_flushed_in_parts", 10000)
		for _, r := range routes {
			need("route_"+r, 400)
		}
		need("marshalwrite_faulted", 5000)
		need("marshalwrite_fault_proper_prefix", 500)
		need("scripts", 500)
		need("scripts_all_schedules", 100)
		need("fault_runs_with_fault", 9000)
		need("partial_writes", 10000)
		need("calls_returning_write_error", 10000)
		need("pointer_observations_under_fault", 10000)
		if c["hooks_available"] > 0 {
			// H2/H3: retractions seen inside the library, retractions of a member of an object
			// part of which had already been flushed, partial writes retained
			need("hook_unwrite_member", 1000000)
			need("hook_unwrite_after_flush", 100000)
			need("hook_unwrite_name", 10000)
			need("hook_flush_partial", 10000)
			need("hook_flush_fill_eighths_6", 10000)
			need("hook_flush_fill_eighths_7", 10000)
		}
		return u
	},
	SelfTest: selfTest,
}

// selfTest checks the fault-injecting writer against the io.Writer contract it is
// meant to exercise (the oracle proper is relational and has no other ground truth).
func selfTest() error {
	sk := &sink{failAt: 2, failN: 3, failLen: 2}
	steps := []struct {
		p    string
		n    int
		fail bool
	}{{"abcd", 4, false}, {"efghij", 3, true}, {"hij", 3, true}, {"klm", 3, false}}
	for i, s := range steps {
		n, err := sk.Write([]byte(s.p))
		if n != s.n || (err != nil) != s.fail {
			return fmt.Errorf("sink step %d: n=%d err=%v", i, n, err)
		}
	}
	if string(sk.got) != "abcdefghijklm" || sk.faults != 2 || sk.partial != 1 {
		return fmt.Errorf("sink state %q faults=%d partial=%d", sk.got, sk.faults, sk.partial)
	}
	// the value builders are pure functions of their parameters
	a, _ := buildDoc(docParams{L: 10, Variant: 77, Nest: 2, Mid: 5})
	b, _ := buildDoc(docParams{L: 10, Variant: 77, Nest: 2, Mid: 5})
	ja, err1 := json.Marshal(a, json.Deterministic(true))
	jb, err2 := json.Marshal(b, json.Deterministic(true))
	if err1 != nil || err2 != nil || !bytes.Equal(ja, jb) || len(ja) < 20 {
		return fmt.Errorf("buildDoc is not deterministic: %q %v / %q %v", ja, err1, jb, err2)
	}
	return nil
}

func main() {
	run.Def(M, "sweep", execSweep)
	run.Def(M, "array", execArray)
	run.Def(M, "script", execScript)
	M.Gen = generate
	run.Main(M)
}

func generate(w *run.W) {
	ci := 0
	mine := func() bool { ci++; return w.Mine(ci) }

	// (a) document sweeps
	nv := 24 + w.Pick(16, 80)
	optOf := []int{0, 0, 1, 2, 0, 3, 0, 4, 0, 5}
	type fam struct {
		route string
		size  int
		lmax  int
		fault bool
	}
	var fams []fam
	for _, wsz := range []int{0, 20, 50, 100, 200, 400, 800, 1500, 3000, 6000} {
		lmax := wsz*12/10 + 150
		if wsz == 0 {
			lmax = 1200
		}
		fams = append(fams, fam{"encode-opaque", wsz, lmax, false}, fam{"encode-buffer", wsz, lmax, false})
	}
	for _, g := range []int{0, 64, 128, 256, 512, 1024, 2048, 4096} {
		fams = append(fams, fam{"write-buffer", g, g + 150, false})
	}
	fams = append(fams, fam{"write-opaque", 0, 3300, true})
	for vi := 0; vi < nv; vi++ {
		variant := uint32(vi)
		if vi >= 24 {
			variant = uint32(24 + (vi-24)*2654435 + int(w.Seed)*7919) // random variants change with the seed
		}
		for fi, f := range fams {
			step := 1
			chunk := 512
			for from := 0; from <= f.lmax; from += chunk * step {
				if !w.Thorough() && from >= 1024 {
					step = 2
				}
				to := min(f.lmax, from+chunk*step-1)
				if mine() {
					w.Do("sweep", &sweepArgs{Family: "doc", Route: f.route, Size: f.size, LFrom: from, LTo: to, LStep: step,
						Variant: variant, Mid: []int{0, 5, 60, 700}[(vi+fi)%4], Post: []int{0, 3, 40}[vi%3], Nest: []int{0, 0, 1, 2}[(vi/2+fi)%4],
						Opt: optOf[vi%len(optOf)], Faults: f.fault})
				}
			}
		}
	}
	// a few documents far larger than any buffer (pooled buffers are kept up to 64 KiB)
	for i, l := range []int{5000, 9000, 17000, 40000, 66000, 70000, 140000, 300000} {
		for _, rt := range routes[:4] {
			if mine() {
				w.Do("sweep", &sweepArgs{Family: "doc", Route: rt, Size: []int{0, 3000}[i%2], LFrom: l, LTo: l + 3, LStep: 1, Variant: uint32(24 + i), Mid: 3000, Post: 40, Nest: 1, Opt: optOf[i%len(optOf)], Faults: rt == "write-opaque"})
			}
		}
	}

	// (b) arrays through the fast paths
	for _, kind := range arrayKinds {
		nmax := 2000
		if kind == "docs" || kind == "structs" {
			nmax = 300
		}
		for _, oi := range []int{0, 1, 3} {
			for from := 0; from <= nmax; from += 100 {
				step := 1
				if from >= 300 && !w.Thorough() {
					step = 7
				}
				if mine() {
					w.Do("array", &arrayArgs{Kind: kind, NFrom: from, NTo: min(nmax, from+99), NStep: step, Opt: oi})
				}
			}
		}
		if mine() {
			w.Do("array", &arrayArgs{Kind: kind, NFrom: 20000, NTo: 20000, NStep: 1, Opt: 1})
		}
	}

	// (c) token scripts under write faults
	ns := w.Pick(6000, 50000)
	for i := 0; i < ns; i++ {
		if !mine() {
			continue
		}
		r := w.Rand("script", i)
		seed := r.Uint64()
		switch {
		case i%3 == 0:
			w.Do("script", &scriptArgs{Seed: seed, Len: 1 + r.IntN(9), Mode: "all"})
		case i%3 == 1 && i%2 == 0:
			w.Do("script", &scriptArgs{Seed: seed, Len: 1 + r.IntN(9), Mode: "burst"})
		default:
			big := r.IntN(2) == 0
			w.Do("script", &scriptArgs{Seed: seed, Len: 5 + r.IntN(56), Big: big, Mode: "random", Runs: w.Pick(6, 10), Pct: []int{5, 20, 50, 90}[r.IntN(4)]})
		}
	}
}

// C07 — encoded bytes do not depend on buffering, flushing or the writer; write faults.
//
// Relational oracle: the golden bytes are json.Marshal(v) (which never flushes).  Every
// streaming route — MarshalWrite to a *bytes.Buffer / to an opaque writer, MarshalEncode
// on fresh and pre-warmed Encoders, token-level re-encoding — must deliver exactly those
// bytes (plus one newline per top-level value for an Encoder), whatever the relation
// between the sizes of the data and of the buffers.  Under write faults a token-level
// Encoder still accepts every token and nothing is lost or duplicated; MarshalWrite
// returns the error having delivered a prefix of the golden bytes.
package main

import (
	"bytes"
	"errors"
	"fmt"
	"io"
	"math"
	"math/rand/v2"
	"regexp"
	"strings"

	json "github.com/go-json-experiment/json"
	"github.com/go-json-experiment/json/jsontext"

	"verif/gen"
	"verif/ref"
	"verif/run"
)

var errFault = errors.New("verif: injected write fault")

// sink is an opaque io.Writer (not a *bytes.Buffer) with an optional fault plan.
type sink struct {
	got    []byte
	writes int
	sizes  []int // length of each Write call's argument (fault-free runs)

	// fault plan: the failAt-th Write call (1-based) accepts failN bytes (capped) and
	// errors; with rnd != nil every call fails with probability pct/100 instead.
	failAt, failN int
	failLen       int // number of consecutive failing calls starting at failAt
	rnd           *rand.Rand
	pct           int
	healthy       bool
	faults        int
	partial       int
}

func (s *sink) Write(p []byte) (int, error) {
	s.writes++
	fail, n := false, 0
	switch {
	case s.healthy:
	case s.rnd != nil:
		if s.rnd.IntN(100) < s.pct {
			fail = true
			switch s.rnd.IntN(4) {
			case 0:
				n = 0
			case 1:
				n = len(p) // everything taken, error nevertheless
			default:
				n = s.rnd.IntN(len(p) + 1)
			}
		}
	case s.failAt > 0 && s.writes >= s.failAt && s.writes < s.failAt+max(1, s.failLen):
		fail, n = true, min(s.failN, len(p))
	}
	if fail {
		s.faults++
		if n > 0 && n < len(p) {
			s.partial++
		}
		s.got = append(s.got, p[:n]...)
		return n, errFault
	}
	s.got = append(s.got, p...)
	if s.sizes != nil {
		s.sizes = append(s.sizes, len(p))
	}
	return len(p), nil
}

// ---------------------------------------------------------------------------------
// local statistics

type stats struct {
	c      map[string]int64
	evals  int64
	shapes map[string]struct{}
	seen   map[string]struct{}
}

var st = &stats{c: map[string]int64{}, shapes: map[string]struct{}{}, seen: map[string]struct{}{}}

func (s *stats) add(k string, n int64) { s.c[k] += n }
func (s *stats) shape(k string)        { s.shapes[k] = struct{}{} }
func (s *stats) flush(w *run.W) {
	w.Eval(s.evals)
	s.evals = 0
	for k, v := range s.c {
		if v != 0 {
			w.Count(k, v)
		}
		delete(s.c, k)
	}
	for k := range s.shapes {
		if _, ok := s.seen[k]; !ok {
			s.seen[k] = struct{}{}
			w.Shape(k)
		}
		delete(s.shapes, k)
	}
}

func sizeClass(n int) int { return bitsLen(uint(n)) }
func bitsLen(x uint) int {
	n := 0
	for ; x != 0; x >>= 1 {
		n++
	}
	return n
}

func diffq(a, b []byte) string {
	i := 0
	for i < len(a) && i < len(b) && a[i] == b[i] {
		i++
	}
	lo := max(0, i-40)
	hi := min(len(a), i+60)
	return fmt.Sprintf("[len %d, first difference at %d: …%q…]", len(a), i, a[lo:hi])
}

var digitRuns = regexp.MustCompile(`[0-9]+`)

// guarded runs fn; a panic raised inside the library becomes a violation with a
// normalized signature (numbers in the runtime message replaced by N).
func guarded(w *run.W, what func() string, fn func()) {
	defer func() {
		if p := recover(); p != nil {
			origin, lib, stack := run.PanicOrigin()
			if !lib {
				panic(p) // harness bug: the framework reports it as broken
			}
			w.Violate("library-panic", map[string]string{"func": origin, "panic": digitRuns.ReplaceAllString(run.Trunc(fmt.Sprint(p), 120), "N")},
				"%s: library panicked: %v\n%s", what(), p, stack)
			st.add("cases_ended_by_panic", 1)
		}
	}()
	fn()
}

// ---------------------------------------------------------------------------------
// fault-free routes

type routeArgs struct {
	Route string `json:"route"` // see routes
	Size  int    `json:"size"`  // pre-grown bytes.Buffer capacity / pre-warm string length
}

var routes = []string{"write-buffer", "write-opaque", "encode-opaque", "encode-buffer", "tokens-opaque", "value-buffer"}

func jopts(o []json.Options) []jsontext.Options { return o } // the Options types are identical

// runRoute sends v through one streaming route and compares with golden.
// what describes the value for messages; key are the normalized signature attributes.
func runRoute(w *run.W, v any, oi int, golden []byte, ra routeArgs, what string, shapeExtra string) {
	guarded(w, func() string {
		return fmt.Sprintf("%s route=%s size=%d opts=%s", what, ra.Route, ra.Size, optSets[oi].name)
	},
		func() { runRoute0(w, v, oi, golden, ra, what, shapeExtra) })
}

func runRoute0(w *run.W, v any, oi int, golden []byte, ra routeArgs, what string, shapeExtra string) {
	opts := optSets[oi].opts
	st.evals++
	st.add("route_"+ra.Route, 1)
	var got, want []byte
	var err error
	writes := 0
	switch ra.Route {
	case "write-buffer":
		bb := bytes.NewBuffer(make([]byte, 0, ra.Size))
		if len(golden)%3 == 0 {
			// a buffer that already holds data: the encoder appends into its spare capacity
			const used = "previous content of the buffer, 37 b\n"
			bb.WriteString(used)
			want = append(want, used...)
			st.add("write_buffer_with_previous_content", 1)
		}
		err = json.MarshalWrite(bb, v, opts...)
		got, want = bb.Bytes(), append(want, golden...)
	case "write-opaque":
		sk := &sink{healthy: true}
		err = json.MarshalWrite(sk, v, opts...)
		got, want, writes = sk.got, golden, sk.writes
	case "encode-opaque", "encode-buffer", "tokens-opaque", "value-buffer":
		var sk *sink
		var bb *bytes.Buffer
		var wr io.Writer
		if strings.HasSuffix(ra.Route, "-buffer") {
			bb = new(bytes.Buffer)
			wr = bb
		} else {
			sk = &sink{healthy: true}
			wr = sk
		}
		enc := jsontext.NewEncoder(wr, jopts(opts)...)
		if ra.Size > 0 {
			// pre-warm: a first top-level value fixes the capacity of the buffer
			warm := strings.Repeat("w", ra.Size)
			if err := enc.WriteToken(jsontext.String(warm)); err != nil {
				w.Broken("pre-warm token rejected: %v", err)
				return
			}
			want = append(want, '"')
			want = append(want, warm...)
			want = append(want, '"', '\n')
		}
		want = append(want, golden...)
		want = append(want, '\n')
		switch ra.Route {
		case "encode-opaque", "encode-buffer":
			// the semantic options are passed to the call as well (documented precedence);
			// the whitespace options equal those of the encoder, which is allowed
			err = json.MarshalEncode(enc, v, opts...)
		case "value-buffer":
			err = enc.WriteValue(jsontext.Value(golden))
		case "tokens-opaque":
			// the token-level route for the same value: the tokens of the golden text
			dec := jsontext.NewDecoder(bytes.NewReader(golden))
			for {
				tok, derr := dec.ReadToken()
				if derr == io.EOF {
					break
				}
				if derr != nil {
					w.Broken("golden Marshal output does not tokenize: %v", derr)
					return
				}
				if err = enc.WriteToken(tok); err != nil {
					break
				}
			}
		}
		if bb != nil {
			got = bb.Bytes()
		} else {
			got, writes = sk.got, sk.writes
		}
	default:
		w.Broken("unknown route %s", ra.Route)
		return
	}
	if writes >= 2 {
		st.add("cases_with_several_flushes", 1)
	}
	st.add("writer_calls", int64(writes))
	st.shape(fmt.Sprint(ra.Route, "|", sizeClass(len(golden)), "|", sizeClass(ra.Size), "|", optSets[oi].name, "|", shapeExtra))
	sig := map[string]string{"route": ra.Route, "opts": optSets[oi].name}
	if err != nil {
		w.Violate("stream-error", sig, "%s route=%s size=%d opts=%s: streaming route failed with %v, Marshal succeeded (%d bytes)", what, ra.Route, ra.Size, optSets[oi].name, err, len(golden))
		return
	}
	if !bytes.Equal(got, want) {
		w.Violate("stream-bytes", sig, "%s route=%s size=%d opts=%s: delivered %s\n  Marshal (+newlines) %s", what, ra.Route, ra.Size, optSets[oi].name, diffq(got, want), diffq(want, got))
	}
}

// ---------------------------------------------------------------------------------
// MarshalWrite under faults

func runWriteFault(w *run.W, v any, oi int, golden []byte, failAt, failN int, what string) {
	guarded(w, func() string {
		return fmt.Sprintf("%s MarshalWrite failing from write %d on (n=%d) opts=%s", what, failAt, failN, optSets[oi].name)
	},
		func() { runWriteFault0(w, v, oi, golden, failAt, failN, what) })
}

func runWriteFault0(w *run.W, v any, oi int, golden []byte, failAt, failN int, what string) {
	opts := optSets[oi].opts
	sk := &sink{failAt: failAt, failN: failN, failLen: 1 << 30}
	if (failAt+failN)%2 == 1 {
		sk.failLen = 1 // transient: a library that kept writing after the error would leave a gap
	}
	err := json.MarshalWrite(sk, v, opts...)
	st.evals++
	st.add("marshalwrite_fault_runs", 1)
	sig := map[string]string{"opts": optSets[oi].name}
	if !bytes.HasPrefix(golden, sk.got) {
		w.Violate("marshalwrite-fault-prefix", sig, "%s opts=%s writer fails from call %d on (accepting %d bytes): delivered %s is not a prefix of Marshal %s",
			what, optSets[oi].name, failAt, failN, diffq(sk.got, golden), diffq(golden, sk.got))
	}
	switch {
	case sk.faults == 0:
		st.add("marshalwrite_fault_not_reached", 1)
		if err != nil || !bytes.Equal(sk.got, golden) {
			w.Violate("stream-bytes", map[string]string{"route": "write-opaque", "opts": optSets[oi].name}, "%s: no fault was injected (only %d writes) but err=%v delivered %s", what, sk.writes, err, diffq(sk.got, golden))
		}
	default:
		st.add("marshalwrite_faulted", 1)
		if len(sk.got) == 0 {
			st.add("marshalwrite_fault_empty_prefix", 1)
		} else if len(sk.got) < len(golden) {
			st.add("marshalwrite_fault_proper_prefix", 1)
		}
		if err == nil || !errors.Is(err, errFault) {
			w.Violate("marshalwrite-fault-error", sig, "%s opts=%s: the writer failed at call %d but MarshalWrite returned %v", what, optSets[oi].name, failAt, err)
		}
	}
	st.shape(fmt.Sprint("wfault|", sizeClass(len(golden)), "|", min(failAt, 4), "|", failN > 0, "|", optSets[oi].name))
}

// ---------------------------------------------------------------------------------
// sweeps (block cases)

type sweepArgs struct {
	Family  string `json:"family"` // "doc"
	Route   string `json:"route"`
	Size    int    `json:"size"`
	LFrom   int    `json:"l_from"`
	LTo     int    `json:"l_to"`
	LStep   int    `json:"l_step"`
	Variant uint32 `json:"variant"`
	Mid     int    `json:"mid"`
	Post    int    `json:"post"`
	Nest    int    `json:"nest"`
	Opt     int    `json:"opt"`
	Faults  bool   `json:"faults"` // also run MarshalWrite under faults for each value
}

func execSweep(w *run.W, a *sweepArgs) {
	defer st.flush(w)
	for l := a.LFrom; l <= a.LTo; l += max(1, a.LStep) {
		p := docParams{L: l, Mid: a.Mid, Post: a.Post, Variant: a.Variant, Nest: a.Nest}
		d, info := buildDoc(p)
		if len(optSets[a.Opt].opts) == 0 {
			singleEntryMaps(d)
		}
		golden, err := json.Marshal(d, optSets[a.Opt].opts...)
		if err != nil {
			w.Broken("Marshal of a generated document failed: %v (%+v)", err, p)
			return
		}
		what := fmt.Sprintf("Doc%+v", p)
		st.add("docs", 1)
		st.add("slowpath_members_to_retract", int64(info.retract))
		st.add("slowpath_lookalikes_to_keep", int64(info.keep))
		shape := fmt.Sprint(info.retract > 0, info.keep > 0, a.Variant < 24, a.Variant%24)
		before := st.c["cases_with_several_flushes"]
		runRoute(w, d, a.Opt, golden, routeArgs{Route: a.Route, Size: a.Size}, what, shape)
		if info.retract > 0 && st.c["cases_with_several_flushes"] > before {
			st.add("retractions_in_values_flushed_in_parts", int64(info.retract))
		}
		if a.Faults {
			for _, k := range []int{1, 2, 3} {
				runWriteFault(w, d, a.Opt, golden, k, (l*7+k*13)%97, what)
			}
		}
		if (l-a.LFrom)%512 == 511 {
			w.Beat()
		}
	}
}

type arrayArgs struct {
	Kind  string `json:"kind"`
	NFrom int    `json:"n_from"`
	NTo   int    `json:"n_to"`
	NStep int    `json:"n_step"`
	Opt   int    `json:"opt"`
}

func execArray(w *run.W, a *arrayArgs) {
	defer st.flush(w)
	for n := a.NFrom; n <= a.NTo; n += max(1, a.NStep) {
		if len(optSets[a.Opt].opts) == 0 && (a.Kind == "anymap" || a.Kind == "intmap" || a.Kind == "docs") && n > 1 {
			continue // member order of maps is unspecified without Deterministic
		}
		v := buildArray(a.Kind, n)
		golden, err := json.Marshal(v, optSets[a.Opt].opts...)
		if err != nil {
			w.Broken("Marshal of a generated array failed: %v (%s %d)", err, a.Kind, n)
			return
		}
		st.add("arrays", 1)
		what := fmt.Sprintf("array(kind=%s,n=%d)", a.Kind, n)
		for ri, rt := range routes {
			size := 0
			switch {
			case rt == "write-buffer":
				size = []int{0, 64, 256, 1024, 4096}[(n+ri)%5]
			case (n+ri)%3 == 0:
				size = []int{50, 200, 800, 3000}[(n/3)%4]
			}
			if (rt == "tokens-opaque" || rt == "value-buffer") && n%4 != 0 {
				continue
			}
			runRoute(w, v, a.Opt, golden, routeArgs{Route: rt, Size: size}, what, a.Kind)
		}
		if n%8 == 0 {
			runWriteFault(w, v, a.Opt, golden, 1+n%3, n%50, what)
		}
	}
}

// ---------------------------------------------------------------------------------
// token-level encoding under write faults

type libCall struct {
	isValue bool
	tok     jsontext.Token
	val     jsontext.Value
}

func toLib(c ref.EncCall) (libCall, error) {
	switch c.K {
	case "n":
		return libCall{tok: jsontext.Null}, nil
	case "f":
		return libCall{tok: jsontext.False}, nil
	case "t":
		return libCall{tok: jsontext.True}, nil
	case "{":
		return libCall{tok: jsontext.BeginObject}, nil
	case "}":
		return libCall{tok: jsontext.EndObject}, nil
	case "[":
		return libCall{tok: jsontext.BeginArray}, nil
	case "]":
		return libCall{tok: jsontext.EndArray}, nil
	case "s":
		return libCall{tok: jsontext.String(string(c.S))}, nil
	case "i":
		return libCall{tok: jsontext.Int(int64(c.N))}, nil
	case "u":
		return libCall{tok: jsontext.Uint(c.N)}, nil
	case "d":
		return libCall{tok: jsontext.Float(math.Float64frombits(c.N))}, nil
	case "e":
		return libCall{tok: jsontext.Float32(math.Float32frombits(uint32(c.N)))}, nil
	case "rs", "rn":
		d := jsontext.NewDecoder(bytes.NewReader(c.S), jsontext.AllowInvalidUTF8(true))
		t, err := d.ReadToken()
		if err != nil {
			return libCall{}, err
		}
		return libCall{tok: t.Clone()}, nil
	case "z":
		return libCall{tok: jsontext.Token{}}, nil
	case "v":
		return libCall{isValue: true, val: jsontext.Value(c.S)}, nil
	}
	return libCall{}, fmt.Errorf("unknown call kind %q", c.K)
}

func (l *libCall) apply(e *jsontext.Encoder) error {
	if l.isValue {
		return e.WriteValue(l.val)
	}
	return e.WriteToken(l.tok)
}

func toOptions(o ref.EncOpts) []jsontext.Options {
	var opts []jsontext.Options
	add := func(b bool, f func(bool) jsontext.Options) {
		if b {
			opts = append(opts, f(true))
		}
	}
	add(o.AllowDup, jsontext.AllowDuplicateNames)
	add(o.AllowInvUTF, jsontext.AllowInvalidUTF8)
	add(o.Multiline, jsontext.Multiline)
	if o.Indent != nil {
		opts = append(opts, jsontext.WithIndent(*o.Indent))
	}
	if o.Prefix != nil {
		opts = append(opts, jsontext.WithIndentPrefix(*o.Prefix))
	}
	if o.Colon != 0 {
		opts = append(opts, jsontext.SpaceAfterColon(o.Colon > 0))
	}
	if o.Comma != 0 {
		opts = append(opts, jsontext.SpaceAfterComma(o.Comma > 0))
	}
	add(o.HTML, jsontext.EscapeForHTML)
	add(o.JS, jsontext.EscapeForJS)
	add(o.Preserve, jsontext.PreserveRawStrings)
	add(o.CanonInts, jsontext.CanonicalizeRawInts)
	add(o.CanonFloats, jsontext.CanonicalizeRawFloats)
	add(o.Reorder, jsontext.ReorderRawObjects)
	return opts
}

type scriptArgs struct {
	Seed uint64 `json:"seed"` // the script and its options are a pure function of Seed, Len, Big
	Len  int    `json:"len"`
	Big  bool   `json:"big"`
	Mode string `json:"mode"` // "all": every (call k, accepted n) single-fault schedule; "burst": same with 3 consecutive failures; "random": Runs random schedules
	Runs int    `json:"runs"`
	Pct  int    `json:"pct"`
}

func buildScript(a *scriptArgs) (ref.EncOpts, []ref.EncCall, []libCall, error) {
	r := rand.New(rand.NewPCG(a.Seed, 0x5c21))
	o := gen.RandEncOpts(r)
	calls := gen.EncSeq(r, o, a.Len, a.Big)
	libs := make([]libCall, len(calls))
	for i, c := range calls {
		l, err := toLib(c)
		if err != nil {
			return o, nil, nil, err
		}
		libs[i] = l
	}
	return o, calls, libs, nil
}

type encState struct {
	off     int64
	depth   int
	idx     []int64
	kinds   []jsontext.Kind
	pointer jsontext.Pointer
	hasPtr  bool
}

// snapshot records the observable state.  StackPointer is only called when ptr is set:
// inside the library it copies the pending member names out of the buffer, so calling it
// after every call would hide a flush (or a partial-write shift) that loses them.
func snapshot(e *jsontext.Encoder, s *encState, ptr bool) {
	s.off, s.depth = e.OutputOffset(), e.StackDepth()
	s.hasPtr = ptr
	if ptr {
		s.pointer = e.StackPointer()
	}
	s.idx, s.kinds = s.idx[:0], s.kinds[:0]
	for l := 0; l <= s.depth; l++ {
		k, n := e.StackIndex(l)
		s.idx, s.kinds = append(s.idx, n), append(s.kinds, k)
	}
}

func (a *encState) equal(b *encState) (string, bool) {
	switch {
	case a.off != b.off:
		return "output-offset", false
	case a.depth != b.depth:
		return "stack-depth", false
	case a.hasPtr && b.hasPtr && a.pointer != b.pointer:
		return "stack-pointer", false
	}
	for i := range a.idx {
		if a.idx[i] != b.idx[i] || a.kinds[i] != b.kinds[i] {
			return "stack-index", false
		}
	}
	return "", true
}

// faultFreeRun executes the script on a healthy opaque writer and records, per call,
// the error class and the state after it; closing calls and one final null are added
// so that everything is delivered.
type golden struct {
	rejected []bool
	states   []encState
	closers  []libCall
	out      []byte
	sizes    []int
}

func closersOf(e *jsontext.Encoder) []libCall {
	var cs []libCall
	d := e.StackDepth()
	for l := d; l >= 1; l-- {
		k, n := e.StackIndex(l)
		if k == '{' {
			if n%2 == 1 {
				cs = append(cs, libCall{tok: jsontext.Null})
			}
			cs = append(cs, libCall{tok: jsontext.EndObject})
		} else {
			cs = append(cs, libCall{tok: jsontext.EndArray})
		}
	}
	return append(cs, libCall{tok: jsontext.Null}) // a last top-level value: gives a later call the chance to deliver
}

func faultFreeRun(w *run.W, jo []jsontext.Options, libs []libCall) *golden {
	g := &golden{rejected: make([]bool, len(libs)), states: make([]encState, len(libs))}
	sk := &sink{healthy: true, sizes: []int{}}
	e := jsontext.NewEncoder(sk, jo...)
	for i := range libs {
		err := libs[i].apply(e)
		g.rejected[i] = err != nil
		snapshot(e, &g.states[i], true)
	}
	g.closers = closersOf(e)
	for i := range g.closers {
		if err := g.closers[i].apply(e); err != nil {
			w.Broken("closing call rejected in the fault-free run: %v", err)
			return nil
		}
	}
	g.out, g.sizes = sk.got, sk.sizes
	return g
}

func describeCalls(calls []ref.EncCall, upto int) string {
	var sb strings.Builder
	start := max(0, upto-12)
	if start > 0 {
		fmt.Fprintf(&sb, "…(%d calls) ", start)
	}
	for i := start; i <= upto && i < len(calls); i++ {
		if i > start {
			sb.WriteString(", ")
		}
		sb.WriteString(calls[i].String())
	}
	return sb.String()
}

// faultRun replays the script on a faulty writer and checks it against the fault-free run.
func faultRun(w *run.W, o ref.EncOpts, jo []jsontext.Options, calls []ref.EncCall, libs []libCall, g *golden, sk *sink, sched string) {
	guarded(w, func() string {
		return fmt.Sprintf("opts=%s schedule=%s (fail at write %d, n=%d, len %d; pct %d) script: %s", o.Key(), sched, sk.failAt, sk.failN, sk.failLen, sk.pct, describeCalls(calls, len(calls)))
	}, func() { faultRun0(w, o, jo, calls, libs, g, sk, sched) })
}

func faultRun0(w *run.W, o ref.EncOpts, jo []jsontext.Options, calls []ref.EncCall, libs []libCall, g *golden, sk *sink, sched string) {
	st.evals++
	st.add("fault_runs", 1)
	e := jsontext.NewEncoder(sk, jo...)
	var cur encState
	sig := func(extra ...string) map[string]string {
		m := map[string]string{"schedule": sched}
		for i := 0; i+1 < len(extra); i += 2 {
			m[extra[i]] = extra[i+1]
		}
		return m
	}
	for i := range libs {
		err := libs[i].apply(e)
		st.add("calls_under_fault_plan", 1)
		isIO := err != nil && errors.Is(err, errFault)
		if isIO {
			st.add("calls_returning_write_error", 1)
		}
		switch {
		case g.rejected[i] && (err == nil || isIO):
			w.Violate("fault-accept", sig("want", "reject"), "opts=%s schedule=%s call #%d %s is rejected by the fault-free encoder but returned %v here\n  history: %s", o.Key(), sched, i, calls[i], err, describeCalls(calls, i))
			return
		case !g.rejected[i] && err != nil && !isIO:
			w.Violate("fault-accept", sig("want", "accept"), "opts=%s schedule=%s call #%d %s is accepted by the fault-free encoder but returned the non-write error %v here\n  history: %s", o.Key(), sched, i, calls[i], err, describeCalls(calls, i))
			return
		}
		// the pointer is observed after a faulted call with probability 1/2, otherwise 1/8
		h := (uint64(i)*2654435761 + uint64(sk.failAt)*97 + uint64(sk.failN)*31 + uint64(sk.pct) + uint64(sk.faults)*13) >> 5
		ptr := h%8 == 0 || (isIO && h%2 == 0) || i == len(libs)-1
		if ptr {
			st.add("pointer_observations_under_fault", 1)
		}
		snapshot(e, &cur, ptr)
		if field, ok := cur.equal(&g.states[i]); !ok {
			w.Violate("fault-state", sig("field", field), "opts=%s schedule=%s after call #%d %s (err=%v): %s differs from the fault-free run: offset %d vs %d, depth %d vs %d, pointer %q vs %q, index %v vs %v\n  history: %s",
				o.Key(), sched, i, calls[i], err, field, cur.off, g.states[i].off, cur.depth, g.states[i].depth, cur.pointer, g.states[i].pointer, cur.idx, g.states[i].idx, describeCalls(calls, i))
			return
		}
		if !bytes.HasPrefix(g.out, sk.got) {
			w.Violate("fault-prefix", sig(), "opts=%s schedule=%s after call #%d %s: the writer holds %s, not a prefix of the fault-free output %s\n  history: %s",
				o.Key(), sched, i, calls[i], diffq(sk.got, g.out), diffq(g.out, sk.got), describeCalls(calls, i))
			return
		}
	}
	st.add("faults_injected", int64(sk.faults))
	st.add("partial_writes", int64(sk.partial))
	if sk.faults > 0 {
		st.add("fault_runs_with_fault", 1)
	}
	sk.healthy = true
	for i := range g.closers {
		if err := g.closers[i].apply(e); err != nil {
			w.Violate("fault-accept", sig("want", "accept"), "opts=%s schedule=%s: closing call %d returned %v on a healthy writer\n  history: %s", o.Key(), sched, i, err, describeCalls(calls, len(calls)))
			return
		}
	}
	if !bytes.Equal(sk.got, g.out) {
		w.Violate("fault-conservation", sig(), "opts=%s schedule=%s (%d faults, %d partial): accepted by the writer in total %s\n  fault-free output %s\n  history: %s",
			o.Key(), sched, sk.faults, sk.partial, diffq(sk.got, g.out), diffq(g.out, sk.got), describeCalls(calls, len(calls)))
	}
	if off := e.OutputOffset(); off != int64(len(g.out)) {
		w.Violate("fault-state", sig("field", "final-output-offset"), "opts=%s schedule=%s: final OutputOffset %d, fault-free output has %d bytes", o.Key(), sched, off, len(g.out))
	}
}

func execScript(w *run.W, a *scriptArgs) {
	defer st.flush(w)
	o, calls, libs, err := buildScript(a)
	if err != nil {
		w.Broken("cannot build script: %v", err)
		return
	}
	jo := toOptions(o)
	g := faultFreeRun(w, jo, libs)
	if g == nil {
		return
	}
	st.add("scripts", 1)
	st.shape(fmt.Sprint("script|", a.Mode, "|", sizeClass(len(g.out)), "|", len(g.sizes) > 2, "|", o.Multiline || o.Indent != nil))
	mode := a.Mode
	if mode != "random" && len(g.out) > 300 {
		mode = "random" // exhaustive schedules only for short encodings
	}
	switch mode {
	case "all", "burst":
		// every write call k of the fault-free run × every accepted byte count n
		for k := range g.sizes {
			for n := 0; n <= g.sizes[k]; n++ {
				sk := &sink{failAt: k + 1, failN: n, failLen: 1}
				if mode == "burst" {
					sk.failLen = 3
				}
				faultRun(w, o, jo, calls, libs, g, sk, mode)
			}
		}
		st.add("scripts_all_schedules", 1)
	default:
		for run := 0; run < max(a.Runs, 6); run++ {
			sk := &sink{rnd: rand.New(rand.NewPCG(a.Seed, uint64(run)+1)), pct: max(a.Pct, 10)}
			faultRun(w, o, jo, calls, libs, g, sk, "random")
		}
	}
	if w.WantSample() && len(calls) <= 10 {
		var ss []string
		for _, c := range calls {
			ss = append(ss, c.String())
		}
		w.Sample(map[string]any{"exec": "script", "opts": o.Key(), "mode": a.Mode, "calls": ss, "fault_free_output": string(g.out), "write_sizes": g.sizes})
	}
}

package main

import (
	"fmt"
	"math/rand/v2"
	"strings"

	json "github.com/go-json-experiment/json"
	"github.com/go-json-experiment/json/jsontext"
)

// Types whose omitempty members go through the *slow path*: the member is written
// (name and value) and retracted afterwards when the value turned out to be empty.
// Plain empty strings/slices/maps are recognised up front and never written, so they
// cannot exercise the retraction; these can: jsontext.Value, types with marshal
// methods, struct-typed fields, non-nil pointers and interfaces holding empty values.

type emptyS struct {
	X string `json:"x,omitempty"`
}

type mj string // MarshalJSON returns the text as is

func (m mj) MarshalJSON() ([]byte, error) { return []byte(m), nil }

type mt string // MarshalJSONTo writes the text as one raw value

func (m mt) MarshalJSONTo(e *jsontext.Encoder) error { return e.WriteValue(jsontext.Value(m)) }

type tx string // MarshalText: a JSON string, "" when empty

func (t tx) MarshalText() ([]byte, error) { return []byte(t), nil }

type mtoks int // MarshalJSONTo writes token by token: 0 → {}, 1 → [], 2 → {"k":[]}, 3 → [{}], 4 → null, 5 → ""

func (m mtoks) MarshalJSONTo(e *jsontext.Encoder) error {
	var toks []jsontext.Token
	switch m {
	case 0:
		toks = []jsontext.Token{jsontext.BeginObject, jsontext.EndObject}
	case 1:
		toks = []jsontext.Token{jsontext.BeginArray, jsontext.EndArray}
	case 2:
		toks = []jsontext.Token{jsontext.BeginObject, jsontext.String("k"), jsontext.BeginArray, jsontext.EndArray, jsontext.EndObject}
	case 3:
		toks = []jsontext.Token{jsontext.BeginArray, jsontext.BeginObject, jsontext.EndObject, jsontext.EndArray}
	case 4:
		toks = []jsontext.Token{jsontext.Null}
	default:
		toks = []jsontext.Token{jsontext.String("")}
	}
	for _, t := range toks {
		if err := e.WriteToken(t); err != nil {
			return err
		}
	}
	return nil
}

// Doc is the swept document: padding strings whose lengths place the flushes, and
// retractable members before, between, after and at the very end.
type Doc struct {
	A0   jsontext.Value    `json:"a0,omitempty"`
	B0   mj                `json:"b0,omitempty"`
	Pre  string            `json:"pre,omitempty"`
	A1   jsontext.Value    `json:"a1,omitempty"`
	B1   mj                `json:"b1,omitempty"`
	C1   mt                `json:"c1,omitempty"`
	E1   emptyS            `json:"e1,omitempty"`
	P1   *[]int            `json:"p1,omitempty"`
	I1   any               `json:"i1,omitempty"`
	T1   tx                `json:"t1,omitempty"`
	K1   mtoks             `json:"k1,omitempty"`
	N    int               `json:"n,omitzero"`
	Mid  string            `json:"mid,omitempty"`
	A2   jsontext.Value    `json:"a2,omitempty"`
	B2   mj                `json:"b2,omitempty"`
	Sub  *Doc              `json:"sub,omitempty"`
	L    []int             `json:"l,omitempty"`
	M    map[string]string `json:"m,omitempty"`
	Z    map[int]mj        `json:"z,omitempty"` // non-string keys: member names are written, unwritten and sorted
	A3   jsontext.Value    `json:"a3,omitempty"`
	Post string            `json:"post,omitempty"`
	A4   jsontext.Value    `json:"a4,omitempty"`
}

// look-alikes: the four empty values, spellings of them that only become empty after
// reformatting, and non-empty values whose last two bytes look like an empty one.
var lookalikes = []string{`null`, `""`, `{}`, `[]`, ` [ ] `, "{\n}", `"\""`, `[0]`, `{"a":""}`, `[[]]`, `"null"`, `[{}]`, `"\\\""`, `[null]`}

const nEmptyLook = 6 // the first nEmptyLook look-alikes encode to an empty value

type docParams struct {
	L       int    `json:"l"`       // length of Pre
	Mid     int    `json:"mid"`     // length of Mid
	Post    int    `json:"post"`    // length of Post
	Variant uint32 `json:"variant"` // which members are present and what they hold
	Nest    int    `json:"nest"`    // depth of Sub
}

// emptyAfterPre reports (for evidence) how many slow-path members of the built document
// encode to an empty value, i.e. have to be retracted.
type docInfo struct {
	retract int // slow-path members that must be retracted
	keep    int // slow-path members that look empty at their tail but must stay
}

func pad(n int, c byte, tail string) string {
	if n <= 0 {
		return ""
	}
	s := strings.Repeat(string(c), n)
	if n >= len(tail) {
		s = s[:n-len(tail)] + tail
	}
	return s
}

// buildDoc is a pure function of its parameters.
func buildDoc(p docParams) (*Doc, docInfo) {
	var info docInfo
	d := &Doc{N: int(p.Variant)}
	d.Pre = pad(p.L, 'x', "")
	d.Mid = pad(p.Mid, 'y', "")
	d.Post = pad(p.Post, 'z', "")
	look := func(i int) string {
		if i < nEmptyLook {
			info.retract++
		} else {
			info.keep++
		}
		return lookalikes[i]
	}
	if p.Variant < 24 {
		// hand-made: exactly one retractable member holding one of the empty spellings at
		// one of four positions; every other slow-path member holds a value that stays
		e := int(p.Variant) % nEmptyLook
		pos := int(p.Variant) / nEmptyLook
		d.B0, d.B1, d.C1, d.B2 = mj(`0`), mj(`1`), mt(`2`), mj(`3`)
		d.E1.X = "v"
		d.T1 = "t"
		d.K1 = 2
		switch pos {
		case 0:
			d.A0 = jsontext.Value(look(e))
		case 1:
			d.A1 = jsontext.Value(look(e))
		case 2:
			d.A3 = jsontext.Value(look(e))
		case 3:
			d.A4 = jsontext.Value(look(e))
		}
		return d, info
	}
	r := rand.New(rand.NewPCG(uint64(p.Variant), 0xc07))
	pick := func() string { return look(r.IntN(len(lookalikes))) }
	val := func() jsontext.Value {
		if r.IntN(4) == 0 {
			return nil
		}
		return jsontext.Value(pick())
	}
	d.A0, d.A1, d.A2, d.A3, d.A4 = val(), val(), val(), val(), val()
	d.B0, d.B1, d.B2 = mj(pick()), mj(pick()), mj(pick())
	d.C1 = mt(pick())
	if r.IntN(2) == 0 {
		d.E1.X = "v"
	} else {
		info.retract++
	}
	switch r.IntN(3) {
	case 1:
		d.P1 = &[]int{}
		info.retract++
	case 2:
		d.P1 = &[]int{1}
	}
	switch r.IntN(6) {
	case 1:
		d.I1 = map[string]any{}
		info.retract++
	case 2:
		d.I1 = []any{}
		info.retract++
	case 3:
		d.I1 = ""
		info.retract++
	case 4:
		d.I1 = "x\""
	case 5:
		d.I1 = []any{[]any{}}
	}
	if r.IntN(2) == 0 {
		d.T1 = "t"
	} else {
		info.retract++
	}
	d.K1 = mtoks(r.IntN(6))
	if d.K1 == 2 || d.K1 == 3 {
		info.keep++
	} else {
		info.retract++
	}
	if r.IntN(3) == 0 {
		d.L = make([]int, r.IntN(40))
		for i := range d.L {
			d.L[i] = i * 37
		}
	}
	if r.IntN(3) == 0 {
		d.M = map[string]string{}
		for i := r.IntN(6); i > 0; i-- {
			d.M[fmt.Sprint("k", i)] = pad(r.IntN(30), 'm', "")
		}
	}
	if r.IntN(3) == 0 {
		d.Z = map[int]mj{}
		for i := r.IntN(5); i > 0; i-- {
			d.Z[i*7] = mj(lookalikes[r.IntN(len(lookalikes))])
		}
	}
	if p.Nest > 0 {
		sub, si := buildDoc(docParams{L: p.L / 3, Mid: p.Mid / 2, Post: p.Post, Variant: p.Variant*31 + 24 + uint32(p.Nest), Nest: p.Nest - 1})
		// a nested document made only of retracted members becomes {} and is retracted itself
		if r.IntN(4) == 0 {
			sub = &Doc{A1: jsontext.Value(`[]`), B0: `null`, B1: `""`, C1: `{}`, B2: ` [ ] `, K1: 1}
			sub.N = 0
			si = docInfo{retract: 9}
		}
		d.Sub = sub
		info.retract += si.retract
		info.keep += si.keep
	}
	return d, info
}

// singleEntryMaps trims every map to one entry: without Deterministic the member order
// of a larger map is unspecified, so two encodings of it need not be equal.
func singleEntryMaps(d *Doc) {
	for d != nil {
		for k := range d.M {
			if len(d.M) > 1 {
				delete(d.M, k)
			}
		}
		for k := range d.Z {
			if len(d.Z) > 1 {
				delete(d.Z, k)
			}
		}
		d = d.Sub
	}
}

// ---------------------------------------------------------------------------------
// homogeneous arrays: the scalar / empty-container fast paths of the marshalers end in
// "if NeedFlush { Flush }" and are only reached by streaming many small elements.

func buildArray(kind string, n int) any {
	switch kind {
	case "ints":
		v := make([]int, n)
		for i := range v {
			v[i] = i*7919 - 40000
		}
		return v
	case "uints":
		v := make([]uint16, n)
		for i := range v {
			v[i] = uint16(i * 31)
		}
		return v
	case "bools":
		v := make([]bool, n)
		for i := range v {
			v[i] = i%3 == 0
		}
		return v
	case "floats":
		v := make([]float64, n)
		for i := range v {
			v[i] = float64(i) / 8
		}
		return v
	case "float32s":
		v := make([]float32, n)
		for i := range v {
			v[i] = float32(i) * 0.1
		}
		return v
	case "strings":
		v := make([]string, n)
		for i := range v {
			v[i] = pad(i%5, 's', "")
		}
		return v
	case "emptyslices":
		v := make([][]int, n)
		for i := range v {
			v[i] = []int{}
		}
		return v
	case "emptymaps":
		v := make([]map[string]int, n)
		for i := range v {
			v[i] = map[string]int{}
		}
		return v
	case "any":
		v := make([]any, n)
		for i := range v {
			switch i % 7 {
			case 0:
				v[i] = true
			case 1:
				v[i] = "s"
			case 2:
				v[i] = float64(i)
			case 3:
				v[i] = nil
			case 4:
				v[i] = map[string]any{}
			case 5:
				v[i] = []any{}
			default:
				v[i] = ""
			}
		}
		return v
	case "anymap":
		v := map[string]any{}
		for i := 0; i < n; i++ {
			switch i % 4 {
			case 0:
				v[fmt.Sprint("k", i)] = []any{}
			case 1:
				v[fmt.Sprint("k", i)] = map[string]any{}
			case 2:
				v[fmt.Sprint("k", i)] = float64(i)
			default:
				v[fmt.Sprint("k", i)] = ""
			}
		}
		return v
	case "structs":
		type el struct {
			A int    `json:"a"`
			B string `json:"b,omitempty"`
			C mj     `json:"c,omitempty"`
		}
		v := make([]el, n)
		for i := range v {
			v[i] = el{A: i, C: mj(lookalikes[i%len(lookalikes)])}
		}
		return v
	case "intmap":
		v := map[int]bool{}
		for i := 0; i < n; i++ {
			v[i*13] = i%2 == 0
		}
		return v
	case "docs":
		v := make([]*Doc, n)
		for i := range v {
			v[i], _ = buildDoc(docParams{L: i % 50, Variant: uint32(i % 40)})
		}
		return v
	}
	panic("unknown array kind " + kind)
}

var arrayKinds = []string{"ints", "uints", "bools", "floats", "float32s", "strings", "emptyslices", "emptymaps", "any", "anymap", "structs", "intmap", "docs"}

// marshal option sets (index is part of the case description)
type optSet struct {
	name string
	opts []json.Options
}

var optSets = []optSet{
	{"default", nil},
	{"deterministic", []json.Options{json.Deterministic(true)}},
	{"multiline", []json.Options{jsontext.Multiline(true), json.Deterministic(true)}},
	{"spaces", []json.Options{jsontext.SpaceAfterColon(true), jsontext.SpaceAfterComma(true), json.Deterministic(true)}},
	{"indent", []json.Options{jsontext.WithIndent("  "), jsontext.WithIndentPrefix(" "), jsontext.SpaceAfterComma(true), json.Deterministic(true)}},
	{"html", []json.Options{jsontext.EscapeForHTML(true), json.Deterministic(true)}},
}

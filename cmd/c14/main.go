// C14 — Unmarshal merges JSON objects into existing values and replaces everything else.
//
// Law (relational, as the property states it): for a chain j1..jk unmarshaled successively into
// one Go variable starting from the zero value, whenever every step succeeds the variable is
// DeepEqual to a fresh variable that received serialize(merge(j1..jk)), where merge is the
// reference's recursive object union (ref.Merge).  Direct clauses are checked on the same runs
// against a deep snapshot taken before each step.
package main

import (
	stdjson "encoding/json"
	"fmt"
	"reflect"
	"sort"
	"strconv"
	"strings"

	json "github.com/go-json-experiment/json"
	"github.com/go-json-experiment/json/jsontext"
	jsonv1 "github.com/go-json-experiment/json/v1"

	"verif/gen"
	"verif/ref"
	"verif/run"
)

// ---- a few declared types (recursion, named maps/slices/keys, Go embedding, fallback)

type Rec struct {
	V    int
	Next *Rec
	Kids []Rec
	M    map[string]*Rec
	I    any
}
type NMap map[string]int
type NSlice []string
type SKey string
type Emb struct {
	X int
	Y []int
}
type PEmb struct {
	P string
	Q map[string]int
}
type Outer struct {
	Emb
	*PEmb
	Z map[SKey]Emb
	W int `json:"w"`
}
type FB struct {
	A    int
	S    []Emb
	Rest map[string]any `json:",embed"`
}
type FBT struct {
	A    *Emb
	Rest map[SKey]Emb `json:",embed"`
}

var env = gen.TypeEnv{
	"Rec": reflect.TypeFor[Rec](), "NMap": reflect.TypeFor[NMap](), "NSlice": reflect.TypeFor[NSlice](),
	"SKey": reflect.TypeFor[SKey](), "Emb": reflect.TypeFor[Emb](), "Outer": reflect.TypeFor[Outer](),
	"FB": reflect.TypeFor[FB](), "FBT": reflect.TypeFor[FBT](),
}

var namedLeaves = []string{"Rec", "NMap", "NSlice", "Emb", "Outer", "FB", "FBT"}

type chainArgs struct {
	Type   string   `json:"type"`
	Texts  []string `json:"texts"`
	Route  string   `json:"route"`   // unmarshal | read | stream
	AnyLen bool     `json:"any_len"` // UnmarshalArrayFromAnyLength
	// Mix: option mixes under which the merge semantics must be the documented v2 ones although other legacy
	// behaviour is switched on: "legacy-errors" = ReportErrorsWithLegacySemantics(true);
	// "v1-but-v2-merge" = DefaultOptionsV1 + MergeWithLegacySemantics(false); "explicit-v2-merge" = MergeWithLegacySemantics(false)
	Mix string `json:"mix,omitempty"`
}

// ---- deep snapshot

func deepCopy(src reflect.Value) reflect.Value {
	dst := reflect.New(src.Type()).Elem()
	copyInto(dst, src)
	return dst
}

func copyInto(dst, src reflect.Value) {
	switch src.Kind() {
	case reflect.Pointer:
		if src.IsNil() {
			return
		}
		dst.Set(reflect.New(src.Type().Elem()))
		copyInto(dst.Elem(), src.Elem())
	case reflect.Interface:
		if src.IsNil() {
			return
		}
		dst.Set(deepCopy(src.Elem()))
	case reflect.Slice:
		if src.IsNil() {
			return
		}
		dst.Set(reflect.MakeSlice(src.Type(), src.Len(), src.Len()))
		for i := 0; i < src.Len(); i++ {
			copyInto(dst.Index(i), src.Index(i))
		}
	case reflect.Array:
		for i := 0; i < src.Len(); i++ {
			copyInto(dst.Index(i), src.Index(i))
		}
	case reflect.Map:
		if src.IsNil() {
			return
		}
		dst.Set(reflect.MakeMapWithSize(src.Type(), src.Len()))
		for it := src.MapRange(); it.Next(); {
			dst.SetMapIndex(deepCopy(it.Key()), deepCopy(it.Value()))
		}
	case reflect.Struct:
		for i := 0; i < src.NumField(); i++ {
			copyInto(dst.Field(i), src.Field(i))
		}
	default:
		dst.Set(src)
	}
}

// fieldAt follows a field index through embedded pointers; a nil pointer on the way yields
// the zero value of the field's type.
func fieldAt(v reflect.Value, index []int) reflect.Value {
	for k, i := range index {
		if v.Kind() == reflect.Pointer {
			if v.IsNil() {
				t := v.Type().Elem()
				for _, j := range index[k:] {
					if t.Kind() == reflect.Pointer {
						t = t.Elem()
					}
					t = t.Field(j).Type
				}
				return reflect.Zero(t)
			}
			v = v.Elem()
		}
		v = v.Field(i)
	}
	return v
}

func keyOf(kt reflect.Type, name string) (reflect.Value, bool) {
	k := reflect.New(kt).Elem()
	switch kt.Kind() {
	case reflect.String:
		k.SetString(name)
	case reflect.Int, reflect.Int8, reflect.Int16, reflect.Int32, reflect.Int64:
		n, err := strconv.ParseInt(name, 10, 64)
		if err != nil {
			return k, false
		}
		k.SetInt(n)
	case reflect.Uint, reflect.Uint8, reflect.Uint16, reflect.Uint32, reflect.Uint64:
		n, err := strconv.ParseUint(name, 10, 64)
		if err != nil {
			return k, false
		}
		k.SetUint(n)
	default:
		return k, false
	}
	return k, true
}

// ---- direct clauses

type checker struct {
	w      *run.W
	events map[string]bool
	typ    string
	step   int
}

func (c *checker) ev(name string) {
	c.events[name] = true
	c.w.Count("ev_"+name, 1)
}

func (c *checker) bad(sub, clause, path string, format string, a ...any) {
	c.w.Violate(sub, map[string]string{"clause": clause},
		"type %s step %d at %s: %s", c.typ, c.step+1, path, fmt.Sprintf(format, a...))
}

// direct checks the clauses of the property that speak about one step: before is the
// snapshot taken before the step, after the live value, n the tree of the step's text.
func (c *checker) direct(t reflect.Type, before, after reflect.Value, n *ref.Node, path string) {
	if n.Kind == ref.Null {
		if !before.IsZero() {
			c.ev("null_over_nonzero")
		}
		if !after.IsZero() {
			c.bad("direct-clause", "null-zeroes", path, "JSON null left a non-zero value %#v", after.Interface())
		}
		return
	}
	switch t.Kind() {
	case reflect.Pointer:
		if after.IsNil() {
			c.bad("direct-clause", "pointer-nil-after-value", path, "pointer is nil after a non-null value")
			return
		}
		b := reflect.Zero(t.Elem())
		if !before.IsNil() {
			c.ev("ptr_reused")
			b = before.Elem()
		} else {
			c.ev("ptr_alloc")
		}
		c.direct(t.Elem(), b, after.Elem(), n, path)
	case reflect.Interface:
		if before.IsNil() || after.IsNil() {
			return
		}
		be, ae := before.Elem(), after.Elem()
		if n.Kind == ref.Object && be.Kind() == reflect.Map && ae.Kind() == reflect.Map && be.Type() == ae.Type() {
			c.ev("any_merge_map")
			c.direct(be.Type(), be, ae, n, path)
		} else if be.Type() == ae.Type() && (be.Kind() == reflect.Pointer || be.Kind() == reflect.Struct || be.Kind() == reflect.Slice || be.Kind() == reflect.Array) {
			// (only a caller can have put these into an interface: held.go)
			c.ev("any_held_" + be.Kind().String())
			c.direct(be.Type(), be, ae, n, path)
		} else {
			c.ev("any_replace")
		}
	case reflect.Slice:
		if n.Kind != ref.Array {
			return
		}
		switch bl, nl := before.Len(), len(n.Elems); {
		case bl == 0:
		case nl < bl:
			c.ev("slice_shrink")
		case nl > bl:
			c.ev("slice_grow")
		default:
			c.ev("slice_same_len")
		}
		if before.Len() > 0 && len(n.Elems) > 0 && !before.Index(0).IsZero() {
			c.ev("slice_stale_elem")
		}
		if after.Len() != len(n.Elems) {
			c.bad("direct-clause", "slice-exact", path, "slice has %d elements after an array of %d", after.Len(), len(n.Elems))
			return
		}
		if after.IsNil() {
			c.bad("direct-clause", "slice-exact", path, "slice is nil after a JSON array")
		}
		z := reflect.Zero(t.Elem())
		for i, e := range n.Elems {
			c.direct(t.Elem(), z, after.Index(i), e, fmt.Sprintf("%s/%d", path, i))
		}
	case reflect.Array:
		if n.Kind != ref.Array {
			return
		}
		z := reflect.Zero(t.Elem())
		for i := 0; i < t.Len(); i++ {
			if i < len(n.Elems) {
				c.direct(t.Elem(), z, after.Index(i), n.Elems[i], fmt.Sprintf("%s/%d", path, i))
				continue
			}
			c.ev("array_short")
			if !before.Index(i).IsZero() {
				c.ev("array_short_over_nonzero")
			}
			if !after.Index(i).IsZero() {
				c.bad("direct-clause", "array-zero-fill", path, "element %d is %#v after an array of %d elements", i, after.Index(i).Interface(), len(n.Elems))
			}
		}
	case reflect.Map:
		if n.Kind != ref.Object {
			return
		}
		c.mapClause(t, before, after, n.Members, path)
	case reflect.Struct:
		if n.Kind != ref.Object {
			return
		}
		ms, fb := gen.Members(t, nil)
		byName := map[string]*ref.Node{}
		for _, m := range n.Members {
			byName[m.Name] = m.Value
		}
		known := map[string]bool{}
		for _, m := range ms {
			known[m.Name] = true
			bf, af := fieldAt(before, m.Index), fieldAt(after, m.Index)
			p := path + "/" + m.Name
			if v, ok := byName[m.Name]; ok {
				if !bf.IsZero() {
					c.ev("struct_member_over_nonzero")
				}
				c.direct(m.Type, bf, af, v, p)
				continue
			}
			if !bf.IsZero() {
				c.ev("struct_kept_nonzero")
			}
			if !reflect.DeepEqual(bf.Interface(), af.Interface()) {
				c.bad("direct-clause", "struct-field-kept", p, "field not mentioned in the input changed from %#v to %#v", bf.Interface(), af.Interface())
			}
		}
		if fb != nil && fb.Type.Kind() == reflect.Map {
			var unk []ref.Member
			for _, m := range n.Members {
				if !known[m.Name] {
					unk = append(unk, m)
				}
			}
			bf, af := fieldAt(before, fb.Index), fieldAt(after, fb.Index)
			if len(unk) > 0 {
				c.ev("fallback_members")
			}
			c.mapClause(fb.Type, bf, af, unk, path+"/<fallback>")
		}
	}
}

func (c *checker) mapClause(t reflect.Type, before, after reflect.Value, members []ref.Member, path string) {
	mentioned := reflect.MakeMap(reflect.MapOf(t.Key(), reflect.TypeFor[bool]()))
	z := reflect.Zero(t.Elem())
	for _, m := range members {
		k, ok := keyOf(t.Key(), m.Name)
		if !ok {
			return // key kind outside the clause's model
		}
		mentioned.SetMapIndex(k, reflect.ValueOf(true))
		av := after.MapIndex(k)
		p := path + "/" + m.Name
		if !av.IsValid() {
			c.bad("direct-clause", "map-entry-stored", p, "member is missing from the map after the step")
			continue
		}
		b := z
		if before.IsValid() && !before.IsNil() {
			if bv := before.MapIndex(k); bv.IsValid() {
				c.ev("map_merge_existing")
				b = bv
			}
		}
		// the value inside a map is not addressable: work on a copy
		c.direct(t.Elem(), b, av, m.Value, p)
	}
	if before.IsValid() && !before.IsNil() {
		for it := before.MapRange(); it.Next(); {
			if mentioned.MapIndex(it.Key()).IsValid() {
				continue
			}
			c.ev("map_kept")
			av := after.MapIndex(it.Key())
			if !av.IsValid() || !reflect.DeepEqual(av.Interface(), it.Value().Interface()) {
				c.bad("direct-clause", "map-entry-kept", fmt.Sprintf("%s/%v", path, it.Key()), "entry not mentioned in the input changed from %#v", it.Value().Interface())
			}
		}
	}
	if len(members) > 0 || (before.IsValid() && !before.IsNil()) {
		for it := after.MapRange(); it.Next(); {
			inBefore := before.IsValid() && !before.IsNil() && before.MapIndex(it.Key()).IsValid()
			if !inBefore && !mentioned.MapIndex(it.Key()).IsValid() {
				c.bad("direct-clause", "map-extra-entry", fmt.Sprintf("%s/%v", path, it.Key()), "entry appeared that is neither old nor in the input")
			}
		}
	}
}

// ---- the chain executor

func runChain(w *run.W, a *chainArgs) {
	t, err := gen.ParseType(a.Type, env)
	if err != nil {
		w.Broken("bad type expression: %v", err)
		return
	}
	var opts []json.Options
	if a.AnyLen {
		opts = append(opts, jsonv1.UnmarshalArrayFromAnyLength(true))
	}
	switch a.Mix {
	case "legacy-errors":
		opts = append(opts, jsonv1.ReportErrorsWithLegacySemantics(true))
	case "explicit-v2-merge":
		opts = append(opts, jsonv1.MergeWithLegacySemantics(false))
	case "legacy-calls+v2-merge":
		opts = append(opts, jsonv1.CallMethodsWithLegacySemantics(true), jsonv1.ReportErrorsWithLegacySemantics(true), jsonv1.MergeWithLegacySemantics(false))
	}
	p := reflect.New(t)
	var dec *jsontext.Decoder
	if a.Route == "stream" {
		dec = jsontext.NewDecoder(strings.NewReader(strings.Join(a.Texts, "\n")))
	}
	ck := &checker{w: w, events: map[string]bool{}, typ: a.Type}
	var acc *ref.Node
	w.Eval(1)
	w.Count("chains", 1)
	for k, j := range a.Texts {
		n := ref.Parse([]byte(j), ref.Opts{})
		if n == nil {
			w.Broken("generated text is not valid JSON: %s", j)
			return
		}
		snap := deepCopy(p.Elem())
		var err error
		switch a.Route {
		case "stream":
			err = json.UnmarshalDecode(dec, p.Interface(), opts...)
		case "read":
			err = json.UnmarshalRead(strings.NewReader(j), p.Interface(), opts...)
		default:
			err = json.Unmarshal([]byte(j), p.Interface(), opts...)
		}
		if err != nil {
			if k == 0 {
				w.Count("first_step_failed", 1)
			} else {
				w.Count("later_step_failed", 1)
			}
			break
		}
		ck.step = k
		ck.direct(t, snap, p.Elem(), n, "")
		acc = ref.Merge(acc, n)
		if k == 0 {
			continue
		}
		w.Count("steps_compared", 1)
		w.Count(fmt.Sprintf("compared_at_len_%d", k+1), 1)
		merged := ref.Serialize(acc)
		q := reflect.New(t)
		if err := json.Unmarshal(merged, q.Interface(), opts...); err != nil {
			w.Violate("merged-text-rejected", map[string]string{"route": a.Route},
				"type %s: steps 1..%d succeeded one after the other but the merged text %s is rejected: %v", a.Type, k+1, merged, err)
			break
		}
		if !reflect.DeepEqual(p.Elem().Interface(), q.Elem().Interface()) {
			w.Violate("merge-law", map[string]string{"route": a.Route, "kind": t.Kind().String()},
				"type %s after %d steps %q:\n sequential = %s\n merged text %s\n one-shot   = %s",
				a.Type, k+1, a.Texts[:k+1], dump(p.Elem()), merged, dump(q.Elem()))
			break
		}
	}
	if len(ck.events) > 0 {
		evs := make([]string, 0, len(ck.events))
		for e := range ck.events {
			evs = append(evs, e)
		}
		sort.Strings(evs)
		w.Shape(a.Type + "|" + strings.Join(evs, ","))
	}
}

// dump renders a value for messages (classic encoding/json, not the library under test).
func dump(v reflect.Value) string {
	b, err := stdjson.Marshal(v.Interface())
	if err != nil {
		return fmt.Sprintf("%#v", v.Interface())
	}
	return string(b)
}

var M = &run.Monitor{
	ID:    "C14",
	Level: "exploration",
	Rule: "chains j1..jk (k=2..4) of texts fitted to a generated type (structs, maps with string/int/named keys, pointers, slices, arrays, any, scalars, " +
		"declared recursive/embedded/fallback types; depth <= 4) with nulls, missing and unknown members and every JSON kind at any-positions; three routes " +
		"(Unmarshal, UnmarshalRead, UnmarshalDecode on one stream); each successful step is checked against the direct clauses on a deep snapshot and, from step 2 on, " +
		"against Unmarshal(serialize(ref.Merge(j1..jk))) into a fresh zero value; held: interface slots (any, field, map value, element, behind a pointer) that the caller populated with " +
		"pointers, pointers to pointers, structs, typed maps/slices/arrays receive null / fitting / unfitting texts and each successful step is checked against the direct clauses. distinct = type expression x set of merge events observed in the chain",
	Assumptions: []string{
		"ref.Merge/ref.Serialize (self-tested each run against a map-level merge over the toolchain's encoding/json)",
		"the right-hand side of the law is computed by the library itself (the property is relational); reflect.DeepEqual is the equality",
		"jsontext.Value targets are outside 'merge-capable types' (they keep raw text) and are not generated",
	},
	Floors: func(c map[string]int64, tier string) []string {
		var u []string
		need := func(k string, n int64) {
			if c[k] < n {
				u = append(u, fmt.Sprintf("%s=%d < %d", k, c[k], n))
			}
		}
		need("steps_compared", 20000)
		need("compared_at_len_4", 1000)
		need("held_steps_checked", 2000)
		need("held_null_steps", 500)
		need("ev_any_held_ptr", 300)
		for _, e := range []string{"null_over_nonzero", "ptr_reused", "any_merge_map", "any_replace", "slice_shrink", "slice_grow", "slice_stale_elem",
			"array_short", "array_short_over_nonzero", "map_merge_existing", "map_kept", "struct_kept_nonzero", "struct_member_over_nonzero", "fallback_members"} {
			need("ev_"+e, 100)
		}
		// "whenever it succeeds": the kept fraction must stay high (probe: 95 %)
		if later := c["steps_compared"] + c["later_step_failed"]; later > 0 && c["steps_compared"]*100 < later*60 {
			u = append(u, fmt.Sprintf("only %d of %d later steps reached the comparison (< 60%%)", c["steps_compared"], later))
		}
		return u
	},
	SelfTest: selfTest,
}

// selfTest: ref.Merge + ref.Serialize against a map-level merge over encoding/json values.
func selfTest() error {
	r := run.SelfRand(14)
	cfg := &gen.FitCfg{MaxElems: 4, EscapePct: 20}
	var goMerge func(a, b any) any
	goMerge = func(a, b any) any {
		am, ok1 := a.(map[string]any)
		bm, ok2 := b.(map[string]any)
		if !ok1 || !ok2 {
			return b
		}
		out := map[string]any{}
		for k, v := range am {
			out[k] = v
		}
		for k, v := range bm {
			if old, ok := out[k]; ok {
				out[k] = goMerge(old, v)
			} else {
				out[k] = v
			}
		}
		return out
	}
	for i := 0; i < 5000; i++ {
		var acc *ref.Node
		var want any
		for k := 0; k < 2+r.IntN(3); k++ {
			var sb strings.Builder
			kind := -1
			if r.IntN(3) > 0 {
				kind = 5
			}
			gen.FitAny(r, cfg, &sb, 3, kind)
			var v any
			if err := stdjson.Unmarshal([]byte(sb.String()), &v); err != nil {
				return fmt.Errorf("generator produced invalid JSON %q: %v", sb.String(), err)
			}
			n := ref.Parse([]byte(sb.String()), ref.Opts{})
			if n == nil {
				return fmt.Errorf("reference parser rejects %q", sb.String())
			}
			if k == 0 {
				acc, want = ref.Merge(nil, n), v
			} else {
				acc, want = ref.Merge(acc, n), goMerge(want, v)
			}
			var got any
			if err := stdjson.Unmarshal(ref.Serialize(acc), &got); err != nil {
				return fmt.Errorf("ref.Serialize produced invalid JSON %q: %v", ref.Serialize(acc), err)
			}
			if !reflect.DeepEqual(got, want) {
				return fmt.Errorf("ref.Merge disagrees with the map-level merge: got %v want %v", got, want)
			}
		}
	}
	// deepCopy must produce equal, unshared values
	x := &Rec{V: 1, Kids: []Rec{{V: 2}}, M: map[string]*Rec{"a": {V: 3}}, I: map[string]any{"k": []any{1.0}}}
	y := deepCopy(reflect.ValueOf(x)).Interface().(*Rec)
	if !reflect.DeepEqual(x, y) {
		return fmt.Errorf("deepCopy is not DeepEqual")
	}
	x.Kids[0].V, x.M["a"].V = 9, 9
	x.I.(map[string]any)["k"].([]any)[0] = 9.0
	if y.Kids[0].V != 2 || y.M["a"].V != 3 || y.I.(map[string]any)["k"].([]any)[0] != 1.0 {
		return fmt.Errorf("deepCopy shares memory with its source")
	}
	return nil
}

func main() {
	run.Def(M, "chain", runChain)
	run.Def(M, "held", runHeld)
	M.Gen = generate
	run.Main(M)
}

func generate(w *run.W) {
	generateHeld(w)
	nb := w.Pick(4000, 16000)
	for b := 0; b < nb; b++ {
		if !w.Mine(b) {
			continue
		}
		r := w.Rand("chain", b)
		tc := &gen.TypeCfg{MaxDepth: 2 + r.IntN(3), Named: namedLeaves, NamedPct: 8, Fallback: true,
			Leaves:  []string{"int", "string", "bool", "any", "float64", "any", "any", "map[string]any", "[]uint8", "[4]uint8", "uint8"},
			MapKeys: []string{"string", "string", "string", "int", "SKey", "uint8"}}
		for i := 0; i < 100; i++ {
			a := &chainArgs{Type: gen.RandType(r, tc, 0), Route: [...]string{"unmarshal", "unmarshal", "read", "stream"}[r.IntN(4)], AnyLen: r.IntN(4) == 0,
				Mix: [...]string{"", "", "", "legacy-errors", "explicit-v2-merge", "legacy-calls+v2-merge"}[r.IntN(6)]}
			t := gen.MustParseType(a.Type, env)
			fc := &gen.FitCfg{NullPct: 8, MissingPct: 35, UnknownPct: 15, EscapePct: 5, MaxAny: 3, MaxElems: 3, ShortArray: a.AnyLen, Env: env}
			for k := 2 + r.IntN(3); k > 0; k-- {
				a.Texts = append(a.Texts, gen.Fit(r, t, fc))
			}
			w.Do("chain", a)
			if w.WantSample() && len(a.Type) > 20 {
				w.Sample(a)
			}
		}
	}
}

package main

// Interface destinations that the CALLER populated: JSON input alone only ever leaves
// map[string]any, []any, string, float64 and bool in an interface, so the chains never see an
// interface that holds a pointer, a pointer to a pointer, a struct or a typed map.  The clauses
// "a JSON null zeroes its destination", "fields / entries not mentioned are kept", "a slice holds
// exactly the new elements" speak about every destination; here the destination is an interface
// slot holding one of those, and the direct-clause checker runs over each step.

import (
	"fmt"
	"reflect"
	"strings"

	"github.com/go-json-experiment/json"
	"github.com/go-json-experiment/json/jsontext"
	jsonv1 "github.com/go-json-experiment/json/v1"

	"verif/gen"
	"verif/ref"
	"verif/run"
)

type heldArgs struct {
	Dest   string   `json:"dest"`   // any | field | mapval | elem | ptr
	Holder string   `json:"holder"` // what the interface holds before the first step
	Texts  []string `json:"texts"`  // texts for the slot (wrapped to fit Dest by the harness)
	Route  string   `json:"route"`
	Mix    string   `json:"mix,omitempty"`
}

type heldDest struct {
	A int
	V any
	W []int
}

var holders = []string{"**Rec", "*Rec", "**int", "*map[string]int", "*[]int", "*any", "Rec", "*string", "NMap", "[]int", "***Emb", "*Outer", "map[string]*Rec", "*[2]int", "Emb"}

// holderValue builds a non-zero value of the holder type; elem is the type a JSON text has to fit.
func holderValue(h string) (v reflect.Value, elem reflect.Type) {
	rec := func() *Rec { return &Rec{V: 7, Next: &Rec{V: 8}, Kids: []Rec{{V: 9}}, M: map[string]*Rec{"k": {V: 10}}, I: "s"} }
	switch h {
	case "**Rec":
		p := rec()
		return reflect.ValueOf(&p), reflect.TypeFor[Rec]()
	case "*Rec":
		return reflect.ValueOf(rec()), reflect.TypeFor[Rec]()
	case "Rec":
		return reflect.ValueOf(*rec()), reflect.TypeFor[Rec]()
	case "**int":
		i := 5
		p := &i
		return reflect.ValueOf(&p), reflect.TypeFor[int]()
	case "*map[string]int":
		m := map[string]int{"a": 1, "b": 2}
		return reflect.ValueOf(&m), reflect.TypeFor[map[string]int]()
	case "*[]int":
		s := []int{1, 2, 3}
		return reflect.ValueOf(&s), reflect.TypeFor[[]int]()
	case "*any":
		var a any = map[string]any{"a": 1.0, "m": map[string]any{"x": true}}
		return reflect.ValueOf(&a), reflect.TypeFor[any]()
	case "*string":
		s := "held"
		return reflect.ValueOf(&s), reflect.TypeFor[string]()
	case "NMap":
		return reflect.ValueOf(NMap{"a": 1, "z": 26}), reflect.TypeFor[NMap]()
	case "[]int":
		return reflect.ValueOf([]int{4, 5, 6, 7}), reflect.TypeFor[[]int]()
	case "***Emb":
		e := &Emb{X: 1, Y: []int{2}}
		p := &e
		return reflect.ValueOf(&p), reflect.TypeFor[Emb]()
	case "*Outer":
		return reflect.ValueOf(&Outer{Emb: Emb{X: 3, Y: []int{1}}, PEmb: &PEmb{P: "p", Q: map[string]int{"q": 1}}, Z: map[SKey]Emb{"z": {X: 1}}, W: 2}), reflect.TypeFor[Outer]()
	case "map[string]*Rec":
		return reflect.ValueOf(map[string]*Rec{"a": rec(), "b": nil}), reflect.TypeFor[map[string]*Rec]()
	case "*[2]int":
		return reflect.ValueOf(&[2]int{8, 9}), reflect.TypeFor[[2]int]()
	case "Emb":
		return reflect.ValueOf(Emb{X: 4, Y: []int{5, 6}}), reflect.TypeFor[Emb]()
	}
	return reflect.Value{}, nil
}

func runHeld(w *run.W, a *heldArgs) {
	hv, _ := holderValue(a.Holder)
	if !hv.IsValid() {
		w.Broken("unknown holder %q", a.Holder)
		return
	}
	var opts []json.Options
	switch a.Mix {
	case "legacy-errors":
		opts = append(opts, jsonv1.ReportErrorsWithLegacySemantics(true))
	case "explicit-v2-merge":
		opts = append(opts, jsonv1.MergeWithLegacySemantics(false))
	case "legacy-calls+v2-merge":
		opts = append(opts, jsonv1.CallMethodsWithLegacySemantics(true), jsonv1.ReportErrorsWithLegacySemantics(true), jsonv1.MergeWithLegacySemantics(false))
	}
	var p reflect.Value
	wrap := func(s string) string { return s }
	switch a.Dest {
	case "any":
		var x any = hv.Interface()
		p = reflect.ValueOf(&x)
	case "field":
		p = reflect.ValueOf(&heldDest{A: 1, V: hv.Interface(), W: []int{1}})
		wrap = func(s string) string { return `{"V":` + s + `}` }
	case "mapval":
		p = reflect.ValueOf(&map[string]any{"k": hv.Interface(), "other": 1.0})
		wrap = func(s string) string { return `{"k":` + s + `}` }
	case "elem":
		p = reflect.ValueOf(&[]any{hv.Interface()})
		wrap = func(s string) string { return `[` + s + `]` }
	case "ptr":
		var x any = hv.Interface()
		px := &x
		p = reflect.ValueOf(&px)
	default:
		w.Broken("unknown dest %q", a.Dest)
		return
	}
	t := p.Type().Elem()
	ck := &checker{w: w, events: map[string]bool{}, typ: a.Dest + "<-" + a.Holder}
	w.Eval(1)
	w.Count("held_chains", 1)
	var texts []string
	for _, s := range a.Texts {
		texts = append(texts, wrap(s))
	}
	var dec *jsontext.Decoder
	if a.Route == "stream" {
		dec = jsontext.NewDecoder(strings.NewReader(strings.Join(texts, "\n")))
	}
	for k, j := range texts {
		n := ref.Parse([]byte(j), ref.Opts{})
		if n == nil {
			w.Broken("generated text is not valid JSON: %s", j)
			return
		}
		snap := deepCopy(p.Elem())
		var err error
		switch a.Route {
		case "stream":
			err = json.UnmarshalDecode(dec, p.Interface(), opts...)
		case "read":
			err = json.UnmarshalRead(strings.NewReader(j), p.Interface(), opts...)
		default:
			err = json.Unmarshal([]byte(j), p.Interface(), opts...)
		}
		if err != nil {
			w.Count("held_step_failed", 1)
			break
		}
		ck.step = k
		ck.direct(t, snap, p.Elem(), n, "")
		w.Count("held_steps_checked", 1)
		if a.Texts[k] == "null" {
			w.Count("held_null_steps", 1)
		}
	}
	evs := make([]string, 0, len(ck.events))
	for e := range ck.events {
		evs = append(evs, e)
	}
	w.Shape(fmt.Sprintf("held|%s|%s|%d|%v", a.Dest, a.Holder, len(a.Texts), len(evs)))
}

func generateHeld(w *run.W) {
	nc := w.Pick(4000, 40000)
	for c := 0; c < nc; c++ {
		if !w.Mine(2_000_000 + c) {
			continue
		}
		r := w.Rand("held", c)
		a := &heldArgs{Dest: []string{"any", "field", "mapval", "elem", "ptr"}[r.IntN(5)], Holder: holders[r.IntN(len(holders))],
			Route: [...]string{"unmarshal", "unmarshal", "read", "stream"}[r.IntN(4)],
			Mix:   [...]string{"", "", "", "legacy-errors", "explicit-v2-merge", "legacy-calls+v2-merge"}[r.IntN(6)]}
		_, et := holderValue(a.Holder)
		fc := &gen.FitCfg{NullPct: 8, MissingPct: 35, UnknownPct: 15, EscapePct: 5, MaxAny: 3, MaxElems: 3, Env: env}
		for k := 1 + r.IntN(3); k > 0; k-- {
			switch r.IntN(5) {
			case 0:
				a.Texts = append(a.Texts, "null")
			case 1:
				a.Texts = append(a.Texts, []string{`1`, `"s"`, `{}`, `[]`, `true`, `{"a":null}`}[r.IntN(6)])
			default:
				a.Texts = append(a.Texts, gen.Fit(r, et, fc))
			}
		}
		w.Do("held", a)
	}
}

// C08 — ambiguous input is rejected by default: duplicate names (equal after unescaping, or
// resolving to the same struct field or map key) and ill-formed UTF-8; the permissive options
// make exactly these inputs acceptable and change nothing else.
//
// Every case carries its ground truth by construction: a clean text fitted to a generated
// type receives one planted ambiguity at a chosen object, and whether the two spellings
// collide is decided from the EFFECTIVE target at that object (typed struct / map by key
// kind / untyped below any, below a skipped unknown member, inside raw values or user
// unmarshalers).
package main

import (
	"bytes"
	stdjson "encoding/json"
	"fmt"
	"math"
	"math/rand/v2"
	"reflect"
	"slices"
	"strconv"
	"strings"
	"time"

	json "github.com/go-json-experiment/json"
	"github.com/go-json-experiment/json/jsontext"
	jsonv1 "github.com/go-json-experiment/json/v1"

	"verif/gen"
	"verif/ref"
	"verif/run"
)

// ---- declared target types

// TokReader consumes its value token by token.
type TokReader struct{ N int }

func (t *TokReader) UnmarshalJSONFrom(d *jsontext.Decoder) error {
	depth := d.StackDepth()
	for {
		if _, err := d.ReadToken(); err != nil {
			return err
		}
		t.N++
		if d.StackDepth() == depth {
			return nil
		}
	}
}

// ValTok consumes its value with Decoder.ReadValue.
type ValTok struct{ B string }

func (t *ValTok) UnmarshalJSONFrom(d *jsontext.Decoder) error {
	v, err := d.ReadValue()
	t.B = string(v)
	return err
}

// SkipTok consumes its value with Decoder.SkipValue.
type SkipTok struct{ K byte }

func (t *SkipTok) UnmarshalJSONFrom(d *jsontext.Decoder) error {
	t.K = byte(d.PeekKind())
	return d.SkipValue()
}

// ValReader receives the raw bytes.
type ValReader struct{ B string }

func (t *ValReader) UnmarshalJSON(b []byte) error { t.B = string(b); return nil }

// TextKey folds case in its text form, so "K1" and "k1" are one Go key.
type TextKey string

func (k *TextKey) UnmarshalText(b []byte) error { *k = TextKey(strings.ToLower(string(b))); return nil }
func (k TextKey) MarshalText() ([]byte, error)  { return []byte(strings.ToLower(string(k))), nil }

type SKey string

type KnownCI struct {
	K int `json:"k,case:ignore"`
	O int `json:"o"`
}
type FallMap struct {
	O int
	M map[string]any `json:",embed"`
}
type FallVal struct {
	O int
	V jsontext.Value `json:",embed"`
}
type FallNamed struct {
	O int
	M map[SKey]int `json:",embed"`
}
type Emb struct {
	X int `json:"x,case:ignore"`
	Y string
}
type Outer struct {
	Emb
	W map[string]Emb `json:"w"`
}

// TM returns its S verbatim as text.
type TM struct{ S string }

func (t TM) MarshalText() ([]byte, error) { return []byte(t.S), nil }

var rawValueType = reflect.TypeFor[jsontext.Value]()

var env = gen.TypeEnv{
	"value": rawValueType, "TokReader": reflect.TypeFor[TokReader](), "ValTok": reflect.TypeFor[ValTok](), "SkipTok": reflect.TypeFor[SkipTok](),
	"ValReader": reflect.TypeFor[ValReader](), "TextKey": reflect.TypeFor[TextKey](), "SKey": reflect.TypeFor[SKey](),
	"KnownCI": reflect.TypeFor[KnownCI](), "FallMap": reflect.TypeFor[FallMap](), "FallVal": reflect.TypeFor[FallVal](),
	"FallNamed": reflect.TypeFor[FallNamed](), "Outer": reflect.TypeFor[Outer](),
}

// readers are the declared types whose value is an untyped region named after them.
var readers = map[reflect.Type]string{
	reflect.TypeFor[TokReader](): "tokreader", reflect.TypeFor[ValTok](): "valtok", reflect.TypeFor[SkipTok](): "skiptok",
	reflect.TypeFor[ValReader](): "valreader", rawValueType: "raw",
}

// mergeCapable reports whether repeated unmarshaling into t follows the JSON-level merge
// (raw values and the reader types replace or accumulate instead).
func mergeCapable(t reflect.Type, seen map[reflect.Type]bool) bool {
	if _, ok := readers[t]; ok {
		return false
	}
	if seen[t] {
		return true
	}
	seen[t] = true
	switch t.Kind() {
	case reflect.Pointer, reflect.Slice, reflect.Array, reflect.Map:
		return mergeCapable(t.Elem(), seen)
	case reflect.Struct:
		for i := 0; i < t.NumField(); i++ {
			if !mergeCapable(t.Field(i).Type, seen) {
				return false
			}
		}
	}
	return true
}

// ---- typed walk: objects of the text with their effective target

type position struct {
	node   *ref.Node
	target string // struct | map-<keyclass> | any | skipped | raw | tokreader | valtok | skiptok | valreader | fbvalue
	depth  int
	ms     []gen.MemberInfo
	fb     *gen.MemberInfo
	elem   reflect.Type
	keyT   reflect.Type
}

func (p *position) untyped() bool {
	return p.target != "struct" && !strings.HasPrefix(p.target, "map-")
}

func keyClass(kt reflect.Type) string {
	if kt == reflect.TypeFor[TextKey]() {
		return "textkey"
	}
	switch kt.Kind() {
	case reflect.String:
		return "string"
	case reflect.Int, reflect.Int8, reflect.Int16, reflect.Int32, reflect.Int64:
		return "int"
	case reflect.Uint, reflect.Uint8, reflect.Uint16, reflect.Uint32, reflect.Uint64:
		return "uint"
	case reflect.Float32, reflect.Float64:
		return "float"
	}
	return "other"
}

func walk(t reflect.Type, n *ref.Node, region string, depth int, out *[]*position) {
	if region != "" {
		switch n.Kind {
		case ref.Object:
			*out = append(*out, &position{node: n, target: region, depth: depth})
			for _, m := range n.Members {
				walk(nil, m.Value, region, depth+1, out)
			}
		case ref.Array:
			for _, e := range n.Elems {
				walk(nil, e, region, depth+1, out)
			}
		}
		return
	}
	if n.Kind == ref.Null {
		return
	}
	if r, ok := readers[t]; ok {
		walk(nil, n, r, depth, out)
		return
	}
	switch t.Kind() {
	case reflect.Pointer:
		walk(t.Elem(), n, "", depth, out)
	case reflect.Interface:
		walk(nil, n, "any", depth, out)
	case reflect.Slice, reflect.Array:
		if n.Kind == ref.Array {
			for _, e := range n.Elems {
				walk(t.Elem(), e, "", depth+1, out)
			}
		}
	case reflect.Map:
		if n.Kind == ref.Object {
			*out = append(*out, &position{node: n, target: "map-" + keyClass(t.Key()), depth: depth, elem: t.Elem(), keyT: t.Key()})
			for _, m := range n.Members {
				walk(t.Elem(), m.Value, "", depth+1, out)
			}
		}
	case reflect.Struct:
		if n.Kind != ref.Object {
			return
		}
		ms, fb := gen.Members(t, rawValueType)
		*out = append(*out, &position{node: n, target: "struct", depth: depth, ms: ms, fb: fb})
		for _, m := range n.Members {
			var mt reflect.Type
			for _, mi := range ms {
				if mi.Name == m.Name {
					mt = mi.Type
				}
			}
			switch {
			case mt != nil:
				walk(mt, m.Value, "", depth+1, out)
			case fb == nil:
				walk(nil, m.Value, "skipped", depth+1, out)
			case fb.Type == rawValueType:
				walk(nil, m.Value, "fbvalue", depth+1, out)
			default:
				walk(fb.Type.Elem(), m.Value, "", depth+1, out)
			}
		}
	}
}

// compat reports whether b can be unmarshaled on top of a without a kind conflict at an
// untyped position (a non-nil interface holding a number cannot take an object, …).
func compat(t reflect.Type, a, b *ref.Node) bool {
	if a == nil || b == nil || a.Kind == ref.Null || b.Kind == ref.Null {
		return true
	}
	if t != nil {
		if _, ok := readers[t]; ok {
			return true
		}
	}
	if t == nil || t.Kind() == reflect.Interface {
		if a.Kind != b.Kind {
			return false
		}
		if a.Kind == ref.Object {
			for _, ma := range a.Members {
				for _, mb := range b.Members {
					if ma.Name == mb.Name && !compat(nil, ma.Value, mb.Value) {
						return false
					}
				}
			}
		}
		return true
	}
	switch t.Kind() {
	case reflect.Pointer:
		return compat(t.Elem(), a, b)
	case reflect.Map:
		if a.Kind != ref.Object || b.Kind != ref.Object {
			return true
		}
		for _, ma := range a.Members {
			for _, mb := range b.Members {
				if ma.Name == mb.Name && !compat(t.Elem(), ma.Value, mb.Value) {
					return false
				}
			}
		}
	case reflect.Struct:
		if a.Kind != ref.Object || b.Kind != ref.Object {
			return true
		}
		ms, fb := gen.Members(t, rawValueType)
		for _, ma := range a.Members {
			for _, mb := range b.Members {
				if ma.Name != mb.Name {
					continue
				}
				var mt reflect.Type
				known := false
				for _, mi := range ms {
					if mi.Name == ma.Name {
						mt, known = mi.Type, true
					}
				}
				if !known {
					if fb == nil || fb.Type == rawValueType {
						continue
					}
					mt = fb.Type.Elem()
				}
				if !compat(mt, ma.Value, mb.Value) {
					return false
				}
			}
		}
	}
	return true
}

// ---- case construction

type injArgs struct {
	Type   string `json:"type"`
	Base   string `json:"base"`             // clean text fitted to the type
	Text   []byte `json:"text"`             // text with the planted ambiguity (may hold ill-formed UTF-8)
	TextQ  string `json:"text_q"`           // the same, Go-quoted, for human readers
	Equiv  string `json:"equiv,omitempty"`  // clean text the permissive result must equal ("" = success only)
	Prepop string `json:"prepop,omitempty"` // text unmarshaled into the target beforehand
	Kind   string `json:"kind"`             // dup | utf8 | control
	Inj    string `json:"inj"`
	Target string `json:"target"`
	Depth  int    `json:"depth"`
	CI     bool   `json:"ci"` // MatchCaseInsensitiveNames(true)
}

type member struct{ name, value string } // raw literals

func rebuild(text string, root, obj *ref.Node, members []member) string {
	var sb strings.Builder
	sb.WriteString(text[:obj.Start])
	sb.WriteByte('{')
	for i, m := range members {
		if i > 0 {
			sb.WriteByte(',')
		}
		sb.WriteString(m.name + ":" + m.value)
	}
	sb.WriteByte('}')
	sb.WriteString(text[obj.End:])
	return sb.String()
}

// padObject adds unique extra members (value null) to one object of the text whose target accepts
// arbitrary string names: untyped positions, string-keyed maps, structs (unknown names are ignored
// or go to the fallback).  The existing members keep their relative order and end up after, before
// or around the padding.
func padObject(r *rand.Rand, text string, t reflect.Type, root *ref.Node) string {
	var ps []*position
	walk(t, root, "", 0, &ps)
	var ok []*position
	for _, p := range ps {
		if p.untyped() || p.target == "struct" || p.target == "map-string" {
			if p.target == "struct" && p.fb != nil && p.fb.Type != rawValueType && p.fb.Type.Elem().Kind() == reflect.Struct {
				continue // fallback elements that are structs: null is fine, but keep the walk simple
			}
			ok = append(ok, p)
		}
	}
	if len(ok) == 0 {
		return ""
	}
	p := ok[r.IntN(len(ok))]
	n, nameLen := 60+r.IntN(12), 8
	if r.IntN(3) == 0 {
		nameLen = 100 + r.IntN(80)
		n = 1024/nameLen - 2 + r.IntN(5)
	}
	var pad []member
	for i := 0; i < n; i++ {
		pad = append(pad, member{quoteName(fmt.Sprintf("zzpad%s%03d", strings.Repeat("p", nameLen-8), i)), "null"})
	}
	old := membersOf(text, p.node)
	var ms []member
	switch r.IntN(3) {
	case 0:
		ms = append(append(ms, pad...), old...)
	case 1:
		ms = append(append(ms, old...), pad...)
	default:
		k := r.IntN(len(pad) + 1)
		ms = append(append(append(ms, pad[:k]...), old...), pad[k:]...)
	}
	return rebuild(text, root, p.node, ms)
}

func membersOf(text string, obj *ref.Node) []member {
	var ms []member
	for _, m := range obj.Members {
		ms = append(ms, member{m.RawName, text[m.Value.Start:m.Value.End]})
	}
	return ms
}

func quoteName(s string) string { return ref.Quote(s, ref.QuoteOpts{}) }

// escapeVariant spells a name differently with the same meaning.
func escapeVariant(r *rand.Rand, name string) string {
	if name == "" {
		return `""` // no alternative spelling: falls back to the identical literal
	}
	rs := []rune(name)
	i := r.IntN(len(rs))
	var sb strings.Builder
	sb.WriteByte('"')
	for j, c := range rs {
		switch {
		case j == i && c < 0x10000:
			if r.IntN(2) == 0 {
				fmt.Fprintf(&sb, `\u%04x`, c)
			} else {
				fmt.Fprintf(&sb, `\u%04X`, c)
			}
		case j == i:
			c -= 0x10000
			fmt.Fprintf(&sb, `\u%04x\u%04X`, 0xd800+(c>>10), 0xdc00+(c&0x3ff))
		case c == '"' || c == '\\':
			sb.WriteByte('\\')
			sb.WriteRune(c)
		case c == '/' && r.IntN(2) == 0:
			sb.WriteString(`\/`)
		default:
			sb.WriteRune(c)
		}
	}
	sb.WriteByte('"')
	return sb.String()
}

// caseVariant returns a spelling that differs from name only by letter case or by added
// '_' / '-' (never name itself).
func caseVariant(r *rand.Rand, name string) string {
	var vs []string
	for _, v := range []string{strings.ToUpper(name), strings.ToLower(name), "_" + name, name + "-"} {
		if v != name {
			vs = append(vs, v)
		}
	}
	return vs[r.IntN(len(vs))]
}

var floatAlt = map[string]string{"0": "-0", "1": "1.0", "-1.5": "-15e-1", "100": "1e2", "0.25": "2.5e-1"}

var badBytes = []string{"\xff", "\xc3", "\xed\xa0\x80", "\xc0\x80", "\xf4\x90\x80\x80", `\ud800`, `\udc00\ud800`, `\uD83D`, "\xe2\x82"}

// built is the outcome of planting: the members of the object after injection, the members of
// its clean equivalent (nil = no value comparison), and for duplicates the object with only the
// first / only the second occurrence (under the first's name), which a pre-population must be
// compatible with.
type built struct {
	inj, equiv, t1, t2 []member
	hasNull            bool // a null inside the pair makes the JSON-level merge depend on grouping
}

type candidate struct {
	pos   *position
	inj   string
	kind  string // dup | utf8 | control
	build func(r *rand.Rand) built
	sub   string // refined target label
}

func fitCfg() *gen.FitCfg {
	return &gen.FitCfg{NullPct: 3, MissingPct: 15, UnknownPct: 30, EscapePct: 5, MaxAny: 3, MaxElems: 3, Env: env, RawValue: rawValueType,
		MapKeys: []string{"k1", "k2", "k3", "k4", "", "é", "a/b~c", "😀"},
		Custom: func(r *rand.Rand, t reflect.Type) (string, bool) {
			if _, ok := readers[t]; ok && t != rawValueType {
				var sb strings.Builder
				k := -1
				if r.IntN(3) > 0 {
					k = 5
				}
				gen.FitAny(r, &gen.FitCfg{MaxElems: 3, MapKeys: []string{"k1", "k2", "k3", "k4", "", "é"}}, &sb, 2, k)
				return sb.String(), true
			}
			return "", false
		}}
}

func fitAny(r *rand.Rand, kind int) string {
	var sb strings.Builder
	gen.FitAny(r, fitCfg(), &sb, 2, kind)
	return sb.String()
}

func parse(s string) *ref.Node { return ref.Parse([]byte(s), ref.Opts{}) }

// secondValue produces a value for the second occurrence of a member of type t (nil = untyped)
// that can be unmarshaled on top of first.
func secondValue(r *rand.Rand, t reflect.Type, first string, fc *gen.FitCfg) string {
	fn := parse(first)
	for try := 0; try < 6; try++ {
		var s string
		if t == nil {
			k := -1
			if fn != nil && fn.Kind != ref.Null {
				k = [...]int{0, 3, 1, 2, 4, 5}[fn.Kind]
			}
			s = fitAny(r, k)
		} else {
			s = gen.Fit(r, t, fc)
		}
		if compat(t, fn, parse(s)) {
			return s
		}
	}
	return first
}

func insertTwo(r *rand.Rand, ms []member, a, b member) []member {
	i := r.IntN(len(ms) + 1)
	out := append(append(append([]member(nil), ms[:i]...), a), ms[i:]...)
	j := i + 1 + r.IntN(len(out)-i)
	return append(append(append([]member(nil), out[:j]...), b), out[j:]...)
}

func insertAfter(r *rand.Rand, ms []member, idx int, b member) []member {
	j := idx + 1 + r.IntN(len(ms)-idx)
	return append(append(append([]member(nil), ms[:j]...), b), ms[j:]...)
}

func insertOne(r *rand.Rand, ms []member, b member) []member {
	j := r.IntN(len(ms) + 1)
	return append(append(append([]member(nil), ms[:j]...), b), ms[j:]...)
}

// dupBuilder plants a second member that collides with member `name` (existing in the object
// or added as a fresh pair).  spell2 gives the raw literal of the second name.
func dupBuilder(text string, pos *position, name string, t reflect.Type, compare bool, spell2 func(r *rand.Rand) string, fc *gen.FitCfg) func(r *rand.Rand) built {
	return func(r *rand.Rand) built {
		ms := membersOf(text, pos.node)
		idx := -1
		for i, m := range pos.node.Members {
			if m.Name == name {
				idx = i
			}
		}
		var first member
		if idx < 0 {
			var v string
			if t == nil {
				v = fitAny(r, -1)
			} else {
				v = gen.Fit(r, t, fc)
			}
			first = member{quoteName(name), v}
		} else {
			first = ms[idx]
		}
		second := member{spell2(r), secondValue(r, t, first.value, fc)}
		var b built
		b.hasNull = strings.Contains(first.value, "null") || strings.Contains(second.value, "null")
		if idx < 0 {
			b.inj = insertTwo(r, ms, first, second)
			b.t1 = insertOne(r, ms, first)
			b.t2 = insertOne(r, ms, member{first.name, second.value})
		} else {
			b.inj = insertAfter(r, ms, idx, second)
			b.t1 = ms
			b.t2 = append([]member(nil), ms...)
			b.t2[idx].value = second.value
		}
		if !compare {
			return b
		}
		merged := string(ref.Serialize(ref.Merge(parse(first.value), parse(second.value))))
		if idx < 0 {
			b.equiv = insertOne(r, ms, member{first.name, merged})
		} else {
			b.equiv = append([]member(nil), ms...)
			b.equiv[idx].value = merged
		}
		return b
	}
}

// controlBuilder adds a member whose name is distinct at this target.
func controlBuilder(text string, pos *position, rawName string, t reflect.Type, fc *gen.FitCfg) func(r *rand.Rand) built {
	return func(r *rand.Rand) built {
		var v string
		if t == nil {
			v = fitAny(r, -1)
		} else {
			v = gen.Fit(r, t, fc)
		}
		return built{inj: insertOne(r, membersOf(text, pos.node), member{rawName, v})}
	}
}

func sanitizedLit(raw string) string {
	s, ok := ref.Unquote([]byte(raw), true)
	if !ok {
		panic("harness: bad literal " + strconv.Quote(raw))
	}
	return quoteName(s)
}

// utf8Builder adds a member with ill-formed UTF-8 in its name or its (string) value, or
// replaces the value of an existing string member.
func utf8Builder(text string, pos *position, name string, inName bool, replaceIdx int, compare bool) func(r *rand.Rand) built {
	return func(r *rand.Rand) built {
		bad := badBytes[r.IntN(len(badBytes))]
		ms := membersOf(text, pos.node)
		var m member
		if inName {
			m = member{`"` + name + bad + `z"`, [...]string{"1", `"v"`, "null"}[r.IntN(3)]}
			if pos.elem != nil && !pos.untyped() {
				m.value = gen.Fit(r, pos.elem, fitCfg())
			}
		} else {
			m = member{quoteName(name), `"a` + bad + `b"`}
		}
		var inj, equiv []member
		if replaceIdx >= 0 {
			inj = append([]member(nil), ms...)
			inj[replaceIdx].value = m.value
		} else {
			inj = insertOne(r, ms, m)
		}
		if compare {
			equiv = append([]member(nil), inj...)
			for i := range equiv {
				if inName && equiv[i].name == m.name {
					equiv[i].name = sanitizedLit(m.name)
				}
				if !inName && equiv[i].value == m.value {
					equiv[i].value = sanitizedLit(m.value)
				}
			}
		}
		return built{inj: inj, equiv: equiv}
	}
}

func candidates(text string, t reflect.Type, root *ref.Node, ci bool) []*candidate {
	var ps []*position
	walk(t, root, "", 0, &ps)
	fc := fitCfg()
	var cs []*candidate
	add := func(pos *position, sub, inj, kind string, b func(r *rand.Rand) built) {
		cs = append(cs, &candidate{pos: pos, inj: inj, kind: kind, build: b, sub: sub})
	}
	same := func(name string) func(*rand.Rand) string {
		return func(*rand.Rand) string { return quoteName(name) }
	}
	esc := func(name string) func(*rand.Rand) string {
		return func(r *rand.Rand) string { return escapeVariant(r, name) }
	}
	lit := func(raw string) func(*rand.Rand) string { return func(*rand.Rand) string { return raw } }
	pickName := func(pos *position, fallback string) string {
		if n := len(pos.node.Members); n > 0 {
			return pos.node.Members[(pos.node.Start+n)%n].Name
		}
		return fallback
	}
	for _, pos := range ps {
		switch {
		case pos.untyped():
			name := pickName(pos, "k1")
			compare := pos.target == "any" || pos.target == "skipped"
			add(pos, pos.target, "same", "dup", dupBuilder(text, pos, name, nil, compare, same(name), fc))
			add(pos, pos.target, "escaped", "dup", dupBuilder(text, pos, name, nil, compare, esc(name), fc))
			add(pos, pos.target, "case-distinct", "control", func(r *rand.Rand) built {
				return controlBuilder(text, pos, quoteName(caseVariant(r, name)), nil, fc)(r)
			})
			add(pos, pos.target, "utf8-name", "utf8", utf8Builder(text, pos, "u", true, -1, compare))
			add(pos, pos.target, "utf8-value", "utf8", utf8Builder(text, pos, "uv", false, -1, compare))
		case pos.target == "struct":
			if len(pos.ms) > 0 {
				m := pos.ms[pos.node.Start%len(pos.ms)]
				for _, nm := range pos.node.Members { // prefer a member that is present
					for _, mi := range pos.ms {
						if mi.Name == nm.Name {
							m = mi
						}
					}
				}
				cmp := mergeCapable(m.Type, map[reflect.Type]bool{})
				add(pos, "struct-field", "same", "dup", dupBuilder(text, pos, m.Name, m.Type, cmp, same(m.Name), fc))
				add(pos, "struct-field", "escaped", "dup", dupBuilder(text, pos, m.Name, m.Type, cmp, esc(m.Name), fc))
				folded := m.CaseIgnore || (ci && !m.CaseStrict)
				variant := func(r *rand.Rand) string { return quoteName(caseVariant(r, m.Name)) }
				if folded {
					add(pos, "struct-field", "case-folded", "dup", dupBuilder(text, pos, m.Name, m.Type, cmp, variant, fc))
				} else {
					// the variant is an unknown member here
					var vt reflect.Type
					if pos.fb != nil && pos.fb.Type != rawValueType {
						vt = pos.fb.Type.Elem()
					}
					mname := m.Name
					add(pos, "struct-field", "case-distinct", "control", func(r *rand.Rand) built {
						return controlBuilder(text, pos, quoteName(caseVariant(r, mname)), vt, fc)(r)
					})
				}
				for i, nm := range pos.node.Members {
					for _, mi := range pos.ms {
						if mi.Name == nm.Name && nm.Value.Kind == ref.String && (mi.Type.Kind() == reflect.String || mi.Type.Kind() == reflect.Interface) {
							add(pos, "struct-field", "utf8-value", "utf8", utf8Builder(text, pos, nm.Name, false, i, true))
						}
					}
				}
			}
			// unknown members
			uname := "zz9"
			for _, nm := range pos.node.Members {
				known := false
				for _, mi := range pos.ms {
					known = known || mi.Name == nm.Name
				}
				if !known {
					uname = nm.Name
				}
			}
			sub, cmp := "struct-unknown", true
			var ut reflect.Type
			switch {
			case pos.fb == nil:
			case pos.fb.Type == rawValueType:
				sub, cmp = "fallback-value", false
			default:
				sub, ut = "fallback-map", pos.fb.Type.Elem()
				cmp = mergeCapable(ut, map[reflect.Type]bool{})
			}
			add(pos, sub, "same", "dup", dupBuilder(text, pos, uname, ut, cmp, same(uname), fc))
			add(pos, sub, "escaped", "dup", dupBuilder(text, pos, uname, ut, cmp, esc(uname), fc))
			add(pos, sub, "case-distinct", "control", func(r *rand.Rand) built {
				return controlBuilder(text, pos, quoteName(caseVariant(r, uname)), ut, fc)(r)
			})
			if pos.fb == nil || pos.fb.Type == rawValueType || pos.fb.Type.Key().Kind() == reflect.String {
				p2 := *pos
				p2.elem = ut
				if ut != nil {
					p2.target = "map-fallback"
				}
				add(pos, sub, "utf8-name", "utf8", utf8Builder(text, &p2, "u", true, -1, cmp))
			}
			if pos.fb == nil || pos.fb.Type == rawValueType || ut.Kind() == reflect.Interface || ut.Kind() == reflect.String {
				add(pos, sub, "utf8-value", "utf8", utf8Builder(text, pos, "uv9", false, -1, cmp))
			}
		default: // maps
			kc := keyClass(pos.keyT)
			names := gen.MapKeyNames(pos.keyT, fc)
			name := pickName(pos, names[0])
			cmp := mergeCapable(pos.elem, map[reflect.Type]bool{})
			add(pos, pos.target, "same", "dup", dupBuilder(text, pos, name, pos.elem, cmp, same(name), fc))
			if kc == "string" || kc == "textkey" {
				add(pos, pos.target, "escaped", "dup", dupBuilder(text, pos, name, pos.elem, cmp, esc(name), fc))
			}
			switch kc {
			case "int":
				add(pos, pos.target, "numeric", "dup", dupBuilder(text, pos, "0", pos.elem, cmp, lit(`"-0"`), fc))
			case "float":
				if alt, ok := floatAlt[name]; ok {
					add(pos, pos.target, "numeric", "dup", dupBuilder(text, pos, name, pos.elem, cmp, lit(`"`+alt+`"`), fc))
				}
			case "textkey":
				if up := strings.ToUpper(name); up != name {
					add(pos, pos.target, "textkey-folded", "dup", dupBuilder(text, pos, name, pos.elem, cmp, lit(quoteName(up)), fc))
				}
			case "string":
				add(pos, pos.target, "case-distinct", "control", func(r *rand.Rand) built {
					return controlBuilder(text, pos, quoteName(caseVariant(r, name)), pos.elem, fc)(r)
				})
				add(pos, pos.target, "utf8-name", "utf8", utf8Builder(text, pos, "u", true, -1, cmp))
			}
			if pos.elem.Kind() == reflect.String || pos.elem.Kind() == reflect.Interface {
				free := ""
				for _, k := range names {
					used := false
					for _, m := range pos.node.Members {
						used = used || m.Name == k
					}
					if !used {
						free = k
					}
				}
				if free != "" && kc != "textkey" {
					add(pos, pos.target, "utf8-value", "utf8", utf8Builder(text, pos, free, false, -1, cmp))
				}
			}
		}
	}
	return cs
}

// ---- executor

func apiCall(api string, text []byte, p any, opts ...json.Options) error {
	switch api {
	case "read":
		return json.UnmarshalRead(bytes.NewReader(text), p, opts...)
	case "decode":
		return json.UnmarshalDecode(jsontext.NewDecoder(bytes.NewReader(text)), p, opts...)
	}
	return json.Unmarshal(text, p, opts...)
}

func runInj(w *run.W, a *injArgs) {
	t, err := gen.ParseType(a.Type, env)
	if err != nil {
		w.Broken("bad type expression: %v", err)
		return
	}
	var opts []json.Options
	if a.CI {
		opts = append(opts, json.MatchCaseInsensitiveNames(true))
	}
	with := func(extra ...json.Options) []json.Options {
		return append(append([]json.Options(nil), opts...), extra...)
	}
	sig := func(extra ...string) map[string]string {
		m := map[string]string{"kind": a.Kind, "inj": a.Inj, "target": a.Target, "prepop": fmt.Sprint(a.Prepop != ""), "ci": fmt.Sprint(a.CI)}
		for i := 0; i+1 < len(extra); i += 2 {
			m[extra[i]] = extra[i+1]
		}
		return m
	}
	// ground truth that is decidable at the JSON level is re-checked with the reference
	strict := ref.Parse(a.Text, ref.Opts{}) != nil
	switch {
	case ref.Parse([]byte(a.Base), ref.Opts{}) == nil, a.Equiv != "" && ref.Parse([]byte(a.Equiv), ref.Opts{}) == nil:
		w.Broken("base/equivalent text is not clean JSON: %q / %q", a.Base, a.Equiv)
		return
	case a.Kind == "utf8" && (strict || ref.Parse(a.Text, ref.Opts{AllowInvalidUTF8: true}) == nil):
		w.Broken("utf8 case is not 'valid except for UTF-8': %q", a.Text)
		return
	case a.Kind == "dup" && ref.Parse(a.Text, ref.Opts{AllowDup: true}) == nil, a.Kind == "control" && !strict:
		w.Broken("case text is not valid JSON: %q", a.Text)
		return
	case a.Kind == "dup" && (a.Inj == "same" || a.Inj == "escaped") && strict:
		w.Broken("planted duplicate is not a duplicate for the reference: %q", a.Text)
		return
	}
	broken := false
	target := func() reflect.Value {
		p := reflect.New(t)
		if a.Prepop != "" {
			if err := json.Unmarshal([]byte(a.Prepop), p.Interface(), opts...); err != nil {
				broken = true
				w.Broken("pre-population text rejected: %v (%s into %s)", err, a.Prepop, a.Type)
			}
		}
		return p
	}
	w.Eval(1)
	cell := fmt.Sprintf("cell_%s_%s", a.Target, a.Inj)
	w.Count(cell, 1)
	w.Count(fmt.Sprintf("depth_%d", min(a.Depth, 6)), 1)
	if a.Prepop != "" {
		w.Count("prepopulated_"+a.Kind, 1)
		if strings.HasPrefix(a.Target, "map-") || a.Target == "any" || a.Target == "fallback-map" {
			w.Count("prepopulated_map_targets", 1)
		}
	}
	w.Shape(a.Type + "|" + cell + "|" + fmt.Sprint(a.Depth, a.CI, a.Prepop != ""))

	switch a.Kind {
	case "dup", "utf8":
		for _, api := range []string{"unmarshal", "read", "decode"} {
			p := target()
			if broken {
				return
			}
			if err := apiCall(api, a.Text, p.Interface(), opts...); err == nil {
				w.Violate("ambiguity-accepted", sig("api", api),
					"%s %s at a %s target (depth %d) was accepted by %s under default options:\n type %s\n text %s\n prepop %s",
					a.Kind, a.Inj, a.Target, a.Depth, api, a.Type, a.TextQ, a.Prepop)
			} else {
				w.Count("rejected_"+a.Kind, 1)
			}
		}
		right, wrong := jsontext.AllowDuplicateNames(true), jsontext.AllowInvalidUTF8(true)
		if a.Kind == "utf8" {
			right, wrong = wrong, right
		}
		if err := json.Unmarshal(a.Text, target().Interface(), with(wrong)...); err == nil {
			w.Violate("wrong-option-accepts", sig(), "%s %s at a %s target accepted although only the unrelated permissive option is set:\n type %s\n text %s", a.Kind, a.Inj, a.Target, a.Type, a.TextQ)
		}
		p := target()
		if err := json.Unmarshal(a.Text, p.Interface(), with(right)...); err != nil {
			w.Violate("permissive-rejected", sig(), "%s %s at a %s target is rejected even with the permissive option: %v\n type %s\n text %s\n prepop %s", a.Kind, a.Inj, a.Target, err, a.Type, a.TextQ, a.Prepop)
			break
		}
		w.Count("permissive_accepted_"+a.Kind, 1)
		if a.Equiv == "" {
			w.Count("permissive_success_only", 1)
			break
		}
		q := target()
		if err := json.Unmarshal([]byte(a.Equiv), q.Interface(), opts...); err != nil {
			w.Violate("clean-equivalent-rejected", sig(), "the clean equivalent text is rejected under default options: %v\n type %s\n text %s\n prepop %s", err, a.Type, a.Equiv, a.Prepop)
			break
		}
		w.Count("permissive_value_compared", 1)
		if !reflect.DeepEqual(p.Elem().Interface(), q.Elem().Interface()) {
			w.Violate("permissive-result-differs", sig(), "type %s\n text  %s\n equiv %s\n prepop %s\n permissive = %s\n expected   = %s", a.Type, a.TextQ, a.Equiv, a.Prepop, dump(p), dump(q))
		}
	case "control":
		if err := json.Unmarshal(a.Text, target().Interface(), opts...); err != nil {
			w.Violate("control-distinct-rejected", sig(), "names that are distinct at a %s target were rejected: %v\n type %s\n text %s\n prepop %s", a.Target, err, a.Type, a.TextQ, a.Prepop)
		} else {
			w.Count("controls_accepted", 1)
		}
	}

	// clean input: the permissive options change nothing
	p0, p1 := target(), target()
	if broken {
		return
	}
	e0 := json.Unmarshal([]byte(a.Base), p0.Interface(), opts...)
	e1 := json.Unmarshal([]byte(a.Base), p1.Interface(), with(jsontext.AllowDuplicateNames(true), jsontext.AllowInvalidUTF8(true))...)
	switch {
	case e0 != nil:
		w.Violate("clean-rejected", sig(), "clean text rejected under default options: %v\n type %s\n text %s\n prepop %s", e0, a.Type, a.Base, a.Prepop)
	case e1 != nil || !reflect.DeepEqual(p0.Elem().Interface(), p1.Elem().Interface()):
		w.Violate("permissive-changes-clean", sig(), "clean text decodes differently with the permissive options (err=%v)\n type %s\n text %s\n default    = %s\n permissive = %s", e1, a.Type, a.Base, dump(p0), dump(p1))
	default:
		w.Count("clean_invariant", 1)
		b0, m0 := json.Marshal(p0.Interface(), json.Deterministic(true))
		b1, m1 := json.Marshal(p0.Interface(), json.Deterministic(true), jsontext.AllowDuplicateNames(true), jsontext.AllowInvalidUTF8(true))
		if m0 != nil {
			// the decoded value is itself not marshalable by default (e.g. a raw fallback that
			// accumulated the same member from the pre-population and from the text): no clean output to compare
			w.Count("clean_value_unmarshalable", 1)
		} else if m1 != nil || !bytes.Equal(b0, b1) {
			w.Violate("permissive-changes-clean", sig("side", "marshal"), "clean value marshals differently with the permissive options: %q/%v vs %q/%v (type %s)", b0, m0, b1, m1, a.Type)
		} else {
			w.Count("clean_marshal_invariant", 1)
		}
	}
}

func dump(v reflect.Value) string {
	b, err := stdjson.Marshal(v.Interface())
	if err != nil {
		return fmt.Sprintf("%#v", v.Interface())
	}
	return string(b)
}

// ---- marshal side

type marshalArgs struct {
	Family string   `json:"family"`
	Bad    []byte   `json:"bad,omitempty"` // ill-formed string planted by utf8 families
	Wrap   []string `json:"wrap"`
}

type mcase struct {
	v          any
	needInv    bool // the collision only exists once AllowInvalidUTF8 maps both names to U+FFFD
	collision  bool
	permFails  bool // success not demanded with the permissive option (value unsupported for other reasons)
	utf8       bool
	rawPlanted bool // the ill-formed bytes sit inside a raw jsontext.Value
	inside     bool // the string is part of a longer formatted text
}

func buildMarshal(a *marshalArgs) (mc mcase, ok bool) {
	bad := string(a.Bad)
	nan := math.NaN()
	switch a.Family {
	case "fallmap-field":
		mc = mcase{v: FallMap{O: 1, M: map[string]any{"O": 2, "p": 3}}, collision: true}
	case "fallnamed-field":
		mc = mcase{v: FallNamed{O: 1, M: map[SKey]int{"O": 2}}, collision: true}
	case "fallval-field":
		mc = mcase{v: FallVal{O: 1, V: jsontext.Value(`{"p":0,"O":2}`)}, collision: true}
	case "fallval-escaped":
		mc = mcase{v: FallVal{O: 1, V: jsontext.Value(`{"\u004f":2}`)}, collision: true}
	case "fallval-internal":
		mc = mcase{v: FallVal{O: 1, V: jsontext.Value(`{"x":1,"y":{},"x":2}`)}, collision: true}
	case "fallval-internal-escaped":
		mc = mcase{v: FallVal{O: 1, V: jsontext.Value(` {"x":1 , "\u0078":2} `)}, collision: true}
	case "fallval-nested":
		// duplicate inside a member value of the raw fallback
		mc = mcase{v: FallVal{O: 1, V: jsontext.Value(`{"x":{"a":1,"a":2}}`)}, collision: true}
	case "value-internal":
		mc = mcase{v: struct{ R jsontext.Value }{jsontext.Value(`{"a":[{"b":1,"b":2}]}`)}, collision: true}
	case "map-invalid-keys":
		mc = mcase{v: map[string]int{"a\xff": 1, "a\xfe": 2}, collision: true, needInv: true}
	case "anymap-invalid-keys":
		mc = mcase{v: map[string]any{"q": map[string]any{"a\xff": 1, "a\xfe": 2}}, collision: true, needInv: true}
	case "fallmap-invalid-keys":
		mc = mcase{v: FallMap{O: 1, M: map[string]any{"a\xff": 1, "a\xfe": 2}}, collision: true, needInv: true}
	case "fallval-invalid-keys":
		// raw fallback whose names differ only in WHICH ill-formed byte they hold (escape-free spelling)
		mc = mcase{v: FallVal{O: 1, V: jsontext.Value("{\"a\xff\":1,\"a\xfe\":2}")}, collision: true, needInv: true}
	case "fallval-invalid-vs-literal":
		mc = mcase{v: FallVal{O: 1, V: jsontext.Value("{\"p\":0,\"a\xff\":1,\"a\ufffd\":2}")}, collision: true, needInv: true}
	case "value-invalid-keys":
		mc = mcase{v: struct{ R jsontext.Value }{jsontext.Value("{\"q\":{\"a\xff\":1,\"a\xfe\":2}}")}, collision: true, needInv: true}
	case "namedkey-invalid":
		mc = mcase{v: map[SKey]int{"\xc3": 1, "\xff": 2}, collision: true, needInv: true}
	case "textkey":
		mc = mcase{v: map[TextKey]int{"A": 1, "a": 2}, collision: true}
	case "textkey-struct":
		mc = mcase{v: map[TM]int{{"\xff"}: 1, {"\xfe"}: 2}, collision: true, needInv: true}
	case "nan-keys":
		m := map[float64]int{}
		m[nan], m[nan] = 1, 2
		mc = mcase{v: m, collision: true, permFails: true}
	// ill-formed UTF-8 in Go strings
	case "utf8-string":
		mc = mcase{v: bad, utf8: true}
	case "utf8-field":
		mc = mcase{v: struct {
			A int
			S string
		}{1, bad}, utf8: true}
	case "utf8-elem":
		mc = mcase{v: []string{"ok", bad}, utf8: true}
	case "utf8-mapval":
		mc = mcase{v: map[string]string{"k": bad}, utf8: true}
	case "utf8-mapkey":
		mc = mcase{v: map[string]int{bad: 1}, utf8: true}
	case "utf8-namedkey":
		mc = mcase{v: map[SKey]int{SKey(bad): 1}, utf8: true}
	case "utf8-anystring":
		mc = mcase{v: []any{1.0, bad}, utf8: true}
	case "utf8-anymapkey":
		mc = mcase{v: map[string]any{"m": map[string]any{bad: nil}}, utf8: true}
	case "utf8-textmarshaler":
		mc = mcase{v: TM{bad}, utf8: true}
	case "utf8-textmarshaler-key":
		mc = mcase{v: map[TM]int{{bad}: 1}, utf8: true}
	case "utf8-fallmap-key":
		mc = mcase{v: FallMap{O: 1, M: map[string]any{bad: 1}}, utf8: true}
	case "utf8-fallmap-val":
		mc = mcase{v: FallMap{O: 1, M: map[string]any{"k": bad}}, utf8: true}
	case "utf8-stringtag-legacy-stringify":
		// the `string` option quotes a Go string a second time under StringifyWithLegacySemantics: the
		// ill-formed bytes sit in the INNER string
		mc = mcase{v: struct {
			P string `json:"p"`
			Q string `json:"q,string"`
		}{"ok", bad}, utf8: true}
	case "utf8-stringtag-ptr-legacy-stringify":
		mc = mcase{v: struct {
			Q *string `json:"q,string"`
		}{&bad}, utf8: true}
	case "utf8-zone-name-format", "utf8-zone-name-ptr-format":
		// a zone abbreviation is an arbitrary Go string; layouts with an MST element copy it into the output
		// (needs ExperimentalSupportFormatTag, set by runMarshal for families ending in -format)
		tm := time.Date(2001, 2, 3, 4, 5, 6, 0, time.FixedZone(bad, 3600))
		switch slices.Index(badGo, bad) % 4 {
		case 0:
			mc = mcase{v: struct {
				A int
				T time.Time `json:"t,format:RFC1123"`
			}{1, tm}, utf8: true, inside: true}
		case 1:
			mc = mcase{v: struct {
				T time.Time `json:"t,format:UnixDate"`
			}{tm}, utf8: true, inside: true}
		case 2:
			mc = mcase{v: struct {
				T time.Time `json:"t,format:'2006-MST'"`
			}{tm}, utf8: true, inside: true}
		default:
			mc = mcase{v: struct {
				T time.Time `json:"t,format:RFC850"`
				B bool
			}{tm, true}, utf8: true, inside: true}
		}
		if a.Family == "utf8-zone-name-ptr-format" {
			mc = mcase{v: struct {
				T *time.Time `json:"t,format:RFC822"`
			}{&tm}, utf8: true, inside: true}
		}
	case "utf8-ptr":
		mc = mcase{v: &bad, utf8: true}
	case "utf8-value":
		mc = mcase{v: jsontext.Value(`{"k":"` + bad + `"}`), utf8: true, rawPlanted: true}
	case "utf8-fallval":
		mc = mcase{v: FallVal{O: 1, V: jsontext.Value(`{"k` + bad + `":1}`)}, utf8: true, rawPlanted: true}
	default:
		return mc, false
	}
	for i := len(a.Wrap) - 1; i >= 0; i-- {
		switch a.Wrap[i] {
		case "ptr":
			p := reflect.New(reflect.TypeOf(mc.v))
			p.Elem().Set(reflect.ValueOf(mc.v))
			mc.v = p.Interface()
		case "slice":
			s := reflect.MakeSlice(reflect.SliceOf(reflect.TypeOf(mc.v)), 2, 2)
			s.Index(1).Set(reflect.ValueOf(mc.v))
			mc.v = s.Interface()
		case "array":
			s := reflect.New(reflect.ArrayOf(1, reflect.TypeOf(mc.v))).Elem()
			s.Index(0).Set(reflect.ValueOf(mc.v))
			mc.v = s.Interface()
		case "mapval":
			m := reflect.MakeMap(reflect.MapOf(reflect.TypeFor[string](), reflect.TypeOf(mc.v)))
			m.SetMapIndex(reflect.ValueOf("w"), reflect.ValueOf(mc.v))
			mc.v = m.Interface()
		case "field":
			st := reflect.StructOf([]reflect.StructField{{Name: "X", Type: reflect.TypeFor[int]()}, {Name: "F", Type: reflect.TypeOf(mc.v)}})
			s := reflect.New(st).Elem()
			s.Field(1).Set(reflect.ValueOf(mc.v))
			mc.v = s.Interface()
		case "any":
			mc.v = []any{mc.v}
		case "embed":
			if reflect.TypeOf(mc.v).Kind() != reflect.Struct || reflect.TypeOf(mc.v).NumMethod() > 0 {
				continue // only method-free structs can be embedded
			}
			st := reflect.StructOf([]reflect.StructField{{Name: "X9", Type: reflect.TypeFor[int]()}, {Name: "F", Type: reflect.TypeOf(mc.v), Tag: `json:",embed"`}})
			s := reflect.New(st).Elem()
			s.Field(1).Set(reflect.ValueOf(mc.v))
			mc.v = s.Interface()
		}
	}
	return mc, true
}

// marshalBy marshals through one API; the syntactic options go to the Encoder for
// MarshalEncode (it ignores coder options passed per call) and to the call otherwise.
// marshalExtra holds per-family semantic options (set by runMarshal for the family at hand).
var marshalExtra []json.Options

func marshalBy(api string, v any, syn ...jsontext.Options) ([]byte, error) {
	opts := append([]json.Options{json.Deterministic(true)}, marshalExtra...)
	switch api {
	case "write":
		for _, o := range syn {
			opts = append(opts, o)
		}
		var buf bytes.Buffer
		err := json.MarshalWrite(&buf, v, opts...)
		return buf.Bytes(), err
	case "encode":
		var buf bytes.Buffer
		enc := jsontext.NewEncoder(&buf, syn...)
		err := json.MarshalEncode(enc, v, opts...)
		return bytes.TrimSuffix(buf.Bytes(), []byte("\n")), err
	}
	for _, o := range syn {
		opts = append(opts, o)
	}
	return json.Marshal(v, opts...)
}

func runMarshal(w *run.W, a *marshalArgs) {
	mc, ok := buildMarshal(a)
	if !ok {
		w.Broken("unknown marshal family %q", a.Family)
		return
	}
	marshalExtra = nil
	if strings.HasSuffix(a.Family, "-legacy-stringify") {
		marshalExtra = []json.Options{jsonv1.StringifyWithLegacySemantics(true)} // `string` then also quotes Go strings
	}
	if strings.HasSuffix(a.Family, "-format") {
		marshalExtra = []json.Options{json.ExperimentalSupportFormatTag(true)}
	}
	defer func() { marshalExtra = nil }()
	w.Eval(1)
	w.Count("marshal_cases", 1)
	w.Count("mfam_"+a.Family, 1)
	w.Shape("marshal|" + a.Family + "|" + strings.Join(a.Wrap, ">"))
	sig := func(extra ...string) map[string]string {
		m := map[string]string{"family": a.Family}
		for i := 0; i+1 < len(extra); i += 2 {
			m[extra[i]] = extra[i+1]
		}
		return m
	}
	inv, dup := jsontext.AllowInvalidUTF8(true), jsontext.AllowDuplicateNames(true)
	for _, api := range []string{"marshal", "write", "encode"} {
		if mc.collision {
			var base []jsontext.Options
			if mc.needInv {
				base = append(base, inv)
			}
			out, err := marshalBy(api, mc.v, base...)
			if err == nil {
				n := ref.Parse(out, ref.Opts{AllowDup: true})
				switch {
				case n == nil:
					w.Violate("marshal-output-invalid", sig("api", api), "Marshal returned nil error and invalid JSON %q for %#v", out, mc.v)
				case ref.HasDuplicate(n):
					w.Violate("marshal-duplicate-names-emitted", sig("api", api), "Marshal returned nil error and an object with duplicate names: %s (value %#v, wrap %v)", out, mc.v, a.Wrap)
				default:
					w.Violate("marshal-collision-unreported", sig("api", api), "colliding names produced neither an error nor duplicates (a member was dropped): %s (value %#v)", out, mc.v)
				}
			} else {
				w.Count("marshal_collision_rejected", 1)
			}
			if !mc.permFails {
				out, err := marshalBy(api, mc.v, append(base[:len(base):len(base)], dup)...)
				n := ref.Parse(out, ref.Opts{AllowDup: true})
				switch {
				case err != nil:
					w.Violate("marshal-permissive-rejected", sig("api", api), "colliding names rejected even with AllowDuplicateNames: %v (value %#v, wrap %v)", err, mc.v, a.Wrap)
				case n == nil:
					w.Violate("marshal-output-invalid", sig("api", api), "invalid JSON %q with AllowDuplicateNames", out)
				case !ref.HasDuplicate(n):
					w.Broken("family %s does not collide: %s", a.Family, out)
				default:
					w.Count("marshal_permissive_ok", 1)
				}
			}
		}
		if mc.utf8 {
			out, err := marshalBy(api, mc.v)
			if err == nil {
				w.Violate("invalid-utf8-marshaled", sig("api", api), "ill-formed UTF-8 %q marshaled without error by default: %q (wrap %v)", a.Bad, out, a.Wrap)
			} else {
				w.Count("marshal_utf8_rejected", 1)
			}
			if _, err := marshalBy(api, mc.v, dup); err == nil {
				w.Violate("wrong-option-accepts", sig("api", api, "side", "marshal"), "ill-formed UTF-8 %q marshaled with only AllowDuplicateNames set", a.Bad)
			}
			out, err = marshalBy(api, mc.v, inv)
			switch {
			case err != nil:
				w.Violate("marshal-permissive-rejected", sig("api", api), "ill-formed UTF-8 %q rejected even with AllowInvalidUTF8: %v (wrap %v)", a.Bad, err, a.Wrap)
			case mc.rawPlanted:
				// raw values are copied; only well-formedness modulo UTF-8 is demanded
				if ref.Parse(out, ref.Opts{AllowInvalidUTF8: true}) == nil {
					w.Violate("marshal-output-invalid", sig("api", api), "invalid JSON %q with AllowInvalidUTF8", out)
				}
				w.Count("marshal_permissive_ok", 1)
			case ref.Parse(out, ref.Opts{}) == nil:
				w.Violate("marshal-output-invalid", sig("api", api), "output %q with AllowInvalidUTF8 is not valid JSON in valid UTF-8", out)
			case mc.inside && bytes.Contains(out, []byte(ref.Sanitize(string(a.Bad)))):
				// (the string sits inside a longer formatted text)
				w.Count("marshal_permissive_ok", 1)
			case !bytes.Contains(out, []byte(`"`+ref.Sanitize(string(a.Bad))+`"`)) &&
				!(strings.HasSuffix(a.Family, "-legacy-stringify") && bytes.Contains(out, []byte(`\"`+ref.Sanitize(string(a.Bad))+`\"`))):
				// (under the legacy stringify option the string sits, quoted once more, inside the outer string)
				w.Violate("marshal-substitution", sig("api", api), "output %q does not contain %q (one U+FFFD per ill-formed byte of %q)", out, ref.Sanitize(string(a.Bad)), a.Bad)
			default:
				w.Count("marshal_permissive_ok", 1)
			}
		}
	}
}

// ---- monitor

var M = &run.Monitor{
	ID:    "C08",
	Level: "exploration",
	Rule: "unmarshal: a clean text fitted to a generated type (C14 generator + raw values, token/value/skip reading unmarshalers, text keys, fallbacks, case:ignore fields) gets one planted ambiguity " +
		"(same / re-escaped / case-folded / numerically equal / text-key-folded name, ill-formed UTF-8 in a name or value) at an object chosen over all objects of the text, " +
		"with ground truth from the effective target there; 40% of the targets are pre-populated; default options must reject by Unmarshal, UnmarshalRead and UnmarshalDecode; " +
		"the matching permissive option must accept and equal the default decoding of the ref-merged / U+FFFD-substituted clean text; the unrelated permissive option must still reject; " +
		"case-variant names that are distinct at the target are controls; marshal: colliding fallback/map/text keys and ill-formed Go strings (also as zone names under MST layouts) through 7 wrappers x 3 APIs; " +
		"wide: structs of 3..300 fields with members in arbitrary order, the colliding pair separated by members of far-away fields, and fallbacks holding the name of a field of any index. " +
		"distinct = type expression x (target kind, injection kind) x depth x options",
	Assumptions: []string{
		"ref parser decides JSON-level duplicates and UTF-8 validity (each case text is re-checked against it); ref.Merge gives the duplicate-free equivalent (C14's law)",
		"'resolve to the same field/key' is decided by the harness from the effective target type at the injection point, using the documented matching rules",
		"values stored in raw form (jsontext.Value, fallback Value, byte-capturing unmarshalers) are only required to be accepted/rejected, not compared",
		"controls (distinct names must be accepted) go slightly beyond the rejection clause; they guard the ground-truth model against over-approximation",
	},
	Floors: func(c map[string]int64, tier string) []string {
		var u []string
		need := func(k string, n int64) {
			if c[k] < n {
				u = append(u, fmt.Sprintf("%s=%d < %d", k, c[k], n))
			}
		}
		for _, cell := range floorCells {
			need("cell_"+cell, 8)
		}
		for d := 0; d <= 4; d++ {
			need(fmt.Sprintf("depth_%d", d), 100)
		}
		need("prepopulated_map_targets", 300)
		need("permissive_value_compared", 2000)
		need("controls_accepted", 500)
		need("clean_marshal_invariant", 2000)
		need("marshal_collision_rejected", 200)
		need("marshal_utf8_rejected", 200)
		need("marshal_permissive_ok", 400)
		need("wide_duplicates_rejected", 1000)
		need("wide_controls_accepted", 500)
		need("wide_permissive_compared", 1500)
		need("wide_marshal_collision_rejected", 100)
		need("resume_failed_calls", 100)
		return u
	},
	SelfTest: selfTest,
}

// floorCells: the reachable (target, injection) matrix.
var floorCells = func() []string {
	var out []string
	for _, t := range []string{"any", "skipped", "raw", "tokreader", "valtok", "skiptok", "valreader", "fbvalue"} {
		for _, i := range []string{"same", "escaped", "case-distinct", "utf8-name", "utf8-value"} {
			out = append(out, t+"_"+i)
		}
	}
	for _, i := range []string{"same", "escaped", "case-folded", "case-distinct", "utf8-value"} {
		out = append(out, "struct-field_"+i)
	}
	for _, t := range []string{"struct-unknown", "fallback-map", "fallback-value"} {
		for _, i := range []string{"same", "escaped", "case-distinct", "utf8-name", "utf8-value"} {
			out = append(out, t+"_"+i)
		}
	}
	out = append(out, "map-string_same", "map-string_escaped", "map-string_case-distinct", "map-string_utf8-name", "map-string_utf8-value",
		"map-int_same", "map-int_numeric", "map-float_same", "map-float_numeric", "map-textkey_same", "map-textkey_escaped", "map-textkey_textkey-folded")
	return out
}()

// selfTest: the harness' notion of "same name after unescaping" must agree with the toolchain.
func selfTest() error {
	r := run.SelfRand(8)
	for _, n := range []string{"k1", "é", "a/b~c", "😀", "A", "ax", "Unknown"} {
		for i := 0; i < 50; i++ {
			lit := escapeVariant(r, n)
			var s string
			if err := stdjson.Unmarshal([]byte(lit), &s); err != nil || s != n {
				return fmt.Errorf("escapeVariant(%q) = %s decodes to %q (%v)", n, lit, s, err)
			}
		}
	}
	// sanitizedLit agrees with encoding/json's replacement of raw ill-formed bytes
	for _, b := range badBytes {
		if strings.HasPrefix(b, `\u`) {
			continue
		}
		lit := `"a` + b + `b"`
		var s string
		if err := stdjson.Unmarshal([]byte(lit), &s); err != nil {
			return fmt.Errorf("classic rejects %q: %v", lit, err)
		}
		var got string
		stdjson.Unmarshal([]byte(sanitizedLit(lit)), &got)
		// classic replaces a maximal ill-formed subsequence differently in some cases; the count
		// per ill-formed BYTE is the documented v2 rule, so only compare the well-formed rest
		if strings.ReplaceAll(got, "�", "") != strings.ReplaceAll(s, "�", "") || !strings.Contains(got, "�") {
			return fmt.Errorf("sanitizedLit(%q) = %q vs classic %q", lit, got, s)
		}
	}
	return nil
}

func main() {
	run.Def(M, "inject", runInj)
	run.Def(M, "marshal", runMarshal)
	run.Def(M, "wide", runWide)
	run.Def(M, "resume", runResume)
	M.Gen = generate
	run.Main(M)
}

var namedLeaves = []string{"value", "TokReader", "ValTok", "SkipTok", "ValReader", "KnownCI", "FallMap", "FallVal", "FallNamed", "Outer"}

var marshalFamilies = []string{"fallmap-field", "fallnamed-field", "fallval-field", "fallval-escaped", "fallval-internal", "fallval-internal-escaped", "fallval-nested", "value-internal",
	"map-invalid-keys", "anymap-invalid-keys", "fallmap-invalid-keys", "fallval-invalid-keys", "fallval-invalid-vs-literal", "value-invalid-keys", "namedkey-invalid", "textkey", "textkey-struct", "nan-keys",
	"utf8-string", "utf8-field", "utf8-elem", "utf8-mapval", "utf8-mapkey", "utf8-namedkey", "utf8-anystring", "utf8-anymapkey", "utf8-textmarshaler",
	"utf8-textmarshaler-key", "utf8-fallmap-key", "utf8-fallmap-val", "utf8-ptr", "utf8-value", "utf8-fallval", "utf8-stringtag-legacy-stringify", "utf8-stringtag-ptr-legacy-stringify",
	"utf8-zone-name-format", "utf8-zone-name-ptr-format"}

var badGo = []string{"a\xffb", "\xc3", "x\xed\xa0\x80", "\xc0\x80z", "é\xff", "\xf4\x90\x80\x80", "q\xe2\x82"}

func generate(w *run.W) {
	generateWide(w)
	generateResume(w)
	nb := w.Pick(640, 6400)
	for b := 0; b < nb; b++ {
		if !w.Mine(b) {
			continue
		}
		r := w.Rand("inject", b)
		tc := &gen.TypeCfg{MaxDepth: 1 + r.IntN(4), Named: namedLeaves, NamedPct: 22, Fallback: true, CaseTags: true,
			MapKeys:       []string{"string", "string", "string", "int", "int8", "float64", "TextKey", "SKey"},
			FallbackTypes: []string{"map[string]any", "map[string]int", "value", "map[SKey]string", "map[string]struct{A int;B any}", "map[string][]string"}}
		fc := fitCfg()
		for i := 0; i < 100; i++ {
			typ := gen.RandType(r, tc, 0)
			if r.IntN(3) == 0 {
				typ = gen.RandStruct(r, tc, 1)
			}
			t := gen.MustParseType(typ, env)
			base := gen.Fit(r, t, fc)
			root := parse(base)
			if root == nil {
				w.Broken("fitted text is not valid JSON: %s", base)
				return
			}
			// every 8th text: one object is padded with many (or long-named) extra members, so that the
			// planted ambiguity sits around the sizes at which the per-object name set changes its
			// representation (more than 64 names, more than 1 KiB of names)
			if r.IntN(8) == 0 {
				if pb := padObject(r, base, t, root); pb != "" {
					if pr := parse(pb); pr != nil {
						base, root = pb, pr
						w.Count("texts_with_padded_object", 1)
					} else {
						w.Broken("padded text is not valid JSON: %s", run.Trunc(pb, 300))
						return
					}
				}
			}
			ci := r.IntN(4) == 0
			cs := candidates(base, t, root, ci)
			if len(cs) == 0 {
				w.Count("no_object_in_text", 1)
				continue
			}
			// choose a (target, injection) cell first, then a candidate of that cell, so that rare cells fill up
			cells := map[string][]*candidate{}
			var order []string
			for _, c := range cs {
				k := c.sub + "_" + c.inj
				if cells[k] == nil {
					order = append(order, k)
				}
				cells[k] = append(cells[k], c)
			}
			for rep := 0; rep < 2; rep++ {
				list := cells[order[r.IntN(len(order))]]
				c := list[r.IntN(len(list))]
				bt := c.build(r)
				a := &injArgs{Type: typ, Base: base, Kind: c.kind, Inj: c.inj, Target: c.sub, Depth: c.pos.depth, CI: ci}
				a.Text = []byte(rebuild(base, root, c.pos.node, bt.inj))
				a.TextQ = strconv.Quote(string(a.Text))
				if bt.equiv != nil {
					a.Equiv = rebuild(base, root, c.pos.node, bt.equiv)
				}
				if r.IntN(5) < 2 {
					for try := 0; try < 4 && a.Prepop == ""; try++ {
						pp := gen.Fit(r, t, fc)
						pn := parse(pp)
						ok := compat(t, pn, root)
						switch c.kind {
						case "dup":
							ok = ok && compat(t, pn, parse(rebuild(base, root, c.pos.node, bt.t1))) && compat(t, pn, parse(rebuild(base, root, c.pos.node, bt.t2)))
						case "utf8":
							ok = ok && compat(t, pn, ref.Parse(a.Text, ref.Opts{AllowInvalidUTF8: true}))
						default:
							ok = ok && compat(t, pn, ref.Parse(a.Text, ref.Opts{}))
						}
						if ok {
							a.Prepop = pp
						}
					}
					if a.Prepop != "" && bt.hasNull {
						// (P+v1)+v2 and P+(v1+v2) differ when a null is involved: success only
						a.Equiv = ""
					}
				}
				w.Do("inject", a)
				if w.WantSample() && len(typ) > 15 && c.pos.depth > 0 {
					w.Sample(map[string]any{"type": typ, "text": a.TextQ, "kind": a.Kind, "inj": a.Inj, "target": a.Target, "depth": a.Depth, "prepop": a.Prepop})
				}
			}
		}
	}
	// marshal side
	wraps := []string{"ptr", "slice", "array", "mapval", "field", "any", "embed"}
	mi := 0
	for rep := 0; rep < w.Pick(48, 240); rep++ {
		for fi, fam := range marshalFamilies {
			mi++
			if !w.Mine(mi) {
				continue
			}
			r := w.Rand("marshal", rep, fi)
			a := &marshalArgs{Family: fam}
			if strings.HasPrefix(fam, "utf8-") {
				a.Bad = []byte(badGo[r.IntN(len(badGo))])
			}
			for d := r.IntN(5); d > 0; d-- {
				a.Wrap = append(a.Wrap, wraps[r.IntN(len(wraps))])
			}
			w.Do("marshal", a)
		}
	}
}

package main

// Wide structs: the library tracks the fields already seen in one object by their index in a
// struct-local bit set that grows in 64-bit words.  The "inject" cases only reach structs of a
// few fields; here the struct has 3..300 fields, the member order is arbitrary, and the two
// colliding members are separated by members of far-away fields (so that the set has to grow
// between them).  Marshal side: a fallback that holds the name of a field of any index.

import (
	"bytes"
	"fmt"
	"io"
	"reflect"
	"strings"
	"sync"

	"github.com/go-json-experiment/json"
	"github.com/go-json-experiment/json/jsontext"

	"verif/ref"
	"verif/run"
)

type wideArgs struct {
	N        int    `json:"n"`        // number of int fields f000..
	Fallback string `json:"fallback"` // "", "map", "value"
	Side     string `json:"side"`     // "unmarshal" | "marshal"
	Members  []int  `json:"members"`  // unmarshal: field index per member, in text order (>= N: a name no field has)
	Escaped  []bool `json:"escaped"`  // unmarshal: member name spelled with an escape
	Held     []int  `json:"held"`     // marshal: indexes whose names the fallback holds (>= N: no field has it)
}

var wideSizes = []int{3, 40, 63, 64, 65, 100, 127, 128, 129, 130, 140, 191, 192, 193, 256, 257, 300}

var wideTypes sync.Map

func wideName(i int) string { return fmt.Sprintf("f%03d", i) }

func wideType(n int, fallback string) reflect.Type {
	key := fmt.Sprintf("%d|%s", n, fallback)
	if t, ok := wideTypes.Load(key); ok {
		return t.(reflect.Type)
	}
	var fs []reflect.StructField
	for i := 0; i < n; i++ {
		fs = append(fs, reflect.StructField{Name: fmt.Sprintf("F%03d", i), Type: reflect.TypeFor[int](), Tag: reflect.StructTag(fmt.Sprintf(`json:"f%03d"`, i))})
	}
	switch fallback {
	case "map":
		fs = append(fs, reflect.StructField{Name: "X", Type: reflect.TypeFor[map[string]int](), Tag: `json:",embed"`})
	case "value":
		fs = append(fs, reflect.StructField{Name: "X", Type: reflect.TypeFor[jsontext.Value](), Tag: `json:",embed"`})
	}
	t := reflect.StructOf(fs)
	wideTypes.Store(key, t)
	return t
}

func escapeFirst(name string) string { return fmt.Sprintf(`\u%04x`, name[0]) + name[1:] }

func runWide(w *run.W, a *wideArgs) {
	w.Eval(1)
	typ := wideType(a.N, a.Fallback)
	sig := func(extra ...string) map[string]string {
		m := map[string]string{"side": a.Side, "fallback": a.Fallback}
		for i := 0; i+1 < len(extra); i += 2 {
			m[extra[i]] = extra[i+1]
		}
		return m
	}
	dupOpt := jsontext.AllowDuplicateNames(true)
	if a.Side == "marshal" {
		v := reflect.New(typ).Elem()
		for i := 0; i < a.N; i++ {
			v.Field(i).SetInt(int64(i + 1))
		}
		collide := false
		switch a.Fallback {
		case "map":
			m := map[string]int{}
			for _, h := range a.Held {
				m[wideName(h)] = -1
				collide = collide || h < a.N
			}
			v.Field(a.N).Set(reflect.ValueOf(m))
		case "value":
			var sb strings.Builder
			for i, h := range a.Held {
				if i > 0 {
					sb.WriteByte(',')
				}
				fmt.Fprintf(&sb, `"%s":-1`, wideName(h))
				collide = collide || h < a.N
			}
			v.Field(a.N).Set(reflect.ValueOf(jsontext.Value("{" + sb.String() + "}")))
		}
		for _, api := range []string{"marshal", "write"} {
			do := func(opts ...json.Options) ([]byte, error) {
				if api == "write" {
					var buf bytes.Buffer
					err := json.MarshalWrite(&buf, v.Interface(), opts...)
					return buf.Bytes(), err
				}
				return json.Marshal(v.Interface(), opts...)
			}
			out, err := do()
			switch {
			case collide && err == nil:
				w.Violate("wide-marshal-duplicate-emitted", sig("api", api), "struct of %d fields whose fallback holds the names of %v marshaled without error: duplicates=%v", a.N, a.Held, ref.HasDuplicate(ref.Parse(out, ref.Opts{AllowDup: true})))
			case collide:
				w.Count("wide_marshal_collision_rejected", 1)
				if out2, err2 := do(dupOpt); err2 != nil {
					w.Violate("wide-marshal-permissive-rejected", sig("api", api), "struct of %d fields, fallback names %v: rejected even with AllowDuplicateNames: %v", a.N, a.Held, err2)
				} else if n := ref.Parse(out2, ref.Opts{AllowDup: true}); n == nil || !ref.HasDuplicate(n) {
					w.Violate("wide-marshal-output-invalid", sig("api", api), "with AllowDuplicateNames the output is invalid or lacks the duplicate (fallback names %v)", a.Held)
				}
			case err != nil:
				w.Violate("wide-control-rejected", sig("api", api), "struct of %d fields, fallback names %v (no field has them): %v", a.N, a.Held, err)
			default:
				if n := ref.Parse(out, ref.Opts{}); n == nil || len(n.Members) != a.N+len(a.Held) {
					w.Violate("wide-marshal-output-invalid", sig("api", api), "struct of %d fields + %d fallback members: output invalid or of a different member count", a.N, len(a.Held))
				}
				w.Count("wide_controls_accepted", 1)
			}
		}
		return
	}

	// unmarshal
	var sb strings.Builder
	sb.WriteByte('{')
	last := map[int]int{} // index -> value of its last member
	dup := false
	for p, idx := range a.Members {
		if p > 0 {
			sb.WriteByte(',')
		}
		name := wideName(idx)
		if a.Escaped[p] {
			name = escapeFirst(name)
		}
		fmt.Fprintf(&sb, `"%s":%d`, name, p+1)
		if _, seen := last[idx]; seen {
			dup = true
		}
		last[idx] = p + 1
	}
	sb.WriteByte('}')
	text := sb.String()
	if n := ref.Parse([]byte(text), ref.Opts{AllowDup: true}); n == nil || ref.HasDuplicate(n) != dup {
		w.Broken("wide text %s: reference disagrees with the planted duplicate=%v", text, dup)
		return
	}
	for _, api := range []string{"unmarshal", "read", "decode"} {
		do := func(opts ...json.Options) (reflect.Value, error) {
			p := reflect.New(typ)
			switch api {
			case "read":
				return p, json.UnmarshalRead(&pieceReader{b: []byte(text), n: 7}, p.Interface(), opts...)
			case "decode":
				var jo []jsontext.Options
				for _, o := range opts {
					jo = append(jo, o)
				}
				return p, json.UnmarshalDecode(jsontext.NewDecoder(&pieceReader{b: []byte(text), n: 64}, jo...), p.Interface())
			}
			return p, json.Unmarshal([]byte(text), p.Interface(), opts...)
		}
		_, err := do()
		if dup {
			if err == nil {
				w.Violate("wide-duplicate-accepted", sig("api", api), "struct of %d fields: %s accepted by default although two members resolve to the same field/name", a.N, text)
				continue
			}
			w.Count("wide_duplicates_rejected", 1)
		} else if err != nil {
			w.Violate("wide-control-rejected", sig("api", api), "struct of %d fields: duplicate-free %s rejected: %v", a.N, text, err)
			continue
		} else {
			w.Count("wide_controls_accepted", 1)
		}
		p, err := do(dupOpt)
		if err != nil {
			w.Violate("wide-permissive-rejected", sig("api", api), "struct of %d fields: %s rejected with AllowDuplicateNames: %v", a.N, text, err)
			continue
		}
		for i := 0; i < a.N; i++ {
			if got := p.Elem().Field(i).Int(); got != int64(last[i]) {
				w.Violate("wide-last-wins", sig("api", api), "struct of %d fields, %s with AllowDuplicateNames: field %s = %d, want %d (the last member of that name)", a.N, text, wideName(i), got, last[i])
				break
			}
		}
		if a.Fallback == "map" {
			m := p.Elem().Field(a.N).Interface().(map[string]int)
			for idx, want := range last {
				if idx >= a.N && m[wideName(idx)] != want {
					w.Violate("wide-last-wins", sig("api", api), "fallback member %s = %d, want %d in %s", wideName(idx), m[wideName(idx)], want, text)
					break
				}
			}
		}
		w.Count("wide_permissive_compared", 1)
	}
}

// pieceReader hands the text out n bytes at a time.
type pieceReader struct {
	b []byte
	n int
}

func (r *pieceReader) Read(p []byte) (int, error) {
	if len(r.b) == 0 {
		return 0, io.EOF
	}
	n := min(r.n, len(p), len(r.b))
	copy(p, r.b[:n])
	r.b = r.b[n:]
	return n, nil
}

func generateWide(w *run.W) {
	nc := w.Pick(3000, 40000)
	for c := 0; c < nc; c++ {
		if !w.Mine(1_000_000 + c) {
			continue
		}
		r := w.Rand("wide", c)
		a := &wideArgs{N: wideSizes[r.IntN(len(wideSizes))], Fallback: []string{"", "map", "value"}[r.IntN(3)], Side: "unmarshal"}
		// an index drawn from one of the 64-bit words of the set, the boundaries preferred
		pickIdx := func(limit int) int {
			if r.IntN(3) == 0 {
				b := []int{0, 62, 63, 64, 65, 126, 127, 128, 129, 190, 191, 192, 193, 255, 256, limit - 1}
				if i := b[r.IntN(len(b))]; i < limit {
					return i
				}
			}
			return r.IntN(limit)
		}
		if r.IntN(4) == 0 && a.Fallback != "" {
			a.Side = "marshal"
			for k := 1 + r.IntN(3); k > 0; k-- {
				h := a.N + 1 + r.IntN(50) // no field has it
				if r.IntN(2) == 0 {
					h = pickIdx(a.N)
				}
				if !contains(a.Held, h) {
					a.Held = append(a.Held, h)
				}
			}
			w.Shape(fmt.Sprintf("wide|marshal|%d|%s|%d", a.N, a.Fallback, len(a.Held)))
			w.Do("wide", a)
			continue
		}
		limit := a.N + 40 // names beyond N are unknown to the struct
		seen := map[int]bool{}
		for k := 1 + r.IntN(12); k > 0; k-- {
			i := pickIdx(limit)
			if !seen[i] {
				seen[i] = true
				a.Members = append(a.Members, i)
			}
		}
		kind := "control"
		if r.IntN(3) > 0 {
			// repeat one member at a later place
			kind = "dup"
			from := r.IntN(len(a.Members))
			at := from + 1 + r.IntN(len(a.Members)-from)
			a.Members = append(a.Members[:at:at], append([]int{a.Members[from]}, a.Members[at:]...)...)
		}
		a.Escaped = make([]bool, len(a.Members))
		for i := range a.Escaped {
			a.Escaped[i] = r.IntN(6) == 0
		}
		w.Shape(fmt.Sprintf("wide|unmarshal|%d|%s|%s|%d", a.N, a.Fallback, kind, len(a.Members)))
		w.Do("wide", a)
	}
}

func contains(s []int, x int) bool {
	for _, y := range s {
		if x == y {
			return true
		}
	}
	return false
}

package main

// A caller-held Decoder / Encoder after a FAILED UnmarshalDecode / MarshalEncode: while a struct or map is
// decoded or encoded the library switches the coder's own duplicate-name tracking off for that object (the
// arshaler checks names itself); when the call fails half-way these objects are still open and the caller
// may go on with token calls.  Whatever happens then, the coder must not end up having ACCEPTED a text that
// repeats a name: either the continuation fails, or everything read / written is one valid JSON text.

import (
	"bytes"
	"fmt"
	"io"
	"strings"

	"github.com/go-json-experiment/json"
	"github.com/go-json-experiment/json/jsontext"

	"verif/ref"
	"verif/run"
)

type resumeArgs struct {
	Side  string `json:"side"`  // decoder | encoder
	Shape int    `json:"shape"` // index into resumeDec / resumeEnc
	Dup   int    `json:"dup"`   // which of the shape's continuations (some repeat a name, some do not)
	Route string `json:"route"` // decoder: token | value | skip  (how the rest is drained)
}

type resN1 struct {
	A []int
	B int
}
type resN2 struct {
	S resN1
	T int
}
type resN3 struct {
	M map[string][]int
	B int
}
type resE1 struct {
	A []any
	B int
}
type resE2 struct {
	S resE1
	T int
}

// decoder shapes: the call fails at the string "x"; tails[i] is what follows in the input
var resumeDec = []struct {
	target func() any
	head   string
	tails  []string
}{
	{func() any { return new(resN1) }, `{"A":[1,"x"`, []string{`],"B":1,"B":2}`, `],"A":[2]}`, `,3],"z":1,"z":2}`, `],"B":1}`}},
	{func() any { return new(resN2) }, `{"S":{"A":[1,"x"`, []string{`],"B":1},"T":1,"T":2}`, `],"B":1},"S":{}}`, `],"B":1,"B":2},"T":1}`, `]},"T":1}`}},
	{func() any { return new(resN3) }, `{"M":{"k":[1,"x"`, []string{`],"j":[]},"B":1,"B":2}`, `],"k":[2]},"B":1}`, `]},"M":{}}`, `]},"B":1}`}},
	{func() any { return new(map[string]resN1) }, `{"a":{"A":[1,"x"`, []string{`]},"b":{},"b":{}}`, `],"A":[]},"b":{}}`, `]},"a":{}}`, `]},"b":{}}`}},
	{func() any { return new([]resN1) }, `[{"A":[1,"x"`, []string{`],"B":1,"B":2}]`, `]},{"B":1,"B":2}]`, `],"A":[]}]`, `]}]`}},
}

// encoder shapes: the call fails at the channel; conts[i] are the token calls the caller goes on with
var resumeEnc = []struct {
	value func() any
	conts [][]jsontext.Token
}{
	{func() any { return resE1{A: []any{1.0, make(chan int)}, B: 2} }, [][]jsontext.Token{
		{jsontext.EndArray, jsontext.String("A"), jsontext.Int(0), jsontext.EndObject},
		{jsontext.EndArray, jsontext.String("B"), jsontext.Int(0), jsontext.String("B"), jsontext.Int(1), jsontext.EndObject},
		{jsontext.EndArray, jsontext.String("B"), jsontext.Int(0), jsontext.EndObject},
	}},
	{func() any { return resE2{S: resE1{A: []any{make(chan int)}, B: 2}, T: 3} }, [][]jsontext.Token{
		{jsontext.EndArray, jsontext.EndObject, jsontext.String("S"), jsontext.Null, jsontext.EndObject},
		{jsontext.EndArray, jsontext.String("A"), jsontext.Null, jsontext.EndObject, jsontext.EndObject},
		{jsontext.EndArray, jsontext.EndObject, jsontext.String("T"), jsontext.Int(1), jsontext.String("T"), jsontext.Int(2), jsontext.EndObject},
		{jsontext.EndArray, jsontext.EndObject, jsontext.String("T"), jsontext.Int(1), jsontext.EndObject},
	}},
	{func() any { return map[string]any{"k": []any{make(chan int)}} }, [][]jsontext.Token{
		{jsontext.EndArray, jsontext.String("k"), jsontext.Null, jsontext.EndObject},
		{jsontext.EndArray, jsontext.String("j"), jsontext.Null, jsontext.EndObject},
	}},
}

func runResume(w *run.W, a *resumeArgs) {
	w.Eval(1)
	sig := map[string]string{"side": a.Side, "shape": fmt.Sprint(a.Shape), "route": a.Route}
	switch a.Side {
	case "decoder":
		sh := resumeDec[a.Shape%len(resumeDec)]
		text := sh.head + sh.tails[a.Dup%len(sh.tails)]
		valid := ref.Parse([]byte(text), ref.Opts{}) != nil
		d := jsontext.NewDecoder(strings.NewReader(text))
		err := json.UnmarshalDecode(d, sh.target())
		if err == nil {
			w.Broken("resume: the planted kind mismatch did not fail: %s", text)
			return
		}
		w.Count("resume_failed_calls", 1)
		w.Shape(fmt.Sprintf("resume|dec|%d|%d|%s", a.Shape, a.Dup, a.Route))
		var derr error
		for steps := 0; steps < 200 && derr == nil; steps++ {
			switch {
			case a.Route == "value" && d.StackDepth() > 0 && d.PeekKind() != '}' && d.PeekKind() != ']':
				_, derr = d.ReadValue()
			case a.Route == "skip" && d.StackDepth() > 0 && d.PeekKind() != '}' && d.PeekKind() != ']':
				derr = d.SkipValue()
			default:
				_, derr = d.ReadToken()
			}
		}
		if derr == io.EOF && d.StackDepth() == 0 {
			w.Count("resume_continuations_completed", 1)
			if !valid {
				w.Violate("resume-duplicate-accepted", sig, "after UnmarshalDecode failed (%v) the caller drained the Decoder to a clean io.EOF, i.e. the Decoder accepted %s, which repeats a member name", err, text)
			}
		} else {
			w.Count("resume_continuations_refused", 1)
		}
	case "encoder":
		sh := resumeEnc[a.Shape%len(resumeEnc)]
		var buf bytes.Buffer
		e := jsontext.NewEncoder(&buf)
		err := json.MarshalEncode(e, sh.value(), json.Deterministic(true))
		if err == nil {
			w.Broken("resume: marshaling a channel did not fail")
			return
		}
		w.Count("resume_failed_calls", 1)
		w.Shape(fmt.Sprintf("resume|enc|%d|%d", a.Shape, a.Dup))
		var werr error
		for _, t := range sh.conts[a.Dup%len(sh.conts)] {
			if werr = e.WriteToken(t); werr != nil {
				break
			}
		}
		if werr == nil && e.StackDepth() == 0 {
			w.Count("resume_continuations_completed", 1)
			out := bytes.TrimSpace(buf.Bytes())
			if ref.Parse(out, ref.Opts{}) == nil {
				w.Violate("resume-duplicate-emitted", sig, "after MarshalEncode failed (%v) the caller completed the value with token calls that all succeeded; the Encoder delivered %s, which is not valid under its options", err, out)
			}
		} else {
			w.Count("resume_continuations_refused", 1)
		}
	default:
		w.Broken("resume: unknown side %q", a.Side)
	}
}

func generateResume(w *run.W) {
	i := 3_000_000
	for rep := 0; rep < w.Pick(2, 10); rep++ {
		for s := range resumeDec {
			for dup := range resumeDec[s].tails {
				for _, route := range []string{"token", "value", "skip"} {
					if i++; w.Mine(i) {
						w.Do("resume", &resumeArgs{Side: "decoder", Shape: s, Dup: dup, Route: route})
					}
				}
			}
		}
		for s := range resumeEnc {
			for dup := range resumeEnc[s].conts {
				if i++; w.Mine(i) {
					w.Do("resume", &resumeArgs{Side: "encoder", Shape: s, Dup: dup})
				}
			}
		}
	}
}

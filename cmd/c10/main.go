// C10 — numbers are converted exactly in both directions.
//
// Format direction: every float text produced by the library is judged by an exact
// math/big checker (round trip, shortest, closest, ECMA-262 layout); integers are compared
// with big.Int.String.  Parse direction: every literal is decided by math/big (ref.Float,
// big.Int bounds) for all integer and float destination types, bare and quoted (string tag,
// StringifyNumbers, map keys), and for the Token accessors.
package main

import (
	"bytes"
	"errors"
	"fmt"
	"math"
	"math/big"
	"runtime"
	"runtime/debug"
	"strconv"
	"strings"

	json "github.com/go-json-experiment/json"
	"github.com/go-json-experiment/json/jsontext"

	"verif/gen"
	"verif/ref"
	"verif/run"
)

var chk = ref.NewFloatChecker()

// ---------------------------------------------------------------------------------
// destination types

type number interface {
	~int8 | ~int16 | ~int32 | ~int64 | ~int | ~uint8 | ~uint16 | ~uint32 | ~uint64 | ~uint | ~uintptr | ~float32 | ~float64
}

type tagged[T any] struct {
	V T `json:",string"`
}

const (
	rBare = iota
	rTag
	rStringify
	rMapKey
	nRoutes
)

var routeNames = [nRoutes]string{"bare", "string-tag", "stringify-option", "map-key"}

// result of decoding through a route
type decoded struct {
	i     *big.Int // integer targets
	f     float64  // float targets (widened)
	extra string   // harness-level oddity (e.g. map with ≠1 keys)
}

type target struct {
	name     string
	float    bool
	bits     int
	signed   bool
	min, max *big.Int
	dec      func(route int, text string) (decoded, error)
	enc      func(route int, d decoded) ([]byte, error)
}

func wrapIn(route int, text string) []byte {
	switch route {
	case rBare:
		return []byte(text)
	case rTag:
		return []byte(`{"V":"` + text + `"}`)
	case rStringify:
		return []byte(`"` + text + `"`)
	default:
		return []byte(`{"` + text + `":true}`)
	}
}

func wrapOut(route int, text string) string {
	switch route {
	case rBare:
		return text
	case rTag:
		return `{"V":"` + text + `"}`
	case rStringify:
		return `"` + text + `"`
	default:
		return `{"` + text + `":true}`
	}
}

func toDecoded[T number](v T, float bool) decoded {
	if float {
		return decoded{f: float64(v)}
	}
	if v < 0 {
		return decoded{i: big.NewInt(int64(v))}
	}
	return decoded{i: new(big.Int).SetUint64(uint64(v))}
}

func fromDecoded[T number](d decoded, float bool) T {
	if float {
		return T(d.f)
	}
	if d.i.Sign() < 0 {
		return T(d.i.Int64())
	}
	u := d.i.Uint64()
	return T(u)
}

func mkTarget[T number](name string, float bool, bits int, signed bool) *target {
	t := &target{name: name, float: float, bits: bits, signed: signed}
	if !float {
		one := big.NewInt(1)
		if signed {
			t.max = new(big.Int).Sub(new(big.Int).Lsh(one, uint(bits-1)), one)
			t.min = new(big.Int).Neg(new(big.Int).Lsh(one, uint(bits-1)))
		} else {
			t.max = new(big.Int).Sub(new(big.Int).Lsh(one, uint(bits)), one)
			t.min = big.NewInt(0)
		}
	}
	t.dec = func(route int, text string) (decoded, error) {
		in := wrapIn(route, text)
		switch route {
		case rBare:
			var v T
			err := json.Unmarshal(in, &v)
			return toDecoded(v, float), err
		case rTag:
			var v tagged[T]
			err := json.Unmarshal(in, &v)
			return toDecoded(v.V, float), err
		case rStringify:
			var v T
			err := json.Unmarshal(in, &v, json.StringifyNumbers(true))
			return toDecoded(v, float), err
		default:
			var m map[T]bool
			err := json.Unmarshal(in, &m)
			if err != nil {
				return decoded{}, err
			}
			if len(m) != 1 {
				return decoded{extra: fmt.Sprintf("map has %d keys", len(m))}, nil
			}
			for k, b := range m {
				d := toDecoded(k, float)
				if !b {
					d.extra = "map value lost"
				}
				return d, nil
			}
			panic("unreachable")
		}
	}
	t.enc = func(route int, d decoded) ([]byte, error) {
		v := fromDecoded[T](d, float)
		switch route {
		case rBare:
			return json.Marshal(v)
		case rTag:
			return json.Marshal(tagged[T]{v})
		case rStringify:
			return json.Marshal(v, json.StringifyNumbers(true))
		default:
			return json.Marshal(map[T]bool{v: true})
		}
	}
	return t
}

var intTargets = []*target{
	mkTarget[int8]("int8", false, 8, true),
	mkTarget[int16]("int16", false, 16, true),
	mkTarget[int32]("int32", false, 32, true),
	mkTarget[int64]("int64", false, 64, true),
	mkTarget[int]("int", false, strconv.IntSize, true),
	mkTarget[uint8]("uint8", false, 8, false),
	mkTarget[uint16]("uint16", false, 16, false),
	mkTarget[uint32]("uint32", false, 32, false),
	mkTarget[uint64]("uint64", false, 64, false),
	mkTarget[uint]("uint", false, strconv.IntSize, false),
	mkTarget[uintptr]("uintptr", false, strconv.IntSize, false),
}

var floatTargets = []*target{
	mkTarget[float32]("float32", true, 32, true),
	mkTarget[float64]("float64", true, 64, true),
}

func fbits(f float64, bits int) uint64 {
	if bits == 32 {
		return uint64(math.Float32bits(float32(f)))
	}
	return math.Float64bits(f)
}

// ---------------------------------------------------------------------------------
// exact expectations for a literal

var (
	minI64 = new(big.Int).Neg(new(big.Int).Lsh(big.NewInt(1), 63))
	maxI64 = new(big.Int).Sub(new(big.Int).Lsh(big.NewInt(1), 63), big.NewInt(1))
	maxU64 = new(big.Int).Sub(new(big.Int).Lsh(big.NewInt(1), 64), big.NewInt(1))
	zero   = big.NewInt(0)
)

func clamp(x, lo, hi *big.Int) *big.Int {
	if x.Cmp(lo) < 0 {
		return lo
	}
	if x.Cmp(hi) > 0 {
		return hi
	}
	return x
}

// exactTrunc is the literal's exact value truncated toward zero (nil = "beyond ±10^30",
// the sign tells which side).
func exactTrunc(p ref.NumParts) (v *big.Int, huge bool) {
	if p.Digits == "" {
		return big.NewInt(0), false
	}
	mag := int64(len(p.Digits)) + p.Exp10
	if mag > 30 {
		return nil, true
	}
	if mag <= 0 {
		return big.NewInt(0), false
	}
	d := p.Digits
	if p.Exp10 >= 0 {
		d += strings.Repeat("0", int(p.Exp10))
	} else {
		d = d[:int64(len(d))+p.Exp10]
	}
	v, _ = new(big.Int).SetString(d, 10)
	if p.Neg {
		v.Neg(v)
	}
	return v, false
}

// accessorWant describes what Token.Int / Token.Uint must report for a literal.
type accessorWant struct {
	class string     // "ok" | "syntax" | "range"
	vals  []*big.Int // acceptable values
}

func wantAccessor(lit string, p ref.NumParts, signed bool) accessorWant {
	lo, hi := minI64, maxI64
	if !signed {
		lo, hi = zero, maxU64
	}
	sat := func(v *big.Int, huge bool) *big.Int {
		if huge {
			if p.Neg {
				return lo
			}
			return hi
		}
		return clamp(v, lo, hi)
	}
	isInt := !p.HasFrac && !p.HasExp
	if isInt && (signed || !p.Neg) {
		v, _ := new(big.Int).SetString(lit, 10)
		if v.Cmp(lo) >= 0 && v.Cmp(hi) <= 0 {
			return accessorWant{"ok", []*big.Int{v}}
		}
		return accessorWant{"range", []*big.Int{clamp(v, lo, hi)}}
	}
	// syntax: truncation of the exact value or of the float64 parse, saturated
	ev, huge := exactTrunc(p)
	w := accessorWant{class: "syntax", vals: []*big.Int{sat(ev, huge)}}
	ff, over := ref.Float(lit, 64)
	if over {
		w.vals = append(w.vals, sat(nil, true))
	} else {
		fv, _ := new(big.Float).SetFloat64(ff).Int(nil)
		w.vals = append(w.vals, clamp(fv, lo, hi))
	}
	return w
}

func errClass(err error) string {
	switch {
	case err == nil:
		return "ok"
	case errors.Is(err, strconv.ErrSyntax):
		return "syntax"
	case errors.Is(err, strconv.ErrRange):
		return "range"
	}
	return "other"
}

func litForm(p ref.NumParts) string {
	b := func(n int) string {
		switch {
		case n == 0:
			return "0"
		case n == 1:
			return "1"
		case n <= 8:
			return "s"
		case n <= 17:
			return "m"
		case n <= 21:
			return "l"
		}
		return "x"
	}
	s := ""
	if p.Neg {
		s = "-"
	}
	s += "i" + b(p.IntLen)
	if p.HasFrac {
		s += "f" + b(p.FracLen)
	}
	if p.HasExp {
		s += "e" + b(p.ExpLen)
	}
	return s
}

// ---------------------------------------------------------------------------------
// parse direction

// checkLiteral runs one grammar-valid JSON number literal through every destination.
func checkLiteral(w *run.W, lit, stratum string) {
	p, ok := ref.SplitNumber(lit)
	if !ok {
		w.Broken("generator produced a non-number %q (stratum %s)", lit, stratum)
		return
	}
	w.Eval(1)
	form := litForm(p)
	isInt := !p.HasFrac && !p.HasExp
	var exact *big.Int
	if isInt {
		exact, _ = new(big.Int).SetString(lit, 10)
	}
	canon := ""
	if exact != nil {
		canon = exact.String()
	}

	// integer destinations
	for _, t := range intTargets {
		accept := isInt && (t.signed || !p.Neg) && exact.Cmp(t.min) >= 0 && exact.Cmp(t.max) <= 0
		for route := 0; route < nRoutes; route++ {
			d, err := t.dec(route, lit)
			w.Count("parse_int_calls", 1)
			sig := map[string]string{"type": t.name, "route": routeNames[route]}
			switch {
			case accept && err != nil:
				sig["want"] = "accept"
				w.Violate("int-parse", sig, "%s literal %s via %s: refused (%v) although it is an integer within [%s, %s]", t.name, lit, routeNames[route], err, t.min, t.max)
			case accept:
				if d.extra != "" || d.i.Cmp(exact) != 0 {
					sig["want"] = "exact"
					w.Violate("int-parse", sig, "%s literal %s via %s: decoded %v %s, want exactly %s", t.name, lit, routeNames[route], d.i, d.extra, exact)
					break
				}
				// and back: the exact decimal
				out, merr := t.enc(route, d)
				if merr != nil || string(out) != wrapOut(route, canon) {
					w.Violate("int-format", sig, "%s value %s via %s: Marshal = %q, %v; want %q", t.name, canon, routeNames[route], out, merr, wrapOut(route, canon))
				}
				w.Count("int_accepted", 1)
			case err == nil:
				sig["want"] = "refuse"
				sig["why"] = refuseWhy(p, isInt, t)
				w.Violate("int-parse", sig, "%s literal %s via %s: accepted as %v, but it must be refused (%s)", t.name, lit, routeNames[route], d.i, sig["why"])
			default:
				w.Count("int_refused_"+refuseWhy(p, isInt, t), 1)
				var se *json.SemanticError
				if !errors.As(err, &se) {
					sig["want"] = "semantic-error"
					w.Violate("int-parse", sig, "%s literal %s via %s: refused with %T (%v), not a *SemanticError although the text is valid JSON", t.name, lit, routeNames[route], err, err)
				}
			}
		}
		w.Shape(t.name + "|" + stratum + "|" + form)
	}

	// float destinations
	for _, t := range floatTargets {
		want, over := ref.Float(lit, t.bits)
		for route := 0; route < nRoutes; route++ {
			d, err := t.dec(route, lit)
			w.Count("parse_float_calls", 1)
			sig := map[string]string{"type": t.name, "route": routeNames[route]}
			switch {
			case over && err == nil:
				sig["want"] = "refuse"
				w.Violate("float-parse", sig, "%s literal %s via %s: accepted as %v although it overflows", t.name, run.Trunc(lit, 400), routeNames[route], d.f)
			case over:
				w.Count("float_overflow_refused", 1)
			case err != nil:
				sig["want"] = "accept"
				w.Violate("float-parse", sig, "%s literal %s via %s: refused (%v); exact rounding is %v", t.name, run.Trunc(lit, 400), routeNames[route], err, want)
			case d.extra != "" || fbits(d.f, t.bits) != fbits(want, t.bits):
				sig["want"] = "correctly-rounded"
				w.Violate("float-parse", sig, "%s literal %s via %s: decoded %v (bits %#x) %s, correctly rounded value is %v (bits %#x)",
					t.name, run.Trunc(lit, 400), routeNames[route], d.f, fbits(d.f, t.bits), d.extra, want, fbits(want, t.bits))
			default:
				w.Count("float_parsed_exact", 1)
			}
		}
		w.Shape(t.name + "|" + stratum + "|" + form)
	}

	// token accessors on the raw token
	dec := jsontext.NewDecoder(bytes.NewReader([]byte(lit)))
	tok, err := dec.ReadToken()
	if err != nil || tok.Kind() != '0' {
		w.Violate("token-read", nil, "ReadToken on number literal %s: %v kind %v", run.Trunc(lit, 200), err, tok.Kind())
		return
	}
	checkAccessors(w, tok, lit, p, "raw", true, "")
	w.Count("token_raw", 1)
	w.Shape("token|" + stratum + "|" + form)
}

func refuseWhy(p ref.NumParts, isInt bool, t *target) string {
	switch {
	case !isInt:
		return "fraction-or-exponent"
	case !t.signed && p.Neg:
		return "minus-on-unsigned"
	}
	return "out-of-range"
}

// checkAccessors compares Token.Int/Uint/Float/Float32 with the exact expectations for the
// token's text lit.  alt, if not empty, is a second admissible reading of the same token (a token
// constructed from a Go float stands for the exact binary value as much as for its shortest text).
func checkAccessors(w *run.W, tok jsontext.Token, lit string, p ref.NumParts, origin string, with32 bool, alt string) {
	readings := []accessorWant{wantAccessor(lit, p, true)}
	ureadings := []accessorWant{wantAccessor(lit, p, false)}
	if alt != "" && alt != lit {
		ap, ok := ref.SplitNumber(alt)
		if !ok {
			w.Broken("alternative reading %q is not a number", alt)
			return
		}
		readings = append(readings, wantAccessor(alt, ap, true))
		ureadings = append(ureadings, wantAccessor(alt, ap, false))
	}
	match := func(rs []accessorWant, class string, v *big.Int) (bool, bool) {
		classOK, valOK := false, false
		for _, r := range rs {
			if r.class == class && oneOf(v, r.vals) {
				return true, true
			}
			classOK = classOK || r.class == class
			valOK = valOK || oneOf(v, r.vals)
		}
		return classOK, valOK
	}
	iv, ierr := tok.Int()
	if cok, vok := match(readings, errClass(ierr), big.NewInt(iv)); !cok || !vok {
		w.Violate("token-int", map[string]string{"origin": origin, "want": readings[0].class, "got": errClass(ierr), "value_ok": fmt.Sprint(vok)},
			"Token(%s).Int() [%s token] = %d, %v; want class %s value in %v (alternative reading %q)", run.Trunc(lit, 200), origin, iv, ierr, readings[0].class, readings[0].vals, run.Trunc(alt, 60))
	}
	uv, uerr := tok.Uint()
	if cok, vok := match(ureadings, errClass(uerr), new(big.Int).SetUint64(uv)); !cok || !vok {
		w.Violate("token-uint", map[string]string{"origin": origin, "want": ureadings[0].class, "got": errClass(uerr), "value_ok": fmt.Sprint(vok)},
			"Token(%s).Uint() [%s token] = %d, %v; want class %s value in %v (alternative reading %q)", run.Trunc(lit, 200), origin, uv, uerr, ureadings[0].class, ureadings[0].vals, run.Trunc(alt, 60))
	}
	w.Count("token_class_int_"+readings[0].class, 1)
	w.Count("token_class_uint_"+ureadings[0].class, 1)
	fv, ferr := tok.Float()
	wf, over := ref.Float(lit, 64)
	wc := "ok"
	if over {
		wc = "range"
	}
	if c := errClass(ferr); c != wc || math.Float64bits(fv) != math.Float64bits(wf) {
		w.Violate("token-float", map[string]string{"origin": origin, "bits": "64", "want": wc, "got": c},
			"Token(%s).Float() [%s token] = %v (%#x), %v; want %v (%#x) class %s", run.Trunc(lit, 200), origin, fv, math.Float64bits(fv), ferr, wf, math.Float64bits(wf), wc)
	}
	if with32 {
		f32, ferr := tok.Float32()
		wf, over := ref.Float(lit, 32)
		wc := "ok"
		if over {
			wc = "range"
		}
		if c := errClass(ferr); c != wc || math.Float32bits(f32) != math.Float32bits(float32(wf)) {
			w.Violate("token-float", map[string]string{"origin": origin, "bits": "32", "want": wc, "got": c},
				"Token(%s).Float32() [%s token] = %v, %v; want %v class %s", run.Trunc(lit, 200), origin, f32, ferr, float32(wf), wc)
		}
	}
}

// exactDecimal is the full decimal expansion of a finite float64.
func exactDecimal(f float64) string {
	r := new(big.Rat).SetFloat64(f)
	if r.IsInt() {
		return r.Num().String()
	}
	s := strings.TrimRight(r.FloatString(1100), "0")
	return s
}

func oneOf(v *big.Int, set []*big.Int) bool {
	for _, s := range set {
		if v.Cmp(s) == 0 {
			return true
		}
	}
	return false
}

// checkQuotedText: an arbitrary (escape-free) string content through the quoted routes:
// accepted iff it is a JSON number that the destination can hold.
func checkQuotedText(w *run.W, text string) {
	w.Eval(1)
	p, isNum := ref.SplitNumber(text)
	if isNum {
		return // covered by checkLiteral
	}
	_ = p
	for _, ts := range [][]*target{intTargets, floatTargets} {
		for _, t := range ts {
			for route := rTag; route < nRoutes; route++ {
				d, err := t.dec(route, text)
				w.Count("quoted_nonnumber_calls", 1)
				if err == nil {
					w.Violate("quoted-non-number", map[string]string{"type": t.name, "route": routeNames[route]},
						"%s via %s: string %q is not a JSON number but was accepted as %v/%v", t.name, routeNames[route], text, d.i, d.f)
				}
			}
		}
	}
	w.Shape("quoted-non-number|" + text)
}

// ---------------------------------------------------------------------------------
// format direction

func violFmt(w *run.W, clause, typ, api string, f float64, bits int, s string) {
	w.Violate("float-format", map[string]string{"clause": clause, "type": typ, "api": api},
		"%s of %s %v (bits %#x) = %q violates clause %q (round trip / shortest / closest / ECMA-262 layout, −0 kept)", api, typ, f, fbits(f, bits), s, clause)
}

func layoutClass(s string) string {
	switch {
	case strings.Contains(s, "e+"):
		return "exp+"
	case strings.Contains(s, "e-"):
		return "exp-"
	case strings.HasPrefix(strings.TrimPrefix(s, "-"), "0."):
		return "frac"
	case strings.Contains(s, "."):
		return "point"
	}
	return "int"
}

func layoutCode(s []byte) uint32 {
	if i := bytes.IndexByte(s, 'e'); i >= 0 {
		if s[i+1] == '-' {
			return 2
		}
		return 1
	}
	if bytes.IndexByte(s, '.') >= 0 {
		if bytes.HasPrefix(s, []byte("0.")) || bytes.HasPrefix(s, []byte("-0.")) {
			return 3
		}
		return 4
	}
	return 0
}

type f64Args struct {
	Stratum string   `json:"stratum"`
	Bits    []uint64 `json:"bits"`
	Mid     int      `json:"mid,omitempty"` // n>0: also decode the midpoint literals above every n-th value
}

type f32Args struct {
	Stratum string   `json:"stratum"`
	Bits    []uint32 `json:"bits"`
	Mid     int      `json:"mid,omitempty"`
}

// checkFloat: all formatting routes agree on a text that the exact checker accepts, and
// all parsing routes return the identical bits.
func checkFloat(w *run.W, f float64, bits int, stratum string, mid bool) {
	if math.IsNaN(f) || math.IsInf(f, 0) {
		return
	}
	w.Eval(1)
	typ := "float64"
	t := floatTargets[1]
	if bits == 32 {
		typ, t = "float32", floatTargets[0]
	}
	s := string(jsontext.AppendFloat(nil, f, bits))
	if c := chk.Check(f, bits, s); c != "" {
		violFmt(w, c, typ, "AppendFloat", f, bits, s)
	}
	w.Count("format_checked_"+typ, 1)
	w.Count("layout_"+layoutClass(s), 1)
	d := decoded{f: f}
	for route := 0; route < nRoutes; route++ {
		out, err := t.enc(route, d)
		if err != nil || string(out) != wrapOut(route, s) {
			w.Violate("float-format-route", map[string]string{"type": typ, "route": routeNames[route]},
				"Marshal of %s %v via %s = %q, %v; AppendFloat gives %q", typ, f, routeNames[route], out, err, s)
		}
		back, err := t.dec(route, s)
		if err != nil || back.extra != "" || fbits(back.f, bits) != fbits(f, bits) {
			w.Violate("float-roundtrip", map[string]string{"type": typ, "route": routeNames[route]},
				"%s %v (bits %#x) formatted as %s decodes via %s to %v (bits %#x) %v %s", typ, f, fbits(f, bits), s, routeNames[route], back.f, fbits(back.f, bits), err, back.extra)
		}
	}
	// tokens and untyped values
	var tok jsontext.Token
	if bits == 32 {
		tok = jsontext.Float32(float32(f))
	} else {
		tok = jsontext.Float(f)
	}
	var buf bytes.Buffer
	enc := jsontext.NewEncoder(&buf)
	if err := enc.WriteToken(tok); err != nil || strings.TrimSuffix(buf.String(), "\n") != s {
		w.Violate("float-format-route", map[string]string{"type": typ, "route": "token"},
			"WriteToken(Float(%v)) = %q, %v; AppendFloat gives %q", f, buf.String(), err, s)
	}
	if bits == 64 {
		out, err := json.Marshal(any(f))
		if err != nil || string(out) != s {
			w.Violate("float-format-route", map[string]string{"type": typ, "route": "any"}, "Marshal(any(%v)) = %q, %v; AppendFloat gives %q", f, out, err, s)
		}
		// (a float64 passed directly has the static type float64; only a value HELD in an interface takes the untyped route)
		out, err = json.Marshal([]any{f, map[string]any{"k": f}})
		if want := "[" + s + `,{"k":` + s + "}]"; err != nil || string(out) != want {
			w.Violate("float-format-route", map[string]string{"type": typ, "route": "held-in-any"}, "Marshal([]any{%v, map[string]any{k: %v}}) = %q, %v; want %q", f, f, out, err, want)
		}
		var held any = f
		out, err = json.Marshal(&held, json.Deterministic(true))
		if err != nil || string(out) != s {
			w.Violate("float-format-route", map[string]string{"type": typ, "route": "pointer-to-any"}, "Marshal(&any(%v)) = %q, %v; AppendFloat gives %q", f, out, err, s)
		}
		var back any
		if err := json.Unmarshal([]byte(s), &back); err != nil {
			w.Violate("float-roundtrip", map[string]string{"type": typ, "route": "any"}, "Unmarshal(%s, &any): %v", s, err)
		} else if g, ok := back.(float64); !ok || math.Float64bits(g) != math.Float64bits(f) {
			w.Violate("float-roundtrip", map[string]string{"type": typ, "route": "any"}, "Unmarshal(%s, &any) = %v (%T), want %v", s, back, back, f)
		}
	}
	w.Shape(fmt.Sprintf("%s|%s|fmt|%s|%d", typ, stratum, layoutClass(s), len(strings.Trim(s, "-0.e+"))/4))
	if mid {
		sign := ""
		if math.Signbit(f) {
			sign = "-"
		}
		for _, l := range ref.MidpointLiterals(f, bits) {
			checkFloatLiteral(w, sign+l, "midpoint-"+typ)
			w.Count("midpoint_literals", 1)
		}
	}
}

// checkFloatLiteral: float destinations only (long literals).
func checkFloatLiteral(w *run.W, lit, stratum string) {
	w.Eval(1)
	for _, t := range floatTargets {
		want, over := ref.Float(lit, t.bits)
		for _, route := range []int{rBare, rStringify} {
			d, err := t.dec(route, lit)
			w.Count("parse_float_calls", 1)
			sig := map[string]string{"type": t.name, "route": routeNames[route]}
			switch {
			case over && err == nil:
				sig["want"] = "refuse"
				w.Violate("float-parse", sig, "%s literal %s via %s: accepted as %v although it overflows", t.name, run.Trunc(lit, 400), routeNames[route], d.f)
			case over:
				w.Count("float_overflow_refused", 1)
			case err != nil:
				sig["want"] = "accept"
				w.Violate("float-parse", sig, "%s literal %s via %s: refused (%v)", t.name, run.Trunc(lit, 400), routeNames[route], err)
			case fbits(d.f, t.bits) != fbits(want, t.bits):
				sig["want"] = "correctly-rounded"
				w.Violate("float-parse", sig, "%s literal %s via %s: decoded %v (bits %#x), correctly rounded value is %v (bits %#x)",
					t.name, run.Trunc(lit, 400), routeNames[route], d.f, fbits(d.f, t.bits), want, fbits(want, t.bits))
			default:
				w.Count("float_parsed_exact", 1)
			}
		}
	}
	w.Shape("float|" + stratum + "|len" + strconv.Itoa(len(lit)/32))
}

// ---------------------------------------------------------------------------------
// float32 sweep

type sweepArgs struct {
	Start  uint32 `json:"start"`
	Count  uint64 `json:"count"`
	Stride uint32 `json:"stride"`
}

func sweep32(w *run.W, a *sweepArgs) {
	const batch = 512
	var text []byte
	var pats []uint32
	seen := map[uint32]bool{}
	var nonfinite, checked int64
	flush := func() {
		if len(pats) == 0 {
			return
		}
		text = append(text, ']')
		var got []float32
		if err := json.Unmarshal(text, &got); err != nil || len(got) != len(pats) {
			w.Violate("float-roundtrip", map[string]string{"type": "float32", "route": "slice"},
				"Unmarshal of %d formatted float32 values: %v (len %d); text starts %s", len(pats), err, len(got), run.Trunc(string(text), 200))
		} else {
			for i, g := range got {
				if math.Float32bits(g) != pats[i] {
					w.Violate("float-roundtrip", map[string]string{"type": "float32", "route": "slice"},
						"float32 bits %#x formatted as %s decodes to bits %#x", pats[i], jsontext.AppendFloat(nil, float64(math.Float32frombits(pats[i])), 32), math.Float32bits(g))
				}
			}
		}
		text, pats = text[:0], pats[:0]
	}
	var sbuf []byte
	pat := a.Start
	for i := uint64(0); i < a.Count; i++ {
		if i > 0 {
			pat += a.Stride
		}
		if i%65536 == 65535 {
			w.Beat()
		}
		if pat&0x7f800000 == 0x7f800000 {
			nonfinite++
			continue
		}
		f := float64(math.Float32frombits(pat))
		sbuf = jsontext.AppendFloat(sbuf[:0], f, 32)
		if c := chk.CheckBytes(f, 32, sbuf); c != "" {
			violFmt(w, c, "float32", "AppendFloat", f, 32, string(sbuf))
		}
		checked++
		if len(pats) == 0 {
			text = append(text, '[')
		} else {
			text = append(text, ',')
		}
		text = append(text, sbuf...)
		pats = append(pats, pat)
		if len(pats) == batch {
			flush()
		}
		// shape: (biased exponent, digit count, layout)
		key := pat>>23&0xff<<8 | uint32(chk.K)<<3 | layoutCode(sbuf)
		if !seen[key] {
			seen[key] = true
			w.Shape(fmt.Sprintf("float32|sweep|%#x", key))
		}
	}
	flush()
	w.Eval(checked)
	w.Count("f32_sweep_checked", checked)
	w.Count("f32_sweep_nonfinite_skipped", nonfinite)
	w.Count("format_checked_float32", checked)
}

// ---------------------------------------------------------------------------------
// constructed tokens

type tokArgs struct {
	Ints   []int64  `json:"ints,omitempty"`
	Uints  []uint64 `json:"uints,omitempty"`
	Floats []uint64 `json:"floats,omitempty"` // float64 bit patterns
	F32    []uint32 `json:"f32,omitempty"`
}

func tokenText(w *run.W, tok jsontext.Token) (string, bool) {
	var buf bytes.Buffer
	enc := jsontext.NewEncoder(&buf)
	if err := enc.WriteToken(tok); err != nil {
		w.Violate("token-write", nil, "WriteToken(%v): %v", tok, err)
		return "", false
	}
	return strings.TrimSuffix(buf.String(), "\n"), true
}

func checkConstructed(w *run.W, a *tokArgs) {
	one := func(tok jsontext.Token, origin, want string, with64 bool, alt string) {
		w.Eval(1)
		w.Count("token_constructed", 1)
		lit, ok := tokenText(w, tok)
		if !ok {
			return
		}
		if want != "" && lit != want {
			w.Violate("int-format", map[string]string{"type": "token", "route": "token"}, "token text %q, want %q", lit, want)
		}
		p, ok := ref.SplitNumber(lit)
		if !ok {
			w.Violate("token-write", nil, "token %v is written as %q, not a JSON number", tok, lit)
			return
		}
		if with64 {
			checkAccessors(w, tok, lit, p, origin, false, alt)
		}
		w.Shape("token-constructed|" + litForm(p) + "|" + fmt.Sprint(with64))
	}
	for _, v := range a.Ints {
		one(jsontext.Int(v), "constructed-int", big.NewInt(v).String(), true, "")
	}
	for _, v := range a.Uints {
		one(jsontext.Uint(v), "constructed-uint", new(big.Int).SetUint64(v).String(), true, "")
	}
	for _, b := range a.Floats {
		f := math.Float64frombits(b)
		if math.IsNaN(f) || math.IsInf(f, 0) {
			continue
		}
		one(jsontext.Float(f), "constructed-float", "", true, exactDecimal(f))
		// Float32() of a token made from a float64: the correctly rounded float32 of the EXACT value held,
		// a range error precisely when that rounding leaves the float32 range
		g, gerr := jsontext.Float(f).Float32()
		wf, over := ref.Float(exactDecimal(f), 32)
		if f == 0 {
			wf = f // (the decimal expansion carries no sign for zero)
		}
		wc := "ok"
		if over {
			wc = "range"
		}
		w.Count("token_float64_as_float32_"+wc, 1)
		if c := errClass(gerr); c != wc || math.Float32bits(g) != math.Float32bits(float32(wf)) {
			w.Violate("token-float", map[string]string{"origin": "constructed-float", "bits": "32", "want": wc, "got": c},
				"Float(%v).Float32() = %v, %v; want %v class %s", f, g, gerr, float32(wf), wc)
		}
	}
	for _, b := range a.F32 {
		f := math.Float32frombits(b)
		if f != f || math.IsInf(float64(f), 0) {
			continue
		}
		tok := jsontext.Float32(f)
		one(tok, "constructed-float32", "", false, "")
		// a token made from a float32 reports that float32 and its exact widening
		g, err := tok.Float32()
		h, err2 := tok.Float()
		if err != nil || err2 != nil || math.Float32bits(g) != b || h != float64(f) {
			w.Violate("token-float", map[string]string{"origin": "constructed", "bits": "32"}, "Float32(%v) token: Float32() = %v, %v; Float() = %v, %v", f, g, err, h, err2)
		}
		// Int and Uint of a float32 token: truncation, saturation and the syntax/range classes apply to the
		// exact (widened) value; its shortest float32 text is the second admissible reading
		if lit32, ok := tokenText(w, tok); ok {
			exact := exactDecimal(float64(f))
			if p, ok := ref.SplitNumber(exact); ok {
				checkAccessors(w, tok, exact, p, "constructed-float32", false, lit32)
				w.Count("token_float32_int_uint_checked", 1)
			}
		}
	}
	// the three strings that Float documents as non-finite values
	for _, c := range []struct {
		s    string
		want float64
	}{{"NaN", math.NaN()}, {"Infinity", math.Inf(1)}, {"-Infinity", math.Inf(-1)}} {
		v, err := jsontext.String(c.s).Float()
		if err != nil || !(v == c.want || (math.IsNaN(v) && math.IsNaN(c.want))) {
			w.Violate("token-float", map[string]string{"origin": "string-token", "bits": "64"}, "String(%q).Float() = %v, %v; want %v", c.s, v, err, c.want)
		}
	}
}

// ---------------------------------------------------------------------------------

type litArgs struct {
	Stratum string   `json:"stratum"`
	Lits    []string `json:"lits"`
	Quoted  bool     `json:"quoted,omitempty"` // arbitrary texts for the quoted routes
}

var M = &run.Monitor{
	ID:    "C10",
	Level: "exploration",
	Rule: "format: float32 bit patterns (thorough: all 2^32, partitioned in 256 blocks; quick: every 1021st pattern from a seed-dependent offset) and float64 strata " +
		"(2047 exponents x 40 mantissa patterns x 2 signs, ±1000 ulps around the 1e-7/1e-6/1e20/1e21/1e22 layout switches and digit-count boundaries, powers of ten ±2 ulps, 2^53±k, subnormal and max regions, random bits) " +
		"are formatted by AppendFloat/Marshal (bare, string tag, StringifyNumbers, map key, any, Token) and each text is judged by an exact math/big checker; " +
		"parse: integer literals within ±2000 of ±2^k (k=7,8,15,16,31,32,63,64), 19-21 digit strings around 2^63/2^64 and random ones, random JSON number literals, exact midpoints between adjacent floats ± epsilon, " +
		"into 11 integer and 2 float types through 4 routes each plus Token.Int/Uint/Float/Float32, decided by big.Int/big.Rat. distinct = (destination type, stratum, literal form)",
	Assumptions: []string{
		"math/big integer and rational arithmetic (Rat.Float32/Float64 nearest-even) is exact; cross-checked against strconv in the oracle self-test",
		"on Token.Int/Uint syntax errors the 'reasonable value' may be the truncation of either the exact value or of its float64 rounding (both accepted), saturated at the type bounds",
		"when two equally long decimals are equally close to the float either is accepted (counted as ties)",
	},
	Floors: func(c map[string]int64, tier string) []string {
		var u []string
		need := func(k string, n int64) {
			if c[k] < n {
				u = append(u, fmt.Sprintf("%s=%d < %d", k, c[k], n))
			}
		}
		need("format_checked_float64", 30000)
		need("format_checked_float32", 300000)
		need("layout_exp+", 1000)
		need("layout_exp-", 1000)
		need("layout_frac", 1000)
		need("layout_int", 1000)
		need("int_accepted", 50000)
		need("int_refused_out-of-range", 50000)
		need("int_refused_fraction-or-exponent", 10000)
		need("int_refused_minus-on-unsigned", 10000)
		need("float_parsed_exact", 50000)
		need("float_overflow_refused", 100)
		need("midpoint_literals", 3000)
		need("token_raw", 10000)
		need("token_class_int_range", 500)
		need("token_class_int_syntax", 1000)
		need("token_class_uint_range", 300)
		need("token_constructed", 500)
		need("quoted_nonnumber_calls", 500)
		if tier == "thorough" {
			need("f32_sweep_checked", 4278190080) // every finite float32
		}
		return u
	},
	SelfTest: selfTest,
}

func main() {
	run.Def(M, "f32sweep", sweep32)
	run.Def(M, "f64", func(w *run.W, a *f64Args) {
		for i, b := range a.Bits {
			checkFloat(w, math.Float64frombits(b), 64, a.Stratum, a.Mid > 0 && i%a.Mid == 0)
		}
	})
	run.Def(M, "f32", func(w *run.W, a *f32Args) {
		for i, b := range a.Bits {
			checkFloat(w, float64(math.Float32frombits(b)), 32, a.Stratum, a.Mid > 0 && i%a.Mid == 0)
		}
	})
	run.Def(M, "lits", func(w *run.W, a *litArgs) {
		for _, l := range a.Lits {
			if a.Quoted {
				checkQuotedText(w, l)
			} else {
				checkLiteral(w, l, a.Stratum)
			}
		}
	})
	run.Def(M, "tokens", checkConstructed)
	M.Gen = generate
	// the workers are single-threaded and allocate little that lives: keep the collector quiet
	debug.SetGCPercent(800)
	runtime.GOMAXPROCS(2)
	run.Main(M)
}

// ---------------------------------------------------------------------------------
// workload

func generate(w *run.W) {
	ci := 0
	mine := func() bool { ci++; return w.Mine(ci) }

	// (1) float32 sweep
	if w.Thorough() {
		for blk := 0; blk < 256; blk++ {
			if mine() {
				w.Do("f32sweep", &sweepArgs{Start: uint32(blk) << 24, Count: 1 << 24, Stride: 1})
			}
		}
	} else {
		const stride = 1021
		off := uint32(w.Rand("sweep-offset").IntN(stride))
		total := (uint64(1)<<32 - uint64(off) + stride - 1) / stride
		const parts = 64
		per := (total + parts - 1) / parts
		for k := uint64(0); k < parts; k++ {
			if !mine() {
				continue
			}
			first := k * per
			cnt := per
			if first+cnt > total {
				cnt = total - first
			}
			w.Do("f32sweep", &sweepArgs{Start: off + uint32(first*stride), Count: cnt, Stride: stride})
		}
	}

	// (2) float64 strata
	emit64 := func(stratum string, bits []uint64, mid int) {
		const n = 256
		for i := 0; i < len(bits); i += n {
			j := min(i+n, len(bits))
			if mine() {
				w.Do("f64", &f64Args{Stratum: stratum, Bits: bits[i:j], Mid: mid})
			}
		}
	}
	emit32 := func(stratum string, bits []uint32, mid int) {
		const n = 256
		for i := 0; i < len(bits); i += n {
			j := min(i+n, len(bits))
			if mine() {
				w.Do("f32", &f32Args{Stratum: stratum, Bits: bits[i:j], Mid: mid})
			}
		}
	}
	{
		r := w.Rand("f64-mant")
		var bits []uint64
		for e := uint64(0); e <= 2046; e++ {
			m := []uint64{0, 1, 2, 3, 1<<52 - 1, 1<<52 - 2, 1 << 51, 1<<51 - 1, 1<<51 + 1, 0x5555555555555, 0xaaaaaaaaaaaaa, 1 << 26, 1 << 29, 1<<29 - 1}
			for len(m) < 40 {
				switch r.IntN(3) {
				case 0:
					m = append(m, r.Uint64()&(1<<52-1))
				case 1:
					m = append(m, r.Uint64()&(1<<52-1)&^(1<<uint(r.IntN(52))-1)) // trailing zeros
				default:
					m = append(m, uint64(1)<<uint(r.IntN(52))|uint64(r.IntN(4)))
				}
			}
			for i, mm := range m {
				b := e<<52 | mm
				if i%2 == 1 {
					b |= 1 << 63
				}
				bits = append(bits, b, b^(1<<63))
			}
		}
		emit64("exp-x-mant", bits, w.Pick(37, 5))
	}
	around64 := func(f float64, k int) []uint64 {
		b := math.Float64bits(f)
		var out []uint64
		for d := -k; d <= k; d++ {
			x := b + uint64(int64(d))
			if x&(1<<63) != 0 || x>>52 == 0x7ff {
				continue
			}
			out = append(out, x)
			if d%5 == 0 {
				out = append(out, x|1<<63)
			}
		}
		return out
	}
	{
		var bits []uint64
		for _, f := range []float64{1e-7, 1e-6, 1e-5, 1e20, 1e21, 1e22, 1e15, 1e16, 1e17, 1e23, 1 << 53, 1 << 63, 1 << 64, 1, 0.1, 0.3, 1e-10, 1e-9} {
			bits = append(bits, around64(f, 1000)...)
		}
		emit64("switch-neighbours", bits, w.Pick(7, 1))
	}
	{
		var bits []uint64
		for k := -323; k <= 308; k++ {
			f, _ := ref.Float("1e"+strconv.Itoa(k), 64)
			bits = append(bits, around64(f, 2)...)
			for _, d := range []string{"5", "25", "9", "99999999999999999", "12345678901234567", "2"} {
				g, over := ref.Float(d+"e"+strconv.Itoa(k), 64)
				if !over {
					bits = append(bits, math.Float64bits(g), math.Float64bits(-g))
				}
			}
		}
		emit64("pow10", bits, 1)
	}
	{
		var bits []uint64
		for k := -300; k <= 300; k++ {
			bits = append(bits, math.Float64bits(float64(int64(1)<<53+int64(k))), math.Float64bits(float64(k)), math.Float64bits(float64(k)*1e18), math.Float64bits(float64(k)/8))
		}
		for b := uint64(0); b <= 2000; b++ {
			bits = append(bits, b, b|1<<63, 1<<52-1000+b, 0x7fefffffffffffff-b, 0xffefffffffffffff-b)
		}
		emit64("ints-subnormal-max", bits, w.Pick(5, 1))
	}
	{
		r := w.Rand("f64-random")
		n := w.Pick(100000, 2000000)
		bits := make([]uint64, 0, n)
		for i := 0; i < n; i++ {
			switch i % 4 {
			case 0, 1:
				bits = append(bits, r.Uint64())
			case 2:
				// short decimals
				f := float64(r.Int64N(1_000_000_000)) / math.Pow(10, float64(r.IntN(25)))
				bits = append(bits, math.Float64bits(f))
			default:
				f := float64(r.Int64N(1<<53)) * math.Pow(10, float64(r.IntN(40)-20))
				bits = append(bits, math.Float64bits(f))
			}
		}
		emit64("random", bits, w.Pick(11, 11))
	}

	// (3) float32 targeted (all routes)
	around32 := func(f float32, k int) []uint32 {
		b := math.Float32bits(f)
		var out []uint32
		for d := -k; d <= k; d++ {
			x := b + uint32(int32(d))
			if x&(1<<31) != 0 || x>>23 == 0xff {
				continue
			}
			out = append(out, x)
			if d%5 == 0 {
				out = append(out, x|1<<31)
			}
		}
		return out
	}
	{
		var bits []uint32
		for _, f := range []float32{1e-7, 1e-6, 1e-5, 1e20, 1e21, 1e22, 1e7, 1e8, 1e9, 1 << 24, 1, 0.1, 0.3, 1e-10, 1e10} {
			bits = append(bits, around32(f, 1000)...)
		}
		emit32("switch-neighbours", bits, w.Pick(7, 1))
	}
	{
		var bits []uint32
		for k := -45; k <= 38; k++ {
			f, _ := ref.Float("1e"+strconv.Itoa(k), 32)
			bits = append(bits, around32(float32(f), 3)...)
		}
		for b := uint32(0); b <= 1000; b++ {
			bits = append(bits, b, b|1<<31, 1<<23-500+b, 0x7f7fffff-b, 0xff7fffff-b)
		}
		r := w.Rand("f32-mant")
		for e := uint32(0); e <= 254; e++ {
			for i := 0; i < 40; i++ {
				var m uint32
				switch i {
				case 0:
					m = 0
				case 1:
					m = 1
				case 2:
					m = 1<<23 - 1
				case 3:
					m = 1 << 22
				default:
					m = r.Uint32() & (1<<23 - 1)
				}
				bits = append(bits, e<<23|m, e<<23|m|1<<31)
			}
		}
		n := w.Pick(50000, 1000000)
		for i := 0; i < n; i++ {
			bits = append(bits, r.Uint32())
		}
		emit32("pow10-bounds-exp-random", bits, w.Pick(3, 3))
	}

	// (4) integer literals around the bounds
	emitLits := func(stratum string, lits []string, quoted bool) {
		const n = 200
		for i := 0; i < len(lits); i += n {
			j := min(i+n, len(lits))
			if mine() {
				w.Do("lits", &litArgs{Stratum: stratum, Lits: lits[i:j], Quoted: quoted})
			}
		}
	}
	{
		var lits []string
		for _, k := range []uint{7, 8, 15, 16, 31, 32, 63, 64} {
			for _, sign := range []int64{1, -1} {
				base := new(big.Int).Lsh(big.NewInt(1), k)
				base.Mul(base, big.NewInt(sign))
				for d := int64(-2000); d <= 2000; d++ {
					x := new(big.Int).Add(base, big.NewInt(d))
					lits = append(lits, x.String())
				}
			}
		}
		emitLits("pow2-bounds", lits, false)
	}
	{
		// 19–21 digit strings: near 2^63, 2^64, 10^19, 10^20 and random
		var lits []string
		for _, c := range []string{"9223372036854775808", "18446744073709551616", "10000000000000000000", "100000000000000000000", "20000000000000000000", "19999999999999999999", "18446744073709551616000"} {
			base, _ := new(big.Int).SetString(c, 10)
			for d := int64(-2000); d <= 2000; d += 1 {
				x := new(big.Int).Add(base, big.NewInt(d))
				lits = append(lits, x.String())
				if d%4 == 0 {
					lits = append(lits, "-"+x.String())
				}
			}
		}
		r := w.Rand("digits")
		n := w.Pick(10000, 100000)
		for i := 0; i < n; i++ {
			l := 19 + r.IntN(3)
			var sb strings.Builder
			if r.IntN(4) == 0 {
				sb.WriteByte('-')
			}
			first := byte('1' + r.IntN(9))
			if r.IntN(2) == 0 {
				first = '1'
			}
			sb.WriteByte(first)
			for j := 1; j < l; j++ {
				if r.IntN(3) == 0 {
					sb.WriteByte("0189"[r.IntN(4)])
				} else {
					sb.WriteByte(byte('0' + r.IntN(10)))
				}
			}
			lits = append(lits, sb.String())
		}
		emitLits("digits-19-21", lits, false)
	}
	{
		// random JSON number literals and the shared pool
		var lits []string
		for _, l := range gen.Numbers {
			if _, ok := ref.SplitNumber(l); ok {
				lits = append(lits, l)
			}
		}
		for _, l := range []string{"-0", "0", "-0.0", "0.0", "0e0", "-0e-5", "1.0", "1e0", "1E0", "10e-1", "1E2", "1e+2", "100e-2", "0.1e1", "1.5", "-1.5", "127.0", "255e0", "1e1", "1e19", "1e20", "18446744073709551615.0",
			"9223372036854775807.5", "-9223372036854775808.5", "9223372036854775808e0", "0.9999999999999999999999", "-0.9999999999999999999999", "1e-400", "-1e-400", "1e400", "-1e400", "1e99999999999999999999", "1e-99999999999999999999",
			"0e99999999999999999999", "1e+007", "1e-007", "123456789e-9", "4.9406564584124654e-324", "2.4703282292062327e-324", "2.4703282292062328e-324", "1.7976931348623157e308", "1.7976931348623158e308", "1.797693134862315807e308", "1.797693134862315808e308",
			"3.4028234663852886e38", "3.4028235677973366e38", "3.4028235677973367e38", "3.40282356779733661637539395458142568447e38", "3.40282356779733661637539395458142568448e38", "7.006492321624085e-46", "7.006492321624086e-46", "1.401298464324817e-45"} {
			lits = append(lits, l)
		}
		r := w.Rand("numlits")
		n := w.Pick(40000, 600000)
		for i := 0; i < n; i++ {
			lits = append(lits, randomNumber(r))
		}
		emitLits("random-literals", lits, false)
	}
	{
		texts := []string{"", " ", " 1", "1 ", "+1", "+0", "01", "00", "-01", "1_000", "0x10", "0b1", "0o7", "1.", ".5", "1e", "1e+", "--1", "-", "- 1", "1,0", "１", "Infinity", "-Infinity", "+Infinity", "NaN", "nan", "inf", "Inf",
			"null", "true", "1f", "1d", "1L", "1e5.0", "1.0.0", "1e1e1", "0x1p-2", "1/2", "٣", "1 ", "\t1", "1\n", "[1]", "{}", "1.e5", "-.5", "e5", "1E", "123abc", "1 2"}
		var clean []string
		for _, t := range texts {
			if strings.ContainsAny(t, "\"\\\t\n") {
				continue // would need escaping inside a JSON string; not the subject here
			}
			clean = append(clean, t)
		}
		emitLits("quoted-non-numbers", clean, true)
	}

	// (5) constructed tokens
	{
		a := &tokArgs{}
		for _, base := range []int64{0, 1 << 7, 1 << 31, 1 << 53, math.MaxInt64 - 300, math.MinInt64 + 300, -(1 << 53), -(1 << 31)} {
			for d := int64(-300); d <= 300; d++ {
				a.Ints = append(a.Ints, base+d)
			}
		}
		for _, base := range []uint64{300, 1 << 32, 1 << 53, 1 << 63, math.MaxUint64 - 300} {
			for d := int64(-300); d <= 300; d++ {
				a.Uints = append(a.Uints, base+uint64(d))
			}
		}
		for _, f := range []float64{0, 1, 0.5, 1.5, 1e15, 1e18, 1 << 53, 1 << 62, 1 << 63, 1 << 64, 1e19, 1e20, 1e21, 1e22, 1e300, 1e-300, 5e-324, math.MaxFloat64, 255, 256, 0.9999999999999999,
			// the float32 bounds as float64 values: the largest float32, the half-way point to 2^128 below which a value still
			// rounds to it, 2^128; the smallest float32 subnormal, half of it (rounds to 0 or to it), the smallest normal
			math.MaxFloat32, math.MaxFloat32 + 1<<102, math.MaxFloat32 + 1<<103, 1 << 127 * 2.0, math.SmallestNonzeroFloat32, math.SmallestNonzeroFloat32 / 2, 1.1754943508222875e-38} {
			for _, b := range around64(f, 40) {
				a.Floats = append(a.Floats, b, b|1<<63)
			}
		}
		r := w.Rand("tokens")
		for i := 0; i < 2000; i++ {
			a.Floats = append(a.Floats, r.Uint64())
			a.Floats = append(a.Floats, math.Float64bits(float64(r.Int64())), math.Float64bits(float64(r.Uint64())), math.Float64bits(float64(r.Int64N(1<<40))/4))
			a.F32 = append(a.F32, r.Uint32())
			a.Ints = append(a.Ints, r.Int64())
			a.Uints = append(a.Uints, r.Uint64())
		}
		// one case per ~500 tokens
		split := func(n int) int { return (n + 499) / 500 }
		for i := 0; i < split(len(a.Ints)); i++ {
			if mine() {
				w.Do("tokens", &tokArgs{Ints: a.Ints[i*500 : min((i+1)*500, len(a.Ints))]})
			}
		}
		for i := 0; i < split(len(a.Uints)); i++ {
			if mine() {
				w.Do("tokens", &tokArgs{Uints: a.Uints[i*500 : min((i+1)*500, len(a.Uints))]})
			}
		}
		for i := 0; i < split(len(a.Floats)); i++ {
			if mine() {
				w.Do("tokens", &tokArgs{Floats: a.Floats[i*500 : min((i+1)*500, len(a.Floats))]})
			}
		}
		for i := 0; i < split(len(a.F32)); i++ {
			if mine() {
				w.Do("tokens", &tokArgs{F32: a.F32[i*500 : min((i+1)*500, len(a.F32))]})
			}
		}
	}
	w.Count("closest_ties_accepted", chk.Ties)
	if w.WantSample() && w.Shard == 0 {
		f := 1e21
		w.Sample(map[string]any{"exec": "f64", "value": f, "text": string(jsontext.AppendFloat(nil, f, 64)), "verdict": chk.Check(f, 64, string(jsontext.AppendFloat(nil, f, 64)))})
		w.Sample(map[string]any{"exec": "f32", "value": float32(1e-6), "text": string(jsontext.AppendFloat(nil, float64(float32(1e-6)), 32))})
		w.Sample(map[string]any{"exec": "lits", "literal": "18446744073709551616", "uint64": "refused (out of range)", "float64": "1.8446744073709552e19"})
		m, _ := ref.Midpoint(1, 32)
		w.Sample(map[string]any{"exec": "f32", "midpoint_literal_above_1": m})
	}
}

func randomNumber(r interface {
	IntN(int) int
}) string {
	var sb strings.Builder
	if r.IntN(3) == 0 {
		sb.WriteByte('-')
	}
	digs := func(n int) {
		for i := 0; i < n; i++ {
			if r.IntN(4) == 0 {
				sb.WriteByte("059"[r.IntN(3)])
			} else {
				sb.WriteByte(byte('0' + r.IntN(10)))
			}
		}
	}
	il := [...]int{1, 1, 2, 3, 5, 9, 16, 17, 19, 20, 25, 40}[r.IntN(12)]
	if il == 1 && r.IntN(3) == 0 {
		sb.WriteByte('0')
	} else {
		sb.WriteByte(byte('1' + r.IntN(9)))
		digs(il - 1)
	}
	if r.IntN(2) == 0 {
		sb.WriteByte('.')
		digs(1 + [...]int{0, 0, 1, 2, 5, 8, 15, 17, 20, 30}[r.IntN(10)])
	}
	if r.IntN(2) == 0 {
		sb.WriteByte("eE"[r.IntN(2)])
		switch r.IntN(3) {
		case 0:
			sb.WriteByte('+')
		case 1:
			sb.WriteByte('-')
		}
		switch r.IntN(8) {
		case 0:
			sb.WriteString(strconv.Itoa(r.IntN(5000)))
		case 1:
			sb.WriteString("00" + strconv.Itoa(r.IntN(30)))
		case 2:
			sb.WriteString(strconv.Itoa(300 + r.IntN(30)))
		case 3:
			sb.WriteString(strconv.Itoa(35 + r.IntN(12)))
		default:
			sb.WriteString(strconv.Itoa(r.IntN(25)))
		}
	}
	return sb.String()
}

// ---------------------------------------------------------------------------------
// oracle self-test: the math/big reference against strconv (independent ground truth)

func selfTest() error {
	r := run.SelfRand(10)
	c := ref.NewFloatChecker()
	shortest := func(f float64, bits int) (string, string, int) {
		s := strconv.FormatFloat(math.Abs(f), 'e', -1, bits)
		mant, exp, _ := strings.Cut(s, "e")
		e, _ := strconv.Atoi(exp)
		d := strings.TrimRight(strings.Replace(mant, ".", "", 1), "0")
		txt := ref.LayoutES6(d, e+1)
		if math.Signbit(f) {
			txt = "-" + txt
		}
		return txt, d, e + 1
	}
	for i := 0; i < 60000; i++ {
		bits := 64
		var f float64
		switch i % 4 {
		case 0:
			f = math.Float64frombits(r.Uint64())
		case 1:
			bits = 32
			f = float64(math.Float32frombits(r.Uint32()))
		case 2:
			f = float64(r.Int64N(1<<53)) * math.Pow(10, float64(r.IntN(60)-30))
		default:
			bits = 32
			f = float64(float32(float64(r.Int64N(1<<24)) * math.Pow(10, float64(r.IntN(40)-20))))
		}
		if math.IsNaN(f) || math.IsInf(f, 0) || f == 0 {
			continue
		}
		txt, d, n := shortest(f, bits)
		if v := c.Check(f, bits, txt); v != "" {
			return fmt.Errorf("checker rejects strconv's shortest text %q of %v/%d: %s", txt, f, bits, v)
		}
		sign := ""
		if f < 0 {
			sign = "-"
		}
		// one more digit is never acceptable
		if v := c.Check(f, bits, sign+ref.LayoutES6(d+string(byte('1'+r.IntN(9))), n)); v == "" {
			return fmt.Errorf("checker accepts a longer text for %v/%d", f, bits)
		}
		// 64-bit digits for a float32 are not the shortest (when they differ)
		if bits == 32 {
			t64, _, _ := shortest(f, 64)
			if t64 != txt {
				if v := c.Check(f, 32, t64); v != "not-shortest" {
					return fmt.Errorf("checker verdict %q for 64-bit digits %q of float32 %v", v, t64, f)
				}
			}
		}
		// wrong layout of the right digits
		alt := sign + d[:1]
		if len(d) > 1 {
			alt += "." + d[1:]
		}
		alt += "e" + strconv.Itoa(n-1)
		if alt != txt {
			if v := c.Check(f, bits, alt); v != "layout" {
				return fmt.Errorf("checker verdict %q for mis-laid-out text %q of %v", v, alt, f)
			}
		}
		// the neighbouring float's text does not round trip
		var g float64
		if bits == 32 {
			g = float64(math.Nextafter32(float32(f), float32(math.Inf(1))))
		} else {
			g = math.Nextafter(f, math.Inf(1))
		}
		if !math.IsInf(g, 0) && g != 0 && math.Signbit(g) == math.Signbit(f) {
			if v := c.Check(g, bits, txt); v != "roundtrip" {
				return fmt.Errorf("checker verdict %q for text %q against the neighbouring float %v", v, txt, g)
			}
		}
		// the exact reference rounding agrees with strconv
		for _, lit := range []string{txt, randomNumber(r)} {
			for _, b := range []int{32, 64} {
				want, err := strconv.ParseFloat(lit, b)
				got, over := ref.Float(lit, b)
				if over != (err != nil) || (!over && math.Float64bits(got) != math.Float64bits(want)) {
					return fmt.Errorf("ref.Float(%q,%d) = %v,%v; strconv: %v,%v", lit, b, got, over, want, err)
				}
			}
		}
		if i%16 == 0 {
			for _, lit := range ref.MidpointLiterals(f, bits) {
				for _, b := range []int{32, 64} {
					want, err := strconv.ParseFloat(lit, b)
					got, over := ref.Float(lit, b)
					if over != (err != nil) || (!over && math.Float64bits(got) != math.Float64bits(want)) {
						return fmt.Errorf("ref.Float(midpoint %q,%d) = %v,%v; strconv: %v,%v", lit, b, got, over, want, err)
					}
				}
			}
		}
	}
	// integer expectations against strconv
	for i := 0; i < 20000; i++ {
		l := 1 + r.IntN(22)
		var sb strings.Builder
		if r.IntN(2) == 0 {
			sb.WriteByte('-')
		}
		sb.WriteByte(byte('1' + r.IntN(9)))
		for j := 1; j < l; j++ {
			sb.WriteByte(byte('0' + r.IntN(10)))
		}
		lit := sb.String()
		p, _ := ref.SplitNumber(lit)
		wi := wantAccessor(lit, p, true)
		v, err := strconv.ParseInt(lit, 10, 64)
		if (err == nil) != (wi.class == "ok") || wi.vals[0].Cmp(big.NewInt(v)) != 0 {
			return fmt.Errorf("int64 expectation for %s: %v %v; strconv %d %v", lit, wi.class, wi.vals, v, err)
		}
		wu := wantAccessor(lit, p, false)
		u, err := strconv.ParseUint(lit, 10, 64)
		if (err == nil) != (wu.class == "ok") || (err == nil && wu.vals[0].Cmp(new(big.Int).SetUint64(u)) != 0) {
			return fmt.Errorf("uint64 expectation for %s: %v %v; strconv %d %v", lit, wu.class, wu.vals, u, err)
		}
	}
	return nil
}

package main

// Declared Go types of the C09 type universe and the reflect-based generator that
// composes them.  A generated type exists in two "sides": side 0 is handed to the
// toolchain's encoding/json, side 1 to v1.  The sides are the same Go type except
// where the packages special-case a type of their own by identity (Number, RawMessage).

import (
	stdjson "encoding/json"
	"errors"
	"fmt"
	"math/rand/v2"
	"reflect"
	"strconv"
	"strings"
	"time"

	v1 "github.com/go-json-experiment/json/v1"
)

// ---- hand-declared types (Go needs declarations for methods and embedding) ----

type E1 struct {
	A int
	B string `json:"b"`
}
type E2 struct {
	A int `json:"A"`
	C *int
}

// E3: names that only differ in case from names the generator gives to outer fields (Ab, AB,
// K/k, S/s): a member name matching none exactly has candidates at two embedding depths.
type E3 struct {
	AB int
	Ab string `json:"aB"`
	K  int    `json:"k"`
	S  []int  `json:"s"`
}

// E4: fields whose marshal methods sit on the pointer receiver.  Behind an embedded POINTER such fields
// are addressable even when the outer struct value is not (passed by value, held in an interface, a
// map element), so the classic package calls the methods there.
type E4 struct {
	J   PJM    `json:"j"`
	T   PTM    `json:"t"`
	Arr [1]PJM `json:"arr"`
	N   int
}
type EmbPE4 struct {
	*E4
	O PJM `json:"o"` // not addressable when the outer struct is not
}
type midE4 struct {
	*E4
	M int
}
type EmbMidE4 struct {
	midE4 // promoted through a struct value and then a pointer
}
type e3 struct{ X, Y int }
type pe3 struct {
	P int
	Q string `json:"q,omitempty"`
}

// TM: value-receiver MarshalText, pointer-receiver UnmarshalText (the classic map-key shape).
type TM struct{ V string }

func (t TM) MarshalText() ([]byte, error) { return []byte("tm:" + t.V), nil }
func (t *TM) UnmarshalText(b []byte) error {
	if string(b) == "ERR" {
		return errors.New("TM: refused")
	}
	t.V = strings.TrimPrefix(string(b), "tm:")
	return nil
}

// PTM: both text methods on the pointer receiver.
type PTM struct{ V string }

func (t *PTM) MarshalText() ([]byte, error) { return []byte("ptm:" + t.V), nil }
func (t *PTM) UnmarshalText(b []byte) error { t.V = string(b); return nil }

// JM: value-receiver MarshalJSON, pointer-receiver UnmarshalJSON recording exactly what it was given.
// PTS: string kind, text methods on the pointer receiver only (as a map key the values are not addressable)
type PTS string

func (t *PTS) MarshalText() ([]byte, error) { return []byte("pts:" + string(*t)), nil }
func (t *PTS) UnmarshalText(b []byte) error { *t = PTS("u:" + string(b)); return nil }

// PTI: integer kind, text methods on the pointer receiver only
type PTI int

func (t *PTI) MarshalText() ([]byte, error) { return []byte(fmt.Sprintf("pti:%d", int(*t))), nil }
func (t *PTI) UnmarshalText(b []byte) error {
	n, err := strconv.Atoi(strings.TrimPrefix(string(b), "pti:"))
	*t = PTI(n)
	return err
}

type JM struct{ V string }

func (j JM) MarshalJSON() ([]byte, error) { return []byte(fmt.Sprintf(`{"jm":%q}`, j.V)), nil }
func (j *JM) UnmarshalJSON(b []byte) error {
	j.V = string(b)
	return nil
}

// PJM: pointer-receiver MarshalJSON only.
type PJM struct{ V int }

func (j *PJM) MarshalJSON() ([]byte, error) { return []byte(fmt.Sprintf(`[%d]`, j.V)), nil }

// JTM: JSON and text methods together (JSON wins in both packages).
type JTM struct{ V string }

func (j JTM) MarshalJSON() ([]byte, error)  { return []byte(`"json:` + j.V + `"`), nil }
func (j JTM) MarshalText() ([]byte, error)  { return []byte("text:" + j.V), nil }
func (j *JTM) UnmarshalJSON(b []byte) error { j.V = "J" + string(b); return nil }
func (j *JTM) UnmarshalText(b []byte) error { j.V = "T" + string(b); return nil }

// JScr: a string whose MarshalJSON returns the string itself as the JSON text ("ERR" = error),
// so values carry scripts: non-compact output, HTML characters, invalid JSON, invalid UTF-8.
type JScr string

func (s JScr) MarshalJSON() ([]byte, error) {
	if s == "ERR" {
		return nil, errors.New("JScr: refused")
	}
	return []byte(s), nil
}
func (s *JScr) UnmarshalJSON(b []byte) error {
	if strings.Contains(string(b), "ERR") {
		return errors.New("JScr: refused")
	}
	*s = JScr(b)
	return nil
}

// TScr: a string whose MarshalText returns the string's bytes ("ERR" = error).
type TScr string

func (s TScr) MarshalText() ([]byte, error) {
	if s == "ERR" {
		return nil, errors.New("TScr: refused")
	}
	return []byte(s), nil
}
func (s *TScr) UnmarshalText(b []byte) error {
	if string(b) == "ERR" {
		return errors.New("TScr: refused")
	}
	*s = TScr(b)
	return nil
}

// ITM: integer kind with text methods (classic map keys: text methods win over the kind).
type ITM int

func (i ITM) MarshalText() ([]byte, error) { return []byte(fmt.Sprintf("i%d", int(i))), nil }
func (i *ITM) UnmarshalText(b []byte) error {
	var n int
	if _, err := fmt.Sscanf(string(b), "i%d", &n); err != nil {
		return err
	}
	*i = ITM(n)
	return nil
}

type SliceM []int

func (s SliceM) MarshalJSON() ([]byte, error) { return []byte(`"slicem"`), nil }

type MapT map[string]int

func (m MapT) MarshalText() ([]byte, error) { return []byte(fmt.Sprintf("mapt%d", len(m))), nil }

type NB byte
type NS string
type NI int
type NF float64
type NBool bool
type NBytes []byte
type ni int

type MarshI interface{ MarshalJSON() ([]byte, error) }
type TextI interface{ MarshalText() ([]byte, error) }

// structs using embedding shapes reflect.StructOf cannot build
type EmbU struct {
	e3
	Z int
}
type EmbPU struct {
	*pe3
	Z int
}
type EmbTM struct {
	TM
	Z int
}
type EmbPJM struct {
	*JM
	Z int
}
type EmbNI struct {
	NI
	Z int `json:",omitempty"`
}
type Embni struct {
	ni
	Z int
}
type EmbDup struct {
	E1
	E2
}
type EmbTagged struct {
	E1 `json:"e1"`
	Z  int
}
type EmbPE struct {
	*E1
	Z *int `json:"z,omitempty"`
}
type dMid struct {
	dDeep
	Y int
}
type dDeep struct{ Zz int }
type DL struct{ dMid }
type DR struct{ dMid }
type Diamond struct {
	DL
	DR
}
type Rec struct {
	V    int             `json:"v"`
	Next *Rec            `json:"next,omitempty"`
	Kids []Rec           `json:"kids,omitempty"`
	M    map[string]*Rec `json:"m,omitempty"`
	I    any             `json:"i,omitempty"`
}
type Shadow struct {
	A  int `json:"x"`
	B  int `json:"x"` // tied names cancel
	C  int `json:"c"`
	Cc int `json:"C"`
}
type StrOpts struct {
	I   int            `json:"i,string"`
	U8  uint8          `json:"u8,string"`
	F   float64        `json:"f,string"`
	F32 float32        `json:"f32,string"`
	B   bool           `json:"b,string"`
	S   string         `json:"s,string"`
	PI  *int           `json:"pi,string"`
	PS  *string        `json:"ps,string"`
	PPB **bool         `json:"ppb,string"`
	NI  NI             `json:"ni,string"`
	NS  NS             `json:"ns,string"`
	D   time.Duration  `json:"d,string"`
	Any any            `json:"any,string"`
	SI  []int          `json:"si,string"`
	MI  map[string]int `json:"mi,string"`
	TM  TM             `json:"tm,string"`
	PTM *TM            `json:"ptm,string"`
	PSl *[]int         `json:"psl,string"`
	PSt *E1            `json:"pst,string"`
}

type leaf struct {
	name string
	t    [2]reflect.Type
	w    int // weight
}

func same[T any]() [2]reflect.Type { t := reflect.TypeFor[T](); return [2]reflect.Type{t, t} }

var (
	numberT = [2]reflect.Type{reflect.TypeFor[stdjson.Number](), reflect.TypeFor[v1.Number]()}
	rawT    = [2]reflect.Type{reflect.TypeFor[stdjson.RawMessage](), reflect.TypeFor[v1.RawMessage]()}
	timeT   = reflect.TypeFor[time.Time]()
	durT    = reflect.TypeFor[time.Duration]()
	jscrT   = reflect.TypeFor[JScr]()
	tscrT   = reflect.TypeFor[TScr]()
	anyT    = reflect.TypeFor[any]()
	marshIT = reflect.TypeFor[MarshI]()
	textIT  = reflect.TypeFor[TextI]()
)

var leaves = []leaf{
	{"bool", same[bool](), 3}, {"int", same[int](), 4}, {"int8", same[int8](), 2}, {"int16", same[int16](), 1}, {"int32", same[int32](), 1},
	{"int64", same[int64](), 2}, {"uint", same[uint](), 1}, {"uint8", same[uint8](), 2}, {"uint16", same[uint16](), 1}, {"uint32", same[uint32](), 1},
	{"uint64", same[uint64](), 2}, {"uintptr", same[uintptr](), 1}, {"float32", same[float32](), 2}, {"float64", same[float64](), 3},
	{"string", same[string](), 5}, {"[]byte", same[[]byte](), 3}, {"any", same[any](), 4},
	{"NB", same[NB](), 1}, {"NS", same[NS](), 1}, {"NI", same[NI](), 1}, {"NF", same[NF](), 1}, {"NBool", same[NBool](), 1}, {"NBytes", same[NBytes](), 1},
	{"[]NB", same[[]NB](), 1}, {"[2]NB", same[[2]NB](), 1}, {"[3]byte", same[[3]byte](), 1}, {"[0]int", same[[0]int](), 1}, {"struct{}", same[struct{}](), 1},
	{"Number", numberT, 3}, {"RawMessage", rawT, 3},
	{"Time", same[time.Time](), 2}, {"Duration", same[time.Duration](), 1},
	{"TM", same[TM](), 2}, {"PTM", same[PTM](), 2}, {"JM", same[JM](), 2}, {"PJM", same[PJM](), 1}, {"JTM", same[JTM](), 1},
	{"JScr", same[JScr](), 2}, {"TScr", same[TScr](), 2}, {"ITM", same[ITM](), 1}, {"SliceM", same[SliceM](), 1}, {"MapT", same[MapT](), 1},
	{"MarshI", same[MarshI](), 1}, {"TextI", same[TextI](), 1},
	{"E1", same[E1](), 2}, {"E2", same[E2](), 1}, {"EmbU", same[EmbU](), 1}, {"EmbPU", same[EmbPU](), 1}, {"EmbTM", same[EmbTM](), 1}, {"EmbPJM", same[EmbPJM](), 1},
	{"EmbPE4", same[EmbPE4](), 2}, {"EmbMidE4", same[EmbMidE4](), 1}, {"E4", same[E4](), 1},
	{"EmbNI", same[EmbNI](), 1}, {"Embni", same[Embni](), 1}, {"EmbDup", same[EmbDup](), 1}, {"EmbTagged", same[EmbTagged](), 1}, {"EmbPE", same[EmbPE](), 1},
	{"Diamond", same[Diamond](), 1}, {"Rec", same[Rec](), 1}, {"Shadow", same[Shadow](), 1}, {"StrOpts", same[StrOpts](), 1},
	{"*int", same[*int](), 1}, {"**string", same[**string](), 1}, {"[]any", same[[]any](), 1}, {"map[string]any", same[map[string]any](), 1},
	{"chan", same[chan int](), 1}, {"func", same[func()](), 1}, {"complex", same[complex128](), 1},
}

var leafTotal = func() int {
	n := 0
	for _, l := range leaves {
		n += l.w
	}
	return n
}()

func pickLeaf(r *rand.Rand) [2]reflect.Type {
	k := r.IntN(leafTotal)
	for _, l := range leaves {
		if k < l.w {
			return l.t
		}
		k -= l.w
	}
	panic("unreachable")
}

// map key types classic supports in both directions (DESIGN §4 C09 domain discipline),
// plus *PTM (F9: classic cannot unmarshal it) at low weight.
var keyTypes = [][2]reflect.Type{
	same[string](), same[string](), same[string](), same[int](), same[int](), same[uint8](), same[int64](), same[int8](), same[uint64](), same[uintptr](),
	same[NS](), same[NI](), same[TM](), same[TM](), same[TScr](), same[ITM](), same[*PTM](),
	// text-method key types that have JSON methods as well
	same[JTM](), same[time.Time](),
	// non-pointer key types whose text methods sit on the pointer receiver: map keys are not addressable
	same[PTM](), same[PTS](), same[PTI](),
}

var embeds = [][2]reflect.Type{same[E1](), same[E2](), same[*E1](), same[*E2](), same[Shadow](), same[E3](), same[E3](), same[*E4](), same[E4]()}

var fieldNames = []string{"A", "B", "C", "Ab", "AB", "X", "Name", "A_b", "A_B", "K", "S", "aB", "Xx"}
var tagNames = []string{"", "", "", "", "a", "b", "A", "c", "-", "x y", "é", "a-b", "a_b", "aB", "a,", "-,", "k", "K", "K", "s", "ſ", "'q'", "a.b", "<&>", "$x", "0"}
var tagOpts = []string{"", "", "", ",omitempty", ",omitempty", ",string", ",string", ",omitzero", ",omitempty,string", ",omitzero,omitempty", ",omitzero,string", ", string", ",String"}

func genType(r *rand.Rand, depth int) [2]reflect.Type {
	k := r.IntN(13)
	if depth >= 3 {
		k = r.IntN(6)
	}
	switch {
	case k < 6:
		return pickLeaf(r)
	case k == 6 || k == 7:
		e := genType(r, depth+1)
		return [2]reflect.Type{reflect.SliceOf(e[0]), reflect.SliceOf(e[1])}
	case k == 8:
		e := genType(r, depth+1)
		return [2]reflect.Type{reflect.PointerTo(e[0]), reflect.PointerTo(e[1])}
	case k == 9:
		kt := keyTypes[r.IntN(len(keyTypes))]
		e := genType(r, depth+1)
		return [2]reflect.Type{reflect.MapOf(kt[0], e[0]), reflect.MapOf(kt[1], e[1])}
	case k == 10:
		n := r.IntN(4)
		e := genType(r, depth+1)
		return [2]reflect.Type{reflect.ArrayOf(n, e[0]), reflect.ArrayOf(n, e[1])}
	default:
		return genStruct(r, depth+1)
	}
}

func genStruct(r *rand.Rand, depth int) [2]reflect.Type {
	n := 1 + r.IntN(4)
	var fs [2][]reflect.StructField
	used := map[string]bool{}
	for i := 0; i < n; i++ {
		if r.IntN(7) == 0 {
			et := embeds[r.IntN(len(embeds))]
			name := et[0].Name()
			if et[0].Kind() == reflect.Pointer {
				name = et[0].Elem().Name()
			}
			if used[name] {
				continue
			}
			used[name] = true
			var tag reflect.StructTag
			if r.IntN(5) == 0 {
				tag = `json:"emb"`
			}
			for s := 0; s < 2; s++ {
				fs[s] = append(fs[s], reflect.StructField{Name: name, Type: et[s], Anonymous: true, Tag: tag})
			}
			continue
		}
		name := fieldNames[r.IntN(len(fieldNames))]
		if used[name] {
			continue
		}
		used[name] = true
		tag := tagNames[r.IntN(len(tagNames))] + tagOpts[r.IntN(len(tagOpts))]
		ft := genType(r, depth)
		var st reflect.StructTag
		if tag != "" {
			st = reflect.StructTag(`json:` + quoteTag(tag))
		}
		pkg := ""
		if name[0] >= 'a' && name[0] <= 'z' {
			pkg = "main"
		}
		for s := 0; s < 2; s++ {
			fs[s] = append(fs[s], reflect.StructField{Name: name, Type: ft[s], Tag: st, PkgPath: pkg})
		}
	}
	if len(fs[0]) == 0 {
		for s := 0; s < 2; s++ {
			fs[s] = append(fs[s], reflect.StructField{Name: "Z", Type: reflect.TypeFor[int]()})
		}
	}
	return [2]reflect.Type{reflect.StructOf(fs[0]), reflect.StructOf(fs[1])}
}

func quoteTag(s string) string {
	// struct tag values use Go string-literal syntax
	return fmt.Sprintf("%q", s)
}

// rootType picks the type of one case: a generated struct, a generated arbitrary type or
// (rarely) a bare leaf.
func rootType(r *rand.Rand) [2]reflect.Type {
	switch k := r.IntN(10); {
	case k < 5:
		return genStruct(r, 0)
	case k < 9:
		return genType(r, 0)
	default:
		return pickLeaf(r)
	}
}

// ---- type descriptions used in signatures ----

var (
	stdMarshalerT   = reflect.TypeFor[stdjson.Marshaler]()
	stdUnmarshalerT = reflect.TypeFor[stdjson.Unmarshaler]()
	textMarshalerT  = reflect.TypeFor[interface{ MarshalText() ([]byte, error) }]()
	textUnmarshalT  = reflect.TypeFor[interface{ UnmarshalText([]byte) error }]()
)

// hasMethods reports whether t or *t has any of the four (un)marshal methods.
func hasMethods(t reflect.Type) bool {
	if t.Kind() == reflect.Interface {
		return false
	}
	for _, it := range []reflect.Type{stdMarshalerT, stdUnmarshalerT, textMarshalerT, textUnmarshalT} {
		if t.Implements(it) || reflect.PointerTo(t).Implements(it) {
			return true
		}
	}
	return false
}

// typeName is the normalized name of a type for signatures: declared name, or kind
// skeleton one level deep.
func typeName(t reflect.Type) string {
	if t == nil {
		return "nil"
	}
	switch t {
	case numberT[0], numberT[1]:
		return "Number"
	case rawT[0], rawT[1]:
		return "RawMessage"
	}
	if t.Name() != "" && t.PkgPath() != "" {
		return t.Name()
	}
	switch t.Kind() {
	case reflect.Pointer:
		return "*" + typeName(t.Elem())
	case reflect.Slice:
		if t.Elem().Kind() == reflect.Uint8 {
			return "[]" + typeName(t.Elem())
		}
		return "slice"
	case reflect.Array:
		if t.Elem().Kind() == reflect.Uint8 {
			return "[N]" + typeName(t.Elem())
		}
		return "array"
	case reflect.Map:
		return "map"
	case reflect.Struct:
		return "struct"
	case reflect.Interface:
		if t.NumMethod() == 0 {
			return "any"
		}
		return "iface"
	case reflect.Chan:
		return "chan"
	case reflect.Func:
		return "func"
	}
	return t.Kind().String()
}

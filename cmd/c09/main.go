// C09 — package v1 behaves like the classic encoding/json of the toolchain.
//
// The oracle is exact: the toolchain's encoding/json runs side by side in the same
// process on the same inputs and the same Go types (parallel types only for Number and
// RawMessage, which each package special-cases by identity).
package main

import (
	stdjson "encoding/json"
	"fmt"
	"reflect"

	v1 "github.com/go-json-experiment/json/v1"

	"verif/gen"
	"verif/run"
)

var M = &run.Monitor{
	ID:    "C09",
	Level: "exploration",
	Rule: "(a) byte strings (grammar-generated, pool seeds, 0-3 byte mutations) through Valid/Compact/Indent(8 prefix/indent pairs)/HTMLEscape/Unmarshal into any, pre-populated any and a fixed struct, " +
		"then Marshal/MarshalIndent/Encoder of the decoded values; (b) Go types generated with reflect over a 70-leaf pool (basic kinds, named kinds, Number, RawMessage, time, types with JSON/text methods on value and pointer receivers, " +
		"embedding shapes) x struct tags (name, omitempty, omitzero, string, -) x maps keyed by string/integer/text types: generated values are marshaled, type-directed JSON inputs (with wrong kinds, duplicate and case-varied names, " +
		"quoted scalars, damaged bytes) are unmarshaled into zero and pre-populated targets, also through Decoder with UseNumber/DisallowUnknownFields; (c) Decoder method scripts over Token/Decode/More/InputOffset with chunked readers; " +
		"(d) cyclic Go values. distinct = API family x type skeleton (kinds, declared names, tag options to depth 3) or token-kind skeleton of the text",
	Assumptions: []string{
		"the toolchain's encoding/json (go1.26.0) is the specification; both implementations run in the same process on the same bytes and the same Go types",
		"domain: types expressible in both packages (map keys: string, integer and text-method kinds); cyclic unmarshal targets are outside the domain",
		"not compared (by the property text): error messages, the target after a semantic error, the order among equal object names, Decoder More/InputOffset answers while an error is pending",
		"domain: a type containing a map whose key type classic cannot decode at all (pointer key types such as *PTM: not a string/integer kind and **PTM has no UnmarshalText) takes part in marshal rounds only",
		"Decoder scripts: two failing calls fail together whatever their errors are; only at the end of a valid complete stream must both errors be io.EOF (io.EOF on one side only is reported)",
		"MarshalIndent/SetIndent with indentation that is not JSON whitespace is compared only when the plain Marshal outputs of the value are byte-equal and free of duplicate names (the indented text cannot be parsed to excuse member order or to classify)",
		"every report carries cause=<root cause> computed from structural facts of the reduced case (cmd/c09/cause.go); recorded divergences are matched in known_findings.json by sub + cause, anything else is cause=unclassified",
	},
	Floors: func(c map[string]int64, tier string) []string {
		var u []string
		need := func(k string, n int64) {
			if c[k] < n {
				u = append(u, fmt.Sprintf("%s=%d < %d", k, c[k], n))
			}
		}
		need("Valid_both_ok", 2000)
		need("Valid_both_fail", 2000)
		need("Compact_both_ok", 2000)
		need("Compact_both_fail", 2000)
		need("Indent_both_ok", 2000)
		need("Indent_both_fail", 2000)
		need("HTMLEscape_both_ok", 5000)
		need("Marshal_both_ok", 20000)
		need("Marshal_both_fail", 2000)
		need("MarshalIndent_both_ok", 3000)
		need("Encoder_both_ok", 3000)
		need("Unmarshal_both_ok", 5000)
		need("Unmarshal_both_fail", 5000)
		need("Decode+UseNumber_both_ok", 300)
		need("Decode+DisallowUnknownFields_both_fail", 300)
		need("Token_stream_both_ok", 20000)
		need("Decode_stream_both_ok", 3000)
		need("stream_lazy_answers_compared", 10000)
		need("stream_clean_ends", 300)
		need("syntax_invalid_inputs", 500)
		need("cycles", 5)
		return u
	},
	SelfTest: selfTest,
}

// selfTest validates the harness's own comparer against reflect.DeepEqual on types that
// are identical on both sides, and the duplicate-name canonicalizer on a fixed example.
func selfTest() error {
	r := run.SelfRand(9)
	n := 0
	for i := 0; i < 3000; i++ {
		tt := rootType(r)
		if tt[0] != tt[1] {
			continue
		}
		s1, s2 := r.Uint64(), r.Uint64()
		a, a2, b := genValue(prng(s1, 1), tt[0], 0, 0), genValue(prng(s1, 1), tt[0], 0, 0), genValue(prng(s2, 1), tt[0], 0, 0)
		if d := sameValue(a, a2, "", "root", "", 0); d != nil {
			return fmt.Errorf("sameValue is not reflexive on %v at %s", tt[0], d.path)
		}
		if !reflect.DeepEqual(a.Interface(), a2.Interface()) {
			continue // NaN, funcs: DeepEqual is not reflexive there
		}
		want := reflect.DeepEqual(a.Interface(), b.Interface())
		got := sameValue(a, b, "", "root", "", 0) == nil
		if want != got && !hasPointerKeyOrNaN(b) {
			return fmt.Errorf("sameValue=%v but DeepEqual=%v on %v\n a=%#v\n b=%#v", got, want, tt[0], a.Interface(), b.Interface())
		}
		n++
	}
	if n < 1000 {
		return fmt.Errorf("self-test compared only %d value pairs", n)
	}
	if err := selfTestCauses(); err != nil {
		return err
	}
	got := string(canonDup([]byte(`{"k":2,"k":1,"a":{"x":[2],"x":[1]}}`)))
	if got != `{"k":1,"k":2,"a":{"x":[1],"x":[2]}}` {
		return fmt.Errorf("canonDup: %s", got)
	}
	return nil
}

func hasPointerKeyOrNaN(v reflect.Value) bool {
	// values on which DeepEqual and the structural comparer legitimately differ
	s := fmt.Sprintf("%#v", v.Interface())
	return containsAny(s, "NaN", "PTM)(0x", "(0x")
}

func containsAny(s string, subs ...string) bool {
	for _, x := range subs {
		for i := 0; i+len(x) <= len(s); i++ {
			if s[i:i+len(x)] == x {
				return true
			}
		}
	}
	return false
}

// ---- cyclic Go values (each its own case: a regression of F4 is a fatal stack overflow) ----

type cycleArgs struct {
	Kind int `json:"kind"`
}

type PP *PP

func cyclicValue(kind int) any {
	switch kind {
	case 0:
		var p any
		p = &p
		return p
	case 1:
		var p PP
		p = &p
		return p
	case 2:
		r := &Rec{V: 1}
		r.Next = r
		return r
	case 3:
		m := map[string]any{}
		m["self"] = m
		return m
	case 4:
		s := make([]any, 1)
		s[0] = s
		return s
	case 5:
		r := &Rec{V: 1}
		r.M = map[string]*Rec{"a": {V: 2, Next: r}}
		return r
	default:
		r := &Rec{V: 1}
		r.I = []any{map[string]any{"r": r}}
		return r
	}
}

func execCycle(w *run.W, a *cycleArgs) {
	v := cyclicValue(a.Kind)
	var out1, out2 []byte
	o1 := guard(func() (err error) { out1, err = stdjson.Marshal(v); return })
	o2 := guard(func() (err error) { out2, err = v1.Marshal(v); return })
	compareMarshal(w, "Marshal-cyclic", reflect.TypeOf(v), fmt.Sprintf("cyclic value kind %d", a.Kind), out1, out2, o1, o2, false)
	w.Count("cycles", 1)
}

var byteSeeds = []string{
	`{"a":1,"b":[true,false,null],"c":{"d":"eé😀"},"A":2}`,
	`[1.5e300, -0, 1E5, 0.000001, 123456789012345678901234567890]`,
	`" <>&\ud800"`, ` {"x" : [ ] , "y" : { } } `, `{"a":{"a":{"a":1}},"a":2}`,
	"\"\xff\xfe\"", `[1,2,3`, `{"a":}`, `nul`, `1e999`, `{"a":1}{"b":2}`, "\"\t\"", `{"Name":"x","name":"y","NAME":"z"}`,
	`{"I":"12","F":"1.5","B":"true","S":"\"x\"","P":"null"}`,
	`{"raw": {"k" : [1, 2]} ,"num":1e2,"By":"AQID","Arr":[1,2,3],"M":{"1":"a","-2":"b"},"PI":{"X":1,"y":"s"},"X":3,"Iface":{"n":null}}`,
	"{\"a\":\"\u2028\u2029<\",\"b\":[{}, [],\n\t{\"c\":[ 1 ,2 ]}]}\n ",
	`{"I":"+1","F":" 1","B":"\"true\"","S":"null","P":"\"null\""}`,
	"[\"\\u00e9\\ud83d\\ude00\\/\",\"\x7f\",\"\\u001f\"]",
}

var streamSeeds = []string{
	`{"a":1,"b":[true,false,null],"c":{"d":"eé😀"}} [1,2] "x" 3.5 null`,
	` [ {"a" : [ ] } , 1e5 , "s" ] `, `{"a":1}{"b":2}`, `[1,2,3`, `{"a":}`, `1 2 3`, `[[[]]]`, `{"k":{"k":{"k":1}}}`, `"abc" tru`, `[1,,2]`, `{"a" 1}`, `nul`, `[1 2]`,
	"{\"a\":[1,{\"b\":null}],\"c\":\"d\"}\n[ ]\n{ }\n", `[1e400, 1]`, `{"a":1,"a":2}`, "\"\xff\" 1", `[{"x":[[1,2],[3]]},{"y":{}}]   `, `123456789012345678901234567890 -0 1E+2`,
}

func main() {
	run.Def(M, "bytes", execBytes)
	run.Def(M, "typed", execTyped)
	run.Def(M, "stream", execStream)
	run.Def(M, "queue", execQueue)
	run.Def(M, "cycle", execCycle)
	M.Gen = generate
	run.Main(M)
}

func generate(w *run.W) {
	// (d) cyclic values
	for k := 0; k < 7; k++ {
		if w.Mine(k) {
			w.Do("cycle", &cycleArgs{Kind: k})
		}
	}

	// (a) byte-level APIs
	nb := w.Pick(320, 3200)
	for batch := 0; batch < nb; batch++ {
		if !w.Mine(batch) {
			continue
		}
		r := w.Rand("bytes", batch)
		cfg := &gen.TextCfg{MaxDepth: 1 + r.IntN(4), MaxWidth: 1 + r.IntN(5), Invalid: r.IntN(3) == 0, WS: r.IntN(2) == 0, DupPercent: r.IntN(30)}
		for k := 0; k < 40; k++ {
			var b []byte
			if r.IntN(3) == 0 {
				b = []byte(byteSeeds[r.IntN(len(byteSeeds))])
			} else {
				b = gen.Value(r, cfg)
			}
			for m := r.IntN(4) - 1; m > 0; m-- {
				b = gen.Mutate(r, b)
			}
			if r.IntN(5) == 0 {
				b = append([]byte(pick(r, []string{" ", "\n", "\t \r\n"})), b...)
			}
			if r.IntN(4) == 0 {
				b = append(b, pick(r, []string{" ", "\n", " \n ", "\t", "  \n\n"})...)
			}
			ip := indentPairs[r.IntN(len(indentPairs))]
			a := &bytesArgs{Text: b, Prefix: ip[0], Indent: ip[1], Pre: pick(r, []string{"", "", "PRE", "{\n"})}
			w.Do("bytes", a)
			if w.WantSample() && k == 0 {
				w.Sample(map[string]any{"exec": "bytes", "text": string(b), "prefix": ip[0], "indent": ip[1]})
			}
		}
	}

	// (b) generated types
	nt := w.Pick(40000, 400000)
	for i := 0; i < nt; i++ {
		if !w.Mine(i) {
			continue
		}
		r := w.Rand("typed", i)
		w.Do("typed", &typedArgs{T: r.Uint64(), Rounds: 8})
	}

	// (c) decoder scripts
	ns := w.Pick(1600, 16000)
	for batch := 0; batch < ns; batch++ {
		if !w.Mine(batch) {
			continue
		}
		r := w.Rand("stream", batch)
		cfg := &gen.TextCfg{MaxDepth: 1 + r.IntN(4), MaxWidth: 1 + r.IntN(4), Invalid: r.IntN(5) == 0, WS: r.IntN(2) == 0, DupPercent: r.IntN(20)}
		for k := 0; k < 20; k++ {
			var b []byte
			if r.IntN(2) == 0 {
				b = []byte(streamSeeds[r.IntN(len(streamSeeds))])
			} else {
				for n := 1 + r.IntN(3); n > 0; n-- {
					b = append(b, gen.Value(r, cfg)...)
					b = append(b, pick(r, []string{" ", "\n", "", "\t"})...)
				}
			}
			if r.IntN(3) == 0 {
				b = gen.Mutate(r, b)
			}
			a := &streamArgs{Text: b, Chunk: []int{0, 0, 1, 2, 3, 7, 64}[r.IntN(7)], UseNumber: r.IntN(3) == 0, Script: r.Uint64(), Steps: 10 + r.IntN(50)}
			w.Do("stream", a)
			if k%5 == 0 {
				// a bytes.Buffer written and read alternately
				qcfg := &gen.TextCfg{MaxDepth: 1 + r.IntN(3), MaxWidth: 1 + r.IntN(4)}
				var vals []string
				for n := 2 + r.IntN(6); n > 0; n-- {
					vals = append(vals, string(gen.Value(r, qcfg))+pick(r, []string{"\n", "\n", " ", "\n\n"}))
				}
				w.Do("queue", &queueArgs{Values: vals, UseNumber: r.IntN(3) == 0, Script: r.Uint64()})
			}
			if w.WantSample() && k == 0 {
				w.Sample(map[string]any{"exec": "stream", "text": string(b), "chunk": a.Chunk})
			}
		}
	}
}

package main

// exec "typed": one generated Go type, several rounds of Marshal / MarshalIndent /
// Encoder / Unmarshal / Decoder.Decode executed side by side.

import (
	"bytes"
	stdjson "encoding/json"
	"fmt"
	"math/rand/v2"
	"reflect"

	v1 "github.com/go-json-experiment/json/v1"

	"verif/ref"
	"verif/run"
)

type typedArgs struct {
	T      uint64 `json:"t"`      // type seed
	Rounds int    `json:"rounds"` // value/input rounds on this type
}

func prng(a, b uint64) *rand.Rand { return rand.New(rand.NewPCG(a, b^0xc09c09c09)) }

func tally(w *run.W, api string, o1, o2 outcome) (both bool) {
	switch {
	case !o1.failed() && !o2.failed():
		w.Count(api+"_both_ok", 1)
		return true
	case o1.failed() && o2.failed():
		w.Count(api+"_both_fail", 1)
	default:
		w.Count(api+"_disagree", 1)
	}
	return false
}

func whichFails(o1, o2 outcome) (string, outcome) {
	if o1.failed() {
		return "std", o1
	}
	return "v1", o2
}

func short(x any) string { return run.Trunc(fmt.Sprintf("%#v", x), 700) }

// compareMarshal checks one marshal-like API result pair.  sub is the violation kind for
// differing bytes; a disagreement in failure is reported as marshal-error-differs.
// noHTML tells that the call ran with HTML escaping switched off (Encoder.SetEscapeHTML(false)).
func compareMarshal(w *run.W, api string, t reflect.Type, val any, out1, out2 []byte, o1, o2 outcome, noHTML bool) {
	w.Eval(1)
	if o1.failed() != o2.failed() {
		tally(w, api, o1, o2)
		side, o := whichFails(o1, o2)
		var sig map[string]string
		if cause := marshalErrorCause(side, o, val); cause != causeUnclassified {
			sig = map[string]string{"cause": cause, "outcome": side + "-fails"}
			if side == "std" {
				sig["outcome"] = "classic-fails"
			}
		} else {
			sig = map[string]string{"api": api, "fails": side, "cause": causeUnclassified}
			errAttrs(sig, o)
		}
		violate(w, "marshal-error-differs", sig, "%s of %v\n value=%s\n classic: %v %q\n v1:      %v %q", api, t, short(val), o1, out1, o2, out2)
		return
	}
	if !tally(w, api, o1, o2) {
		return
	}
	if bytes.Equal(out1, out2) {
		return
	}
	if c1, c2 := canonDup(out1), canonDup(out2); bytes.Equal(c1, c2) {
		w.Count("equal_modulo_duplicate_name_order", 1)
		return
	}
	w.Count(api+"_bytes_differ", 1)
	sub := "marshal-bytes-differ"
	if api == "Encoder" {
		sub = "encoder-differs"
	}
	causes, rest := marshalBytesCauses(out1, out2, noHTML, val)
	for _, cause := range causes {
		var sig map[string]string
		if cause != causeUnclassified {
			sig = map[string]string{"cause": cause}
		} else {
			// describe the first difference that remains after the recorded spellings are peeled off
			sig = map[string]string{"api": api, "cause": causeUnclassified}
			if noHTML {
				sig["escape_html"] = "off"
			}
			bytesDiffSig(sig, t, rest, out2)
		}
		violate(w, sub, sig, "%s of %v\n value=%s\n classic: %q\n v1:      %q", api, t, short(val), out1, out2)
	}
}

var indentPairs = [][2]string{{"", " "}, {"", "\t"}, {">", "  "}, {" ", ""}, {"", ""}, {"p", "i"}, {"\t", " \t"}, {"\n", "x"}}

func marshalRound(w *run.W, tt [2]reflect.Type, r *rand.Rand, vseed uint64) {
	v0 := genValue(prng(vseed, 1), tt[0], 0, 0)
	v1v := genValue(prng(vseed, 1), tt[1], 1, 0)
	marshalBoth(w, tt, r, v0, v1v)
}

// classicCannotEncodeKey mirrors classicCannotDecodeKey for the other direction: classic refuses
// the TYPE map[K]V (UnsupportedTypeError, whatever the value, even a nil map) unless K has a
// string or integer kind or implements encoding.TextMarshaler as a non-pointer.  A key type
// whose MarshalText sits on the pointer receiver only (and whose kind is not string/integer)
// cannot be encoded by classic at all; v1 must fail with it (counted, not excluded).
func classicCannotEncodeKey(t reflect.Type, seen map[reflect.Type]bool) bool {
	if seen[t] {
		return false
	}
	seen[t] = true
	switch t.Kind() {
	case reflect.Map:
		k := t.Key()
		switch k.Kind() {
		case reflect.String, reflect.Int, reflect.Int8, reflect.Int16, reflect.Int32, reflect.Int64,
			reflect.Uint, reflect.Uint8, reflect.Uint16, reflect.Uint32, reflect.Uint64, reflect.Uintptr:
		default:
			if !k.Implements(textMarshalerT) {
				return true
			}
		}
		return classicCannotEncodeKey(t.Elem(), seen)
	case reflect.Pointer, reflect.Slice, reflect.Array:
		return classicCannotEncodeKey(t.Elem(), seen)
	case reflect.Struct:
		if hasMethods(t) || t == timeT {
			return false
		}
		for i := 0; i < t.NumField(); i++ {
			if classicCannotEncodeKey(t.Field(i).Type, seen) {
				return true
			}
		}
	}
	return false
}

func marshalBoth(w *run.W, tt [2]reflect.Type, r *rand.Rand, v0, v1v reflect.Value) {
	if classicCannotEncodeKey(tt[0], map[reflect.Type]bool{}) {
		// both packages must refuse such a type, whatever the value (finding F29, repaired)
		w.Count("types_with_key_classic_cannot_encode", 1)
	}
	// pass either the value or a pointer to it (pointer-receiver methods become reachable)
	a0, a1 := v0.Interface(), v1v.Interface()
	if r.IntN(2) == 0 {
		p0, p1 := reflect.New(tt[0]), reflect.New(tt[1])
		p0.Elem().Set(v0)
		p1.Elem().Set(v1v)
		a0, a1 = p0.Interface(), p1.Interface()
	}
	var out1, out2 []byte
	o1 := guard(func() (err error) { out1, err = stdjson.Marshal(a0); return })
	o2 := guard(func() (err error) { out2, err = v1.Marshal(a1); return })
	compareMarshal(w, "Marshal", tt[0], a0, out1, out2, o1, o2, false)

	// Indentation that is not JSON whitespace makes the output unparseable, so a disagreement
	// there cannot be classified (nor compared modulo the order of equal names).  Such variants
	// are compared only when the plain Marshal outputs are byte-equal; otherwise the
	// disagreement has just been reported (or excused) for Marshal itself.
	plainEqual := o1.failed() || o2.failed() || bytes.Equal(out1, out2)
	if n := ref.Parse(out1, permissive); plainEqual && n != nil && ref.HasDuplicate(n) {
		plainEqual = false // equal names: their order is unspecified and may change from call to call
	}
	jsonIndent := func(ip [2]string) bool { return isBlank(ip[0]) && isBlank(ip[1]) }
	switch r.IntN(3) {
	case 0:
		ip := indentPairs[r.IntN(len(indentPairs))]
		if !plainEqual && !jsonIndent(ip) {
			w.Count("skipped_nonjson_indent_after_marshal_difference", 1)
			break
		}
		o1 = guard(func() (err error) { out1, err = stdjson.MarshalIndent(a0, ip[0], ip[1]); return })
		o2 = guard(func() (err error) { out2, err = v1.MarshalIndent(a1, ip[0], ip[1]); return })
		compareMarshal(w, "MarshalIndent", tt[0], a0, out1, out2, o1, o2, false)
	case 1:
		var b1, b2 bytes.Buffer
		e1, e2 := stdjson.NewEncoder(&b1), v1.NewEncoder(&b2)
		noHTML := r.IntN(2) == 0
		if noHTML {
			e1.SetEscapeHTML(false)
			e2.SetEscapeHTML(false)
		}
		if r.IntN(3) == 0 {
			ip := indentPairs[r.IntN(len(indentPairs))]
			if !plainEqual && !jsonIndent(ip) {
				w.Count("skipped_nonjson_indent_after_marshal_difference", 1)
				break
			}
			e1.SetIndent(ip[0], ip[1])
			e2.SetIndent(ip[0], ip[1])
		}
		n := 1 + r.IntN(2)
		for i := 0; i < n; i++ {
			n1, n2 := b1.Len(), b2.Len() // equal: everything written so far was byte-equal
			o1 = guard(func() error { return e1.Encode(a0) })
			o2 = guard(func() error { return e2.Encode(a1) })
			compareMarshal(w, "Encoder", tt[0], a0, b1.Bytes()[n1:], b2.Bytes()[n2:], o1, o2, noHTML)
			if o1.failed() || o2.failed() || !bytes.Equal(b1.Bytes(), b2.Bytes()) {
				break
			}
		}
	}
}

// classicCannotDecodeKey reports whether the type graph of t contains a map whose key type
// the classic package refuses for unmarshaling whatever the input object holds: classic
// accepts string and integer kinds and key types K for which *K implements
// encoding.TextUnmarshaler.  A pointer key type such as *PTM (both text methods on the
// pointer receiver) can be marshaled by classic but "cannot unmarshal object into Go value
// of type map[*PTM]V" (former F9).  Such a type is not expressible in both packages for
// decoding (DESIGN §4 C09 "Domain discipline": key kinds are limited to those classic
// supports in both directions), so it only takes part in marshal rounds.
func classicCannotDecodeKey(t reflect.Type, seen map[reflect.Type]bool) bool {
	if seen[t] {
		return false
	}
	seen[t] = true
	switch t.Kind() {
	case reflect.Map:
		k := t.Key()
		switch k.Kind() {
		case reflect.String, reflect.Int, reflect.Int8, reflect.Int16, reflect.Int32, reflect.Int64,
			reflect.Uint, reflect.Uint8, reflect.Uint16, reflect.Uint32, reflect.Uint64, reflect.Uintptr:
		default:
			if !reflect.PointerTo(k).Implements(textUnmarshalT) {
				return true
			}
		}
		return classicCannotDecodeKey(t.Elem(), seen)
	case reflect.Pointer, reflect.Slice, reflect.Array:
		return classicCannotDecodeKey(t.Elem(), seen)
	case reflect.Struct:
		if hasMethods(t) || t == timeT {
			return false
		}
		for i := 0; i < t.NumField(); i++ {
			if classicCannotDecodeKey(t.Field(i).Type, seen) {
				return true
			}
		}
	}
	return false
}

func unmarshalRound(w *run.W, tt [2]reflect.Type, r *rand.Rand, round uint64) {
	if classicCannotDecodeKey(tt[0], map[reflect.Type]bool{}) {
		w.Count("domain_marshal_only_types_pointer_map_key", 1)
		marshalRound(w, tt, r, r.Uint64())
		return
	}
	in := finishInput(r, genInput(r, tt[0], "", 0))
	c := &umCase{tt: tt}
	if r.IntN(3) == 0 {
		ps := r.Uint64()
		c.prepop = func(side int) (reflect.Value, bool) { return genValue(prng(ps, 2), tt[side], side, 0), true }
	}
	if m := r.IntN(8); m >= 4 {
		c.mode = m - 3
	}
	res, ok := c.check(w, in)
	// marshal what was decoded (values reachable only through decoding)
	if ok && r.IntN(2) == 0 {
		marshalBoth(w, tt, r, res.p0.Elem(), res.p1.Elem())
	}
}

func execTyped(w *run.W, a *typedArgs) {
	tr := prng(a.T, 0)
	tt := rootType(tr)
	w.Shape("typed|" + skeletonOf(tt[0], 0))
	for i := 0; i < a.Rounds; i++ {
		r := prng(a.T, uint64(100+i))
		if i%2 == 0 {
			marshalRound(w, tt, r, r.Uint64())
		} else {
			unmarshalRound(w, tt, r, uint64(i))
		}
	}
	if w.WantSample() {
		in := genInput(prng(a.T, 999), tt[0], "", 0)
		w.Sample(map[string]any{"exec": "typed", "type": tt[0].String(), "example_input": in})
	}
}

// skeletonOf is the shape key of a type: kinds, declared names and tag options, 3 levels deep.
func skeletonOf(t reflect.Type, depth int) string {
	if depth > 3 {
		return "…"
	}
	if t.Name() != "" {
		return typeName(t)
	}
	switch t.Kind() {
	case reflect.Pointer:
		return "*" + skeletonOf(t.Elem(), depth+1)
	case reflect.Slice:
		return "[]" + skeletonOf(t.Elem(), depth+1)
	case reflect.Array:
		return "[N]" + skeletonOf(t.Elem(), depth+1)
	case reflect.Map:
		return "map[" + skeletonOf(t.Key(), depth+1) + "]" + skeletonOf(t.Elem(), depth+1)
	case reflect.Struct:
		s := "struct{"
		for i := 0; i < t.NumField(); i++ {
			_, o, _ := jsonFieldName(t.Field(i))
			s += skeletonOf(t.Field(i).Type, depth+1)
			if o != "" {
				s += "`" + o + "`"
			}
			s += ";"
		}
		return s + "}"
	}
	return typeName(t)
}

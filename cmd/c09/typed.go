package main

// exec "typed": one generated Go type, several rounds of Marshal / MarshalIndent /
// Encoder / Unmarshal / Decoder.Decode executed side by side.

import (
	"bytes"
	stdjson "encoding/json"
	"fmt"
	"math/rand/v2"
	"reflect"

	v1 "github.com/go-json-experiment/json/v1"

	"verif/run"
)

type typedArgs struct {
	T      uint64 `json:"t"`      // type seed
	Rounds int    `json:"rounds"` // value/input rounds on this type
}

func prng(a, b uint64) *rand.Rand { return rand.New(rand.NewPCG(a, b^0xc09c09c09)) }

func tally(w *run.W, api string, o1, o2 outcome) (both bool) {
	switch {
	case !o1.failed() && !o2.failed():
		w.Count(api+"_both_ok", 1)
		return true
	case o1.failed() && o2.failed():
		w.Count(api+"_both_fail", 1)
	default:
		w.Count(api+"_disagree", 1)
	}
	return false
}

func whichFails(o1, o2 outcome) (string, outcome) {
	if o1.failed() {
		return "std", o1
	}
	return "v1", o2
}

func short(x any) string { return run.Trunc(fmt.Sprintf("%#v", x), 700) }

// compareMarshal checks one marshal-like API result pair.  sub is the violation kind for
// differing bytes; a disagreement in failure is reported as marshal-error-differs.
func compareMarshal(w *run.W, api string, t reflect.Type, val any, out1, out2 []byte, o1, o2 outcome) {
	w.Eval(1)
	if o1.failed() != o2.failed() {
		tally(w, api, o1, o2)
		side, o := whichFails(o1, o2)
		sig := map[string]string{"api": api, "fails": side}
		errAttrs(sig, o)
		violate(w, "marshal-error-differs", sig, "%s of %v\n value=%s\n classic: %v %q\n v1:      %v %q", api, t, short(val), o1, out1, o2, out2)
		return
	}
	if !tally(w, api, o1, o2) {
		return
	}
	if bytes.Equal(out1, out2) {
		return
	}
	if c1, c2 := canonDup(out1), canonDup(out2); bytes.Equal(c1, c2) {
		w.Count("equal_modulo_duplicate_name_order", 1)
		return
	}
	w.Count(api+"_bytes_differ", 1)
	sig := map[string]string{"api": api}
	bytesDiffSig(sig, t, out1, out2)
	sub := "marshal-bytes-differ"
	if api == "Encoder" {
		sub = "encoder-differs"
	}
	violate(w, sub, sig, "%s of %v\n value=%s\n classic: %q\n v1:      %q", api, t, short(val), out1, out2)
}

var indentPairs = [][2]string{{"", " "}, {"", "\t"}, {">", "  "}, {" ", ""}, {"", ""}, {"p", "i"}, {"\t", " \t"}, {"\n", "x"}}

func marshalRound(w *run.W, tt [2]reflect.Type, r *rand.Rand, vseed uint64) {
	v0 := genValue(prng(vseed, 1), tt[0], 0, 0)
	v1v := genValue(prng(vseed, 1), tt[1], 1, 0)
	marshalBoth(w, tt, r, v0, v1v)
}

func marshalBoth(w *run.W, tt [2]reflect.Type, r *rand.Rand, v0, v1v reflect.Value) {
	// pass either the value or a pointer to it (pointer-receiver methods become reachable)
	a0, a1 := v0.Interface(), v1v.Interface()
	if r.IntN(2) == 0 {
		p0, p1 := reflect.New(tt[0]), reflect.New(tt[1])
		p0.Elem().Set(v0)
		p1.Elem().Set(v1v)
		a0, a1 = p0.Interface(), p1.Interface()
	}
	var out1, out2 []byte
	o1 := guard(func() (err error) { out1, err = stdjson.Marshal(a0); return })
	o2 := guard(func() (err error) { out2, err = v1.Marshal(a1); return })
	compareMarshal(w, "Marshal", tt[0], a0, out1, out2, o1, o2)

	switch r.IntN(3) {
	case 0:
		ip := indentPairs[r.IntN(len(indentPairs))]
		o1 = guard(func() (err error) { out1, err = stdjson.MarshalIndent(a0, ip[0], ip[1]); return })
		o2 = guard(func() (err error) { out2, err = v1.MarshalIndent(a1, ip[0], ip[1]); return })
		compareMarshal(w, "MarshalIndent", tt[0], a0, out1, out2, o1, o2)
	case 1:
		var b1, b2 bytes.Buffer
		e1, e2 := stdjson.NewEncoder(&b1), v1.NewEncoder(&b2)
		if r.IntN(2) == 0 {
			e1.SetEscapeHTML(false)
			e2.SetEscapeHTML(false)
		}
		if r.IntN(3) == 0 {
			ip := indentPairs[r.IntN(len(indentPairs))]
			e1.SetIndent(ip[0], ip[1])
			e2.SetIndent(ip[0], ip[1])
		}
		n := 1 + r.IntN(2)
		for i := 0; i < n; i++ {
			o1 = guard(func() error { return e1.Encode(a0) })
			o2 = guard(func() error { return e2.Encode(a1) })
			compareMarshal(w, "Encoder", tt[0], a0, b1.Bytes(), b2.Bytes(), o1, o2)
			if o1.failed() || o2.failed() || !bytes.Equal(b1.Bytes(), b2.Bytes()) {
				break
			}
		}
	}
}

func unmarshalRound(w *run.W, tt [2]reflect.Type, r *rand.Rand, round uint64) {
	in := finishInput(r, genInput(r, tt[0], "", 0))
	c := &umCase{tt: tt}
	if r.IntN(3) == 0 {
		ps := r.Uint64()
		c.prepop = func(side int) (reflect.Value, bool) { return genValue(prng(ps, 2), tt[side], side, 0), true }
	}
	if m := r.IntN(8); m >= 4 {
		c.mode = m - 3
	}
	res, ok := c.check(w, in)
	// marshal what was decoded (values reachable only through decoding)
	if ok && r.IntN(2) == 0 {
		marshalBoth(w, tt, r, res.p0.Elem(), res.p1.Elem())
	}
}

func execTyped(w *run.W, a *typedArgs) {
	tr := prng(a.T, 0)
	tt := rootType(tr)
	w.Shape("typed|" + skeletonOf(tt[0], 0))
	for i := 0; i < a.Rounds; i++ {
		r := prng(a.T, uint64(100+i))
		if i%2 == 0 {
			marshalRound(w, tt, r, r.Uint64())
		} else {
			unmarshalRound(w, tt, r, uint64(i))
		}
	}
	if w.WantSample() {
		in := genInput(prng(a.T, 999), tt[0], "", 0)
		w.Sample(map[string]any{"exec": "typed", "type": tt[0].String(), "example_input": in})
	}
}

// skeletonOf is the shape key of a type: kinds, declared names and tag options, 3 levels deep.
func skeletonOf(t reflect.Type, depth int) string {
	if depth > 3 {
		return "…"
	}
	if t.Name() != "" {
		return typeName(t)
	}
	switch t.Kind() {
	case reflect.Pointer:
		return "*" + skeletonOf(t.Elem(), depth+1)
	case reflect.Slice:
		return "[]" + skeletonOf(t.Elem(), depth+1)
	case reflect.Array:
		return "[N]" + skeletonOf(t.Elem(), depth+1)
	case reflect.Map:
		return "map[" + skeletonOf(t.Key(), depth+1) + "]" + skeletonOf(t.Elem(), depth+1)
	case reflect.Struct:
		s := "struct{"
		for i := 0; i < t.NumField(); i++ {
			_, o, _ := jsonFieldName(t.Field(i))
			s += skeletonOf(t.Field(i).Type, depth+1)
			if o != "" {
				s += "`" + o + "`"
			}
			s += ";"
		}
		return s + "}"
	}
	return typeName(t)
}

package main

// Diff signatures: every disagreement is reduced to normalized root-cause attributes
// (which side failed, error class, type/tag feature at the first difference, normalized
// first differing bytes) so that one root cause yields one or a few signatures.

import (
	"bytes"
	stdjson "encoding/json"
	"errors"
	"fmt"
	"reflect"
	"sort"
	"strings"

	v1 "github.com/go-json-experiment/json/v1"

	"verif/ref"
)

// outcome of one guarded call
type outcome struct {
	err   error
	panic any
}

func (o outcome) failed() bool { return o.err != nil || o.panic != nil }

func (o outcome) String() string {
	if o.panic != nil {
		return fmt.Sprintf("PANIC %v", o.panic)
	}
	if o.err != nil {
		return fmt.Sprintf("error(%T) %v", o.err, o.err)
	}
	return "ok"
}

func guard(fn func() error) (o outcome) {
	defer func() {
		if r := recover(); r != nil {
			o.panic = r
		}
	}()
	o.err = fn()
	return
}

// skeleton strips quoted text, digits and type-ish words from an error text.
func skeleton(s string) string {
	s = strings.ReplaceAll(s, "unable to", "cannot")
	var out []rune
	inq := false
	for _, r := range s {
		switch {
		case r == '"' || r == '`':
			inq = !inq
		case inq:
		case r >= '0' && r <= '9':
		default:
			out = append(out, r)
		}
	}
	w := strings.Fields(string(out))
	var keep []string
	for _, x := range w {
		if strings.ContainsAny(x, ".{}[]*\\") && !strings.HasPrefix(x, "json") {
			continue
		}
		keep = append(keep, x)
	}
	if len(keep) > 9 {
		keep = keep[:9]
	}
	return strings.Join(keep, " ")
}

func firstWord(s string) string {
	if i := strings.IndexByte(s, ' '); i >= 0 {
		return s[:i]
	}
	return s
}

// errAttrs adds the normalized class of a failure to sig.
func errAttrs(sig map[string]string, o outcome) {
	if o.panic != nil {
		sig["class"] = "panic"
		sig["text"] = skeleton(fmt.Sprint(o.panic))
		return
	}
	err := o.err
	var (
		se1 *stdjson.SyntaxError
		se2 *v1.SyntaxError
		ut1 *stdjson.UnmarshalTypeError
		ut2 *v1.UnmarshalTypeError
		iu1 *stdjson.InvalidUnmarshalError
		iu2 *v1.InvalidUnmarshalError
		us1 *stdjson.UnsupportedTypeError
		us2 *v1.UnsupportedTypeError
		uv1 *stdjson.UnsupportedValueError
		uv2 *v1.UnsupportedValueError
		me1 *stdjson.MarshalerError
		me2 *v1.MarshalerError
	)
	switch {
	case errors.As(err, &me1):
		sig["class"] = "MarshalerError"
		sig["etype"] = typeName(me1.Type)
		sig["inner"] = fmt.Sprintf("%T", me1.Err)
	case errors.As(err, &me2):
		sig["class"] = "MarshalerError"
		sig["etype"] = typeName(me2.Type)
		sig["inner"] = fmt.Sprintf("%T", me2.Err)
	case errors.As(err, &se1), errors.As(err, &se2):
		sig["class"] = "SyntaxError"
	case errors.As(err, &ut1):
		sig["class"] = "UnmarshalTypeError"
		sig["value"] = firstWord(ut1.Value)
		sig["etype"] = typeName(ut1.Type)
	case errors.As(err, &ut2):
		sig["class"] = "UnmarshalTypeError"
		sig["value"] = firstWord(ut2.Value)
		sig["etype"] = typeName(ut2.Type)
		if ut2.Err != nil {
			sig["inner"] = fmt.Sprintf("%T", ut2.Err)
		}
	case errors.As(err, &iu1), errors.As(err, &iu2):
		sig["class"] = "InvalidUnmarshalError"
	case errors.As(err, &us1):
		sig["class"] = "UnsupportedTypeError"
		sig["etype"] = typeName(us1.Type)
	case errors.As(err, &us2):
		sig["class"] = "UnsupportedTypeError"
		sig["etype"] = typeName(us2.Type)
	case errors.As(err, &uv1):
		sig["class"] = "UnsupportedValueError"
		sig["text"] = skeleton(uv1.Str)
	case errors.As(err, &uv2):
		sig["class"] = "UnsupportedValueError"
		sig["text"] = skeleton(uv2.Str)
	default:
		sig["class"] = fmt.Sprintf("%T", err)
		sig["text"] = skeleton(err.Error())
	}
}

// fieldPathOf returns UnmarshalTypeError.Field of either package ("" when absent).
func fieldPathOf(err error) (string, bool) {
	var ut1 *stdjson.UnmarshalTypeError
	var ut2 *v1.UnmarshalTypeError
	switch {
	case errors.As(err, &ut1):
		return ut1.Field, true
	case errors.As(err, &ut2):
		return ut2.Field, true
	}
	return "", false
}

// ---- locating the Go type feature that produced a byte of the classic output ----

type feature struct {
	typ, opts, via string
}

func (f feature) into(sig map[string]string) {
	sig["type"] = f.typ
	if f.opts != "" {
		sig["opts"] = f.opts
	}
	sig["via"] = f.via
}

// findField resolves a JSON member name to a struct field the way classic does (an exactly
// named field of the visible set, else the first case-insensitive match in depth-first index
// order).  It only steers signatures, the packages under test are never asked.
func findField(t reflect.Type, name string) (reflect.StructField, string, bool) {
	var best *cand
	fs := visibleFields(t)
	for i := range fs {
		c := &fs[i]
		if c.name == name {
			best = c
			break
		}
		if strings.EqualFold(c.name, name) && (best == nil || indexLess(c.index, best.index)) {
			best = c
		}
	}
	if best == nil {
		return reflect.StructField{}, "", false
	}
	ft := t
	var f reflect.StructField
	for _, i := range best.index {
		if ft.Kind() == reflect.Pointer {
			ft = ft.Elem()
		}
		f = ft.Field(i)
		ft = f.Type
	}
	_, o, _ := jsonFieldName(f)
	return f, o, true
}

// locate walks type and JSON tree in parallel down to the node containing off.
func locate(t reflect.Type, opts, via string, n *ref.Node, off int, depth int) feature {
	stars := ""
	for t.Kind() == reflect.Pointer && !hasMethods(t) {
		stars += "*"
		t = t.Elem()
	}
	here := feature{stars + typeName(t), opts, via}
	if n == nil || depth > 12 || hasMethods(t) || t == timeT {
		return here
	}
	switch t.Kind() {
	case reflect.Struct:
		if n.Kind != ref.Object {
			return here
		}
		prevEnd := n.Start
		for _, m := range n.Members {
			if off >= prevEnd && off < m.Value.End {
				f, o, ok := findField(t, m.Name)
				if !ok {
					return here
				}
				if off < m.Value.Start {
					// inside the member name
					return feature{typeName(f.Type), o, "name"}
				}
				return locate(f.Type, o, "field", m.Value, off, depth+1)
			}
			prevEnd = m.Value.End
		}
	case reflect.Map:
		if n.Kind != ref.Object {
			return here
		}
		prevEnd := n.Start
		for _, m := range n.Members {
			if off >= prevEnd && off < m.Value.End {
				if off < m.Value.Start {
					return feature{typeName(t.Key()), "", "mapkey"}
				}
				return locate(t.Elem(), "", "mapval", m.Value, off, depth+1)
			}
			prevEnd = m.Value.End
		}
	case reflect.Slice, reflect.Array:
		if n.Kind != ref.Array || t.Elem().Kind() == reflect.Uint8 {
			return here
		}
		for _, e := range n.Elems {
			if off >= e.Start && off < e.End {
				return locate(t.Elem(), "", "elem", e, off, depth+1)
			}
		}
	case reflect.Interface:
		return feature{here.typ + ":" + kindWord(n.Kind), opts, via}
	}
	return here
}

func kindWord(k ref.Kind) string {
	return [...]string{"null", "bool", "number", "string", "array", "object"}[k]
}

// locatePath follows a dotted UnmarshalTypeError.Field path through t.
func locatePath(t reflect.Type, path string) feature {
	opts, via := "", "root"
	if path != "" {
		for _, seg := range strings.Split(path, ".") {
			for t.Kind() == reflect.Pointer {
				t = t.Elem()
			}
			switch t.Kind() {
			case reflect.Struct:
				f, o, ok := findField(t, seg)
				if !ok {
					return feature{typeName(t), "", "lost"}
				}
				t, opts, via = f.Type, o, "field"
			case reflect.Map:
				t, opts, via = t.Elem(), "", "mapval"
			case reflect.Slice, reflect.Array:
				t, opts, via = t.Elem(), "", "elem"
			default:
				return feature{typeName(t), opts, via}
			}
		}
	}
	return feature{typeName(t), opts, via}
}

func firstDiff(a, b []byte) int {
	i := 0
	for i < len(a) && i < len(b) && a[i] == b[i] {
		i++
	}
	return i
}

// nodeAt returns the kind of the innermost node of the tree containing off.
func nodeAt(n *ref.Node, off int) string {
	for n != nil {
		var next *ref.Node
		switch n.Kind {
		case ref.Array:
			for _, e := range n.Elems {
				if off >= e.Start && off < e.End {
					next = e
				}
			}
		case ref.Object:
			prevEnd := n.Start
			for _, m := range n.Members {
				if off >= prevEnd && off < m.Value.Start {
					return "name"
				}
				if off >= m.Value.Start && off < m.Value.End {
					next = m.Value
				}
				prevEnd = m.Value.End
			}
		}
		if next == nil {
			return kindWord(n.Kind)
		}
		n = next
	}
	return "none"
}

var permissive = ref.Opts{AllowInvalidUTF8: true, AllowDup: true}

// bytesDiffSig fills sig with the nature of the first difference between two outputs for
// a value of type t (t may be nil for untyped APIs).
func bytesDiffSig(sig map[string]string, t reflect.Type, a, b []byte) {
	i := firstDiff(a, b)
	sig["std"] = normWindow(a, i, 4)
	sig["v1"] = normWindow(b, i, 4)
	na, nb := ref.Parse(a, permissive), ref.Parse(b, permissive)
	if na != nil {
		sig["std_at"] = nodeAt(na, i)
	}
	if nb != nil {
		sig["v1_at"] = nodeAt(nb, i)
	}
	if t != nil {
		switch {
		case na != nil:
			locate(t, "", "root", na, min(i, len(a)-1), 0).into(sig)
		case nb != nil:
			locate(t, "", "root", nb, min(i, len(b)-1), 0).into(sig)
		}
	}
}

// canonDup reorders, inside every object, runs of adjacent members with equal names by
// their raw value text: the classic package leaves the order among equal keys unspecified.
func canonDup(b []byte) []byte {
	n := ref.Parse(b, permissive)
	if n == nil || !ref.HasDuplicate(n) {
		return b
	}
	var out bytes.Buffer
	var emit func(n *ref.Node)
	emit = func(n *ref.Node) {
		switch n.Kind {
		case ref.Array:
			out.WriteByte('[')
			for i, e := range n.Elems {
				if i > 0 {
					out.WriteByte(',')
				}
				emit(e)
			}
			out.WriteByte(']')
		case ref.Object:
			ms := append([]ref.Member(nil), n.Members...)
			for i := 0; i < len(ms); {
				j := i + 1
				for j < len(ms) && ms[j].Name == ms[i].Name {
					j++
				}
				run := ms[i:j]
				sort.SliceStable(run, func(x, y int) bool {
					return string(b[run[x].Value.Start:run[x].Value.End]) < string(b[run[y].Value.Start:run[y].Value.End])
				})
				i = j
			}
			out.WriteByte('{')
			for i, m := range ms {
				if i > 0 {
					out.WriteByte(',')
				}
				out.WriteString(m.RawName)
				out.WriteByte(':')
				emit(m.Value)
			}
			out.WriteByte('}')
		default:
			out.Write(b[n.Start:n.End])
		}
	}
	emit(n)
	return out.Bytes()
}

package main

// Triage support: with C09_TRIAGE=<path prefix> every worker appends the first witnesses
// of each signature (untruncated by the per-worker cap) to <prefix>.<shard>.jsonl and
// counts witnesses per signature.  Not used by normal runs.

import (
	stdjson "encoding/json"
	"fmt"
	"os"
	"sort"
	"strings"
	"sync"

	"verif/run"
)

var triage = struct {
	sync.Mutex
	f     *os.File
	count map[string]int
}{count: map[string]int{}}

func sigKey(sub string, sig map[string]string) string {
	ks := make([]string, 0, len(sig))
	for k := range sig {
		ks = append(ks, k)
	}
	sort.Strings(ks)
	var sb strings.Builder
	sb.WriteString(sub)
	for _, k := range ks {
		sb.WriteString(" " + k + "=" + sig[k])
	}
	return sb.String()
}

func violate(w *run.W, sub string, sig map[string]string, format string, a ...any) {
	if _, ok := sig["cause"]; !ok {
		sig["cause"] = causeUnclassified
	}
	w.Count("disagreements_"+sub, 1)
	w.Count("cause_"+sig["cause"], 1)
	w.Violate(sub, sig, format, a...)
	prefix := os.Getenv("C09_TRIAGE")
	if prefix == "" {
		return
	}
	triage.Lock()
	defer triage.Unlock()
	if triage.f == nil {
		triage.f, _ = os.OpenFile(fmt.Sprintf("%s.%d.jsonl", prefix, w.Shard), os.O_CREATE|os.O_WRONLY|os.O_APPEND, 0o644)
	}
	k := sigKey(sub, sig)
	triage.count[k]++
	if triage.count[k] <= 2 {
		b, _ := stdjson.Marshal(map[string]any{"key": k, "detail": fmt.Sprintf(format, a...)})
		triage.f.Write(append(b, '\n'))
	} else {
		b, _ := stdjson.Marshal(map[string]any{"key": k})
		triage.f.Write(append(b, '\n'))
	}
}

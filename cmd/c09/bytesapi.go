package main

// exec "bytes": the byte-level API (Valid, Compact, Indent, HTMLEscape), Unmarshal into
// any / into a fixed struct, and Marshal/MarshalIndent/Encoder of what was decoded.

import (
	"bytes"
	stdjson "encoding/json"
	"fmt"
	"reflect"

	v1 "github.com/go-json-experiment/json/v1"

	"verif/ref"
	"verif/run"
)

type bytesArgs struct {
	Text   []byte `json:"text"`
	Prefix string `json:"prefix"`
	Indent string `json:"indent"`
	Pre    string `json:"pre"` // bytes already in dst
}

type Inner struct {
	X int
	Y string `json:"y,omitempty"`
}

// the fixed struct of the prototype, one declaration per side (RawMessage, Number differ)
type T1s struct {
	A    int            `json:"a"`
	B    []any          `json:"b"`
	C    map[string]any `json:"c"`
	Name string
	I    int     `json:",string"`
	F    float64 `json:",string"`
	Bo   bool    `json:"B,string"`
	S    string  `json:",string"`
	P    *int    `json:",string"`
	Inner
	PI    *Inner
	M     map[int]string
	Arr   [2]int
	By    []byte
	Raw   stdjson.RawMessage `json:"raw"`
	Num   stdjson.Number     `json:"num"`
	Iface any
}
type T1v struct {
	A    int            `json:"a"`
	B    []any          `json:"b"`
	C    map[string]any `json:"c"`
	Name string
	I    int     `json:",string"`
	F    float64 `json:",string"`
	Bo   bool    `json:"B,string"`
	S    string  `json:",string"`
	P    *int    `json:",string"`
	Inner
	PI    *Inner
	M     map[int]string
	Arr   [2]int
	By    []byte
	Raw   v1.RawMessage `json:"raw"`
	Num   v1.Number     `json:"num"`
	Iface any
}

var t1T = [2]reflect.Type{reflect.TypeFor[T1s](), reflect.TypeFor[T1v]()}

func inputClass(b []byte) string {
	switch {
	case stdjson.Valid(b):
		n := ref.Parse(b, permissive)
		if n == nil {
			return "valid?"
		}
		return "valid-" + kindWord(n.Kind)
	default:
		return "invalid"
	}
}

func execBytes(w *run.W, a *bytesArgs) {
	in := a.Text
	class := inputClass(in)
	w.Shape("bytes|" + class + "|" + tokenSkeleton(in))

	// Valid
	w.Eval(1)
	va, vb := stdjson.Valid(in), v1.Valid(bytes.Clone(in))
	if va != vb {
		w.Count("Valid_disagree", 1)
		violate(w, "valid-differs", map[string]string{"std": fmt.Sprint(va), "v1": fmt.Sprint(vb)}, "Valid(%q): classic %v, v1 %v", in, va, vb)
	} else if va {
		w.Count("Valid_both_ok", 1)
	} else {
		w.Count("Valid_both_fail", 1)
	}

	// Compact / Indent / HTMLEscape into a buffer that already holds bytes
	cmpBuf := func(api, sub string, f1 func(*bytes.Buffer) error, f2 func(*bytes.Buffer) error) {
		w.Eval(1)
		var b1, b2 bytes.Buffer
		b1.WriteString(a.Pre)
		b2.WriteString(a.Pre)
		o1 := guard(func() error { return f1(&b1) })
		o2 := guard(func() error { return f2(&b2) })
		if o1.failed() != o2.failed() {
			tally(w, api, o1, o2)
			side, o := whichFails(o1, o2)
			sig := map[string]string{"api": api, "fails": side}
			errAttrs(sig, o)
			violate(w, sub, sig, "%s(%q, prefix=%q indent=%q): classic %v, v1 %v", api, in, a.Prefix, a.Indent, o1, o2)
			return
		}
		if !tally(w, api, o1, o2) {
			return
		}
		if !bytes.Equal(b1.Bytes(), b2.Bytes()) {
			sig := map[string]string{"api": api}
			bytesDiffSig(sig, nil, b1.Bytes(), b2.Bytes())
			if api == "Indent" {
				sig["prefix_blank"] = fmt.Sprint(isBlank(a.Prefix))
				sig["indent_blank"] = fmt.Sprint(isBlank(a.Indent))
			}
			violate(w, sub, sig, "%s(%q, prefix=%q indent=%q, dst holds %q)\n classic: %q\n v1:      %q", api, in, a.Prefix, a.Indent, a.Pre, b1.Bytes(), b2.Bytes())
		}
	}
	cmpBuf("Compact", "compact-differs",
		func(b *bytes.Buffer) error { return stdjson.Compact(b, in) },
		func(b *bytes.Buffer) error { return v1.Compact(b, bytes.Clone(in)) })
	cmpBuf("Indent", "indent-differs",
		func(b *bytes.Buffer) error { return stdjson.Indent(b, in, a.Prefix, a.Indent) },
		func(b *bytes.Buffer) error { return v1.Indent(b, bytes.Clone(in), a.Prefix, a.Indent) })
	cmpBuf("HTMLEscape", "htmlescape-differs",
		func(b *bytes.Buffer) error { stdjson.HTMLEscape(b, in); return nil },
		func(b *bytes.Buffer) error { v1.HTMLEscape(b, bytes.Clone(in)); return nil })

	// Unmarshal into any (zero and pre-populated) and into the fixed struct
	r := prng(uint64(len(in))*1315423911+hashBytes(in), 7)
	for variant := 0; variant < 3; variant++ {
		c := &umCase{tt: [2]reflect.Type{anyT, anyT}, api: [...]string{"Unmarshal-any", "Unmarshal-any-prepopulated", "Unmarshal-struct"}[variant]}
		switch variant {
		case 1:
			c.prepop = func(int) (reflect.Value, bool) {
				return reflect.ValueOf(map[string]any{"a": map[string]any{"a": 1.0, "z": "keep"}, "b": []any{1.0, 2.0, 3.0}, "z": true}), true
			}
		case 2:
			c.tt = t1T
			if r.IntN(2) == 0 {
				s := r.Uint64()
				c.prepop = func(side int) (reflect.Value, bool) { return genValue(prng(s, 3), t1T[side], side, 0), true }
			}
		}
		if res, ok := c.check(w, in); ok {
			marshalBoth(w, c.tt, r, res.p0.Elem(), res.p1.Elem())
		}
	}
}

func isBlank(s string) bool {
	for _, c := range s {
		if c != ' ' && c != '\t' {
			return false
		}
	}
	return true
}

func hashBytes(b []byte) uint64 {
	h := uint64(14695981039346656037)
	for _, c := range b {
		h = (h ^ uint64(c)) * 1099511628211
	}
	return h
}

// tokenSkeleton is the shape key of a text: its token kinds up to the first error.
func tokenSkeleton(b []byte) string {
	toks, _, _ := ref.Tokenize(b, permissive)
	s := make([]byte, 0, len(toks))
	for _, t := range toks {
		s = append(s, t.Kind)
		if len(s) >= 40 {
			break
		}
	}
	return string(s)
}

package main

// Go value generator, type-directed JSON input generator and the cross-side comparer.

import (
	"bytes"
	"fmt"
	"math"
	"math/rand/v2"
	"reflect"
	"strings"
	"time"
	"unicode"

	"verif/gen"
)

var strPool = []string{"", "a", "é😀", "<>&", "\u2028\u2029", "\"\\", "\x00\x1f", "null", "12", "true", "tm:x", "x\ty\n", "\x7f", "\xff", "a\xc3", "\xed\xa0\x80z",
	"\xfe", "+1", "1.5", " 1", "\"q\"", "ERR", "K", "\u212a", "long long long long long long long long long long long long long long string"}

var jscrPool = []string{`null`, `{"a": 1}`, ` [1, 2] `, `"<&>"`, `tru`, ``, `{"a":1,"a":2}`, `"\u2028 "`, "\"\xff\"", `1.0e+1`, `"\ud800"`, `{"k":"\u003c"}`, `ERR`, `[]x`, "\t\"x\"\n", `"\u00e9é"`, `-0`, `{"b":2,"a":[ ]}`}

var rawPool = jscrPool[:len(jscrPool)]

var numberPool = []string{"0", "1", "-1", "1.5", "1e2", "1E+2", "-0", "0.0", "123456789012345678901234567890", "1e400", "", "abc", "+1", "01", "1.", "0x1", " 1", "1 ", "-", "NaN", "1e", "١"}

var int64Pool = []int64{0, 1, -1, 127, -128, 255, 256, math.MaxInt64, math.MinInt64, 1 << 53, 1e9, 3600e9}
var uint64Pool = []uint64{0, 1, 255, 256, math.MaxUint64, 1 << 53, 65535}
var floatPool = []float64{0, math.Copysign(0, -1), 1, -1.5, 1e21, 1e-7, 1e20, 0.000001, 1e-6, 9.999999e-7, math.MaxFloat32, math.SmallestNonzeroFloat64, math.MaxFloat64,
	math.NaN(), math.Inf(1), math.Inf(-1), 1e300, 123456789, 0.1, 1.0000001, 3.4e38, 16777217, 100, 1e6, 123456.7}

// genValue builds a value of t (side s).  The RNG consumption depends only on the
// structure of t, never on the side, so two calls with equal seeds give equal values.
func genValue(r *rand.Rand, t reflect.Type, s int, depth int) reflect.Value {
	v := reflect.New(t).Elem()
	if depth > 7 {
		return v
	}
	switch t {
	case rawT[0], rawT[1]:
		if k := r.IntN(len(rawPool) + 1); k < len(rawPool) {
			v.SetBytes([]byte(rawPool[k]))
		}
		return v
	case numberT[0], numberT[1]:
		v.SetString(numberPool[r.IntN(len(numberPool))])
		return v
	case jscrT:
		v.SetString(jscrPool[r.IntN(len(jscrPool))])
		return v
	case timeT:
		tt := time.Unix([]int64{0, 1e9, -1e9, 253402300799, 253402300800, -62135596800, -62135596801, -62198755200}[r.IntN(8)], []int64{0, 1, 999999999, 500000000}[r.IntN(4)]).UTC()
		switch r.IntN(5) {
		case 0:
			tt = tt.In(time.FixedZone("", (r.IntN(47)-23)*1800))
		case 1:
			tt = tt.In(time.FixedZone("X", []int{1, -1, 59, 3599, 86399, -86399, 24 * 3600, 100 * 3600}[r.IntN(8)]))
		case 2:
			tt = time.Time{}
		}
		v.Set(reflect.ValueOf(tt))
		return v
	}
	switch t.Kind() {
	case reflect.Bool:
		v.SetBool(r.IntN(2) == 0)
	case reflect.Int, reflect.Int8, reflect.Int16, reflect.Int32, reflect.Int64:
		x := int64Pool[r.IntN(len(int64Pool))]
		v.SetInt(reflect.ValueOf(x).Convert(t).Int())
	case reflect.Uint, reflect.Uint8, reflect.Uint16, reflect.Uint32, reflect.Uint64, reflect.Uintptr:
		x := uint64Pool[r.IntN(len(uint64Pool))]
		v.SetUint(reflect.ValueOf(x).Convert(t).Uint())
	case reflect.Float32, reflect.Float64:
		f := floatPool[r.IntN(len(floatPool))]
		if t.Kind() == reflect.Float32 {
			f = float64(float32(f))
		}
		v.SetFloat(f)
	case reflect.String:
		v.SetString(strPool[r.IntN(len(strPool))])
	case reflect.Slice:
		if r.IntN(4) == 0 {
			return v
		}
		n := r.IntN(4)
		sl := reflect.MakeSlice(t, n, n+r.IntN(2))
		for i := 0; i < n; i++ {
			sl.Index(i).Set(genValue(r, t.Elem(), s, depth+1))
		}
		v.Set(sl)
	case reflect.Array:
		for i := 0; i < t.Len(); i++ {
			v.Index(i).Set(genValue(r, t.Elem(), s, depth+1))
		}
	case reflect.Map:
		if r.IntN(4) == 0 {
			return v
		}
		m := reflect.MakeMap(t)
		for i := r.IntN(4); i > 0; i-- {
			m.SetMapIndex(genValue(r, t.Key(), s, depth+1), genValue(r, t.Elem(), s, depth+1))
		}
		v.Set(m)
	case reflect.Pointer:
		if r.IntN(3) == 0 {
			return v
		}
		p := reflect.New(t.Elem())
		p.Elem().Set(genValue(r, t.Elem(), s, depth+1))
		v.Set(p)
	case reflect.Interface:
		if t.NumMethod() > 0 {
			switch r.IntN(4) {
			case 1:
				if reflect.TypeFor[JM]().Implements(t) {
					v.Set(genValue(r, reflect.TypeFor[JM](), s, depth+1))
				} else {
					v.Set(genValue(r, reflect.TypeFor[TM](), s, depth+1))
				}
			case 2:
				if reflect.TypeFor[*PJM]().Implements(t) {
					v.Set(genValue(r, reflect.TypeFor[*PJM](), s, depth+1))
				} else {
					v.Set(genValue(r, reflect.TypeFor[*PTM](), s, depth+1))
				}
			case 3:
				if reflect.TypeFor[JScr]().Implements(t) {
					v.Set(genValue(r, jscrT, s, depth+1))
				} else {
					v.Set(genValue(r, tscrT, s, depth+1))
				}
			}
			return v
		}
		switch r.IntN(9) {
		case 1:
			v.Set(reflect.ValueOf(r.IntN(2) == 0))
		case 2:
			v.Set(reflect.ValueOf(strPool[r.IntN(len(strPool))]))
		case 3:
			v.Set(reflect.ValueOf(floatPool[r.IntN(len(floatPool))]))
		case 4:
			v.Set(reflect.ValueOf([]any{nil, 1.0, "x"}))
		case 5:
			v.Set(reflect.ValueOf(map[string]any{"k": "v", "a": nil, "<": []any{}}))
		case 6, 7:
			it := pickLeaf(r)[s]
			if it.Kind() != reflect.Interface {
				v.Set(genValue(r, it, s, depth+1))
			}
		case 8:
			it := pickLeaf(r)[s]
			if it.Kind() != reflect.Interface {
				p := reflect.New(it)
				p.Elem().Set(genValue(r, it, s, depth+1))
				v.Set(p)
			}
		}
	case reflect.Struct:
		fillStruct(r, v, s, depth)
	case reflect.Chan:
		if r.IntN(2) == 0 {
			v.Set(reflect.MakeChan(t, 0))
		}
	case reflect.Func:
		if r.IntN(2) == 0 {
			v.Set(reflect.MakeFunc(t, func([]reflect.Value) []reflect.Value { return nil }))
		}
	case reflect.Complex64, reflect.Complex128:
		v.SetComplex(complex(float64(r.IntN(2)), 0))
	}
	return v
}

// fillStruct sets the exported fields of v, descending into unexported embedded structs
// (their exported fields are settable, exactly as for the packages under comparison).
func fillStruct(r *rand.Rand, v reflect.Value, s int, depth int) {
	t := v.Type()
	for i := 0; i < t.NumField(); i++ {
		f := t.Field(i)
		switch {
		case f.IsExported():
			v.Field(i).Set(genValue(r, f.Type, s, depth+1))
		case f.Anonymous && f.Type.Kind() == reflect.Struct:
			fillStruct(r, v.Field(i), s, depth+1)
		}
	}
}

// ---------------------------------------------------------------------------------
// JSON inputs

var junkStrings = []string{`""`, `"a"`, `"1"`, `"true"`, `"tm:x"`, `"AQID"`, `"AQ=="`, `"!!"`, `"\"q\""`, `"null"`, `"1.5"`, `" 1"`, `"é"`, `"\ud800"`, `"\ud83d\ude00"`,
	`"2006-01-02T15:04:05Z"`, `"1h"`, `"-1"`, `"1e2"`, `"0x1"`, `"+1"`, `"01"`, `"\"1\""`, `"\"true\""`, `"\"null\""`, `"AQI"`, "\"AQ\\r\\nID\"", "\"\xff\"", `"ERR"`, `"i7"`, `"\u0000"`,
	`"<&>"`, `"\u003c"`, `"\/"`, `"K"`, `"\u212a"`, `"-0"`, `"1E+2"`, `"false"`, `"\"\""`, `"\"a"`, `"1 "`, `"٣"`, `"1_0"`, `"Infinity"`, `"NaN"`, `"0.1e1"`, `"256"`, `"-129"`}

var junkNumbers = []string{"0", "1", "-1", "255", "256", "1.5", "1e2", "-129", "127", "128", "65536", "9223372036854775807", "9223372036854775808", "-9223372036854775808", "-9223372036854775809",
	"18446744073709551615", "18446744073709551616", "1e400", "-1e400", "3.4e38", "3.5e38", "-0", "1E+2", "0.0", "1.0", "1e0", "100e-2", "1e-400", "4294967296", "1e19", "0.1", "16777217", "1e-7", "123456789012345678901234567890"}

var b64Strings = []string{`""`, `"AQID"`, `"AQ=="`, `"AQ"`, `"AQI="`, `"AQI"`, `"!!"`, `"AQ==AQ=="`, `"A Q I D"`, "\"AQ\\r\\nID\"", "\"AQ\\nID\"", `"-_-_"`, `"+/+/"`, `"AQID\n"`, `"AR=="`, `"AQ=\u003d"`, `"=AQI"`, `"A==="`, `"QUJD"`, `"AAECAwQ="`}

var timeStrings = []string{`"2006-01-02T15:04:05Z"`, `"2006-01-02T15:04:05.999999999+07:00"`, `"2006-01-02T15:04:05,5Z"`, `"2006-01-02t15:04:05z"`, `"2006-01-02T5:04:05Z"`, `"2006-01-02T24:00:00Z"`,
	`"2006-01-02T15:04:05+24:00"`, `"2006-01-02T15:04:05+23:60"`, `"0000-01-01T00:00:00Z"`, `"10000-01-01T00:00:00Z"`, `"2006-01-02T15:04:05.Z"`, `"2006-01-02 15:04:05Z"`, `"2006-01-02T15:04:05"`,
	`"2006-01-02T15:04:05-00:00"`, `"2006-01-02T15:04:60Z"`, `"2016-12-31T23:59:60Z"`, `"2006-02-30T00:00:00Z"`, `"2006-01-02T15:04:05.1234567891Z"`, `""`, `"2006-01-02T15:04:05Z "`, `"2006-01-02T15:04:05\u005a"`, `"+2006-01-02T15:04:05Z"`,
	`"2006-01-02T15:04:05+07"`, `"2006-01-02T15:04:05+0700"`, `"2006-01-02T15:04Z"`, `"2006-01-02T15:04:5Z"`}

func pick(r *rand.Rand, p []string) string { return p[r.IntN(len(p))] }

func genJunk(r *rand.Rand, depth int) string {
	switch k := r.IntN(12); {
	case k < 1:
		return "null"
	case k < 2:
		return pick(r, []string{"true", "false"})
	case k < 4:
		return pick(r, junkNumbers)
	case k < 6:
		return pick(r, junkStrings)
	case k < 8 && depth < 3:
		n := r.IntN(4)
		var parts []string
		for i := 0; i < n; i++ {
			parts = append(parts, genJunk(r, depth+1))
		}
		return "[" + strings.Join(parts, ",") + "]"
	case depth < 3:
		n := r.IntN(4)
		var parts []string
		for i := 0; i < n; i++ {
			parts = append(parts, junkKey(r)+`:`+genJunk(r, depth+1))
		}
		return "{" + strings.Join(parts, ",") + "}"
	}
	return "1"
}

var junkKeys = []string{"A", "a", "b", "B", "c", "C", "Ab", "AB", "ab", "X", "x y", "é", "a-b", "aB", "Name", "jm", "V", "1", "2", "-1", "tm:k", "E1", "a_b", "emb", "A_b", "true", "1.5", "Z", "", "k", "K", "\u212a", "s", "ſ", "q", "'q'", "i3", "256", "+1", "01", " 1", "v", "next", "kids", "x", "e1", "z", "Zz", "Y", "NI", "ni", "e3", "P", "q"}

func junkKey(r *rand.Rand) string { return quoteKey(junkKeys[r.IntN(len(junkKeys))]) }

func quoteKey(s string) string {
	var sb strings.Builder
	sb.WriteByte('"')
	for _, c := range []byte(s) {
		switch {
		case c == '"' || c == '\\':
			sb.WriteByte('\\')
			sb.WriteByte(c)
		case c < 0x20:
			fmt.Fprintf(&sb, `\u%04x`, c)
		default:
			sb.WriteByte(c)
		}
	}
	sb.WriteByte('"')
	return sb.String()
}

// jsonFieldName is the JSON name the classic package documents for a field (tag name when
// present and valid, else the Go name); used only to steer input generation.
func jsonFieldName(f reflect.StructField) (name, opts string, skip bool) {
	tag, ok := f.Tag.Lookup("json")
	if tag == "-" {
		return "", "", true
	}
	name = f.Name
	if ok {
		n, o, _ := strings.Cut(tag, ",")
		opts = o
		if n != "" && classicValidTagName(n) {
			name = n // a tag name with other characters (quotes, control characters) is ignored by both packages
		}
	}
	return name, opts, false
}

func varyName(r *rand.Rand, s string) string {
	switch r.IntN(12) {
	case 0:
		return strings.ToUpper(s)
	case 1:
		return strings.ToLower(s)
	case 2:
		return strings.NewReplacer("_", "", "-", "").Replace(s)
	case 3:
		return strings.NewReplacer("k", "\u212a", "K", "\u212a", "s", "ſ", "S", "ſ").Replace(s)
	case 4:
		if len(s) > 1 {
			return s[:1] + "_" + s[1:]
		}
	case 5:
		// swap case of the first letter
		rs := []rune(s)
		if len(rs) > 0 {
			if unicode.IsUpper(rs[0]) {
				rs[0] = unicode.ToLower(rs[0])
			} else {
				rs[0] = unicode.ToUpper(rs[0])
			}
		}
		return string(rs)
	}
	return s
}

func stringifyInput(r *rand.Rand, lit string) string {
	// wrap a JSON literal for a `,string` field
	switch r.IntN(10) {
	case 0:
		return lit // not quoted at all
	case 1:
		return pick(r, []string{`"null"`, `"\"null\""`, `""`, `"+1"`, `" 1"`, `"1 "`, `"01"`, `"0x1"`, `"1e2"`, `"1.0"`, `"-0"`, `"true "`, `"TRUE"`, `"\"a"`, `"a\""`, `"\"\\u0061\""`, `"1_0"`, `"٣"`, `"0b1"`, `"1."`, `".5"`, `"Inf"`, `"nan"`, `"1e400"`, `"-"`, `"\"\\ud800\""`})
	}
	return quoteKey(lit)
}

// genInput builds a JSON text directed by t.
func genInput(r *rand.Rand, t reflect.Type, opts string, depth int) string {
	if depth > 8 {
		return "null"
	}
	switch k := r.IntN(100); {
	case k < 6:
		return genJunk(r, 2)
	case k < 12:
		return "null"
	}
	str := strings.Contains(","+opts+",", ",string,")
	switch t {
	case rawT[0], rawT[1], jscrT:
		return genJunk(r, 1)
	case numberT[0], numberT[1]:
		if r.IntN(3) == 0 {
			return pick(r, junkStrings)
		}
		lit := pick(r, junkNumbers)
		if str {
			return stringifyInput(r, lit)
		}
		return lit
	case timeT:
		return pick(r, timeStrings)
	}
	if hasMethods(t) && t.Kind() != reflect.Struct {
		if r.IntN(2) == 0 {
			return pick(r, junkStrings)
		}
		return genJunk(r, 2)
	}
	switch t.Kind() {
	case reflect.Bool:
		lit := pick(r, []string{"true", "false"})
		if str {
			return stringifyInput(r, lit)
		}
		return lit
	case reflect.Int, reflect.Int8, reflect.Int16, reflect.Int32, reflect.Int64, reflect.Uint, reflect.Uint8, reflect.Uint16, reflect.Uint32, reflect.Uint64, reflect.Uintptr, reflect.Float32, reflect.Float64:
		lit := pick(r, junkNumbers)
		if str {
			return stringifyInput(r, lit)
		}
		if r.IntN(12) == 0 {
			return pick(r, junkStrings)
		}
		return lit
	case reflect.String:
		lit := pick(r, junkStrings)
		if str {
			return stringifyInput(r, lit)
		}
		return lit
	case reflect.Slice, reflect.Array:
		if t.Elem().Kind() == reflect.Uint8 && r.IntN(4) > 0 {
			return pick(r, b64Strings)
		}
		n := r.IntN(4)
		if t.Kind() == reflect.Array && r.IntN(2) == 0 {
			n = t.Len() + r.IntN(3) - 1
			if n < 0 {
				n = 0
			}
		}
		var parts []string
		for i := 0; i < n; i++ {
			parts = append(parts, genInput(r, t.Elem(), "", depth+1))
		}
		return "[" + strings.Join(parts, ",") + "]"
	case reflect.Map:
		n := r.IntN(4)
		var parts []string
		for i := 0; i < n; i++ {
			var key string
			switch kt := t.Key(); {
			case r.IntN(6) == 0:
				key = junkKey(r)
			case kt.Kind() == reflect.String:
				key = pick(r, junkStrings)
			case kt == reflect.TypeFor[ITM]():
				key = pick(r, []string{`"i1"`, `"i-2"`, `"1"`, `"i"`})
			case kt == reflect.TypeFor[JTM]():
				key = pick(r, []string{`"a"`, `"b"`, `"\u0061"`, `""`})
			case kt == timeT:
				key = pick(r, timeStrings)
			case kt == reflect.TypeFor[TM]():
				key = pick(r, []string{`"tm:a"`, `"tm:b"`, `"b"`, `"ERR"`, `""`})
			case kt.Kind() == reflect.Pointer:
				key = pick(r, []string{`"ptm:a"`, `"a"`})
			default:
				key = quoteKey(pick(r, []string{"0", "1", "-1", "255", "256", "127", "128", "-128", "-129", "1.0", "+1", "01", " 1", "1e2", "0x1", "", "9223372036854775807", "9223372036854775808", "18446744073709551615", "-0", "00", "1_0"}))
			}
			parts = append(parts, key+":"+genInput(r, t.Elem(), "", depth+1))
			if r.IntN(8) == 0 {
				parts = append(parts, key+":"+genInput(r, t.Elem(), "", depth+1)) // duplicate key
			}
		}
		return "{" + strings.Join(parts, ",") + "}"
	case reflect.Pointer:
		return genInput(r, t.Elem(), opts, depth)
	case reflect.Interface:
		return genJunk(r, 1)
	case reflect.Struct:
		var parts []string
		var add func(t reflect.Type, lvl int)
		add = func(t reflect.Type, lvl int) {
			for i := 0; i < t.NumField(); i++ {
				f := t.Field(i)
				if r.IntN(4) == 0 {
					continue
				}
				name, fopts, skip := jsonFieldName(f)
				if skip {
					name = pick(r, []string{"-", f.Name})
				}
				_, tagged := f.Tag.Lookup("json")
				if f.Anonymous && !tagged && lvl < 3 {
					et := f.Type
					if et.Kind() == reflect.Pointer {
						et = et.Elem()
					}
					if et.Kind() == reflect.Struct && r.IntN(5) > 0 {
						add(et, lvl+1)
						continue
					}
				}
				parts = append(parts, quoteKey(varyName(r, name))+":"+genInput(r, f.Type, fopts, depth+1))
				if r.IntN(10) == 0 {
					parts = append(parts, quoteKey(varyName(r, name))+":"+genInput(r, f.Type, fopts, depth+1))
				}
			}
		}
		add(t, 0)
		if r.IntN(4) == 0 {
			parts = append(parts, junkKey(r)+":"+genJunk(r, 2))
		}
		r.Shuffle(len(parts), func(i, j int) { parts[i], parts[j] = parts[j], parts[i] })
		return "{" + strings.Join(parts, ",") + "}"
	}
	return genJunk(r, 2)
}

// finishInput adds whitespace and (sometimes) byte-level damage.
func finishInput(r *rand.Rand, s string) []byte {
	b := []byte(s)
	switch r.IntN(10) {
	case 0:
		b = append([]byte(pick(r, []string{" ", "\n", "\t\r\n "})), b...)
	case 1:
		b = append(b, pick(r, []string{" ", "\n", "\t\r\n "})...)
	case 2:
		// whitespace after structural characters (outside strings: approximate by toggling on quotes)
		var out []byte
		in := false
		for i, c := range b {
			out = append(out, c)
			if c == '"' && (i == 0 || b[i-1] != '\\') {
				in = !in
			}
			if !in && (c == ',' || c == ':' || c == '[' || c == '{') && r.IntN(3) == 0 {
				out = append(out, ' ')
			}
		}
		b = out
	}
	if r.IntN(7) == 0 {
		for k := 1 + r.IntN(2); k > 0; k-- {
			b = gen.Mutate(r, b)
		}
	}
	return b
}

// ---------------------------------------------------------------------------------
// comparison across sides

// vdiff describes the first difference found by sameValue.
type vdiff struct {
	typ  string // normalized type at the difference
	opts string // tag options of the nearest struct field when only pointers lie between
	via  string // immediate container: root, field, elem, mapval, mapkey, iface
	what string // nil-vs-set, len, value, type, keys
	a, b string // normalized scalars
	path string // human-readable path (message only)
}

func normScalar(s string) string {
	if len(s) > 16 {
		s = s[:16] + "…"
	}
	return fmt.Sprintf("%q", s)
}

// sameValue compares a (side 0) with b (side 1) structurally.  Semantics follow
// reflect.DeepEqual (nil and empty slices/maps differ) except that floats compare by bits
// with all NaNs equal, and the identity-special types of the two packages correspond.
func sameValue(a, b reflect.Value, opts, via, path string, depth int) *vdiff {
	mk := func(what, x, y string) *vdiff {
		return &vdiff{typ: typeName(a.Type()), opts: opts, via: via, what: what, a: x, b: y, path: path}
	}
	if depth > 40 {
		return nil
	}
	if a.Kind() != b.Kind() {
		return mk("kind", a.Kind().String(), b.Kind().String())
	}
	switch a.Kind() {
	case reflect.Bool:
		if a.Bool() != b.Bool() {
			return mk("value", fmt.Sprint(a.Bool()), fmt.Sprint(b.Bool()))
		}
	case reflect.Int, reflect.Int8, reflect.Int16, reflect.Int32, reflect.Int64:
		if a.Int() != b.Int() {
			return mk("value", normNum(fmt.Sprint(a.Int())), normNum(fmt.Sprint(b.Int())))
		}
	case reflect.Uint, reflect.Uint8, reflect.Uint16, reflect.Uint32, reflect.Uint64, reflect.Uintptr:
		if a.Uint() != b.Uint() {
			return mk("value", normNum(fmt.Sprint(a.Uint())), normNum(fmt.Sprint(b.Uint())))
		}
	case reflect.Float32, reflect.Float64:
		x, y := a.Float(), b.Float()
		if math.Float64bits(x) != math.Float64bits(y) && !(math.IsNaN(x) && math.IsNaN(y)) {
			return mk("value", normNum(fmt.Sprint(x)), normNum(fmt.Sprint(y)))
		}
	case reflect.Complex64, reflect.Complex128:
		if a.Complex() != b.Complex() {
			return mk("value", "", "")
		}
	case reflect.String:
		if a.String() != b.String() {
			return mk("value", normScalar(a.String()), normScalar(b.String()))
		}
	case reflect.Slice:
		if a.IsNil() != b.IsNil() {
			return mk("nil-vs-set", fmt.Sprint(a.IsNil()), fmt.Sprint(b.IsNil()))
		}
		if a.Len() != b.Len() {
			return mk("len", "", "")
		}
		if a.Type().Elem().Kind() == reflect.Uint8 {
			if !bytes.Equal(a.Bytes(), b.Bytes()) {
				return mk("value", normScalar(string(a.Bytes())), normScalar(string(b.Bytes())))
			}
			return nil
		}
		for i := 0; i < a.Len(); i++ {
			if d := sameValue(a.Index(i), b.Index(i), "", "elem", fmt.Sprintf("%s[%d]", path, i), depth+1); d != nil {
				return d
			}
		}
	case reflect.Array:
		for i := 0; i < a.Len(); i++ {
			if d := sameValue(a.Index(i), b.Index(i), "", "elem", fmt.Sprintf("%s[%d]", path, i), depth+1); d != nil {
				return d
			}
		}
	case reflect.Map:
		if a.IsNil() != b.IsNil() {
			return mk("nil-vs-set", fmt.Sprint(a.IsNil()), fmt.Sprint(b.IsNil()))
		}
		if a.Len() != b.Len() {
			return mk("len", "", "")
		}
		bkeys := b.MapKeys()
		usedB := make([]bool, len(bkeys))
		for _, ka := range a.MapKeys() {
			found := -1
			for j, kb := range bkeys {
				if !usedB[j] && sameValue(ka, kb, "", "mapkey", path, depth+1) == nil {
					// among equal keys (pointer keys) prefer one with an equal value
					if found < 0 {
						found = j
					}
					if sameValue(a.MapIndex(ka), b.MapIndex(kb), "", "mapval", path, depth+1) == nil {
						found = j
						break
					}
				}
			}
			if found < 0 {
				d := mk("keys", normScalar(fmt.Sprint(ka.Interface())), "")
				d.via = "mapkey"
				d.typ = typeName(a.Type().Key())
				return d
			}
			usedB[found] = true
			if d := sameValue(a.MapIndex(ka), b.MapIndex(bkeys[found]), "", "mapval", fmt.Sprintf("%s[%v]", path, ka.Interface()), depth+1); d != nil {
				return d
			}
		}
	case reflect.Pointer:
		if a.IsNil() != b.IsNil() {
			return mk("nil-vs-set", fmt.Sprint(a.IsNil()), fmt.Sprint(b.IsNil()))
		}
		if !a.IsNil() {
			return sameValue(a.Elem(), b.Elem(), opts, via, path+"*", depth+1)
		}
	case reflect.Interface:
		if a.IsNil() != b.IsNil() {
			return mk("nil-vs-set", fmt.Sprint(a.IsNil()), fmt.Sprint(b.IsNil()))
		}
		if !a.IsNil() {
			ea, eb := a.Elem(), b.Elem()
			if !typesCorrespond(ea.Type(), eb.Type()) {
				return mk("type", typeName(ea.Type()), typeName(eb.Type()))
			}
			return sameValue(ea, eb, "", "iface", path+".(any)", depth+1)
		}
	case reflect.Struct:
		if a.Type() == timeT {
			ta, tb := a.Interface().(time.Time), b.Interface().(time.Time)
			_, oa := ta.Zone()
			_, ob := tb.Zone()
			if !ta.Equal(tb) || oa != ob {
				return mk("value", "time", "time")
			}
			return nil
		}
		for i := 0; i < a.NumField(); i++ {
			f := a.Type().Field(i)
			if !f.IsExported() && !(f.Anonymous && f.Type.Kind() == reflect.Struct) {
				continue // never touched by either package nor by the generator
			}
			_, fo, _ := jsonFieldName(f)
			if d := sameValue(a.Field(i), b.Field(i), fo, "field", path+"."+f.Name, depth+1); d != nil {
				return d
			}
		}
	case reflect.Chan, reflect.Func:
		if a.IsNil() != b.IsNil() {
			return mk("nil-vs-set", "", "")
		}
	}
	return nil
}

func typesCorrespond(a, b reflect.Type) bool {
	if a == b {
		return true
	}
	if a == numberT[0] && b == numberT[1] || a == rawT[0] && b == rawT[1] {
		return true
	}
	if a.Kind() != b.Kind() || a.Name() != "" || b.Name() != "" {
		return false
	}
	switch a.Kind() {
	case reflect.Pointer, reflect.Slice:
		return typesCorrespond(a.Elem(), b.Elem())
	case reflect.Array:
		return a.Len() == b.Len() && typesCorrespond(a.Elem(), b.Elem())
	case reflect.Map:
		return typesCorrespond(a.Key(), b.Key()) && typesCorrespond(a.Elem(), b.Elem())
	case reflect.Struct:
		if a.NumField() != b.NumField() {
			return false
		}
		for i := 0; i < a.NumField(); i++ {
			if a.Field(i).Name != b.Field(i).Name || a.Field(i).Tag != b.Field(i).Tag || !typesCorrespond(a.Field(i).Type, b.Field(i).Type) {
				return false
			}
		}
		return true
	}
	return false
}

// normNum keeps the shape of a number but not its digits.
func normNum(s string) string {
	if len(s) > 12 {
		s = s[:12] + "…"
	}
	return s
}

package main

// Root-cause classification of disagreements.  Every report carries a normalized attribute
// cause=<kebab-case>, computed from structural facts of the (reduced) case only: features of
// the Go type at the point of disagreement, tag options, the class of the JSON input there,
// facts about the Go value, and which side failed.  Error texts and raw bytes are never
// consulted.  A report no rule attributes gets cause=unclassified plus the coarse attributes
// (type, opts, input class, error class, normalized shape of the first differing bytes).
//
// The rules are deliberately narrow: each one states the complete structural condition of one
// recorded divergence between classic encoding/json and v1 (DESIGN §6), so that a different
// defect hitting a neighbouring type or input stays unclassified and is reported as new.

import (
	"bytes"
	"fmt"
	"reflect"
	"sort"
	"strings"
	"unicode"
	"unicode/utf8"

	"verif/ref"
)

const (
	causeUnclassified = "unclassified"

	// marshal side
	causeInvalidUTF8Spelling = "invalid-utf8-escape-spelling"        // F8
	causeJSSepRawString      = "js-separators-in-raw-string-no-html" // U+2028/9 inside MarshalJSON/RawMessage output, Encoder.SetEscapeHTML(false)
	causeStringKeyTextMethod = "text-method-on-string-kind-map-key"  // classic ignores MarshalText of a map key type of kind string
	causeInvalidUTF8KeyOrder = "invalid-utf8-text-key-order"         // keys from MarshalText with ill-formed UTF-8: classic sorts the raw texts, v1 the sanitized names

	// unmarshal side
	causeStringTagMethodType = "string-tag-on-unmarshaler-type"  // `,string` on a basic-kind type with UnmarshalJSON/UnmarshalText
	causeStringTagNumber     = "string-tag-number-unvalidated"   // `,string` on json.Number: classic stores the quoted text unvalidated
	causeStringTagSurrogate  = "string-tag-inner-lone-surrogate" // `,string` on a Go string: inner quoted text with an unpaired surrogate escape
	causeTimeEscapedString   = "time-string-with-escape"         // time.Time from a JSON string spelled with an escape sequence
	causeJSONMethodMapKey    = "map-key-type-with-unmarshaljson" // key type with UnmarshalJSON and UnmarshalText: classic hands the quoted name to UnmarshalJSON
	causeFoldCandidateOrder  = "fold-candidate-order"            // F20: several case-insensitive candidates, none exact
)

// ---------------------------------------------------------------------------------
// marshal side: spelling differences that are peeled off before the outputs are compared

type spelling struct {
	std, v1 string
	nested  bool // only inside a string that itself holds a quoted string ("\"…\"": the `,string` form of a Go string)
}

var (
	// classic `\ufffd` (six bytes) where v1 writes U+FFFD itself (three bytes)
	// (under `,string` classic's escape is itself quoted once more: `\\ufffd`, seven bytes)
	spellInvalidUTF8 = []spelling{{"\\ufffd", "\xef\xbf\xbd", false}, {"\\\\ufffd", "\xef\xbf\xbd", true}}
	// classic leaves U+2028/U+2029 of a raw string as they are where v1 escapes them
	spellJSSep = []spelling{{"\xe2\x80\xa8", "\\u2028", false}, {"\xe2\x80\xa9", "\\u2029", false}}
)

// peel walks the classic output a and the v1 output b in parallel and returns a copy of a in
// which every place where a spells s.std while b spells s.v1 (same position, escape sequences
// taken as units, so `\\ufffd` is never mistaken for an escape) is rewritten to s.v1.  The walk
// stops at the first other difference; the rest of a is copied unchanged.  n counts rewrites.
func peel(a, b []byte, subs []spelling) (out []byte, n int) {
	out = make([]byte, 0, len(b))
	i, j := 0, 0
	inStr, nested := false, false
walk:
	for i < len(a) && j < len(b) {
		if a[i] == '"' { // (an escaped quote is consumed below as a pair)
			inStr = !inStr
			nested = inStr && bytes.HasPrefix(a[i+1:], []byte(`\"`))
		}
		for _, s := range subs {
			if (!s.nested || nested) && bytes.HasPrefix(a[i:], []byte(s.std)) && bytes.HasPrefix(b[j:], []byte(s.v1)) {
				out = append(out, s.v1...)
				i, j, n = i+len(s.std), j+len(s.v1), n+1
				continue walk
			}
		}
		switch {
		case a[i] == '\\':
			if i+1 < len(a) && j+1 < len(b) && b[j] == '\\' && a[i+1] == b[j+1] {
				out = append(out, a[i], a[i+1])
				i, j = i+2, j+2
				continue
			}
			break walk
		case a[i] == b[j]:
			out = append(out, a[i])
			i, j = i+1, j+1
		default:
			break walk
		}
	}
	return append(out, a[i:]...), n
}

// respell rewrites every true occurrence of s.std in x (escape pairs taken as units) to s.v1,
// without a partner text.  Only used to compare outputs that also differ in the order of
// duplicate names, where a parallel walk is impossible.
func respell(x []byte, subs []spelling) []byte {
	out := make([]byte, 0, len(x))
	inStr, nested := false, false
walk:
	for i := 0; i < len(x); {
		if x[i] == '"' {
			inStr = !inStr
			nested = inStr && bytes.HasPrefix(x[i+1:], []byte(`\"`))
		}
		for _, s := range subs {
			if (!s.nested || nested) && bytes.HasPrefix(x[i:], []byte(s.std)) {
				out = append(out, s.v1...)
				i += len(s.std)
				continue walk
			}
		}
		if x[i] == '\\' && i+1 < len(x) {
			out = append(out, x[i], x[i+1])
			i += 2
			continue
		}
		out = append(out, x[i])
		i++
	}
	return out
}

// marshalBytesCauses explains differing outputs by the recorded marshal-side divergences.  It
// returns the causes that are needed to make the outputs equal (usually one), or
// causeUnclassified together with the peeled classic output, on which the caller describes the
// first remaining difference.  The common path is exact: a parallel walk that only accepts the
// classic spelling opposite the v1 spelling at the same place.  Outputs that additionally differ
// in member order (duplicate names in an unspecified order; keys with ill-formed UTF-8, sorted
// differently) cannot be walked in parallel: there each text is re-spelled on its own and the
// canonical forms are compared.
func marshalBytesCauses(a, b []byte, noHTMLEscape bool, val any) (causes []string, rest []byte) {
	a1, n1 := peel(a, b, spellInvalidUTF8)
	if n1 > 0 && bytes.Equal(a1, b) {
		return []string{causeInvalidUTF8Spelling}, a1
	}
	type spellSet struct {
		subs   []spelling
		causes []string
	}
	sets := []spellSet{{nil, nil}, {spellInvalidUTF8, []string{causeInvalidUTF8Spelling}}}
	if noHTMLEscape {
		if a2, n2 := peel(a, b, spellJSSep); n2 > 0 && bytes.Equal(a2, b) {
			return []string{causeJSSepRawString}, a2
		}
		both := append(append([]spelling(nil), spellInvalidUTF8...), spellJSSep...)
		if a2, n2 := peel(a, b, both); n2 > 0 && bytes.Equal(a2, b) {
			return []string{causeInvalidUTF8Spelling, causeJSSepRawString}, a2
		}
		sets = append(sets, spellSet{spellJSSep, []string{causeJSSepRawString}},
			spellSet{both, []string{causeInvalidUTF8Spelling, causeJSSepRawString}})
	}
	if n := ref.Parse(a, permissive); n != nil {
		for _, canon := range []struct {
			f     func([]byte) []byte
			cause string
		}{{canonDup, ""}, {canonFFFDKeyOrder, causeInvalidUTF8KeyOrder}} {
			cb := canon.f(b)
			for _, set := range sets {
				if set.subs == nil && canon.cause == "" {
					continue // plain duplicate-order equality was excused by the caller already
				}
				if ca := canon.f(respell(a, set.subs)); ca != nil && bytes.Equal(ca, cb) {
					cs := append([]string(nil), set.causes...)
					if canon.cause != "" {
						cs = append(cs, canon.cause)
					}
					return cs, a1
				}
			}
		}
	}
	if stringKindKeyWithTextMethod(reflect.ValueOf(val), 0) && differOnlyInNames(a1, b) {
		// only when nothing else explains the difference; the witness is in the value itself
		return []string{causeStringKeyTextMethod}, a1
	}
	return []string{causeUnclassified}, a1
}

// canonFFFDKeyOrder re-serializes x compactly with (1) the members of every object that has a
// name containing U+FFFD sorted by name and (2) everywhere, members with equal names (possible
// with pointer keys; their order is unspecified) ordered by their canonical value text.
// nil if x is not JSON.
func canonFFFDKeyOrder(x []byte) []byte {
	n := ref.Parse(x, permissive)
	if n == nil {
		return nil
	}
	var emit func(n *ref.Node) string
	emit = func(n *ref.Node) string {
		switch n.Kind {
		case ref.Array:
			parts := make([]string, len(n.Elems))
			for i, e := range n.Elems {
				parts[i] = emit(e)
			}
			return "[" + strings.Join(parts, ",") + "]"
		case ref.Object:
			type mem struct{ name, raw, val string }
			ms := make([]mem, len(n.Members))
			byName := false
			for i, m := range n.Members {
				ms[i] = mem{m.Name, m.RawName, emit(m.Value)}
				byName = byName || strings.Contains(m.Name, "\ufffd")
			}
			if byName {
				sort.SliceStable(ms, func(i, j int) bool {
					if ms[i].name != ms[j].name {
						return ms[i].name < ms[j].name
					}
					return ms[i].val < ms[j].val
				})
			} else {
				for i := 0; i < len(ms); {
					j := i + 1
					for j < len(ms) && ms[j].name == ms[i].name {
						j++
					}
					run := ms[i:j]
					sort.SliceStable(run, func(x, y int) bool { return run[x].val < run[y].val })
					i = j
				}
			}
			parts := make([]string, len(ms))
			for i, m := range ms {
				parts[i] = m.raw + ":" + m.val
			}
			return "{" + strings.Join(parts, ",") + "}"
		}
		return string(x[n.Start:n.End])
	}
	return []byte(emit(n))
}

// differOnlyInNames reports whether two JSON texts have the same tree except for object member names.
func differOnlyInNames(a, b []byte) bool {
	na, nb := ref.Parse(a, permissive), ref.Parse(b, permissive)
	if na == nil || nb == nil {
		return false
	}
	var same func(x, y *ref.Node) bool
	same = func(x, y *ref.Node) bool {
		if x.Kind != y.Kind || len(x.Elems) != len(y.Elems) || len(x.Members) != len(y.Members) {
			return false
		}
		switch x.Kind {
		case ref.Array:
			for i := range x.Elems {
				if !same(x.Elems[i], y.Elems[i]) {
					return false
				}
			}
		case ref.Object:
			for i := range x.Members {
				if !same(x.Members[i].Value, y.Members[i].Value) {
					return false
				}
			}
		default:
			return string(a[x.Start:x.End]) == string(b[y.Start:y.End])
		}
		return true
	}
	return same(na, nb)
}

// stringKindKeyWithTextMethod reports whether the Go value holds a map whose key type has kind
// string and a MarshalText method that does not act as the identity on one of the keys present
// (it fails or returns other bytes): classic writes such keys from the string itself
// (resolveKeyName tests the kind first), v1 calls the method.
func stringKindKeyWithTextMethod(v reflect.Value, depth int) bool {
	if !v.IsValid() || depth > 12 {
		return false
	}
	switch v.Kind() {
	case reflect.Pointer, reflect.Interface:
		if v.IsNil() {
			return false
		}
		return stringKindKeyWithTextMethod(v.Elem(), depth+1)
	case reflect.Map:
		kt := v.Type().Key()
		strKey := kt.Kind() == reflect.String && kt.Implements(textMarshalerT)
		for it := v.MapRange(); it.Next(); {
			if strKey && it.Key().CanInterface() {
				if tm, ok := it.Key().Interface().(interface{ MarshalText() ([]byte, error) }); ok {
					if b, err := tm.MarshalText(); err != nil || string(b) != it.Key().String() {
						return true
					}
				}
			}
			if stringKindKeyWithTextMethod(it.Value(), depth+1) {
				return true
			}
		}
	case reflect.Slice, reflect.Array:
		if v.Type().Elem().Kind() == reflect.Uint8 {
			return false
		}
		for i := 0; i < v.Len(); i++ {
			if stringKindKeyWithTextMethod(v.Index(i), depth+1) {
				return true
			}
		}
	case reflect.Struct:
		if hasMethods(v.Type()) || v.Type() == timeT {
			return false
		}
		for i := 0; i < v.NumField(); i++ {
			f := v.Type().Field(i)
			if f.IsExported() || f.Anonymous && f.Type.Kind() == reflect.Struct {
				if stringKindKeyWithTextMethod(v.Field(i), depth+1) {
					return true
				}
			}
		}
	}
	return false
}

// marshalErrorCause attributes a marshal call that fails on one side only.
func marshalErrorCause(side string, o outcome, val any) string {
	if side == "v1" && o.panic == nil && stringKindKeyWithTextMethod(reflect.ValueOf(val), 0) {
		return causeStringKeyTextMethod
	}
	return causeUnclassified
}

// ---------------------------------------------------------------------------------
// unmarshal side

// spot is the place of a reduced input where the chain of single-child containers ends:
// the Go type there, the tag options of the nearest struct field, and the JSON node.
type spot struct {
	feat  feature
	t     reflect.Type // type at the spot, pointers removed
	ptrs  int          // number of pointers removed
	node  *ref.Node
	fold  bool // on the way a member name had no exact match and candidates in conflicting order
	input []byte
}

func hasOpt(opts, o string) bool {
	for _, x := range strings.Split(opts, ",") {
		if x == o {
			return true
		}
	}
	return false
}

func isBasicKind(k reflect.Kind) bool {
	switch k {
	case reflect.Bool, reflect.String, reflect.Float32, reflect.Float64,
		reflect.Int, reflect.Int8, reflect.Int16, reflect.Int32, reflect.Int64,
		reflect.Uint, reflect.Uint8, reflect.Uint16, reflect.Uint32, reflect.Uint64, reflect.Uintptr:
		return true
	}
	return false
}

func hasUnmarshalMethod(t reflect.Type) bool {
	pt := reflect.PointerTo(t)
	return pt.Implements(stdUnmarshalerT) || pt.Implements(textUnmarshalT)
}

// classicQuotes reports whether classic honours `,string` on a field of type ft: the option
// applies to fields whose type, after removing one unnamed pointer, has a basic kind — whatever
// methods the type has (encoding/json typeFields).
func classicQuotes(ft reflect.Type, opts string) (base reflect.Type, ok bool) {
	if !hasOpt(opts, "string") {
		return nil, false
	}
	if ft.Name() == "" && ft.Kind() == reflect.Pointer {
		ft = ft.Elem()
	}
	return ft, isBasicKind(ft.Kind())
}

// loneSurrogateEscape reports whether the raw JSON string literal lit (quotes included)
// contains a \uXXXX surrogate escape that is not part of a well-formed pair.
func loneSurrogateEscape(lit string) bool {
	if _, ok := ref.Unquote([]byte(lit), true); !ok {
		return false // not a string literal even leniently
	}
	_, strict := ref.Unquote([]byte(lit), false)
	if strict {
		return false
	}
	// lenient ok, strict not: ill-formed UTF-8 or an unpaired surrogate escape; tell them apart
	return utf8.ValidString(lit)
}

// unmarshalCause attributes a disagreement of Unmarshal/Decode from the reduced case.
// class is the result class of umCase.run: error-differs:std, error-differs:v1, value-differs.
func unmarshalCause(sp *spot, class string, d *vdiff) string {
	if sp == nil || sp.node == nil {
		return causeUnclassified
	}
	n, ft, opts := sp.node, sp.fieldType(), sp.feat.opts
	if sp.fold {
		return causeFoldCandidateOrder
	}
	if sp.t == timeT && n.Kind == ref.String && strings.Contains(n.Raw, `\`) && class == "error-differs:std" {
		// classic hands the raw literal to time.Time.UnmarshalJSON (also for a map key, see
		// below), which does not unescape; v1 parses the unescaped text
		return causeTimeEscapedString
	}
	if sp.feat.via == "mapkey" {
		// classic decodes a key whose type has text methods through literalStore, which prefers
		// UnmarshalJSON (given the quoted name) when the type has that method too; v1 calls
		// UnmarshalText (time.Time: its native parser) with the unescaped name
		pk := reflect.PointerTo(sp.t)
		if sp.t != timeT && pk.Implements(stdUnmarshalerT) && pk.Implements(textUnmarshalT) {
			return causeJSONMethodMapKey
		}
		return causeUnclassified
	}
	if base, ok := classicQuotes(ft, opts); ok && sp.feat.via == "field" {
		switch {
		case base == numberT[0] || base == numberT[1]:
			// classic: the quoted text is stored without validation when it starts like a
			// number, "null" is a no-op, a doubly quoted valid number is accepted; v1 validates
			if n.Kind == ref.String && class == "error-differs:v1" {
				return causeStringTagNumber
			}
		case hasUnmarshalMethod(base):
			// classic strips the quotes and hands the inner text to the method (or refuses an
			// unquoted value); v1 ignores the option for types with methods
			if n.Kind != ref.Null {
				return causeStringTagMethodType
			}
		case base.Kind() == reflect.String && !hasMethods(base):
			if n.Kind == ref.String && class == "error-differs:v1" && len(n.S) >= 2 && n.S[0] == '"' && loneSurrogateEscape(n.S) {
				return causeStringTagSurrogate
			}
		}
	}
	return causeUnclassified
}

// fieldType is the declared type of the struct field (or element) at the spot: sp.t with its
// pointers put back.
func (sp *spot) fieldType() reflect.Type {
	t := sp.t
	for i := 0; i < sp.ptrs; i++ {
		t = reflect.PointerTo(t)
	}
	return t
}

// ---- fold-candidate-order -------------------------------------------------------------

type cand struct {
	name   string
	index  []int
	tagged bool
	order  int // breadth-first discovery order
}

// classicValidTagName is encoding/json's isValidTag.
func classicValidTagName(s string) bool {
	if s == "" {
		return false
	}
	for _, c := range s {
		switch {
		case strings.ContainsRune("!#$%&()*+-./:;<=>?@[]^_{|}~ ", c):
		case !unicode.IsLetter(c) && !unicode.IsDigit(c):
			return false
		}
	}
	return true
}

// visibleFields lists the JSON fields of struct type t the way both packages select them for
// exact names: breadth-first over untagged embedded structs; among equal names the shallowest
// wins, then the only tagged one, otherwise all are dropped.
func visibleFields(t reflect.Type) []cand {
	type item struct {
		t     reflect.Type
		index []int
	}
	var all []cand
	level := []item{{t, nil}}
	visited := map[reflect.Type]bool{}
	for depth := 0; depth < 6 && len(level) > 0; depth++ {
		var next []item
		for _, it := range level {
			if visited[it.t] {
				continue
			}
			visited[it.t] = true
			for i := 0; i < it.t.NumField(); i++ {
				f := it.t.Field(i)
				ft := f.Type
				if ft.Name() == "" && ft.Kind() == reflect.Pointer {
					ft = ft.Elem()
				}
				if f.Anonymous {
					if !f.IsExported() && ft.Kind() != reflect.Struct {
						continue
					}
				} else if !f.IsExported() {
					continue
				}
				tag := f.Tag.Get("json")
				if tag == "-" {
					continue
				}
				name, _, _ := strings.Cut(tag, ",")
				if !classicValidTagName(name) {
					name = ""
				}
				idx := append(append([]int(nil), it.index...), i)
				if name == "" && f.Anonymous && ft.Kind() == reflect.Struct {
					next = append(next, item{ft, idx})
					continue
				}
				c := cand{name: name, index: idx, tagged: name != "", order: len(all)}
				if name == "" {
					c.name = f.Name
				}
				all = append(all, c)
			}
		}
		level = next
	}
	var out []cand
	byName := map[string][]cand{}
	var names []string
	for _, c := range all {
		if _, ok := byName[c.name]; !ok {
			names = append(names, c.name)
		}
		byName[c.name] = append(byName[c.name], c)
	}
	for _, nm := range names {
		cs := byName[nm]
		minD := len(cs[0].index)
		for _, c := range cs {
			minD = min(minD, len(c.index))
		}
		var top, topTagged []cand
		for _, c := range cs {
			if len(c.index) == minD {
				top = append(top, c)
				if c.tagged {
					topTagged = append(topTagged, c)
				}
			}
		}
		switch {
		case len(top) == 1:
			out = append(out, top[0])
		case len(topTagged) == 1:
			out = append(out, topTagged[0])
		}
	}
	return out
}

func indexLess(a, b []int) bool {
	for i := 0; i < len(a) && i < len(b); i++ {
		if a[i] != b[i] {
			return a[i] < b[i]
		}
	}
	return len(a) < len(b)
}

// foldOrderConflict reports whether member name has no exactly named field in struct type t
// while several fields match it case-insensitively and the first of them in depth-first index
// order (classic's choice) is not the first in breadth-first order (v1's choice).
func foldOrderConflict(t reflect.Type, name string) bool {
	var dfs, bfs *cand
	n := 0
	fs := visibleFields(t)
	for i := range fs {
		c := &fs[i]
		if c.name == name {
			return false
		}
		if !strings.EqualFold(c.name, name) {
			continue
		}
		n++
		if dfs == nil || indexLess(c.index, dfs.index) {
			dfs = c
		}
		if bfs == nil || c.order < bfs.order {
			bfs = c
		}
	}
	return n >= 2 && dfs != bfs
}

// normWindow renders up to n bytes of x from i as character classes (never raw data):
// a letter, # digit, _ space, x non-ASCII, c control; punctuation stands for itself.
func normWindow(x []byte, i, n int) string {
	if i > len(x) {
		i = len(x)
	}
	j := min(i+n, len(x))
	var sb strings.Builder
	for _, c := range x[i:j] {
		switch {
		case c >= '0' && c <= '9':
			sb.WriteByte('#')
		case c >= 'a' && c <= 'z' || c >= 'A' && c <= 'Z':
			sb.WriteByte('a')
		case c == ' ' || c == '\t' || c == '\n' || c == '\r':
			sb.WriteByte('_')
		case c < 0x20 || c == 0x7f:
			sb.WriteByte('c')
		case c >= 0x80:
			sb.WriteByte('x')
		default:
			sb.WriteByte(c)
		}
	}
	if j == len(x) {
		sb.WriteByte('$')
	}
	return sb.String()
}

// selfTestCauses validates the spelling walker and the structural predicates on fixed cases
// with known answers (part of the monitor's SelfTest).
func selfTestCauses() error {
	type tc struct {
		a, b   string
		noHTML bool
		want   string
	}
	for _, c := range []tc{
		{`{"a":"x\ufffd"}`, "{\"a\":\"x\xef\xbf\xbd\"}", false, causeInvalidUTF8Spelling},
		{`{"a":"\"\\ufffd\""}`, "{\"a\":\"\\\"\xef\xbf\xbd\\\"\"}", false, causeInvalidUTF8Spelling}, // nested under ,string
		{`{"a":"x\\ufffd"}`, "{\"a\":\"x\xef\xbf\xbd\"}", false, causeUnclassified},                  // an escaped backslash, not the escape
		{`{"a":"x\ufffd","b":1}`, "{\"a\":\"x\xef\xbf\xbd\",\"b\":2}", false, causeUnclassified},     // another difference behind it
		{"{\"a\":\"x\xef\xbf\xbd\"}", `{"a":"x\ufffd"}`, false, causeUnclassified},                   // the reverse direction
		{"[\"\xe2\x80\xa8\"]", `["\u2028"]`, true, causeJSSepRawString},
		{"[\"\xe2\x80\xa8\"]", `["\u2028"]`, false, causeUnclassified}, // only with HTML escaping off
		{`{"\ufffd\ufffdz":1,"\ufffd":2}`, "{\"\xef\xbf\xbd\":2,\"\xef\xbf\xbd\xef\xbf\xbdz\":1}", false, causeInvalidUTF8KeyOrder},
		{`{"b":1,"a":2}`, `{"a":2,"b":1}`, false, causeUnclassified}, // member order without ill-formed names
	} {
		cs, _ := marshalBytesCauses([]byte(c.a), []byte(c.b), c.noHTML, nil)
		if got := cs[len(cs)-1]; got != c.want {
			return fmt.Errorf("marshalBytesCauses(%q, %q, noHTML=%v) = %v, want %s", c.a, c.b, c.noHTML, cs, c.want)
		}
	}
	type fe struct{ AB int }
	type fs struct {
		fe
		Ab int
		X  int `json:"x"`
	}
	ft := reflect.TypeFor[fs]()
	if !foldOrderConflict(ft, "ab") || foldOrderConflict(ft, "Ab") || foldOrderConflict(ft, "X") || foldOrderConflict(ft, "nope") {
		return fmt.Errorf("foldOrderConflict misjudges the fixed example")
	}
	if !loneSurrogateEscape(`"\ud800"`) || loneSurrogateEscape(`"\ud83d\ude00"`) || loneSurrogateEscape("\"\xff\"") || loneSurrogateEscape(`"a"`) {
		return fmt.Errorf("loneSurrogateEscape misjudges the fixed examples")
	}
	return nil
}

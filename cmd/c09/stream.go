package main

// exec "stream": Decoder method scripts over {Token, Decode, More, InputOffset}, both
// decoders fed by identically chunked readers (DESIGN §4 C09 "Stream comparison rule").

import (
	"bytes"
	stdjson "encoding/json"
	"errors"
	"fmt"
	"io"
	"math"
	"reflect"
	"strings"

	v1 "github.com/go-json-experiment/json/v1"

	"verif/ref"
	"verif/run"
)

type streamArgs struct {
	Text      []byte `json:"text"`
	Chunk     int    `json:"chunk"` // max bytes per Read (0 = unlimited)
	UseNumber bool   `json:"use_number"`
	Script    uint64 `json:"script"`
	Steps     int    `json:"steps"`
}

type chunkReader struct {
	b []byte
	n int
}

func (c *chunkReader) Read(p []byte) (int, error) {
	if len(p) == 0 {
		return 0, nil
	}
	if len(c.b) == 0 {
		return 0, io.EOF
	}
	k := len(c.b)
	if c.n > 0 && k > c.n {
		k = c.n
	}
	if k > len(p) {
		k = len(p)
	}
	copy(p, c.b[:k])
	c.b = c.b[k:]
	return k, nil
}

func normTok(t any) string {
	switch x := t.(type) {
	case stdjson.Delim:
		return "D" + x.String()
	case v1.Delim:
		return "D" + x.String()
	case stdjson.Number:
		return "N" + string(x)
	case v1.Number:
		return "N" + string(x)
	case float64:
		return fmt.Sprintf("F%x", math.Float64bits(x))
	case string:
		return "S" + x
	case bool:
		return fmt.Sprint("B", x)
	case nil:
		return "null"
	}
	return fmt.Sprintf("?%T", t)
}

func execStream(w *run.W, a *streamArgs) {
	in := a.Text
	_, errOff, complete := ref.Tokenize(in, permissive)
	cleanStream := errOff < 0 && complete
	w.Shape(fmt.Sprintf("stream|%v|%d|%v|%s", cleanStream, min(a.Chunk, 3), a.UseNumber, tokenSkeleton(in)))
	d1 := stdjson.NewDecoder(&chunkReader{b: in, n: a.Chunk})
	d2 := v1.NewDecoder(&chunkReader{b: in, n: a.Chunk})
	if a.UseNumber {
		d1.UseNumber()
		d2.UseNumber()
	}
	r := prng(a.Script, 11)
	var hist []string
	var pendA, pendB []string // buffered More/InputOffset answers
	var stack []byte
	expectKey := false
	report := func(sig map[string]string, format string, args ...any) {
		sig["clean_stream"] = fmt.Sprint(cleanStream)
		violate(w, "decoder-stream-differs", sig, "input=%q chunk=%d usenumber=%v\n calls so far: %s\n %s", in, a.Chunk, a.UseNumber, strings.Join(hist, " "), fmt.Sprintf(format, args...))
	}
	flush := func() bool {
		for i := range pendA {
			if pendA[i] != pendB[i] {
				w.Count("stream_disagree", 1)
				op := firstWord(pendA[i])
				report(map[string]string{"op": op, "at": posWord(stack, expectKey)}, "buffered answers differ: classic %v, v1 %v", pendA, pendB)
				return false
			}
		}
		w.Count("stream_lazy_answers_compared", int64(len(pendA)))
		pendA, pendB = nil, nil
		return true
	}
	for step := 0; step < a.Steps; step++ {
		op := r.IntN(5)
		if op == 4 {
			op = 0
		}
		if op == 3 && expectKey {
			op = 0
		}
		w.Eval(1)
		switch op {
		case 1:
			x, y := d1.More(), d2.More()
			pendA, pendB = append(pendA, fmt.Sprint("More ", x)), append(pendB, fmt.Sprint("More ", y))
			hist = append(hist, "More")
			continue
		case 2:
			x, y := d1.InputOffset(), d2.InputOffset()
			pendA, pendB = append(pendA, fmt.Sprint("InputOffset ", x)), append(pendB, fmt.Sprint("InputOffset ", y))
			hist = append(hist, "InputOffset")
			continue
		}
		var o1, o2 outcome
		var r1, r2 string
		name := "Token"
		pos := posWord(stack, expectKey)
		if op == 0 {
			var t1, t2 any
			o1 = guard(func() (err error) { t1, err = d1.Token(); return })
			o2 = guard(func() (err error) { t2, err = d2.Token(); return })
			r1, r2 = normTok(t1), normTok(t2)
			if !o1.failed() {
				if d, ok := t1.(stdjson.Delim); ok {
					switch d {
					case '{':
						stack = append(stack, '{')
						expectKey = true
					case '[':
						stack = append(stack, '[')
						expectKey = false
					default:
						if len(stack) > 0 {
							stack = stack[:len(stack)-1]
						}
						expectKey = len(stack) > 0 && stack[len(stack)-1] == '{'
					}
				} else if len(stack) > 0 && stack[len(stack)-1] == '{' {
					expectKey = !expectKey
				}
			}
		} else {
			name = "Decode"
			var x1, x2 any
			if r.IntN(4) == 0 {
				// a typed target: values of another kind are refused with a type error AFTER they were consumed,
				// and the Decoder remains usable (the script goes on, see below)
				var i1, i2 int
				o1 = guard(func() error { return d1.Decode(&i1) })
				o2 = guard(func() error { return d2.Decode(&i2) })
				x1, x2 = i1, i2
				w.Count("Decode_stream_typed_target", 1)
			} else {
				o1 = guard(func() error { return d1.Decode(&x1) })
				o2 = guard(func() error { return d2.Decode(&x2) })
			}
			if !o1.failed() && !o2.failed() {
				if d := sameValue(reflect.ValueOf(&x1).Elem(), reflect.ValueOf(&x2).Elem(), "", "root", "", 0); d != nil {
					r1, r2 = "value:"+d.a, "value:"+d.b
				}
			}
			if !o1.failed() && len(stack) > 0 && stack[len(stack)-1] == '{' {
				expectKey = true
			}
		}
		hist = append(hist, name)
		if o1.failed() != o2.failed() {
			w.Count(name+"_stream_disagree", 1)
			side, o := whichFails(o1, o2)
			sig := map[string]string{"op": name, "fails": side, "at": pos}
			errAttrs(sig, o)
			delete(sig, "text")
			report(sig, "%s: classic %v (%s), v1 %v (%s)", name, o1, r1, o2, r2)
			return
		}
		if o1.failed() {
			// Both calls failed: they "fail together".  Which error they return is error
			// identity and outside the property, with one exception: at the clean end of a
			// valid, complete stream the sentinel must be io.EOF on both sides, so there an
			// io.EOF on one side only is a disagreement.  (Two equal non-EOF errors on a
			// clean stream are legitimate: Decode where no value is next, e.g. at a closing
			// bracket, or a semantic error such as a number out of range.)
			w.Count(name+"_stream_both_fail", 1)
			var te1 *stdjson.UnmarshalTypeError
			var te2 *v1.UnmarshalTypeError
			if name == "Decode" && o1.panic == nil && o2.panic == nil && errors.As(o1.err, &te1) && errors.As(o2.err, &te2) {
				// a semantic error: the value was consumed on both sides and both Decoders stay usable; what
				// More and InputOffset answer from here on is compared at the next successful read
				w.Count("stream_semantic_errors_script_continues", 1)
				if len(stack) > 0 && stack[len(stack)-1] == '{' {
					expectKey = true
				}
				continue
			}
			e1, e2 := o1.panic == nil && o1.err == io.EOF, o2.panic == nil && o2.err == io.EOF
			switch {
			case e1 && e2:
				if cleanStream {
					w.Count("stream_clean_ends", 1)
					flush()
				}
			case e1 != e2 && cleanStream:
				w.Count(name+"_stream_disagree", 1)
				report(map[string]string{"op": name, "what": "eof-on-one-side-only", "std_eof": fmt.Sprint(e1), "v1_eof": fmt.Sprint(e2), "at": pos}, "%s: classic %v, v1 %v", name, o1, o2)
			case e1 != e2:
				w.Count("stream_sentinel_identity_differs_on_damaged_input", 1)
			default:
				w.Count("stream_both_fail_not_eof", 1)
			}
			return
		}
		w.Count(name+"_stream_both_ok", 1)
		if r1 != r2 {
			w.Count(name+"_stream_disagree", 1)
			report(map[string]string{"op": name, "what": "result", "at": pos, "std": firstN(r1, 1), "v1": firstN(r2, 1)}, "%s results differ: classic %q, v1 %q", name, r1, r2)
			return
		}
		if !flush() {
			return
		}
	}
}

func firstN(s string, n int) string {
	if len(s) > n {
		return s[:n]
	}
	return s
}

func posWord(stack []byte, expectKey bool) string {
	switch {
	case len(stack) == 0:
		return "top"
	case stack[len(stack)-1] == '[':
		return "array"
	case expectKey:
		return "object-key"
	}
	return "object-value"
}

var _ = bytes.Equal

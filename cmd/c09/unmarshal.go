package main

// One Unmarshal/Decode comparison, reusable for re-execution on reduced inputs: a
// disagreement is first reduced (members and elements of the input are deleted while the
// same kind of disagreement persists) and the signature is taken from the reduced case.

import (
	"bytes"
	stdjson "encoding/json"
	"fmt"
	"math"
	"reflect"
	"strconv"
	"strings"

	v1 "github.com/go-json-experiment/json/v1"

	"verif/ref"
	"verif/run"
)

type umCase struct {
	api    string // counter/api name
	tt     [2]reflect.Type
	mode   int // 0 Unmarshal; 1 Decode; 2 Decode+UseNumber; 3 Decode+DisallowUnknownFields; 4 both options
	prepop func(side int) (reflect.Value, bool)
}

type umResult struct {
	o1, o2 outcome
	p0, p1 reflect.Value
	class  string // both-ok | both-fail | error-differs:std | error-differs:v1 | value-differs
	d      *vdiff
}

func (c *umCase) apiName() string {
	if c.api != "" {
		return c.api
	}
	return [...]string{"Unmarshal", "Decode", "Decode+UseNumber", "Decode+DisallowUnknownFields", "Decode+UseNumber+DisallowUnknownFields"}[c.mode]
}

// sigAPI is the api attribute of signatures (decoder options are workload, not cause).
func (c *umCase) sigAPI() string {
	if c.api != "" {
		return c.api
	}
	if c.mode == 0 {
		return "Unmarshal"
	}
	return "Decode"
}

func (c *umCase) run(in []byte) (res umResult) {
	res.p0, res.p1 = reflect.New(c.tt[0]), reflect.New(c.tt[1])
	if c.prepop != nil {
		if v, ok := c.prepop(0); ok {
			res.p0.Elem().Set(v)
		}
		if v, ok := c.prepop(1); ok {
			res.p1.Elem().Set(v)
		}
	}
	if c.mode == 0 {
		res.o1 = guard(func() error { return stdjson.Unmarshal(in, res.p0.Interface()) })
		res.o2 = guard(func() error { return v1.Unmarshal(bytes.Clone(in), res.p1.Interface()) })
	} else {
		d1, d2 := stdjson.NewDecoder(bytes.NewReader(in)), v1.NewDecoder(bytes.NewReader(in))
		if c.mode == 2 || c.mode == 4 {
			d1.UseNumber()
			d2.UseNumber()
		}
		if c.mode >= 3 {
			d1.DisallowUnknownFields()
			d2.DisallowUnknownFields()
		}
		res.o1 = guard(func() error { return d1.Decode(res.p0.Interface()) })
		res.o2 = guard(func() error { return d2.Decode(res.p1.Interface()) })
	}
	switch {
	case res.o1.failed() && res.o2.failed():
		res.class = "both-fail"
	case res.o1.failed():
		res.class = "error-differs:std"
	case res.o2.failed():
		res.class = "error-differs:v1"
	default:
		res.class = "both-ok"
		if res.d = sameValue(res.p0.Elem(), res.p1.Elem(), "", "root", "", 0); res.d != nil {
			res.class = "value-differs"
		}
	}
	return res
}

// check executes the case on in and reports disagreements.  It returns the result when
// both sides succeeded with equal values (so the caller may go on to marshal them).
func (c *umCase) check(w *run.W, in []byte) (umResult, bool) {
	w.Eval(1)
	api := c.apiName()
	res := c.run(in)
	valid := stdjson.Valid(in)
	desc := func(in []byte) string {
		s := fmt.Sprintf("%s into %v\n input=%q", api, c.tt[0], in)
		if c.prepop != nil {
			if v, ok := c.prepop(1); ok {
				s += "\n pre-populated target=" + short(v.Interface())
			}
		}
		return s
	}
	if !valid && c.mode == 0 {
		// syntactically invalid input: the v1 target must be untouched
		w.Count("syntax_invalid_inputs", 1)
		pre := reflect.New(c.tt[1])
		if c.prepop != nil {
			if v, ok := c.prepop(1); ok {
				pre.Elem().Set(v)
			}
		}
		if d := sameValue(pre.Elem(), res.p1.Elem(), "", "root", "", 0); d != nil {
			sig := map[string]string{"api": c.sigAPI(), "type": d.typ, "what": d.what}
			violate(w, "target-changed-on-syntax-error", sig, "%s\n v1 target after the call=%s (differs at %s)\n classic: %v\n v1: %v", desc(in), short(res.p1.Elem().Interface()), d.path, res.o1, res.o2)
		}
	}
	switch res.class {
	case "both-ok":
		w.Count(api+"_both_ok", 1)
		return res, true
	case "both-fail":
		w.Count(api+"_both_fail", 1)
		return res, false
	}
	w.Count(api+"_disagree", 1)

	// reduce, then describe the reduced case
	small := in
	sres := res
	if !valid && c.mode != 0 {
		// Decode reads one value: bytes after it do not take part.  If the first value alone
		// shows the same disagreement, the case is reduced from there.
		var first stdjson.RawMessage
		if stdjson.NewDecoder(bytes.NewReader(in)).Decode(&first) == nil && c.run(first).class == res.class {
			small, valid = first, true
		}
	}
	if valid {
		small = reduceInput(small, func(cand []byte) bool { return c.run(cand).class == res.class })
		sres = c.run(small)
		if sres.class != res.class { // cannot happen: reduceInput only returns accepted candidates
			small, sres = in, res
		}
	}
	sig := map[string]string{"api": c.sigAPI()}
	sp, lit := chainSpot(c.tt[0], small)
	feat := sp.feat
	sub := "unmarshal-error-differs"
	if sres.class == "value-differs" {
		sub = "unmarshal-value-differs"
	}
	if !valid {
		// a reduced case exists only for valid inputs; for the others classify the prefix decoded
		sp = nil
	}
	if cause := unmarshalCause(sp, sres.class, sres.d); cause != causeUnclassified {
		// one small signature per root cause
		sig = map[string]string{"cause": cause, "outcome": outcomeWord(sres.class)}
	} else if sres.class == "value-differs" {
		d := sres.d
		sig["cause"] = causeUnclassified
		sig["type"], sig["what"] = stripStars(d.typ), d.what
		if o := canonOpts(d.opts, false); o != "" {
			sig["opts"] = o
		}
		if d.via == "mapkey" {
			sig["via"] = "mapkey"
		}
		sig["rel"] = relate(d.a, d.b)
		sig["in"] = lit
	} else {
		side, o := whichFails(sres.o1, sres.o2)
		sig["cause"] = causeUnclassified
		sig["fails"] = side
		errAttrs(sig, o)
		sig["type"] = stripStars(feat.typ)
		if o := canonOpts(feat.opts, false); o != "" {
			sig["opts"] = o
		}
		if feat.via == "mapkey" {
			sig["via"] = "mapkey"
		}
		sig["in"] = lit
		if !valid {
			sig["in"] = "syntax-invalid"
		}
	}
	msg := desc(in)
	if !bytes.Equal(small, in) {
		msg += fmt.Sprintf("\n reduced input=%q", small)
	}
	violate(w, sub, sig, "%s\n on the reduced input:\n classic: %v\n  target=%s\n v1:      %v\n  target=%s", msg, sres.o1, short(sres.p0.Elem().Interface()), sres.o2, short(sres.p1.Elem().Interface()))
	return res, false
}

// outcomeWord names the kind of disagreement: which side failed, or that both succeeded with different values.
func outcomeWord(class string) string {
	switch class {
	case "error-differs:std":
		return "classic-fails"
	case "error-differs:v1":
		return "v1-fails"
	}
	return "values-differ"
}

func stripStars(s string) string {
	t := strings.TrimLeft(s, "*")
	if t != s {
		return "*" + t
	}
	return s
}

// canonOpts reduces tag options to the ones both packages know, in canonical order.
func canonOpts(opts string, marshal bool) string {
	var has [3]bool
	for _, o := range strings.Split(opts, ",") {
		switch o {
		case "string":
			has[0] = true
		case "omitempty":
			has[1] = true
		case "omitzero":
			has[2] = true
		}
	}
	var out []string
	if has[0] {
		out = append(out, "string")
	}
	if marshal && has[1] {
		out = append(out, "omitempty")
	}
	if marshal && has[2] {
		out = append(out, "omitzero")
	}
	return strings.Join(out, ",")
}

// relate classifies how two recorded scalars differ.
func relate(a, b string) string {
	ua, ub := a, b
	if x, err := strconv.Unquote(a); err == nil {
		ua = x
	}
	if x, err := strconv.Unquote(b); err == nil {
		ub = x
	}
	unq := func(s string) (string, bool) {
		if len(s) >= 2 && s[0] == '"' && s[len(s)-1] == '"' {
			var x string
			if stdjson.Unmarshal([]byte(s), &x) == nil {
				return x, true
			}
			return s[1 : len(s)-1], true
		}
		return "", false
	}
	if x, ok := unq(ub); ok && (x == ua || strings.HasPrefix(x, strings.TrimSuffix(ua, "…"))) {
		return "v1-has-the-json-quoted-form-of-std"
	}
	if x, ok := unq(ua); ok && (x == ub || strings.HasPrefix(x, strings.TrimSuffix(ub, "…"))) {
		return "std-has-the-json-quoted-form-of-v1"
	}
	return "std:" + litClass(ua) + " v1:" + litClass(ub)
}

// litClass classifies the content of a string or literal.
func litClass(s string) string {
	low := strings.ToLower(s)
	switch {
	case s == "":
		return "empty"
	case s == "null":
		return "null"
	case s == "true" || s == "false":
		return "bool"
	case s[0] == '"':
		if len(s) >= 2 && s[len(s)-1] == '"' {
			var x string
			if stdjson.Unmarshal([]byte(s), &x) != nil {
				return "quoted-invalid"
			}
			if strings.Contains(s, `\`) {
				return "quoted-with-escape"
			}
			if x == "null" {
				return "quoted-null"
			}
			return "quoted"
		}
		return "half-quoted"
	case strings.TrimSpace(s) != s:
		return "space-padded"
	case stdjson.Valid([]byte(s)) && (s[0] == '-' || s[0] >= '0' && s[0] <= '9'):
		f, err := strconv.ParseFloat(s, 64)
		switch {
		case err != nil:
			return "number-overflow"
		case s == "-0":
			return "number-negzero"
		case strings.ContainsAny(s, "eE"):
			return "number-exp"
		case strings.Contains(s, "."):
			return "number-frac"
		case math.Abs(f) >= 1<<63:
			return "number-big"
		}
		return "number-int"
	case s[0] == '+':
		return "plus-sign"
	case strings.HasPrefix(strings.TrimPrefix(s, "-"), "."):
		return "leading-dot"
	case strings.HasSuffix(s, ".") && s[0] >= '0' && s[0] <= '9':
		return "trailing-dot"
	case strings.HasPrefix(low, "0x") || strings.HasPrefix(low, "0b") || strings.HasPrefix(low, "0o"):
		return "base-prefix"
	case strings.Contains(s, "_") && s[0] >= '0' && s[0] <= '9':
		return "underscore"
	case len(s) > 1 && s[0] == '0' && s[1] >= '0' && s[1] <= '9':
		return "leading-zero"
	case low == "inf" || low == "nan" || low == "infinity" || low == "+inf" || low == "-inf":
		return "inf-nan"
	case len(s) >= 20 && s[4] == '-' && (s[10] == 'T' || s[10] == 't' || s[10] == ' '):
		return "time"
	case s[0] == '-' || s[0] >= '0' && s[0] <= '9':
		return "number-like"
	}
	for _, c := range []byte(s) {
		if c >= 0x80 {
			if !stdjson.Valid([]byte(`"` + s + `"`)) {
				return "text-nonascii"
			}
			if strings.ToValidUTF8(s, "") != s {
				return "text-invalid-utf8"
			}
			return "text-nonascii"
		}
	}
	return "text"
}

// ---- input reduction ----

type rnode struct {
	raw   string // leaves: literal text
	kind  ref.Kind
	names []string // raw names of object members
	kids  []*rnode
}

func toR(b []byte, n *ref.Node) *rnode {
	r := &rnode{kind: n.Kind}
	switch n.Kind {
	case ref.Array:
		for _, e := range n.Elems {
			r.kids = append(r.kids, toR(b, e))
		}
	case ref.Object:
		for _, m := range n.Members {
			r.names = append(r.names, m.RawName)
			r.kids = append(r.kids, toR(b, m.Value))
		}
	default:
		r.raw = string(b[n.Start:n.End])
	}
	return r
}

func (r *rnode) write(sb *strings.Builder) {
	switch r.kind {
	case ref.Array:
		sb.WriteByte('[')
		for i, k := range r.kids {
			if i > 0 {
				sb.WriteByte(',')
			}
			k.write(sb)
		}
		sb.WriteByte(']')
	case ref.Object:
		sb.WriteByte('{')
		for i, k := range r.kids {
			if i > 0 {
				sb.WriteByte(',')
			}
			sb.WriteString(r.names[i])
			sb.WriteByte(':')
			k.write(sb)
		}
		sb.WriteByte('}')
	default:
		sb.WriteString(r.raw)
	}
}

func (r *rnode) bytes() []byte {
	var sb strings.Builder
	r.write(&sb)
	return []byte(sb.String())
}

// reduceInput deletes members/elements while keep(candidate) holds.
func reduceInput(in []byte, keep func([]byte) bool) []byte {
	n := ref.Parse(in, permissive)
	if n == nil {
		return in
	}
	root := toR(in, n)
	if !keep(root.bytes()) {
		return in // whitespace or spelling of the original matters: leave it alone
	}
	budget := 400
	for changed := true; changed && budget > 0; {
		changed = false
		var walk func(r *rnode)
		walk = func(r *rnode) {
			for i := 0; i < len(r.kids) && budget > 0; {
				saveK, saveN := r.kids, r.names
				r.kids = append(append([]*rnode(nil), saveK[:i]...), saveK[i+1:]...)
				if r.kind == ref.Object {
					r.names = append(append([]string(nil), saveN[:i]...), saveN[i+1:]...)
				}
				budget--
				if keep(root.bytes()) {
					changed = true
					continue
				}
				r.kids, r.names = saveK, saveN
				if k := r.kids[i]; !(k.kind == ref.Null) && budget > 0 {
					// a value that can be replaced by null is not part of the cause
					r.kids[i] = &rnode{kind: ref.Null, raw: "null"}
					budget--
					if keep(root.bytes()) {
						changed = true
					} else {
						r.kids[i] = k
					}
				}
				walk(r.kids[i])
				i++
			}
		}
		walk(root)
	}
	return root.bytes()
}

// chainLocate follows the reduced input down while containers have exactly one child
// and reports the Go type feature reached plus the class of the JSON node there.
func chainLocate(t reflect.Type, in []byte) (feature, string) {
	sp, lit := chainSpot(t, in)
	return sp.feat, lit
}

// chainSpot is chainLocate with the structural facts the cause rules need.
func chainSpot(t reflect.Type, in []byte) (*spot, string) {
	sp := &spot{feat: feature{typeName(t), "", "root"}, t: t, input: in}
	n := ref.Parse(in, permissive)
	if n == nil {
		return sp, "unparsed"
	}
	opts := ""
	for depth := 0; depth < 30; depth++ {
		stars := ""
		sp.ptrs = 0
		for t.Kind() == reflect.Pointer {
			stars = "*"
			t = t.Elem()
			sp.ptrs++
		}
		sp.feat.typ, sp.feat.opts, sp.t, sp.node = stars+typeName(t), opts, t, n
		var next *ref.Node
		if !hasMethods(t) && t != timeT {
			if n.Kind == ref.Object && t.Kind() == reflect.Struct {
				// every member left by the reduction is needed for the disagreement; one whose
				// name the two packages resolve to different fields explains it
				for _, m := range n.Members {
					if foldOrderConflict(t, m.Name) {
						sp.fold = true
						return sp, nodeClass(n)
					}
				}
			}
			switch {
			case n.Kind == ref.Object && len(n.Members) == 1 && t.Kind() == reflect.Struct:
				if sf, o, ok := findField(t, n.Members[0].Name); ok {
					t, opts, sp.feat.via, next = sf.Type, o, "field", n.Members[0].Value
				}
			case n.Kind == ref.Object && len(n.Members) == 1 && t.Kind() == reflect.Map:
				// the key or the value may be the cause; the value is followed only if it is not trivial
				v := n.Members[0].Value
				if v.Kind == ref.Null || v.Kind == ref.Number && v.Raw == "0" {
					sp.feat.typ, sp.feat.via = typeName(t.Key()), "mapkey"
					sp.t, sp.ptrs = t.Key(), 0
					sp.node = &ref.Node{Kind: ref.String, S: n.Members[0].Name, Raw: n.Members[0].RawName}
					return sp, nodeClass(sp.node)
				}
				t, opts, sp.feat.via, next = t.Elem(), "", "mapval", v
			case n.Kind == ref.Array && len(n.Elems) == 1 && (t.Kind() == reflect.Slice || t.Kind() == reflect.Array) && t.Elem().Kind() != reflect.Uint8:
				t, opts, sp.feat.via, next = t.Elem(), "", "elem", n.Elems[0]
			}
		}
		if next == nil {
			return sp, nodeClass(n)
		}
		n = next
	}
	return sp, nodeClass(n)
}

func nodeClass(n *ref.Node) string {
	switch n.Kind {
	case ref.Null:
		return "null"
	case ref.Bool:
		return "bool"
	case ref.Number:
		return litClass(n.Raw)
	case ref.String:
		c := "str:" + litClass(n.S)
		if strings.Contains(n.Raw, `\`) {
			c += "+esc"
		}
		return c
	case ref.Array:
		return "array" + countWord(len(n.Elems))
	}
	return "object" + countWord(len(n.Members))
}

func countWord(n int) string {
	switch n {
	case 0:
		return "(0)"
	case 1:
		return "(1)"
	}
	return "(2+)"
}

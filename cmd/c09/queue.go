package main

// exec "queue": a *bytes.Buffer used as a growing queue — values are written into it and decoded
// from it alternately (an Encoder and a Decoder sharing one buffer, a reader goroutine feeding a
// parser).  Both packages' Decoders must behave alike on this reader type too: bytes.Buffer is
// the one reader the new implementation knows by type.

import (
	"bytes"
	stdjson "encoding/json"
	"fmt"
	"reflect"

	v1 "github.com/go-json-experiment/json/v1"

	"verif/run"
)

type queueArgs struct {
	Values    []string `json:"values"` // complete JSON values, each written in one piece (self-delimiting or newline-terminated)
	UseNumber bool     `json:"use_number"`
	Script    uint64   `json:"script"` // per round: bit 0 = call More first, bit 1 = read by Token instead of Decode, bit 2 = ask InputOffset
}

func execQueue(w *run.W, a *queueArgs) {
	var b1, b2 bytes.Buffer
	d1, d2 := stdjson.NewDecoder(&b1), v1.NewDecoder(&b2)
	if a.UseNumber {
		d1.UseNumber()
		d2.UseNumber()
	}
	w.Shape(fmt.Sprintf("queue|%d|%v|%x", len(a.Values), a.UseNumber, a.Script&0xff))
	sig := func(what string) map[string]string {
		return map[string]string{"reader": "bytes.Buffer-queue", "what": what}
	}
	for i, val := range a.Values {
		b1.WriteString(val)
		b2.WriteString(val)
		bits := a.Script >> (3 * uint(i%20))
		if bits&1 != 0 {
			if m1, m2 := d1.More(), d2.More(); m1 != m2 {
				violate(w, "decoder-stream-differs", sig("more"), "round %d after writing %q into the shared bytes.Buffer: More() classic=%v v1=%v", i, val, m1, m2)
				return
			}
		}
		if bits&2 != 0 {
			// consume the whole value by tokens
			depth := 0
			for {
				t1, e1 := d1.Token()
				t2, e2 := d2.Token()
				if (e1 == nil) != (e2 == nil) || (e1 == nil && normTok(t1) != normTok(t2)) {
					violate(w, "decoder-stream-differs", sig("token"), "round %d after writing %q: Token classic=(%v, %v) v1=(%v, %v)", i, val, t1, e1, t2, e2)
					return
				}
				if e1 != nil {
					return // both failed alike: the script ends
				}
				if d, ok := t1.(stdjson.Delim); ok {
					if d == '{' || d == '[' {
						depth++
					} else {
						depth--
					}
				}
				if depth == 0 {
					break
				}
			}
		} else {
			var x1, x2 any
			e1, e2 := d1.Decode(&x1), d2.Decode(&x2)
			if (e1 == nil) != (e2 == nil) || (e1 == nil && !reflect.DeepEqual(normAny(x1), normAny(x2))) {
				violate(w, "decoder-stream-differs", sig("decode"), "round %d after writing %q into the shared bytes.Buffer: Decode classic=(%v, %v) v1=(%v, %v)", i, val, x1, e1, x2, e2)
				return
			}
			if e1 != nil {
				return
			}
		}
		if bits&4 != 0 {
			if o1, o2 := d1.InputOffset(), d2.InputOffset(); o1 != o2 {
				violate(w, "decoder-stream-differs", sig("input-offset"), "round %d after %q: InputOffset classic=%d v1=%d", i, val, o1, o2)
				return
			}
		}
		w.Count("queue_rounds_agreeing", 1)
	}
}

// normAny maps the two packages' Number types onto one representation.
func normAny(v any) any {
	switch x := v.(type) {
	case stdjson.Number:
		return "N" + string(x)
	case v1.Number:
		return "N" + string(x)
	case []any:
		out := make([]any, len(x))
		for i := range x {
			out[i] = normAny(x[i])
		}
		return out
	case map[string]any:
		out := make(map[string]any, len(x))
		for k, e := range x {
			out[k] = normAny(e)
		}
		return out
	}
	return v
}

var _ = run.Trunc

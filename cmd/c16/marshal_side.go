package main

// Marshal side of family (4): a Go value with exactly one leaf that cannot be marshaled (NaN,
// ill-formed UTF-8) or that observes Encoder.StackPointer from inside a MarshalJSONTo method is
// built for a generated type; the SemanticError's JSONPointer, and the pointer seen by the
// method, must be the path of that leaf - under every whitespace layout, since the struct fast
// path records name offsets into a buffer that also receives the indentation.

import (
	"errors"
	"fmt"
	"math"
	"math/rand/v2"
	"reflect"
	"strconv"
	"sync"

	json "github.com/go-json-experiment/json"
	"github.com/go-json-experiment/json/jsontext"

	"verif/ref"
	"verif/run"
)

// spProbe reports where the encoder says it is when its method runs.
type spProbe struct{ ID int }

var spSeen struct {
	sync.Mutex
	ptr   string
	calls int
}

func (p spProbe) MarshalJSONTo(e *jsontext.Encoder) error {
	err := e.WriteToken(jsontext.Int(int64(p.ID)))
	// after its value has been written the encoder points at that value, wherever it sits
	// (before, an array element would still see its predecessor or the array itself)
	if p.ID >= 1000 {
		spSeen.Lock()
		spSeen.ptr = string(e.StackPointer())
		spSeen.calls++
		spSeen.Unlock()
	}
	return err
}

var spProbeType = reflect.TypeFor[spProbe]()

type msArgs struct {
	Seed uint64 `json:"seed"`
}

type mleaf struct {
	ptr string
	v   reflect.Value // settable
}

func genMType(r *rand.Rand, depth int) reflect.Type {
	k := r.IntN(10)
	if depth >= 4 {
		k = r.IntN(3)
	}
	switch {
	case k < 3:
		return []reflect.Type{reflect.TypeFor[float32](), reflect.TypeFor[float64](), reflect.TypeFor[string](), reflect.TypeFor[int](), spProbeType, reflect.TypeFor[bool]()}[r.IntN(6)]
	case k < 5:
		return reflect.SliceOf(genMType(r, depth+1))
	case k == 5:
		return reflect.PointerTo(genMType(r, depth+1))
	case k == 6:
		return reflect.MapOf(reflect.TypeFor[string](), genMType(r, depth+1))
	case k == 7:
		return reflect.ArrayOf(1+r.IntN(2), genMType(r, depth+1))
	default:
		n := 1 + r.IntN(3)
		var fs []reflect.StructField
		for i := 0; i < n; i++ {
			f := reflect.StructField{Name: fmt.Sprintf("F%d", i), Type: genMType(r, depth+1)}
			switch r.IntN(4) {
			case 0:
				f.Tag = reflect.StructTag(fmt.Sprintf(`json:"n~%d/x"`, i))
			case 1:
				f.Tag = reflect.StructTag(fmt.Sprintf(`json:"é%d"`, i))
			}
			fs = append(fs, f)
		}
		return reflect.StructOf(fs)
	}
}

// fill gives every leaf a harmless value and records the settable leaves with their pointers.
func fill(r *rand.Rand, v reflect.Value, ptr string, leaves *[]mleaf) {
	t := v.Type()
	if t == spProbeType {
		*leaves = append(*leaves, mleaf{ptr, v})
		return
	}
	switch t.Kind() {
	case reflect.Float32, reflect.Float64:
		v.SetFloat(1.5)
		*leaves = append(*leaves, mleaf{ptr, v})
	case reflect.String:
		v.SetString("s")
		*leaves = append(*leaves, mleaf{ptr, v})
	case reflect.Int:
		v.SetInt(7)
	case reflect.Bool:
		v.SetBool(true)
	case reflect.Pointer:
		v.Set(reflect.New(t.Elem()))
		fill(r, v.Elem(), ptr, leaves)
	case reflect.Slice:
		n := 1 + r.IntN(3)
		v.Set(reflect.MakeSlice(t, n, n))
		for i := 0; i < n; i++ {
			fill(r, v.Index(i), ptr+"/"+strconv.Itoa(i), leaves)
		}
	case reflect.Array:
		for i := 0; i < t.Len(); i++ {
			fill(r, v.Index(i), ptr+"/"+strconv.Itoa(i), leaves)
		}
	case reflect.Map:
		v.Set(reflect.MakeMap(t))
		for i, n := 0, 1+r.IntN(3); i < n; i++ {
			k := []string{"k1", "k/2", "k~3", "é"}[i]
			e := reflect.New(t.Elem()).Elem()
			var sub []mleaf
			fill(r, e, ptr+"/"+ref.EscapePointerToken(k), &sub)
			v.SetMapIndex(reflect.ValueOf(k), e)
			// map elements are not settable in place: a planted leaf below a map is re-inserted by path later;
			// keep it simple and do not plant below maps
			_ = sub
		}
	case reflect.Struct:
		for i := 0; i < t.NumField(); i++ {
			name := t.Field(i).Name
			if tag := t.Field(i).Tag.Get("json"); tag != "" {
				name = tag
			}
			fill(r, v.Field(i), ptr+"/"+ref.EscapePointerToken(name), leaves)
		}
	}
}

func runMarshalSemantic(w *run.W, a *msArgs) {
	r := rand.New(rand.NewPCG(a.Seed, 1616))
	t := genMType(r, 0)
	root := reflect.New(t).Elem()
	var leaves []mleaf
	fill(r, root, "", &leaves)
	if len(leaves) == 0 {
		return
	}
	w.Eval(1)
	// every probe gets a distinct id; one leaf is planted
	bi := r.IntN(len(leaves))
	lf := leaves[bi]
	kind := "probe"
	if lf.v.Type() == spProbeType {
		lf.v.Set(reflect.ValueOf(spProbe{ID: 1000 + bi})) // only the planted probe reports (ids >= 1000)
	}
	switch lf.v.Kind() {
	case reflect.Float32, reflect.Float64:
		lf.v.SetFloat([]float64{math.NaN(), math.Inf(1), math.Inf(-1)}[r.IntN(3)])
		kind = "non-finite"
	case reflect.String:
		lf.v.SetString("a\xffb")
		kind = "invalid-utf8"
	}
	layouts := [][]json.Options{nil, {jsontext.Multiline(true)}, {jsontext.WithIndent("\t")}, {jsontext.WithIndentPrefix("  "), jsontext.WithIndent(" ")},
		{jsontext.SpaceAfterComma(true), jsontext.SpaceAfterColon(true)}, {json.Deterministic(true), jsontext.Multiline(true)}}
	li := r.IntN(len(layouts))
	opts := layouts[li]
	spSeen.Lock()
	spSeen.ptr, spSeen.calls = "", 0
	spSeen.Unlock()
	in := root.Interface()
	if r.IntN(2) == 0 {
		in = root.Addr().Interface()
	}
	_, err := json.Marshal(in, opts...)
	sig := map[string]string{"side": "marshal", "kind": kind, "layout": fmt.Sprint(li)}
	if kind == "probe" {
		if err != nil {
			w.Violate("spurious-error", sig, "Marshal(%v) of a value without unmarshalable parts failed: %v", t, err)
			return
		}
		spSeen.Lock()
		got, calls := spSeen.ptr, spSeen.calls
		spSeen.Unlock()
		if calls != 1 || got != lf.ptr {
			w.Violate("stack-pointer", sig, "Marshal(%v, layout %d): MarshalJSONTo of the value at %q saw Encoder.StackPointer() = %q (%d calls)", t, li, lf.ptr, got, calls)
		}
		w.Count("marshal_side_stackpointer_in_method", 1)
		return
	}
	// a value that cannot be converted is a SemanticError; ill-formed UTF-8 is found by the encoder and
	// reported as a SyntacticError: both carry the pointer of the offending value
	var se *json.SemanticError
	var sy *jsontext.SyntacticError
	var ptr string
	switch {
	case err == nil:
		w.Violate("semantic-no-error", sig, "Marshal(%v) succeeded although the value at %q cannot be marshaled", t, lf.ptr)
		return
	case errors.As(err, &se):
		ptr = string(se.JSONPointer)
	case errors.As(err, &sy):
		ptr = string(sy.JSONPointer)
	default:
		w.Violate("semantic-wrong-class", sig, "Marshal(%v): %T %v, want *json.SemanticError or *jsontext.SyntacticError", t, err, err)
		return
	}
	if ptr != lf.ptr {
		w.Violate("semantic-pointer", sig, "Marshal(%v, layout %d): JSONPointer=%q, the value that cannot be marshaled is at %q (%v)", t, li, ptr, lf.ptr, err)
	}
	w.Count("marshal_side_semantic_checked", 1)
	w.Shape("msem|" + t.String() + "|" + lf.ptr)
}

var _ = run.Trunc

// C16 — reported positions are truthful: offsets, stack state and pointers after every coder
// call equal an independent parse; Pointer algebra; SyntacticError and SemanticError locations.
package main

import (
	"bytes"
	"errors"
	"fmt"
	"io"
	"math/rand/v2"
	"reflect"
	"strconv"
	"strings"

	json "github.com/go-json-experiment/json"
	"github.com/go-json-experiment/json/jsontext"

	"verif/gen"
	"verif/ref"
	"verif/run"
)

// chunked reader with a fixed chunk size (0 = everything at once)
type chunks struct {
	data []byte
	pos  int
	n    int
}

func (c *chunks) Read(p []byte) (int, error) {
	if c.pos >= len(c.data) {
		return 0, io.EOF
	}
	n := len(c.data) - c.pos
	if c.n > 0 {
		n = min(n, c.n)
	}
	n = min(n, len(p))
	copy(p, c.data[c.pos:c.pos+n])
	c.pos += n
	return n, nil
}

// ---------------------------------------------------------------------------------
// (1) state after every Decoder call

type posArgs struct {
	Input  []byte `json:"input"`
	Script string `json:"script"`
	Chunk  int    `json:"chunk"`
	Inv    bool   `json:"inv"`
	Dup    bool   `json:"dup"`
	Sparse int    `json:"sparse,omitempty"` // StackPointer is observed only after every n-th call (it is not a pure observer inside the library)
}

func stackString(levels []ref.Level) string {
	var sb strings.Builder
	for _, l := range levels {
		fmt.Fprintf(&sb, "%c%d,", max(l.Kind, '.'), l.Len)
	}
	return sb.String()
}

func decStack(d *jsontext.Decoder) string {
	var sb strings.Builder
	for i := 0; i <= d.StackDepth(); i++ {
		k, n := d.StackIndex(i)
		fmt.Fprintf(&sb, "%c%d,", max(byte(k), '.'), n)
	}
	return sb.String()
}

func encStack(e *jsontext.Encoder) string {
	var sb strings.Builder
	for i := 0; i <= e.StackDepth(); i++ {
		k, n := e.StackIndex(i)
		fmt.Fprintf(&sb, "%c%d,", max(byte(k), '.'), n)
	}
	return sb.String()
}

// valueEnd returns the index of the token that completes the value starting at toks[i]
// (-1 if toks[i] is a closer or the value is incomplete).
func valueEnd(toks []ref.Tok, i int) int {
	switch toks[i].Kind {
	case '}', ']':
		return -1
	case '{', '[':
		depth := 0
		for j := i; j < len(toks); j++ {
			switch toks[j].Kind {
			case '{', '[':
				depth++
			case '}', ']':
				depth--
				if depth == 0 {
					return j
				}
			}
		}
		return -1
	}
	return i
}

func runDecoderPositions(w *run.W, a *posArgs) {
	w.Eval(1)
	ro := ref.Opts{AllowInvalidUTF8: a.Inv, AllowDup: a.Dup}
	toks, _, _ := ref.TokenizeFull(a.Input, ro)
	d := jsontext.NewDecoder(&chunks{data: a.Input, n: a.Chunk}, jsontext.AllowInvalidUTF8(a.Inv), jsontext.AllowDuplicateNames(a.Dup))
	ti := 0
	sig := map[string]string{"coder": "decoder"}
	for step := 0; ti < len(toks); step++ {
		op := a.Script[step%len(a.Script)]
		end := ti
		var err error
		switch op {
		case 'T':
			var t jsontext.Token
			t, err = d.ReadToken()
			if err == nil {
				if byte(t.Kind()) != toks[ti].Kind {
					w.Violate("token-kind", sig, "token %d: kind %v, reference %c; input=%q", ti, t.Kind(), toks[ti].Kind, a.Input)
					return
				}
				if t.Kind() == '"' && t.String() != toks[ti].Str {
					w.Violate("token-text", sig, "token %d: string %q, reference %q; input=%q", ti, t.String(), toks[ti].Str, a.Input)
					return
				}
			}
		case 'V', 'S':
			end = valueEnd(toks, ti)
			if end < 0 {
				// not a complete value in the reference: the library must fail too; the
				// error position is checked by the syntactic-error sub-monitor
				if op == 'V' {
					_, err = d.ReadValue()
				} else {
					err = d.SkipValue()
				}
				if err == nil {
					w.Violate("value-accepted", sig, "%c at token %d succeeded but the reference sees no complete value there; input=%q", op, ti, a.Input)
				}
				return
			}
			if op == 'V' {
				var v jsontext.Value
				v, err = d.ReadValue()
				if err == nil && string(v) != string(a.Input[toks[ti].Start:toks[end].End]) {
					w.Violate("value-span", sig, "ReadValue = %q, reference span %q", v, a.Input[toks[ti].Start:toks[end].End])
					return
				}
			} else {
				err = d.SkipValue()
			}
		}
		if err != nil {
			// the reference tokenized this far without error: the library must agree
			w.Violate("spurious-error", sig, "%c at token %d failed with %v although the reference accepts the next %d tokens; input=%q chunk=%d", op, ti, err, end-ti+1, a.Input, a.Chunk)
			return
		}
		want := toks[end]
		ti = end + 1
		if got := d.InputOffset(); got != int64(want.End) {
			w.Violate("input-offset", sig, "after %c (token %d): InputOffset=%d, reference %d; input=%q chunk=%d", op, end, got, want.End, a.Input, a.Chunk)
			return
		}
		if got := d.StackDepth(); got != want.Depth {
			w.Violate("stack-depth", sig, "after %c (token %d): StackDepth=%d, reference %d; input=%q", op, end, got, want.Depth, a.Input)
			return
		}
		if got, ws := decStack(d), stackString(want.Stack); got != ws {
			w.Violate("stack-index", sig, "after %c (token %d): StackIndex=%s, reference %s; input=%q", op, end, got, ws, a.Input)
			return
		}
		if a.Sparse <= 0 || step%a.Sparse == a.Sparse-1 || ti == len(toks) {
			if got := string(d.StackPointer()); got != want.Pointer {
				w.Violate("stack-pointer", sig, "after %c (token %d): StackPointer=%q, reference %q; input=%q chunk=%d", op, end, got, want.Pointer, a.Input, a.Chunk)
				return
			}
		}
		w.Count("decoder_states_compared", 1)
	}
	w.Shape(fmt.Sprintf("dec|%x|%s|%d", hash(a.Input), a.Script, a.Chunk))
}

// ---------------------------------------------------------------------------------
// (1b) state after every Encoder call: replay the reference tokens into an Encoder

type encArgs struct {
	Input  []byte `json:"input"` // a valid stream; its reference tokens are replayed
	Mode   uint64 `json:"mode"`  // bit i set: write the value starting at token i with WriteValue
	Sparse int    `json:"sparse,omitempty"`
	Fault  int    `json:"fault,omitempty"`  // > 0: every Fault-th Write of the underlying writer is short and fails
	Buffer bool   `json:"buffer,omitempty"` // the destination is a *bytes.Buffer
}

// limitedWriter is an opaque writer; with faultEvery > 0 every faultEvery-th Write accepts only
// the first half of what it is offered and reports an error (write errors are documented as not
// fatal for an Encoder: the token stays accepted and the offsets keep counting what was produced).
type limitedWriter struct {
	buf        bytes.Buffer
	faultEvery int
	calls      int
}

var errInjectedWrite = errors.New("injected write fault")

func (l *limitedWriter) Write(p []byte) (int, error) {
	l.calls++
	if l.faultEvery > 0 && l.calls%l.faultEvery == 0 {
		n := len(p) / 2
		l.buf.Write(p[:n])
		return n, errInjectedWrite
	}
	return l.buf.Write(p)
}

func runEncoderPositions(w *run.W, a *encArgs) {
	w.Eval(1)
	toks, errOff, complete := ref.TokenizeFull(a.Input, ref.Opts{})
	if errOff >= 0 || !complete {
		return // generator only emits valid streams; mutated ones are skipped
	}
	out := limitedWriter{faultEvery: a.Fault}
	e := jsontext.NewEncoder(&out)
	if a.Buffer && a.Fault == 0 {
		// the *bytes.Buffer route: the Encoder writes into the Buffer's own spare capacity and re-bases on every flush
		e = jsontext.NewEncoder(&out.buf)
		w.Count("encoder_replays_into_bytes_buffer", 1)
	}
	sig := map[string]string{"coder": "encoder"}
	if a.Fault > 0 {
		sig["writer"] = "faulty"
	}
	var expect []byte // independent compact serialization of what has been written
	// need tracks whether a comma/colon is due
	type fr struct {
		obj bool
		n   int
	}
	var stack []fr
	delim := func() {
		if len(stack) == 0 {
			return
		}
		f := &stack[len(stack)-1]
		if f.obj && f.n%2 == 1 {
			expect = append(expect, ':')
		} else if f.n > 0 {
			expect = append(expect, ',')
		}
	}
	done := func() {
		if len(stack) == 0 {
			expect = append(expect, '\n')
		} else {
			stack[len(stack)-1].n++
		}
	}
	var spell func(i, j int) // append the compact spelling of tokens i..j
	spell = func(i, j int) {
		for k := i; k <= j; k++ {
			t := toks[k]
			switch t.Kind {
			case '{', '[':
				delim()
				expect = append(expect, t.Kind)
				stack = append(stack, fr{obj: t.Kind == '{'})
			case '}', ']':
				expect = append(expect, t.Kind)
				stack = stack[:len(stack)-1]
				done()
			case '"':
				delim()
				expect = append(expect, ref.Quote(t.Str, ref.QuoteOpts{})...)
				done()
			default:
				delim()
				expect = append(expect, a.Input[t.Start:t.End]...)
				done()
			}
		}
	}
	for ti := 0; ti < len(toks); {
		t := toks[ti]
		end := ti
		var err error
		useValue := a.Mode>>(uint(ti)%64)&1 == 1
		if ve := valueEnd(toks, ti); useValue && ve >= 0 {
			end = ve
			err = e.WriteValue(jsontext.Value(a.Input[t.Start:toks[end].End]))
		} else {
			var tok jsontext.Token
			switch t.Kind {
			case 'n':
				tok = jsontext.Null
			case 't':
				tok = jsontext.True
			case 'f':
				tok = jsontext.False
			case '"':
				tok = jsontext.String(t.Str)
			case '{':
				tok = jsontext.BeginObject
			case '}':
				tok = jsontext.EndObject
			case '[':
				tok = jsontext.BeginArray
			case ']':
				tok = jsontext.EndArray
			case '0':
				err = e.WriteValue(jsontext.Value(a.Input[t.Start:t.End]))
			}
			if t.Kind != '0' {
				err = e.WriteToken(tok)
			}
		}
		if err != nil && a.Fault > 0 && errors.Is(err, errInjectedWrite) {
			err = nil // the token was accepted; only the flush failed
			w.Count("encoder_calls_with_injected_write_fault", 1)
		}
		if err != nil {
			w.Violate("spurious-error", sig, "writing token %d (%c) failed: %v; input=%q", ti, t.Kind, err, a.Input)
			return
		}
		spell(ti, end)
		want := toks[end]
		ti = end + 1
		if got := e.OutputOffset(); got != int64(len(expect)) {
			w.Violate("output-offset", sig, "after token %d: OutputOffset=%d, independent serialization has %d bytes (%q); input=%q", end, got, len(expect), run.Trunc(string(expect), 200), a.Input)
			return
		}
		if got := e.StackDepth(); got != want.Depth {
			w.Violate("stack-depth", sig, "after token %d: StackDepth=%d, reference %d; input=%q", end, got, want.Depth, a.Input)
			return
		}
		if got, ws := encStack(e), stackString(want.Stack); got != ws {
			w.Violate("stack-index", sig, "after token %d: StackIndex=%s, reference %s; input=%q", end, got, ws, a.Input)
			return
		}
		if a.Sparse <= 0 || ti%a.Sparse == 0 || ti == len(toks) {
			if got := string(e.StackPointer()); got != want.Pointer {
				w.Violate("stack-pointer", sig, "after token %d: StackPointer=%q, reference %q; input=%q", end, got, want.Pointer, a.Input)
				return
			}
		}
		w.Count("encoder_states_compared", 1)
	}
	if a.Fault > 0 {
		// what the writer holds is a prefix (the rest is still buffered); C07 checks the bytes
		if !bytes.HasPrefix(expect, out.buf.Bytes()) {
			w.Violate("output-bytes", sig, "faulty writer received %q, which is not a prefix of the independent serialization %q", run.Trunc(out.buf.String(), 300), run.Trunc(string(expect), 300))
		}
	} else if !bytes.Equal(out.buf.Bytes(), expect) {
		w.Violate("output-bytes", sig, "encoder wrote %q, independent serialization %q", run.Trunc(out.buf.String(), 300), run.Trunc(string(expect), 300))
	}
	w.Shape(fmt.Sprintf("enc|%x|%x", hash(a.Input), a.Mode))
}

// ---------------------------------------------------------------------------------
// (2) Pointer algebra

type ptrArgs struct {
	Tokens []string `json:"tokens"`
	Raw    string   `json:"raw,omitempty"` // arbitrary text tested with IsValid only
}

func validPointer(s string) bool {
	// RFC 6901: "" or ( "/" reference-token )*, with '~' only as ~0 or ~1
	if s == "" {
		return true
	}
	if s[0] != '/' {
		return false
	}
	for i := 0; i < len(s); i++ {
		if s[i] == '~' && (i+1 >= len(s) || (s[i+1] != '0' && s[i+1] != '1')) {
			return false
		}
	}
	return true
}

func runPointer(w *run.W, a *ptrArgs) {
	w.Eval(1)
	if a.Raw != "" {
		if got, want := jsontext.Pointer(a.Raw).IsValid(), validPointer(a.Raw); got != want {
			w.Violate("pointer-isvalid", nil, "Pointer(%q).IsValid() = %v, RFC 6901 grammar says %v", a.Raw, got, want)
		}
		w.Count("pointer_isvalid", 1)
		return
	}
	p := jsontext.Pointer("")
	var want strings.Builder
	for _, t := range a.Tokens {
		parent := p
		p = p.AppendToken(t)
		want.WriteString("/" + ref.EscapePointerToken(t))
		if string(p) != want.String() {
			w.Violate("pointer-append", nil, "AppendToken(%q) gave %q, RFC 6901 escaping gives %q", t, p, want.String())
			return
		}
		if !p.IsValid() {
			w.Violate("pointer-isvalid", nil, "pointer %q built by AppendToken is reported invalid", p)
		}
		if p.Parent() != parent {
			w.Violate("pointer-parent", nil, "Pointer(%q).Parent() = %q, want %q", p, p.Parent(), parent)
		}
		if p.LastToken() != t {
			w.Violate("pointer-lasttoken", nil, "Pointer(%q).LastToken() = %q, want %q", p, p.LastToken(), t)
		}
		if p.Parent().AppendToken(p.LastToken()) != p {
			w.Violate("pointer-roundtrip", nil, "Parent().AppendToken(LastToken()) of %q gives %q", p, p.Parent().AppendToken(p.LastToken()))
		}
		if !parent.Contains(p) || !p.Contains(p) {
			w.Violate("pointer-contains", nil, "%q.Contains(%q)=%v, %q.Contains(itself)=%v", parent, p, parent.Contains(p), p, p.Contains(p))
		}
		if p.Contains(parent) {
			w.Violate("pointer-contains", nil, "%q.Contains(parent %q) is true", p, parent)
		}
	}
	var toks []string
	for t := range p.Tokens() {
		toks = append(toks, t)
	}
	if !reflect.DeepEqual(toks, append([]string(nil), a.Tokens...)) && !(len(toks) == 0 && len(a.Tokens) == 0) {
		w.Violate("pointer-tokens", nil, "Tokens() of %q = %q, want %q", p, toks, a.Tokens)
	}
	// Contains is token-prefix, not string-prefix
	if len(a.Tokens) > 0 {
		last := a.Tokens[len(a.Tokens)-1]
		sibling := p.Parent().AppendToken(last + "x")
		if p.Contains(sibling) {
			w.Violate("pointer-contains", nil, "%q.Contains(%q) is true although the last tokens differ", p, sibling)
		}
	}
	w.Count("pointer_algebra", 1)
	w.Shape("ptr|" + string(p))
}

// ---------------------------------------------------------------------------------
// (3) syntactic error locations

type synArgs struct {
	Input []byte `json:"input"`
	Chunk int    `json:"chunk"`
	Inv   bool   `json:"inv"`
	Dup   bool   `json:"dup"`
}

func parentPtr(p string) string {
	i := strings.LastIndexByte(p, '/')
	if i < 0 {
		return ""
	}
	return p[:i]
}

type synRes struct {
	ok  bool
	off int64
	ptr string
	err error
	syn bool
}

func classify(err error) synRes {
	var se *jsontext.SyntacticError
	if errors.As(err, &se) {
		return synRes{off: se.ByteOffset, ptr: string(se.JSONPointer), err: err, syn: true}
	}
	return synRes{err: err}
}

func runSyntactic(w *run.W, a *synArgs) {
	w.Eval(1)
	ro := ref.Opts{AllowInvalidUTF8: a.Inv, AllowDup: a.Dup}
	opts := []jsontext.Options{jsontext.AllowInvalidUTF8(a.Inv), jsontext.AllowDuplicateNames(a.Dup)}

	// Decoder paths see a stream: locate the top-level value in which the stream goes wrong
	toks, errOff, complete := ref.Tokenize(a.Input, ro)
	streamBad := errOff >= 0 || !complete
	boundary := 0
	for _, t := range toks {
		if t.Depth == 0 && t.ValueStart >= 0 {
			boundary = t.End
		}
	}
	check := func(path string, r synRes, base int, text []byte) {
		pi := ref.Analyze(text, ro)
		sig := map[string]string{"path": path}
		if pi.Valid {
			w.Broken("C16: analyzer accepts %q but tokenizer rejected the stream %q", text, a.Input)
			return
		}
		if r.ok {
			w.Violate("invalid-accepted", sig, "%s accepted %q (reference: first non-viable offset %d)", path, a.Input, base+pi.ErrOff)
			return
		}
		if !r.syn && strings.HasPrefix(path, "unmarshal") {
			// Unmarshal may report an earlier semantic error (e.g. a number outside float64)
			// before it reaches the syntactic one: nothing to locate then
			var sem *json.SemanticError
			if errors.As(r.err, &sem) {
				w.Count("unmarshal_semantic_error_first", 1)
				return
			}
		}
		if !r.syn {
			w.Violate("error-not-syntactic", sig, "%s on %q returned %T %v, not a *jsontext.SyntacticError", path, a.Input, r.err, r.err)
			return
		}
		P, N, hasN := pi.Pointers()
		I := P
		if hasN {
			I = N
		}
		lo := pi.TokStart
		if pi.DelimOff >= 0 && pi.DelimOff < pi.TokStart && len(bytes.TrimLeft(text[pi.DelimOff+1:pi.TokStart], " \t\r\n")) == 0 {
			lo = pi.DelimOff
		}
		off := int(r.off) - base
		if pi.Dup {
			sig["class"] = "duplicate-name"
			if r.ptr != N {
				w.Violate("syntactic-pointer", sig, "%s on %q: duplicate name reported at pointer %q, reference %q", path, a.Input, r.ptr, N)
			}
			if off != pi.ErrOff {
				w.Violate("syntactic-offset", sig, "%s on %q: duplicate name reported at offset %d, the duplicate name starts at %d", path, a.Input, r.off, base+pi.ErrOff)
			}
			w.Count("syntactic_dup_checked", 1)
			return
		}
		if off < lo || off > pi.ErrOff {
			w.Violate("syntactic-offset", sig, "%s on %q (chunk %d): ByteOffset=%d outside [%d,%d] = [start of offending token (or its delimiter), first non-viable byte]", path, a.Input, a.Chunk, r.off, base+lo, base+pi.ErrOff)
		}
		if r.ptr != I && r.ptr != parentPtr(I) {
			w.Violate("syntactic-pointer", sig, "%s on %q (chunk %d): JSONPointer=%q, reference innermost value %q (container %q)", path, a.Input, a.Chunk, r.ptr, I, P)
		}
		w.Count("syntactic_checked", 1)
	}

	if streamBad {
		text := a.Input[boundary:]
		// token path
		d := jsontext.NewDecoder(&chunks{data: a.Input, n: a.Chunk}, opts...)
		var err error
		for err == nil {
			_, err = d.ReadToken()
		}
		r := classify(err)
		r.ok = err == io.EOF
		check("tokens", r, boundary, text)
		// value path
		d = jsontext.NewDecoder(&chunks{data: a.Input, n: a.Chunk}, opts...)
		err = nil
		for err == nil {
			_, err = d.ReadValue()
		}
		r = classify(err)
		r.ok = err == io.EOF
		check("values", r, boundary, text)
		// skip path
		d = jsontext.NewDecoder(&chunks{data: a.Input, n: a.Chunk}, opts...)
		err = nil
		for err == nil {
			err = d.SkipValue()
		}
		r = classify(err)
		r.ok = err == io.EOF
		check("skip", r, boundary, text)
	}
	// single-text paths
	if ref.Parse(a.Input, ro) == nil {
		var v any
		err := json.Unmarshal(a.Input, &v, opts[0], opts[1])
		r := classify(err)
		r.ok = err == nil
		check("unmarshal", r, 0, a.Input)
		if a.Chunk > 0 {
			err = json.UnmarshalRead(&chunks{data: a.Input, n: a.Chunk}, &v, opts[0], opts[1])
			r = classify(err)
			r.ok = err == nil
			check("unmarshalread", r, 0, a.Input)
		}
		w.Shape(fmt.Sprintf("syn|%x", hash(a.Input)))
	}
}

// ---------------------------------------------------------------------------------
// (4) semantic error locations (planted conversion failures)

type semArgs struct {
	Seed uint64 `json:"seed"`
}

// errFrom fails before it has consumed anything: the error belongs to the value that is next.
type errFrom struct{ X int }

func (*errFrom) UnmarshalJSONFrom(*jsontext.Decoder) error {
	return errors.New("errFrom never accepts")
}

// types whose every value is refused BEFORE it is read (unsupported kinds, a method that fails at once)
var refusedBeforeTypes = []reflect.Type{reflect.TypeFor[errFrom](), reflect.TypeFor[chan int](), reflect.TypeFor[func()](), reflect.TypeFor[complex128](), reflect.TypeFor[*errFrom]()}

func refusedBefore(t reflect.Type) bool {
	for _, x := range refusedBeforeTypes {
		if t == x {
			return true
		}
	}
	return false
}

var genSpecialUsed bool // per generated type: at most one refused-before leaf type

func genType(r *rand.Rand, depth int) reflect.Type {
	if depth == 0 {
		genSpecialUsed = false
	}
	k := r.IntN(10)
	if depth >= 4 {
		k = r.IntN(3)
	}
	switch {
	case k < 3 && depth > 0 && !genSpecialUsed && r.IntN(10) == 0:
		genSpecialUsed = true
		return refusedBeforeTypes[r.IntN(len(refusedBeforeTypes))]
	case k < 3:
		return []reflect.Type{reflect.TypeFor[int](), reflect.TypeFor[int8](), reflect.TypeFor[uint16](), reflect.TypeFor[bool](), reflect.TypeFor[string](), reflect.TypeFor[float32](), reflect.TypeFor[[]byte](), reflect.TypeFor[[2]byte]()}[r.IntN(8)]
	case k < 5:
		return reflect.SliceOf(genType(r, depth+1))
	case k == 5:
		return reflect.PointerTo(genType(r, depth+1))
	case k == 6:
		return reflect.MapOf([]reflect.Type{reflect.TypeFor[string](), reflect.TypeFor[int]()}[r.IntN(2)], genType(r, depth+1))
	case k == 7:
		return reflect.ArrayOf(1+r.IntN(2), genType(r, depth+1))
	default:
		n := 1 + r.IntN(3)
		var fs []reflect.StructField
		for i := 0; i < n; i++ {
			f := reflect.StructField{Name: fmt.Sprintf("F%d", i), Type: genType(r, depth+1)}
			if r.IntN(3) == 0 {
				f.Tag = reflect.StructTag(fmt.Sprintf(`json:"n~%d/x"`, i))
			}
			fs = append(fs, f)
		}
		return reflect.StructOf(fs)
	}
}

type leaf struct {
	ptr       string
	t         reflect.Type
	alwaysBad bool // every JSON value is refused at this leaf, before it is read
}

func build(r *rand.Rand, t reflect.Type, ptr string, leaves *[]leaf) string {
	ws := func() string { return []string{"", "", " ", "\n ", " \t\r\n ", "   "}[r.IntN(6)] }
	mark := func() string {
		*leaves = append(*leaves, leaf{ptr: ptr, t: t, alwaysBad: refusedBefore(t)})
		return fmt.Sprintf("\x00%d\x00", len(*leaves)-1)
	}
	if refusedBefore(t) {
		return mark()
	}
	switch t.Kind() {
	case reflect.Slice:
		if t.Elem().Kind() == reflect.Uint8 {
			return mark()
		}
		n := r.IntN(3)
		var p []string
		for i := 0; i < n; i++ {
			p = append(p, ws()+build(r, t.Elem(), ptr+"/"+strconv.Itoa(i), leaves)+ws())
		}
		return "[" + strings.Join(p, ",") + "]"
	case reflect.Array:
		if t.Elem().Kind() == reflect.Uint8 {
			return mark()
		}
		var p []string
		for i := 0; i < t.Len(); i++ {
			p = append(p, ws()+build(r, t.Elem(), ptr+"/"+strconv.Itoa(i), leaves)+ws())
		}
		return "[" + strings.Join(p, ",") + "]"
	case reflect.Pointer:
		return build(r, t.Elem(), ptr, leaves)
	case reflect.Map:
		n := r.IntN(3)
		var p []string
		for i := 0; i < n; i++ {
			k := fmt.Sprintf("%d", i+1)
			p = append(p, ws()+`"`+k+`"`+ws()+":"+ws()+build(r, t.Elem(), ptr+"/"+k, leaves)+ws())
		}
		return "{" + strings.Join(p, ",") + "}"
	case reflect.Struct:
		var p []string
		for i := 0; i < t.NumField(); i++ {
			name := t.Field(i).Name
			if tag := t.Field(i).Tag.Get("json"); tag != "" {
				name = tag
			}
			p = append(p, ws()+`"`+name+`"`+ws()+":"+ws()+build(r, t.Field(i).Type, ptr+"/"+ref.EscapePointerToken(name), leaves)+ws())
		}
		return "{" + strings.Join(p, ",") + "}"
	}
	return mark()
}

func goodValue(t reflect.Type) string {
	switch t.Kind() {
	case reflect.Bool:
		return "true"
	case reflect.String:
		return `"s"`
	case reflect.Slice, reflect.Array:
		return `"AQI="`
	}
	return "7"
}

func badValue(r *rand.Rand, t reflect.Type) string {
	pick := func(s ...string) string { return s[r.IntN(len(s))] }
	if refusedBefore(t) {
		return pick(`1`, `"x"`, `[1, 2]`, `{"a":1}`, `true`)
	}
	switch t.Kind() {
	case reflect.Bool:
		return pick(`1`, `"true"`, `[]`, `{}`)
	case reflect.String:
		return pick(`1`, `true`, `[1, 2]`, `{"a":1}`)
	case reflect.Slice:
		return pick(`1`, `"!!"`, `"AQ="`, `{}`)
	case reflect.Array:
		return pick(`1`, `"AQ=="`, `"AQID"`, `[1]`)
	case reflect.Int8:
		return pick(`128`, `-129`, `1.5`, `"1"`, `true`, `[ ]`)
	case reflect.Uint16:
		return pick(`65536`, `-1`, `1e2`, `"1"`, `{ }`)
	case reflect.Float32:
		return pick(`1e39`, `"1"`, `true`, `[]`)
	}
	return pick(`1.5`, `"1"`, `true`, `9223372036854775808`, `{"x":[1]}`)
}

func runSemantic(w *run.W, a *semArgs) {
	r := rand.New(rand.NewPCG(a.Seed, 16))
	t := genType(r, 0)
	var leaves []leaf
	tmpl := build(r, t, "", &leaves)
	if len(leaves) == 0 {
		return
	}
	w.Eval(1)
	bi := r.IntN(len(leaves))
	for j := range leaves {
		if leaves[j].alwaysBad { // the first such leaf in document order is where decoding stops
			bi = j
			w.Count("semantic_refused_before_value", 1)
			break
		}
	}
	text := tmpl
	off := -1
	var bv string
	for j := range leaves {
		mark := fmt.Sprintf("\x00%d\x00", j)
		rep := goodValue(leaves[j].t)
		if j == bi {
			bv = badValue(r, leaves[j].t)
			rep = bv
			off = strings.Index(text, mark)
		}
		text = strings.Replace(text, mark, rep, 1)
	}
	// independent confirmation of the planted position: the reference tree has a value starting at off
	if ref.Parse([]byte(text), ref.Opts{}) == nil {
		w.Broken("C16 semantic generator produced invalid JSON %q", text)
		return
	}
	for _, chunk := range []int{0, 1 + r.IntN(7)} {
		p := reflect.New(t)
		var err error
		if chunk == 0 {
			err = json.Unmarshal([]byte(text), p.Interface())
		} else {
			err = json.UnmarshalRead(&chunks{data: []byte(text), n: chunk}, p.Interface())
		}
		sig := map[string]string{"kind": leaves[bi].t.Kind().String(), "reader": fmt.Sprint(chunk > 0)}
		var se *json.SemanticError
		if err == nil {
			w.Violate("semantic-no-error", sig, "Unmarshal(%q) into %v succeeded although %s at %q cannot be converted to %v", text, t, bv, leaves[bi].ptr, leaves[bi].t)
			return
		}
		if !errors.As(err, &se) {
			w.Violate("semantic-wrong-class", sig, "Unmarshal(%q) into %v: %T %v, want *json.SemanticError", text, t, err, err)
			return
		}
		if string(se.JSONPointer) != leaves[bi].ptr {
			w.Violate("semantic-pointer", sig, "Unmarshal(%q) into %v: JSONPointer=%q, the value that cannot be converted (%s) is at %q", text, t, se.JSONPointer, bv, leaves[bi].ptr)
		}
		if int(se.ByteOffset) != off {
			w.Violate("semantic-offset", sig, "Unmarshal(%q) into %v: ByteOffset=%d, the value %s at %q starts at %d", text, t, se.ByteOffset, bv, leaves[bi].ptr, off)
		}
		w.Count("semantic_checked", 1)
	}
	w.Shape("sem|" + t.String() + "|" + leaves[bi].ptr)
	if w.WantSample() {
		w.Sample(map[string]any{"exec": "semantic", "type": t.String(), "text": text, "planted_at": leaves[bi].ptr, "offset": off})
	}
}

func hash(b []byte) uint64 {
	var h uint64 = 1469598103934665603
	for _, c := range b {
		h = (h ^ uint64(c)) * 1099511628211
	}
	return h
}

var M = &run.Monitor{
	ID:    "C16",
	Level: "exploration",
	Rule: "four families: (1) Decoder call scripts (ReadToken/ReadValue/SkipValue, several chunk sizes) and Encoder replays (WriteToken/WriteValue mixes) over generated streams, with InputOffset/OutputOffset, StackDepth, every StackIndex and StackPointer compared against an independent tokenizer after every call; " +
		"(2) Pointer algebra on generated RFC 6901 token lists; (3) every rejected generated/mutated text through the token, value, skip, Unmarshal and UnmarshalRead paths: ByteOffset within [start of offending token or its delimiter, first non-viable byte], JSONPointer in {innermost value, its container}, duplicate names exact; " +
		"(4) planted conversion failures in generated Go types: SemanticError pointer and offset exact. distinct = input hash x script/mode (1), pointer (2), input hash (3), type x planted path (4)",
	Assumptions: []string{
		"the reference tokenizer and prefix analyzer in /verif/ref",
		"OutputOffset counts the newline the Encoder emits after each completed top-level value",
	},
	Floors: func(c map[string]int64, tier string) []string {
		var u []string
		need := func(k string, n int64) {
			if c[k] < n {
				u = append(u, fmt.Sprintf("%s=%d < %d", k, c[k], n))
			}
		}
		need("decoder_states_compared", 50000)
		need("encoder_states_compared", 20000)
		need("pointer_algebra", 1000)
		need("pointer_isvalid", 500)
		need("syntactic_checked", 20000)
		need("syntactic_dup_checked", 200)
		need("semantic_checked", 5000)
		return u
	},
}

func main() {
	run.Def(M, "decoder-positions", runDecoderPositions)
	run.Def(M, "encoder-positions", runEncoderPositions)
	run.Def(M, "pointer", runPointer)
	run.Def(M, "syntactic", runSyntactic)
	run.Def(M, "semantic", runSemantic)
	run.Def(M, "marshal-semantic", runMarshalSemantic)
	M.Gen = generate
	run.Main(M)
}

var ptrTokens = []string{"", "a", "~", "/", "~0", "~1", "~01", "a/b", "a~b", "é", "😀", "0", "-", "01", " ", "~~", "//", "x/~", "\x00", `"`, `\`}

func generate(w *run.W) {
	scripts := []string{"T", "V", "S", "TV", "TS", "TTV", "TTTS", "TVS", "TTTTV"}
	nb := w.Pick(20000, 80000)
	for b := 0; b < nb; b++ {
		if !w.Mine(b) {
			continue
		}
		r := w.Rand("c16", b)
		cfg := &gen.TextCfg{MaxDepth: 1 + r.IntN(5), MaxWidth: 1 + r.IntN(5), Invalid: false, WS: r.IntN(2) == 0, DupPercent: 0}
		for k := 0; k < 10; k++ {
			// valid stream of 1-3 values
			in := gen.Value(r, cfg)
			for n := r.IntN(3); n > 0; n-- {
				in = append(append(in, ' '), gen.Value(r, cfg)...)
			}
			inv := r.IntN(3) == 0
			if ref.Parse(in, ref.Opts{AllowInvalidUTF8: inv}) == nil {
				if _, ok := ref.StreamValid(in, ref.Opts{AllowInvalidUTF8: inv}); !ok {
					inv = true // the pools contain ill-formed UTF-8 strings
				}
			}
			w.Do("decoder-positions", &posArgs{Input: in, Script: scripts[r.IntN(len(scripts))], Chunk: []int{0, 1, 2, 7, 64}[r.IntN(5)], Inv: inv, Dup: r.IntN(4) == 0, Sparse: []int{0, 0, 4, 1000}[r.IntN(4)]})
			if _, ok := ref.StreamValid(in, ref.Opts{}); ok {
				w.Do("encoder-positions", &encArgs{Input: in, Mode: r.Uint64() & r.Uint64(), Sparse: []int{0, 0, 5, 1000}[r.IntN(4)]})
				w.Do("encoder-positions", &encArgs{Input: in, Mode: r.Uint64() & r.Uint64(), Sparse: []int{3, 7, 13}[r.IntN(3)], Buffer: true})
				w.Do("encoder-positions", &encArgs{Input: in, Mode: r.Uint64() & r.Uint64(), Sparse: []int{0, 5}[r.IntN(2)], Fault: 1 + r.IntN(4)})
			}
			// invalid: mutate 1-3 times
			bad := in
			for m := 1 + r.IntN(3); m > 0; m-- {
				bad = gen.Mutate(r, bad)
			}
			dupCfg := *cfg
			if r.IntN(4) == 0 {
				dupCfg.DupPercent = 60
				dupCfg.Invalid = r.IntN(2) == 0
				bad = gen.Value(r, &dupCfg)
			}
			w.Do("syntactic", &synArgs{Input: bad, Chunk: []int{0, 1, 3, 16}[r.IntN(4)], Inv: r.IntN(4) == 0, Dup: r.IntN(6) == 0})
			w.Do("semantic", &semArgs{Seed: r.Uint64()})
			w.Do("marshal-semantic", &msArgs{Seed: r.Uint64()})
		}
		// pointers
		n := r.IntN(5)
		toks := make([]string, n)
		for i := range toks {
			toks[i] = ptrTokens[r.IntN(len(ptrTokens))]
			if r.IntN(4) == 0 {
				toks[i] += ptrTokens[r.IntN(len(ptrTokens))]
			}
		}
		w.Do("pointer", &ptrArgs{Tokens: toks})
		raw := ""
		for i := r.IntN(6); i >= 0; i-- {
			raw += []string{"/", "~", "0", "1", "2", "a", "~0", "~1", "~2", ""}[r.IntN(10)]
		}
		if raw != "" {
			w.Do("pointer", &ptrArgs{Raw: raw})
		}
	}
	// targeted syntactic family: errors at every structural position of a nested template, all chunk sizes
	tmpl := `{"a":{"b":[1,{"c":"x","d":[true,null]},"y"],"e":-1.5e3},"f":[]}`
	ci := 0
	for p := 0; p <= len(tmpl); p++ {
		for _, ins := range []string{"", "}", "]", ",", ":", "x", "\"", "1", "tru", "\x00", "\xff", `"c":`, "{", "["} {
			ci++
			if !w.Mine(ci) {
				continue
			}
			in := tmpl[:p] + ins + tmpl[p:]
			if ins == "" {
				in = tmpl[:p] // truncation
			}
			for _, chunk := range []int{0, 1, 5} {
				w.Do("syntactic", &synArgs{Input: []byte(in), Chunk: chunk})
			}
		}
	}
}

package main

// "string takes effect exactly on the fields that carry it" across calls on one caller-held
// Decoder: a call that failed inside a `string`-tagged (or `format`-tagged) field must not leave
// the option behind for the values decoded afterwards from the same Decoder.

import (
	"fmt"
	"strings"

	json "github.com/go-json-experiment/json"
	"github.com/go-json-experiment/json/jsontext"

	"verif/run"
)

type rdTagged struct {
	A int     `json:"a"`
	Q int     `json:"q,string"`
	F float64 `json:"f,string"`
	Z int     `json:"z"`
}

type rdPlain struct {
	N int     `json:"n"`
	G float64 `json:"g"`
	S string  `json:"s"`
}

type rdArgs struct {
	Bad   string `json:"bad"`   // the member that makes the first call fail
	Dup   bool   `json:"dup"`   // Decoder constructed with AllowDuplicateNames(true)
	Chunk int    `json:"chunk"` // reader chunk size (0 = whole)
}

type rdChunks struct {
	b []byte
	n int
}

func (c *rdChunks) Read(p []byte) (int, error) {
	if len(c.b) == 0 {
		return 0, fmt.Errorf("EOF")
	}
	k := min(len(p), len(c.b))
	if c.n > 0 {
		k = min(k, c.n)
	}
	copy(p, c.b[:k])
	c.b = c.b[k:]
	return k, nil
}

func runReuseDecoder(w *run.W, a *rdArgs) {
	w.Eval(1)
	first := `{"a":1,` + a.Bad + `,"z":2}`
	text := first + ` {"n":7,"g":2.5,"s":"x"} {"n":8,"g":1,"s":"y"}`
	var opts []jsontext.Options
	if a.Dup {
		opts = append(opts, jsontext.AllowDuplicateNames(true))
	}
	d := jsontext.NewDecoder(strings.NewReader(text), opts...)
	if a.Chunk > 0 {
		d = jsontext.NewDecoder(&rdChunks{b: []byte(text), n: a.Chunk}, opts...)
	}
	var t rdTagged
	err := json.UnmarshalDecode(d, &t)
	if err == nil {
		w.Violate("reuse-decoder", map[string]string{"what": "first-call-accepted"}, "UnmarshalDecode of %s into %T returned no error", first, t)
		return
	}
	// the caller skips the rest of the failed record
	for guard := 0; d.StackDepth() > 0 && guard < 100; guard++ {
		if _, err := d.ReadToken(); err != nil {
			// the library may declare the Decoder unusable after a failed struct (it does so without
			// AllowDuplicateNames): nothing more can be observed then
			w.Count("reuse_decoder_unusable_after_failure", 1)
			return
		}
	}
	for i, want := range []rdPlain{{7, 2.5, "x"}, {8, 1, "y"}} {
		var p rdPlain
		if err := json.UnmarshalDecode(d, &p); err != nil || p != want {
			w.Violate("reuse-decoder", map[string]string{"what": "later-value", "dup": fmt.Sprint(a.Dup)},
				"after a call that failed in %s, value %d of the same Decoder decoded as %+v, err=%v; want %+v: no field of %T carries the string option", a.Bad, i, p, err, want, p)
			return
		}
	}
	w.Count("reuse_decoder_later_values_checked", 2)
	w.Shape(fmt.Sprintf("rd|%s|%v|%d", a.Bad, a.Dup, a.Chunk))
}

func genReuseDecoder(w *run.W, mine func() bool) {
	for _, bad := range []string{`"q":"x"`, `"q":true`, `"f":"1e999"`, `"q":"1.5"`, `"f":[]`, `"q":"99999999999999999999"`} {
		for _, dup := range []bool{true, false} {
			for _, chunk := range []int{0, 1, 5, 16} {
				if mine() {
					w.Do("reuse-decoder", &rdArgs{Bad: bad, Dup: dup, Chunk: chunk})
				}
			}
		}
	}
}

package main

// "string takes effect exactly on the fields that carry it" while unmarshaling continues after
// a semantic error (ReportErrorsWithLegacySemantics: "a semantic error does not immediately
// terminate the unmarshal procedure, but rather evaluation continues"): what an earlier member
// did — including one that was refused — must not change how later members are decoded.

import (
	"fmt"
	"sort"
	"strings"

	json "github.com/go-json-experiment/json"
	jsonv1 "github.com/go-json-experiment/json/v1"

	"verif/run"
)

type lcUnexp struct {
	Q int    `json:",string"`
	R string `json:"R"`
}

// lcHost embeds a pointer to an unexported struct type: when it is nil the library cannot
// allocate it, so its promoted members are refused with an error.
type lcHost struct {
	*lcUnexp
	Plain int     `json:"Plain"`
	Ratio float64 `json:"Ratio"`
	Str   int     `json:"Str,string"`
	Str2  int     `json:"Str2,string"`
	B     bool    `json:"B"`
	U8    uint8   `json:"U8"`
}

type lcArgs struct {
	Lead  string `json:"lead"`  // the member that comes first: none | nil-embedded-string | nil-embedded-plain | wrong-kind | out-of-range | string-field-unquoted
	Later string `json:"later"` // members after it
	Opts  string `json:"opts"`  // legacy | v1
}

var lcLeads = map[string]string{
	"none":                  ``,
	"nil-embedded-string":   `"Q":"1"`,
	"nil-embedded-plain":    `"R":"x"`,
	"wrong-kind":            `"B":5`,
	"out-of-range":          `"U8":256`,
	"string-field-unquoted": `"Str2":true`,
}

func runLegacyContinue(w *run.W, a *lcArgs) {
	w.Eval(1)
	opts := []json.Options{jsonv1.ReportErrorsWithLegacySemantics(true)}
	v1all := a.Opts == "v1"
	if v1all {
		opts = []json.Options{jsonv1.DefaultOptionsV1()}
	}
	lead := lcLeads[a.Lead]
	in := "{" + strings.Trim(lead+","+a.Later, ",") + "}"
	var h lcHost
	err := json.Unmarshal([]byte(in), &h, opts...)
	sig := map[string]string{"lead": a.Lead, "opts": a.Opts}
	if (a.Lead != "none") && err == nil {
		w.Violate("legacy-continue", sig, "input %s: the refused member %s produced no error", in, lead)
	}
	// expectations for the later members, one by one
	for _, m := range strings.Split(a.Later, ",") {
		name, val, _ := strings.Cut(m, ":")
		quoted := strings.HasPrefix(val, `"`)
		var got any
		var want any
		switch name {
		case `"Plain"`:
			got = h.Plain
			want = 0
			if !quoted {
				want = 2
			}
		case `"Ratio"`:
			got = h.Ratio
			want = 0.0
			if !quoted {
				want = 3.5
			}
		case `"Str"`:
			got = h.Str
			want = 0
			if quoted {
				want = 4
			}
		default:
			continue
		}
		if fmt.Sprint(got) != fmt.Sprint(want) {
			w.Violate("legacy-continue", sig, "input %s (options %s): member %s left %v in its field, want %v: the string option applies to the field that carries it and to no other, also after an earlier member was refused (err=%v)", in, a.Opts, m, got, want, err)
		}
		w.Count("legacy_continue_members_checked", 1)
	}
	w.Shape("lc|" + a.Lead + "|" + a.Later + "|" + a.Opts)
}

func genLegacyContinue(w *run.W, mine func() bool) {
	laters := []string{`"Plain":2`, `"Plain":"2"`, `"Ratio":3.5`, `"Ratio":"3.5"`, `"Str":"4"`, `"Str":4`,
		`"Plain":2,"Ratio":3.5,"Str":"4"`, `"Str":"4","Plain":2`, `"Plain":"2","Ratio":"3.5"`, `"Ratio":3.5,"Plain":"2","Str":"4"`}
	leads := make([]string, 0, len(lcLeads))
	for lead := range lcLeads {
		leads = append(leads, lead)
	}
	sort.Strings(leads) // every shard must walk the cases in the same order
	for _, lead := range leads {
		for _, l := range laters {
			for _, o := range []string{"legacy", "v1"} {
				if mine() {
					w.Do("legacy-continue", &lcArgs{Lead: lead, Later: l, Opts: o})
				}
			}
		}
	}
}

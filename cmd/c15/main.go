// C15 — struct fields map to JSON members by the documented resolution rules.
//
// Oracle: ref.ModelStruct, a model of the package documentation ("JSON Representation of Go
// structs") over reflect.Type.  Marshal: every int leaf carries a distinct sentinel, the emitted
// member list (names, order, sentinels) must equal the model's.  Unmarshal: for each probe name
// the leaf that received the sentinel, or the error (ambiguous / unknown), must be the model's.
// omitzero / omitempty / string: per-type value tables state the documented condition.
package main

import (
	"bytes"
	stdjson "encoding/json"
	"errors"
	"fmt"
	"math/rand/v2"
	"reflect"
	"sort"
	"strconv"
	"strings"

	json "github.com/go-json-experiment/json"
	"github.com/go-json-experiment/json/jsontext"
	jsonv1 "github.com/go-json-experiment/json/v1"

	"verif/gen"
	"verif/ref"
	"verif/run"
)

// ---- declared types for Go embedding (exported, unexported, nested, by pointer)

type E1 struct {
	A int
	B int `json:"b"`
	X int
}
type E2 struct {
	A int `json:"A"`
	C int
	x int //lint:ignore U1000 unexported fields must be ignored
}
type e3 struct {
	B int
	D int `json:"d,case:ignore"`
}
type E4 struct {
	E1
	Y int
}
type E5 struct {
	*E1
	e3
	Z int `json:"-"`
	C int `json:"c"`
}
type E7 struct {
	B int
	D int `json:"d,case:ignore"`
}
type E6 struct {
	*E7
	E2 `json:"e2"`
	X  int `json:"x,case:ignore"`
}

var _ = E2{}.x

var rawValueType = reflect.TypeFor[jsontext.Value]()

var env = gen.TypeEnv{"E1": reflect.TypeFor[E1](), "E2": reflect.TypeFor[E2](), "E4": reflect.TypeFor[E4](),
	"E5": reflect.TypeFor[E5](), "E6": reflect.TypeFor[E6](), "value": rawValueType}

// ---- option sets

type optSet struct {
	name         string
	opts         []json.Options
	ci, delim    bool
	reject, omit bool
}

var optSets = map[string]optSet{
	"default":  {name: "default"},
	"ci":       {name: "ci", opts: []json.Options{json.MatchCaseInsensitiveNames(true)}, ci: true},
	"ci-delim": {name: "ci-delim", opts: []json.Options{json.MatchCaseInsensitiveNames(true), jsonv1.MatchCaseSensitiveDelimiter(true)}, ci: true, delim: true},
	"delim":    {name: "delim", opts: []json.Options{jsonv1.MatchCaseSensitiveDelimiter(true)}, delim: true},
	"reject":   {name: "reject", opts: []json.Options{json.RejectUnknownMembers(true)}, reject: true},
	"ci-reject": {name: "ci-reject", opts: []json.Options{json.MatchCaseInsensitiveNames(true), json.RejectUnknownMembers(true)},
		ci: true, reject: true},
	"omitzero": {name: "omitzero", opts: []json.Options{json.OmitZeroStructFields(true)}, omit: true},
}
var optNames = []string{"default", "default", "ci", "ci", "ci-delim", "delim", "reject", "ci-reject", "omitzero"}

// ---- resolve executor

type resolveArgs struct {
	Type   string   `json:"type"`
	Opt    string   `json:"opt"`
	Alloc  bool     `json:"alloc"` // pre-allocate embedded pointers in unmarshal targets / fill them when marshaling
	Probes []string `json:"probes,omitempty"`
}

const probeSentinel = 777777

// built from code points so that no tool layer can normalise them away
var (
	kelvin = string(rune(0x212A)) // KELVIN SIGN, folds to k/K
	longS  = string(rune(0x017F)) // LATIN SMALL LETTER LONG S, folds to s/S
)

// leaves visits every settable int leaf reachable through structs and non-nil pointers.
func leaves(v reflect.Value, idx []int, fn func(idx []int, leaf reflect.Value)) {
	switch v.Kind() {
	case reflect.Int:
		if v.CanSet() {
			fn(idx, v)
		}
	case reflect.Pointer:
		if !v.IsNil() && v.Type().Elem().Kind() == reflect.Struct {
			leaves(v.Elem(), idx, fn)
		}
	case reflect.Struct:
		for i := 0; i < v.NumField(); i++ {
			leaves(v.Field(i), append(append([]int(nil), idx...), i), fn)
		}
	}
}

// allocate sets every pointer-to-struct field (recursively); onlyUnexported restricts it to
// pointers to unexported struct types, which the library cannot allocate itself.
func allocate(v reflect.Value, onlyUnexported bool) {
	switch v.Kind() {
	case reflect.Pointer:
		if v.Type().Elem().Kind() != reflect.Struct {
			return
		}
		if v.IsNil() && v.CanSet() {
			et := v.Type().Elem()
			unexp := et.Name() != "" && !isExportedName(et.Name())
			if !onlyUnexported || unexp {
				v.Set(reflect.New(et))
			}
		}
		if !v.IsNil() {
			allocate(v.Elem(), onlyUnexported)
		}
	case reflect.Struct:
		for i := 0; i < v.NumField(); i++ {
			allocate(v.Field(i), onlyUnexported)
		}
	}
}

func isExportedName(s string) bool { return s != "" && s[0] >= 'A' && s[0] <= 'Z' }

// absent reports whether a model field lies beneath a nil embedded pointer of v.
func absent(v reflect.Value, f *ref.SField) bool {
	for _, p := range f.ViaPtr {
		pv, err := v.FieldByIndexErr(p)
		if err != nil || pv.IsNil() {
			return true
		}
	}
	return false
}

type emitted struct {
	name string
	raw  string
	idx  string // index path of the leaf the sentinel belongs to ("" if not a sentinel)
}

// diamondOnly decides whether the difference between the documented-rules model and the
// first-path emulation is exactly the known diamond shape (F6): the emulation only ADDS fields,
// and every added field is promoted from beneath an embedded struct of a struct type that is
// embedded along >= 2 paths (i.e. it lies at least two levels below that type's first occurrence).
func diamondOnly(strict, quirk *ref.StructModel) bool {
	in := func(m *ref.StructModel) map[string]bool {
		s := map[string]bool{}
		for _, f := range m.Fields {
			s[ref.IndexKey(f.Index)] = true
		}
		return s
	}
	ss, qs := in(strict), in(quirk)
	for k := range ss {
		if !qs[k] {
			return false
		}
	}
	occ := map[reflect.Type][][]int{}
	embeds := map[reflect.Type]bool{}
	for _, o := range strict.Embedded {
		occ[o.Type] = append(occ[o.Type], o.Index)
		for i := 0; i < o.Type.NumField(); i++ {
			sf := o.Type.Field(i)
			ft := ref.ParseFieldTag(sf)
			if ft.Ignored || !(ft.Embed || (sf.Anonymous && !ft.HasName)) {
				continue
			}
			et := sf.Type
			if et.Kind() == reflect.Pointer && et.Name() == "" {
				et = et.Elem()
			}
			if et.Kind() == reflect.Struct && et != rawValueType {
				embeds[o.Type] = true
			}
		}
	}
	extra := 0
	for k := range qs {
		if ss[k] {
			continue
		}
		extra++
		ok := false
		for t, paths := range occ {
			if len(paths) < 2 || !embeds[t] {
				continue
			}
			first := ref.IndexKey(paths[0])
			if strings.HasPrefix(k, first+".") && strings.Count(k[len(first):], ".") >= 2 {
				ok = true
			}
		}
		if !ok {
			return false
		}
	}
	if extra == 0 {
		// same field sets; the fallback may still differ for the same reason
		return (strict.Fallback == nil) != (quirk.Fallback == nil) || (strict.Fallback != nil && ref.IndexKey(strict.Fallback.Index) != ref.IndexKey(quirk.Fallback.Index))
	}
	return true
}

// expectedMembers lists what a model says Marshal emits for v.
func expectedMembers(m *ref.StructModel, v reflect.Value, sent map[string]int, omitZero bool, w *run.W) []emitted {
	var want []emitted
	for i := range m.Fields {
		f := &m.Fields[i]
		if absent(v, f) {
			if w != nil {
				w.Count("members_absent_nil_embedded_pointer", 1)
			}
			continue
		}
		fv, err := v.FieldByIndexErr(f.Index)
		if err == nil && (omitZero || f.OmitZero) && fv.IsZero() {
			continue
		}
		e := emitted{name: f.Name, idx: ref.IndexKey(f.Index)}
		if s, ok := sent[e.idx]; ok {
			e.raw = strconv.Itoa(s)
		} else {
			e.idx = "" // not an int leaf (struct-valued member): only the name is compared
		}
		want = append(want, e)
	}
	return want
}

func sameMembers(got, want []emitted) (libOnly, modelOnly []string, orderDiffers bool) {
	key := func(e emitted) string {
		if e.idx == "" {
			return e.name + "\x00"
		}
		return e.name + "\x00" + e.idx
	}
	wantSet, gotSet := map[string]bool{}, map[string]bool{}
	for _, e := range want {
		wantSet[key(e)] = true
	}
	var gc, wc []string
	for _, e := range got {
		k := key(e)
		if !wantSet[k] && wantSet[e.name+"\x00"] {
			k = e.name + "\x00" // a non-int member: matched by name
		}
		gotSet[k] = true
		if wantSet[k] {
			gc = append(gc, k)
		} else {
			libOnly = append(libOnly, fmt.Sprintf("%s@%s", e.name, e.idx))
		}
	}
	for _, e := range want {
		if gotSet[key(e)] {
			wc = append(wc, key(e))
		} else {
			modelOnly = append(modelOnly, fmt.Sprintf("%s@%s", e.name, e.idx))
		}
	}
	return libOnly, modelOnly, strings.Join(gc, "|") != strings.Join(wc, "|")
}

// observed is what one probe did.
type observed struct {
	err      error
	isSem    bool
	unknown  bool // errors.Is(err, ErrUnknownName)
	hit      []string
	fallback func(m *ref.StructModel) bool // did the probe land in that model's fallback
}

// judge returns "" if the observation is what model m prescribes, else the expectation it breaks.
func judge(m *ref.StructModel, name string, os optSet, o *observed) (want, detail string) {
	f, amb := m.Lookup(name, os.ci, os.delim)
	switch {
	case amb:
		if o.err == nil || !o.isSem || len(o.hit) > 0 {
			return "ambiguous", "matches several fields case-insensitively and none exactly"
		}
	case f != nil:
		if o.err != nil || len(o.hit) != 1 || o.hit[0] != ref.IndexKey(f.Index) {
			return "field", fmt.Sprintf("must be stored into field %s (%q)", ref.IndexKey(f.Index), f.Name)
		}
	case len(o.hit) > 0:
		return "unknown", "matches no field"
	case m.Fallback != nil:
		if o.err != nil || !o.fallback(m) {
			return "fallback", "must be captured by the embedded fallback " + ref.IndexKey(m.Fallback.Index)
		}
	case os.reject:
		if o.err == nil || !o.unknown {
			return "unknown-error", "must be rejected under RejectUnknownMembers"
		}
	default:
		if o.err != nil {
			return "ignored", "is unknown and must be ignored"
		}
	}
	return "", ""
}

func runResolve(w *run.W, a *resolveArgs) {
	t, err := gen.ParseType(a.Type, env)
	if err != nil {
		w.Broken("bad type expression: %v", err)
		return
	}
	os, ok := optSets[a.Opt]
	if !ok {
		w.Broken("unknown option set %q", a.Opt)
		return
	}
	m := ref.ModelStruct(t, rawValueType)
	mq := ref.ModelStructFirstPathQuirk(t, rawValueType)
	diamond := diamondOnly(m, mq) && !reflect.DeepEqual(fieldKeys(m), fieldKeys(mq))
	fbDiamond := diamondOnly(m, mq)
	w.Eval(1)
	w.Count("types", 1)
	w.Count("resolved_by_depth", int64(m.ByDepth))
	w.Count("resolved_by_tag", int64(m.ByTag))
	w.Count("names_dropped", int64(m.Dropped))
	w.Count("candidates", int64(len(m.All)))
	if len(m.All) > 64 {
		w.Count("types_over_64_fields", 1)
	}
	if len(m.All) > 128 {
		w.Count("types_over_128_fields", 1)
	}
	if m.Fallback != nil {
		w.Count("types_with_fallback", 1)
	}
	if diamond {
		w.Count("types_with_diamond_shape", 1)
	}
	w.Shape(a.Type)
	sig := func(extra ...string) map[string]string {
		s := map[string]string{"opt": a.Opt}
		for i := 0; i+1 < len(extra); i += 2 {
			s[extra[i]] = extra[i+1]
		}
		return s
	}
	if m.Invalid != "" {
		// the documentation forbids the type: both directions must report an error
		w.Count("invalid_types", 1)
		v := reflect.New(t)
		if _, err := json.Marshal(v.Interface(), os.opts...); err == nil {
			w.Violate("invalid-type-accepted", sig("side", "marshal"), "type %s (%s) marshals without error", a.Type, m.Invalid)
		}
		if err := json.Unmarshal([]byte(`{"A":1}`), v.Interface(), os.opts...); err == nil {
			w.Violate("invalid-type-accepted", sig("side", "unmarshal"), "type %s (%s) unmarshals without error", a.Type, m.Invalid)
		}
		return
	}

	// ---- marshal: member names, order, sentinels
	v := reflect.New(t)
	allocate(v.Elem(), !a.Alloc)
	sent := map[string]int{} // index path -> sentinel
	bySent := map[string]string{}
	next := 1000
	leaves(v.Elem(), nil, func(idx []int, leaf reflect.Value) {
		next++
		leaf.SetInt(int64(next))
		sent[ref.IndexKey(idx)] = next
		bySent[strconv.Itoa(next)] = ref.IndexKey(idx)
	})
	out, err := json.Marshal(v.Interface(), os.opts...)
	switch {
	case err != nil && len(m.Fields) == 0:
		w.Count("empty_field_list_error", 1) // the docs allow an error for structs without representable fields
	case err != nil:
		w.Violate("marshal-error", sig(), "type %s: Marshal failed: %v", a.Type, err)
	default:
		n := ref.Parse(out, ref.Opts{AllowDup: true})
		if n == nil || n.Kind != ref.Object {
			w.Violate("marshal-error", sig(), "type %s: output is not a JSON object: %s", a.Type, out)
			break
		}
		var got []emitted
		for _, mem := range n.Members {
			e := emitted{name: mem.Name, raw: string(out[mem.Value.Start:mem.Value.End])}
			e.idx = bySent[e.raw]
			got = append(got, e)
		}
		want := expectedMembers(m, v.Elem(), sent, os.omit, w)
		w.Count("members_compared", int64(len(want)))
		libOnly, modelOnly, orderDiffers := sameMembers(got, want)
		if len(libOnly) == 0 && len(modelOnly) == 0 && !orderDiffers {
			w.Count("marshal_lists_equal", 1)
			break
		}
		class := "other"
		switch {
		case diamond && func() bool {
			lo, mo, od := sameMembers(got, expectedMembers(mq, v.Elem(), sent, os.omit, nil))
			return len(lo) == 0 && len(mo) == 0 && !od
		}():
			class = "diamond-embedding"
		case len(libOnly) == 0 && len(modelOnly) == 0:
			class = "order"
		case len(libOnly) == 0:
			class = "member-missing"
		case len(modelOnly) == 0:
			class = "member-extra"
		}
		w.Violate("field-set-differs", map[string]string{"class": class},
			"type %s (opt %s)\n emitted  %s\n documented rules give %s\n only in output: %v\n only in model: %v", a.Type, a.Opt, out, render(want), libOnly, modelOnly)
	}

	// ---- unmarshal: where does each probe name go
	for _, name := range probeNames(m, a.Probes) {
		if f, _ := m.Lookup(name, os.ci, os.delim); f != nil && f.Type.Kind() != reflect.Int {
			w.Count("probes_skipped_nonint_target", 1)
			continue
		}
		if f, _ := mq.Lookup(name, os.ci, os.delim); f != nil && f.Type.Kind() != reflect.Int {
			continue
		}
		p := reflect.New(t)
		allocate(p.Elem(), !a.Alloc)
		in := fmt.Sprintf(`{%s:%d}`, ref.Quote(name, ref.QuoteOpts{}), probeSentinel)
		o := &observed{}
		o.err = json.Unmarshal([]byte(in), p.Interface(), os.opts...)
		leaves(p.Elem(), nil, func(idx []int, leaf reflect.Value) {
			if leaf.Int() == probeSentinel {
				o.hit = append(o.hit, ref.IndexKey(idx))
			}
		})
		var serr *json.SemanticError
		o.isSem = errors.As(o.err, &serr)
		o.unknown = errors.Is(o.err, json.ErrUnknownName)
		o.fallback = func(m *ref.StructModel) bool {
			fv, ferr := p.Elem().FieldByIndexErr(m.Fallback.Index)
			if ferr != nil {
				return false
			}
			for fv.Kind() == reflect.Pointer && !fv.IsNil() {
				fv = fv.Elem()
			}
			switch {
			case fv.Type() == rawValueType:
				return strings.Contains(string(fv.Bytes()), strconv.Itoa(probeSentinel))
			case fv.Kind() == reflect.Map:
				e := fv.MapIndex(reflect.ValueOf(name).Convert(fv.Type().Key()))
				return e.IsValid() && e.Kind() == reflect.Int && e.Int() == probeSentinel
			}
			return false
		}
		f, amb := m.Lookup(name, os.ci, os.delim)
		switch {
		case amb:
			w.Count("probe_ambiguous", 1)
		case f != nil:
			w.Count("probe_matched", 1)
			if f.Name != name {
				w.Count("probe_matched_by_folding", 1)
			}
		case m.Fallback != nil:
			w.Count("probe_to_fallback", 1)
		case os.reject:
			w.Count("probe_unknown_rejected", 1)
		default:
			w.Count("probe_unknown_ignored", 1)
		}
		want, detail := judge(m, name, os, o)
		if want == "" {
			continue
		}
		if fbDiamond {
			if w2, _ := judge(mq, name, os, o); w2 == "" {
				// exactly the behaviour of the known diamond shape: same finding as on the marshal side
				w.Violate("field-set-differs", map[string]string{"class": "diamond-embedding"},
					"type %s (opt %s): name %q %s by the documented rules; got err=%v stored=%v, which is what results when the embedded structs of a multiply embedded struct type are searched only below its first occurrence",
					a.Type, a.Opt, name, detail, o.err, o.hit)
				continue
			}
		}
		w.Violate("unmarshal-resolution", sig("want", want), "type %s: name %q %s; got err=%v stored=%v", a.Type, name, detail, o.err, o.hit)
	}

	// ---- a name given twice must be rejected whatever the field's position in the list
	dupTargets := m.Fields
	if len(dupTargets) > 6 {
		dupTargets = append(append([]ref.SField(nil), m.Fields[:2]...), m.Fields[len(m.Fields)-4:]...)
	}
	for i := range dupTargets {
		f := &dupTargets[i]
		if f.Type.Kind() != reflect.Int {
			continue
		}
		p := reflect.New(t)
		allocate(p.Elem(), false)
		q := ref.Quote(f.Name, ref.QuoteOpts{})
		if err := json.Unmarshal([]byte(`{`+q+`:1,`+q+`:2}`), p.Interface(), os.opts...); err == nil {
			w.Violate("duplicate-field-accepted", sig(), "type %s: member %q given twice is accepted (field order %d of %d)", a.Type, f.Name, f.Order, len(m.All))
		}
		w.Count("dup_probes", 1)
		if f.Order >= 64 {
			w.Count("dup_probes_beyond_64", 1)
		}
	}
}

func fieldKeys(m *ref.StructModel) []string {
	var ks []string
	for _, f := range m.Fields {
		ks = append(ks, ref.IndexKey(f.Index))
	}
	return ks
}

func render(es []emitted) string {
	var sb strings.Builder
	sb.WriteByte('{')
	for i, e := range es {
		if i > 0 {
			sb.WriteByte(',')
		}
		fmt.Fprintf(&sb, "%q:%s", e.name, e.raw)
	}
	sb.WriteByte('}')
	return sb.String()
}

// probeNames: exact names of every candidate (selected or not), case and delimiter variants, unknowns.
func probeNames(m *ref.StructModel, extra []string) []string {
	seen := map[string]bool{}
	var out []string
	add := func(s string) {
		if !seen[s] {
			seen[s] = true
			out = append(out, s)
		}
	}
	cands := m.All
	if len(cands) > 24 {
		cands = append(append([]ref.SField(nil), cands[:8]...), cands[len(cands)-8:]...)
	}
	for _, f := range cands {
		add(f.Name)
		add(strings.ToUpper(f.Name))
		add(strings.ToLower(f.Name))
		add("_" + f.Name)
		if rs := []rune(f.Name); len(rs) > 1 {
			add(string(rs[:1]) + "-" + string(rs[1:]))
		}
		add(strings.NewReplacer("_", "", "-", "").Replace(f.Name))
		add(strings.NewReplacer("s", longS, "k", kelvin, "S", longS, "K", kelvin).Replace(f.Name))
	}
	for _, s := range extra {
		add(s)
	}
	add("Nope")
	add("")
	return out
}

// ---- omit executor: omitzero / omitempty / string on exactly the flagged fields

// ZT has a value-receiver IsZero that disagrees with the Go zero value.
type ZT struct{ V int }

func (z ZT) IsZero() bool { return z.V == 7 }

// MJ marshals to the text it carries.
type MJ struct{ Out string }

func (m MJ) MarshalJSON() ([]byte, error) { return []byte(m.Out), nil }

// MS is a slice kind whose JSON emptiness is the opposite of its Go emptiness.
type MS []int

func (m MS) MarshalJSON() ([]byte, error) {
	if len(m) == 0 {
		return []byte(`[0]`), nil
	}
	return []byte(`[]`), nil
}

// TS is a string kind whose text form is empty exactly when the Go string is not.
type TS string

func (t TS) MarshalText() ([]byte, error) {
	if t == "" {
		return []byte("y"), nil
	}
	return nil, nil
}

// MP is a map kind with a marshal method producing null for non-empty maps.
type MP map[string]int

func (m MP) MarshalJSON() ([]byte, error) {
	if len(m) == 0 {
		return []byte(`{"n":0}`), nil
	}
	return []byte(`null`), nil
}

type valSpec struct {
	key   string
	v     any
	zero  bool   // documented omitzero condition: IsZero() if present, else the zero Go value
	empty bool   // documented omitempty condition: encodes as null, "", {} or []
	num   string // for numeric kinds: the JSON number (string option ⇒ quoted)
}

// emptyUnderOmitZero: OmitZeroStructFields applies to every struct, so a struct value whose own
// fields are all zero encodes as {} under that option.
var emptyUnderOmitZero = map[string]bool{"ZT/gozero": true, "struct1/zero": true}

type typSpec struct {
	key  string
	t    reflect.Type
	vals []valSpec
}

func ip(i int) *int { return &i }

var typeTable = []typSpec{
	{"int", reflect.TypeFor[int](), []valSpec{{"0", 0, true, false, "0"}, {"5", 5, false, false, "5"}, {"-12", -12, false, false, "-12"}}},
	{"int64", reflect.TypeFor[int64](), []valSpec{{"0", int64(0), true, false, "0"}, {"big", int64(9007199254740993), false, false, "9007199254740993"}}},
	{"uint8", reflect.TypeFor[uint8](), []valSpec{{"0", uint8(0), true, false, "0"}, {"255", uint8(255), false, false, "255"}}},
	{"float64", reflect.TypeFor[float64](), []valSpec{{"0", 0.0, true, false, "0"}, {"1.5", 1.5, false, false, "1.5"}}},
	{"string", reflect.TypeFor[string](), []valSpec{{"empty", "", true, true, ""}, {"x", "x", false, false, ""}}},
	{"bool", reflect.TypeFor[bool](), []valSpec{{"false", false, true, false, ""}, {"true", true, false, false, ""}}},
	{"*int", reflect.TypeFor[*int](), []valSpec{{"nil", (*int)(nil), true, true, ""}, {"to0", ip(0), false, false, ""}}},
	{"[]int", reflect.TypeFor[[]int](), []valSpec{{"nil", []int(nil), true, true, ""}, {"empty", []int{}, false, true, ""}, {"one", []int{1}, false, false, ""}}},
	{"map", reflect.TypeFor[map[string]int](), []valSpec{{"nil", map[string]int(nil), true, true, ""}, {"empty", map[string]int{}, false, true, ""}, {"one", map[string]int{"a": 1}, false, false, ""}}},
	{"struct0", reflect.TypeFor[struct{}](), []valSpec{{"zero", struct{}{}, true, true, ""}}},
	{"struct1", reflect.TypeFor[struct{ A int }](), []valSpec{{"zero", struct{ A int }{}, true, false, ""}, {"one", struct{ A int }{1}, false, false, ""}}},
	{"any", reflect.TypeFor[any](), []valSpec{{"nil", nil, true, true, ""}, {"0", 0, false, false, ""}, {"emptystr", "", false, true, ""},
		{"emptyslice", []int{}, false, true, ""}, {"emptymap", map[string]int{}, false, true, ""}, {"nilptr", (*int)(nil), false, true, ""}, {"x", "x", false, false, ""}}},
	{"[2]int", reflect.TypeFor[[2]int](), []valSpec{{"zero", [2]int{}, true, false, ""}, {"one", [2]int{1, 0}, false, false, ""}}},
	{"[0]int", reflect.TypeFor[[0]int](), []valSpec{{"zero", [0]int{}, true, true, ""}}},
	{"ZT", reflect.TypeFor[ZT](), []valSpec{{"iszero", ZT{7}, true, false, ""}, {"gozero", ZT{0}, false, false, ""}, {"other", ZT{1}, false, false, ""}}},
	{"MJ", reflect.TypeFor[MJ](), []valSpec{{"null", MJ{`null`}, false, true, ""}, {"str", MJ{`""`}, false, true, ""}, {"obj", MJ{`{}`}, false, true, ""}, {"arr", MJ{`[]`}, false, true, ""},
		{"0", MJ{`0`}, false, false, ""}, {"x", MJ{`"x"`}, false, false, ""}, {"arr1", MJ{`[0]`}, false, false, ""}, {"obj1", MJ{`{"a":1}`}, false, false, ""}, {"false", MJ{`false`}, false, false, ""}}},
	{"MS", reflect.TypeFor[MS](), []valSpec{{"nil", MS(nil), true, false, ""}, {"empty", MS{}, false, false, ""}, {"one", MS{1}, false, true, ""}}},
	{"TS", reflect.TypeFor[TS](), []valSpec{{"goempty", TS(""), true, false, ""}, {"x", TS("x"), false, true, ""}}},
	{"MP", reflect.TypeFor[MP](), []valSpec{{"nil", MP(nil), true, false, ""}, {"one", MP{"a": 1}, false, true, ""}}},
	{"value", rawValueType, []valSpec{{"nil", jsontext.Value(nil), true, true, ""}, {"null", jsontext.Value(`null`), false, true, ""}, {"obj", jsontext.Value(`{}`), false, true, ""},
		{"arr", jsontext.Value(`[]`), false, true, ""}, {"str", jsontext.Value(`""`), false, true, ""}, {"obj1", jsontext.Value(`{"a":1}`), false, false, ""}, {"0", jsontext.Value(`0`), false, false, ""}}},
}

func typSpecOf(key string) *typSpec {
	for i := range typeTable {
		if typeTable[i].key == key {
			return &typeTable[i]
		}
	}
	return nil
}

type omitField struct {
	T     string `json:"t"`
	V     string `json:"v"`
	Flags string `json:"flags"` // comma separated subset of omitzero,omitempty,string
}

type omitArgs struct {
	Fields []omitField `json:"fields"`
	Opt    string      `json:"opt"`  // "" | omitzero (OmitZeroStructFields)
	Wrap   string      `json:"wrap"` // "" | embed | ptr-embed : the fields sit in an embedded struct
}

func runOmit(w *run.W, a *omitArgs) {
	var sfs []reflect.StructField
	var specs []*valSpec
	for i, f := range a.Fields {
		ts := typSpecOf(f.T)
		if ts == nil {
			w.Broken("unknown type key %q", f.T)
			return
		}
		var vs *valSpec
		for k := range ts.vals {
			if ts.vals[k].key == f.V {
				vs = &ts.vals[k]
			}
		}
		if vs == nil {
			w.Broken("unknown value key %q for %s", f.V, f.T)
			return
		}
		sf := reflect.StructField{Name: fmt.Sprintf("F%d", i), Type: ts.t}
		if f.Flags != "" {
			sf.Tag = reflect.StructTag(`json:",` + f.Flags + `"`)
		}
		sfs = append(sfs, sf)
		specs = append(specs, vs)
	}
	inner := reflect.StructOf(sfs)
	iv := reflect.New(inner).Elem()
	for i, vs := range specs {
		if vs.v != nil {
			iv.Field(i).Set(reflect.ValueOf(vs.v))
		}
	}
	var val any = iv.Interface()
	switch a.Wrap {
	case "embed":
		ot := reflect.StructOf([]reflect.StructField{{Name: "In", Type: inner, Tag: `json:",embed"`}})
		ov := reflect.New(ot).Elem()
		ov.Field(0).Set(iv)
		val = ov.Interface()
	case "ptr-embed":
		ot := reflect.StructOf([]reflect.StructField{{Name: "In", Type: reflect.PointerTo(inner), Tag: `json:",embed"`}})
		ov := reflect.New(ot).Elem()
		pv := reflect.New(inner)
		pv.Elem().Set(iv)
		ov.Field(0).Set(pv)
		val = ov.Interface()
	}
	var opts []json.Options
	if a.Opt == "omitzero" {
		opts = append(opts, json.OmitZeroStructFields(true))
	}
	w.Eval(1)
	w.Count("omit_cases", 1)
	out, err := json.Marshal(val, opts...)
	if err != nil {
		w.Violate("omit-marshal-error", map[string]string{"opt": a.Opt}, "fields %+v: Marshal failed: %v", a.Fields, err)
		return
	}
	// the same decision must be taken on the writer routes, where written members are retracted from a
	// buffer that may have been flushed in between (a padded document moves the flush points around)
	{
		pad := strings.Repeat("p", int(fnvStr(fmt.Sprint(a.Fields))%97))
		wrapped := struct {
			Pad string `json:"pad"`
			V   any    `json:"v"`
		}{pad, val}
		want, err1 := json.Marshal(wrapped, opts...)
		var ow omitWriter
		err2 := json.MarshalWrite(&ow, wrapped, append(append([]json.Options{}, opts...), jsontext.Multiline(true))...)
		var ow2 omitWriter
		e := jsontext.NewEncoder(&ow2, jsontext.SpaceAfterComma(true))
		err3 := json.MarshalEncode(e, wrapped, opts...)
		if err1 == nil {
			wn := ref.Parse(want, ref.Opts{})
			for i, got := range [][]byte{ow.b, ow2.b} {
				gerr := [2]error{err2, err3}[i]
				gn := ref.Parse(bytes.TrimSpace(got), ref.Opts{})
				if gerr != nil || gn == nil || wn == nil || string(ref.Compact(gn)) != string(ref.Compact(wn)) {
					w.Violate("omit-presence", map[string]string{"class": "writer-route-differs", "route": [2]string{"MarshalWrite+Multiline", "MarshalEncode+SpaceAfterComma"}[i]},
						"fields %+v: Marshal gives %s, the writer route gives %s (err=%v)", a.Fields, want, run.Trunc(string(got), 600), gerr)
					break
				}
			}
			w.Count("omit_writer_routes_compared", 2)
		}
	}
	n := ref.Parse(out, ref.Opts{})
	if n == nil || n.Kind != ref.Object {
		w.Violate("omit-marshal-error", map[string]string{"opt": a.Opt}, "fields %+v: output %s is not an object", a.Fields, out)
		return
	}
	present := map[string]*ref.Node{}
	var order []string
	for _, m := range n.Members {
		present[m.Name] = m.Value
		order = append(order, m.Name)
	}
	var wantOrder []string
	var shape []string
	for i, f := range a.Fields {
		vs := specs[i]
		name := fmt.Sprintf("F%d", i)
		oz := strings.Contains(f.Flags, "omitzero") || a.Opt == "omitzero"
		oe := strings.Contains(f.Flags, "omitempty")
		st := strings.Contains(f.Flags, "string")
		empty := vs.empty || (a.Opt == "omitzero" && emptyUnderOmitZero[f.T+"/"+f.V])
		omit := (oz && vs.zero) || (oe && empty)
		node, got := present[name]
		sig := map[string]string{"type": f.T, "value": f.V, "flags": f.Flags, "opt": a.Opt}
		shape = append(shape, f.T+"/"+f.V+"/"+f.Flags)
		switch {
		case omit:
			w.Count("omit_expected_absent", 1)
			if oe && empty && !(oz && vs.zero) {
				w.Count("omitted_by_omitempty_only", 1)
			}
			if oz && vs.zero && !(oe && empty) {
				w.Count("omitted_by_omitzero_only", 1)
			}
			if got {
				w.Violate("omit-presence", sig, "field %s (%s=%s, flags %q, opt %q) must be omitted (zero=%v empty=%v) but the output is %s", name, f.T, f.V, f.Flags, a.Opt, vs.zero, vs.empty, out)
			}
		default:
			w.Count("omit_expected_present", 1)
			if (oz || oe) && (vs.zero || vs.empty) {
				w.Count("kept_although_zero_or_empty_under_other_flag", 1)
			}
			wantOrder = append(wantOrder, name)
			if !got {
				w.Violate("omit-presence", sig, "field %s (%s=%s, flags %q, opt %q) must be present (zero=%v empty=%v) but the output is %s", name, f.T, f.V, f.Flags, a.Opt, vs.zero, vs.empty, out)
				break
			}
			if vs.num != "" {
				raw := string(out[node.Start:node.End])
				want := vs.num
				if st {
					want = `"` + vs.num + `"`
					w.Count("string_option_checked", 1)
				}
				if raw != want {
					w.Violate("string-option", sig, "field %s (%s=%s, flags %q) must be encoded as %s, got %s in %s", name, f.T, f.V, f.Flags, want, raw, out)
				}
			}
		}
	}
	if len(wantOrder) == len(order) && strings.Join(wantOrder, ",") != strings.Join(order, ",") {
		w.Violate("omit-presence", map[string]string{"class": "order"}, "fields %+v: members emitted as %v, declared order is %v", a.Fields, order, wantOrder)
	}
	sort.Strings(shape)
	w.Shape("omit|" + a.Wrap + "|" + a.Opt + "|" + strings.Join(shape, ";"))

	// string option when unmarshaling: the quoted number is accepted and stored exactly
	for i, f := range a.Fields {
		vs := specs[i]
		if vs.num == "" || !strings.Contains(f.Flags, "string") || a.Wrap != "" {
			continue
		}
		p := reflect.New(inner)
		in := fmt.Sprintf(`{"F%d":"%s"}`, i, vs.num)
		if err := json.Unmarshal([]byte(in), p.Interface(), opts...); err != nil || !reflect.DeepEqual(p.Elem().Field(i).Interface(), vs.v) {
			w.Violate("string-option", map[string]string{"type": f.T, "side": "unmarshal"}, "input %s into field of type %s with the string option: err=%v value=%v want %v", in, f.T, err, p.Elem().Field(i).Interface(), vs.v)
		}
		w.Count("string_option_unmarshal_checked", 1)
	}
}

// ---- second oracle: for types both packages can express, v1 mode must resolve like the
// toolchain's classic encoding/json (marshal list and unmarshal target of each probe)

type v1Args struct {
	Type string `json:"type"`
}

func runV1(w *run.W, a *v1Args) {
	t, err := gen.ParseType(a.Type, env)
	if err != nil {
		w.Broken("bad type expression: %v", err)
		return
	}
	w.Eval(1)
	w.Count("v1_types", 1)
	w.Shape("v1|" + a.Type)
	v := reflect.New(t)
	allocate(v.Elem(), false)
	next := 1000
	leaves(v.Elem(), nil, func(idx []int, leaf reflect.Value) {
		next++
		leaf.SetInt(int64(next))
	})
	cb, cerr := stdjson.Marshal(v.Interface())
	vb, verr := jsonv1.Marshal(v.Interface())
	if (cerr == nil) != (verr == nil) || (cerr == nil && string(cb) != string(vb)) {
		w.Violate("v1-classic-differs", map[string]string{"side": "marshal"}, "type %s: classic %s (%v), v1 %s (%v)", a.Type, cb, cerr, vb, verr)
	}
	m := ref.ModelStruct(t, rawValueType)
	mq := ref.ModelStructFirstPathQuirk(t, rawValueType) // classic and v1 share the diamond quirk; only used to classify
	for _, name := range probeNames(m, nil) {
		hits := func(unmarshal func([]byte, any) error) (string, bool) {
			p := reflect.New(t)
			in := fmt.Sprintf(`{%s:%d}`, ref.Quote(name, ref.QuoteOpts{}), probeSentinel)
			err := unmarshal([]byte(in), p.Interface())
			var hit []string
			leaves(p.Elem(), nil, func(idx []int, leaf reflect.Value) {
				if leaf.Int() == probeSentinel {
					hit = append(hit, ref.IndexKey(idx))
				}
			})
			return strings.Join(hit, ","), err == nil
		}
		ch, cok := hits(stdjson.Unmarshal)
		vh, vok := hits(func(b []byte, p any) error { return jsonv1.Unmarshal(b, p) })
		w.Count("v1_probes", 1)
		if ch != "" {
			w.Count("v1_probes_matched", 1)
		}
		if ch != vh || cok != vok {
			// one recognisable class: several fields match the name case-insensitively, none exactly, and the
			// two packages pick different ones (classic: first in depth-first index order, v1: first in breadth-first order)
			class := "other"
			_, amb := m.Lookup(name, true, true)
			if _, amb2 := mq.Lookup(name, true, true); (amb || amb2) && cok && vok && ch != "" && vh != "" && !strings.Contains(ch+vh, ",") {
				// v1 versus classic is property C09's subject, not C15's: C15 only promises the documented v2 rules
				// (under v1's legacy error semantics an ambiguous folded match is documented to pick a field silently).
				// Observed and counted here, reported by the C09 monitor (finding F20).
				// (was the known C09 finding F20 until its repair e340083; with the repair in place v1 and
				// classic agree, and the documented v1 rule "the first declared field is used" is demanded again)
				w.Count("v1_fold_order_divergences", 1)
			}
			w.Violate("v1-classic-differs", map[string]string{"side": "unmarshal", "class": class}, "type %s: name %q is stored into %q by classic encoding/json (ok=%v) and into %q by v1 (ok=%v)", a.Type, name, ch, cok, vh, vok)
		}
	}
}

var v1Tags = []string{"", "", "", `json:"a"`, `json:"A"`, `json:"b"`, `json:"-"`, `json:"ab"`, `json:"AB"`, `json:"a_b"`, `json:"Ab,omitempty"`, `json:"é"`}

func genStructV1(r *rand.Rand, depth int, pool *[]string) string {
	n := 1 + r.IntN(5)
	var fs []string
	usedGo, usedJSON := map[string]bool{}, map[string]bool{}
	for i := 0; i < n; i++ {
		k := r.IntN(100)
		switch {
		case k < 30 && depth < 3:
			var et string
			if len(*pool) > 0 && r.IntN(2) == 0 {
				et = (*pool)[r.IntN(len(*pool))]
			} else {
				et = genStructV1(r, depth+1, pool)
				*pool = append(*pool, et)
			}
			if r.IntN(3) == 0 {
				et = "*" + et
			}
			fs = append(fs, gen.Field(true, fmt.Sprintf("In%d", i), et, ""))
		case k < 40:
			d := [...]string{"E1", "E2", "E4", "*E1", "*E4"}[r.IntN(5)]
			name := strings.TrimPrefix(d, "*")
			if usedGo[name] {
				continue
			}
			usedGo[name] = true
			fs = append(fs, gen.Field(true, name, d, ""))
		default:
			name := goNames[r.IntN(len(goNames))]
			tag := v1Tags[r.IntN(len(v1Tags))]
			jn, ignored := tagName(tag)
			if jn == "" {
				jn = name
			}
			if usedGo[name] || (!ignored && usedJSON[jn]) {
				continue
			}
			usedGo[name] = true
			if !ignored {
				usedJSON[jn] = true
			}
			fs = append(fs, gen.Field(false, name, "int", tag))
		}
	}
	if len(fs) == 0 {
		fs = append(fs, gen.Field(false, "Z", "int", ""))
	}
	return gen.Struct(fs...)
}

// ---- monitor

var M = &run.Monitor{
	ID:    "C15",
	Level: "exploration",
	Rule: "struct type graphs (depth <= 4) from reflect.StructOf: int leaves with tag mixes (explicit names colliding across and within depths, '-', case:ignore/strict, delimiter variants), " +
		"embedding via the embed option, via Go embedding of generated and declared structs (by value, by pointer, unexported, nested), reuse of struct types along several paths, one optional fallback, " +
		"families with > 64 and > 128 fields; option sets {default, MatchCaseInsensitiveNames, +MatchCaseSensitiveDelimiter, RejectUnknownMembers, OmitZeroStructFields}; marshal list and per-name unmarshal target " +
		"compared with the documented-rules model; omitzero/omitempty/string driven through a per-type table of zero/empty/non-empty values incl. types with IsZero and marshal methods. distinct = type expression (resolve) / multiset of (type,value,flags) (omit)",
	Assumptions: []string{
		"ref.ModelStruct is a reading of the package documentation (breadth-first over every embedding path, shallowest wins, unique explicit name breaks a tie, else all dropped, depth-first emission)",
		"case-insensitive = Unicode simple case folding rune by rune, '_' and '-' ignored unless MatchCaseSensitiveDelimiter (self-tested against strings.EqualFold)",
		"the zero/empty columns of the value table are the documented omitzero/omitempty conditions stated by hand per value",
		"struct types whose field list is empty after cancellation may or may not be an error (the documentation is unclear); they are not judged",
	},
	Floors: func(c map[string]int64, tier string) []string {
		var u []string
		need := func(k string, n int64) {
			if c[k] < n {
				u = append(u, fmt.Sprintf("%s=%d < %d", k, c[k], n))
			}
		}
		need("types", 1500)
		need("resolved_by_depth", 1000)
		need("resolved_by_tag", 100)
		need("names_dropped", 300)
		need("probe_ambiguous", 100)
		need("probe_matched_by_folding", 1000)
		need("probe_to_fallback", 200)
		need("probe_unknown_rejected", 200)
		need("types_over_64_fields", 10)
		need("types_over_128_fields", 3)
		need("dup_probes_beyond_64", 15)
		need("members_absent_nil_embedded_pointer", 100)
		need("omitted_by_omitempty_only", 300)
		need("omitted_by_omitzero_only", 300)
		need("string_option_checked", 150)
		need("v1_probes_matched", 2000)
		return u
	},
	SelfTest: selfTest,
}

func selfTest() error {
	// FoldEqual against strings.EqualFold (strict delimiters) and against the same after stripping
	names := []string{"ab", "AB", "aB", "a_b", "A-B", longS, "s", "S", "K", "k", kelvin, "é", "É", "x_", "_X", "ß", "ss", "İ", "i", "I", "ı", "σ", "ς", "Σ"}
	strip := strings.NewReplacer("_", "", "-", "")
	for _, a := range names {
		for _, b := range names {
			if ref.FoldEqual(a, b, true) != strings.EqualFold(a, b) {
				return fmt.Errorf("FoldEqual(%q,%q,strict) != strings.EqualFold", a, b)
			}
			if ref.FoldEqual(a, b, false) != strings.EqualFold(strip.Replace(a), strip.Replace(b)) {
				return fmt.Errorf("FoldEqual(%q,%q) != EqualFold after stripping delimiters", a, b)
			}
		}
	}
	// the model against the toolchain's encoding/json on types both can express without the
	// known diamond shape: names and order of the emitted members
	type T1 struct {
		E1
		C int `json:"A"`
		D int `json:"-"`
	}
	type T2 struct {
		E4
		E2
		Q int
	}
	type T3 struct {
		*E1
		E2
	}
	for _, v := range []any{T1{E1: E1{1, 2, 3}, C: 4}, T2{E4: E4{E1{1, 2, 3}, 4}, E2: E2{A: 5, C: 6}, Q: 7}, T3{E1: &E1{1, 2, 3}, E2: E2{A: 4, C: 5}}, E5{E1: &E1{1, 2, 3}, e3: e3{4, 5}, C: 6}} {
		b, err := stdjson.Marshal(v)
		if err != nil {
			return err
		}
		n := ref.Parse(b, ref.Opts{AllowDup: true})
		var got []string
		for _, m := range n.Members {
			got = append(got, m.Name)
		}
		m := ref.ModelStruct(reflect.TypeOf(v), rawValueType)
		var want []string
		for _, f := range m.Fields {
			want = append(want, f.Name)
		}
		if strings.Join(got, ",") != strings.Join(want, ",") {
			return fmt.Errorf("model disagrees with encoding/json on %T: model %v, classic %v", v, want, got)
		}
	}
	return nil
}

func main() {
	run.Def(M, "resolve", runResolve)
	run.Def(M, "omit", runOmit)
	run.Def(M, "v1", runV1)
	run.Def(M, "legacy-continue", runLegacyContinue)
	run.Def(M, "reuse-decoder", runReuseDecoder)
	M.Gen = generate
	run.Main(M)
}

// ---- generators

var goNames = []string{"A", "B", "C", "D", "E", "X", "Y", "Ab", "AB", "A_B", "S", "K"}
var leafTags = []string{"", "", "", "", "", `json:"a"`, `json:"b"`, `json:"A"`, `json:"B"`, `json:"-"`, `json:",omitzero"`, `json:"a_b"`, `json:"A-B,case:ignore"`,
	`json:"ab,case:strict"`, `json:"AB,case:ignore"`, `json:"ab"`, `json:"a,case:ignore"`, `json:"A,case:strict"`, `json:"é"`, `json:"É,case:ignore"`, `json:"ſ"`, `json:"s,case:ignore"`,
	`json:"k"`, `json:"K,case:ignore"`, `json:"C,omitempty"`, `json:"x"`, `json:"X,case:ignore"`, `json:"d"`, `json:"a b"`}

func init() {
	leafTags = append(leafTags, `json:"`+kelvin+`"`, `json:"`+kelvin+`,case:ignore"`, `json:"a`+longS+`,case:ignore"`, `json:"AS"`)
	// cased characters that are not letters (number-letters, enclosed alphanumerics, a combining mark): simple case folding applies to them too
	leafTags = append(leafTags, "json:\"ch-\u2167,case:ignore\"", "json:\"\u24b6b,case:ignore\"", "json:\"\u2177\"", "json:\"x\u0345,case:ignore\"", "json:\"\u24d0B\"")
}

var declared = []string{"E1", "E2", "E4", "E5", "E6", "*E1", "*E4", "*E5"}

type genState struct {
	pool        []string
	hasFallback bool
}

func tagName(tag string) (string, bool) {
	if tag == "" {
		return "", false
	}
	s, _ := reflect.StructTag(tag).Lookup("json")
	if s == "-" {
		return "", true // ignored
	}
	return strings.Split(s, ",")[0], false
}

func genStruct(r *rand.Rand, depth int, st *genState) string {
	n := 1 + r.IntN(5)
	var fs []string
	usedGo, usedJSON := map[string]bool{}, map[string]bool{}
	for i := 0; i < n; i++ {
		k := r.IntN(100)
		switch {
		case k < 30 && depth < 3:
			var et string
			if len(st.pool) > 0 && r.IntN(2) == 0 {
				et = st.pool[r.IntN(len(st.pool))]
			} else {
				et = genStruct(r, depth+1, st)
				st.pool = append(st.pool, et)
			}
			if r.IntN(3) == 0 {
				et = "*" + et
			}
			name := fmt.Sprintf("In%d", i)
			if r.IntN(4) == 0 {
				fs = append(fs, gen.Field(true, name, et, "")) // Go embedding of an unnamed struct type
			} else {
				fs = append(fs, gen.Field(false, name, et, `json:",embed"`))
			}
		case k < 40:
			d := declared[r.IntN(len(declared))]
			name := strings.TrimPrefix(d, "*")
			if usedGo[name] {
				continue
			}
			usedGo[name] = true
			tag := ""
			if r.IntN(5) == 0 {
				tag = `json:"` + strings.ToLower(name) + `"`
				if usedJSON[strings.ToLower(name)] {
					continue
				}
				usedJSON[strings.ToLower(name)] = true
			}
			fs = append(fs, gen.Field(true, name, d, tag))
		case k < 44 && !st.hasFallback:
			st.hasFallback = true
			ft := [...]string{"map[string]int", "map[string]int", "value", "*map[string]int"}[r.IntN(4)]
			fs = append(fs, gen.Field(false, fmt.Sprintf("Rest%d", i), ft, `json:",embed"`))
		default:
			name := goNames[r.IntN(len(goNames))]
			tag := leafTags[r.IntN(len(leafTags))]
			jn, ignored := tagName(tag)
			if jn == "" {
				jn = name
			}
			if usedGo[name] || (!ignored && usedJSON[jn]) {
				continue
			}
			usedGo[name] = true
			if !ignored {
				usedJSON[jn] = true
			}
			fs = append(fs, gen.Field(false, name, "int", tag))
		}
	}
	if len(fs) == 0 {
		fs = append(fs, gen.Field(false, "Z", "int", ""))
	}
	return gen.Struct(fs...)
}

// wideStruct: many fields, part of them shadowed by / tied with fields of embedded structs.
func wideStruct(r *rand.Rand, n int) string {
	var top, e1, e2 []string
	for i := 0; i < n; i++ {
		name := fmt.Sprintf("F%03d", i)
		switch r.IntN(8) {
		case 0: // only in both embedded structs: tie, dropped
			e1 = append(e1, gen.Field(false, name, "int", ""))
			e2 = append(e2, gen.Field(false, name, "int", ""))
		case 1: // tie broken by a tag
			e1 = append(e1, gen.Field(false, name, "int", `json:"`+name+`"`))
			e2 = append(e2, gen.Field(false, name, "int", ""))
		case 2: // shadowed by the top level
			top = append(top, gen.Field(false, name, "int", ""))
			e1 = append(e1, gen.Field(false, name, "int", ""))
		case 3:
			top = append(top, gen.Field(false, name, "int", `json:"`+strings.ToLower(name)+`,case:ignore"`))
		case 4:
			e2 = append(e2, gen.Field(false, name, "int", ""))
		default:
			top = append(top, gen.Field(false, name, "int", ""))
		}
	}
	if len(e1) > 0 {
		top = append(top, gen.Field(false, "In1", gen.Struct(e1...), `json:",embed"`))
	}
	if len(e2) > 0 {
		top = append(top, gen.Field(false, "In2", "*"+gen.Struct(e2...), `json:",embed"`))
	}
	return gen.Struct(top...)
}

// omitWriter is an opaque io.Writer (not a *bytes.Buffer).
type omitWriter struct{ b []byte }

func (o *omitWriter) Write(p []byte) (int, error) { o.b = append(o.b, p...); return len(p), nil }

func fnvStr(s string) uint64 {
	var h uint64 = 1469598103934665603
	for i := 0; i < len(s); i++ {
		h = (h ^ uint64(s[i])) * 1099511628211
	}
	return h
}

func generate(w *run.W) {
	lci := 0
	genLegacyContinue(w, func() bool { lci++; return w.Mine(lci) })
	genReuseDecoder(w, func() bool { lci++; return w.Mine(lci) })
	nb := w.Pick(1200, 6000)
	for b := 0; b < nb; b++ {
		if !w.Mine(b) {
			continue
		}
		r := w.Rand("resolve", b)
		for i := 0; i < 50; i++ {
			st := &genState{}
			a := &resolveArgs{Type: genStruct(r, 0, st), Opt: optNames[r.IntN(len(optNames))], Alloc: r.IntN(3) > 0}
			w.Do("resolve", a)
			if w.WantSample() && len(a.Type) > 120 && len(a.Type) < 400 {
				w.Sample(a)
			}
		}
	}
	for i, n := range []int{60, 63, 64, 65, 66, 70, 100, 127, 128, 129, 130, 140, 200, 260} {
		for rep := 0; rep < w.Pick(3, 12); rep++ {
			if !w.Mine(i*31 + rep) {
				continue
			}
			r := w.Rand("wide", n, rep)
			w.Do("resolve", &resolveArgs{Type: wideStruct(r, n), Opt: optNames[r.IntN(len(optNames))], Alloc: rep%2 == 0})
		}
	}
	for b := 0; b < w.Pick(100, 1000); b++ {
		if !w.Mine(b) {
			continue
		}
		r := w.Rand("v1", b)
		for i := 0; i < 25; i++ {
			var pool []string
			w.Do("v1", &v1Args{Type: genStructV1(r, 0, &pool)})
		}
	}
	no := w.Pick(1600, 8000)
	flagSets := []string{"", "", "omitzero", "omitempty", "omitzero,omitempty", "string", "omitzero,string", "omitempty,string"}
	for b := 0; b < no; b++ {
		if !w.Mine(b) {
			continue
		}
		r := w.Rand("omit", b)
		for i := 0; i < 25; i++ {
			a := &omitArgs{Opt: [...]string{"", "", "omitzero"}[r.IntN(3)], Wrap: [...]string{"", "", "embed", "ptr-embed"}[r.IntN(4)]}
			for k := 1 + r.IntN(6); k > 0; k-- {
				ts := &typeTable[r.IntN(len(typeTable))]
				vs := ts.vals[r.IntN(len(ts.vals))]
				fl := flagSets[r.IntN(len(flagSets))]
				if vs.num == "" {
					fl = strings.TrimSuffix(strings.ReplaceAll(fl, "string", ""), ",")
				}
				a.Fields = append(a.Fields, omitField{T: ts.key, V: vs.key, Flags: fl})
			}
			w.Do("omit", a)
		}
	}
}

package main

import (
	"bytes"
	stdjson "encoding/json"
	"fmt"
	"io"
	"math"
	"strings"

	"verif/gen"
	"verif/ref"
	"verif/run"
)

func sp(s string) *string { return &s }

// bs keeps escaped spellings out of reach of tools that rewrite backslash-u sequences.
const bs = "\\"

// optSets are the option sets of the exhaustive blocks and targeted families.
var optSets = []ref.EncOpts{
	{},
	{AllowDup: true},
	{AllowInvUTF: true},
	{Multiline: true},
	{Colon: 1, Comma: 1},
	{Reorder: true, CanonInts: true, CanonFloats: true},
	{HTML: true, JS: true},
	{Preserve: true},
	{Indent: sp("  "), Prefix: sp(" "), Comma: 1},
	{AllowDup: true, AllowInvUTF: true, Preserve: true, HTML: true},
	{Multiline: true, Reorder: true, Colon: -1},
}

// alphabet of the exhaustive enumeration: every token kind, "", names that collide
// by different spellings, ill-formed UTF-8, raw values valid / truncated / with trailing
// garbage / duplicate-bearing / needing re-spelling, the zero Token.
var alphabet = []ref.EncCall{
	{K: "{"}, {K: "}"}, {K: "["}, {K: "]"},
	{K: "s", S: []byte("a")},
	{K: "v", S: []byte(`"` + bs + `u0061"`)}, // "a" by another spelling
	{K: "n"},
	{K: "i", N: 1},
	{K: "s", S: []byte("<a\xff")},
	{K: "v", S: []byte(" {\"b\":1,\"a\":[\"< \"]} ")},
	{K: "v", S: []byte(`{"b":1,"` + bs + `u0062":2}`)}, // duplicate by another spelling
	{K: "v", S: []byte(`[1,`)},
	{K: "v", S: []byte(`"b" x`)},
	{K: "v", S: []byte(` "b" `)},
	{K: "z"},
	{K: "d", N: math.Float64bits(math.NaN())},
	{K: "rs", S: []byte(`"` + bs + `u0062"`)},      // raw token, "b" by another spelling
	{K: "v", S: []byte(`["` + bs + `ud800",1.0]`)}, // lone surrogate escape
	{K: "s", S: []byte("")},
}

// contexts are fixed prefixes put before the exhaustively enumerated part.
var contexts = [][]ref.EncCall{
	{},
	{{K: "{"}},
	{{K: "["}},
	{{K: "{"}, {K: "s", S: []byte("k")}},
	{{K: "{"}, {K: "s", S: []byte("a")}, {K: "i", N: 1}},
	{{K: "["}, {K: "{"}},
}

type blockArgs struct {
	Opt    int    `json:"opt"`    // index into optSets
	Ctx    int    `json:"ctx"`    // index into contexts
	First  int    `json:"first"`  // first enumerated symbol
	Len    int    `json:"len"`    // enumerated symbols per sequence (including First)
	Writer string `json:"writer"` // "opaque" | "buffer"
}

type seqArgs struct {
	Opt    ref.EncOpts   `json:"opt"`
	Writer string        `json:"writer"`
	Calls  []ref.EncCall `json:"calls"`
	// Ptr selects where StackPointer is observed: 0 after every call, 1 only at the end,
	// n>1 after about every n-th call (a fixed pseudo-random subset, see execSeq)
	Ptr int `json:"ptr"`
}

type towerArgs struct {
	Depth  int         `json:"depth"`
	Mix    string      `json:"mix"` // "arr" | "obj" | "alt"
	Opt    ref.EncOpts `json:"opt"`
	Writer string      `json:"writer"`
}

type nsArgs struct {
	Members int         `json:"members"`
	NameLen int         `json:"name_len"`
	Spell   string      `json:"spell"` // "same" | "escaped" | "value"
	Opt     ref.EncOpts `json:"opt"`
	Writer  string      `json:"writer"`
}

var gstats = &stats{shapes: map[int]struct{}{}, shapesSeen: map[int]struct{}{}}

func execBlock(w *run.W, a *blockArgs) {
	r := newRunner(w, gstats)
	r.configure(optSets[a.Opt], a.Writer, true)
	ctx := contexts[a.Ctx]
	c := len(ctx)
	k := a.Len - 1 // free suffix symbols
	calls := make([]ref.EncCall, c+a.Len)
	libs := make([]libCall, c+a.Len)
	alibs := make([]libCall, len(alphabet))
	for i, s := range alphabet {
		l, err := toLib(s)
		if err != nil {
			w.Broken("alphabet symbol %d: %v", i, err)
			return
		}
		alibs[i] = l
	}
	for i, s := range ctx {
		calls[i] = s
		libs[i], _ = toLib(s)
	}
	calls[c], libs[c] = alphabet[a.First], alibs[a.First]
	d := make([]int, k)
	n := int64(0)
	for {
		for j := 0; j < k; j++ {
			calls[c+1+j], libs[c+1+j] = alphabet[d[j]], alibs[d[j]]
		}
		// a prefix is compared when it is met for the first time: all later digits are 0
		z := 0
		for z < k && d[k-1-z] == 0 {
			z++
		}
		from := c + k - z
		if z == k {
			from = 0
		}
		okSeq := false
		r.guarded(func() {
			okSeq = r.runSeq(calls, libs, func(i int) int {
				if i >= from {
					return 2
				}
				return 0
			})
		})
		if !okSeq && w.Replay {
			break
		}
		n++
		if n%20000 == 0 {
			w.Beat()
			gstats.flush(w)
		}
		// next suffix
		j := k - 1
		for j >= 0 {
			d[j]++
			if d[j] < len(alphabet) {
				break
			}
			d[j] = 0
			j--
		}
		if j < 0 {
			break
		}
	}
	w.Count("exhaustive_sequences", n)
	gstats.flush(w)
}

func execSeq(w *run.W, a *seqArgs) {
	r := newRunner(w, gstats)
	r.configure(a.Opt, a.Writer, false)
	r.guarded(func() { r.runSeqRandom(a) })
	w.Count("random_sequences", 1)
	gstats.flush(w)
}

func (r *runner) runSeqRandom(a *seqArgs) {
	r.runSeq(a.Calls, nil, func(i int) int {
		switch {
		case a.Ptr == 0:
			return 2
		case a.Ptr == 1:
			return 1
		case (uint64(i)*2654435761+uint64(a.Ptr)*40503)>>7%uint64(a.Ptr) == 0:
			return 2
		}
		return 1
	})
}

func towerCalls(a *towerArgs) []ref.EncCall {
	m := ref.NewEncModel(a.Opt)
	var calls []ref.EncCall
	push := func(c ref.EncCall) {
		calls = append(calls, c)
		m.Apply(c)
	}
	for i := 0; i < a.Depth; i++ {
		obj := a.Mix == "obj" || (a.Mix == "alt" && i%2 == 0)
		if m.NeedName() {
			push(ref.EncCall{K: "s", S: []byte("a")})
		}
		if obj {
			push(ref.EncCall{K: "{"})
		} else {
			push(ref.EncCall{K: "["})
		}
	}
	probes := []ref.EncCall{
		{K: "v", S: []byte(`[[[]]]`)}, {K: "v", S: []byte(`[{"x":[]}]`)}, {K: "v", S: []byte(`[[]]`)}, {K: "v", S: []byte(`{"x":{}}`)},
		{K: "["}, {K: "v", S: []byte(`[[]]`)}, {K: "v", S: []byte(`{"x":[]}`)}, {K: "v", S: []byte(`[]`)}, {K: "v", S: []byte(`{}`)},
		{K: "{"}, {K: "v", S: []byte(`"n1"`)}, {K: "v", S: []byte(`[1]`)}, {K: "v", S: []byte(`{}`)}, {K: "["}, {K: "{"}, {K: "n"},
		{K: "v", S: []byte(`"n2"`)}, {K: "v", S: []byte(` 1 `)}, {K: "}"}, {K: "["}, {K: "{"}, {K: "v", S: []byte(`[]`)}, {K: "v", S: []byte(`{}`)}, {K: "v", S: []byte(`"s"`)},
		{K: "]"}, {K: "]"}, {K: "}"}, {K: "v", S: []byte(`[[]]`)}, {K: "v", S: []byte(`[[[]]]`)},
	}
	for j, p := range probes {
		if m.NeedName() && p.K != "}" && !(p.K == "v" && p.S[0] == '"') {
			push(ref.EncCall{K: "s", S: []byte(fmt.Sprint("p", j))})
		}
		push(p)
	}
	return calls
}

func execTower(w *run.W, a *towerArgs) {
	r := newRunner(w, gstats)
	r.configure(a.Opt, a.Writer, false)
	calls := towerCalls(a)
	build := len(calls) - 45
	r.guarded(func() {
		r.runSeq(calls, nil, func(i int) int {
			if i >= build || i%997 == 0 {
				return 2
			}
			return 0
		})
	})
	w.Count("towers", 1)
	gstats.flush(w)
}

func nsCalls(a *nsArgs) []ref.EncCall {
	pad := strings.Repeat("n", max(0, a.NameLen-4))
	name := func(i int) string { return fmt.Sprintf("%s%04d", pad, i) }
	calls := []ref.EncCall{{K: "{"}}
	for i := 0; i < a.Members; i++ {
		if i%2 == 0 {
			calls = append(calls, ref.EncCall{K: "s", S: []byte(name(i))})
		} else {
			calls = append(calls, ref.EncCall{K: "v", S: []byte(`"` + name(i) + `"`)})
		}
		calls = append(calls, ref.EncCall{K: "i", N: uint64(i)})
	}
	spell := func(s string) ref.EncCall {
		esc := fmt.Sprintf(`"%su%04x%s"`, bs, s[0], s[1:])
		switch a.Spell {
		case "escaped":
			return ref.EncCall{K: "rs", S: []byte(esc)}
		case "value":
			return ref.EncCall{K: "v", S: []byte(" " + esc)}
		}
		return ref.EncCall{K: "s", S: []byte(s)}
	}
	for _, at := range []int{0, 1, a.Members / 2, a.Members - 2, a.Members - 1} {
		if at < 0 || at >= a.Members {
			continue
		}
		calls = append(calls, spell(name(at)))
		if a.Opt.AllowDup {
			calls = append(calls, ref.EncCall{K: "n"})
		}
	}
	calls = append(calls,
		ref.EncCall{K: "s", S: []byte("fresh1")},
		ref.EncCall{K: "v", S: []byte(`{"x":1,"x":2}`)}, // rejected unless duplicates are allowed
		ref.EncCall{K: "n"},
	)
	if a.Opt.AllowDup {
		calls = append(calls, ref.EncCall{K: "s", S: []byte("fresh1b")}, ref.EncCall{K: "n"})
	}
	calls = append(calls,
		spell(name(0)),
		ref.EncCall{K: "s", S: []byte("fresh2")},
	)
	if a.Opt.AllowDup {
		calls = append(calls, ref.EncCall{K: "{"}, ref.EncCall{K: "}"}, ref.EncCall{K: "s", S: []byte("fresh2")})
	}
	calls = append(calls,
		ref.EncCall{K: "{"},
		spell(name(0)), // a fresh namespace: accepted
		ref.EncCall{K: "i", N: 7},
		spell(name(0)),
		ref.EncCall{K: "}"},
		ref.EncCall{K: "s", S: []byte("fresh2")},
		spell(name(a.Members-1)),
		ref.EncCall{K: "s", S: []byte("fresh3")},
		ref.EncCall{K: "t"},
		ref.EncCall{K: "}"},
	)
	return calls
}

func execNS(w *run.W, a *nsArgs) {
	r := newRunner(w, gstats)
	r.configure(a.Opt, a.Writer, false)
	calls := nsCalls(a)
	r.guarded(func() {
		r.runSeq(calls, nil, func(i int) int {
			if i >= 2*a.Members-4 || i%16 == 0 {
				return 2
			}
			return 1
		})
	})
	w.Count("namespace_family", 1)
	gstats.flush(w)
}

// ---------------------------------------------------------------------------------
// oracle self-test: the reference printer against encoding/json.Indent/Compact, the
// grammar part of the model against the token reader of encoding/json.

func selfTest() error {
	// the alphabet must really contain escaped spellings (they are easy to lose when
	// source text passes through tools that decode backslash-u sequences)
	for _, i := range []int{5, 10, 16, 17} {
		if !bytes.Contains(alphabet[i].S, []byte{'\\', 'u'}) {
			return fmt.Errorf("alphabet symbol %d %q lost its escaped spelling", i, alphabet[i].S)
		}
	}
	r := run.SelfRand(6)
	cfg := &gen.TextCfg{MaxDepth: 4, MaxWidth: 4, WS: true, DupPercent: 5}
	for i := 0; i < 5000; i++ {
		text := bytes.TrimRight(gen.Value(r, cfg), " \t\r\n") // Indent copies trailing white space
		if !stdjson.Valid(text) {
			continue
		}
		tree := ref.Parse(text, ref.Opts{AllowDup: true, AllowInvalidUTF8: true})
		if tree == nil {
			return fmt.Errorf("reference parser rejects %q, encoding/json accepts", text)
		}
		prefix := []string{"", " ", "\t"}[r.IntN(3)]
		indent := []string{"", " ", "\t", "  "}[r.IntN(4)]
		var bufC, bufI bytes.Buffer
		if err := stdjson.Compact(&bufC, text); err != nil {
			return err
		}
		if err := stdjson.Indent(&bufI, text, prefix, indent); err != nil {
			return err
		}
		c1, c2 := bufC.Bytes(), bufI.Bytes()
		var cb, ib strings.Builder
		cb.WriteString(ref.EncFormatTree(tree, ref.EncLayout{}))
		ib.WriteString(ref.EncFormatTree(tree, ref.EncLayout{Multiline: true, Indent: indent, Prefix: prefix, Colon: true}))
		if cb.String() != string(c1) {
			return fmt.Errorf("reference printer (compact) %q != encoding/json.Compact %q", cb.String(), c1)
		}
		if ib.String() != string(c2) {
			return fmt.Errorf("reference printer (multiline %q,%q) %q != encoding/json.Indent %q", prefix, indent, ib.String(), c2)
		}
	}
	// grammar: token sequences, ground truth = encoding/json's token reader on the text
	spell := map[string]string{"n": "null", "t": "true", "f": "false", "{": "{", "}": "}", "[": "[", "]": "]", "i": "1", "s": `"s"`}
	kinds := []string{"n", "t", "{", "}", "[", "]", "i", "s", "s"}
	syntaxErr := func(text string) bool {
		dec := stdjson.NewDecoder(strings.NewReader(text))
		for {
			_, err := dec.Token()
			if err == io.EOF {
				return false
			}
			if err != nil {
				return true
			}
		}
	}
	for i := 0; i < 20000; i++ {
		m := ref.NewEncModel(ref.EncOpts{AllowDup: true})
		txt := ""
		last := byte(0) // last significant byte written, 0 at a top-level boundary
		for j := 0; j < 12; j++ {
			k := kinds[r.IntN(len(kinds))]
			c := ref.EncCall{K: k, N: 1, S: []byte("s")}
			pos := m.Position()
			reason := m.Apply(c)
			if reason == "" {
				sep := ","
				switch {
				case k == "}" || k == "]" || last == '{' || last == '[':
					sep = ""
				case last == 0:
					sep = " "
				case pos == "object-value":
					sep = ":"
				}
				txt += sep + spell[k]
				last = txt[len(txt)-1]
				if m.Depth() == 0 {
					last = 0
				}
				if syntaxErr(txt) {
					return fmt.Errorf("model accepts a token sequence that encoding/json's token reader rejects: %q", txt)
				}
			} else {
				for _, sep := range []string{" ", ",", ":"} {
					if !syntaxErr(txt + sep + spell[k]) {
						return fmt.Errorf("model rejects %s (%s) after %q but encoding/json's token reader accepts %q", k, reason, txt, txt+sep+spell[k])
					}
				}
			}
		}
		for _, c := range m.Closers() {
			if m.Apply(c) != "" {
				return fmt.Errorf("model rejects its own closers after %q", txt)
			}
		}
		for _, line := range strings.Split(strings.TrimSuffix(string(m.Out()), "\n"), "\n") {
			if line != "" && !stdjson.Valid([]byte(line)) {
				return fmt.Errorf("model output line %q is not valid JSON", line)
			}
		}
	}
	return nil
}

// ---------------------------------------------------------------------------------

var M = &run.Monitor{
	ID:    "C06",
	Level: "exploration",
	Rule: "call sequences over WriteToken/WriteValue: (a) exhaustive — every sequence of 4 symbols (thorough: 5 after the three shortest contexts) of a 19-symbol call alphabet " +
		"(all token kinds, \"\", names colliding by different spellings, ill-formed UTF-8, raw values valid/truncated/with trailing garbage/duplicate-bearing/needing re-spelling, zero Token) " +
		"after each of 6 context prefixes under 11 option sets; (b) random sequences of 1-40 calls with random option sets, big tokens around flush thresholds, both writer kinds; " +
		"(c) depth towers 9997-10000 probed with tokens and nested raw values; (d) objects of 2-130 names around the 64-name/1KiB namespace switch probed with re-spelled duplicates. " +
		"Every sequence is finally closed so that the complete output is compared. distinct = (depth class, position, call class, accept/reject reason) reached",
	Assumptions: []string{
		"reference model verif/ref.EncModel (written from RFC 8259/7493 and the option documentation; its printer is self-tested against encoding/json.Indent/Compact, its grammar against encoding/json's token reader)",
		"strings are expected in minimal spelling (RFC 8785 3.2.2.2 + EscapeForHTML/JS), raw strings under PreserveRawStrings verbatim except the characters selected by the escape options",
		"inside a top-level value the delivered bytes of real and shadow encoder need only be prefix-related (flush timing is not part of the contract); they are compared exactly at depth 0 and after closing every sequence",
		"ReorderRawObjects is not combined with AllowDuplicateNames (order of equal names unspecified)",
	},
	Floors: func(c map[string]int64, tier string) []string {
		var u []string
		need := func(k string, n int64) {
			if c[k] < n {
				u = append(u, fmt.Sprintf("%s=%d < %d", k, c[k], n))
			}
		}
		need("calls", 1000000)
		need("accepted", 300000)
		need("rejected", 300000)
		need("seq_accept_after_reject", 100000)
		need("depth0_byte_compares", 50000)
		need("finalized", 50000)
		need("state_compares", 300000)
		need("exhaustive_sequences", 300000)
		need("random_sequences", 1000)
		need("towers", 1)
		need("namespace_family", 50)
		for _, r := range []string{ref.RejNeedName, ref.RejDupName, ref.RejMismatch, ref.RejMissingValue, ref.RejInvalidUTF8, ref.RejInvalidRaw, ref.RejRawDup, ref.RejRawUTF8, ref.RejZeroToken} {
			need("reject_"+r, 1000)
		}
		need("reject_"+ref.RejMaxDepth, 15)
		need("pointer_compares", 300000)
		if c["hooks_available"] > 0 {
			need("internal_stack_checks", 300000)
		}
		return u
	},
	SelfTest: selfTest,
}

func main() {
	run.Def(M, "block", execBlock)
	run.Def(M, "seq", execSeq)
	run.Def(M, "tower", execTower)
	run.Def(M, "namespace", execNS)
	M.Gen = generate
	run.Main(M)
}

func generate(w *run.W) {
	ci := 0
	mine := func() bool { ci++; return w.Mine(ci) }

	// (c) towers first (they are the longest single cases)
	for _, d := range []int{9997, 9998, 9999, 10000} {
		for mi, mix := range []string{"arr", "obj", "alt"} {
			for oi, o := range []ref.EncOpts{{}, {Colon: 1, Comma: 1}, {AllowDup: true, AllowInvUTF: true}} {
				if !w.Thorough() && (mi+oi+d)%3 != 0 {
					continue
				}
				if mine() {
					w.Do("tower", &towerArgs{Depth: d, Mix: mix, Opt: o, Writer: []string{"opaque", "buffer"}[(d+mi+oi)%2]})
				}
			}
		}
	}

	// (d) namespace family
	for _, members := range []int{2, 8, 31, 32, 33, 55, 60, 63, 64, 65, 66, 70, 75, 100, 130} {
		for _, nameLen := range []int{4, 16, 40} {
			for si, spell := range []string{"same", "escaped", "value"} {
				for oi, o := range []ref.EncOpts{{}, {AllowDup: true}, {AllowInvUTF: true}, {Multiline: true}} {
					if mine() {
						w.Do("namespace", &nsArgs{Members: members, NameLen: nameLen, Spell: spell, Opt: o, Writer: []string{"opaque", "buffer"}[(members+si+oi)%2]})
					}
				}
			}
		}
	}

	// (b) random sequences
	nb := w.Pick(400, 4000)
	for batch := 0; batch < nb; batch++ {
		if !w.Mine(batch) {
			continue
		}
		r := w.Rand("seq", batch)
		for k := 0; k < 50; k++ {
			o := gen.RandEncOpts(r)
			big := r.IntN(3) == 0
			n := 1 + r.IntN(40)
			if big {
				n = 10 + r.IntN(50)
			}
			a := &seqArgs{Opt: o, Writer: []string{"opaque", "buffer"}[r.IntN(2)], Calls: gen.EncSeq(r, o, n, big), Ptr: []int{0, 1, 1, 3, 7}[r.IntN(5)]}
			w.Do("seq", a)
			if w.WantSample() && n < 12 {
				var ss []string
				for _, c := range a.Calls {
					ss = append(ss, c.String())
				}
				w.Sample(map[string]any{"exec": "seq", "opts": o.Key(), "writer": a.Writer, "calls": ss})
			}
		}
	}

	// (a) exhaustive blocks
	bi := 0
	for oi := range optSets {
		for ci := range contexts {
			l := 4
			if w.Thorough() && ci < 3 {
				l = 5 // the three one-call-or-less contexts get the longer enumeration
			}
			for first := range alphabet {
				bi++
				if w.Mine(bi) {
					w.Do("block", &blockArgs{Opt: oi, Ctx: ci, First: first, Len: l, Writer: []string{"opaque", "buffer"}[bi%2]})
				}
			}
		}
	}
}

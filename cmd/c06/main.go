// C06 — the Encoder enforces the grammar; a rejected call has no effect.
//
// Three oracles run after every WriteToken/WriteValue call of a sequence:
//
//	(a) iff: a reference push-down model (verif/ref, EncModel) predicts accept/reject;
//	(b) no effect: a shadow encoder receives only the accepted calls; OutputOffset,
//	    StackDepth, every StackIndex, StackPointer of real and shadow stay equal, and the
//	    bytes delivered are equal whenever the depth is zero (prefix-compatible in between:
//	    when the encoder flushes inside a value is not part of the contract);
//	(c) whenever the depth is zero the delivered bytes are exactly the reference
//	    serialization of the accepted calls under the options, one newline per value.
package main

import (
	"bytes"
	"fmt"
	"math"
	"regexp"
	"strings"

	"github.com/go-json-experiment/json/jsontext"

	"verif/hooks"
	"verif/ref"
	"verif/run"
)

// ---------------------------------------------------------------------------------
// translation of case descriptions into library calls

func toOptions(o ref.EncOpts) []jsontext.Options {
	var opts []jsontext.Options
	add := func(b bool, f func(bool) jsontext.Options) {
		if b {
			opts = append(opts, f(true))
		}
	}
	add(o.AllowDup, jsontext.AllowDuplicateNames)
	add(o.AllowInvUTF, jsontext.AllowInvalidUTF8)
	add(o.Multiline, jsontext.Multiline)
	if o.Indent != nil {
		opts = append(opts, jsontext.WithIndent(*o.Indent))
	}
	if o.Prefix != nil {
		opts = append(opts, jsontext.WithIndentPrefix(*o.Prefix))
	}
	if o.Colon != 0 {
		opts = append(opts, jsontext.SpaceAfterColon(o.Colon > 0))
	}
	if o.Comma != 0 {
		opts = append(opts, jsontext.SpaceAfterComma(o.Comma > 0))
	}
	add(o.HTML, jsontext.EscapeForHTML)
	add(o.JS, jsontext.EscapeForJS)
	add(o.Preserve, jsontext.PreserveRawStrings)
	add(o.CanonInts, jsontext.CanonicalizeRawInts)
	add(o.CanonFloats, jsontext.CanonicalizeRawFloats)
	add(o.Reorder, jsontext.ReorderRawObjects)
	return opts
}

// libCall is an EncCall translated once into what is handed to the Encoder.
type libCall struct {
	isValue bool
	tok     jsontext.Token
	val     jsontext.Value
}

func rawToken(lit []byte) (jsontext.Token, error) {
	// a "raw" token is what a Decoder hands out; the permissive decoder lets ill-formed
	// UTF-8 through so that the Encoder has to judge it
	d := jsontext.NewDecoder(bytes.NewReader(lit), jsontext.AllowInvalidUTF8(true))
	t, err := d.ReadToken()
	if err != nil {
		return jsontext.Token{}, err
	}
	return t.Clone(), nil
}

func toLib(c ref.EncCall) (libCall, error) {
	switch c.K {
	case "n":
		return libCall{tok: jsontext.Null}, nil
	case "f":
		return libCall{tok: jsontext.False}, nil
	case "t":
		return libCall{tok: jsontext.True}, nil
	case "{":
		return libCall{tok: jsontext.BeginObject}, nil
	case "}":
		return libCall{tok: jsontext.EndObject}, nil
	case "[":
		return libCall{tok: jsontext.BeginArray}, nil
	case "]":
		return libCall{tok: jsontext.EndArray}, nil
	case "s":
		return libCall{tok: jsontext.String(string(c.S))}, nil
	case "i":
		return libCall{tok: jsontext.Int(int64(c.N))}, nil
	case "u":
		return libCall{tok: jsontext.Uint(c.N)}, nil
	case "d":
		return libCall{tok: jsontext.Float(float64frombits(c.N))}, nil
	case "e":
		return libCall{tok: jsontext.Float32(float32frombits(uint32(c.N)))}, nil
	case "rs", "rn":
		t, err := rawToken(c.S)
		return libCall{tok: t}, err
	case "z":
		return libCall{tok: jsontext.Token{}}, nil
	case "v":
		return libCall{isValue: true, val: jsontext.Value(c.S)}, nil
	}
	return libCall{}, fmt.Errorf("unknown call kind %q", c.K)
}

func (l *libCall) apply(e *jsontext.Encoder) error {
	if l.isValue {
		return e.WriteValue(l.val)
	}
	return e.WriteToken(l.tok)
}

// ---------------------------------------------------------------------------------
// the rig: real encoder, shadow encoder, reference model

type sink struct{ b []byte }

func (s *sink) Write(p []byte) (int, error) { s.b = append(s.b, p...); return len(p), nil }

type side struct {
	e  *jsontext.Encoder
	sk sink
	bb bytes.Buffer
	bk bool // writes into bb
}

func (s *side) reset(kind string, opts []jsontext.Options, reuse bool) {
	s.bk = kind == "buffer"
	s.sk.b = s.sk.b[:0]
	s.bb.Reset()
	var wr interface{ Write([]byte) (int, error) } = &s.sk
	if s.bk {
		wr = &s.bb
	}
	if s.e == nil || !reuse {
		s.e = jsontext.NewEncoder(wr, opts...)
	} else {
		s.e.Reset(wr, opts...)
	}
}

func (s *side) delivered() []byte {
	if s.bk {
		return s.bb.Bytes()
	}
	return s.sk.b
}

const (
	nDepthClass = 5
	nPos        = 4
)

var posIdx = map[string]int{"top": 0, "array": 1, "object-name": 2, "object-value": 3}
var classList = []string{"tok-literal", "tok{", "tok}", "tok[", "tok]", "tok-string", "tok-number", "tok-zero", "val-{", "val-[", "val-string", "val-other"}
var classIdx = func() map[string]int {
	m := map[string]int{}
	for i, c := range classList {
		m[c] = i
	}
	return m
}()
var reasonList = []string{"", ref.RejNeedName, ref.RejDupName, ref.RejMismatch, ref.RejMissingValue, ref.RejInvalidUTF8,
	ref.RejInvalidRaw, ref.RejRawDup, ref.RejRawUTF8, ref.RejMaxDepth, ref.RejZeroToken}
var reasonIdx = func() map[string]int {
	m := map[string]int{}
	for i, c := range reasonList {
		m[c] = i
	}
	return m
}()

func depthClass(d int) int {
	switch {
	case d <= 2:
		return d
	case d < 100:
		return 3
	}
	return 4
}

// stats are accumulated without locks and flushed into the worker context per case.
type stats struct {
	calls, accepted, rejected     int64
	byReason                      [16]int64
	seqs, seqAccAfterRej          int64
	stateCompares, depth0Compares int64
	pointerCompares, hookChecks   int64
	midEqual, midDiffer           int64
	finalized                     int64
	flushAcrossNames              int64
	shapes                        map[int]struct{}
	shapesSeen                    map[int]struct{} // already reported to w
}

type runner struct {
	w      *run.W
	st     *stats
	opt    ref.EncOpts
	optKey string
	jopts  []jsontext.Options
	wk     string
	reuse  bool
	real   side
	shadow side
	cur    []ref.EncCall // sequence being executed (for panic reports)
	curI   int
}

func newRunner(w *run.W, st *stats) *runner { return &runner{w: w, st: st} }

var digitRuns = regexp.MustCompile(`[0-9]+`)

// guarded runs one sequence; a panic raised inside the library becomes a violation with
// a normalized signature (indexes and lengths in the runtime message replaced by N) and
// the encoders are discarded.  It reports whether fn returned normally.
func (r *runner) guarded(fn func()) (completed bool) {
	defer func() {
		if p := recover(); p != nil {
			origin, lib, stack := run.PanicOrigin()
			if !lib {
				panic(p) // harness bug: the framework reports it as broken
			}
			r.real.e, r.shadow.e = nil, nil
			r.w.Violate("library-panic", map[string]string{"func": origin, "panic": digitRuns.ReplaceAllString(run.Trunc(fmt.Sprint(p), 120), "N")},
				"opts=%s writer=%s: library panicked during call #%d: %v\n  history: %s\n%s", r.optKey, r.wk, r.curI, p, describe(r.cur, r.curI), stack)
			r.w.Count("sequences_ended_by_panic", 1)
		}
	}()
	fn()
	return true
}

// layoutClass is the normalized option class used in signatures.
func (r *runner) layoutClass() string {
	l := r.opt.Layout()
	c := "compact"
	switch {
	case l.Multiline:
		c = "multiline"
	case l.Colon || l.Comma:
		c = "spaces"
	}
	if r.opt.HTML || r.opt.JS || r.opt.Preserve || r.opt.CanonInts || r.opt.CanonFloats || r.opt.Reorder {
		c += "+respell"
	}
	return c
}

func (r *runner) configure(o ref.EncOpts, writer string, reuse bool) {
	r.opt, r.optKey, r.jopts, r.wk, r.reuse = o, o.Key(), toOptions(o), writer, reuse
}

func (st *stats) flush(w *run.W) {
	w.Eval(st.calls)
	c := func(k string, v *int64) {
		if *v != 0 {
			w.Count(k, *v)
			*v = 0
		}
	}
	c("calls", &st.calls)
	c("accepted", &st.accepted)
	c("rejected", &st.rejected)
	for i := range reasonList {
		if i > 0 {
			c("reject_"+reasonList[i], &st.byReason[i])
		}
	}
	c("sequences", &st.seqs)
	c("seq_accept_after_reject", &st.seqAccAfterRej)
	c("state_compares", &st.stateCompares)
	c("pointer_compares", &st.pointerCompares)
	c("internal_stack_checks", &st.hookChecks)
	c("depth0_byte_compares", &st.depth0Compares)
	c("midvalue_delivered_equal", &st.midEqual)
	c("midvalue_delivered_differs", &st.midDiffer)
	c("finalized", &st.finalized)
	for id := range st.shapes {
		if _, ok := st.shapesSeen[id]; !ok {
			st.shapesSeen[id] = struct{}{}
			w.Shape(fmt.Sprint("s", id))
		}
		delete(st.shapes, id)
	}
}

func describe(calls []ref.EncCall, upto int) string {
	var sb strings.Builder
	start := 0
	if upto > 40 {
		start = upto - 40
		fmt.Fprintf(&sb, "…(%d calls) ", start)
	}
	for i := start; i <= upto && i < len(calls); i++ {
		if i > start {
			sb.WriteString(", ")
		}
		sb.WriteString(calls[i].String())
	}
	return sb.String()
}

// runSeq executes one call sequence.  libs may be nil (translated on the fly).
// check(i) selects what is compared after call i: 0 nothing, 1 offsets/depth/indexes/
// delivered bytes, 2 also StackPointer.  (StackPointer is not a pure observer inside the
// library: it copies the pending member names out of the output buffer, which would hide
// a flush that forgets to do so — therefore it is not called after every call.)
// After the last call every open container is closed (in real, shadow and model) and
// the final state is compared in full.
// It returns false when the sequence had to be abandoned after a violation.
func (r *runner) runSeq(calls []ref.EncCall, libs []libCall, check func(i int) int) bool {
	w, st := r.w, r.st
	st.seqs++
	r.real.reset(r.wk, r.jopts, r.reuse)
	r.shadow.reset("opaque", r.jopts, r.reuse)
	m := ref.NewEncModel(r.opt)
	lastRej := "no-rejection"
	sawRej, accAfterRej := false, false

	step := func(i int, c ref.EncCall, lc *libCall, all []ref.EncCall, level int) bool {
		r.cur, r.curI = all, i
		pos := m.Position()
		dcls := depthClass(m.Depth())
		reason := m.Apply(c)
		err := lc.apply(r.real.e)
		st.calls++
		st.shapes[((dcls*nPos+posIdx[pos])*len(classList)+classIdx[c.Class()])*len(reasonList)+reasonIdx[reason]] = struct{}{}
		if hooks.Available {
			// instrumentation point (a pure observer): the parallel stacks of the real encoder
			st.hookChecks++
			if ps := hooks.CheckEncoder(r.real.e); len(ps) > 0 {
				field := "name-stack"
				if strings.HasPrefix(ps[0], "namespace") {
					field = "namespace-stack"
				}
				outcome := "accepted"
				if reason != "" {
					outcome = "rejected:" + reason
				}
				w.Violate("hook-encoder-stacks", map[string]string{"field": field, "call": outcome},
					"opts=%s writer=%s after call #%d %s (%s, err=%v): encoder stacks out of step: %s\n  history: %s",
					r.optKey, r.wk, i, c, outcome, err, strings.Join(ps, "; "), describe(all, i))
				return false
			}
		}
		if (err != nil) != (reason != "") {
			want := "accept"
			if reason != "" {
				want = "reject:" + reason
			}
			w.Violate("accept-iff", map[string]string{"want": want, "call": c.Class(), "pos": pos},
				"opts=%s writer=%s: call #%d %s at position %s: encoder returned err=%v, reference model says %s\n  history: %s",
				r.optKey, r.wk, i, c, pos, err, want, describe(all, i))
			return false
		}
		if reason != "" {
			st.rejected++
			st.byReason[reasonIdx[reason]]++
			lastRej = reason
			sawRej = true
		} else {
			st.accepted++
			if sawRej {
				accAfterRej = true
			}
			if err2 := lc.apply(r.shadow.e); err2 != nil {
				w.Violate("no-effect", map[string]string{"field": "later-acceptance", "after": lastRej},
					"opts=%s: call #%d %s was accepted by the encoder that had seen rejected calls but the shadow encoder (accepted calls only) rejects it: %v\n  history: %s",
					r.optKey, i, c, err2, describe(all, i))
				return false
			}
		}
		if level > 0 {
			return r.compare(m, i, c, all, lastRej, level > 1)
		}
		return true
	}

	for i, c := range calls {
		var lc libCall
		if libs != nil {
			lc = libs[i]
		} else {
			var err error
			if lc, err = toLib(c); err != nil {
				w.Broken("cannot build call %s: %v", c, err)
				return false
			}
		}
		if !step(i, c, &lc, calls, check(i)) {
			return false
		}
	}
	// finalization: close everything, then the complete output is known
	if m.Depth() > 0 {
		cl := m.Closers()
		all := append(calls[:len(calls):len(calls)], cl...)
		for j, c := range cl {
			lc, _ := toLib(c)
			i := len(calls) + j
			r.cur, r.curI = all, i
			if reason := m.Apply(c); reason != "" {
				w.Broken("model rejects its own closer %s: %s", c, reason)
				return false
			}
			st.calls++
			st.accepted++
			e1 := lc.apply(r.real.e)
			e2 := lc.apply(r.shadow.e)
			if e1 != nil || e2 != nil {
				w.Violate("accept-iff", map[string]string{"want": "accept", "call": c.Class(), "pos": "closing"},
					"opts=%s writer=%s: closing call #%d %s: real err=%v shadow err=%v, model accepts\n  history: %s", r.optKey, r.wk, i, c, e1, e2, describe(all, i))
				return false
			}
			if j == len(cl)-1 {
				if !r.compare(m, i, c, all, lastRej, true) {
					return false
				}
			}
		}
		st.finalized++
	}
	if accAfterRej {
		st.seqAccAfterRej++
	}
	return true
}

func (r *runner) compare(m *ref.EncModel, i int, c ref.EncCall, all []ref.EncCall, lastRej string, ptr bool) bool {
	w, st := r.w, r.st
	st.stateCompares++
	re, sh := r.real.e, r.shadow.e
	ok := true
	bad := func(sub, field, format string, a ...any) {
		ok = false
		w.Violate(sub, map[string]string{"field": field, "after": lastRej},
			"opts=%s writer=%s after call #%d %s: %s\n  history: %s", r.optKey, r.wk, i, c, fmt.Sprintf(format, a...), describe(all, i))
	}
	if a, b := re.OutputOffset(), sh.OutputOffset(); a != b {
		bad("no-effect", "output-offset", "OutputOffset real=%d shadow=%d", a, b)
	}
	d := re.StackDepth()
	if d != sh.StackDepth() {
		bad("no-effect", "stack-depth", "StackDepth real=%d shadow=%d", d, sh.StackDepth())
	}
	if d != m.Depth() {
		bad("state-vs-model", "stack-depth", "StackDepth real=%d model=%d", d, m.Depth())
	}
	if ok {
		for l := 0; l <= d; l++ {
			k1, n1 := re.StackIndex(l)
			k2, n2 := sh.StackIndex(l)
			k3, n3 := m.Index(l)
			if k1 != k2 || n1 != n2 {
				bad("no-effect", "stack-index", "StackIndex(%d) real=(%q,%d) shadow=(%q,%d)", l, byte(k1), n1, byte(k2), n2)
				break
			}
			if byte(k1) != k3 || n1 != n3 {
				bad("state-vs-model", "stack-index", "StackIndex(%d) real=(%q,%d) model=(%q,%d)", l, byte(k1), n1, k3, n3)
				break
			}
		}
	}
	if ptr {
		st.pointerCompares++
		p1, p2 := re.StackPointer(), sh.StackPointer()
		if p1 != p2 {
			bad("no-effect", "stack-pointer", "StackPointer real=%q shadow=%q", p1, p2)
		} else if ok {
			if p3 := m.Pointer(); string(p1) != p3 {
				bad("state-vs-model", "stack-pointer", "StackPointer real=%q model=%q", p1, p3)
			}
		}
	}
	d1, d2 := r.real.delivered(), r.shadow.delivered()
	if m.Depth() == 0 {
		st.depth0Compares++
		want := m.Out()
		if !bytes.Equal(d1, want) {
			ok = false
			w.Violate("depth0-serialization", map[string]string{"layout": r.layoutClass(), "after": lastRej},
				"opts=%s writer=%s after call #%d %s at depth 0: delivered %s\n  reference %s\n  history: %s",
				r.optKey, r.wk, i, c, diffq(d1, want), diffq(want, d1), describe(all, i))
		}
		if !bytes.Equal(d1, d2) {
			bad("no-effect", "delivered-bytes", "delivered real %s shadow %s", diffq(d1, d2), diffq(d2, d1))
		}
		if off := re.OutputOffset(); off != int64(len(want)) {
			bad("state-vs-model", "output-offset", "OutputOffset=%d at depth 0, reference output has %d bytes", off, len(want))
		}
	} else {
		// inside a value only the relation "one is a prefix of the other" is demanded of
		// the delivered bytes, and completed top-level values must have been delivered
		short, long := d1, d2
		if len(short) > len(long) {
			short, long = long, short
		}
		if !bytes.HasPrefix(long, short) {
			bad("no-effect", "delivered-bytes", "inside a value: delivered real %s shadow %s are not prefix-related", diffq(d1, d2), diffq(d2, d1))
		}
		if want := m.Out(); !bytes.HasPrefix(d1, want) {
			ok = false
			w.Violate("depth0-serialization", map[string]string{"layout": r.layoutClass(), "after": lastRej},
				"opts=%s writer=%s after call #%d %s: delivered bytes %s do not start with the completed top-level values %s\n  history: %s",
				r.optKey, r.wk, i, c, diffq(d1, want), diffq(want, d1), describe(all, i))
		}
		if len(d1) == len(d2) {
			st.midEqual++
		} else {
			st.midDiffer++
		}
	}
	return ok
}

// diffq prints a around the first difference with b.
func diffq(a, b []byte) string {
	i := 0
	for i < len(a) && i < len(b) && a[i] == b[i] {
		i++
	}
	lo := max(0, i-30)
	hi := min(len(a), i+50)
	return fmt.Sprintf("[len %d, first difference at %d: …%q…]", len(a), i, a[lo:hi])
}

func float64frombits(b uint64) float64 { return math.Float64frombits(b) }
func float32frombits(b uint32) float32 { return math.Float32frombits(b) }

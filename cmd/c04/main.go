// C04 — Marshal then Unmarshal restores the value (round trip).
//
// Self-consistency oracle, no external model: b1 = Marshal(v) must succeed, Unmarshal(b1) must
// succeed, Marshal of the decoded value must reproduce b1 (one more round is allowed only for
// types using omitzero/omitempty), and where Go equality is meaningful the decoded value equals v
// under an equality that identifies nil/empty containers and nil pointer chains, compares floats
// by bits and times by instant and zone offset.
package main

import (
	"bytes"
	"errors"
	"fmt"
	"io"
	"math"
	"math/rand/v2"
	"reflect"
	"runtime"
	"runtime/debug"
	"sort"
	"strings"
	"time"

	json "github.com/go-json-experiment/json"
	"github.com/go-json-experiment/json/jsontext"
	v1 "github.com/go-json-experiment/json/v1"

	"verif/ref"
	"verif/run"
)

// ---------------------------------------------------------------------------------
// option sets (symmetric: the same options for Marshal and Unmarshal)

type optSet struct {
	name          string
	opts          []json.Options
	stringify     bool // numbers inside `any` come back as strings: equality not meaningful there
	deterministic bool // byte-for-byte equality is demanded (otherwise modulo member order)
	nilAsNull     bool
	allowDur      bool // time.Duration has a default representation
	omit          bool // a caller option omits fields
}

var optSets = []*optSet{
	{name: "default"},
	{name: "StringifyNumbers", opts: []json.Options{json.StringifyNumbers(true)}, stringify: true},
	{name: "Deterministic", opts: []json.Options{json.Deterministic(true)}, deterministic: true},
	{name: "DefaultOptionsV1", opts: []json.Options{v1.DefaultOptionsV1()}, deterministic: true, nilAsNull: true, allowDur: true},
	{name: "FormatNilAsNull", opts: []json.Options{json.FormatNilMapAsNull(true), json.FormatNilSliceAsNull(true)}, nilAsNull: true},
	{name: "OmitZeroStructFields", opts: []json.Options{json.OmitZeroStructFields(true)}, omit: true},
	{name: "v1.CallMethodsWithLegacySemantics", opts: []json.Options{v1.CallMethodsWithLegacySemantics(true)}},
	{name: "v1.FormatByteArrayAsArray", opts: []json.Options{v1.FormatByteArrayAsArray(true)}},
	{name: "v1.FormatBytesWithLegacySemantics", opts: []json.Options{v1.FormatBytesWithLegacySemantics(true)}},
	{name: "v1.FormatDurationAsNano", opts: []json.Options{v1.FormatDurationAsNano(true)}, allowDur: true},
	{name: "v1.MatchCaseSensitiveDelimiter", opts: []json.Options{v1.MatchCaseSensitiveDelimiter(true)}},
	{name: "v1.MergeWithLegacySemantics", opts: []json.Options{v1.MergeWithLegacySemantics(true)}},
	{name: "v1.OmitEmptyWithLegacySemantics", opts: []json.Options{v1.OmitEmptyWithLegacySemantics(true)}},
	{name: "v1.ParseBytesWithLooseRFC4648", opts: []json.Options{v1.ParseBytesWithLooseRFC4648(true)}},
	{name: "v1.ParseTimeWithLooseRFC3339", opts: []json.Options{v1.ParseTimeWithLooseRFC3339(true)}},
	{name: "v1.ReportErrorsWithLegacySemantics", opts: []json.Options{v1.ReportErrorsWithLegacySemantics(true)}},
	{name: "v1.StringifyWithLegacySemantics", opts: []json.Options{v1.StringifyWithLegacySemantics(true)}},
	{name: "v1.UnmarshalArrayFromAnyLength", opts: []json.Options{v1.UnmarshalArrayFromAnyLength(true)}},
	{name: "MatchCaseInsensitiveNames", opts: []json.Options{json.MatchCaseInsensitiveNames(true)}},
	{name: "RejectUnknownMembers", opts: []json.Options{json.RejectUnknownMembers(true)}},
	{name: "Multiline", opts: []json.Options{jsontext.Multiline(true), jsontext.WithIndent("\t")}},
	{name: "SpaceAfter", opts: []json.Options{jsontext.SpaceAfterColon(true), jsontext.SpaceAfterComma(true)}},
	{name: "EscapeForHTML+JS", opts: []json.Options{jsontext.EscapeForHTML(true), jsontext.EscapeForJS(true)}},
	{name: "AllowDuplicateNames", opts: []json.Options{jsontext.AllowDuplicateNames(true)}},
	{name: "Deterministic+StringifyNumbers+FormatNilAsNull", opts: []json.Options{json.Deterministic(true), json.StringifyNumbers(true), json.FormatNilMapAsNull(true), json.FormatNilSliceAsNull(true)}, deterministic: true, stringify: true, nilAsNull: true},
	{name: "V1+Deterministic(false)", opts: []json.Options{v1.DefaultOptionsV1(), json.Deterministic(false)}, nilAsNull: true, allowDur: true},
}

var formatTagOpt = json.ExperimentalSupportFormatTag(true)

// ---------------------------------------------------------------------------------
// comparison of outputs modulo member order

func sortedForm(n *ref.Node, sb *strings.Builder) {
	switch n.Kind {
	case ref.Array:
		sb.WriteByte('[')
		for i, e := range n.Elems {
			if i > 0 {
				sb.WriteByte(',')
			}
			sortedForm(e, sb)
		}
		sb.WriteByte(']')
	case ref.Object:
		parts := make([]string, len(n.Members))
		for i, m := range n.Members {
			var s strings.Builder
			s.WriteString(m.RawName)
			s.WriteByte(':')
			sortedForm(m.Value, &s)
			parts[i] = s.String()
		}
		sort.Strings(parts)
		sb.WriteByte('{')
		sb.WriteString(strings.Join(parts, ","))
		sb.WriteByte('}')
	case ref.Null:
		sb.WriteString("null")
	case ref.Bool:
		fmt.Fprint(sb, n.B)
	default:
		sb.WriteString(n.Raw)
	}
}

func equalModuloOrder(a, b []byte) bool {
	if len(a) != len(b) {
		return false
	}
	na, nb := ref.Parse(a, ref.Opts{AllowDup: true}), ref.Parse(b, ref.Opts{AllowDup: true})
	if na == nil || nb == nil {
		return false
	}
	var sa, sb strings.Builder
	sortedForm(na, &sa)
	sortedForm(nb, &sb)
	return sa.String() == sb.String()
}

// ---------------------------------------------------------------------------------
// the round-trip oracle

type rtInfo struct {
	label        string // what is being round-tripped (for messages)
	family       string // normalized family of the workload for violation signatures ("generated", "alt-time", …)
	omit         bool
	eq           bool // Go equality is meaningful
	format       bool
	noFixedPoint bool                        // a value outside the round-trip domain of its layout: acceptance and equality only
	repr         func(os *optSet, b1 []byte) // meaning of the documented representation (repr.go), fixed boxes only
}

// jsonDiff locates the first difference of two JSON texts and names its class (normalized: kinds
// and structure only).  field is the name of the top-level member the difference lies in.
func jsonDiff(b1, b2 []byte) (field, class string) {
	n1, n2 := ref.Parse(b1, ref.Opts{AllowDup: true}), ref.Parse(b2, ref.Opts{AllowDup: true})
	if n1 == nil || n2 == nil {
		return "", "invalid-json"
	}
	kindName := [...]string{"null", "bool", "number", "string", "array", "object"}
	var walk func(a, b *ref.Node, depth int) string
	walk = func(a, b *ref.Node, depth int) string {
		if a.Kind != b.Kind {
			return kindName[a.Kind] + "-vs-" + kindName[b.Kind]
		}
		switch a.Kind {
		case ref.Bool:
			if a.B != b.B {
				return "bool-value"
			}
		case ref.Number:
			if a.Raw != b.Raw {
				return "number-spelling"
			}
		case ref.String:
			if a.S != b.S {
				return "string-content"
			}
			if a.Raw != b.Raw {
				return "string-escaping"
			}
		case ref.Array:
			if len(a.Elems) != len(b.Elems) {
				return "array-length"
			}
			for i := range a.Elems {
				if c := walk(a.Elems[i], b.Elems[i], depth+1); c != "" {
					return c
				}
			}
		case ref.Object:
			if len(a.Members) != len(b.Members) {
				return "member-count"
			}
			byName := map[string]*ref.Node{}
			for i := len(b.Members) - 1; i >= 0; i-- {
				byName[b.Members[i].Name] = b.Members[i].Value
			}
			for _, m := range a.Members {
				o, ok := byName[m.Name]
				if !ok {
					return "member-names"
				}
				if c := walk(m.Value, o, depth+1); c != "" {
					if depth == 0 {
						field = m.Name
					}
					return c
				}
			}
			for i := range a.Members {
				if a.Members[i].RawName != b.Members[i].RawName {
					return "member-order-or-name-spelling"
				}
			}
		}
		return ""
	}
	class = walk(n1, n2, 0)
	if class == "" {
		class = "whitespace"
	}
	return field, class
}

// errClass is the normalized class of an error returned by the library.
func errClass(err error) string {
	var sem *json.SemanticError
	var syn *jsontext.SyntacticError
	switch {
	case errors.As(err, &sem):
		c := "SemanticError"
		if sem.GoType != nil {
			switch {
			case sem.GoType == tTime:
				c += "/time"
			case sem.GoType == tDuration:
				c += "/duration"
			default:
				c += "/" + sem.GoType.Kind().String()
			}
		}
		return c
	case errors.As(err, &syn):
		return "SyntacticError"
	}
	return "other-error"
}

func roundTrip(w *run.W, v reflect.Value, os *optSet, in rtInfo) {
	w.Eval(1)
	t := v.Type()
	opts := os.opts
	if in.format {
		opts = append(append([]json.Options(nil), opts...), formatTagOpt)
	}
	// signatures are normalized: clause, option set, workload family, root-cause class; for the
	// fixed boxes of the alternative-representation sweeps also the box field (= the format name)
	sig := func(clause, cause, field string) map[string]string {
		m := map[string]string{"options": os.name, "clause": clause, "family": in.family, "cause": cause}
		if field != "" && in.family != "generated" {
			m["field"] = field
		}
		return m
	}
	p := reflect.New(t)
	p.Elem().Set(v)
	b1, err := json.Marshal(p.Interface(), opts...)
	if err != nil {
		w.Violate("marshal-refused", sig("marshal", errClass(err), ""), "%s: Marshal(%v) under %s failed: %v\n value: %s", in.label, t, os.name, err, show(v))
		return
	}
	if in.repr != nil {
		in.repr(os, b1)
	}
	q := reflect.New(t)
	if err := json.Unmarshal(b1, q.Interface(), opts...); err != nil {
		w.Violate("unmarshal-refused", sig("unmarshal", errClass(err), ""), "%s: Unmarshal of Marshal output under %s failed: %v\n type: %v\n output: %s", in.label, os.name, err, t, run.Trunc(string(b1), 1200))
		return
	}
	// the same text arriving through an io.Reader in pieces must decode to the same value (every third text)
	if h := fnvBytes(b1); len(b1) >= 6 && h%3 == 0 {
		q2 := reflect.New(t)
		n := 1 + int(h>>8)%23
		if err := json.UnmarshalRead(&pieceReader{b: b1, n: n}, q2.Interface(), opts...); err != nil {
			w.Violate("unmarshal-refused", sig("unmarshal-read", errClass(err), ""), "%s: UnmarshalRead of Marshal output (pieces of %d bytes) under %s failed: %v\n type: %v\n output: %s", in.label, n, os.name, err, t, run.Trunc(string(b1), 1200))
			return
		}
		ba, erra := json.Marshal(q.Interface(), opts...)
		bb, errb := json.Marshal(q2.Interface(), opts...)
		if (erra == nil) != (errb == nil) || !(bytes.Equal(ba, bb) || (!os.deterministic && equalModuloOrder(ba, bb))) {
			field, class := jsonDiff(ba, bb)
			w.Violate("bytes-differ", sig("reader-route", class, field), "%s under %s: the value decoded by UnmarshalRead (pieces of %d bytes) differs from the one decoded by Unmarshal\n type: %v\n text: %s\n via Unmarshal: %s\n via UnmarshalRead: %s", in.label, os.name, n, t,
				run.Trunc(string(b1), 800), run.Trunc(string(ba), 800), run.Trunc(string(bb), 800))
			return
		}
		w.Count("reader_route_round_trips", 1)
	}
	if in.noFixedPoint {
		w.Count("outside_layout_domain_acceptance_and_equality_only", 1)
	} else {
		b2, err := json.Marshal(q.Interface(), opts...)
		if err != nil {
			w.Violate("marshal-refused", sig("remarshal", errClass(err), ""), "%s: Marshal of the decoded value under %s failed: %v\n type: %v\n first output: %s", in.label, os.name, err, t, run.Trunc(string(b1), 1200))
			return
		}
		same := bytes.Equal(b1, b2)
		if !same && !os.deterministic && equalModuloOrder(b1, b2) {
			same = true
			w.Count("equal_modulo_member_order", 1)
		}
		if !same {
			if !in.omit {
				field, class := jsonDiff(b1, b2)
				w.Violate("bytes-differ", sig("fixed-point", class, field), "%s under %s: marshaling the decoded value gives different bytes\n type: %v\n b1: %s\n b2: %s", in.label, os.name, t, run.Trunc(string(b1), 1200), run.Trunc(string(b2), 1200))
				return
			}
			// types with omit options: a fixed point after one more round
			r := reflect.New(t)
			if err := json.Unmarshal(b2, r.Interface(), opts...); err != nil {
				w.Violate("unmarshal-refused", sig("second-round", errClass(err), ""), "%s under %s: second-round Unmarshal failed: %v\n b2: %s", in.label, os.name, err, run.Trunc(string(b2), 1200))
				return
			}
			b3, err := json.Marshal(r.Interface(), opts...)
			if err != nil || !(bytes.Equal(b2, b3) || (!os.deterministic && equalModuloOrder(b2, b3))) {
				field, class := "", "marshal-error"
				if err == nil {
					field, class = jsonDiff(b2, b3)
				}
				w.Violate("no-fixed-point", sig("second-round", class, field), "%s under %s: no fixed point after one more round (%v)\n type: %v\n b1: %s\n b2: %s\n b3: %s", in.label, os.name, err, t,
					run.Trunc(string(b1), 800), run.Trunc(string(b2), 800), run.Trunc(string(b3), 800))
				return
			}
			w.Count("second_round_fixed_points", 1)
		}
	}
	w.Count("round_trips", 1)
	w.Count("optset_"+os.name, 1)
	if in.eq {
		if d := equalRT(v, q.Elem(), &eqCtx{nilAsNull: os.nilAsNull}, fieldFmt{}, ""); d != nil {
			if d.cause == "harness" {
				w.Broken("%s: %s", in.label, d)
				return
			}
			field := ""
			if f := strings.SplitN(strings.TrimPrefix(d.path, "."), ".", 2)[0]; t.Kind() == reflect.Struct {
				field = strings.TrimRight(strings.SplitN(f, "[", 2)[0], "*")
			}
			w.Violate("value-differs", sig("equality", d.cause, field), "%s under %s: decoded value differs at %s\n type: %v\n json: %s", in.label, os.name, d, t, run.Trunc(string(b1), 1200))
			return
		}
		w.Count("equality_checked", 1)
	}
}

// projectTimesIntoLayouts walks a settable value and replaces every time.Time (or *time.Time) struct field
// that carries a layout format by the fixed point of parse(format(t)) under that layout.
func projectTimesIntoLayouts(v reflect.Value, depth int) (changed bool) {
	if depth > 40 {
		return false
	}
	switch v.Kind() {
	case reflect.Pointer:
		if !v.IsNil() {
			return projectTimesIntoLayouts(v.Elem(), depth+1)
		}
	case reflect.Interface:
		// values inside interfaces are not settable in place and never carry a format tag
	case reflect.Slice, reflect.Array:
		if v.Type().Elem().Kind() == reflect.Uint8 {
			return false
		}
		for i := 0; i < v.Len(); i++ {
			changed = projectTimesIntoLayouts(v.Index(i), depth+1) || changed
		}
	case reflect.Map:
		for it := v.MapRange(); it.Next(); {
			e := reflect.New(v.Type().Elem()).Elem()
			e.Set(it.Value())
			if projectTimesIntoLayouts(e, depth+1) {
				v.SetMapIndex(it.Key(), e)
				changed = true
			}
		}
	case reflect.Struct:
		if v.Type() == tTime {
			return false
		}
		for i := 0; i < v.NumField(); i++ {
			f := v.Field(i)
			ff := fieldFormat(v.Type().Field(i).Tag)
			tf := f
			if tf.Kind() == reflect.Pointer && !tf.IsNil() {
				tf = tf.Elem()
			}
			if ff.layout != "" && tf.Type() == tTime && tf.CanSet() {
				t := tf.Interface().(time.Time)
				for k := 0; k < 3; k++ {
					p, err := projectTime(ff.layout, t)
					if err != nil || p.Equal(t) && p.Format(ff.layout) == t.Format(ff.layout) && sameZone(p, t) {
						break
					}
					t, changed = p, true
				}
				tf.Set(reflect.ValueOf(t))
				continue
			}
			changed = projectTimesIntoLayouts(f, depth+1) || changed
		}
	}
	return changed
}

func sameZone(a, b time.Time) bool {
	_, oa := a.Zone()
	_, ob := b.Zone()
	return oa == ob
}

// pieceReader hands out b in pieces of n bytes.
type pieceReader struct {
	b []byte
	n int
}

func (r *pieceReader) Read(p []byte) (int, error) {
	if len(r.b) == 0 {
		return 0, io.EOF
	}
	k := min(r.n, len(p), len(r.b))
	copy(p, r.b[:k])
	r.b = r.b[k:]
	return k, nil
}

func fnvBytes(b []byte) uint64 {
	var h uint64 = 1469598103934665603
	for _, c := range b {
		h = (h ^ uint64(c)) * 1099511628211
	}
	return h
}

func show(v reflect.Value) string { return run.Trunc(fmt.Sprintf("%+v", v.Interface()), 600) }

// ---------------------------------------------------------------------------------
// generated universe

type genArgs struct {
	Seed uint64 `json:"seed"`
	Opt  int    `json:"opt"`
	N    int    `json:"n"` // values per type
}

func checkGenerated(w *run.W, a *genArgs) {
	os := optSets[a.Opt%len(optSets)]
	r := rand.New(rand.NewPCG(a.Seed, 0xc04))
	f := &features{}
	g := &tgen{r: r, f: f, allowDur: os.allowDur, budget: 220}
	t := g.typ(0)
	omit := f.omit || os.omit
	in := rtInfo{label: "generated", omit: omit, format: f.formatTag || r.IntN(8) == 0,
		family: "generated", eq: !omit && !(f.iface && os.stringify)}
	for k := range f.kinds {
		w.Count("kind_"+k, 1)
	}
	if f.bigStruct {
		w.Count("structs_over_64_fields", 1)
	}
	if f.embedded {
		w.Count("types_with_embedded_struct", 1)
	}
	if f.quotedName {
		w.Count("types_with_names_needing_escapes", 1)
	}
	if !in.eq {
		w.Count("equality_not_meaningful", 1)
	}
	for i := 0; i < a.N; i++ {
		v := g.value(t, 0)
		// a time under a layout that cannot carry all of it (no sub-seconds, no zone, two-digit year …) is
		// outside the round-trip domain of that representation: the value is first replaced by what the
		// layout carries of it (as in the dedicated time sweeps), otherwise omitzero decisions could differ
		// between the rounds for reasons that have nothing to do with the library
		if f.formatTag {
			p := reflect.New(t).Elem()
			p.Set(v)
			if projectTimesIntoLayouts(p, 0) {
				w.Count("generated_times_moved_into_layout_domain", 1)
			}
			v = p
		}
		roundTrip(w, v, os, in)
	}
	w.Shape(skeleton(t, 0) + "|" + os.name)
	if w.WantSample() && f.nFields > 1 && f.nFields < 6 {
		v := g.value(t, 0)
		b, _ := json.Marshal(v.Interface(), append(append([]json.Options(nil), os.opts...), formatTagOpt)...)
		w.Sample(map[string]any{"exec": "gen", "type": run.Trunc(t.String(), 400), "options": os.name, "json": run.Trunc(string(b), 300)})
	}
}

// ---------------------------------------------------------------------------------
// float32 sweep: every bit pattern through Marshal/Unmarshal

type sweepArgs struct {
	Start  uint32 `json:"start"`
	Count  uint64 `json:"count"`
	Stride uint32 `json:"stride"`
}

func sweep32(w *run.W, a *sweepArgs) {
	const batch = 4096
	vals := make([]float32, 0, batch)
	var checked, nonfinite int64
	os := optSets[0]
	flush := func() {
		if len(vals) == 0 {
			return
		}
		b1, err := json.Marshal(vals)
		if err != nil {
			w.Violate("marshal-refused", map[string]string{"options": os.name, "clause": "marshal", "family": "float32-sweep", "cause": errClass(err)}, "Marshal([]float32) failed: %v", err)
			vals = vals[:0]
			return
		}
		var got []float32
		if err := json.Unmarshal(b1, &got); err != nil || len(got) != len(vals) {
			w.Violate("unmarshal-refused", map[string]string{"options": os.name, "clause": "unmarshal", "family": "float32-sweep", "cause": "error-or-length"}, "Unmarshal of %d formatted float32: %v (len %d)", len(vals), err, len(got))
			vals = vals[:0]
			return
		}
		for i, g := range got {
			if math.Float32bits(g) != math.Float32bits(vals[i]) {
				one, _ := json.Marshal(vals[i])
				w.Violate("value-differs", map[string]string{"options": os.name, "clause": "equality", "family": "float32-sweep", "cause": "float32-bits"},
					"float32 bits %#x marshals as %s and decodes to bits %#x", math.Float32bits(vals[i]), one, math.Float32bits(g))
			}
		}
		b2, err := json.Marshal(got)
		if err != nil || !bytes.Equal(b1, b2) {
			w.Violate("bytes-differ", map[string]string{"options": os.name, "clause": "fixed-point", "family": "float32-sweep", "cause": "number-spelling"}, "[]float32 block starting at bits %#x: second Marshal differs (%v)", math.Float32bits(vals[0]), err)
		}
		checked += int64(len(vals))
		vals = vals[:0]
	}
	pat := a.Start
	for i := uint64(0); i < a.Count; i++ {
		if i > 0 {
			pat += a.Stride
		}
		if i%(1<<20) == 0 {
			w.Beat()
		}
		if pat&0x7f800000 == 0x7f800000 {
			nonfinite++
			continue
		}
		vals = append(vals, math.Float32frombits(pat))
		if len(vals) == batch {
			flush()
		}
	}
	flush()
	w.Eval(checked)
	w.Count("f32_sweep_round_trips", checked)
	w.Count("f32_sweep_nonfinite_skipped", nonfinite)
	w.Count("kind_float32", 1)
	w.Shape(fmt.Sprintf("f32sweep|%#x", a.Start>>24))
}

// ---------------------------------------------------------------------------------

var M = &run.Monitor{
	ID:    "C04",
	Level: "exploration",
	Rule: "reflect-built types (nesting <= 6, up to 140 struct fields, JSON names needing escapes, every tag option where it is documented to apply) x 1-4 values from boundary-dense pools x 26 symmetric option sets; " +
		"dedicated sweeps for every alternative representation (string-quoted numbers, map keys of each numeric kind, 7 byte formats on []byte and [N]byte, 18 time layouts incl. unix*, 6 duration formats) over boundary-dense samples; " +
		"float32: all 2^32 bit patterns through Marshal/Unmarshal in the thorough tier (every 509th pattern in quick). distinct = type skeleton x option set",
	Assumptions: []string{
		"equality relation: nil and empty slices/maps identified; a pointer whose target is written as JSON null (nil pointer, nil interface, nil slice/map under FormatNil*AsNull or the v1 defaults) is identified with the nil pointer, because null decodes to the nil pointer; floats by bits; times by instant and zone offset (instant only for unix* formats, which do not carry a zone)",
		"a time under a layout that carries only part of the value must decode to what the layout carries: time.Parse(layout, t.Format(layout)) computed with the toolchain's time package; the byte fixed point is demanded for every value whose rendering the layout reproduces (RFC850 outside 1969..2068 does not: weekday of the full year, year modulo 100) - those values are moved into the layout's domain, and the original is still checked for acceptance and equality",
		"equality is not demanded where the property says it is not meaningful: omitzero/omitempty in play, numbers inside `any` under StringifyNumbers (they come back as strings); the byte fixed point is still demanded",
		"without Deterministic the two outputs are compared modulo object member order",
		"sub-oracle representation (dedicated sweeps only): the first output must denote the value in the documented representation (unix*/sec/milli/micro/nano as exact decimals via math/big, layouts via time.Format, units via Duration.String, ISO 8601 via an independent evaluator, RFC 4648 via the toolchain packages, integers in decimal) - a round trip alone cannot see formatter and parser errors that cancel",
	},
	Floors: func(c map[string]int64, tier string) []string {
		var u []string
		need := func(k string, n int64) {
			if c[k] < n {
				u = append(u, fmt.Sprintf("%s=%d < %d", k, c[k], n))
			}
		}
		need("round_trips", 50000)
		need("equality_checked", 20000)
		need("second_round_fixed_points", 1)
		need("structs_over_64_fields", 20)
		need("types_with_embedded_struct", 50)
		need("types_with_names_needing_escapes", 100)
		need("equal_modulo_member_order", 10)
		for _, k := range []string{"bool", "int", "float32", "float64", "string", "bytes", "bytearray", "time", "duration", "any", "slice", "array", "map", "pointer", "struct"} {
			need("kind_"+k, 200)
		}
		for _, os := range optSets {
			need("optset_"+os.name, 500)
		}
		need("alt_int_values", 5000)
		need("alt_float_values", 5000)
		need("alt_duration_values", 2000)
		need("alt_time_values", 2000)
		need("alt_bytes_values", 70)
		need("representation_checked", 100000)
		need("outside_layout_domain_acceptance_and_equality_only", 50)
		if tier == "thorough" {
			need("f32_sweep_round_trips", 4278190080)
		} else {
			need("f32_sweep_round_trips", 500000)
		}
		return u
	},
}

func main() {
	run.Def(M, "gen", checkGenerated)
	run.Def(M, "f32sweep", sweep32)
	defAlt()
	run.Def(M, "siblings", checkSiblings)
	M.Gen = generate
	debug.SetGCPercent(400)
	runtime.GOMAXPROCS(2)
	run.Main(M)
}

func generate(w *run.W) {
	ci := 0
	mine := func() bool { ci++; return w.Mine(ci) }
	// (1) generated universe
	n := w.Pick(160000, 900000)
	r := w.Rand("gen")
	for i := 0; i < n; i++ {
		seed, opt := r.Uint64(), i%len(optSets)
		if mine() {
			w.Do("gen", &genArgs{Seed: seed, Opt: opt, N: 1 + i%4})
		}
	}
	// (2) alternative representations
	genAlt(w, mine)
	genSiblings(w, mine)
	// (3) float32 sweep
	if w.Thorough() {
		for blk := 0; blk < 256; blk++ {
			if mine() {
				w.Do("f32sweep", &sweepArgs{Start: uint32(blk) << 24, Count: 1 << 24, Stride: 1})
			}
		}
	} else {
		const stride = 509
		off := uint32(w.Rand("sweep-offset").IntN(stride))
		total := (uint64(1)<<32 - uint64(off) + stride - 1) / stride
		const parts = 64
		per := (total + parts - 1) / parts
		for k := uint64(0); k < parts; k++ {
			if !mine() {
				continue
			}
			first := k * per
			cnt := per
			if first+cnt > total {
				cnt = total - first
			}
			w.Do("f32sweep", &sweepArgs{Start: off + uint32(first*stride), Count: cnt, Stride: stride})
		}
	}
}

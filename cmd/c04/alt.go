package main

// Dedicated sweeps for the documented alternative representations: string-quoted numbers and
// numeric map keys for every numeric kind, the byte formats, the time layouts, the duration formats.

import (
	"fmt"
	"math"
	"math/rand/v2"
	"reflect"
	"time"

	"verif/run"
)

// ---------------------------------------------------------------------------------
// numbers

type number interface {
	~int | ~int8 | ~int16 | ~int32 | ~int64 | ~uint | ~uint8 | ~uint16 | ~uint32 | ~uint64 | ~uintptr | ~float32 | ~float64
}

// numBox holds one numeric value in every position where an alternative representation applies.
type numBox[T number] struct {
	Plain  T
	Quoted T  `json:",string"`
	Ptr    *T `json:"p"`
	PtrQ   *T `json:",string"`
	Key    map[T]T
	KeyS   map[T]string
	Elems  []T
	Arr    [2]T
	ByName map[string]T
}

type numArgs struct {
	Type string   `json:"type"`
	Bits []uint64 `json:"bits"` // integer value (two's complement) or float bits
}

var numOptSets = []int{0, 1, 2, 3, 16, 24} // default, StringifyNumbers, Deterministic, V1, StringifyWithLegacySemantics, combo

func numCases[T number](w *run.W, a *numArgs, conv func(uint64) (T, bool)) {
	isFloat := a.Type == "float32" || a.Type == "float64"
	for i, b := range a.Bits {
		x, ok := conv(b)
		if !ok {
			continue
		}
		y, ok2 := conv(a.Bits[(i+1)%len(a.Bits)])
		if !ok2 {
			y = x
		}
		xc := x
		box := numBox[T]{Plain: x, Quoted: x, Ptr: &xc, PtrQ: &xc, Key: map[T]T{x: y, y: x}, KeyS: map[T]string{x: "v"}, Elems: []T{x, y}, Arr: [2]T{y, x},
			ByName: map[string]T{"k": x, "": y}}
		in := rtInfo{label: "numeric " + a.Type, family: "alt-" + a.Type, eq: true}
		if !isFloat {
			plain := fmt.Sprint(x) // decimal by strconv
			in.repr = func(os *optSet, b1 []byte) { reprInts(w, os, in.family, b1, plain) }
		}
		for _, oi := range numOptSets {
			roundTrip(w, reflect.ValueOf(box), optSets[oi], in)
		}
		if isFloat {
			w.Count("alt_float_values", 1)
		} else {
			w.Count("alt_int_values", 1)
		}
	}
	w.Shape("alt|" + a.Type)
}

func signedConv[T number](bits int) func(uint64) (T, bool) {
	return func(b uint64) (T, bool) {
		v := int64(b)
		if bits < 64 && (v < -(1<<(bits-1)) || v > 1<<(bits-1)-1) {
			return 0, false
		}
		return T(v), true
	}
}

func unsignedConv[T number](bits int) func(uint64) (T, bool) {
	return func(b uint64) (T, bool) {
		if bits < 64 && b > 1<<bits-1 {
			return 0, false
		}
		return T(b), true
	}
}

func checkNums(w *run.W, a *numArgs) {
	switch a.Type {
	case "int8":
		numCases(w, a, signedConv[int8](8))
	case "int16":
		numCases(w, a, signedConv[int16](16))
	case "int32":
		numCases(w, a, signedConv[int32](32))
	case "int64":
		numCases(w, a, signedConv[int64](64))
	case "int":
		numCases(w, a, signedConv[int](64))
	case "uint8":
		numCases(w, a, unsignedConv[uint8](8))
	case "uint16":
		numCases(w, a, unsignedConv[uint16](16))
	case "uint32":
		numCases(w, a, unsignedConv[uint32](32))
	case "uint64":
		numCases(w, a, unsignedConv[uint64](64))
	case "uint":
		numCases(w, a, unsignedConv[uint](64))
	case "uintptr":
		numCases(w, a, unsignedConv[uintptr](64))
	case "float32":
		numCases(w, a, func(b uint64) (float32, bool) {
			f := math.Float32frombits(uint32(b))
			return f, f == f && !math.IsInf(float64(f), 0)
		})
	case "float64":
		numCases(w, a, func(b uint64) (float64, bool) {
			f := math.Float64frombits(b)
			return f, f == f && !math.IsInf(f, 0)
		})
	default:
		w.Broken("unknown numeric type %q", a.Type)
	}
}

// ---------------------------------------------------------------------------------
// durations

type durBox struct {
	Sec    time.Duration  `json:",format:sec"`
	Milli  time.Duration  `json:",format:milli"`
	Micro  time.Duration  `json:",format:micro"`
	Nano   time.Duration  `json:",format:nano"`
	Units  time.Duration  `json:",format:units"`
	ISO    time.Duration  `json:",format:iso8601"`
	SecQ   time.Duration  `json:",string,format:sec"`
	MilliQ time.Duration  `json:",string,format:milli"`
	NanoQ  time.Duration  `json:",string,format:nano"`
	PSec   *time.Duration `json:",format:sec"`
	PISO   *time.Duration `json:",format:iso8601"`
}

type durNanoBox struct {
	Plain  time.Duration
	Quoted time.Duration `json:",string"`
	Ptr    *time.Duration
	Elems  []time.Duration
	Key    map[time.Duration]time.Duration
	ByName map[string]time.Duration
}

type durArgs struct {
	Vals []int64 `json:"vals"`
}

func checkDurs(w *run.W, a *durArgs) {
	for i, x := range a.Vals {
		d := time.Duration(x)
		e := time.Duration(a.Vals[(i+1)%len(a.Vals)])
		dc := d
		box := durBox{d, d, d, d, d, d, d, d, d, &dc, &dc}
		for _, oi := range []int{0, 2, 3, 1} {
			roundTrip(w, reflect.ValueOf(box), optSets[oi], rtInfo{label: "duration formats", family: "alt-duration", eq: true, format: true,
				repr: func(os *optSet, b1 []byte) { reprDurations(w, os, "alt-duration", b1, reflect.ValueOf(box)) }})
		}
		nb := durNanoBox{d, d, &dc, []time.Duration{d, e}, map[time.Duration]time.Duration{d: e, e: d}, map[string]time.Duration{"k": d}}
		for _, oi := range []int{3, 9} {
			roundTrip(w, reflect.ValueOf(nb), optSets[oi], rtInfo{label: "duration as nanoseconds", family: "alt-duration-nano", eq: true,
				repr: func(os *optSet, b1 []byte) { reprDurations(w, os, "alt-duration-nano", b1, reflect.ValueOf(nb)) }})
		}
		w.Count("alt_duration_values", 1)
	}
	w.Shape("alt|duration")
}

// ---------------------------------------------------------------------------------
// times

type timeBox struct {
	Default   time.Time
	RFCNano   time.Time  `json:",format:RFC3339Nano"`
	Unix      time.Time  `json:",format:unix"`
	UnixMilli time.Time  `json:",format:unixmilli"`
	UnixMicro time.Time  `json:",format:unixmicro"`
	UnixNano  time.Time  `json:",format:unixnano"`
	UnixQ     time.Time  `json:",string,format:unix"`
	UnixNanoQ time.Time  `json:",string,format:unixnano"`
	Custom    time.Time  `json:",format:'2006-01-02T15:04:05.000000000Z07:00'"`
	Ptr       *time.Time `json:",format:unixmilli"`
	Elems     []time.Time
	ByName    map[string]time.Time
}

// Layouts that carry only part of the value.  The decoded value must equal what the layout
// carries of the original (projectTime: the toolchain's time.Parse of time.Format), and the byte
// fixed point is demanded for every value the layout can render consistently.
type timeLossyBox struct {
	RFC3339  time.Time  `json:",format:RFC3339"`
	DateTime time.Time  `json:",format:DateTime"`
	DateOnly time.Time  `json:",format:DateOnly"`
	TimeOnly time.Time  `json:",format:TimeOnly"`
	RFC1123Z time.Time  `json:",format:RFC1123Z"`
	RFC822Z  time.Time  `json:",format:RFC822Z"`
	ANSIC    time.Time  `json:",format:ANSIC"`
	RubyDate time.Time  `json:",format:RubyDate"`
	Stamp    time.Time  `json:",format:Stamp"`
	StampMs  time.Time  `json:",format:StampMilli"`
	StampUs  time.Time  `json:",format:StampMicro"`
	StampNs  *time.Time `json:",format:StampNano"`
	Kitchen  time.Time  `json:",format:Kitchen"`
	Custom   time.Time  `json:",format:'Jan _2 2006 15:04:05.000 -0700'"`
	Custom2  time.Time  `json:",format:'06-1-2 3:4:5pm Z0700'"`
}

// layouts with a zone abbreviation are only round-trippable for UTC
type timeUTCBox struct {
	UnixDate time.Time `json:",format:UnixDate"`
	RFC822   time.Time `json:",format:RFC822"`
	RFC850   time.Time `json:",format:RFC850"`
	RFC1123  time.Time `json:",format:RFC1123"`
}

type timeArgs struct {
	Sec  []int64 `json:"sec"`
	Nsec []int64 `json:"nsec"`
	Off  []int   `json:"off"` // zone offset in minutes; 100000 = UTC location
}

// intoLayoutDomains replaces, field by field, a time that the field's layout cannot render
// consistently (layoutFixedPoint is false: RFC850 writes the weekday of the full year but only
// the year modulo 100) by what the layout carries of it, which it can.  It reports whether any
// field was replaced.
func intoLayoutDomains(w *run.W, box reflect.Value) (replaced bool) {
	for i := 0; i < box.NumField(); i++ {
		ff := fieldFormat(box.Type().Field(i).Tag)
		f := box.Field(i)
		if f.Kind() == reflect.Pointer {
			f = f.Elem()
		}
		if ff.layout == "" || f.Type() != tTime {
			continue
		}
		t := f.Interface().(time.Time)
		for k := 0; !layoutFixedPoint(ff.layout, t); k++ {
			p, err := projectTime(ff.layout, t)
			if err != nil || k == 3 {
				w.Broken("layout %q: no consistent rendering reachable from %v (%v)", ff.layout, t, err)
				return
			}
			t, replaced = p, true
		}
		f.Set(reflect.ValueOf(t))
	}
	return replaced
}

func lossyTimes(w *run.W, raw reflect.Value, label string) {
	in := rtInfo{label: label, family: "alt-time-layout", eq: true, format: true}
	box := reflect.New(raw.Type()).Elem()
	box.Set(raw)
	if p := box.FieldByName("StampNs"); p.IsValid() { // do not alias the pointee of raw
		c := reflect.New(tTime)
		c.Elem().Set(raw.FieldByName("StampNs").Elem())
		p.Set(c)
	}
	if intoLayoutDomains(w, box) {
		w.Count("alt_time_moved_into_layout_domain", 1)
		// the original value: acceptance and equality with what the layout carries, no fixed point
		out := in
		out.noFixedPoint = true
		out.repr = func(os *optSet, b1 []byte) { reprTimes(w, os, in.family, b1, raw) }
		roundTrip(w, raw, optSets[0], out)
	}
	in.repr = func(os *optSet, b1 []byte) { reprTimes(w, os, in.family, b1, box) }
	for _, oi := range []int{0, 3} {
		roundTrip(w, box, optSets[oi], in)
	}
}

func checkTimes(w *run.W, a *timeArgs) {
	for i := range a.Sec {
		t := time.Unix(a.Sec[i], a.Nsec[i]).UTC()
		if a.Off[i] != 100000 {
			t = t.In(time.FixedZone("", a.Off[i]*60))
		}
		if y := t.Year(); y < 0 || y > 9999 {
			continue
		}
		if y := t.UTC().Year(); y < 0 || y > 9999 {
			continue
		}
		tc := t
		box := timeBox{t, t, t, t, t, t, t, t, t, &tc, []time.Time{t}, map[string]time.Time{"k": t}}
		for _, oi := range []int{0, 2, 3, 14} {
			roundTrip(w, reflect.ValueOf(box), optSets[oi], rtInfo{label: "time formats", family: "alt-time", eq: true, format: true,
				repr: func(os *optSet, b1 []byte) { reprTimes(w, os, "alt-time", b1, reflect.ValueOf(box)) }})
		}
		tc2 := t
		lossyTimes(w, reflect.ValueOf(timeLossyBox{t, t, t, t, t, t, t, t, t, t, t, &tc2, t, t, t}), "time layouts carrying part of the value")
		if a.Off[i] == 100000 {
			lossyTimes(w, reflect.ValueOf(timeUTCBox{t, t, t, t}), "time layouts with zone abbreviation (UTC)")
		}
		w.Count("alt_time_values", 1)
	}
	w.Shape("alt|time")
}

// ---------------------------------------------------------------------------------
// bytes

type bytesBox struct {
	Def   []byte
	B64   []byte `json:",format:base64"`
	B64U  []byte `json:",format:base64url"`
	B32   []byte `json:",format:base32"`
	B32H  []byte `json:",format:base32hex"`
	B16   []byte `json:",format:base16"`
	Hex   []byte `json:",format:hex"`
	Arr   []byte `json:",format:array"`
	A0    [0]byte
	A1    [1]byte  `json:",format:base16"`
	A2    [2]byte  `json:",format:base32"`
	A3    [3]byte  `json:",format:base64"`
	A4    [4]byte  `json:",format:array"`
	A5    [5]byte  `json:",format:base32hex"`
	A7    [7]byte  `json:",format:base64url"`
	A16   [16]byte `json:",format:hex"`
	A16d  [16]byte
	Ptr   *[]byte
	PArr  *[3]byte
	Elems [][]byte
	Named map[string][]byte
}

type bytesArgs struct {
	Seed uint64 `json:"seed"`
	Len  int    `json:"len"`
}

func checkBytes(w *run.W, a *bytesArgs) {
	r := rand.New(rand.NewPCG(a.Seed, 0xb17e5))
	mk := func(n int) []byte {
		if n < 0 {
			return nil
		}
		b := make([]byte, n)
		switch r.IntN(4) {
		case 0:
			for i := range b {
				b[i] = 0xff
			}
		case 1: // zero
		default:
			for i := range b {
				b[i] = byte(r.UintN(256))
			}
		}
		return b
	}
	var box bytesBox
	n := a.Len
	box.Def, box.B64, box.B64U, box.B32, box.B32H, box.B16, box.Hex, box.Arr = mk(n), mk(n), mk(n), mk(n), mk(n), mk(n), mk(n), mk(n)
	copy(box.A1[:], mk(1))
	copy(box.A2[:], mk(2))
	copy(box.A3[:], mk(3))
	copy(box.A4[:], mk(4))
	copy(box.A5[:], mk(5))
	copy(box.A7[:], mk(7))
	copy(box.A16[:], mk(16))
	copy(box.A16d[:], mk(16))
	if n >= 0 {
		p := mk(n)
		box.Ptr = &p
		box.PArr = &[3]byte{1, 2, byte(n)}
		box.Elems = [][]byte{mk(n), mk(-1), mk(0), mk(n + 1)}
		box.Named = map[string][]byte{"a": mk(n), "": mk(-1)}
	}
	for _, oi := range []int{0, 2, 3, 4, 7, 8, 13} {
		roundTrip(w, reflect.ValueOf(box), optSets[oi], rtInfo{label: "byte formats", family: "alt-bytes", eq: true, format: true,
			repr: func(os *optSet, b1 []byte) { reprBytes(w, os, "alt-bytes", b1, reflect.ValueOf(box)) }})
	}
	w.Count("alt_bytes_values", 1)
	w.Shape("alt|bytes")
}

func defAlt() {
	run.Def(M, "nums", checkNums)
	run.Def(M, "durs", checkDurs)
	run.Def(M, "times", checkTimes)
	run.Def(M, "bytes", checkBytes)
}

// ---------------------------------------------------------------------------------
// workload

func genAlt(w *run.W, mine func() bool) {
	// integers: dense around 0 and every power-of-two bound, plus random
	r := w.Rand("alt")
	var ints []uint64
	span := int64(w.Pick(40, 300))
	for _, k := range []uint{0, 7, 8, 15, 16, 31, 32, 53, 63} {
		for d := -span; d <= span; d++ {
			ints = append(ints, uint64(int64(1)<<k+d), uint64(-(int64(1)<<k)+d))
		}
	}
	for d := -span; d <= span; d++ {
		ints = append(ints, uint64(d)) // around 0 and around 2^64
	}
	// every power of ten up to 10^19 (where the digit count, on which parsers branch, changes), +-2
	for p := uint64(10); ; p *= 10 {
		for d := int64(-2); d <= 2; d++ {
			ints = append(ints, p+uint64(d), -p+uint64(d))
		}
		if p == 1e19 {
			break
		}
	}
	for i := 0; i < w.Pick(1000, 20000); i++ {
		ints = append(ints, r.Uint64(), r.Uint64()>>uint(r.IntN(64)), uint64(-int64(r.Uint64()>>uint(r.IntN(64)))))
	}
	for _, ty := range []string{"int8", "int16", "int32", "int64", "int", "uint8", "uint16", "uint32", "uint64", "uint", "uintptr"} {
		for i := 0; i < len(ints); i += 200 {
			if mine() {
				w.Do("nums", &numArgs{Type: ty, Bits: ints[i:min(i+200, len(ints))]})
			}
		}
	}
	// floats
	var f64 []uint64
	for _, f := range append([]float64{1e-7, 1e-6, 1e-5, 1e20, 1e21, 1e22, 1e15, 1e16, 1 << 53, 1 << 63, 1, 0.1}, f64Pool...) {
		b := math.Float64bits(math.Abs(f))
		for d := -int64(w.Pick(20, 300)); d <= int64(w.Pick(20, 300)); d++ {
			x := b + uint64(d)
			f64 = append(f64, x, x|1<<63)
		}
	}
	for i := 0; i < w.Pick(3000, 200000); i++ {
		f64 = append(f64, r.Uint64(), math.Float64bits(float64(r.Int64N(1e9))/math.Pow(10, float64(r.IntN(12)))))
	}
	for i := 0; i < len(f64); i += 200 {
		if mine() {
			w.Do("nums", &numArgs{Type: "float64", Bits: f64[i:min(i+200, len(f64))]})
		}
	}
	var f32 []uint64
	for _, f := range []float32{1e-7, 1e-6, 1e-5, 1e20, 1e21, 1e22, 1e7, 1e8, 1 << 24, 1, 0.1, math.MaxFloat32, math.SmallestNonzeroFloat32, 0, 7.038531e-26} {
		b := math.Float32bits(f)
		for d := -int32(w.Pick(20, 300)); d <= int32(w.Pick(20, 300)); d++ {
			x := b + uint32(d)
			f32 = append(f32, uint64(x), uint64(x|1<<31))
		}
	}
	for i := 0; i < w.Pick(3000, 200000); i++ {
		f32 = append(f32, uint64(r.Uint32()))
	}
	for i := 0; i < len(f32); i += 200 {
		if mine() {
			w.Do("nums", &numArgs{Type: "float32", Bits: f32[i:min(i+200, len(f32))]})
		}
	}
	// durations: dense around 0, unit boundaries, ±2^31, ±2^53, ±2^63, fractions with trailing zeros
	var durs []int64
	for _, base := range []int64{0, 1, 999, 1000, 1e6, 1e9, 60e9, 3600e9, 86400e9, 1 << 31, 1 << 53, math.MaxInt64, math.MinInt64, math.MaxInt64 / 1e9 * 1e9, math.MaxInt64 / 60e9 * 60e9, math.MaxInt64 / 3600e9 * 3600e9, 1e18, 9e18} {
		for d := int64(-5); d <= 5; d++ {
			durs = append(durs, base+d, -(base + d))
		}
	}
	for i := 0; i < w.Pick(6000, 60000); i++ {
		durs = append(durs, int64(r.Uint64()), r.Int64N(1e12)-5e11, r.Int64N(1000)*[]int64{1, 10, 100, 1e3, 1e4, 1e6, 1e7, 1e9, 1e10, 60e9, 3600e9}[r.IntN(11)], int64(r.Uint64()>>uint(r.IntN(64))))
	}
	for i := 0; i < len(durs); i += 200 {
		if mine() {
			w.Do("durs", &durArgs{Vals: durs[i:min(i+200, len(durs))]})
		}
	}
	// times
	ta := &timeArgs{}
	add := func(sec, nsec int64, off int) {
		ta.Sec, ta.Nsec, ta.Off = append(ta.Sec, sec), append(ta.Nsec, nsec), append(ta.Off, off)
	}
	offs := []int{100000, 0, 60, -60, 330, -210, 45, 23*60 + 59, -(23*60 + 59), 14 * 60, -12 * 60, 1}
	for _, sec := range secPool {
		for _, ns := range nsecPool {
			for d := int64(-1); d <= 1; d++ {
				add(sec+d, ns, offs[(int(sec%7)+int(ns%5)+7)%len(offs)])
				add(sec+d, ns, 100000)
			}
		}
	}
	for i := 0; i < w.Pick(8000, 40000); i++ {
		sec := r.Int64N(253402300799+62167219200) - 62167219200
		ns := r.Int64N(1e9)
		if i%3 == 0 {
			ns = nsecPool[r.IntN(len(nsecPool))]
		}
		off := 100000
		if i%2 == 0 {
			off = r.IntN(2*1439+1) - 1439
		}
		add(sec, ns, off)
	}
	for i := 0; i < len(ta.Sec); i += 100 {
		j := min(i+100, len(ta.Sec))
		if mine() {
			w.Do("times", &timeArgs{Sec: ta.Sec[i:j], Nsec: ta.Nsec[i:j], Off: ta.Off[i:j]})
		}
	}
	// bytes
	for rep := 0; rep < w.Pick(10, 60); rep++ {
		for n := -1; n <= 70; n++ {
			seed := r.Uint64()
			if mine() {
				w.Do("bytes", &bytesArgs{Seed: seed, Len: n})
			}
		}
		for _, n := range []int{255, 256, 257, 1000, 4096, 5000} {
			seed := r.Uint64()
			if mine() {
				w.Do("bytes", &bytesArgs{Seed: seed, Len: n})
			}
		}
	}
}
